From FP Require Import Lexer Parser ShowPT Digest Formatter.
From Coq Require Import String List NArith.
Import ListNotations.
Open Scope string_scope.
Set Printing Width 100000000.
Set Printing Depth 100000000.
Definition show_fres (r : fres) : string :=
  match r with
  | FOk s => "OK:" ++ sh_escaped s ""
  | FErr s => "ERR:" ++ sh_escaped s ""
  | FPanic p => "PANIC:" ++ p
  end.
Definition check (rs : list rune) : string := digest (show_fres (format_res rs)).
Definition full (rs : list rune) : string := show_fres (format_res rs).
Eval vm_compute in ("<<<M4268>>>" ++ check (runes_of_ascii "options {
    BodyLength = string;
    trueish = ""it's""
    i8i8 = ""// no comment""
    // trailing space 
    roots = """ ++ [28040; 24687]%N ++ runes_of_ascii """;// a // b
    falsey = '\x00';
}

packet metadata {
    packetx {
        repeat rootA x_y_z `tab	here`,
        repeat pack,
        Logon {
            u16 msg_type,
            u8 BodyLength `
            `,
            zchar[3] int,
        },
        a1 T,
    },// `tick` ""quote"" 'q'
    repeat f32 o `crlf
    line`,
    i32 rootA,
    int32 matchKey,
    @leftPad()
    x_y_z {
        match body as u8x {
            [""{,}""] : u8x,
            3 : u8x,
            4294967296 : As,
            [""CRC32""] : A,
            255 : body,
            // c
            42 : x_y_z,
        },
    },
    repeat body float,
}// trailing space 

packet trueish {
    stringy @lengthOf(float) `{ , }`,
    repeat i64_,
    uint16 string_ @calculatedFrom(""\" ++ [233]%N ++ runes_of_ascii """) `
    `,// a // b
    @tag(0123456789)
    char[4294967296] calculatedFrom @lengthOf(int) `line1
    line2`,// packet A { u8 x, }
    match rootA as asx {
        ""\" ++ [233]%N ++ runes_of_ascii """ : f32a,
        ""\n"" : rootA,
        [""a\\"", 0123456789] : crc,
        1 : msg_type,
        ""a	b"" : stringy,
    },
    repeat len {
        string_ {
            i16 _x,
            _x {
                repeat uint8x a1,
                char[42] zchar `say ""hi""`,
                zchar[7] uint8x,
            },
            repeat i8i8 body,
        },
        uint8 T @lengthOf(repeatCount),
    },
}

root packet asx {
    @calculatedFrom(""x y"")
    repeat pack,
    repeat string_ {
        u8 metadata,
    },
    @calculatedFrom(""abc"")
    roots @lengthOf(T) ``,
    match asx as uint8x {
        3 : u8x,
    },// trailing space 
    u8x @calculatedFrom(""{,}""),
}

packet o {
    string Logon,
    charz metadata,
    match len as float {
        255 : uint8x,
        ""CRC32"" : As,
        1 : body,
        7 : options1,
        [""" ++ [128512]%N ++ runes_of_ascii """, ""it's""] : repeatCount,
    },
    @leftPad()
    @calculatedFrom(""x y"")
    @leftPad(' ')
    repeat lengthOf,
    zchar[42] Logon @calculatedFrom(""""),
}
//x")).
Eval vm_compute in ("<<<M4076>>>" ++ check (runes_of_ascii "// top
options {
    // c1
    StringPrefixLenType = u8;
    ArrayPrefixLenType = u32;// c9
    FixedStringPadFromLeft = false;
    // c13
    FixedStringPadChar = ' ';// c17a
    // c17b
}// c18a

// c18b
packet Party {
    // c21a
    // c21b
    repeat i16 Qty,// c25a
    // c25b
    repeat string Tail,
    i8 OrderId,// c32a
    // c32b
    i8 msgKind,// c35a
    // c35b
}

packet Ack {
    // c39
    Party,
    repeat InRef20 {
        Party,
        int8 tag7,
        // c49
        char[5] OrderId,
        zchar[7] Tail,// c59
        char[] count,// c62a
        // c62b
        InPrice45 {
            // c64
            Party,// c66a
            // c66b
            char[1] Px,
            // c71
        },
    },// c75a
    // c75b
    char[12] price,// c80
    int8 sym,// c83
}

packet Reject {
    // c87
    repeat InPrice47 {
        // c90a
        // c90b
        Party,// c92a
        // c92b
    },// c94a
    // c94b
    zchar[4] x,// c99
    repeat Ack,// c102
    zchar[2] Ref,
    // c107
    repeat Party,// c110a
    // c110b
}// c111

packet Cancel {
    // c114a
    // c114b
    Reject,
    // c116
    repeat string f1,
    // c120
    uint16 OrderId,
    // c123
    u8 Acct,// c126a
    // c126b
    int8 msgKind,
}// c130

root packet Fill {
    u8 count,
    char[] tag7,
    // c140
    zchar[7] Acct,// c145a
    // c145b
    u32 OrderId,
    // c148
    u32 Note @lengthOf(Body),// c154a
    // c154b
    match OrderId as Body {
        // c159a
        // c159b
        106 : Cancel,
        196 : Reject,
        // c167
        74 : Party,
        // c171
        75 : Ack,
    },// c177a
    // c177b
}// c178a
// c178b")).
Eval vm_compute in ("<<<M4319>>>" ++ check (runes_of_ascii "
packet	Z9_
{
	repeat

charz { match 
chars 
as
	T	{  // trailing space 

""// no comment""  //
      : float ,
42 :

string_,
    } 
, 	 // " ++ [128512]%N ++ runes_of_ascii " emoji
	}

,
	@calculatedFrom( ""CRC32""	)	trueish @lengthOf(
	As  )
    `" ++ [28040; 24687; 31867; 22411]%N ++ runes_of_ascii "`  ,	@lengthOf(_x
	)
falsey @lengthOf(zchar	) `two words` 
, 
@lengthOf( x)

string chars

@lengthOf(

    int 
)

    ,
	f32

options1  
      // @lengthOf(
  , @lengthOf( 

// `tick` ""quote"" 'q'
	Pad

)
match

    len

    as 
leftPad {
4294967296
: 

    /// triple
	rootA  42 : Z9_
    ,

    }  , 
}
    options
{ T= true}
    MetaData 
repeatCount {
char[]  string_
    `" ++ [233]%N ++ runes_of_ascii "`  ,f64
	Z9_
,f32  _x ,

    }  /// triple
packet

    chars{

    match
    trueish
as asx 	 /// triple
    {0123456789
:
    chars

,
    }
	,
@tag(

    10
) repeat
rootA `" ++ [233]%N ++ runes_of_ascii "`,

zchar[255	]  MetaDataX `doc`

    ,u16 
Header `" ++ [233]%N ++ runes_of_ascii "`

    ,	@leftPad
    (
    ' '

    ) match  trueish

    as	a1 {
""" ++ [28040; 24687]%N ++ runes_of_ascii """ : 
As	,

1:pack
    ,
1 :
repeatCount ,[ 7
] :// packet A { u8 x, }
	  u
,
},	@lengthOf(

    tag
)  u128 { int32 	 // " ++ [128512]%N ++ runes_of_ascii " emoji
	tag @lengthOf(
	u8x

)
	,	}  ,	// trailing space 
      @lengthOf( u 
)

@calculatedFrom( 
""a	b"" )
    @tag( 
00

) // c
i64
	calculatedFrom @lengthOf(	calculatedFrom ) `" ++ [28040; 24687; 31867; 22411]%N ++ runes_of_ascii "` 
,
}packet pack 
    // packet A { u8 x, }
  {
    @calculatedFrom( 
""\n""// `tick` ""quote"" 'q'
      )

    string
	i8i8 
`line1
line2`
,  }
")).
Eval vm_compute in ("<<<M4469>>>" ++ check (runes_of_ascii "// top
options {
    // c1
    LittleEndian = false;// c5a
    // c5b
    StringPrefixLenType = u16;// c9
    ArrayPrefixLenType = u64;
    FixedStringPadFromLeft = true;// c17a
    // c17b
    FixedStringPadChar = ' ';// c21
}// c22a

// c22b
packet Logon {
    // c25
    u16 Tail,
    repeat string x,
    i16 count,
    @leftPad('0')
    // c39a
    // c39b
    char[3] Note,
}// c45

packet Fill {
    // c48
}

// c49
packet Heartbeat {
    // c52
}// c53

packet Reject {
    // c56
    string msgKind,// c59a
    // c59b
    repeat Logon,// c62
    InFlags25 {
        repeat InPrice29 {
            u8 price,// c70a
            // c70b
            Logon,
            repeat char[1] Note,
        },// c80
        char[] x,// c83
        Fill,// c85
    },
    repeat Heartbeat,// c90a
    // c90b
}// c91a

// c91b
root packet Order {
    InNote88 {
        // c97
        repeat i32 Acct,
        // c101
        repeat i16 clOrdID,// c105a
        // c105b
        repeat Logon,
    },// c110a
    // c110b
    u16 tag7,
    // c113
    match tag7 as Body {
        [14, 22] : Logon,
        // c126
        55 : Heartbeat,
        // c130
        93 : Reject,
        // c134a
        // c134b
        13 : Fill,
        // c138
    },// c140a
    // c140b
}
// c141")).
Eval vm_compute in ("<<<M4094>>>" ++ check (runes_of_ascii "  packet
options1{
    body int	`" ++ [28040; 24687; 31867; 22411]%N ++ runes_of_ascii "` 
,	}

    MetaData 
T// " ++ [27880; 37322]%N ++ runes_of_ascii "
{ 
leftPad 
charz	,
o
    roots  ,

} packet float { @lengthOf( x_y_z
)

repeat	i8
	    // `tick` ""quote"" 'q'
  	calculatedFrom 
`" ++ [233]%N ++ runes_of_ascii "`  , repeat
stringy
    `
`  ,  @tag(007
)
	    /// triple
	  @rightPad
	(' ' ) f32a
    @lengthOf(  len	)
	,

@lengthOf(  u8x

    ) match
chars
as metadata
	{""x y""  :
matchKey
	,  // trailing space 
		""a\""b""  :	zchar
    ,  [	""a\\"" ,
4294967296 ]

    :	calculatedFrom
,
	1
:T

,
	7
    : i8i8
, }

, u128
	tag
	`" ++ [233]%N ++ runes_of_ascii "` 
,

T 
@calculatedFrom(
	""{,}"")
`doc` 
, 
  /// triple
// c
		} packet
    uint8x{  } root // `tick` ""quote"" 'q'
		packet  zchar

{
    @tag(
// packet A { u8 x, }
1 ) match	packetx as calculatedFrom{	007 
:

chars, """ ++ [128512]%N ++ runes_of_ascii """
:
crc

    , ""a	b"" :

Foo// @lengthOf(
    ,

    42:

    u8x , [""\" ++ [233]%N ++ runes_of_ascii """ ] 
:  u8x

,
[
    ""it's""  , ""1""

, 
1
,

""\n""
	,
	00]

: MetaDataX

    , } ,@tag(00  ) char

    x
,

@leftPad(

    '\x00' 
) @calculatedFrom(  """ ++ [28040; 24687]%N ++ runes_of_ascii """

)@lengthOf( 
repeatCount  //

	) u128
	falsey `doc`
,  // c
    falsey@calculatedFrom( """" 
)
    ,
float64 
Logon  @calculatedFrom(
""" ++ [28040; 24687]%N ++ runes_of_ascii """ )

    //x
  	// a // b
    `it's`, } ")).
Eval vm_compute in ("<<<M1338>>>" ++ check (runes_of_ascii "
packet
    crc { //x
u16 // " ++ [128512]%N ++ runes_of_ascii " emoji
charz , @leftPad (' ' )match
    rootA as // packet A { u8 x, }
BodyLength{
    ""`tick`"":
    u , }
,
@tag( 1 ) Logon `" ++ [233]%N ++ runes_of_ascii "`, uint16 metadata
`// not a comment` , //
@rightPad  ( )char[00
] body
// @lengthOf(
// trailing space 
,  BodyLength {	match f32a
as // packet A { u8 x, }
calculatedFrom
// a // b
// " ++ [128512]%N ++ runes_of_ascii " emoji
{255 :
len , 65535 :i8i8
// " ++ [128512]%N ++ runes_of_ascii " emoji
// " ++ [27880; 37322]%N ++ runes_of_ascii "
007	:
    uint8x , }
    //
    , repeat repeatCount
// @lengthOf(
/// triple
{ repeat	char[ 1 ] string_ , repeat
string roots , falsey len //x
`
` , repeat i64
calculatedFrom ,
    }, u16//
leftPad @calculatedFrom(
    ""x y"" //	t
)
`// not a comment` , } // `tick` ""quote"" 'q'
, repeat zchar {
f32 packetx @lengthOf(
asx
)
    , a1
stringy
    , string_
BodyLength
    // packet A { u8 x, }
    `" ++ [233]%N ++ runes_of_ascii "`
    , },@rightPad
( '0' )repeat
o{repeat float f32a ,
char
packetx,char[] stringy// " ++ [27880; 37322]%N ++ runes_of_ascii "
, } , } root
packet float // trailing space 
{ uint16
    body  @lengthOf( body ) , match a1 as Header
{""1""
    : Z9_ , } , } options	{
MetaDataX	= 255	; charz = '0' ; matchKey = ""`tick`""
; rootA
=//x
'0'  ; }
")).
Eval vm_compute in ("<<<M957>>>" ++ check (runes_of_ascii "packet options1 {body int
`" ++ [28040; 24687; 31867; 22411]%N ++ runes_of_ascii "` ,
    }MetaData T // " ++ [27880; 37322]%N ++ runes_of_ascii "
{ leftPad
charz , o roots	, } packet float
{ @lengthOf( x_y_z )repeat i8
    // `tick` ""quote"" 'q'
    calculatedFrom
`" ++ [233]%N ++ runes_of_ascii "`
,repeat stringy `
` , @tag( 007)
    /// triple
    @rightPad
    ( ' ' ) f32a
    @lengthOf(
len ) , @lengthOf(  u8x )	match
chars
as metadata { ""x y""
    :
matchKey, // trailing space 
""a\""b"" :
zchar
, [
    ""a\\"", 4294967296 ] :
calculatedFrom , 1  : T,
    7
: i8i8 ,
}
, u128 tag
    `" ++ [233]%N ++ runes_of_ascii "`,T
@calculatedFrom( ""{,}"" )
    `doc`,
/// triple
// c
}
    packet  uint8x
{
    }root // `tick` ""quote"" 'q'
packet zchar { @tag(
    // packet A { u8 x, }
    1 )
match packetx as
calculatedFrom { 007 : chars , """ ++ [128512]%N ++ runes_of_ascii """ :  crc,  ""a	b""
: Foo // @lengthOf(
,
    42:u8x ,
    [ ""\" ++ [233]%N ++ runes_of_ascii """] :
u8x , [  ""it's"" , ""1"" ,
1, ""\n""	,
00
]:
MetaDataX ,
} , @tag( 00 )
char x ,
@leftPad( '\x00')
    @calculatedFrom( """ ++ [28040; 24687]%N ++ runes_of_ascii """) @lengthOf(repeatCount //
)  u128 falsey`doc`,// c
falsey @calculatedFrom( """" ),float64 Logon	@calculatedFrom( """ ++ [28040; 24687]%N ++ runes_of_ascii """ )
//x
// a // b
`it's`,
    }
")).
Eval vm_compute in ("<<<M3535>>>" ++ check (runes_of_ascii "options {
    StringPrefixLenType = u32;
    ArrayPrefixLenType = u8;
    FixedStringPadFromLeft = false;
}
packet Logon {
    i8 venue,
    int16 f1,
    zchar[8] Acct,
    repeat InNote16 {
        InQty73 {
            float32 tag7,
        },
        f32 Acct,
        zchar[5] sym,
    },
    uint16 Side2,
    i32 lastPx,
}
packet Fill {
    repeat InOrderid15 {
        zchar[8] sym,
        repeat char[2] OrderId,
        repeat Logon,
        InQty82 {
            char[] Tail,
            repeat Logon,
            float64 price,
            f64 Side2,
        },
        char[12] venue,
        char[4] Px,
    },
    @rightPad('0') char[2] venue,
    InPrice99 {
        InAcct72 {
            u8 pad0,
        },
        u32 OrderId,
        Logon,
    },
}
root packet Reject {
    zchar[9] msgKind,
    u32 venue,
    u16 seqNo @lengthOf(Body),
    match venue as Body {
        57 : Fill,
        8 : Logon,
    },
    u16 Tail @calculatedFrom(""CR\
C32""),
}
")).
Eval vm_compute in ("<<<M749>>>" ++ check (runes_of_ascii "root packet chars	{ @tag( 1) zchar[ 0123456789
    ] MetaDataX,f32 Packet
//x
/// triple
, @rightPad // a // b
(	' ' ) repeat chars {o stringy	`crlf
line`
    , matchKey int ,},} packet
// trailing space 
//
uint8x {
match stringy  as
    len
{  ""CRC32"" : trueish // c
, [ 3 ,	42]  :
x_y_z	""CRC32"" : leftPad	,// " ++ [128512]%N ++ runes_of_ascii " emoji
[ 3
,
42, ""a\\"", ""1""	,""it's""	, 255 ,  ""CRC32""
,
    0123456789 ] // c
:
    uint8x ,
    //	t
    [ 42,// " ++ [128512]%N ++ runes_of_ascii " emoji
""a	b"" ,7 ,
    65535
    , 42 ,
"""",""""
    ]: x_y_z },
    repeat
    trueish
    { repeat As	`u8 x,`, } ,repeat chars `two words`
, @rightPad  ( '\x00' ) repeat
    f64 _x `" ++ [233]%N ++ runes_of_ascii "`  , repeat i16 //
u `say ""hi""` , // c
@lengthOf(
x
) i8i8{ match
options1	as a1 { 1 : u128 , }, }
    , string
    chars, repeat char[] Logon `it's` ,u8
float @lengthOf(
/// triple
// c
o ) `{ , }`,
@lengthOf(int	)@tag(	1)
asx
    // `tick` ""quote"" 'q'
    @calculatedFrom(""\" ++ [233]%N ++ runes_of_ascii """) , // `tick` ""quote"" 'q'
}
")).
Eval vm_compute in ("<<<M3510>>>" ++ check (runes_of_ascii "options {
    LittleEndian = true;
    StringPrefixLenType = u32;
    FixedStringPadChar = '0';
}
packet Logout {
    repeat InMsgkind49 {
        u8 pad0,
    },
    repeat char[5] seqNo,
    repeat u8 price,
}
packet Party {
    zchar[7] Qty,
}
packet Logon {
    repeat InRef10 {
        string price,
        char[] sym,
        repeat Logout,
    },
    repeat char[3] count,
    repeat Party,
    char[] tag7,
    @rightPad('0') char[2] clOrdID,
}
packet Order {
    InTail13 {
        Party,
    },
    repeat char[4] count,
}
root packet Cancel {
    Logout,
    @leftPad('0') char[9] msgKind,
    string lastPx,
    string tag7,
    zchar[1] OrderId,
    repeat Party,
    u16 sym,
    u16 Acct @lengthOf(Body),
    match sym as Body {
        [24, 44] : Logout,
        160 : Order,
        91 : Logon,
        43 : Party,
    },
    u16 Tail @calculatedFrom(""CRC32""),
}
")).
Eval vm_compute in ("<<<M4141>>>" ++ check (runes_of_ascii "packet  // " ++ [128512]%N ++ runes_of_ascii " emoji
  BodyLength
    {	zchar[ 
10]
x

    @calculatedFrom(  """"	)
,
@lengthOf( string_ )

metadata  , 
@lengthOf(
    trueish
)	repeat
	chars
	{ zchar[

00

] 
T
@calculatedFrom(
""a	b"")`crlf
line`
	,
char[	// @lengthOf(

	0
	]	chars  , }
,
uint8 
// a // b
    	rootA  @lengthOf(  int

    )
, 
@lengthOf(

packetx

    )
	char[

007	]

uint8x
@calculatedFrom( ""\" ++ [233]%N ++ runes_of_ascii """
	)  , u

    {
char[]
    Pad

@calculatedFrom( ""\n""	)  ,}  ,
char[
	10

]  pack

@lengthOf(

_x //	t
    )

    `two words` ,
char[] 
Logon

@lengthOf(body

    )
    , 
@lengthOf(
matchKey )chars
	{ uint16	pack	,char[
4294967296] 

// trailing space 
	/// triple
	options1 @calculatedFrom(
""CRC32"" ) // packet A { u8 x, }
	,
u32 
i64_`say ""hi""`	,  lengthOf `// not a comment`
	,

    },
options1@lengthOf(  x
    )
	, } ")).
Eval vm_compute in ("<<<M4028>>>" ++ check (runes_of_ascii "packet a1 {
    @lengthOf(packetx)
    A @lengthOf(T) `tab	here`,
    zchar[42] Header,// " ++ [128512]%N ++ runes_of_ascii " emoji
    @leftPad('0')
    match o as int {
        1 : Logon,
    },
    repeat packetx `line1
        line2`,
    string x @calculatedFrom(""CRC32""),
    i8 repeatCount `// not a comment`,
    match i64_ as x_y_z {
        3 : len,
        4294967296 : u8x,
        00 : crc,
        [
            10, 007, 3, 00, """ ++ [128512]%N ++ runes_of_ascii """,
            0123456789, 0123456789
        ] : tag,
        42 : repeatCount,
    },
    @lengthOf(f32a)
    @lengthOf(stringy)
    @calculatedFrom(""\" ++ [233]%N ++ runes_of_ascii """)
    repeat i64 As,
    @rightPad()
    repeat leftPad {
        uint32 crc @calculatedFrom(""" ++ [233]%N ++ runes_of_ascii "t" ++ [233]%N ++ runes_of_ascii """),
    },
}

MetaData Pad {
    As pack,
}

root packet len {
    @calculatedFrom(""\" ++ [233]%N ++ runes_of_ascii """)
    int64 a1 @calculatedFrom(""CRC32""),
}
// c")).
Eval vm_compute in ("<<<M4167>>>" ++ check (runes_of_ascii "

  packet

    A{ repeat
    o Z9_

    ,
	@calculatedFrom(""" ++ [233]%N ++ runes_of_ascii "t" ++ [233]%N ++ runes_of_ascii """
)@calculatedFrom(	""a\\""

) 
@tag( 42)match Header
as 
    // packet A { u8 x, }
tag 
{
""`tick`""
:As
,
    [""\" ++ [233]%N ++ runes_of_ascii """
	]
:
asx[

    3,
    ""1""
, ""\n""

,007	,""\n"" ]
	:	options1 ""abc"" :
    //	t
/// triple
	falsey  ,	4294967296
:metadata ,	}
,
@tag(

    4294967296

    )	tag

@calculatedFrom(  """ ++ [128512]%N ++ runes_of_ascii """
),

    }
// `tick` ""quote"" 'q'
    packet
    stringy

{
char[]

packetx 
`
` ,string	leftPad@lengthOf(float )  ,
    @tag(	//	t
  65535
) @lengthOf(
	packetx

)

    @lengthOf(

    Pad  ) 

    // trailing space 

	// " ++ [27880; 37322]%N ++ runes_of_ascii "
		repeatCount
	BodyLength , // a // b
  	char[]

A
    @lengthOf(	// packet A { u8 x, }
	a1) `two words`,

} packet  falsey	// " ++ [27880; 37322]%N ++ runes_of_ascii "
      {

    }

")).
Eval vm_compute in ("<<<M395>>>" ++ check (runes_of_ascii "root packet x { f32
uint8x @calculatedFrom(""it's"" ) , @calculatedFrom(""CRC32"" ) uint8x
// packet A { u8 x, }
// c
`line1
line2`,match
    // packet A { u8 x, }
    uint8x as falsey { 0	:
    chars """ ++ [128512]%N ++ runes_of_ascii """// packet A { u8 x, }
: roots
, 0123456789 : stringy ,""x y""
    : Logon
, } ,  } packet	metadata {  match calculatedFrom as repeatCount // c
{
""it's"" : calculatedFrom 4294967296
    : int,	} ,
    string packetx
    ,
match T // " ++ [128512]%N ++ runes_of_ascii " emoji
as pack {
// `tick` ""quote"" 'q'
// packet A { u8 x, }
""it's"":
    //
    Z9_
, 00:Packet	,
"""" : leftPad , [ 65535]  : pack, }
,
    }
    // " ++ [128512]%N ++ runes_of_ascii " emoji
    MetaData zchar	{Logon uint8x `" ++ [233]%N ++ runes_of_ascii "` ,
stringy leftPad , char[] // packet A { u8 x, }
As `" ++ [28040; 24687; 31867; 22411]%N ++ runes_of_ascii "`
    ,_x trueish  `two words` , u8 o`
`, } 	 ")).
Eval vm_compute in ("<<<M793>>>" ++ check (runes_of_ascii "MetaData options1 { float64 //
msg_type
`say ""hi""`
    , u32 x,f64
// a // b
//	t
tag ,
} root packet
    chars
    /// triple
    {
}
    packet
    repeatCount { @lengthOf(
a1	) rootA @lengthOf( crc
// trailing space 
// @lengthOf(
) , } root
packet x
    {	chars @lengthOf( msg_type
    ) ,
    // trailing space 
    int16 metadata @lengthOf(
    // @lengthOf(
    Pad ) , @tag( 3) @lengthOf(
a1	)uint8
options1 ,
    repeat string _x `" ++ [233]%N ++ runes_of_ascii "`
,string f32a@calculatedFrom(
""{,}""
)
    `{ , }` ,@tag( 4294967296	) @calculatedFrom(""// no comment""
)@leftPad ( ) BodyLength
@lengthOf(
    falsey
    // a // b
    ) `a\`, /// triple
repeat string
int `
`
    // " ++ [27880; 37322]%N ++ runes_of_ascii "
    , u8
    lengthOf , }")).
Eval vm_compute in ("<<<M3958>>>" ++ check (runes_of_ascii "packet trueish {
    i64 T `it's`,
    repeat _x {
        char[] charz,
        leftPad {
            u64 uint8x ``,
            // c
        },
    },
    string asx @calculatedFrom(""1"") `tab	here`,
    @lengthOf(T)
    match A as msg_type {
        [42, ""// no comment"", ""x y"", """ ++ [128512]%N ++ runes_of_ascii """, ""CRC32""] : Logon,
        255 : matchKey,
    },// trailing space 
    uint32 stringy,
    int64 msg_type @calculatedFrom(""" ++ [233]%N ++ runes_of_ascii "t" ++ [233]%N ++ runes_of_ascii """) `tab	here`,
    repeat Logon {
        repeat roots Header ``,
        u16 falsey `a\`,
    },
    @lengthOf(leftPad)
    // a // b
    tag @calculatedFrom(""CRC32"") `" ++ [233]%N ++ runes_of_ascii "`,// @lengthOf(
}

MetaData Logon {
    float32 int,
}

options {
    // a // b
}")).
Eval vm_compute in ("<<<M998>>>" ++ check (runes_of_ascii "  root packet Packet {
u128
    `{ , }`
, // @lengthOf(
@calculatedFrom(""\n"")char[
65535	] float@calculatedFrom(
    /// triple
    ""abc"" ) , f32a
, f32 i64_, @leftPad( ' '
)
    @lengthOf( body ) @leftPad ( ' '
) u64 x `doc`,char[ 00]
int@lengthOf(roots
)`tab	here` , float64 msg_type,
    @calculatedFrom(
""a\\""
) @leftPad (
// a // b
// packet A { u8 x, }
) match
    zchar as
_x{
    10:
asx
,42
    //
    :  A , 00 : options1
    , [007]
: chars, 65535
// @lengthOf(
//	t
: _x [ ""a\""b"" ] : pack , } ,@tag( 10 )// " ++ [128512]%N ++ runes_of_ascii " emoji
match o
    as  a1	{ 255
// trailing space 
// packet A { u8 x, }
:
    lengthOf ,10 :
float, } ,}
")).
Eval vm_compute in ("<<<M994>>>" ++ check (runes_of_ascii "packet trueish { i64 T// @lengthOf(
`it's` ,
    repeat	_x {
    char[]
charz ,
leftPad
{ u64 uint8x `` ,
    // c
    } ,	} ,string	asx @calculatedFrom( ""1"" )`tab	here` , @lengthOf( T )match A
as
msg_type
{[42
    , ""// no comment"" ,""x y""	,
""" ++ [128512]%N ++ runes_of_ascii """ , ""CRC32"" ] :
Logon
    ,
255
    :matchKey , }, // trailing space 
uint32 stringy , int64 msg_type @calculatedFrom(""" ++ [233]%N ++ runes_of_ascii "t" ++ [233]%N ++ runes_of_ascii """ ) `tab	here`
    , repeat Logon {repeat roots Header`` , u16 falsey`a\`
    ,
} ,@lengthOf(leftPad )
    // a // b
    tag @calculatedFrom( //x
""CRC32"" ) `" ++ [233]%N ++ runes_of_ascii "` ,// @lengthOf(
}
    MetaData Logon {float32
int,} options {// a // b
} 	 ")).
Eval vm_compute in ("<<<M3502>>>" ++ check (runes_of_ascii "packet Logon // c1
{ // c2
string // c3a
  // c3b
user // c4
, // c5a
  // c5b
}
    // c6
root packet Frame // c9a
  // c9b
{
    // c10
u8
    // c11
K , // c13
match
    // c14
K
    // c15
as
    // c16
Body // c17a
  // c17b
{ 1 // c19a
  // c19b
: Logon // c21
, // c22a
  // c22b
2 :
    // c24
Logout
    // c25
, } ,
    // c28
Tail , } packet // c32
Logout
    // c33
{ // c34
u16 // c35a
  // c35b
reason // c36a
  // c36b
, // c37
} // c38a
  // c38b
packet // c39a
  // c39b
Tail // c40
{ u32
    // c42
crc , // c44a
  // c44b
} // c45a
  // c45b
")).
Eval vm_compute in ("<<<M19>>>" ++ check (runes_of_ascii "//
packet
/// triple
// a // b
chars {int16 int ,	match calculatedFrom as
    zchar { 4294967296:
i8i8 , [
""// no comment"" ] :stringy, ""a\""b"" :	u128 007
// @lengthOf(
//x
: msg_type , 65535
    : a1 ,""""	: u128} ,
Packet @lengthOf( f32a )
`it's` , int16 stringy`u8 x,` , roots @lengthOf( trueish
) , match charz as A
    {	10
    :A ,
} ,  string
    Header@calculatedFrom( ""`tick`"" )`doc` , }MetaData	roots { asx metadata,	int64 MetaDataX , char[  42 ] o `// not a comment` ,
    f32 packetx ,rootA As `it's` , msg_type tag
, }

")).
Eval vm_compute in ("<<<M4035>>>" ++ check (runes_of_ascii "// a // b
MetaData crc {
    uint8x len,
    string BodyLength,
    asx body `" ++ [233]%N ++ runes_of_ascii "`,
    calculatedFrom i8i8,
}

packet Header {
    @tag(3)
    int64 uint8x,
    repeat lengthOf {
        match x as body {
            """ ++ [128512]%N ++ runes_of_ascii """ : trueish,
            3 : MetaDataX,
            [""it's"", """"] : o,
            ""CRC32"" : i8i8,
        },
    },
    i64 lengthOf `u8 x,`,
}

packet pack {
    @rightPad()
    @tag(255)
    repeat string leftPad `crlf
        line`,
}

options {
}

packet Packet {
    lengthOf,
}")).
Eval vm_compute in ("<<<M1169>>>" ++ check (runes_of_ascii "root
    packet metadata {
repeat
    zchar[ 255 ]	matchKey `line1
line2` ,
@tag( 0
)
    // " ++ [128512]%N ++ runes_of_ascii " emoji
    match // packet A { u8 x, }
A as msg_type{ ""packet"":len 255 : roots	""" ++ [233]%N ++ runes_of_ascii "t" ++ [233]%N ++ runes_of_ascii """ : leftPad, ""CRC32"": Z9_
    , //	t
} , @leftPad
(' ' ) char[] Logon , //x
char[3 ]T
`{ , }`	, uint64 metadata @calculatedFrom( // `tick` ""quote"" 'q'
""1"" ) , @rightPad	()
match
    u as len  {[ ""\" ++ [233]%N ++ runes_of_ascii """ ,
    ""1"" ] : f32a
    }, u128 falsey , @calculatedFrom(	""" ++ [28040; 24687]%N ++ runes_of_ascii """ )As
    @lengthOf( falsey ) ,
}")).
Eval vm_compute in ("<<<M384>>>" ++ check (runes_of_ascii "packet f32a { } packet trueish
{ @rightPad
// " ++ [27880; 37322]%N ++ runes_of_ascii "
// c
( ) rootA
@lengthOf(	Pad
    )
,@tag(
0 ) Logon @lengthOf(	trueish	) , As
    `
`,
repeat int8
    // " ++ [128512]%N ++ runes_of_ascii " emoji
    Logon,
@tag( 255
) // `tick` ""quote"" 'q'
char
    A ,i64
Header , match  Z9_
as falsey {
65535: x_y_z""CRC32"": // c
float	,}  , i8 len , @tag(  7 ) // `tick` ""quote"" 'q'
repeat rootA x_y_z
,
@tag(
    00) zchar[ 007 // " ++ [128512]%N ++ runes_of_ascii " emoji
] x_y_z`a\`  , } MetaData roots  { } // `tick` ""quote"" 'q'")).
Eval vm_compute in ("<<<M1139>>>" ++ check (runes_of_ascii "root
packet metadata{// packet A { u8 x, }
@rightPad( ' ' // a // b
) @leftPad (
'\x00')f64 a1
    `u8 x,`
, // trailing space 
char[ 7
    ] metadata @lengthOf( Logon
    )  ,@calculatedFrom( ""\n""
    ) char[
    4294967296 ] repeatCount
, @tag( 65535)
zchar[ 255 ] chars	@lengthOf(stringy )	, zchar // packet A { u8 x, }
{ zchar @lengthOf(  crc
/// triple
// " ++ [27880; 37322]%N ++ runes_of_ascii "
) // a // b
,
uint64
    Packet`crlf
line` ,
    } ,
    /// triple
    } 	 ")).
Eval vm_compute in ("<<<M1297>>>" ++ check (runes_of_ascii "root
packet u8x { @calculatedFrom( ""{,}"" ) // trailing space 
@rightPad (
    '\x00')@leftPad
('0' )	match
    len
as options1 {  007 // " ++ [27880; 37322]%N ++ runes_of_ascii "
: charz ,""abc"":
    options1 }
,
@tag(	007 // `tick` ""quote"" 'q'
) char[ 42] Foo @calculatedFrom(
""" ++ [233]%N ++ runes_of_ascii "t" ++ [233]%N ++ runes_of_ascii """ ),  } //
packet
//x
// `tick` ""quote"" 'q'
u8x
    {
char[]
// " ++ [27880; 37322]%N ++ runes_of_ascii "
// c
body , uint32 // " ++ [27880; 37322]%N ++ runes_of_ascii "
packetx ,  @lengthOf( o) i8 calculatedFrom @calculatedFrom( ""CRC32"" ) ,
    } // " ++ [128512]%N ++ runes_of_ascii " emoji")).
Eval vm_compute in ("<<<M1348>>>" ++ check (runes_of_ascii "MetaData
asx {
    //x
    } packet falsey { @tag( 00 ) char[
1 ] options1`crlf
line`, // `tick` ""quote"" 'q'
@tag( 3
) asx {
    Header @lengthOf( pack )
    `say ""hi""` ,	match Pad as calculatedFrom
    // " ++ [27880; 37322]%N ++ runes_of_ascii "
    { ""{,}"" : string_[""x y"",	007 ]
    :
    msg_type ,
    ""abc"" : string_ ,
[
// c
/// triple
42 , 1, ""// no comment"" , ""\" ++ [233]%N ++ runes_of_ascii """ ,
""`tick`"", ""`tick`"" , ""a\""b""] : Packet ,
    255 :options1},
} , }
")).
Eval vm_compute in ("<<<M4226>>>" ++ check (runes_of_ascii "packet pack {
    @rightPad(' ')
    A @calculatedFrom(""a\\"") `
        `,
    u8 f32a,
    zchar[007] rootA `u8 x,`,
    repeat string u128 `u8 x,`,
    @leftPad(' ')
    char[1] repeatCount @calculatedFrom(""\n"") `doc`,
    o,
    falsey leftPad,
    @calculatedFrom(""a\""b"")
    @leftPad('0')
    //
    // " ++ [27880; 37322]%N ++ runes_of_ascii "
    roots {
        u8 zchar @lengthOf(Logon),
        // c
        //	t
    },
}")).
Eval vm_compute in ("<<<M4008>>>" ++ check (runes_of_ascii "MetaData o {
    u32 string_,
    char[] a1 `crlf
        line`,
    int8 options1,
}

packet Foo {
    @lengthOf(matchKey)
    f32 f32a,
    @tag(0)
    // @lengthOf(
    match MetaDataX as trueish {
        //	t
        255 : T,
        4294967296 : pack,
        3 : falsey,
        ""1"" : uint8x,
        7 : u128,
        4294967296 : MetaDataX,
    },
    i32 roots,
}")).
Eval vm_compute in ("<<<M990>>>" ++ check (runes_of_ascii "packet chars { @rightPad ( ) /// triple
@tag( 42
    ) @tag( 00// c
)	int
// @lengthOf(
//
len
,zchar[ 4294967296 ]
    asx `` ,	@rightPad (
'0'
)@calculatedFrom(
/// triple
/// triple
""{,}"")@lengthOf( repeatCount )	repeat uint64
falsey `doc` , repeat zchar[ // packet A { u8 x, }
0 ] u8x , } MetaData crc{
uint32 packetx , }
    packet float{ //
u128 _x,}")).
Eval vm_compute in ("<<<M647>>>" ++ check (runes_of_ascii "//x
packet BodyLength { // a // b
@tag( 10 //x
) @calculatedFrom( ""1"" ) falsey
uint8x
,
repeat trueish// trailing space 
body ,	@leftPad ( '0' ) @calculatedFrom( """ ++ [28040; 24687]%N ++ runes_of_ascii """ )
@calculatedFrom(
""1""	) match falsey // packet A { u8 x, }
as	matchKey
{  ""x y"": As	, [ ""CRC32"" , 3]: Foo
, """":roots /// triple
,
} // " ++ [27880; 37322]%N ++ runes_of_ascii "
,string stringy
    `{ , }`
, }
")).
Eval vm_compute in ("<<<M3924>>>" ++ check (runes_of_ascii "options {
}

packet chars {
    int64 i8i8 @calculatedFrom(""// no comment"") `line1
        line2`,
    @calculatedFrom(""`tick`"")
    _x `" ++ [28040; 24687; 31867; 22411]%N ++ runes_of_ascii "`,
    match float as BodyLength {
        //
        """ ++ [28040; 24687]%N ++ runes_of_ascii """ : x_y_z,
        [
            7, 10, """ ++ [233]%N ++ runes_of_ascii "t" ++ [233]%N ++ runes_of_ascii """, 1, ""x y"",
            3
        ] : i64_,
    },// a // b
}

packet uint8x {
}// " ++ [27880; 37322]%N)).
Eval vm_compute in ("<<<M4055>>>" ++ check (runes_of_ascii "
root	packet
	Foo 	 // " ++ [128512]%N ++ runes_of_ascii " emoji
	{ } options 
{ 
    // a // b
  tag	// `tick` ""quote"" 'q'
=  //	t
  	"""" ;
u8x 
= zchar[
    0
	]

    }MetaData int  {
zchar[

    10]
lengthOf
    ``, i64
u8x`// not a comment` 
,MetaDataX
    pack	// `tick` ""quote"" 'q'

  `crlf
line`,charz
Logon `crlf
line` ,
// a // b

	} ")).
Eval vm_compute in ("<<<M1065>>>" ++ check (runes_of_ascii "packet// a // b
i64_
{ repeat int64 asx	`line1
line2`	, } options {
    // trailing space 
    chars=	255
; tag =
    // c
    3  ;
matchKey =0123456789 }
    MetaData
packetx {charz BodyLength ,//x
MetaDataX _x `two words` ,
MetaDataX BodyLength	, float32 f32a `line1
line2`, zchar[0 ]
    stringy, }
")).
Eval vm_compute in ("<<<M1465>>>" ++ check (runes_of_ascii "root packet Foo // " ++ [128512]%N ++ runes_of_ascii " emoji
{ } options {
    // a // b
    tag // `tick` ""quote"" 'q'
= //	t
""""
    ; u8x u8x = zchar[0  ] }
MetaData
    int {zchar[ 10]
lengthOf	`` , i64 u8x`// not a comment` ,MetaDataX pack// `tick` ""quote"" 'q'
`crlf
line`
, Logon charz `crlf
line`
    ,
    // a // b
    }
")).
Eval vm_compute in ("<<<M1470>>>" ++ check (runes_of_ascii "root packet Foo // " ++ [128512]%N ++ runes_of_ascii " emoji
{ } options {
    // a // b
    tag // `tick` ""quote"" 'q'
= //	t
""""
    ; u8x = = zchar[0  ] }
MetaData
    int {zchar[ 10]
lengthOf	`` , i64 u8x`// not a comment` ,MetaDataX pack// `tick` ""quote"" 'q'
`crlf
line`
, Logon charz `crlf
line`
    ,
    // a // b
    }
")).
Eval vm_compute in ("<<<M1622>>>" ++ check (runes_of_ascii "root packet Foo // " ++ [128512]%N ++ runes_of_ascii " emoji
{ } options {
    // a // b
    tag // `tick` ""quote"" 'q'
= //	t
""""
    ; u8x = zchar[0  ] }
MetaData
    int {zchar[ 10]
lengthOf	`` , i64 u8x`// not a comment` ,MetaDataX pack// `tick` ""quote"" 'q'
`crlf
line`
, Logon caf" ++ [233]%N ++ runes_of_ascii "_1 `crlf
line`
    ,
    // a // b
    }
")).
Eval vm_compute in ("<<<M1561>>>" ++ check (runes_of_ascii "root packet Foo // " ++ [128512]%N ++ runes_of_ascii " emoji
{ } options {
    // a // b
    tag // `tick` ""quote"" 'q'
= //	t
""""
    ; u8x = zchar[0  ] }
MetaData
    int {zchar[ 10]
lengthOf	`` , i64 u8x`// not a comment` ,pack MetaDataX// `tick` ""quote"" 'q'
`crlf
line`
, Logon charz `crlf
line`
    ,
    // a // b
    }
")).
Eval vm_compute in ("<<<M3336>>>" ++ check (runes_of_ascii "packet calculatedFrom // c1
{ @tag( // c3a
  // c3b
4294967296 // c4
) // c5
u // c6a
  // c6b
msg_type
    // c7
,
    // c8
char[ // c9
3
    // c10
]
    // c11
crc
    // c12
@lengthOf( // c13a
  // c13b
len // c14a
  // c14b
) // c15a
  // c15b
`u8 x,`
    // c16
, // c17
}
    // c18
")).
Eval vm_compute in ("<<<M1584>>>" ++ check (runes_of_ascii "root packet Foo // " ++ [128512]%N ++ runes_of_ascii " emoji
{ } options {
    // a // b
    tag // `tick` ""quote"" 'q'
= //	t
""""
    ; u8x = zchar[0  ] }
MetaData
    int {zchar[ 10]
lengthOf	`` , i64 u8x`// not a comment` ,MetaDataX pack// `tick` ""quote"" 'q'
`crlf
line`
, Logon  `crlf
line`
    ,
    // a // b
    }
")).
Eval vm_compute in ("<<<M324>>>" ++ check (runes_of_ascii "packet charz
    {repeat
Z9_
    x , @calculatedFrom( ""`tick`""
) string A`crlf
line` ,
repeat
    crc// trailing space 
{
repeat u8x , char[42 //
] //x
x @lengthOf(
o )	,} ,} MetaData //
tag { uint16 falsey
    `say ""hi""` ,
i32 asx ,char[ 007 ] As
// a // b
/// triple
, }
")).
Eval vm_compute in ("<<<M3615>>>" ++ check (runes_of_ascii "

  root packet len{

@rightPad
	( '0'
    ) repeat msg_type Foo ,match

    calculatedFrom
as
	roots
{  00:	falsey

    },@lengthOf(tag 
)  match	// `tick` ""quote"" 'q'
	int
	as  rootA{ //
  7
    : _x , 
} ,@calculatedFrom(	""\" ++ [233]%N ++ runes_of_ascii """ )  f64 	 // " ++ [27880; 37322]%N ++ runes_of_ascii "
  	crc
	,
    } ")).
Eval vm_compute in ("<<<M14>>>" ++ check (runes_of_ascii "MetaData	packetx {
    packetx i64_ `say ""hi""` ,  } options {
    } packet string_ {
@lengthOf(repeatCount ) len
{ zchar[ 10]
// " ++ [128512]%N ++ runes_of_ascii " emoji
// `tick` ""quote"" 'q'
u128 ,
    f32
    falsey`say ""hi""`
,uint16// a // b
f32a
    `crlf
line`
,
    } , }
// " ++ [27880; 37322]%N ++ runes_of_ascii "
")).
Eval vm_compute in ("<<<M667>>>" ++ check (runes_of_ascii "  options { o=// `tick` ""quote"" 'q'
""CRC32""; } options {Header=u32 ; // packet A { u8 x, }
packetx=char[] T =char[	65535
];
// packet A { u8 x, }
// a // b
u8x =
    ""// no comment"" ;
string_
    /// triple
    = true ; }	root
packet
tag {} 	 ")).
Eval vm_compute in ("<<<M3973>>>" ++ check (runes_of_ascii "
packet// " ++ [27880; 37322]%N ++ runes_of_ascii "
    trueish	{  match
f32a
as	stringy

{ """ ++ [28040; 24687]%N ++ runes_of_ascii """

    :
    _x 
, 
1

    :	//x
  stringy 
,
65535 : u8x
65535 
: 	 // trailing space 
asx

    // packet A { u8 x, }
	// c
  ,

} 
	    // packet A { u8 x, }
    ,
    }

")).
Eval vm_compute in ("<<<M4054>>>" ++ check (runes_of_ascii "MetaData Packet {
}

packet asx {
    @lengthOf(asx)
    falsey `crlf
    line`,
}

packet x {
    // @lengthOf(
    rootA,
    u32 options1 `say ""hi""`,
    @tag(7)
    // packet A { u8 x, }
    msg_type @lengthOf(stringy),
}")).
Eval vm_compute in ("<<<M4146>>>" ++ check (runes_of_ascii "options {
    len = false// " ++ [128512]%N ++ runes_of_ascii " emoji
}

options {
    leftPad = ""`tick`"";
    repeatCount = char[4294967296]
    chars = ""`tick`""
}

packet trueish {
    u16 crc,
    @tag(0123456789)
    string trueish `crlf
    line`,
}")).
Eval vm_compute in ("<<<M2271>>>" ++ check (runes_of_ascii "MetaData Packet { }packet	asx  { @lengthOf( asx) falsey`crlf
line`
, ,
    }
    packet x	{uint32// @lengthOf(
rootA	,u32 options1 `say ""hi""` , @tag( 7
    )// packet A { u8 x, }
msg_type @lengthOf(
stringy	)	, }

")).
Eval vm_compute in ("<<<M2392>>>" ++ check (runes_of_ascii "MetaData Packet { }packet	asx  { @lengthOf( asx) falsey`crlf
line`
,
    }
    packet x	{uint32// @lengthOf(
rootA	,u32 options1 `say " ++ [127]%N ++ runes_of_ascii """hi""` , @tag( 7
    )// packet A { u8 x, }
msg_type @lengthOf(
stringy	)	, }

")).
Eval vm_compute in ("<<<M2362>>>" ++ check (runes_of_ascii "MetaData Packet { }packet	asx  { @lengthOf( asx) falsey`crlf
line`
,
    }
    packet x	{uint32// @lengthOf(
rootA	,u32 options1 `say ""hi""` , @tag( 7
    )// packet A { u8 x, }
msg_type @lengthOf(
stringy	,	) }

")).
Eval vm_compute in ("<<<M2235>>>" ++ check (runes_of_ascii "MetaData Packet { }packet	  { @lengthOf( asx) falsey`crlf
line`
,
    }
    packet x	{uint32// @lengthOf(
rootA	,u32 options1 `say ""hi""` , @tag( 7
    )// packet A { u8 x, }
msg_type @lengthOf(
stringy	)	, }

")).
Eval vm_compute in ("<<<M2215>>>" ++ check (runes_of_ascii "( Packet { }packet	asx  { @lengthOf( asx) falsey`crlf
line`
,
    }
    packet x	{uint32// @lengthOf(
rootA	,u32 options1 `say ""hi""` , @tag( 7
    )// packet A { u8 x, }
msg_type @lengthOf(
stringy	)	, }

")).
Eval vm_compute in ("<<<M1027>>>" ++ check (runes_of_ascii "packet body { @calculatedFrom( ""a\""b"" ) T uint8x `` , } root packet rootA /// triple
{ float64
    leftPad// packet A { u8 x, }
, u16 zchar,
}
    //	t
    MetaData roots //	t
{ u8 i64_ , } /// triple")).
Eval vm_compute in ("<<<M3911>>>" ++ check (runes_of_ascii "packet crc {
    @tag(0123456789)
    i64 uint8x,
}

MetaData i8i8 {
    zchar[65535] int,
}

packet lengthOf {
    // trailing space 
    //	t
    @leftPad('0')
    falsey int,
}
// @lengthOf(")).
Eval vm_compute in ("<<<M461>>>" ++ check (runes_of_ascii "root packet msg_type {
float32 trueish
    , uint16// @lengthOf(
metadata , @lengthOf(  o ) // a // b
@lengthOf( _x) @calculatedFrom( """" )Z9_
    x_y_z,
zchar[ 3]zchar	`tab	here`,
    }
")).
Eval vm_compute in ("<<<M3>>>" ++ check (runes_of_ascii "packet
    Foo{
    uint64  Header @lengthOf( float )
`
`
, // a // b
char[]_x,@tag( 10
    )
char[] Packet , uint16 stringy @lengthOf(
    calculatedFrom
), }//x
options	{ }")).
Eval vm_compute in ("<<<M506>>>" ++ check (runes_of_ascii "MetaData body{
i8
zchar
,string_ Foo
,
char[
3  ]MetaDataX  ,} options
{body =
    zchar[ 10
]//
;	msg_type  = 007 //	t
Header = ""{,}"" ;
    zchar = false
    ;
    }
")).
Eval vm_compute in ("<<<M81>>>" ++ check (runes_of_ascii "root packet
x_y_z {
    @leftPad
    (
' ')uint8x { float32 len @calculatedFrom(""it's""
    //
    )
`" ++ [233]%N ++ runes_of_ascii "` ,match o as stringy{ [""{,}""
    ] : x
    , }
    ,
}
, }
")).
Eval vm_compute in ("<<<M1533>>>" ++ check (runes_of_ascii "root packet Foo // " ++ [128512]%N ++ runes_of_ascii " emoji
{ } options {
    // a // b
    tag // `tick` ""quote"" 'q'
= //	t
""""
    ; u8x = zchar[0  ] }
MetaData
    int {zchar[ 10]
lengthOf")).
Eval vm_compute in ("<<<M684>>>" ++ check (runes_of_ascii "root packet body
    //	t
    {@lengthOf(
string_ )	match f32a as rootA{  [""x y""
]
// @lengthOf(
// trailing space 
:packetx
//
// a // b
, }
    , }")).
Eval vm_compute in ("<<<M3925>>>" ++ check (runes_of_ascii "packet A
    {
match
k

as n

    { [ ""a"", ""bb""
, ""c c""
    ,	""d"" ,""e"" ,
""f"" , ""g""

,""h"" ,
""i"" ,
	""j""
, ""k"" ]

:  B ,

    2 
: 
C  }
,

}")).
Eval vm_compute in ("<<<M132>>>" ++ check (runes_of_ascii "packet lengthOf
{ options1 {	calculatedFrom`line1
line2`	,
} ,  @tag(
4294967296 ) match	_x
as msg_type	{ ""\" ++ [233]%N ++ runes_of_ascii """ // @lengthOf(
:  o , },
}")).
Eval vm_compute in ("<<<M1727>>>" ++ check (runes_of_ascii "root packet /// triple
rootA {	i32
MetaDataX@calculatedFrom( ""CRC32"" ) `line1
line2` , } MetaData BodyLength {
u8
'\x01' rootA, } // c")).
Eval vm_compute in ("<<<M1206>>>" ++ check (runes_of_ascii "options
    {
// " ++ [27880; 37322]%N ++ runes_of_ascii "
// trailing space 
crc
    =
'\x00'
}packet len {}
    packet
    // " ++ [27880; 37322]%N ++ runes_of_ascii "
    repeatCount { } // trailing space ")).
Eval vm_compute in ("<<<M1199>>>" ++ check (runes_of_ascii "options
    {charz
= 00 ; leftPad = zchar[0123456789
    ] ;
//x
/// triple
} options  { falsey= u32 ; }root packet float{
    }
")).
Eval vm_compute in ("<<<M1637>>>" ++ check (runes_of_ascii "root packet /// triple
rootA 	i32
MetaDataX@calculatedFrom( ""CRC32"" ) `line1
line2` , } MetaData BodyLength {
u8
rootA, } // c")).
Eval vm_compute in ("<<<M1735>>>" ++ check (runes_of_ascii "root packet /// triple
rootA {	i32
caf" ++ [233]%N ++ runes_of_ascii "_1@calculatedFrom( ""CRC32"" ) `line1
line2` , } MetaData BodyLength {
u8
rootA, } // c")).
Eval vm_compute in ("<<<M1872>>>" ++ check (runes_of_ascii "packet
    Pad // a // b
{ i8i8 @calculatedFrom( ""a	b"") `u8 x,` ,
} options{ float// " ++ [128512]%N ++ runes_of_ascii " emoji
= f64 i64_
=//	t
00 float64
")).
Eval vm_compute in ("<<<M4004>>>" ++ check (runes_of_ascii "packet As {
    char[0123456789] repeatCount,
    u32 _x `// not a comment`,
    @tag(3)
    repeat i64 len `say ""hi""`,
}")).
Eval vm_compute in ("<<<M1879>>>" ++ check (runes_of_ascii "packet
    Pad // a // b
{ i8i8 @calculatedFrom( ""a	b"") `u8 x,` ,
} options{ float// " ++ [128512]%N ++ runes_of_ascii " emoji
= f64 i64_
=//	t
00 }
@x")).
Eval vm_compute in ("<<<M24>>>" ++ check (runes_of_ascii "packet _x { int32 u , @tag(3)char[ 255]
    // @lengthOf(
    A
    @calculatedFrom( ""x y""
    )
`crlf
line`,
    }")).
Eval vm_compute in ("<<<M1670>>>" ++ check (runes_of_ascii "root packet /// triple
rootA {	i32
MetaDataX@calculatedFrom( ""CRC32"" ) : , } MetaData BodyLength {
u8
rootA, } // c")).
Eval vm_compute in ("<<<M144>>>" ++ check (runes_of_ascii "  packet rootA	{ int @lengthOf(
    Packet // packet A { u8 x, }
) // `tick` ""quote"" 'q'
`// not a comment` , }
")).
Eval vm_compute in ("<<<M482>>>" ++ check (runes_of_ascii "options{
charz
= true ; roots
    /// triple
    = int64  trueish // trailing space 
= // c
""\n""charz = u8  }
")).
Eval vm_compute in ("<<<M3058>>>" ++ check (runes_of_ascii "packet A {
    match k as n {
        ""\
"" : B,
        [""\
"", 1] : C,
        [1,2,3,4,5,""\
""] : D,
    },
}")).
Eval vm_compute in ("<<<M3852>>>" ++ check (runes_of_ascii "packet calculatedFrom {
    @tag(4294967296)
    u msg_type,// c
    char[3] crc @lengthOf(len) `u8 x,`,
}")).
Eval vm_compute in ("<<<M3011>>>" ++ check (runes_of_ascii "packet A {
    Inner {
        u8 x `a
b`,
        Deep {
            u8 y `a
b`,
        },
    },
}")).
Eval vm_compute in ("<<<M3368>>>" ++ check (runes_of_ascii "packet calculatedFrom { @tag( 4294967296 ) u msg_type , char[ 3 ] crc @lengthOf( len
// c
) `u8 x,` , }")).
Eval vm_compute in ("<<<M2019>>>" ++ check (runes_of_ascii "root
packet crc
    { f32a @calculatedFrom( """ ++ [233]%N ++ runes_of_ascii "t" ++ [233]%N ++ runes_of_ascii """ )
    `say ""hi""`, lengthOf `` @calculatedFrom(  }")).
Eval vm_compute in ("<<<M2939>>>" ++ check (runes_of_ascii "packet A {
  match k as n {
    [""a"", ""bb"", ""c c"", ""d"", ""e"", ""f"", ""g"", ""h""] : B,
    2 : C
  },
}")).
Eval vm_compute in ("<<<M1854>>>" ++ check (runes_of_ascii "packet
    Pad // a // b
{ i8i8 @calculatedFrom( ""a	b"") `u8 x,` ,
} options{ float// " ++ [128512]%N ++ runes_of_ascii " emoji
=")).
Eval vm_compute in ("<<<M3244>>>" ++ check (runes_of_ascii "packet Logon { @tag( 42 ) @rightPad ( ' ' ) @leftPad ( ) repeat trueish // c
{ string T , } , }")).
Eval vm_compute in ("<<<M2948>>>" ++ check (runes_of_ascii "packet A {
  match k as n {
    [""a"", ""bb"", 007, ""d"", ""e"", 66, ""g"", ""h""] : B
    2 : C
  },
}")).
Eval vm_compute in ("<<<M4305>>>" ++ check (runes_of_ascii "root packet lengthOf {
    repeat char[0] i8i8 `" ++ [233]%N ++ runes_of_ascii "`,
    MetaDataX @calculatedFrom(""abc""),
}")).
Eval vm_compute in ("<<<M4447>>>" ++ check (runes_of_ascii "MetaData _x
	{
    zchar[ 4294967296  ]	lengthOf`// not a comment` 
        // c
    , } ")).
Eval vm_compute in ("<<<M3978>>>" ++ check (runes_of_ascii "
MetaData Z9_
{
	a1
	    //
    /// triple

  Z9_ ,

zchar[
    10]

x ,} options{ }

")).
Eval vm_compute in ("<<<M1973>>>" ++ check (runes_of_ascii "root
packet crc
    f32a { @calculatedFrom( """ ++ [233]%N ++ runes_of_ascii "t" ++ [233]%N ++ runes_of_ascii """ )
    `say ""hi""`, lengthOf `` ,  }")).
Eval vm_compute in ("<<<M2946>>>" ++ check (runes_of_ascii "packet A {
  match k as n {
    [1, 22, ""c c"", 4, 5, ""f"", 7, 8] : B
    2 : C
  },
}")).
Eval vm_compute in ("<<<M3332>>>" ++ check (runes_of_ascii "packet o { @tag( 42 ) repeat x { char[ 0123456789 ] i64_ , } , } options { } // c
")).
Eval vm_compute in ("<<<M3311>>>" ++ check (runes_of_ascii "packet o { @tag( 42 ) repeat x {
// c
char[ 0123456789 ] i64_ , } , } options { }")).
Eval vm_compute in ("<<<M2020>>>" ++ check (runes_of_ascii "root
packet crc
    { f32a @calculatedFrom( """ ++ [233]%N ++ runes_of_ascii "t" ++ [233]%N ++ runes_of_ascii """ )
    `say ""hi""`, lengthOf ``")).
Eval vm_compute in ("<<<M2009>>>" ++ check (runes_of_ascii "root
packet crc
    { f32a @calculatedFrom( """ ++ [233]%N ++ runes_of_ascii "t" ++ [233]%N ++ runes_of_ascii """ )
    `say ""hi""`, } `` ,  }")).
Eval vm_compute in ("<<<M2888>>>" ++ check (runes_of_ascii "packet A {
  match k as n {
    [""a"", ""bb"", ""c c"", ""d""] : B
    2 : C
  },
}")).
Eval vm_compute in ("<<<M4224>>>" ++ check (runes_of_ascii "packet Inner {
    u8 a,
}

root packet P {
    Inner ref_obj,
    u8 x,
}")).
Eval vm_compute in ("<<<M2154>>>" ++ check (runes_of_ascii "root root
    // `tick` ""quote"" 'q'
    packet As { trueish Packet , }
")).
Eval vm_compute in ("<<<M3403>>>" ++ check (runes_of_ascii "MetaData _x { zchar[ 4294967296 // c
] lengthOf `// not a comment` , }")).
Eval vm_compute in ("<<<M802>>>" ++ check (runes_of_ascii "// `tick` ""quote"" 'q'
packet zchar{ repeat char[
    1 ] f32a  ``, }")).
Eval vm_compute in ("<<<M2205>>>" ++ check (runes_of_ascii "root
    // `tick` ""quote"" 'q'
    packet As { trueish @Packet , }
")).
Eval vm_compute in ("<<<M3703>>>" ++ check (runes_of_ascii "MetaData _x {
    zchar[4294967296] lengthOf `// not a comment`,
}")).
Eval vm_compute in ("<<<M416>>>" ++ check (runes_of_ascii "  root packet u
//	t
//	t
{ Foo
int ,// `tick` ""quote"" 'q'
}
")).
Eval vm_compute in ("<<<M2185>>>" ++ check (runes_of_ascii "root
    // `tick` ""quote"" 'q'
    packet As { trueish Packet")).
Eval vm_compute in ("<<<M2897>>>" ++ check (runes_of_ascii "packet A { Inner { match k as n { [1,22,007,4] : B, }, }, }")).
Eval vm_compute in ("<<<M1942>>>" ++ check (runes_of_ascii "
packet	As { @calculatedFrom(//x
""{,}""	)len@xgthOf , } 	 ")).
Eval vm_compute in ("<<<M4441>>>" ++ check (runes_of_ascii "
packet A {char[ 	 // a
  3// b
    ]// c
  	x  , 
}

")).
Eval vm_compute in ("<<<M1776>>>" ++ check (runes_of_ascii "options { }options {  } // `tick` ""quote"" 'q@leftpad'")).
Eval vm_compute in ("<<<M1241>>>" ++ check (runes_of_ascii "MetaData u8x
{
uint32 metadata
`line1
line2` , }
")).
Eval vm_compute in ("<<<M2408>>>" ++ check (runes_of_ascii "MetaData A
{
i64
chars	, " ++ [233]%N ++ runes_of_ascii "} // `tick` ""quote"" 'q'")).
Eval vm_compute in ("<<<M1743>>>" ++ check (runes_of_ascii "options { { }options {  } // `tick` ""quote"" 'q'")).
Eval vm_compute in ("<<<M1769>>>" ++ check (runes_of_ascii "options |{ }options {  } // `tick` ""quote"" 'q'")).
Eval vm_compute in ("<<<M3701>>>" ++ check (runes_of_ascii "MetaData pack {
    i64 Header,
    u64 As,
}")).
Eval vm_compute in ("<<<M2599>>>" ++ check (runes_of_ascii "packet A { B { match k as n { 1 : C }, }, }")).
Eval vm_compute in ("<<<M2117>>>" ++ check (runes_of_ascii "MetaData x
{// " ++ [128512]%N ++ runes_of_ascii " emoji
uint32 stringy , }")).
Eval vm_compute in ("<<<M2585>>>" ++ check (runes_of_ascii "packet A { x @calculatedFrom(""c"") `d`, }")).
Eval vm_compute in ("<<<M3986>>>" ++ check (runes_of_ascii "root packet A {
    u8 x `x
        `,
}")).
Eval vm_compute in ("<<<M2116>>>" ++ check (runes_of_ascii "MetaData x
{// " ++ [128512]%N ++ runes_of_ascii " emoji
stringy i16 , }")).
Eval vm_compute in ("<<<M2612>>>" ++ check (runes_of_ascii "packet A { match as as n { 1 : B }, }")).
Eval vm_compute in ("<<<M1651>>>" ++ check (runes_of_ascii "root packet /// triple
rootA {	i32")).
Eval vm_compute in ("<<<M1240>>>" ++ check (runes_of_ascii "options { Packet	= ""packet"" ; }
")).
Eval vm_compute in ("<<<M4278>>>" ++ check (runes_of_ascii "options {
    u8x = 3
    // c
}")).
Eval vm_compute in ("<<<M2802>>>" ++ check (runes_of_ascii "C" ++ [2]%N ++ runes_of_ascii "R" ++ [65533]%N ++ runes_of_ascii "L" ++ [16; 15; 65533; 65533; 65533]%N ++ runes_of_ascii "^o\8" ++ [65533; 65533]%N ++ runes_of_ascii "+Y" ++ [65533; 65533]%N ++ runes_of_ascii "9" ++ [65533; 65533]%N ++ runes_of_ascii "A" ++ [65533; 65533; 28]%N ++ runes_of_ascii "2+" ++ [15]%N)).
Eval vm_compute in ("<<<M2444>>>" ++ check (runes_of_ascii "f32 f64 float32 float64 float")).
Eval vm_compute in ("<<<M66>>>" ++ check (runes_of_ascii "packet Foo{ f64 Pad ,x
, }")).
Eval vm_compute in ("<<<M2052>>>" ++ check (runes_of_ascii "MetaData A A { u64 pack, }")).
Eval vm_compute in ("<<<M2095>>>" ++ check (runes_of_ascii "MetaData A { u64 pack, }/")).
Eval vm_compute in ("<<<M2063>>>" ++ check (runes_of_ascii "MetaData A { pack u64, }")).
Eval vm_compute in ("<<<M4231>>>" ++ check (runes_of_ascii "packet 
BodyLength
{ 
}
")).
Eval vm_compute in ("<<<M1150>>>" ++ check (runes_of_ascii "/// triple
options{	}
")).
Eval vm_compute in ("<<<M2780>>>" ++ check (runes_of_ascii "u8 ( MetaData : = f64")).
Eval vm_compute in ("<<<M513>>>" ++ check (runes_of_ascii "packet
uint8x { }
")).
Eval vm_compute in ("<<<M564>>>" ++ check (runes_of_ascii "MetaData
Logon
{ }")).
Eval vm_compute in ("<<<M3091>>>" ++ check (runes_of_ascii "packet A {
}
// c" ++ [8202]%N)).
Eval vm_compute in ("<<<M2569>>>" ++ check (runes_of_ascii "packet A { x y, }")).
Eval vm_compute in ("<<<M851>>>" ++ check (runes_of_ascii "packet chars {	}")).
Eval vm_compute in ("<<<M2804>>>" ++ check (runes_of_ascii "f32 u32 ""CRC32""")).
Eval vm_compute in ("<<<M2065>>>" ++ check (runes_of_ascii "MetaData A {")).
Eval vm_compute in ("<<<M2683>>>" ++ check (runes_of_ascii "// a
// b
")).
Eval vm_compute in ("<<<M2457>>>" ++ check (runes_of_ascii "strings")).
Eval vm_compute in ("<<<M3145>>>" ++ check (runes_of_ascii "// c x")).
Eval vm_compute in ("<<<M3075>>>" ++ check (runes_of_ascii "// c" ++ [133]%N)).
Eval vm_compute in ("<<<M2520>>>" ++ check (runes_of_ascii "`
`")).
Eval vm_compute in ("<<<M2530>>>" ++ check (runes_of_ascii "a.b")).
Eval vm_compute in ("<<<M2552>>>" ++ check (runes_of_ascii "a" ++ [233]%N)).
