From FP Require Import Lexer Parser ShowPT Digest Formatter.
From Coq Require Import String List NArith.
Import ListNotations.
Open Scope string_scope.
Set Printing Width 100000000.
Set Printing Depth 100000000.
Definition show_fres (r : fres) : string :=
  match r with
  | FOk s => "OK:" ++ sh_escaped s ""
  | FErr s => "ERR:" ++ sh_escaped s ""
  | FPanic p => "PANIC:" ++ p
  end.
Definition check (rs : list rune) : string := digest (show_fres (format_res rs)).
Definition full (rs : list rune) : string := show_fres (format_res rs).
Eval vm_compute in ("<<<M3589>>>" ++ check (runes_of_ascii "options {
    LittleEndian = true;
    StringPrefixLenType = u8;
    ArrayPrefixLenType = u16;
    FixedStringPadChar = '0';
    JavaPackage = ""co\
m.example.msg"";
    GoPackage = ""ms\
g"";
    GoModule = ""example.com/msg"";
}
MetaData Meta {
    u32 SeqNum `sequence number`,
    char[8] Symbol `symbol`,
    zchar[5] ZSym `z symbol`,
    string Note,
    Symbol AltSymbol `alias of symbol`,
    f64 Price,
}
packet Inner {
    u8 a,
    i16 b,
    string c,
}
packet Inner2 {
    u8 a2,
    char[3] c2,
}
packet Logon {
    u8 x,
    string user,
    repeat u16 codes,
}
packet Logout {
    u16 reason,
}
packet Empty {
}
root packet Msg {
    u8 su8,
    uint8 luint8,
    u16 su16,
    uint16 luint16,
    u32 su32,
    uint32 luint32,
    u64 su64,
    uint64 luint64,
    i8 si8,
    int8 lint8,
    i16 si16,
    int16 lint16,
    i32 si32,
    int32 lint32,
    i64 si64,
    int64 lint64,
    f32 sf32,
    float32 lfloat32,
    f64 sf64,
    float64 lfloat64,
    char[6] fsplain,
    @leftPad('0') char[4] fs0,
    @rightPad('0') char[5] fs1,
    @leftPad(' ') char[6] fs2,
    @rightPad(' ') char[7] fs3,
    @leftPad('\x00') char[8] fs4,
    @rightPad('\x00') char[9] fs5,
    @leftPad() char[10] fs6,
    @rightPad() char[11] fs7,
    zchar[7] fz,
    @leftPad('0') zchar[3] fzl0,
    string s1 `doc`,
    char[] s2,
    Inner,
    Sub {
        u8 q,
        string w,
        Deep {
            u16 z,
            repeat i32 zs,
        },
    },
    repeat u8 ru8,
    repeat u16 ru16,
    repeat u32 ru32,
    repeat u64 ru64,
    repeat i8 ri8,
    repeat i16 ri16,
    repeat i32 ri32,
    repeat i64 ri64,
    repeat f32 rf32,
    repeat f64 rf64,
    repeat string rstr,
    repeat char[] rstr2,
    repeat char[3] rfs,
    repeat zchar[3] rfz,
    repeat Inner2,
    repeat Grp {
        u8 k,
        char[2] v,
    },
    SeqNum,
    SeqNum seq2,
    repeat SeqNum seqs,
    Symbol,
    AltSymbol alt,
    ZSym,
    Note,
    repeat Symbol syms,
    Price px,
    u16 MsgType,
    u32 BodyLen @lengthOf(Body),
    match MsgType as Body {
        1 : Logon,
        [2, 3] : Logout,
        7 : Logon,
        9 : Empty,
    },
    u32 Checksum @calculatedFrom(""CRC32""),
}
")).
Eval vm_compute in ("<<<M4300>>>" ++ check (runes_of_ascii "packet Z9_ {
    string options1 @calculatedFrom(""// no comment"") `{ , }`,
    @lengthOf(MetaDataX)
    @tag(1)
    /// triple
    @calculatedFrom(""it's"")
    repeat packetx,
    uint8x @lengthOf(i8i8) `say ""hi""`,// " ++ [27880; 37322]%N ++ runes_of_ascii "
    @leftPad(' ')
    char[7] MetaDataX,
    @tag(65535)
    // @lengthOf(
    trueish {
        i8i8 repeatCount,
    },
    match body as i8i8 {
        255 : f32a,
        ""a\""b"" : int,
        [""CRC32""] : metadata,
    },
    @lengthOf(pack)
    repeat body {
        Foo {
            repeat zchar[65535] string_,
            zchar len `100% of %d`,
        },
        string Z9_,
        match Packet as trueish {
            """ ++ [233]%N ++ runes_of_ascii "t" ++ [233]%N ++ runes_of_ascii """ : pack,
            4294967296 : asx,
        },
    },
    @calculatedFrom(""\n"")
    //
    // " ++ [27880; 37322]%N ++ runes_of_ascii "
    @tag(0)
    repeat Header {
        Pad {
            pack {
                repeat u16 tag,
                match calculatedFrom as trueish {
                    ""abc"" : metadata,
                    [""it's"", 255] : matchKey,
                    4294967296 : x_y_z,
                    [""`tick`""] : asx,
                },
            },//	t
            char[255] pack,// " ++ [128512]%N ++ runes_of_ascii " emoji
            uint32 BodyLength,
        },
        float,
    },
    @calculatedFrom(""a\\"")
    //	t
    @tag(10)
    // a // b
    match falsey as pack {
        // a // b
        /// triple
        7 : x_y_z,
        [""a	b"", ""packet""] : x_y_z,
    },
    lengthOf {
        int8 uint8x,
    },
}// " ++ [27880; 37322]%N ++ runes_of_ascii "

packet A {
}

packet A {
    // 50% %s
    @leftPad(' ')
    @calculatedFrom(""" ++ [233]%N ++ runes_of_ascii "t" ++ [233]%N ++ runes_of_ascii """)
    MetaDataX @lengthOf(calculatedFrom) `crlf
        line`,//	t
}

packet x_y_z {
    @rightPad(' ')
    @lengthOf(leftPad)
    @lengthOf(Header)
    char[0123456789] metadata,
}

packet options1 {
}")).
Eval vm_compute in ("<<<M1172>>>" ++ check (runes_of_ascii "packet
roots{ } packet // trailing space 
i64_
{  match u
    as len { 4294967296 // trailing space 
:options1 ,// @lengthOf(
""\" ++ [233]%N ++ runes_of_ascii """
:	o
    , """" //x
: matchKey
,[ 255	,	0 , 007 , ""1"" , ""a\\""
, ""packet""
,
""a	b"" ] //
:
// " ++ [128512]%N ++ runes_of_ascii " emoji
// " ++ [27880; 37322]%N ++ runes_of_ascii "
As ,00 :charz ""it's"" // c
:	int
    ,
    }
, packetx { int32
calculatedFrom
    @lengthOf(body ) , }  ,uint32 calculatedFrom @lengthOf( float ) `" ++ [233]%N ++ runes_of_ascii "`	, @tag( 00  ) match // `tick` ""quote"" 'q'
f32a
    // @lengthOf(
    as tag{""" ++ [28040; 24687]%N ++ runes_of_ascii """: pack
,} , @calculatedFrom( ""\n""  ) matchKey matchKey
, i64
tag,f32 Header @lengthOf( string_ ) , @calculatedFrom(
// @lengthOf(
// trailing space 
""x y"" )match As as //x
len{	""`tick`"" :
BodyLength 4294967296 : repeatCount
, } , u8 o, @leftPad
( ' ' ) repeat	charz { repeat	zchar[ // c
3
    ] rootA
,/// triple
u @lengthOf( charz ) , } /// triple
,}options {
string_ =	""" ++ [28040; 24687]%N ++ runes_of_ascii """
    ;a1 =' ' ; charz = 4294967296 msg_type= string
; } packet tag
    {
float32 calculatedFrom
    // @lengthOf(
    `line1
line2`
    ,	} packet i8i8 { @lengthOf(
// packet A { u8 x, }
//
len
) BodyLength Logon ,
f64 uint8x`tab	here` , // a // b
roots zchar ,
@lengthOf( stringy ) u128 i8i8
,
@tag( 4294967296	)@calculatedFrom( ""packet"" ) @lengthOf(
u8x
)
Header@lengthOf(
    //x
    asx
    ) `// not a comment` , @leftPad ( ) repeat a1 // " ++ [27880; 37322]%N ++ runes_of_ascii "
{
    u64
    //	t
    metadata @lengthOf(
packetx // a // b
) , match trueish
as
    Foo {""a\""b"": Logon  , 10 : // " ++ [27880; 37322]%N ++ runes_of_ascii "
trueish,	}, // a // b
zchar[ 7
] stringy
`say ""hi""` , }
, }

")).
Eval vm_compute in ("<<<M1232>>>" ++ check (runes_of_ascii "options { lengthOf  =
    ""// no comment"" ;
    // `tick` ""quote"" 'q'
    x_y_z =
    true
x_y_z= // " ++ [128512]%N ++ runes_of_ascii " emoji
255
; metadata= // c
""CRC32"" ; leftPad=	""{,}""// trailing space 
;} packet tag
// @lengthOf(
//x
{ } packet
// trailing space 
// a // b
Z9_	{
string
packetx // a // b
`" ++ [233]%N ++ runes_of_ascii "` ,
    //
    repeat uint64
    // trailing space 
    roots ,	match calculatedFrom as charz  { 3
:	As
    ,	""a	b"":
//x
// 50% %s
zchar,// packet A { u8 x, }
4294967296:T 4294967296 :
    // `tick` ""quote"" 'q'
    Z9_ , ""\n"" :
rootA ,}, len,i8i8 i64_ , }packet
MetaDataX { @tag( 10 ) zchar[ 3 ]// 50% %s
As , @calculatedFrom(
    ""x y""
)
zchar[
65535	] metadata@calculatedFrom(//x
""`tick`""  ) , Z9_ { float32 u128 @calculatedFrom( // a // b
""\n""	)
,
match o as
    float
{ // " ++ [27880; 37322]%N ++ runes_of_ascii "
007
: float , }  ,  }
,
repeat i8 matchKey ,@leftPad('\x00'
) @tag( 3 )
@tag( 10 )
match// 50% %s
u128 as
calculatedFrom {
    4294967296
:falsey
,	}	,	a1
@calculatedFrom( ""a	b"" ) `` ,char[
    65535
    //x
    ]
    u @calculatedFrom( ""x y"" ) , } packet
    _x
    {// " ++ [128512]%N ++ runes_of_ascii " emoji
@calculatedFrom(""a	b"")  @calculatedFrom(/// triple
""it's""
)
repeat x_y_z metadata ,
i64 u `u8 x,` , @lengthOf( len )repeat char[] matchKey ,msg_type  { tag @calculatedFrom( """ ++ [128512]%N ++ runes_of_ascii """ ) `a\` ,
//	t
//
zchar @calculatedFrom( ""\n"")
, }, leftPad@lengthOf(	charz )
,
    }")).
Eval vm_compute in ("<<<M275>>>" ++ check (runes_of_ascii "root packet u{ @tag( 42 )
    // a // b
    @leftPad
    ('0' ) @rightPad ( '0'
// trailing space 
// " ++ [128512]%N ++ runes_of_ascii " emoji
) u8x chars`{ , }` ,int8 leftPad @lengthOf(
options1) `two words` ,@rightPad (
    ' ') tag
    @lengthOf( uint8x  )
`" ++ [233]%N ++ runes_of_ascii "` , uint16 chars
, float64 crc ,@leftPad ( '\x00' )// @lengthOf(
char[]
    roots@calculatedFrom(""\" ++ [233]%N ++ runes_of_ascii """ )
, stringy , char[42
    ] falsey @calculatedFrom( // a // b
""a	b"" )`" ++ [28040; 24687; 31867; 22411]%N ++ runes_of_ascii "`,@rightPad ( )  @tag(	7
    ) @calculatedFrom(""// no comment""	)
    // trailing space 
    match calculatedFrom as
    asx{ ""a\""b""
    // packet A { u8 x, }
    : tag , 0123456789 : // " ++ [27880; 37322]%N ++ runes_of_ascii "
zchar ,
[255 ,""" ++ [233]%N ++ runes_of_ascii "t" ++ [233]%N ++ runes_of_ascii """ , 0123456789 ,
    ""// no comment"" // packet A { u8 x, }
, 7,
""""  ] : pack ,
1
    //
    :	stringy [""x y"" ,
    ""`tick`""  , 0123456789
    ,""x y""
    /// triple
    , ""{,}""
    ] :
len , [
""a\""b"" // `tick` ""quote"" 'q'
, ""a	b"" , ""// no comment"" , 4294967296 ] :
    trueish,	} //x
, repeat//	t
BodyLength	{ /// triple
u8x // @lengthOf(
Header `100% of %d`  ,	int64 u@calculatedFrom( ""CRC32"" )  `" ++ [28040; 24687; 31867; 22411]%N ++ runes_of_ascii "`, char[] zchar @calculatedFrom( ""a\""b"")
    `
`
, f32a
    //
    {repeat
// `tick` ""quote"" 'q'
// " ++ [27880; 37322]%N ++ runes_of_ascii "
zchar[ 0123456789
]  stringy
    , } , }
    /// triple
    , } // trailing space ")).
Eval vm_compute in ("<<<M493>>>" ++ check (runes_of_ascii "
packet	chars { zchar[ 1 ]u8x
// a // b
// @lengthOf(
@lengthOf( uint8x
    ) ,@calculatedFrom(""{,}"" ) roots `say ""hi""` ,
int8
// a // b
//	t
asx `{ , }` ,
// `tick` ""quote"" 'q'
// trailing space 
@calculatedFrom(  ""a\""b"" )
    //x
    i8 _x`// not a comment` ,
}root
    // " ++ [27880; 37322]%N ++ runes_of_ascii "
    packet metadata{ //x
zchar[ 3 ]	u128 @calculatedFrom(""a\""b"" ) /// triple
`two words`  , @rightPad ( ' ') @calculatedFrom(
""// no comment""
    ) @lengthOf( Logon ) char[] Packet
,	@rightPad ( '0') trueish
matchKey
`line1
line2` , @tag(
    65535 )@lengthOf( f32a )
@tag(
//
// trailing space 
0123456789) match
zchar as falsey  { 10 : len [
""" ++ [128512]%N ++ runes_of_ascii """, ""a	b""
    , ""CRC32"" ,""x y"" ,
    // 50% %s
    3
    ,
7, ""\" ++ [233]%N ++ runes_of_ascii """ , 7 ]
    :
options1
    , ""\n"" : Packet , 0: float , """ ++ [28040; 24687]%N ++ runes_of_ascii """
://x
zchar , 4294967296 :Packet,
}  , zchar[ 0123456789] lengthOf
    ,
    zchar
    {
zchar[0//x
]Z9_ // `tick` ""quote"" 'q'
,
} , float `it's` ,
repeat
    Z9_ { repeat  options1	,i32
As ,
    // @lengthOf(
    string
stringy @lengthOf(
    leftPad )
`{ , }`
,
    //
    } , char[ 10 ] x , } root packet As {
@tag( 00
) // `tick` ""quote"" 'q'
repeat
string i64_ , } // " ++ [27880; 37322]%N)).
Eval vm_compute in ("<<<M1249>>>" ++ check (runes_of_ascii "packet pack {@lengthOf(
BodyLength )char[] metadata
    `tab	here` ,@tag( 007	)
string
    body @calculatedFrom( ""x y"")
    `line1
line2`	, zchar// @lengthOf(
`crlf
line` ,repeat
_x
    Packet  , u32 zchar@calculatedFrom(
    """ ++ [233]%N ++ runes_of_ascii "t" ++ [233]%N ++ runes_of_ascii """  ) , // " ++ [128512]%N ++ runes_of_ascii " emoji
@lengthOf(msg_type
    ) repeat string //
f32a `u8 x,`
    ,u , i64 x_y_z`crlf
line`
    , @lengthOf( x_y_z )
    @tag(
    7 ) @lengthOf( roots ) repeat tag {
match i8i8 as packetx //
{[ ""// no comment"" ]
    :
    packetx // @lengthOf(
,""\" ++ [233]%N ++ runes_of_ascii """ : i8i8, ""a\\""
: Packet // " ++ [128512]%N ++ runes_of_ascii " emoji
,// 50% %s
00
: a1 ,	""1""	: Foo
,
    ""\" ++ [233]%N ++ runes_of_ascii """ :rootA
,
    } ,uint8x
// a // b
/// triple
matchKey`" ++ [28040; 24687; 31867; 22411]%N ++ runes_of_ascii "` , //x
char[ // 50% %s
0123456789
] i8i8,  }  , @lengthOf(calculatedFrom ) //x
Foo
    a1
    // packet A { u8 x, }
    ,
/// triple
// @lengthOf(
} MetaData Logon
    { }
MetaData
// a // b
// packet A { u8 x, }
u { msg_type	x`line1
line2` ,//
o
    As
, // " ++ [27880; 37322]%N ++ runes_of_ascii "
zchar[
3
] A `doc`  ,char[ 3	]  a1 ,
    //x
    }
packet trueish { } options { As =  true
options1 = false T= false int /// triple
=	'\x00' ; // " ++ [128512]%N ++ runes_of_ascii " emoji
}
")).
Eval vm_compute in ("<<<M3753>>>" ++ check (runes_of_ascii "
packet Header

{ 
@lengthOf(

matchKey

)

    @lengthOf(  metadata  )

@tag(4294967296 
) match f32a
    as chars
{ """ ++ [128512]%N ++ runes_of_ascii """ :  int
,} , 
match  // @lengthOf(
	roots	as
Packet{

    255 
:
    x_y_z

    ,	}  , char[]
	trueish @lengthOf( i64_  ) `line1
line2` , match
    f32a	as

x_y_z
    {

    255:
	a1
	7

:string_

// @lengthOf(

	// packet A { u8 x, }
      ,

}
,Pad@calculatedFrom(	""" ++ [128512]%N ++ runes_of_ascii """
)
	, char[ 
65535
	]
	pack 
,@lengthOf(
x )  // " ++ [27880; 37322]%N ++ runes_of_ascii "
	match
metadata// " ++ [128512]%N ++ runes_of_ascii " emoji
		as
metadata { 
42	:rootA
	65535

:packetx

,
	[
    7
	]
: zchar
	,
[
    ""it's"" 
,

    ""\n"" ,
42] :

Logon// a // b
    	,
    65535
: body
, 	 // trailing space 
		}

    ,@tag( 
00 )

@rightPad( 
'\x00')	float	`two words` , tag
{
	match 
calculatedFrom as
rootA { [
	""1""	,
	""CRC32"" ,1 ,

    00] :_x , 1:
Z9_
	, """" :
    x,  }
,

    } ,	@calculatedFrom(  """ ++ [128512]%N ++ runes_of_ascii """ ) @lengthOf(
	lengthOf 
        // trailing space 
		// packet A { u8 x, }
	)@calculatedFrom(

"""" ) repeat  int16
x,  } ")).
Eval vm_compute in ("<<<M3865>>>" ++ check (runes_of_ascii "/// triple
options {
    /// triple
    zchar = ""// no comment""
    //
    leftPad = char[]
    // packet A { u8 x, }
    i8i8 = ' ';
    T = '0';
}

packet Logon {
}

packet u128 {
    // `tick` ""quote"" 'q'
    @rightPad('\x00')
    Z9_,
}

packet Packet {
    uint64 As,
    matchKey @calculatedFrom(""" ++ [28040; 24687]%N ++ runes_of_ascii """),
    @tag(0)
    @lengthOf(Logon)
    repeat x {
        repeat char[] leftPad `u8 x,`,
        match Logon as falsey {
            0123456789 : calculatedFrom,
            // trailing space 
            7 : BodyLength,
            ""a\\"" : repeatCount,
            [42] : falsey,
            """ ++ [128512]%N ++ runes_of_ascii """ : u128,
            [
                65535, 3, ""abc"", 007, ""1"",
                3
            ] : Packet,
        },
        //x
    },
    zchar[4294967296] lengthOf `// not a comment`,
    @lengthOf(stringy)
    char[] len ``,
    @calculatedFrom(""it's"")
    zchar[65535] roots @calculatedFrom(""x y"") `u8 x,`,
    uint64 Header,
}")).
Eval vm_compute in ("<<<M1234>>>" ++ check (runes_of_ascii "packet Packet
{	char[ 1 ] Header @lengthOf(x_y_z  )
,
    @lengthOf( _x // trailing space 
)
    repeat Z9_ { i64_, }
,  @lengthOf(// 50% %s
repeatCount
    // " ++ [128512]%N ++ runes_of_ascii " emoji
    ) @tag(
4294967296 )// `tick` ""quote"" 'q'
repeatCount
    calculatedFrom , u8 a1 @calculatedFrom( ""a	b"")`// not a comment`
, repeat
uint32 roots, match i8i8
as u8x
{ //x
[ ""abc"" , ""CRC32"" , 0123456789 ]
    :
    calculatedFrom 4294967296 :float,
0
: chars , ""abc""  : i8i8 // `tick` ""quote"" 'q'
,} , match lengthOf as float
    {""{,}""
    : f32a ""abc""
: zchar 00
: u128 , 4294967296 : leftPad ,
""1""
//x
// packet A { u8 x, }
:
    i8i8,
    1 : uint8x
, } ,
match asx as a1
    // trailing space 
    {
4294967296 : // @lengthOf(
uint8x ,
    007 : u	[""" ++ [28040; 24687]%N ++ runes_of_ascii """ ] : u8x, [""a\\""
, ""\" ++ [233]%N ++ runes_of_ascii """ // @lengthOf(
] :u 7 : x , 1	:Z9_
    ,}
, @lengthOf(
    x ) repeat
    // 50% %s
    int
msg_type `// not a comment`,
    }

")).
Eval vm_compute in ("<<<M686>>>" ++ check (runes_of_ascii "packet  packetx
{}MetaData u128 { } MetaData	calculatedFrom // 50% %s
{ repeatCount Packet , a1 rootA
`{ , }` , float64 rootA`" ++ [28040; 24687; 31867; 22411]%N ++ runes_of_ascii "` ,u trueish
//
//	t
`100% of %d` , As i8i8,// " ++ [128512]%N ++ runes_of_ascii " emoji
}
    //x
    packet a1{ // " ++ [128512]%N ++ runes_of_ascii " emoji
@lengthOf( packetx )
A
    @lengthOf(
T
) `" ++ [233]%N ++ runes_of_ascii "`
    , repeat i32
    rootA `" ++ [233]%N ++ runes_of_ascii "`, //x
repeat u16// trailing space 
metadata , @calculatedFrom(""x y"")
    @leftPad
    ( '0'
) repeat zchar[
    255 ] matchKey , // a // b
match rootA
as
    u128
{
[ 7 ,
    ""1"" ,
""{,}""	, ""packet""
,3 ]:
u ,""" ++ [233]%N ++ runes_of_ascii "t" ++ [233]%N ++ runes_of_ascii """: tag
/// triple
// " ++ [27880; 37322]%N ++ runes_of_ascii "
00: T ,10:	leftPad , ""x y""	:	options1  ,
// packet A { u8 x, }
//
} , @calculatedFrom(
""packet"" ) match
    As as
    len { 4294967296 :
trueish
    , 42 :// trailing space 
lengthOf	, }
    , @tag(  1 )
string _x
    @lengthOf( string_) ,  char[]
    BodyLength @lengthOf( int ) `100% of %d`  ,
i8 pack
    , }
")).
Eval vm_compute in ("<<<M818>>>" ++ check (runes_of_ascii "options { roots // " ++ [128512]%N ++ runes_of_ascii " emoji
= zchar[
    // a // b
    7  ] ;} root packet chars  {	u8x uint8x ,
    // @lengthOf(
    }
    root packet//x
Header {
@tag( 00
)	match chars as _x { 4294967296 :
i64_
,
}, zchar[00 ]
Header
,  Header`{ , }` , i64_ Packet ,@lengthOf(
    a1 ) @rightPad ( ) @lengthOf( Header
    )repeat int8 trueish
    // a // b
    `doc` , @calculatedFrom( ""a\""b"" ) repeat
Foo,	@leftPad ( )
    zchar[ 3]
    u8x ,
@rightPad
(
    ) repeat matchKey {
    // a // b
    i32 roots
    , options1 { Foo@calculatedFrom( ""1""// packet A { u8 x, }
)
    `u8 x,` ,i64_
,	i64_ `doc`,	}
    ,} ,
match matchKey
    as f32a {
    """ ++ [128512]%N ++ runes_of_ascii """:
body,}
    , repeat u	lengthOf// `tick` ""quote"" 'q'
, }packet Header  { // packet A { u8 x, }
@lengthOf( a1 ) Header @calculatedFrom( ""\n""//
)
    `line1
line2`
, }
")).
Eval vm_compute in ("<<<M395>>>" ++ check (runes_of_ascii "packet	A	{ @lengthOf(
    trueish
    ) repeat rootA float
    ,
char[ 42
    ] packetx,
u8x@calculatedFrom(
    ""abc"") , int16 body	@lengthOf(
BodyLength) `{ , }` ,
// packet A { u8 x, }
// @lengthOf(
repeat i8i8
{
Pad u128 ,
    // `tick` ""quote"" 'q'
    zchar[ 10]	string_ // " ++ [27880; 37322]%N ++ runes_of_ascii "
@calculatedFrom( ""a	b""
    )
    `a\`  , char[ 42 ]u8x // @lengthOf(
,
    int64
u@calculatedFrom( ""// no comment"" ),
    }, match
Pad
as float
{ 007 : Packet, 65535 :  _x 0123456789 : // c
charz	, } ,
    A // a // b
`it's` , @calculatedFrom(""a	b"") // " ++ [128512]%N ++ runes_of_ascii " emoji
match  A as T { ""{,}"" // packet A { u8 x, }
: int
""`tick`"" : zchar, [
7 ,
// `tick` ""quote"" 'q'
//
""\n""  ] : i8i8 //x
, """ ++ [128512]%N ++ runes_of_ascii """
:	Packet }  , @calculatedFrom( ""a\\"" ) repeat _x {
trueish Foo,
}
    ,
    // trailing space 
    }")).
Eval vm_compute in ("<<<M1130>>>" ++ check (runes_of_ascii "  packet int { crc @lengthOf( leftPad ) `u8 x,` , zchar[ 4294967296 ]metadata`100% of %d`
,
    @calculatedFrom(	""" ++ [28040; 24687]%N ++ runes_of_ascii """ )
@tag(// packet A { u8 x, }
1 ) char[10 ] Header,	@tag(
    10 ) repeat f32a { match f32a as uint8x //x
{//	t
""CRC32""
    : u128
    , 4294967296: u8x , [
00 ,65535 ] :
leftPad, 007
: leftPad , }
    // trailing space 
    ,// 50% %s
repeat
char msg_type `two words` ,  }
, }options { // `tick` ""quote"" 'q'
string_
=string // trailing space 
}packet string_ {/// triple
As
// " ++ [27880; 37322]%N ++ runes_of_ascii "
// `tick` ""quote"" 'q'
@lengthOf(
    Header) `u8 x,`,char[007]	options1`two words`
    , u128
    @calculatedFrom(	""" ++ [28040; 24687]%N ++ runes_of_ascii """
    )  ,
    zchar[
00 // " ++ [128512]%N ++ runes_of_ascii " emoji
]  chars, char[] len// c
@calculatedFrom( ""CRC32"" ) // trailing space 
, }
")).
Eval vm_compute in ("<<<M4319>>>" ++ check (runes_of_ascii "packet uint8x {
    i16 T `say ""hi""`,
    @tag(007)
    zchar[42] roots ``,
    match uint8x as tag {
        10 : T,
        007 : int,
        ""\" ++ [233]%N ++ runes_of_ascii """ : charz,
        // @lengthOf(
        [
            255, ""it's"", 255, 7, ""a\\"",
            """ ++ [28040; 24687]%N ++ runes_of_ascii """
        ] : Pad,
        [""// no comment""] : matchKey,
    },
    @rightPad('\x00')
    repeat u8x {
        repeat i16 x_y_z,
        u8 calculatedFrom,
        x u128,
        body,
    },
    i32 Logon @calculatedFrom(""`tick`""),
    repeat crc,
    u,
    @calculatedFrom("""")
    float64 i8i8,
    @tag(42)
    @lengthOf(Z9_)
    @tag(00)
    Logon metadata,
    float64 packetx,
}

packet int {
}

MetaData trueish {
    u32 leftPad,// @lengthOf(
}")).
Eval vm_compute in ("<<<M4047>>>" ++ check (runes_of_ascii "// " ++ [27880; 37322]%N ++ runes_of_ascii "
packet u {
    float @calculatedFrom(""it's""),
}

// " ++ [27880; 37322]%N ++ runes_of_ascii "
packet string_ {
    // `tick` ""quote"" 'q'
    @tag(4294967296)
    @lengthOf(charz)
    @leftPad(' ')
    uint8x @lengthOf(zchar),//
    string body,
    @calculatedFrom(""{,}"")
    As,
}

packet u {
    // packet A { u8 x, }
    @lengthOf(roots)
    uint8 f32a `{ , }`,
    // " ++ [27880; 37322]%N ++ runes_of_ascii "
    repeat options1,
    u8x As `a\`,
    @lengthOf(msg_type)
    repeat char[42] u8x,
    _x {
        repeat Packet a1 `u8 x,`,
        repeat int As,
        repeat f64 chars `100% of %d`,
    },
    zchar[3] uint8x,
    // trailing space 
    zchar[007] Packet,
}

MetaData repeatCount {
    float32 calculatedFrom,
}//	t")).
Eval vm_compute in ("<<<M1158>>>" ++ check (runes_of_ascii "options { //	t
}
packet// " ++ [27880; 37322]%N ++ runes_of_ascii "
int  { repeat	packetx ,	@calculatedFrom(
""{,}""  ) match int as tag {
3: Z9_	, [ ""{,}"" ]
:a1,
""packet"" : stringy // c
, 1:
Foo , }, trueish// `tick` ""quote"" 'q'
{repeat
// a // b
// trailing space 
Foo	{
    // trailing space 
    string u
    // " ++ [27880; 37322]%N ++ runes_of_ascii "
    @lengthOf( crc
)
    , },
}, @tag(//	t
42)
    match
trueish
as MetaDataX { [
""`tick`""
    , ""\n"" , 1// " ++ [27880; 37322]%N ++ runes_of_ascii "
, 0
    ,
// packet A { u8 x, }
// a // b
65535 , 65535
] : x
, [
    // trailing space 
    ""x y"" ] :pack , [ 42
    ,""// no comment"" ]
:
    repeatCount , [ 42 // `tick` ""quote"" 'q'
,  1 , 007,
    3 , ""packet""// c
, ""a\\""
]:  asx,
} ,	}
//
")).
Eval vm_compute in ("<<<M444>>>" ++ check (runes_of_ascii "
packet _x { @leftPad('0' ) BodyLength@calculatedFrom(""{,}"") ,	@leftPad
// trailing space 
// 50% %s
( // `tick` ""quote"" 'q'
)matchKey {// trailing space 
char tag @calculatedFrom( """ ++ [233]%N ++ runes_of_ascii "t" ++ [233]%N ++ runes_of_ascii """
    ) , int64 Foo // " ++ [128512]%N ++ runes_of_ascii " emoji
,	}
    ,repeat roots  { repeat tag // `tick` ""quote"" 'q'
, f64 float@calculatedFrom(""" ++ [128512]%N ++ runes_of_ascii """	)
    ,	}, @tag(
    007)  repeat
i8i8
`it's` , @leftPad ( ' '
)
    @calculatedFrom( """ ++ [128512]%N ++ runes_of_ascii """ ) // packet A { u8 x, }
repeat Packet stringy, charz body
`say ""hi""`	, @rightPad ( '0' )
@tag(  4294967296 )@calculatedFrom( ""packet""	)
i32  packetx , u64 _x @lengthOf(matchKey )
`crlf
line` ,
char[ 0
] u128 , }

")).
Eval vm_compute in ("<<<M1299>>>" ++ check (runes_of_ascii "packet // 50% %s
_x { @lengthOf( msg_type ) @tag( 3 )  @tag( 42 ) match float as
    crc{ // trailing space 
""1"" // c
:
As
    , """ ++ [233]%N ++ runes_of_ascii "t" ++ [233]%N ++ runes_of_ascii """  :
repeatCount }
    ,@tag(
3 ) match BodyLength as string_{ [ // " ++ [128512]%N ++ runes_of_ascii " emoji
007,
65535 , """" ] : pack ,""" ++ [233]%N ++ runes_of_ascii "t" ++ [233]%N ++ runes_of_ascii """
:
asx
    [ ""it's""  , ""a\\"" ] :
// c
//	t
A ,
    """"  : body , // @lengthOf(
""// no comment"" : options1 , [ 255
,""x y"" ,
4294967296 , 0123456789 ,
"""" , ""a	b""
] :Pad, } , @calculatedFrom(""it's""
)falsey // c
@calculatedFrom( ""abc"" ) `u8 x,`	,zchar[ // trailing space 
1 ] Logon
    `" ++ [28040; 24687; 31867; 22411]%N ++ runes_of_ascii "` ,  @tag( 0 ) int Header// trailing space 
, }")).
Eval vm_compute in ("<<<M1101>>>" ++ check (runes_of_ascii "MetaData
trueish {trueish len,
string	T ,char[ 0123456789 ]chars
,falsey As // @lengthOf(
`it's`
, chars
calculatedFrom//
, char[] options1 , } root packet leftPad {@rightPad ( ' '	) repeat
matchKey  {
    // 50% %s
    msg_type @calculatedFrom( // a // b
""" ++ [233]%N ++ runes_of_ascii "t" ++ [233]%N ++ runes_of_ascii """ ) ,}	, zchar[// a // b
65535] metadata `a\` , repeat char[ /// triple
0123456789]falsey `
`  , }
root
    // trailing space 
    packet falsey{	f32a
`crlf
line` , }
//x
// " ++ [27880; 37322]%N ++ runes_of_ascii "
options
    { u8x = ""a\""b"" }
MetaData options1 { uint8 tag `line1
line2` ,
char lengthOf,  zchar[ 0
]
As	, }
")).
Eval vm_compute in ("<<<M659>>>" ++ check (runes_of_ascii "root
packet
uint8x
{ @calculatedFrom(
""a\\"") char[
007 ] Packet ,@lengthOf(Foo ) charz @lengthOf(int)
    ,
    len {	i8	chars
// 50% %s
// " ++ [128512]%N ++ runes_of_ascii " emoji
, }
,match tag as BodyLength
// " ++ [128512]%N ++ runes_of_ascii " emoji
//x
{7 :
roots ,  ""a\\""
: lengthOf
    ,""1"" : chars
,
    // 50% %s
    } , @leftPad (
'\x00' ) _x@lengthOf(	MetaDataX),  repeat x{ match
    Logon	as options1
{ 3
: //x
Pad , [ ""abc""	,
    7 , 3, ""x y"" ] : o, [ 4294967296] :
leftPad , /// triple
""" ++ [28040; 24687]%N ++ runes_of_ascii """
: Pad ,}
    // 50% %s
    ,
zchar[ 0123456789 // a // b
]	leftPad ,// " ++ [27880; 37322]%N ++ runes_of_ascii "
stringy T
, } , }
")).
Eval vm_compute in ("<<<M206>>>" ++ check (runes_of_ascii "root
    packet roots{} packet u128 {  @tag(
    65535	)
    // `tick` ""quote"" 'q'
    zchar[ 42
]x //
@calculatedFrom(
//	t
//
""a	b"" )  `doc` ,}
options
    {calculatedFrom = int32; /// triple
}packet
u8x
    { @calculatedFrom(// c
""\" ++ [233]%N ++ runes_of_ascii """ )string_
@lengthOf(asx ) ,@tag( 007	) @tag(10 ) repeat char[] Foo `100% of %d` ,  repeat
    i64_
{ match u8x as // `tick` ""quote"" 'q'
tag//
{ [ ""`tick`""] // " ++ [128512]%N ++ runes_of_ascii " emoji
:
    //
    T ,
42: x_y_z
}  ,char[ 7 ]
Z9_	@calculatedFrom(
    ""a\\"" )`line1
line2` , float64 msg_type
, } ,
}")).
Eval vm_compute in ("<<<M54>>>" ++ check (runes_of_ascii "// trailing space 
root packet
    uint8x { char[] repeatCount , repeat asx{char[ 00	] stringy@lengthOf(
Foo ) // a // b
,
    i8  string_ // 50% %s
, } , float64 i8i8 `a\`,
@tag( 0
) MetaDataX
// @lengthOf(
// " ++ [128512]%N ++ runes_of_ascii " emoji
{ repeat uint16 stringy ,
repeat x_y_z, asx ,
}
    , @rightPad(
'\x00' )  repeat char[ 7 ]  metadata,
    i16 x ,
match falsey	as asx
{""a\""b"": u
    ,
    }
//
//	t
, } options
    {// 50% %s
A =	string o =	i32
;Pad = ""abc"" _x =	true; } options {
Pad
= zchar[ 42] ;}")).
Eval vm_compute in ("<<<M556>>>" ++ check (runes_of_ascii "
options {
} packet// `tick` ""quote"" 'q'
x { @lengthOf( BodyLength
    ) charz _x`doc` ,
//x
// packet A { u8 x, }
@calculatedFrom( ""abc""
)
    o matchKey , @tag(
255
    )
char
// 50% %s
// @lengthOf(
repeatCount @lengthOf(	i64_
    // a // b
    )
, }root packet len { @leftPad ( '\x00' )
//x
// " ++ [27880; 37322]%N ++ runes_of_ascii "
Z9_ @lengthOf( asx )
    `` ,  } packet metadata { char[ 00]
    packetx @lengthOf( i8i8 ) ,	int32
Packet
@lengthOf( x_y_z ),	@tag( 1 ) repeat  uint8 len,
    }
")).
Eval vm_compute in ("<<<M208>>>" ++ check (runes_of_ascii "packet stringy
// `tick` ""quote"" 'q'
// packet A { u8 x, }
{
// trailing space 
//x
match falsey as uint8x { ""a\\""
: As
,""1"":
    f32a ,""it's""
:MetaDataX  65535 //x
: msg_type , """ ++ [128512]%N ++ runes_of_ascii """ :
    matchKey
, },}
    packet trueish
{string_	u8x
,repeat string_{ // a // b
msg_type {
charz @lengthOf( u8x
)  ,  } ,} , @lengthOf(
body )
zchar[ 7 ] string_ `say ""hi""`,
char[255 ] uint8x @calculatedFrom(	""\" ++ [233]%N ++ runes_of_ascii """ ) `a\` ,
}
MetaData
tag {
    As
roots
    ,}
")).
Eval vm_compute in ("<<<M3881>>>" ++ check (runes_of_ascii "packet a1 {
    match asx as f32a {
        10 : Z9_,
        4294967296 : len,
        ""`tick`"" : repeatCount,
        ""1"" : BodyLength,
        0123456789 : As,
    },
    repeatCount leftPad,
    repeat metadata {
        repeat u chars,
    },
    // a // b
    //x
}

packet float {
    repeat x x,
    repeat zchar[007] i64_,
    u8 float @lengthOf(string_),
    asx @calculatedFrom(""\n""),
}

options {
    trueish = 65535;
}")).
Eval vm_compute in ("<<<M380>>>" ++ check (runes_of_ascii "MetaData o { u128	Z9_ ,	i8 metadata ,char len // a // b
`u8 x,` , o f32a , float
float ,	calculatedFrom
i64_ // 50% %s
, }
packet packetx { //	t
@calculatedFrom( ""a\\""
)
    // 50% %s
    match u128 as  x { [ 10 , ""a\""b"" // trailing space 
] :tag
, [255 ]
:
packetx
// " ++ [128512]%N ++ runes_of_ascii " emoji
// a // b
[ 0123456789 //x
] : metadata ,""CRC32"" : roots """ ++ [28040; 24687]%N ++ runes_of_ascii """ :
    // @lengthOf(
    o,
    [
    255  ]:  Packet }
    //	t
    , } //x")).
Eval vm_compute in ("<<<M721>>>" ++ check (runes_of_ascii "
options{
    // c
    len = true ; } packet pack
{uint8 rootA `line1
line2` , }
options { u  =
""\n"" ; MetaDataX = ""`tick`"" ;
    charz = """ ++ [233]%N ++ runes_of_ascii "t" ++ [233]%N ++ runes_of_ascii """  ;
}root
packet// 50% %s
i8i8 //
{//x
@rightPad (//
' ') i32 // c
msg_type// " ++ [128512]%N ++ runes_of_ascii " emoji
,	@tag(	007 ) BodyLength	@lengthOf(
// " ++ [27880; 37322]%N ++ runes_of_ascii "
// trailing space 
charz )
    `` ,
@leftPad() A@calculatedFrom( """ ++ [233]%N ++ runes_of_ascii "t" ++ [233]%N ++ runes_of_ascii """ ) , char zchar @lengthOf( lengthOf )
`crlf
line` , }

")).
Eval vm_compute in ("<<<M872>>>" ++ check (runes_of_ascii "  root packet metadata { @leftPad(	'0' ) @calculatedFrom( ""packet"" ) match  Logon as Header
    // " ++ [128512]%N ++ runes_of_ascii " emoji
    { 3
: body 1: f32a 00 :o, ""a\""b"": o, ""packet""
: asx	, }
,
//x
// " ++ [27880; 37322]%N ++ runes_of_ascii "
@tag( 0123456789
    ) f64 msg_type , @leftPad ( // packet A { u8 x, }
' ' )string msg_type @calculatedFrom( ""CRC32"" )
    // @lengthOf(
    ,
    } options { _x = ""1"" ; Header =f64; } packet lengthOf { }")).
Eval vm_compute in ("<<<M3428>>>" ++ check (runes_of_ascii "// top
options // c0
{ // c1
} // c2
options // c3
{ // c4
string_ // c5
= // c6
false // c7
; // c8
msg_type // c9
= // c10
""1"" // c11
; // c12
} // c13
MetaData // c14
lengthOf // c15
{ // c16
zchar[ // c17
4294967296 // c18
] // c19
Z9_ // c20
, // c21
uint8 // c22
i8i8 // c23
`two words` // c24
, // c25
char[ // c26
7 // c27
] // c28
charz // c29
, // c30
} // c31
")).
Eval vm_compute in ("<<<M3459>>>" ++ check (runes_of_ascii "// top
packet // c0a
  // c0b
B
    // c1
{ // c2a
  // c2b
u8 // c3a
  // c3b
a // c4
,
    // c5
} // c6
root packet // c8a
  // c8b
P { // c10
u8 // c11a
  // c11b
K // c12
, // c13
match K
    // c15
as // c16
Body { // c18a
  // c18b
1 // c19a
  // c19b
: B // c21
, } , u16 // c25
L @lengthOf( // c27a
  // c27b
Body // c28
) // c29
, // c30
} // c31
")).
Eval vm_compute in ("<<<M534>>>" ++ check (runes_of_ascii "MetaData
asx
{ trueish charz,
    } packet rootA  { @tag( 007 ) @rightPad  (  '\x00'
    ) asx tag `// not a comment`
,
    @calculatedFrom(
    ""\" ++ [233]%N ++ runes_of_ascii """ //
)
@leftPad (
'\x00')
    int64 _x
    `100% of %d` , @tag( 4294967296
    )	@tag(
// " ++ [128512]%N ++ runes_of_ascii " emoji
/// triple
3) Packet @calculatedFrom(
""" ++ [128512]%N ++ runes_of_ascii """
    )	`" ++ [233]%N ++ runes_of_ascii "`
//x
// @lengthOf(
,repeat u32 o `crlf
line`, }")).
Eval vm_compute in ("<<<M1239>>>" ++ check (runes_of_ascii "root	packet _x{	match x_y_z as o
    {[	0 ,
65535//x
]
: stringy , ""{,}"" :
// " ++ [128512]%N ++ runes_of_ascii " emoji
// c
string_ } ,} MetaData x_y_z { BodyLength u8x `line1
line2` , }packet chars { @tag( 3)f64 options1`// not a comment` , string
tag
    /// triple
    @lengthOf(BodyLength )
,@tag( 42 )	@tag( 0)
@tag(
65535 )zchar[ 10
    ] u128
`" ++ [28040; 24687; 31867; 22411]%N ++ runes_of_ascii "`, }
")).
Eval vm_compute in ("<<<M3259>>>" ++ check (runes_of_ascii "MetaData metadata { } // c3a
  // c3b
MetaData rootA {
    // c6
i8 // c7
i64_ , roots // c10a
  // c10b
options1 // c11
`a\`
    // c12
,
    // c13
lengthOf // c14
Header // c15
, // c16a
  // c16b
Z9_ Foo // c18a
  // c18b
, // c19a
  // c19b
int16 // c20a
  // c20b
BodyLength // c21a
  // c21b
, }
    // c23
")).
Eval vm_compute in ("<<<M4206>>>" ++ check (runes_of_ascii "  // top

MetaData 	 // c0
    float  // c1
	{ 	 // c2
    	uint8 // c3
    BodyLength// c4
,  // c5
    } 	 // c6
	MetaData 	 // c7
  charz 	 // c8
  	{	// c9
    float32 	 // c10
	trueish // c11
    `a\`// c12
    ,	// c13
    i16	// c14
	metadata 	 // c15
  	`say ""hi""` 	 // c16
, // c17
}  // c18
")).
Eval vm_compute in ("<<<M1922>>>" ++ check (runes_of_ascii "packet	packetx { // trailing space 
x_y_z
{
string
charz ,
string x// @lengthOf(
`two words`
    ,  u8x { // `tick` ""quote"" 'q'
charz `100% of %d` `100% of %d` // packet A { u8 x, }
,}// " ++ [27880; 37322]%N ++ runes_of_ascii "
,} , }
    // a // b
    packet metadata {  @leftPad ( '0') repeat i32 options1 ,u64 uint8x , }
")).
Eval vm_compute in ("<<<M871>>>" ++ check (runes_of_ascii "//
packet	metadata{ }  packet u8x { @leftPad( ' ' ) // @lengthOf(
repeat char[ 7 ] u8x `" ++ [28040; 24687; 31867; 22411]%N ++ runes_of_ascii "` , @rightPad
(  '\x00' )
@lengthOf( matchKey)
string As //x
, zchar[ 255 ] msg_type
// packet A { u8 x, }
//	t
`line1
line2` , @leftPad (
'\x00') @tag( 255
) i8i8 , float64 _x
    `" ++ [233]%N ++ runes_of_ascii "`
    , }
")).
Eval vm_compute in ("<<<M554>>>" ++ check (runes_of_ascii "options {
    // packet A { u8 x, }
    } options {	uint8x =uint64 ; int = u64 ;
tag =007 ;
int =255	; metadata  = '\x00'	} MetaData
asx { u8 options1	``
    , char
charz `a\` ,  string_ Packet
    // c
    `
` , uint8 As ,//
Logon
// @lengthOf(
//x
As `it's` ,
u32 As  ,
    }
")).
Eval vm_compute in ("<<<M1919>>>" ++ check (runes_of_ascii "packet	packetx { // trailing space 
x_y_z
{
string
charz ,
string x// @lengthOf(
`two words`
    ,  u8x { // `tick` ""quote"" 'q'
uint16 `100% of %d` // packet A { u8 x, }
,}// " ++ [27880; 37322]%N ++ runes_of_ascii "
,} , }
    // a // b
    packet metadata {  @leftPad ( '0') repeat i32 options1 ,u64 uint8x , }
")).
Eval vm_compute in ("<<<M1948>>>" ++ check (runes_of_ascii "packet	packetx { // trailing space 
x_y_z
{
string
charz ,
string x// @lengthOf(
`two words`
    ,  u8x { // `tick` ""quote"" 'q'
charz `100% of %d` // packet A { u8 x, }
,}// " ++ [27880; 37322]%N ++ runes_of_ascii "
,} } ,
    // a // b
    packet metadata {  @leftPad ( '0') repeat i32 options1 ,u64 uint8x , }
")).
Eval vm_compute in ("<<<M1946>>>" ++ check (runes_of_ascii "packet	packetx { // trailing space 
x_y_z
{
string
charz ,
string x// @lengthOf(
`two words`
    ,  u8x { // `tick` ""quote"" 'q'
charz `100% of %d` // packet A { u8 x, }
,}// " ++ [27880; 37322]%N ++ runes_of_ascii "
,}  }
    // a // b
    packet metadata {  @leftPad ( '0') repeat i32 options1 ,u64 uint8x , }
")).
Eval vm_compute in ("<<<M3658>>>" ++ check (runes_of_ascii "options {
    // packet A { u8 x, }
}

options {
    uint8x = uint64;
    int = u64;
    tag = 007;
    int = 255;
    metadata = '\x00'
}

MetaData asx {
    u8 options1 ``,
    char charz `a\`,
    string_ Packet `
    `,
    uint8 As,//
    Logon As `it's`,
    u32 As,
}")).
Eval vm_compute in ("<<<M1971>>>" ++ check (runes_of_ascii "packet	packetx { // trailing space 
x_y_z
{
string
charz ,
string x// @lengthOf(
`two words`
    ,  u8x { // `tick` ""quote"" 'q'
charz `100% of %d` // packet A { u8 x, }
,}// " ++ [27880; 37322]%N ++ runes_of_ascii "
,} , }
    // a // b
    packet metadata {   ( '0') repeat i32 options1 ,u64 uint8x , }
")).
Eval vm_compute in ("<<<M2196>>>" ++ check (runes_of_ascii "packet// packet A { u8 x, }
repeatCount	{// packet A { u8 x, }
@leftPad ( '\x00'
) repeat u8x MetaDataX `crlf
line`,
    repeat
    char[] MetaDataX
    ,
u64	uint8x@calculatedFrom(""a\""b""
// c
// packet A { '\x01'u8 x, }
) `tab	here`
,//
}MetaData pack
    {
    }
")).
Eval vm_compute in ("<<<M228>>>" ++ check (runes_of_ascii "packet tag {repeat zchar[ 42
    // trailing space 
    ] A ,
    }packet o {  repeat
    // " ++ [27880; 37322]%N ++ runes_of_ascii "
    A`// not a comment`, @rightPad (
//	t
// " ++ [128512]%N ++ runes_of_ascii " emoji
'\x00' ) @lengthOf(Header
    ) u8x ,
@rightPad(
'0' ) @rightPad(  ' '
    ) @rightPad ( '0' ) string T, } //	t")).
Eval vm_compute in ("<<<M4210>>>" ++ check (runes_of_ascii "
packet
P1 
{

u8
	a , }

    packet
P2	{ P1
, 
}  packet P3 {
P2 
,
	P1
    , }
packet
P4{repeat P3 , P2
,

}

root  packet P5
{
    P4 ,
	P3
	,
	P1
, u8 K,
match K	as
Body

{	4
	:  P4  ,	3 
:

    P3
,
	2

    :

P2
,1
    :

    P1 
,  }	,
}
")).
Eval vm_compute in ("<<<M2146>>>" ++ check (runes_of_ascii "packet// packet A { u8 x, }
repeatCount	{// packet A { u8 x, }
@leftPad ( '\x00'
) repeat u8x MetaDataX `crlf
line`,
    repeat
    char[] MetaDataX
    ,
u64	uint8x@calculatedFrom()
// c
// packet A { u8 x, }
""a\""b"" `tab	here`
,//
}MetaData pack
    {
    }
")).
Eval vm_compute in ("<<<M2097>>>" ++ check (runes_of_ascii "packet// packet A { u8 x, }
repeatCount	{// packet A { u8 x, }
@leftPad ( '\x00'
) repeat u8x zchar[ `crlf
line`,
    repeat
    char[] MetaDataX
    ,
u64	uint8x@calculatedFrom(""a\""b""
// c
// packet A { u8 x, }
) `tab	here`
,//
}MetaData pack
    {
    }
")).
Eval vm_compute in ("<<<M1434>>>" ++ check (runes_of_ascii "packet calculatedFrom
{ @calculatedFrom( ""a\\"" ""a\\"" ) zchar[ 4294967296 ]
calculatedFrom@lengthOf( pack )	`100% of %d` ,char[]body@calculatedFrom( ""// no comment"" )  ,
@tag( 007) //x
int8
leftPad`it's` , repeat pack
    { repeat char[ 3] body
,},
}")).
Eval vm_compute in ("<<<M3315>>>" ++ check (runes_of_ascii "// top
MetaData // c0
float // c1
{
    // c2
uint8 BodyLength // c4
,
    // c5
}
    // c6
MetaData charz // c8
{ // c9a
  // c9b
float32 // c10a
  // c10b
trueish `a\` // c12
,
    // c13
i16 // c14
metadata // c15a
  // c15b
`say ""hi""` , } // c18
")).
Eval vm_compute in ("<<<M1625>>>" ++ check (runes_of_ascii "packet calculatedFrom
{ @calculatedFrom( ""a\\"" ) zchar[ 4294967296 ]
calculatedFrom@lengthOf( pack )	`100% of %d` ,char[]body@calculatedFrom( ""// no comment"" )  ,
@tag( 007) //x
int8
leftPad`it's` , repeat pack
    { $ repeat char[ 3] body
,},
}")).
Eval vm_compute in ("<<<M1425>>>" ++ check (runes_of_ascii "packet calculatedFrom
@calculatedFrom( { ""a\\"" ) zchar[ 4294967296 ]
calculatedFrom@lengthOf( pack )	`100% of %d` ,char[]body@calculatedFrom( ""// no comment"" )  ,
@tag( 007) //x
int8
leftPad`it's` , repeat pack
    { repeat char[ 3] body
,},
}")).
Eval vm_compute in ("<<<M1595>>>" ++ check (runes_of_ascii "packet calculatedFrom
{ @calculatedFrom( ""a\\"" ) zchar[ 4294967296 ]
calculatedFrom@lengthOf( pack )	`100% of %d` ,char[]body@calculatedFrom( ""// no comment"" )  ,
@tag( 007) //x
int8
leftPad`it's` , repeat pack
    { repeat char[ 3] body
},,
}")).
Eval vm_compute in ("<<<M153>>>" ++ check (runes_of_ascii "packet i64_{ char[]matchKey`it's`,
len	{ repeat float
    ,
// " ++ [128512]%N ++ runes_of_ascii " emoji
// a // b
u8 uint8x // " ++ [27880; 37322]%N ++ runes_of_ascii "
@calculatedFrom( ""x y"" )
, i64 // @lengthOf(
u ,// packet A { u8 x, }
repeat
    char[255
]  As ,	}, a1
, }
    options
    { matchKey
=	""" ++ [28040; 24687]%N ++ runes_of_ascii """ ;	}
")).
Eval vm_compute in ("<<<M1414>>>" ++ check (runes_of_ascii " calculatedFrom
{ @calculatedFrom( ""a\\"" ) zchar[ 4294967296 ]
calculatedFrom@lengthOf( pack )	`100% of %d` ,char[]body@calculatedFrom( ""// no comment"" )  ,
@tag( 007) //x
int8
leftPad`it's` , repeat pack
    { repeat char[ 3] body
,},
}")).
Eval vm_compute in ("<<<M3360>>>" ++ check (runes_of_ascii "// top
MetaData
    // c0
_x
    // c1
{
    // c2
f64
    // c3
charz
    // c4
`tab	here`
    // c5
,
    // c6
}
    // c7
options
    // c8
{
    // c9
BodyLength
    // c10
=
    // c11
""" ++ [233]%N ++ runes_of_ascii "t" ++ [233]%N ++ runes_of_ascii """
    // c12
;
    // c13
}
    // c14
")).
Eval vm_compute in ("<<<M1970>>>" ++ check (runes_of_ascii "packet	packetx { // trailing space 
x_y_z
{
string
charz ,
string x// @lengthOf(
`two words`
    ,  u8x { // `tick` ""quote"" 'q'
charz `100% of %d` // packet A { u8 x, }
,}// " ++ [27880; 37322]%N ++ runes_of_ascii "
,} , }
    // a // b
    packet metadata")).
Eval vm_compute in ("<<<M4000>>>" ++ check (runes_of_ascii "packet repeatCount {
    // packet A { u8 x, }
    @leftPad('\x00')
    repeat MetaDataX u8x `crlf
    line`,
    repeat char[] MetaDataX,
    u64 uint8x @calculatedFrom(""a\""b"") `tab	here`,//
}

MetaData pack {
}")).
Eval vm_compute in ("<<<M103>>>" ++ check (runes_of_ascii "// " ++ [27880; 37322]%N ++ runes_of_ascii "
root packet i8i8	{
Foo // 50% %s
@calculatedFrom(	""a\\"")
    `" ++ [28040; 24687; 31867; 22411]%N ++ runes_of_ascii "`,  } packet BodyLength {	@calculatedFrom( // trailing space 
""" ++ [28040; 24687]%N ++ runes_of_ascii """ )
@rightPad (	)	@tag(
    42 // a // b
) len `it's` ,  } 	 ")).
Eval vm_compute in ("<<<M4552>>>" ++ check (runes_of_ascii "  options
	{ }packet
Packet {  char[] i64_
    ,
@tag(

255	) match

crc

as i8i8
	{
""{,}"" :  trueish  """"

:	Pad
	,""a@x\\""

    : Foo ,

    1	:
	packetx

, """ ++ [128512]%N ++ runes_of_ascii """
:
trueish ,
	}  ,

    }

")).
Eval vm_compute in ("<<<M4014>>>" ++ check (runes_of_ascii "
options
    { rootA
=

false
    asx = 
false //x
  	;  BodyLength  =
'0' }	MetaData  zchar 
{ 
i64_  /// triple

_x
`" ++ [233]%N ++ runes_of_ascii "` ,
uint64

    T

    `{ , }`

, 	 // packet A { u8 x, }
  	}
")).
Eval vm_compute in ("<<<M1356>>>" ++ check (runes_of_ascii "
packet // 50% %s
Logon  { @lengthOf(
a1 )
match x_y_z
    as asx { [	""packet""
/// triple
//x
, // 50% %s
""" ++ [128512]%N ++ runes_of_ascii """ ,""packet"" , 4294967296 , """ ++ [28040; 24687]%N ++ runes_of_ascii """
] : A , 3
:Packet , }	,	} // @lengthOf(")).
Eval vm_compute in ("<<<M4179>>>" ++ check (runes_of_ascii "MetaData tag {
    zchar[10] Header `it's`,
    zchar[4294967296] roots,
}

/// triple
packet x {
    @tag(42)
    uint8 crc,
}

MetaData i64_ {
    zchar[1] roots `{ , }`,
}")).
Eval vm_compute in ("<<<M4405>>>" ++ check (runes_of_ascii "MetaData roots {
    char[255] calculatedFrom,
    i32 Foo `say ""hi""`,
    Z9_ Logon,
    // a // b
    //
    float64 msg_type,
    zchar[007] lengthOf `two words`,
}")).
Eval vm_compute in ("<<<M1635>>>" ++ check (runes_of_ascii "options options { } packet Packet{char[] i64_ ,
@tag(
    255) match
crc as i8i8{""{,}"" : trueish """" : Pad , ""a\\"" :
Foo ,
    1 :packetx
, """ ++ [128512]%N ++ runes_of_ascii """ : trueish , } , }")).
Eval vm_compute in ("<<<M2427>>>" ++ check (runes_of_ascii "
packet MetaDataX
{
    @leftPad
( // a // b
packet
) i8 u @lengthOf(
MetaDataX
    ) `say ""hi""` ,	} MetaData BodyLength {
    asx
x_y_z `" ++ [233]%N ++ runes_of_ascii "`
, uint64 u128 , }
")).
Eval vm_compute in ("<<<M440>>>" ++ check (runes_of_ascii "MetaData rootA {
char[]
    /// triple
    leftPad`crlf
line`  , char[ 00	]
packetx// a // b
`" ++ [233]%N ++ runes_of_ascii "`, string
a1 ,
    char
x ,string int , char
A
    `` ,
}

")).
Eval vm_compute in ("<<<M2367>>>" ++ check (runes_of_ascii "
packet {
MetaDataX
    @leftPad
( // a // b
'0'
) i8 u @lengthOf(
MetaDataX
    ) `say ""hi""` ,	} MetaData BodyLength {
    asx
x_y_z `" ++ [233]%N ++ runes_of_ascii "`
, uint64 u128 , }
")).
Eval vm_compute in ("<<<M1788>>>" ++ check (runes_of_ascii "options { } packet Packet{char[] i64_ ,
@tag(
    255) match
crc as i8i8{""{,}"" : trueish """" : Pad , ""a\\"" :
Foo ,
    1 :packetx
, , """ ++ [128512]%N ++ runes_of_ascii """ : trueish , } , }")).
Eval vm_compute in ("<<<M1735>>>" ++ check (runes_of_ascii "options { } packet Packet{char[] i64_ ,
@tag(
    255) match
crc as i8i8{""{,}"" : trueish i64 : Pad , ""a\\"" :
Foo ,
    1 :packetx
, """ ++ [128512]%N ++ runes_of_ascii """ : trueish , } , }")).
Eval vm_compute in ("<<<M1714>>>" ++ check (runes_of_ascii "options { } packet Packet{char[] i64_ ,
@tag(
    255) match
crc as i8i8""{,}""{ : trueish """" : Pad , ""a\\"" :
Foo ,
    1 :packetx
, """ ++ [128512]%N ++ runes_of_ascii """ : trueish , } , }")).
Eval vm_compute in ("<<<M110>>>" ++ check (runes_of_ascii "packet
    // `tick` ""quote"" 'q'
    rootA { uint64
repeatCount , @lengthOf(  u8x
)@tag( 65535 ) //
rootA
    `{ , }` , string T ,zchar[ 3]zchar ,
    }")).
Eval vm_compute in ("<<<M4264>>>" ++ check (runes_of_ascii "  MetaData float

    { uint8  BodyLength ,

    }
	MetaData
charz

{float32
        // c
trueish

    `a\`
,

i16
    metadata	`say ""hi""` ,
}
")).
Eval vm_compute in ("<<<M3493>>>" ++ check (runes_of_ascii "packet A {
    u8 a,
}
packet B {
    u16 b,
}
root packet P {
    u8 K,
    match K as M {
        [1, 2] : A,
        3 : B,
        7 : A,
    },
}
")).
Eval vm_compute in ("<<<M1662>>>" ++ check (runes_of_ascii "options { } packet Packet{ i64_ ,
@tag(
    255) match
crc as i8i8{""{,}"" : trueish """" : Pad , ""a\\"" :
Foo ,
    1 :packetx
, """ ++ [128512]%N ++ runes_of_ascii """ : trueish , } , }")).
Eval vm_compute in ("<<<M4308>>>" ++ check (runes_of_ascii "packet A {
    match k as n {
        [
            ""a"", ""bb"", 007, ""d"", ""e"",
            66, ""g"", ""h"", 9
        ] : B,
        2 : C,
    },
}")).
Eval vm_compute in ("<<<M3460>>>" ++ check (runes_of_ascii "  packet
B { u8
    a 
,  } root
packet

    P{ u8
	K, match

    K as Body
    {

    1 :	B 
,
}
    ,

u16 L@lengthOf(

Body ), }
")).
Eval vm_compute in ("<<<M598>>>" ++ check (runes_of_ascii "//	t
MetaData As{ char[  3] x // @lengthOf(
`
`, trueish Packet ,float64
u8x
    , i8
x_y_z// c
,
falsey Logon// c
,  uint64	x, } 	 ")).
Eval vm_compute in ("<<<M4245>>>" ++ check (runes_of_ascii "packet A {
    match k as n {
        [
            1, ""bb"", 007, ""d"", 5,
            ""f"", 7
        ] : B,
        2 : C,
    },
}")).
Eval vm_compute in ("<<<M531>>>" ++ check (runes_of_ascii "//	t
MetaData rootA{
Header	int	, string_ asx //
, string roots //	t
, string	lengthOf, char[
    3 ] Z9_ , o metadata
, }")).
Eval vm_compute in ("<<<M3283>>>" ++ check (runes_of_ascii "MetaData metadata { } MetaData rootA { i8 i64_ , roots
// c
options1 `a\` , lengthOf Header , Z9_ Foo , int16 BodyLength , }")).
Eval vm_compute in ("<<<M1786>>>" ++ check (runes_of_ascii "options { } packet Packet{char[] i64_ ,
@tag(
    255) match
crc as i8i8{""{,}"" : trueish """" : Pad , ""a\\"" :
Foo ,
    1 :")).
Eval vm_compute in ("<<<M4528>>>" ++ check (runes_of_ascii "options {
    chars = false
    MetaDataX = 42;
    BodyLength = zchar[3];
}

MetaData Foo {
    stringy int `doc`,
}")).
Eval vm_compute in ("<<<M1188>>>" ++ check (runes_of_ascii "options	{
// " ++ [27880; 37322]%N ++ runes_of_ascii "
/// triple
u = 0123456789 ; roots= zchar[ 10	]MetaDataX = 255 _x = '\x00' i64_
    =
false ; } 	 ")).
Eval vm_compute in ("<<<M3322>>>" ++ check (runes_of_ascii "MetaData float { // c
uint8 BodyLength , } MetaData charz { float32 trueish `a\` , i16 metadata `say ""hi""` , }")).
Eval vm_compute in ("<<<M3479>>>" ++ check (runes_of_ascii "// top
root // c0
packet
    // c1
P // c2
{ // c3
string
    // c4
s
    // c5
,
    // c6
} // c7a
  // c7b
")).
Eval vm_compute in ("<<<M248>>>" ++ check (runes_of_ascii "options{A
    = true  ;}
    packet	len {zchar[7 ] Foo//	t
@lengthOf( BodyLength )
    ,
zchar[ 10 ] int,}")).
Eval vm_compute in ("<<<M4087>>>" ++ check (runes_of_ascii "MetaData 
_x
    { f64
    // c
	charz 
`tab	here`

    ,
    } options

{

BodyLength= """ ++ [233]%N ++ runes_of_ascii "t" ++ [233]%N ++ runes_of_ascii """

;
}
")).
Eval vm_compute in ("<<<M4126>>>" ++ check (runes_of_ascii "// " ++ [27880; 37322]%N ++ runes_of_ascii "
options {
}

packet Foo {
    match charz as body {
        4294967296 : int,
    },// 50% %s
}")).
Eval vm_compute in ("<<<M2989>>>" ++ check (runes_of_ascii "packet A {
  match k as n {
    [1, ""bb"", 007, ""d"", 5, ""f"", 7, ""h"", 9, ""j""] : B,
    2 : C
  },
}")).
Eval vm_compute in ("<<<M3739>>>" ++ check (runes_of_ascii "packet A {
    Inner {
        match k as n {
            [1, 22, 007] : B,
        },
    },
}")).
Eval vm_compute in ("<<<M4358>>>" ++ check (runes_of_ascii "
packet As {
	calculatedFrom  @lengthOf(

MetaDataX
	) `100% of %d`
        // " ++ [27880; 37322]%N ++ runes_of_ascii "
	  , 
}

")).
Eval vm_compute in ("<<<M2272>>>" ++ check (runes_of_ascii "MetaData _x {string x `// not a comment` , string
i64_ // trailing space 
`a\` ,
    @ }
")).
Eval vm_compute in ("<<<M3445>>>" ++ check (runes_of_ascii "
packet Inner {
    u8

a ,  }root packet

    P  {
    Inner
ref_obj ,

    u8
x
,}")).
Eval vm_compute in ("<<<M2264>>>" ++ check (runes_of_ascii "MetaData _x {string x `// not a comment` , string
i64_ // trailing space 
`a\` ,
    
")).
Eval vm_compute in ("<<<M3906>>>" ++ check (runes_of_ascii "
packet
    A	{
match k
as 
n 
{

[// a

  1// b
    ,  // c
    2  ]// d
:
B },
}
")).
Eval vm_compute in ("<<<M4388>>>" ++ check (runes_of_ascii "MetaData _x {
    f64 charz `tab	here`,
}

// c
options {
    BodyLength = """ ++ [233]%N ++ runes_of_ascii "t" ++ [233]%N ++ runes_of_ascii """;
}")).
Eval vm_compute in ("<<<M4184>>>" ++ check (runes_of_ascii "packet A {
    B b `
        `,
    B `
        `,
    repeat B bs `
        `,
}")).
Eval vm_compute in ("<<<M3097>>>" ++ check (runes_of_ascii "packet A {
    u32 crc @calculatedFrom(""\
""),
    @calculatedFrom(""\
"") u8 y,
}")).
Eval vm_compute in ("<<<M731>>>" ++ check (runes_of_ascii "root packet
A {	@leftPad
( '0' ) zchar[  3 // @lengthOf(
] As
, A asx , }
")).
Eval vm_compute in ("<<<M3387>>>" ++ check (runes_of_ascii "MetaData _x { f64 charz `tab	here` , } options { BodyLength =
// c
""" ++ [233]%N ++ runes_of_ascii "t" ++ [233]%N ++ runes_of_ascii """ ; }")).
Eval vm_compute in ("<<<M2815>>>" ++ check (runes_of_ascii "u32 } uint32 float64 } BodyLength ; float32 false char[] uint8 match true")).
Eval vm_compute in ("<<<M1900>>>" ++ check (runes_of_ascii "packet	packetx { // trailing space 
x_y_z
{
string
charz ,
string x")).
Eval vm_compute in ("<<<M3400>>>" ++ check (runes_of_ascii "// c
packet o { @tag( 4294967296 ) options1 @lengthOf( u8x ) `" ++ [233]%N ++ runes_of_ascii "` , }")).
Eval vm_compute in ("<<<M1136>>>" ++ check (runes_of_ascii "options {  i8i8
    =  '\x00'
; As =
""" ++ [28040; 24687]%N ++ runes_of_ascii """
; f32a
    = false
; }
")).
Eval vm_compute in ("<<<M4391>>>" ++ check (runes_of_ascii "root packet P {
    u16 a,
    u32 Sum @calculatedFrom(""CRC32""),
}")).
Eval vm_compute in ("<<<M2891>>>" ++ check (runes_of_ascii "packet A {
  match k as n {
    [""a"", 22] : B,
    2 : C
  },
}")).
Eval vm_compute in ("<<<M2419>>>" ++ check (runes_of_ascii "
packet MetaDataX
{
    @leftPad
( // a // b
'0'
) i8 u @le")).
Eval vm_compute in ("<<<M263>>>" ++ check (runes_of_ascii "
packet metadata{ repeat f64 repeatCount `tab	here`
, }

")).
Eval vm_compute in ("<<<M3686>>>" ++ check (runes_of_ascii "

  packet chars
{  uint16	packetx

    `" ++ [28040; 24687; 31867; 22411]%N ++ runes_of_ascii "`
	, 
}")).
Eval vm_compute in ("<<<M4383>>>" ++ check (runes_of_ascii "options {
    msg_type = false
    Foo = zchar[42];
}")).
Eval vm_compute in ("<<<M2324>>>" ++ check (runes_of_ascii "
MetaData Pad{
u32 rootA `line1
line2` ,
    } }
")).
Eval vm_compute in ("<<<M3088>>>" ++ check (runes_of_ascii "MetaData M {
    u8 x `%%d%!`,
    T t `%%d%!`,
}")).
Eval vm_compute in ("<<<M3034>>>" ++ check (runes_of_ascii "MetaData M {
    u8 x `a
b`,
    T t `a
b`,
}")).
Eval vm_compute in ("<<<M74>>>" ++ check (runes_of_ascii "packet
// trailing space 
/// triple
Z9_{ }
")).
Eval vm_compute in ("<<<M4078>>>" ++ check (runes_of_ascii "  packet  A 
{

u8
    x `d" ++ [8287]%N ++ runes_of_ascii "` 
, // c" ++ [8287]%N ++ runes_of_ascii "
  } ")).
Eval vm_compute in ("<<<M185>>>" ++ check (runes_of_ascii "packet chars{uint16 packetx `" ++ [28040; 24687; 31867; 22411]%N ++ runes_of_ascii "` , }

")).
Eval vm_compute in ("<<<M2322>>>" ++ check (runes_of_ascii "
MetaData Pad{
u32 rootA `line1
line2`")).
Eval vm_compute in ("<<<M2634>>>" ++ check (runes_of_ascii "packet A { match as as n { 1 : B }, }")).
Eval vm_compute in ("<<<M1081>>>" ++ check (runes_of_ascii "options {
    trueish
    =
uint8
}")).
Eval vm_compute in ("<<<M3035>>>" ++ check (runes_of_ascii "root packet A {
    u8 x `a
b`,
}")).
Eval vm_compute in ("<<<M1045>>>" ++ check (runes_of_ascii "// " ++ [128512]%N ++ runes_of_ascii " emoji
options
{ // a // b
}")).
Eval vm_compute in ("<<<M3111>>>" ++ check (runes_of_ascii "packet A {
 u8 x `d" ++ [12288]%N ++ runes_of_ascii "`, // c" ++ [12288]%N ++ runes_of_ascii "
}")).
Eval vm_compute in ("<<<M869>>>" ++ check (runes_of_ascii "options
    //
    { } // " ++ [27880; 37322]%N)).
Eval vm_compute in ("<<<M4013>>>" ++ check (runes_of_ascii "

  // packet A { u8 x, }
")).
Eval vm_compute in ("<<<M2617>>>" ++ check (runes_of_ascii "packet A { B { u8 x, }, }")).
Eval vm_compute in ("<<<M229>>>" ++ check (runes_of_ascii "
// packet A { u8 x, }
")).
Eval vm_compute in ("<<<M2238>>>" ++ check (runes_of_ascii "MetaData _x {string x")).
Eval vm_compute in ("<<<M776>>>" ++ check (runes_of_ascii " // trailing space ")).
Eval vm_compute in ("<<<M2773>>>" ++ check (runes_of_ascii "]`?64AeqoR#AP)3/TW")).
Eval vm_compute in ("<<<M3184>>>" ++ check (runes_of_ascii "packet A {
}
// c" ++ [6158]%N)).
Eval vm_compute in ("<<<M3127>>>" ++ check (runes_of_ascii "packet A {
}// c" ++ [8192]%N)).
Eval vm_compute in ("<<<M305>>>" ++ check (runes_of_ascii "packet Foo { }
")).
Eval vm_compute in ("<<<M1077>>>" ++ check (runes_of_ascii "/// triple


")).
Eval vm_compute in ("<<<M2331>>>" ++ check (runes_of_ascii "
MetaData P")).
Eval vm_compute in ("<<<M2192>>>" ++ check (runes_of_ascii "packet//")).
Eval vm_compute in ("<<<M2760>>>" ++ check ([65533]%N ++ runes_of_ascii "T" ++ [65533]%N ++ runes_of_ascii """" ++ [65533]%N ++ runes_of_ascii "8T")).
Eval vm_compute in ("<<<M2450>>>" ++ check (runes_of_ascii "char_")).
Eval vm_compute in ("<<<M3163>>>" ++ check (runes_of_ascii "// c" ++ [12]%N)).
Eval vm_compute in ("<<<M3783>>>" ++ check (runes_of_ascii "
//
")).
Eval vm_compute in ("<<<M2692>>>" ++ check (runes_of_ascii "{ }")).
Eval vm_compute in ("<<<M2463>>>" ++ check (runes_of_ascii "u")).
