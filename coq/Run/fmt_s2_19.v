From FP Require Import Lexer Parser ShowPT Digest Formatter.
From Coq Require Import String List NArith.
Import ListNotations.
Open Scope string_scope.
Set Printing Width 100000000.
Set Printing Depth 100000000.
Definition show_fres (r : fres) : string :=
  match r with
  | FOk s => "OK:" ++ sh_escaped s ""
  | FErr s => "ERR:" ++ sh_escaped s ""
  | FPanic p => "PANIC:" ++ p
  end.
Definition check (rs : list rune) : string := digest (show_fres (format_res rs)).
Definition full (rs : list rune) : string := show_fres (format_res rs).
Eval vm_compute in ("<<<M1945>>>" ++ check (runes_of_ascii "//x
  root packet
// `tick` ""quote"" 'q'
	  // `tick` ""quote"" 'q'
	i8i8
{
	u128 {
	repeat lengthOf
Foo//
		`u8 x,` 
,
	MetaDataX
falsey
	`two words` ,Pad { u8
	a1 @lengthOf( leftPad )
,
}
	,
int

@calculatedFrom(// " ++ [128512]%N ++ runes_of_ascii " emoji
""a\\"" ) 
`
`
	,} , Header Logon
,
match
    rootA	// c
	as BodyLength
    // " ++ [27880; 37322]%N ++ runes_of_ascii "

{
	""" ++ [28040; 24687]%N ++ runes_of_ascii """:

    Pad

    [ """ ++ [233]%N ++ runes_of_ascii "t" ++ [233]%N ++ runes_of_ascii """ 
,
1

]
:_x
,	}
,
options1`crlf
line` 
,
    repeat  u {match i8i8
as falsey
	{ 	 // `tick` ""quote"" 'q'
  [42
	,4294967296

    ]

    :
    x_y_z
    ,
    42
	: float
, 
	// `tick` ""quote"" 'q'
	// c
    3

    :
	packetx

    ,}

, }

,
    charz	,} 
// a // b
root  packet
float  
      // @lengthOf(
      // c
	{
    repeat

_x
body

`say ""hi""` , charz 
`// not a comment`

    ,

repeat	lengthOf{
repeatCount
{repeat 
tag{zchar[ 42 
]

// a // b
	  // " ++ [27880; 37322]%N ++ runes_of_ascii "
	  leftPad
    ,repeat
zchar[0123456789 
]

    T
    `crlf
line`
,
    char[] trueish
	,zchar[
007// " ++ [128512]%N ++ runes_of_ascii " emoji

] 
lengthOf 
@lengthOf(	string_

)`" ++ [233]%N ++ runes_of_ascii "`	,}
,repeat int32  As, 
int8
chars , 
i32
    calculatedFrom 
`it's`
, } 	 /// triple
    ,
	zchar[  00]

chars 
``

    , }	,	char[ 
255
    ]
	charz 
@calculatedFrom(
""1"" 
) `doc`
, // packet A { u8 x, }
    match	body
as 
rootA
{""CRC32""  :

    A
    ,  [ 
007

, 
""{,}""
,0 // `tick` ""quote"" 'q'
	,  ""1""  ,
    0123456789

    ,

""// no comment"" // " ++ [27880; 37322]%N ++ runes_of_ascii "
,""it's"",

1
] :	BodyLength
65535:x_y_z
[	""`tick`""
]
:

a1}
,
repeat
	asx{ char[0123456789

]
i64_
    `" ++ [28040; 24687; 31867; 22411]%N ++ runes_of_ascii "`

    , }  ,

@lengthOf(

x_y_z
	)  pack@calculatedFrom(  """ ++ [233]%N ++ runes_of_ascii "t" ++ [233]%N ++ runes_of_ascii """  ) 
,
@tag( 3

// trailing space 

//
	) repeat  uint64
	o 
,// @lengthOf(
  }
")).
Eval vm_compute in ("<<<M378>>>" ++ check (runes_of_ascii "options {
	StringPrefixLenType = u16;
	ArrayPrefixLenType = u16;
}

packet SampleBinary {
    uint16 MsgType `" ++ [28040; 24687; 31867; 22411]%N ++ runes_of_ascii "`,
    u16 BodyLenght @lengthOf(Body) `" ++ [28040; 24687; 20307; 38271; 24230]%N ++ runes_of_ascii "`,
    match MsgType as Body {
        1 : Logon,
        2 : Logout,
        3 : Heartbeat,
        4 : RiskControlRequest,
        5 : RiskControlResponse,
    },
        @calculatedFrom(""CRC32"")
    u32 Ckecksum `" ++ [26657; 39564; 21644]%N ++ runes_of_ascii "`,
}

packet Logon {
     @leftPad('0')
    char[10] UserName `" ++ [29992; 25143; 21517]%N ++ runes_of_ascii "`,
    string Password `" ++ [23494; 30721]%N ++ runes_of_ascii "`,
    uint64 ClientId `" ++ [23458; 25143; 31471]%N ++ runes_of_ascii "ID`,
    u16 HeartbeatInterval `" ++ [24515; 36339; 38388; 38548]%N ++ runes_of_ascii "`,
}

packet Logout {
      @rightPad('0')
    char[10] UserName `" ++ [29992; 25143; 21517]%N ++ runes_of_ascii "`,
    uint64 ClientId `" ++ [23458; 25143; 31471]%N ++ runes_of_ascii "ID`,
}

packet Heartbeat {
}

packet RiskControlRequest {
    string UniqueOrderId `" ++ [21807; 19968; 35746; 21333; 21495]%N ++ runes_of_ascii "`,
    char[16] ClOrdID `" ++ [23458; 25143; 35746; 21333; 21495]%N ++ runes_of_ascii "`,
    char[3] MarketID `" ++ [24066; 22330]%N ++ runes_of_ascii "id`,
    char[12] SecurityID `" ++ [35777; 21048; 20195; 30721]%N ++ runes_of_ascii "`,
    char Side `" ++ [20080; 21334; 26041; 21521]%N ++ runes_of_ascii "`,
    char OrderType `" ++ [35746; 21333; 31867; 22411]%N ++ runes_of_ascii "`,
    u64 Price `" ++ [20215; 26684]%N ++ runes_of_ascii "`,
    u32 Qty `" ++ [25968; 37327]%N ++ runes_of_ascii "`,
    repeat string ExtraInfo `" ++ [38468; 21152; 20449; 24687]%N ++ runes_of_ascii "`,
    repeat SubOrder {
    		char[16] ClOrdID `" ++ [23376; 35746; 21333; 21495]%N ++ runes_of_ascii "`,
    		u64 Price `" ++ [23376; 35746; 21333; 20215; 26684]%N ++ runes_of_ascii "`,
    		u32 Qty `" ++ [23376; 35746; 21333; 25968; 37327]%N ++ runes_of_ascii "`,
    	},
}

packet RiskControlResponse {
    string UniqueOrderId `" ++ [21807; 19968; 35746; 21333; 21495]%N ++ runes_of_ascii "`,
    i32 Status `" ++ [29366; 24577]%N ++ runes_of_ascii "`,
    string Msg `" ++ [32467; 26524; 20449; 24687]%N ++ runes_of_ascii "`,
    repeat Detail,
}

packet Detail {
    string RuleName `" ++ [35268; 21017; 21517; 31216]%N ++ runes_of_ascii "`,
    u16 Code `" ++ [21407; 22240; 20195; 30721]%N ++ runes_of_ascii "`,
}")).
Eval vm_compute in ("<<<M1437>>>" ++ check (runes_of_ascii "options
	{
StringPrefixLenType
=

u8 ; ArrayPrefixLenType = u8
    ;FixedStringPadFromLeft	=true	; 
FixedStringPadChar =

    ' '	;
}packet Logout 
{repeat
	string
Px
    ,
	repeat

    string
seqNo
    , InMsgkind64	{uint16

OrderId ,

    char[]	count,	repeat

    i32

    venue ,
},
}packet

Heartbeat 
{ float32  tag7

    ,repeat
InPrice50	{ repeat
char[
5
	]	lastPx

,  InRef42 
{
u8

    pad0	,	}

,

uint32
Acct
,
	repeat Logout , repeat char[ 5	] Qty ,}
,repeat InSeqno30

{ repeat	Logout
    , 
}
,
	@leftPad(	'0'	)char[

    12
    ]

Acct  ,char[]Side2
    ,
	repeat
string 
msgKind  , 
}

    packet  Ack
{  Heartbeat
	,
char[ 8  ]seqNo
	,
float64
clOrdID
	,

} 
packet
    Trade { char[]

    OrderId
    ,  f64

    Side2

    , zchar[	8 ]f1  , string Qty
,float64 seqNo
,
    repeat
Logout

    ,

} packet
Order

    {
    f32 
OrderId
    ,
repeat 
u8 x

    ,
Ack 
,zchar[ 
7
]
Note  , }
	root  packet
Logon

    {
@rightPad('\x00' )
	char[
9

]
	f1 , }
")).
Eval vm_compute in ("<<<M1972>>>" ++ check (runes_of_ascii "
// top
      root 	 // c0
  packet // c1
  msg_type  // c2
  	{ // c3
    i64  // c4

options1	// c5
  , // c6
@lengthOf(// c7
		f32a  // c8
  ) // c9
  repeat // c10

uint16 	 // c11
	Foo // c12
	, 	 // c13

  @calculatedFrom( // c14
	""x y"" // c15
) // c16
repeat// c17
    int64	// c18
	pack // c19
    , // c20

	@leftPad  // c21
    (// c22
	' ' 	 // c23

  )  // c24
      uint8  // c25

	Foo	// c26
	, // c27
} 	 // c28

packet	// c29
rootA  // c30
  	{ // c31
f32a  // c32
  	x // c33
  `two words` 	 // c34
  ,	// c35

char	// c36
  asx 	 // c37
	  @lengthOf( // c38
falsey// c39

  ) // c40
    	`u8 x,`// c41
  ,  // c42
  @lengthOf(	// c43
	  i64_// c44
  ) // c45
    uint16 	 // c46
    chars// c47
    ,	// c48

@tag( // c49
	0	// c50
  )  // c51
string 	 // c52
	_x // c53

@calculatedFrom(	// c54
  ""abc""// c55
	  )// c56
  `// not a comment` // c57
	,  // c58
  	}	// c59")).
Eval vm_compute in ("<<<M1961>>>" ++ check (runes_of_ascii "packet options1 {
    @leftPad()
    @calculatedFrom(""\n"")
    @leftPad(' ')
    chars T `say ""hi""`,
    // @lengthOf(
    repeat zchar {
        metadata {
            // @lengthOf(
            // c
            match A as x_y_z {
                ""1"" : string_,
                // @lengthOf(
                [""// no comment"", 10] : Foo,
                ""a\\"" : Packet,
                [""a	b"", 65535] : x,
            },
        },
    },
    @rightPad()
    f32 msg_type,
    match f32a as body {
        [
            ""`tick`"", ""\n"", ""a	b"", ""{,}"", 255,
            ""x y"", 3
        ] : x,
        ""CRC32"" : zchar,
        ""x y"" : rootA,
        // `tick` ""quote"" 'q'
        [00, ""it's"", 4294967296, ""CRC32""] : roots,
        4294967296 : Logon,
    },
    @leftPad('0')
    pack `crlf
    line`,
}")).
Eval vm_compute in ("<<<M0>>>" ++ check (runes_of_ascii "packet body{ @tag( 0123456789 )repeatCount { // @lengthOf(
i32
roots	@calculatedFrom( ""it's""
    )
    // trailing space 
    ,
    char[]repeatCount @calculatedFrom(
""packet"" ) `two words` // " ++ [128512]%N ++ runes_of_ascii " emoji
,repeat u16 roots , match lengthOf as As //	t
{ [ ""packet"" ,""" ++ [28040; 24687]%N ++ runes_of_ascii """,	255
, 42 ,""\" ++ [233]%N ++ runes_of_ascii """ ] : x_y_z ,
    } , } , trueish ,@tag( 65535 )
@tag( 255  ) /// triple
@tag(00) chars @calculatedFrom(""it's"" ) ,	match o as
    // `tick` ""quote"" 'q'
    roots {
// " ++ [27880; 37322]%N ++ runes_of_ascii "
// c
""{,}""
: options1 , """ ++ [28040; 24687]%N ++ runes_of_ascii """
    :	lengthOf	, 00: pack  ,[ ""a\""b"" ] :
    msg_type ,1 : i8i8
, [ 10  , 3 ,"""" ] : falsey ,} , }
root packet// `tick` ""quote"" 'q'
Z9_ {repeat char[] // a // b
Packet	, string chars@calculatedFrom( ""a\""b"" )
`// not a comment`
    // " ++ [128512]%N ++ runes_of_ascii " emoji
    ,	}
")).
Eval vm_compute in ("<<<M1817>>>" ++ check (runes_of_ascii "root packet packetx {
    match x as repeatCount {
        65535 : i8i8,
        10 : x_y_z,
        42 : packetx,
        0123456789 : metadata,
        [""\" ++ [233]%N ++ runes_of_ascii """] : x_y_z,
        ""a\\"" : i8i8,
    },
    stringy {
        // c
        stringy i64_,
        repeat Header As `two words`,
    },
    repeat char[007] u8x `line1
        line2`,
    @lengthOf(charz)
    // packet A { u8 x, }
    @leftPad('0')
    int16 BodyLength,
    repeat float32 repeatCount,
    match trueish as MetaDataX {
        ""a	b"" : x,
    },
    char[0] matchKey @lengthOf(float),
    @lengthOf(i64_)
    @lengthOf(repeatCount)
    // " ++ [27880; 37322]%N ++ runes_of_ascii "
    @lengthOf(float)
    f32 Z9_,
}")).
Eval vm_compute in ("<<<M293>>>" ++ check (runes_of_ascii "root packet zchar { @rightPad (  ) repeat
uint32 Pad  ,
// a // b
// c
char[ 4294967296 ] f32a @calculatedFrom( """" )
`u8 x,`
, uint16 BodyLength @lengthOf( packetx)
`it's`  , @calculatedFrom( ""a\\"" ) string falsey // c
`a\`
    , matchKey Packet`it's` , match trueish as matchKey
{ ""\n"" : trueish [ ""\n"" ,
3]
    : len , [ 10  ] : Logon // `tick` ""quote"" 'q'
0123456789
: packetx ,  ""it's"" :
Pad , 42
// @lengthOf(
// a // b
:
    falsey , } ,
match metadata
    as rootA { """ ++ [128512]%N ++ runes_of_ascii """ : Header ,
255 : T ,0123456789 : tag
    , ""x y""
: MetaDataX ,} ,}")).
Eval vm_compute in ("<<<M187>>>" ++ check (runes_of_ascii "root packet A
{  match
u8x as body {
7:
    BodyLength // trailing space 
, 007 : _x , 10 :
    Header},// `tick` ""quote"" 'q'
@lengthOf( pack ) tag @lengthOf( rootA  )
,match a1 as  calculatedFrom
{ 1 :
string_
, } ,  @lengthOf( x_y_z
) a1,
    @lengthOf(	MetaDataX
) int ,} packet
repeatCount { uint64 string_ `two words` , } options	{chars
    = false; float
//	t
// " ++ [27880; 37322]%N ++ runes_of_ascii "
= """ ++ [28040; 24687]%N ++ runes_of_ascii """ crc=u8 a1 = 1;
} MetaData // a // b
leftPad {
    u128 Header , } options {
    }

")).
Eval vm_compute in ("<<<M1929>>>" ++ check (runes_of_ascii "  packet
Frame	{ u8

HK

    , 
u8

BK
	,u8  TK ,match
HK 
as
Hdr 
{ 
1:
	HdrA , 2

: 
HdrB ,
	}
,

    match
BK
as 
Body {1 
:BodyA ,

2
    :
    BodyB , },match 
TK  as

Trl

    { 
1
	: TrlA	,}

    ,
} packet HdrA	{
u8 a  ,
    }
	packet HdrB

{u16 b
, }	packet
    BodyA  {u32
c
,

    }packet
	BodyB
    { 
u64
	d ,	}  packet
TrlA	{
    u8
e	,

}root packet Msg  {

    Frame
	,u8

x,
	}")).
Eval vm_compute in ("<<<M79>>>" ++ check (runes_of_ascii "options { len =
    255 tag=""" ++ [233]%N ++ runes_of_ascii "t" ++ [233]%N ++ runes_of_ascii """ }packet	packetx
{
    } options { repeatCount= '\x00' ; x = 4294967296 len =
false	; A =
    false ;Packet
= """" // " ++ [27880; 37322]%N ++ runes_of_ascii "
;
    }MetaData
    x  {
//
// `tick` ""quote"" 'q'
uint32 roots,  lengthOf o `
`	,
u32
    x_y_z `line1
line2` ,
    int64  msg_type
// a // b
//
`crlf
line`	, string repeatCount `line1
line2` , u128 stringy
    , }")).
Eval vm_compute in ("<<<M1433>>>" ++ check (runes_of_ascii "
options { LittleEndian  =
    true  ;
	ArrayPrefixLenType	= 
u64;
	FixedStringPadFromLeft
=false
; }

    packet  Quote 
{

    }
root packet	Order	{i64

    Side2
    ,
    Quote ,

    u32 
Px
,
match Px
as
	Body
{

[
    119
    ,

    147 ]

:  Quote
,}
    ,	u16
    Flags  @calculatedFrom(
""CRC32""
)	,

}
")).
Eval vm_compute in ("<<<M43>>>" ++ check (runes_of_ascii "MetaData Foo
    {
    chars i8i8 ,  }MetaData
// trailing space 
// " ++ [27880; 37322]%N ++ runes_of_ascii "
BodyLength{calculatedFrom a1 `it's`
,
} packet Z9_ //	t
{ @calculatedFrom(
    """ ++ [128512]%N ++ runes_of_ascii """ ) @lengthOf( metadata )
    string a1
    /// triple
    `{ , }` ,
    match
u8x as o { 10
:  Foo // @lengthOf(
, ""abc"" : falsey},
}
")).
Eval vm_compute in ("<<<M274>>>" ++ check (runes_of_ascii "packet falsey
    { //	t
_x { T@calculatedFrom(
""" ++ [28040; 24687]%N ++ runes_of_ascii """
),int64 roots , match
    float as a1 { 1//	t
:falsey  , [
    // c
    ""CRC32""  ,""a\""b"" ,
    255 , 65535 , 42	,0123456789]
:
pack
, }, } , pack
    { falsey//x
, } , packetx // packet A { u8 x, }
, }
")).
Eval vm_compute in ("<<<M1363>>>" ++ check (runes_of_ascii "// top
options
    // c0
{
    // c1
FixedStringPadFromLeft =
    // c3
true // c4
;
    // c5
}
    // c6
root
    // c7
packet P // c9a
  // c9b
{
    // c10
char[
    // c11
4 // c12a
  // c12b
] z
    // c14
, // c15a
  // c15b
} ")).
Eval vm_compute in ("<<<M240>>>" ++ check (runes_of_ascii "packet T {}  MetaData i8i8{
    calculatedFrom	u128
`u8 x,` , string_
a1	`" ++ [233]%N ++ runes_of_ascii "`
    ,	Foo
    int ,
    zchar[007 ]chars , pack x , crc repeatCount , }packet options1
{ @tag(1 )char[1]
f32a ,_x@lengthOf(_x ) ``, } // " ++ [128512]%N ++ runes_of_ascii " emoji")).
Eval vm_compute in ("<<<M437>>>" ++ check (runes_of_ascii "options
{
matchKey = 42/// triple
x='0' ;
// packet A { u8 x, }
//
charz
= =
// packet A { u8 x, }
// trailing space 
true  ; } MetaData BodyLength
{
uint8
pack,zchar[ 1]float ,  float32 x_y_z `` ,u32
_x,i16 body  , }
")).
Eval vm_compute in ("<<<M574>>>" ++ check (runes_of_ascii "options
{
" ++ [8232]%N ++ runes_of_ascii "matchKey = 42/// triple
x='0' ;
// packet A { u8 x, }
//
charz
=
// packet A { u8 x, }
// trailing space 
true  ; } MetaData BodyLength
{
uint8
pack,zchar[ 1]float ,  float32 x_y_z `` ,u32
_x,i16 body  , }
")).
Eval vm_compute in ("<<<M518>>>" ++ check (runes_of_ascii "options
{
matchKey = 42/// triple
x='0' ;
// packet A { u8 x, }
//
charz
=
// packet A { u8 x, }
// trailing space 
true  ; } MetaData BodyLength
{
uint8
pack,zchar[ 1]float ,  float32 `` x_y_z ,u32
_x,i16 body  , }
")).
Eval vm_compute in ("<<<M421>>>" ++ check (runes_of_ascii "options
{
matchKey = 42/// triple
x= ;
// packet A { u8 x, }
//
charz
=
// packet A { u8 x, }
// trailing space 
true  ; } MetaData BodyLength
{
uint8
pack,zchar[ 1]float ,  float32 x_y_z `` ,u32
_x,i16 body  , }
")).
Eval vm_compute in ("<<<M1652>>>" ++ check (runes_of_ascii "packet A {
    match k as n {
        ""x\
                y"" : B,
        [""x\
                y"", 1] : C,
        [
            1, 2, 3, 4, 5,
            ""x\
                        y""
        ] : D,
    },
}")).
Eval vm_compute in ("<<<M525>>>" ++ check (runes_of_ascii "options
{
matchKey = 42/// triple
x='0' ;
// packet A { u8 x, }
//
charz
=
// packet A { u8 x, }
// trailing space 
true  ; } MetaData BodyLength
{
uint8
pack,zchar[ 1]float ,  float32 x_y_z")).
Eval vm_compute in ("<<<M687>>>" ++ check (runes_of_ascii "// c
packet i64_ {	char[] calculatedFrom , } packet
trueish  {@calculatedFrom(
""a\\"" ) o { packet falsey@lengthOf( uint8x ),
} , } // `tick` ""quote"" 'q'
options {// c
Z9_ = ' '//
}
")).
Eval vm_compute in ("<<<M701>>>" ++ check (runes_of_ascii "// c
packet i64_ {	char[] calculatedFrom , } packet
trueish  {@calculatedFrom(
""a\\"" ) o { i32 falsey@lengthOf( uint8x ,
} , } // `tick` ""quote"" 'q'
options {// c
Z9_ = ' '//
}
")).
Eval vm_compute in ("<<<M500>>>" ++ check (runes_of_ascii "options
{
matchKey = 42/// triple
x='0' ;
// packet A { u8 x, }
//
charz
=
// packet A { u8 x, }
// trailing space 
true  ; } MetaData BodyLength
{
uint8
pack,zchar[ 1")).
Eval vm_compute in ("<<<M1734>>>" ++ check (runes_of_ascii "
packet
	A	{
	match  k
	as
    n{ 
[	""a""
,
""bb"",
""c c""
    ,
    ""d"", ""e""  ,  ""f""  ,""g"" 
, ""h""

    ,
""i""
    ,
""j""
, ""k""
	]
: 
B
	,
2 :  C }, 
}

")).
Eval vm_compute in ("<<<M1643>>>" ++ check (runes_of_ascii "MetaData o {
    char[] i64_ `{ , }`,
    u16 tag,
    char[] lengthOf `u8 x,`,
    Z9_ rootA `
    `,
    zchar[3] u,// " ++ [27880; 37322]%N ++ runes_of_ascii "
    float T `{ , }`,
}")).
Eval vm_compute in ("<<<M1786>>>" ++ check (runes_of_ascii "packet A {
    B b `a
            b
          c`,
    B `a
            b
          c`,
    repeat B bs `a
            b
          c`,
}")).
Eval vm_compute in ("<<<M1801>>>" ++ check (runes_of_ascii "

  packet  Logon{
    @tag(
    42 ) 
    // c
  @rightPad
( 
' '
) 
@leftPad

( )
    repeat trueish
{ string T,
}

,
    }
")).
Eval vm_compute in ("<<<M2041>>>" ++ check (runes_of_ascii "packet B {
    u8 a,
}

root packet P {
    u8 K,
    u64 L @lengthOf(Body),
    match K as Body {
        1 : B,
    },
}")).
Eval vm_compute in ("<<<M608>>>" ++ check (runes_of_ascii "MetaData
    // trailing space 
    matchKey
{ u64 , // a // b
chars char[] lengthOf `// not a comment`
    , //	t
}")).
Eval vm_compute in ("<<<M905>>>" ++ check (runes_of_ascii "packet A {
  match k as n {
    [""a"", ""bb"", ""c c"", ""d"", ""e"", ""f"", ""g"", ""h"", ""i"", ""j"", ""k"", ""l""] : B,
    2 : C
  },
}")).
Eval vm_compute in ("<<<M601>>>" ++ check (runes_of_ascii "MetaData
    // trailing space 
    matchKey
{  chars // a // b
,char[] lengthOf `// not a comment`
    , //	t
}")).
Eval vm_compute in ("<<<M587>>>" ++ check (runes_of_ascii "
    // trailing space 
    matchKey
{ u64 chars // a // b
,char[] lengthOf `// not a comment`
    , //	t
}")).
Eval vm_compute in ("<<<M629>>>" ++ check (runes_of_ascii "MetaData
    // trailing space 
    matchKey
{ u64 chars // a // b
,char[] lengthOf string
    , //	t
}")).
Eval vm_compute in ("<<<M1267>>>" ++ check (runes_of_ascii "packet calculatedFrom { @tag( 4294967296 ) u msg_type // c
, char[ 3 ] crc @lengthOf( len ) `u8 x,` , }")).
Eval vm_compute in ("<<<M62>>>" ++ check (runes_of_ascii "
options{metadata
    =
// @lengthOf(
// @lengthOf(
""a	b"" u = 0
; // trailing space 
i8i8 = 0
;	} 	 ")).
Eval vm_compute in ("<<<M1099>>>" ++ check (runes_of_ascii "// top
MetaData // c0
zchar // c1
{ // c2
zchar[ // c3
3 // c4
] // c5
Pad // c6
, // c7
} // c8
")).
Eval vm_compute in ("<<<M1145>>>" ++ check (runes_of_ascii "packet Logon { @tag( 42 ) @rightPad (
// c
' ' ) @leftPad ( ) repeat trueish { string T , } , }")).
Eval vm_compute in ("<<<M202>>>" ++ check (runes_of_ascii "
options {
roots //x
=""packet"" ; len  =0 ;crc  =zchar[65535
/// triple
// " ++ [128512]%N ++ runes_of_ascii " emoji
]//x
;
}
")).
Eval vm_compute in ("<<<M1956>>>" ++ check (runes_of_ascii "packet A {
    Inner {
        match k as n {
            [1, 22] : B,
        },
    },
}")).
Eval vm_compute in ("<<<M1737>>>" ++ check (runes_of_ascii "
// c
MetaData
_x  {  zchar[
4294967296 ]  lengthOf`// not a comment`

    , 
} ")).
Eval vm_compute in ("<<<M1207>>>" ++ check (runes_of_ascii "
// c
packet o { @tag( 42 ) repeat x { char[ 0123456789 ] i64_ , } , } options { }")).
Eval vm_compute in ("<<<M1228>>>" ++ check (runes_of_ascii "packet o { @tag( 42 ) repeat x { char[ 0123456789 // c
] i64_ , } , } options { }")).
Eval vm_compute in ("<<<M1794>>>" ++ check (runes_of_ascii "packet
    matchKey {@tag(
7 
)@leftPad
    //x
  	(
'\x00' 
)  string_
,	}
")).
Eval vm_compute in ("<<<M40>>>" ++ check (runes_of_ascii "  root
    packet falsey
{}
/// triple
// " ++ [27880; 37322]%N ++ runes_of_ascii "
options {}
// trailing space 
")).
Eval vm_compute in ("<<<M788>>>" ++ check (runes_of_ascii "packet A {
  match k as n {
    [""a"", ""bb"", ""c c""] : B,
    2 : C
  },
}")).
Eval vm_compute in ("<<<M1310>>>" ++ check (runes_of_ascii "MetaData
// c
_x { zchar[ 4294967296 ] lengthOf `// not a comment` , }")).
Eval vm_compute in ("<<<M15>>>" ++ check (runes_of_ascii "options
    { Z9_
    =
""" ++ [233]%N ++ runes_of_ascii "t" ++ [233]%N ++ runes_of_ascii """; rootA = string; } // trailing space ")).
Eval vm_compute in ("<<<M1524>>>" ++ check (runes_of_ascii "// top
MetaData zchar {
    // c2
    zchar[3] Pad,// c7
}// c8")).
Eval vm_compute in ("<<<M1495>>>" ++ check (runes_of_ascii "root packet P {
    repeat string ss,
    repeat u16 ns,
}")).
Eval vm_compute in ("<<<M962>>>" ++ check (runes_of_ascii "MetaData M {
    u8 x `tab
	x`,
    T t `tab
	x`,
}")).
Eval vm_compute in ("<<<M964>>>" ++ check (runes_of_ascii "options {
    a = ""x\
y"";
    b = ""x\
y""
}")).
Eval vm_compute in ("<<<M1329>>>" ++ check (runes_of_ascii "root packet P {
    char c,
    u8 x,
}
")).
Eval vm_compute in ("<<<M1091>>>" ++ check (runes_of_ascii "root // a
 packet // b
 A // c
 { }")).
Eval vm_compute in ("<<<M51>>>" ++ check (runes_of_ascii "options
{ string_ = //	t
007 }
")).
Eval vm_compute in ("<<<M1903>>>" ++ check (runes_of_ascii "options {
    zchar = false;
}")).
Eval vm_compute in ("<<<M1196>>>" ++ check (runes_of_ascii "options { u8x = 3 }
// c
")).
Eval vm_compute in ("<<<M23>>>" ++ check (runes_of_ascii "packet BodyLength { }
")).
Eval vm_compute in ("<<<M742>>>" ++ check (runes_of_ascii "@tag( repeat int32")).
Eval vm_compute in ("<<<M1051>>>" ++ check (runes_of_ascii "// c" ++ [65279]%N ++ runes_of_ascii "
packet A {
}")).
Eval vm_compute in ("<<<M184>>>" ++ check (runes_of_ascii "packet As
{
}
")).
Eval vm_compute in ("<<<M745>>>" ++ check (runes_of_ascii "9UiK!(")).
Eval vm_compute in ("<<<M18>>>" ++ check (runes_of_ascii "
")).
