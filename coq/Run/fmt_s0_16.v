From FP Require Import Lexer Parser ShowPT Digest Formatter.
From Coq Require Import String List NArith.
Import ListNotations.
Open Scope string_scope.
Set Printing Width 100000000.
Set Printing Depth 100000000.
Definition show_fres (r : fres) : string :=
  match r with
  | FOk s => "OK:" ++ sh_escaped s ""
  | FErr s => "ERR:" ++ sh_escaped s ""
  | FPanic p => "PANIC:" ++ p
  end.
Definition check (rs : list rune) : string := digest (show_fres (format_res rs)).
Definition full (rs : list rune) : string := show_fres (format_res rs).
Eval vm_compute in ("<<<M1389>>>" ++ check (runes_of_ascii "options { // c1
LittleEndian // c2a
  // c2b
= // c3a
  // c3b
true ;
    // c5
StringPrefixLenType // c6a
  // c6b
= u32 ; // c9a
  // c9b
ArrayPrefixLenType = u8
    // c12
; } // c14a
  // c14b
packet // c15
Heartbeat // c16a
  // c16b
{
    // c17
string
    // c18
msgKind
    // c19
, // c20a
  // c20b
} // c21a
  // c21b
packet // c22
Logon
    // c23
{ repeat
    // c25
Heartbeat // c26a
  // c26b
, // c27a
  // c27b
repeat // c28
string // c29
Px // c30a
  // c30b
, // c31
uint8 // c32a
  // c32b
Tail
    // c33
, char[]
    // c35
f1 // c36a
  // c36b
,
    // c37
} packet
    // c39
Cancel // c40
{ // c41a
  // c41b
zchar[ // c42a
  // c42b
4
    // c43
] OrderId // c45a
  // c45b
,
    // c46
Logon
    // c47
,
    // c48
repeat InMsgkind98
    // c50
{ // c51
repeat // c52a
  // c52b
u8 // c53a
  // c53b
tag7 , // c55
repeat
    // c56
InFlags69 // c57
{ // c58a
  // c58b
char[]
    // c59
Note // c60
, // c61a
  // c61b
char[] lastPx // c63a
  // c63b
, // c64a
  // c64b
char[ 11 ] // c67
Ref ,
    // c69
Logon
    // c70
, // c71
} // c72
, // c73a
  // c73b
repeat // c74
Heartbeat ,
    // c76
} // c77
, // c78a
  // c78b
zchar[ // c79
7
    // c80
] // c81a
  // c81b
Px
    // c82
, // c83
u32 seqNo ,
    // c86
} // c87
root
    // c88
packet Reject // c90
{ i16 // c92a
  // c92b
tag7 // c93
,
    // c94
char[
    // c95
3 // c96a
  // c96b
] // c97
Qty // c98a
  // c98b
, // c99a
  // c99b
InRef42 { u8 pad0 // c103a
  // c103b
,
    // c104
} // c105
,
    // c106
uint32 // c107a
  // c107b
f1 // c108a
  // c108b
,
    // c109
zchar[ // c110
7 ] OrderId , // c114a
  // c114b
zchar[ // c115a
  // c115b
8 // c116
] x ,
    // c119
} ")).
Eval vm_compute in ("<<<M1551>>>" ++ check (runes_of_ascii "options
{
	StringPrefixLenType
    =u16
;
	ArrayPrefixLenType
=

u16
	; }
	packet
SampleBinary

    { uint16

MsgType  `" ++ [28040; 24687; 31867; 22411]%N ++ runes_of_ascii "`  ,

u16
BodyLenght @lengthOf(

    Body )`" ++ [28040; 24687; 20307; 38271; 24230]%N ++ runes_of_ascii "`, match	MsgType as
Body { 
1
:

Logon

    ,

2
: 
Logout
,3 :

    Heartbeat
	, 
4
: RiskControlRequest

, 5  :
	RiskControlResponse ,
}  ,
@calculatedFrom(  ""CRC32"" )  u32 Ckecksum

`" ++ [26657; 39564; 21644]%N ++ runes_of_ascii "`
    ,}
packet  Logon {@leftPad

( '0'  )  char[
10
]

    UserName `" ++ [29992; 25143; 21517]%N ++ runes_of_ascii "` ,
    string
	Password `" ++ [23494; 30721]%N ++ runes_of_ascii "`
    ,

uint64 ClientId `" ++ [23458; 25143; 31471]%N ++ runes_of_ascii "ID` ,	u16 HeartbeatInterval `" ++ [24515; 36339; 38388; 38548]%N ++ runes_of_ascii "`
, } packet Logout {	@rightPad
    ('0'
	)

char[

    10 ]
	UserName

    `" ++ [29992; 25143; 21517]%N ++ runes_of_ascii "`,uint64
ClientId 
`" ++ [23458; 25143; 31471]%N ++ runes_of_ascii "ID`, } packet	Heartbeat{
    }
packet
    RiskControlRequest

    { 
string

UniqueOrderId  `" ++ [21807; 19968; 35746; 21333; 21495]%N ++ runes_of_ascii "`
    ,
char[

    16

]  ClOrdID
	`" ++ [23458; 25143; 35746; 21333; 21495]%N ++ runes_of_ascii "`	,
char[
3 ]MarketID `" ++ [24066; 22330]%N ++ runes_of_ascii "id`

, char[12 ]SecurityID

`" ++ [35777; 21048; 20195; 30721]%N ++ runes_of_ascii "` ,char Side
    `" ++ [20080; 21334; 26041; 21521]%N ++ runes_of_ascii "`
	,	char
    OrderType `" ++ [35746; 21333; 31867; 22411]%N ++ runes_of_ascii "`
	,
    u64
Price  `" ++ [20215; 26684]%N ++ runes_of_ascii "`  ,
u32
	Qty
`" ++ [25968; 37327]%N ++ runes_of_ascii "`
	, repeat
string
    ExtraInfo
	`" ++ [38468; 21152; 20449; 24687]%N ++ runes_of_ascii "` , 
repeat
    SubOrder

{	char[ 16] ClOrdID `" ++ [23376; 35746; 21333; 21495]%N ++ runes_of_ascii "`,
u64	Price

    `" ++ [23376; 35746; 21333; 20215; 26684]%N ++ runes_of_ascii "` ,u32
Qty `" ++ [23376; 35746; 21333; 25968; 37327]%N ++ runes_of_ascii "`,

    }
,
	}  packet RiskControlResponse

    { string UniqueOrderId`" ++ [21807; 19968; 35746; 21333; 21495]%N ++ runes_of_ascii "`  ,	i32 Status `" ++ [29366; 24577]%N ++ runes_of_ascii "` ,
    string Msg`" ++ [32467; 26524; 20449; 24687]%N ++ runes_of_ascii "`

, repeat Detail
,
}
packet Detail {
    string RuleName`" ++ [35268; 21017; 21517; 31216]%N ++ runes_of_ascii "`	,u16 Code  `" ++ [21407; 22240; 20195; 30721]%N ++ runes_of_ascii "`
    ,}
")).
Eval vm_compute in ("<<<M83>>>" ++ check (runes_of_ascii "packet  A{
@rightPad (
' '
)
    // trailing space 
    zchar[ 42
    // 50% %s
    ]MetaDataX , repeat
int32 // 50% %s
Logon ,leftPad string_// packet A { u8 x, }
, @calculatedFrom(	""packet""
    )
char[ 3  ]
    // 50% %s
    Logon `{ , }` ,	match
    crc as _x{65535:float, 00
:
    BodyLength [
""" ++ [128512]%N ++ runes_of_ascii """
    , // `tick` ""quote"" 'q'
""a\\"" ,// packet A { u8 x, }
""a\""b"" ,
""// no comment"" ,  ""\n""
    , 255	]
    :
    // c
    MetaDataX ,0 : u8x}
    , }	options { zchar = false; i64_
= zchar[ 7
    ] ; BodyLength =
    ""1""	i8i8	= // @lengthOf(
true
; _x // packet A { u8 x, }
= ""// no comment""
; } packet //	t
crc{
match	As
as zchar {0 : leftPad
,
[0 , 255 , """ ++ [233]%N ++ runes_of_ascii "t" ++ [233]%N ++ runes_of_ascii """, ""x y""
    ,
    ""`tick`"" ,  4294967296 , """ ++ [233]%N ++ runes_of_ascii "t" ++ [233]%N ++ runes_of_ascii """ //	t
, """" ] :
stringy [ 0 ,	""{,}"" , ""packet""
    , 3
,
    65535
,42 ,	""packet"",0 ]:A 00
    : x }
,  @tag(	42 )
    match
    chars as x {
[ ""packet"" ,65535 ]
://x
T
    ,
""" ++ [28040; 24687]%N ++ runes_of_ascii """ : float ,
""" ++ [28040; 24687]%N ++ runes_of_ascii """
:packetx 0:
    /// triple
    trueish ,""" ++ [128512]%N ++ runes_of_ascii """ :
pack,} , // packet A { u8 x, }
@calculatedFrom(""abc"" ) stringy
pack , }
    packet msg_type
{ }
")).
Eval vm_compute in ("<<<M158>>>" ++ check (runes_of_ascii "packet
MetaDataX
    { A
    // @lengthOf(
    @lengthOf( leftPad )
`// not a comment`, @leftPad( '0' ) zchar[255 ] metadata `tab	here` ,  match Packet
as x_y_z
{
0123456789 :	o ,	007 :
// 50% %s
// " ++ [128512]%N ++ runes_of_ascii " emoji
float, 0: pack,
42:
i8i8
,
[  3	]
/// triple
//x
: BodyLength , },@lengthOf(
    // " ++ [128512]%N ++ runes_of_ascii " emoji
    repeatCount ) match stringy as
rootA
{ 00
// " ++ [128512]%N ++ runes_of_ascii " emoji
//	t
: /// triple
x, 10:  Z9_ /// triple
,4294967296 : crc , 00	:
    _x
, } ,
repeat x{	uint32	int , repeat string_ metadata, }
    // " ++ [128512]%N ++ runes_of_ascii " emoji
    ,@leftPad( ' ' )
    repeat zchar[ 007]	falsey `tab	here` ,
    // trailing space 
    @leftPad	( )	rootA @lengthOf( T)
, }
root packet f32a//x
{ As @calculatedFrom( ""abc""
) `// not a comment`, }  packet Z9_{ match // " ++ [128512]%N ++ runes_of_ascii " emoji
falsey as  string_ {""a	b"":  trueish,
[ 255 , 007
    ]
    : falsey
    """ ++ [28040; 24687]%N ++ runes_of_ascii """ : Header , 00 : /// triple
string_
    00
:	metadata } ,
    } root
    packet string_ { repeat int8 T , } 	 ")).
Eval vm_compute in ("<<<M163>>>" ++ check (runes_of_ascii "packet i8i8 {
// trailing space 
// " ++ [27880; 37322]%N ++ runes_of_ascii "
MetaDataX @lengthOf( chars) `" ++ [233]%N ++ runes_of_ascii "` , // 50% %s
char[]	u128@lengthOf( u8x ) , @lengthOf(
T )
float64 repeatCount ,
    @tag( 00 )
    MetaDataX ,
// a // b
// trailing space 
uint64 chars
    `tab	here` , string_/// triple
@lengthOf( As
    )	`` //
, zchar[
00 ] asx@lengthOf( /// triple
metadata
)
    `line1
line2` ,
@lengthOf(	charz )
charz
f32a
`" ++ [28040; 24687; 31867; 22411]%N ++ runes_of_ascii "` , @rightPad(	'\x00'
)repeat BodyLength tag , } packet
repeatCount {
crc stringy ,}options
{ zchar = char[]/// triple
;
    options1 = false repeatCount
=""a	b"" body = ""`tick`""}
// a // b
//x
MetaData MetaDataX
{ Pad repeatCount `u8 x,`
,
char[ 42 ] f32a ``
    , _x	Z9_  ,
} packet
Logon { @tag( 007 ) o {
char
Packet
    @lengthOf( repeatCount )
    //
    ,} , } // a // b")).
Eval vm_compute in ("<<<M47>>>" ++ check (runes_of_ascii "packet
matchKey// a // b
{@lengthOf(  chars ) options1@lengthOf( len	), match //x
Packet as Z9_{ [ """ ++ [28040; 24687]%N ++ runes_of_ascii """ , ""1"" , 42
    ] : u128 // @lengthOf(
, ""1"" :  roots // c
,
00
: packetx 007 :  repeatCount , 0 :u8x
    ,
    //	t
    } , match leftPad // packet A { u8 x, }
as msg_type { """"
// @lengthOf(
//x
: x,
    ""`tick`"" : u128
    ,42
: u128
,
[7 ,	0123456789 , ""\" ++ [233]%N ++ runes_of_ascii """ , 7  ]:
lengthOf ,""{,}"" :
T ,  ""packet""
: Logon} /// triple
,
    //
    char
    Packet
, repeat trueish uint8x ,
repeat zchar[  0 ] pack
    ,  string Pad,uint16	i8i8
`say ""hi""` , }
    packet
pack{ string
tag
    @calculatedFrom(
""// no comment"" // c
) , } MetaData rootA
{string BodyLength, }
")).
Eval vm_compute in ("<<<M1746>>>" ++ check (runes_of_ascii "
options{
stringy
	= 00  //
    f32a	=  // " ++ [128512]%N ++ runes_of_ascii " emoji
  uint16; u8x 
= int64
;	// " ++ [27880; 37322]%N ++ runes_of_ascii "
	  } 
root
    packet

Header  {
body

{// @lengthOf(
string
repeatCount
@calculatedFrom(

""x y""  ) `// not a comment`  ,match roots
as 
uint8x
    {	""a\\"" : T
,
}
	,

    repeat	i64_ {
trueish @lengthOf(x_y_z)`" ++ [28040; 24687; 31867; 22411]%N ++ runes_of_ascii "`,
    } , }
,  int64 Packet ,

    match
pack  as
	zchar

    {""it's""

:
    Header,

[ ""a\\""
,
3
    ]
: 
calculatedFrom ,

00 :

options1	// packet A { u8 x, }
		, 
0 
	    // c
:

u8x

[

65535  ,0123456789]
: float 
255:uint8x,}  , } MetaData
	u
{	// a // b
  	}
")).
Eval vm_compute in ("<<<M1834>>>" ++ check (runes_of_ascii "packet rootA {
    @calculatedFrom(""{,}"")
    @calculatedFrom(""x y"")
    char[0] lengthOf,
    @tag(3)
    //	t
    trueish,
    charz `" ++ [28040; 24687; 31867; 22411]%N ++ runes_of_ascii "`,
    match u8x as roots {
        ""x y"" : i64_,
        ""a\\"" : As,
        ""CRC32"" : calculatedFrom,
        ""1"" : msg_type,
        [""" ++ [233]%N ++ runes_of_ascii "t" ++ [233]%N ++ runes_of_ascii """, 007] : Foo,
    },
    u32 lengthOf,
    @lengthOf(options1)
    x_y_z Logon `100% of %d`,
    @tag(42)
    // packet A { u8 x, }
    A {
        f32a `u8 x,`,
    },//x
    @rightPad(' ')
    char[65535] f32a `tab	here`,
    // c
    /// triple
}")).
Eval vm_compute in ("<<<M1311>>>" ++ check (runes_of_ascii "packet A // c1
{ // c2
u8 a // c4a
  // c4b
,
    // c5
}
    // c6
packet
    // c7
B // c8
{
    // c9
u16 // c10
b , // c12
}
    // c13
root // c14a
  // c14b
packet P {
    // c17
u8 K ,
    // c20
match // c21
K // c22
as
    // c23
M // c24a
  // c24b
{ [
    // c26
1 // c27a
  // c27b
, // c28
2 // c29a
  // c29b
]
    // c30
:
    // c31
A // c32
, // c33
3 // c34
:
    // c35
B // c36a
  // c36b
, // c37
7 // c38
: // c39a
  // c39b
A // c40
,
    // c41
} // c42
, // c43
} ")).
Eval vm_compute in ("<<<M1308>>>" ++ check (runes_of_ascii "// top
packet // c0
A { // c2a
  // c2b
u8 a // c4a
  // c4b
, // c5a
  // c5b
}
    // c6
packet // c7a
  // c7b
B { // c9a
  // c9b
u16
    // c10
b // c11a
  // c11b
, // c12a
  // c12b
} root
    // c14
packet // c15
P
    // c16
{ // c17a
  // c17b
u8 K // c19a
  // c19b
, // c20a
  // c20b
match // c21
K as M // c24a
  // c24b
{
    // c25
1 // c26
: // c27
A , 1 // c30
: B // c32a
  // c32b
,
    // c33
} , // c35a
  // c35b
} // c36
")).
Eval vm_compute in ("<<<M1379>>>" ++ check (runes_of_ascii "options {
    ArrayPrefixLenType = u64;
    FixedStringPadFromLeft = true;
    FixedStringPadChar = '0';
}
packet Order {
}
root packet Leg {
    char[] Ref,
    repeat Order,
    f32 Acct,
    @leftPad('0') char[10] venue,
    @rightPad('0') char[3] seqNo,
    repeat u64 Px,
    u8 Flags,
    u32 lastPx @lengthOf(Body),
    match Flags as Body {
        185 : Order,
    },
    u16 sym @calculatedFrom(""CR\
C32""),
}
")).
Eval vm_compute in ("<<<M1838>>>" ++ check (runes_of_ascii "// top
options {
    // c1a
    // c1b
    FixedStringPadChar = '0';// c5a
    // c5b
}

packet Q {
    // c9a
    // c9b
    zchar[4] z,// c14
    @rightPad('\x00')
    char[3] n,// c23a
    // c23b
    char[5] d,// c28a
    // c28b
}// c29a

// c29b
root packet R {
    // c33a
    // c33b
    Q,
    // c35
    zchar[8] top,// c40a
    // c40b
    repeat zchar[2] zs,// c46
}// c47")).
Eval vm_compute in ("<<<M293>>>" ++ check (runes_of_ascii "MetaData o { float32 Z9_`two words` ,char[0123456789 ] As , char[
4294967296 ]
u8x`100% of %d`	, /// triple
}
packet u8x { @rightPad // packet A { u8 x, }
( ' '	) match len as packetx
{
    [ ""a	b"",//	t
10 , 42, 007 ,  4294967296	,
    ""packet"" , ""it's""
]
: x_y_z  0	:  o , },
}MetaData calculatedFrom { char[
    // @lengthOf(
    3
]
len ,
    }")).
Eval vm_compute in ("<<<M1200>>>" ++ check (runes_of_ascii "// top
options // c0
{ // c1a
  // c1b
}
    // c2
options // c3
{
    // c4
MetaDataX
    // c5
= // c6a
  // c6b
char // c7a
  // c7b
; } // c9
MetaData // c10
Pad // c11
{ // c12
i8 metadata // c14a
  // c14b
, // c15
string // c16a
  // c16b
stringy , int8 // c19a
  // c19b
As // c20
`{ , }`
    // c21
, } ")).
Eval vm_compute in ("<<<M1706>>>" ++ check (runes_of_ascii "

  // c
    options

{
    As= 
'0'// 50% %s
;
    float	= 

    //
char[] u	=
""a\""b"";
	msg_type	=
    u32 ; falsey=7
    ; /// triple
  }

    // a // b
	packet

x_y_z
    {

    T  // " ++ [27880; 37322]%N ++ runes_of_ascii "
  ``

,	}
packet	pack
{

@leftPad( ) rootA
    float

,
}  // packet A { u8 x, }
 
")).
Eval vm_compute in ("<<<M1331>>>" ++ check (runes_of_ascii "packet P1 {
    u8 a,
}
packet P2 {
    P1,
}
packet P3 {
    P2,
    P1,
}
packet P4 {
    repeat P3,
    P2,
}
root packet P5 {
    P4,
    P3,
    P1,
    u8 K,
    match K as Body {
        4 : P4,
        3 : P3,
        2 : P2,
        1 : P1,
    },
}
")).
Eval vm_compute in ("<<<M53>>>" ++ check (runes_of_ascii "  root packet _x{ uint32 //	t
trueish @calculatedFrom(""1"" ) `tab	here`
    , } packet Header
    {repeat
    u64 stringy `u8 x,` ,float32
    msg_type
, repeat
x_y_z crc `two words`
, zchar[ // c
007 ] Packet ,
    string asx `say ""hi""`
,}
")).
Eval vm_compute in ("<<<M493>>>" ++ check (runes_of_ascii "packet
    asx { @calculatedFrom(
""""  ) @tag( 255 )repeat
// packet A { u8 x, }
// trailing space 
int16 u8x
,
@tag(
    //
    007 )
    @tag( 0
    /// triple
    ) @tag( 1 u )
    @lengthOf( T ),
// `tick` ""quote"" 'q'
//x
} // " ++ [128512]%N ++ runes_of_ascii " emoji")).
Eval vm_compute in ("<<<M473>>>" ++ check (runes_of_ascii "packet
    asx { @calculatedFrom(
""""  ) @tag( 255 )repeat
// packet A { u8 x, }
// trailing space 
int16 u8x
,
@tag(
    //
    007 )
    @tag( )
    /// triple
    0 @tag( 1) u
    @lengthOf( T ),
// `tick` ""quote"" 'q'
//x
} // " ++ [128512]%N ++ runes_of_ascii " emoji")).
Eval vm_compute in ("<<<M544>>>" ++ check (runes_of_ascii "packet
    x" ++ [178]%N ++ runes_of_ascii " { @calculatedFrom(
""""  ) @tag( 255 )repeat
// packet A { u8 x, }
// trailing space 
int16 u8x
,
@tag(
    //
    007 )
    @tag( 0
    /// triple
    ) @tag( 1) u
    @lengthOf( T ),
// `tick` ""quote"" 'q'
//x
} // " ++ [128512]%N ++ runes_of_ascii " emoji")).
Eval vm_compute in ("<<<M401>>>" ++ check (runes_of_ascii "packet
    asx { 
""""  ) @tag( 255 )repeat
// packet A { u8 x, }
// trailing space 
int16 u8x
,
@tag(
    //
    007 )
    @tag( 0
    /// triple
    ) @tag( 1) u
    @lengthOf( T ),
// `tick` ""quote"" 'q'
//x
} // " ++ [128512]%N ++ runes_of_ascii " emoji")).
Eval vm_compute in ("<<<M520>>>" ++ check (runes_of_ascii "packet
    asx { @calculatedFrom(
""""  ) @tag( 255 )repeat
// packet A { u8 x, }
// trailing space 
int16 u8x
,
@tag(
    //
    007 )
    @tag( 0
    /// triple
    ) @tag( 1) u
    @lengthOf( T )")).
Eval vm_compute in ("<<<M1589>>>" ++ check (runes_of_ascii "packet
	_x

{ @calculatedFrom( ""packet"")
    char[]
	T  `" ++ [28040; 24687; 31867; 22411]%N ++ runes_of_ascii "`
,@calculatedFrom(
""" ++ [28040; 24687]%N ++ runes_of_ascii """	) f64

    pack `" ++ [233]%N ++ runes_of_ascii "`

    ,
@calculatedFrom(

""a	b"" 
)
	repeat  crc

`100% of %d`	//

,
}

")).
Eval vm_compute in ("<<<M622>>>" ++ check (runes_of_ascii "MetaData u
    { } MetaData o
{ float uint8x
`100% of %d` ,repeatCount u8x, string_ leftPad leftPad
, i32
    Foo , int64 x `two words` , calculatedFrom
stringy `a\` ,
}
")).
Eval vm_compute in ("<<<M552>>>" ++ check (runes_of_ascii "MetaData u u
    { } MetaData o
{ float uint8x
`100% of %d` ,repeatCount u8x, string_ leftPad
, i32
    Foo , int64 x `two words` , calculatedFrom
stringy `a\` ,
}
")).
Eval vm_compute in ("<<<M1292>>>" ++ check (runes_of_ascii "// top
root // c0
packet // c1
P { // c3
u16 a , u32
    // c7
Sum // c8a
  // c8b
@calculatedFrom( ""CRC32""
    // c10
)
    // c11
, // c12a
  // c12b
}
    // c13
")).
Eval vm_compute in ("<<<M663>>>" ++ check (runes_of_ascii "MetaData u
    { } MetaData o
{ float uint8x
`100% of %d` ,repeatCount u8x, string_ leftPad
, i32
    Foo , int64 x `two words` calculatedFrom ,
stringy `a\` ,
}
")).
Eval vm_compute in ("<<<M636>>>" ++ check (runes_of_ascii "MetaData u
    { } MetaData o
{ float uint8x
`100% of %d` ,repeatCount u8x, string_ leftPad
, i32
     , int64 x `two words` , calculatedFrom
stringy `a\` ,
}
")).
Eval vm_compute in ("<<<M1632>>>" ++ check (runes_of_ascii "  root  packet 	 // " ++ [27880; 37322]%N ++ runes_of_ascii "
    matchKey	{ Z9_@calculatedFrom(
    """"
)
	, }  MetaData
	pack {
u32
	leftPad 
,

x
    zchar  ,
    uint32
i8i8  ,
u16 zchar ,	} ")).
Eval vm_compute in ("<<<M1757>>>" ++ check (runes_of_ascii "packet
A
    {
match 
k
as n
{
	[  ""a"", ""bb"" ,

    007,""d""

, ""e""
,
66,

""g""
,
    ""h""

    ,9 
,

    ""j""

]

    : B
,
2 : C
}
, }

")).
Eval vm_compute in ("<<<M690>>>" ++ check (runes_of_ascii "MetaData u
    { } MetaData o
{ float uint8x
`100% of %d` ,repeatCount u8x, string_ leftPad
, i32
    Foo , int64 x `two words` , cal")).
Eval vm_compute in ("<<<M1890>>>" ++ check (runes_of_ascii "options {
}

options {
    MetaDataX = char;
}

MetaData Pad {
    // c
    i8 metadata,
    string stringy,
    int8 As `{ , }`,
}")).
Eval vm_compute in ("<<<M1938>>>" ++ check (runes_of_ascii "
packet

    A	{ match

k	as

n {

[ 1
,22, 007
, 4
    ,
5 
,
66
    , 
7  , 8 
,
9 ,	10
]  : 
B , 
2
:  C	} 
,}
")).
Eval vm_compute in ("<<<M1205>>>" ++ check (runes_of_ascii "options { // c
} options { MetaDataX = char ; } MetaData Pad { i8 metadata , string stringy , int8 As `{ , }` , }")).
Eval vm_compute in ("<<<M1237>>>" ++ check (runes_of_ascii "options { } options { MetaDataX = char ; } MetaData Pad { i8 metadata , string stringy // c
, int8 As `{ , }` , }")).
Eval vm_compute in ("<<<M1894>>>" ++ check (runes_of_ascii "packet

    A { match k 
as
    n{
    [
    ""a"" , ""bb"" ,
007
	,""d""

,	""e"" 
]

: B
    , 2 :C

    }
	, }")).
Eval vm_compute in ("<<<M1564>>>" ++ check (runes_of_ascii "
packet A  { 
match
k 
as n { [1 ,

22 ,

    007 ,  4,5  ,	66

    ,
    7
]
:
B
	,2 :C }	, }
")).
Eval vm_compute in ("<<<M127>>>" ++ check (runes_of_ascii "root packet MetaDataX{
} options  {	rootA = 7
    ; _x = ""it's"" ; matchKey = 3 }
packet rootA
{}
")).
Eval vm_compute in ("<<<M884>>>" ++ check (runes_of_ascii "packet A {
  match k as n {
    [1, 22, ""c c"", 4, 5, ""f"", 7, 8, ""i"", 10] : B,
    2 : C
  },
}")).
Eval vm_compute in ("<<<M1671>>>" ++ check (runes_of_ascii "

  MetaData
	    //

// " ++ [128512]%N ++ runes_of_ascii " emoji

falsey
{ char[]
    f32a , //	t
    }
	packet
As
{  } ")).
Eval vm_compute in ("<<<M985>>>" ++ check (runes_of_ascii "packet A {
    u32 crc @calculatedFrom(""x\
y""),
    @calculatedFrom(""x\
y"") u8 y,
}")).
Eval vm_compute in ("<<<M1633>>>" ++ check (runes_of_ascii "packet

    A

{ Inner{ 
u8

    x
	`
`,
Deep { u8
y
	`
`
    ,
	} ,
}
	,} ")).
Eval vm_compute in ("<<<M1262>>>" ++ check (runes_of_ascii "
packet Inner	{ 
u8	a ,

} root packet P{Inner

ref_obj
	,
u8

    x

, }
")).
Eval vm_compute in ("<<<M1888>>>" ++ check (runes_of_ascii "// c
packet options1 {	options1 x
    , }
	options
{ 
Logon=

float32	}
")).
Eval vm_compute in ("<<<M1687>>>" ++ check (runes_of_ascii "packet A {
    match k as n {
        [1] : B,
        2 : C,
    },
}")).
Eval vm_compute in ("<<<M786>>>" ++ check (runes_of_ascii "packet A {
  match k as n {
    [1, 22, 007] : B
    2 : C
  },
}")).
Eval vm_compute in ("<<<M952>>>" ++ check (runes_of_ascii "packet A {
    B b `
x`,
    B `
x`,
    repeat B bs `
x`,
}")).
Eval vm_compute in ("<<<M1695>>>" ++ check (runes_of_ascii "

  options { Logon=
	""" ++ [28040; 24687]%N ++ runes_of_ascii """	; BodyLength
    = false
;}

")).
Eval vm_compute in ("<<<M1807>>>" ++ check (runes_of_ascii "MetaData M {
    u8 x `
    `,
    T t `
    `,
}")).
Eval vm_compute in ("<<<M1114>>>" ++ check (runes_of_ascii "packet A { char[ // a
 3 // b
 ] // c
 x, }")).
Eval vm_compute in ("<<<M762>>>" ++ check (runes_of_ascii "= options match """ ++ [233]%N ++ runes_of_ascii "t" ++ [233]%N ++ runes_of_ascii """ uint32 ; ""CRC32""")).
Eval vm_compute in ("<<<M1188>>>" ++ check (runes_of_ascii "options { A
// c
= ""// no comment"" }")).
Eval vm_compute in ("<<<M737>>>" ++ check (runes_of_ascii ") ""\n"" char repeat repeat ; char[")).
Eval vm_compute in ("<<<M1598>>>" ++ check (runes_of_ascii "

  options {
asx
	=false  ;}

")).
Eval vm_compute in ("<<<M744>>>" ++ check (runes_of_ascii "=_?xc%p\XM[z`Z.E8&!3PsEU?W+/")).
Eval vm_compute in ("<<<M756>>>" ++ check (runes_of_ascii "*P%lQ*-j/'2~6mR?IfmeZN9s")).
Eval vm_compute in ("<<<M1083>>>" ++ check (runes_of_ascii "packet A {
}// a// b")).
Eval vm_compute in ("<<<M1016>>>" ++ check (runes_of_ascii "// c" ++ [5760]%N ++ runes_of_ascii "
packet A {
}")).
Eval vm_compute in ("<<<M285>>>" ++ check (runes_of_ascii "packet rootA
{  }")).
Eval vm_compute in ("<<<M565>>>" ++ check (runes_of_ascii "MetaData u
    {")).
Eval vm_compute in ("<<<M1879>>>" ++ check (runes_of_ascii "// c" ++ [6158]%N ++ runes_of_ascii "
 
")).
Eval vm_compute in ("<<<M115>>>" ++ check (runes_of_ascii "

")).
