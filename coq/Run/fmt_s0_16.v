From FP Require Import Lexer Parser ShowPT Digest Formatter.
From Coq Require Import String List NArith.
Import ListNotations.
Open Scope string_scope.
Set Printing Width 100000000.
Set Printing Depth 100000000.
Definition show_fres (r : fres) : string :=
  match r with
  | FOk s => "OK:" ++ sh_escaped s ""
  | FErr s => "ERR:" ++ sh_escaped s ""
  | FPanic p => "PANIC:" ++ p
  end.
Definition check (rs : list rune) : string := digest (show_fres (format_res rs)).
Definition full (rs : list rune) : string := show_fres (format_res rs).
Eval vm_compute in ("<<<M263>>>" ++ check (runes_of_ascii "
packet Z9_ //x
{ @calculatedFrom( ""1"" )
match
body as u8x{ [ 7 ] :
u ,
[7
,00, ""a\""b""
, """" , ""\n"" , 00
] : charz , 1	: // c
Packet
, """ ++ [28040; 24687]%N ++ runes_of_ascii """ :
f32a ,  00 : // trailing space 
len } ,@lengthOf(calculatedFrom )	MetaDataX
    , Packet	@lengthOf(
    int ) , repeat // `tick` ""quote"" 'q'
char[ 7 ]calculatedFrom, @calculatedFrom(""a\\"" ) zchar[ //
255 // " ++ [128512]%N ++ runes_of_ascii " emoji
] f32a @calculatedFrom( """ ++ [233]%N ++ runes_of_ascii "t" ++ [233]%N ++ runes_of_ascii """ ) ,	@calculatedFrom( ""a\""b"" // packet A { u8 x, }
)char[7
    //	t
    ] i8i8 @calculatedFrom(""a\\"") `crlf
line` ,zchar[
    0123456789	]
x `line1
line2`
,@leftPad () repeat
u64 stringy , @lengthOf( x	) repeat
body
{//	t
Z9_ {
repeat asx , repeat crc i64_ // " ++ [27880; 37322]%N ++ runes_of_ascii "
, repeat rootA { repeat rootA MetaDataX `line1
line2`
    // `tick` ""quote"" 'q'
    ,match
i64_ as
calculatedFrom {
    7
:
x[ 7 ] : stringy , ""1"": i8i8 , [
""1"" , 42 ,
// trailing space 
/// triple
""" ++ [233]%N ++ runes_of_ascii "t" ++ [233]%N ++ runes_of_ascii """ , 10 ,
255 , 0 , 10 ]
: u ,
""x y""
:
    i8i8 }
// `tick` ""quote"" 'q'
//x
,uint64 _x `
` ,char[ 0 ] i64_ @calculatedFrom( ""CRC32""
)
    , }, x_y_z {
char[] T
// a // b
// @lengthOf(
,} ,} ,repeat  u64 Foo `a\`,
    uint8
uint8x,
match
//	t
// trailing space 
roots
as chars {1
    : _x ""a\""b"" :uint8x, 42 : metadata // " ++ [128512]%N ++ runes_of_ascii " emoji
, // `tick` ""quote"" 'q'
[// @lengthOf(
""\n"" ,
255]
: zchar
[ """ ++ [233]%N ++ runes_of_ascii "t" ++ [233]%N ++ runes_of_ascii """ ,3
, 4294967296 ,// trailing space 
0123456789 , ""x y"" ] : metadata[ // c
""it's"" , ""// no comment""
]  :Z9_
    , }
,	}
    , } // a // b
MetaData rootA	{ char[ 4294967296 ] msg_type,// @lengthOf(
char[]  u128, uint64 a1 , int8 crc , Pad
    msg_type `doc`
,
}
//	t
/// triple
packet x_y_z
    {@lengthOf( crc) match packetx as f32a	{ 0123456789:A
,	00 :	u // @lengthOf(
}, }
")).
Eval vm_compute in ("<<<M123>>>" ++ check (runes_of_ascii "
packet _x{  leftPad `it's`
    , match Logon as
    matchKey { ""packet"" :  stringy,3
: u
    ,//
""1"" : Pad }
,  float32 Z9_ @lengthOf( i8i8	)
    `" ++ [233]%N ++ runes_of_ascii "`
    // " ++ [27880; 37322]%N ++ runes_of_ascii "
    , @tag( 3 )match
    //	t
    As as Pad{
"""" : chars
, ""x y"" //
: i64_	,  } ,  @calculatedFrom(""it's"" // c
) @leftPad ( ' '
) zchar[ 0123456789	] falsey , match	A as packetx
{ [ 42]:
matchKey // c
, }// `tick` ""quote"" 'q'
,@leftPad
( ' ' )
    match x
    // c
    as a1 { ""packet"" //x
:
    a1 , 10 : pack""{,}"" :  u8x// a // b
, [ 007
,00// trailing space 
]
:trueish ,
    ""x y"" :pack //	t
,
""" ++ [233]%N ++ runes_of_ascii "t" ++ [233]%N ++ runes_of_ascii """
:
matchKey , } , @leftPad ( '0'
) uint8x u
    ,	zchar[
    3 // a // b
]
    //	t
    u ``
    , @rightPad (
    ' ') repeat _x
`` , } MetaData Foo
    {a1 Z9_ ,
options1 T ,u32 u8x
`crlf
line`, metadata falsey,lengthOf
x_y_z ,
    } packet calculatedFrom { @tag( 3 ) string A,
    match leftPad as a1	{//	t
0123456789: calculatedFrom , }
    ,
    match crc//
as
    body {
    00 : _x, } , o @calculatedFrom(	""x y"" )
//
// " ++ [128512]%N ++ runes_of_ascii " emoji
,  } packet T { }  packet Logon { @leftPad
(// @lengthOf(
'\x00' )
As @calculatedFrom(
""a	b"" ) `line1
line2`	, pack lengthOf // `tick` ""quote"" 'q'
, } // `tick` ""quote"" 'q'")).
Eval vm_compute in ("<<<M1607>>>" ++ check (runes_of_ascii "options {
    FixedStringPadFromLeft = true;
    FixedStringPadChar = '0';
}

packet Leg {
    InPrice0 {
        repeat string clOrdID,
        int16 msgKind,
        zchar[5] Px,
    },
    i16 f1,
    repeat f64 Side2,
    string Acct,
}

packet Cancel {
    zchar[4] clOrdID,
    string seqNo,
    Leg,
    @leftPad('0')
    char[11] OrderId,
}

packet Quote {
    repeat char[4] sym,
    f64 OrderId,
    repeat Leg,
    repeat i64 f1,
    int16 Note,
    zchar[3] count,
}

root packet Ack {
    @leftPad(' ')
    char[10] sym,
    InPx60 {
        Cancel,
        repeat char[1] f1,
        string Tail,
        repeat InNote55 {
            int8 count,
            f64 f1,
            repeat Cancel,
        },
        char[] tag7,
        repeat string msgKind,
    },
    u8 lastPx,
    match lastPx as Body {
        152 : Quote,
        173 : Cancel,
        4 : Leg,
    },
    u16 Ref @calculatedFrom(""CR\
    C32""),
}")).
Eval vm_compute in ("<<<M1123>>>" ++ check (runes_of_ascii "// top
options
    // c0
{
    // c1
uint8x
    // c2
=
    // c3
007
    // c4
;
    // c5
lengthOf
    // c6
=
    // c7
i8
    // c8
;
    // c9
}
    // c10
packet
    // c11
i64_
    // c12
{
    // c13
@calculatedFrom(
    // c14
""1""
    // c15
)
    // c16
@tag(
    // c17
3
    // c18
)
    // c19
@lengthOf(
    // c20
rootA
    // c21
)
    // c22
repeat
    // c23
int8
    // c24
Packet
    // c25
`u8 x,`
    // c26
,
    // c27
}
    // c28
root
    // c29
packet
    // c30
stringy
    // c31
{
    // c32
@rightPad
    // c33
(
    // c34
' '
    // c35
)
    // c36
repeat
    // c37
char[
    // c38
10
    // c39
]
    // c40
repeatCount
    // c41
,
    // c42
@tag(
    // c43
255
    // c44
)
    // c45
float64
    // c46
msg_type
    // c47
@calculatedFrom(
    // c48
""packet""
    // c49
)
    // c50
,
    // c51
}
    // c52
")).
Eval vm_compute in ("<<<M1914>>>" ++ check (runes_of_ascii "  // top
  root 

    // c0
		packet
	// c1
	_x 
// c2
	{ 
	// c3
	match 
    // c4
	Foo
    // c5
  as 
    // c6

Z9_  
  // c7
    {
    // c8
	""a	b"" 
        // c9
:
	// c10
    Pad

// c11
	,  
      // c12
	} 
	    // c13
    	, 
    // c14
repeat

    // c15
		x
// c16
`line1
line2`
    // c17
	, 
    // c18
    	@rightPad 
      // c19
    ( 
      // c20

	' '

    // c21

	) 
// c22
    	@calculatedFrom(

    // c23
    ""a\\""
    // c24
  ) 
  // c25
    	metadata
    // c26

  MetaDataX
// c27

, 

    // c28
@tag(

// c29
0
    // c30
  )
        // c31
Logon
        // c32
	int
// c33
``
	    // c34

,  
      // c35

}
    // c36
  options 
  // c37
		{
	// c38
T
	    // c39
    = 
  // c40
  '\x00' 
// c41
      }
        // c42
 
")).
Eval vm_compute in ("<<<M4>>>" ++ check (runes_of_ascii "packet
    // " ++ [128512]%N ++ runes_of_ascii " emoji
    u128
{ repeat char[
// trailing space 
// packet A { u8 x, }
65535 ] float ,
}
options  { f32a
= char[] ; } packet// trailing space 
_x { @rightPad ('0' ) // packet A { u8 x, }
@lengthOf(i8i8) @lengthOf(lengthOf
)  repeat	Z9_//x
`crlf
line`, string_ {
// `tick` ""quote"" 'q'
// c
zchar[7
]x_y_z , Header x
`line1
line2` ,
    }, //	t
@leftPad ( )
    match float
as	x_y_z
{ """ ++ [28040; 24687]%N ++ runes_of_ascii """ : metadata, 007 :
    A,00 : falsey
    , 0123456789  : Foo // trailing space 
,0123456789
:
    zchar
, } ,@calculatedFrom( ""1"" )
@tag(
/// triple
/// triple
0	) char[
00 ] options1	, } packet Pad{
u16
body
@lengthOf( stringy // c
), } options { BodyLength ='0'msg_type =""a\""b"" ; }

")).
Eval vm_compute in ("<<<M87>>>" ++ check (runes_of_ascii "root packet matchKey{ match	Foo as Z9_ {// c
[ ""x y"" , ""1"" ,
    007
, 7 ]: pack,
""`tick`"" :
u128 ,""a	b"" :msg_type,[
//
//
00 ,	65535
] : a1, ""it's"" :Foo
    , // " ++ [128512]%N ++ runes_of_ascii " emoji
[ //x
""""
] : u, } ,
} packet calculatedFrom // c
{msg_type {
    T @calculatedFrom( ""\n"" ) ,float64 i8i8, As`
`, u32 rootA @lengthOf(
// c
// `tick` ""quote"" 'q'
float
) ,}
, }
    packet
    // " ++ [27880; 37322]%N ++ runes_of_ascii "
    x_y_z
{@tag( //x
0 ) i64_
    // " ++ [27880; 37322]%N ++ runes_of_ascii "
    @lengthOf(
    //
    MetaDataX
) ,	}packet A { @calculatedFrom( ""a\\"" )@calculatedFrom(""abc"" ) _x
u	`say ""hi""` ,
    } options
    // `tick` ""quote"" 'q'
    { // trailing space 
metadata = ""a\\"" ; // a // b
}")).
Eval vm_compute in ("<<<M1339>>>" ++ check (runes_of_ascii "  options

{ ArrayPrefixLenType

    =  u64
;FixedStringPadFromLeft
	=true

;
    FixedStringPadChar  = '0'

;

}

packet
Quote{	} 
packet  Ack

    { repeat 
InNote66
    {
    u8 
pad0  ,
    }
    ,
    }	packet 
Reject 
{
}root
    packet
    Order{Quote

    ,repeat
	Reject 
, string
    venue

    ,

    string

seqNo , 
uint32

    Ref , 
u16 lastPx  ,
u32 
clOrdID 
@lengthOf(  Body  ) 
,
match
lastPx as	Body{
    190 
:Reject

    ,
186:Quote
    ,
	22
:	Ack
,
}
,
    u16  Flags @calculatedFrom(

""CRC32""
	)

    , }")).
Eval vm_compute in ("<<<M1119>>>" ++ check (runes_of_ascii "// top
root // c0
packet // c1
_x // c2
{ // c3
match // c4
Foo // c5
as // c6
Z9_ // c7
{ // c8
""a	b"" // c9
: // c10
Pad // c11
, // c12
} // c13
, // c14
repeat // c15
x // c16
`line1
line2` // c17
, // c18
@rightPad // c19
( // c20
' ' // c21
) // c22
@calculatedFrom( // c23
""a\\"" // c24
) // c25
metadata // c26
MetaDataX // c27
, // c28
@tag( // c29
0 // c30
) // c31
Logon // c32
int // c33
`` // c34
, // c35
} // c36
options // c37
{ // c38
T // c39
= // c40
'\x00' // c41
} // c42
")).
Eval vm_compute in ("<<<M1604>>>" ++ check (runes_of_ascii "// @lengthOf(
  MetaData
	leftPad{
	string 
options1  `say ""hi""`	, 
	    //x
		int16
	metadata  `" ++ [233]%N ++ runes_of_ascii "`  , f32
i64_

//	t
// c

	,

    }

packet  trueish
    {// c
MetaDataX

    roots
    ,
_x 
a1,

match	packetx
as
	charz { 
0:  // c
    	f32a ,}	//
      , repeat
body 
Logon
, }
options
    {
repeatCount
=

    int8

    charz // `tick` ""quote"" 'q'
	  = char[]

    ;	msg_type
= ""it's""
    u=007 Z9_= uint32 
    //
    	}
")).
Eval vm_compute in ("<<<M126>>>" ++ check (runes_of_ascii "
packet T// c
{ @tag(  00 )repeat char[]	charz
`
` , char[0123456789 ]BodyLength
    @lengthOf( //x
Z9_
    )
    `u8 x,`
,
}	MetaData
crc {
float64
int `" ++ [28040; 24687; 31867; 22411]%N ++ runes_of_ascii "`// a // b
,	As Logon `` , // `tick` ""quote"" 'q'
uint8 // " ++ [27880; 37322]%N ++ runes_of_ascii "
u
, u32  stringy `
`,
// a // b
//	t
uint64 uint8x , asx
calculatedFrom	,//x
} MetaData chars { char[ 1
    // `tick` ""quote"" 'q'
    ] //	t
chars ,
    } // trailing space ")).
Eval vm_compute in ("<<<M1378>>>" ++ check (runes_of_ascii "

  options {
LittleEndian	=

    true
;

} 
packet
    Logon {
u8	x	, 
}
	packet
    Logout {
    u16
reason

,  }	root
    packet
    Frame { i8 
Kind ,i8

    Kind2
,
match
	Kind
    as	Body { 1 
: Logon , [
2

    ,	3

    ,

    4  ]
:
	Logout,  100
    :  Logon ,
}

    ,

match

    Kind2  as

    Trailer
	{

    0 :	Logout
	, }, 
}
")).
Eval vm_compute in ("<<<M1749>>>" ++ check (runes_of_ascii "packet Pad {
    u32 i64_ @lengthOf(u8x) `tab	here`,
    T,
    @tag(1)
    @calculatedFrom(""CRC32"")
    @leftPad()
    match stringy as lengthOf {
        [
            255, 7, ""CRC32"", ""a	b"", """ ++ [233]%N ++ runes_of_ascii "t" ++ [233]%N ++ runes_of_ascii """,
            ""a\""b"", ""\n""
        ] : falsey,
        /// triple
    },
    string i8i8 @calculatedFrom(""" ++ [128512]%N ++ runes_of_ascii """),
    packetx,
}// c")).
Eval vm_compute in ("<<<M205>>>" ++ check (runes_of_ascii "  root packet
    chars{ string T `say ""hi""`
, @tag(
    1  ) body { repeat o { f64 Packet @calculatedFrom( ""a\\"") ,  } , }	,
} packet pack
// @lengthOf(
// a // b
{
@tag( 4294967296 // `tick` ""quote"" 'q'
) repeat char[]
    Logon
    // trailing space 
    , repeat
BodyLength len ,
    // c
    }")).
Eval vm_compute in ("<<<M94>>>" ++ check (runes_of_ascii "MetaData chars{ uint64	A, msg_type asx
    // c
    , Z9_  a1,
    stringy
    i64_ //
`doc` , }packet
/// triple
// a // b
x_y_z {	} options {
float // c
=float32 rootA= false ;
repeatCount// c
=  char[ 10 ]
; }	packet Z9_{zchar[007 ]
    //	t
    charz // c
,
} //x")).
Eval vm_compute in ("<<<M1839>>>" ++ check (runes_of_ascii "packet Header {
    @calculatedFrom(""a	b"")
    char[255] falsey `tab	here`,
    int8 u `doc`,
    float32 lengthOf @calculatedFrom(""a	b""),
    @rightPad(' ')
    @tag(3)
    float64 asx,
    int8 metadata @lengthOf(zchar),
    Pad f32a,
}")).
Eval vm_compute in ("<<<M1655>>>" ++ check (runes_of_ascii "packet A {
    match k as n {
        ""\
                "" : B,
        [1, ""\
                ""] : C,
        [
            1, 2, 3, 4, 5,
            ""\
                        ""
        ] : D,
    },
}")).
Eval vm_compute in ("<<<M1513>>>" ++ check (runes_of_ascii "

  root
	packet MetaDataX
    { repeat
u8x  len
`" ++ [28040; 24687; 31867; 22411]%N ++ runes_of_ascii "` , As {u8x
,
}	,  int

f32a`" ++ [233]%N ++ runes_of_ascii "`

,  @lengthOf(

    float	) Z9_

    // @lengthOf(

// trailing space 
    `a\` ,}
")).
Eval vm_compute in ("<<<M1615>>>" ++ check (runes_of_ascii "  packet
A
    {

match 
k
as
n{
[
""a"" ,	""bb"" ,
""c c""

,""d""
,
""e"",	""f""	,
    ""g""
,

    ""h""	,""i""
, ""j""
    ,""k"" , ""l""]
    :
    B ,
	2
:
    C  },
	}")).
Eval vm_compute in ("<<<M1646>>>" ++ check (runes_of_ascii "  packet
	A{

    match

    k as
	n
	{
[
    1
    , 22  , 
007
,

    4
    ,
5

    ,  66

,

7
,8  ,  9

,
10 ,	11
] : B
	2 : C
    }
,
	}

")).
Eval vm_compute in ("<<<M486>>>" ++ check (runes_of_ascii "packet uint8x
{ match pack
    as msg_type	{
    0123456789 :	float
}
,
} packet //	t
a1
    { } options { {packetx
    = '\x00'	; u128= ""a	b""  ; }
")).
Eval vm_compute in ("<<<M397>>>" ++ check (runes_of_ascii "packet {
uint8x match pack
    as msg_type	{
    0123456789 :	float
}
,
} packet //	t
a1
    { } options {packetx
    = '\x00'	; u128= ""a	b""  ; }
")).
Eval vm_compute in ("<<<M1241>>>" ++ check (runes_of_ascii "// top
root
    // c0
packet // c1
P // c2a
  // c2b
{ // c3
char
    // c4
c // c5a
  // c5b
, // c6a
  // c6b
u8
    // c7
x // c8
, // c9
} // c10
")).
Eval vm_compute in ("<<<M1908>>>" ++ check (runes_of_ascii "
MetaData
	leftPad { chars
	MetaDataX

    ,	}packet
	repeatCount
{
char[	255
    ]uint8x`" ++ [233]%N ++ runes_of_ascii "` 
,// c
	}
    MetaData

    pack {
	As
Foo

,
}
")).
Eval vm_compute in ("<<<M705>>>" ++ check (runes_of_ascii "// @lengthOf(
packet i8i8 { u128 o , }
options { MetaDataX = true;
    BodyLength =""packet"" x_y_z= 007
crc //x
= = ""abc"" ;
    msg_type =
i16 }")).
Eval vm_compute in ("<<<M720>>>" ++ check (runes_of_ascii "// @lengthOf(
packet i8i8 { u128 o , }
options { MetaDataX = true;
    BodyLength =""packet"" =x_y_z 007
crc //x
= ""abc"" ;
    msg_type =
i16 }")).
Eval vm_compute in ("<<<M98>>>" ++ check (runes_of_ascii "
packet stringy {
}
MetaData u8x	{ zchar[ 65535
    // a // b
    ] Pad ,stringy string_
`u8 x,` ,	u8 lengthOf`
` , char[ 255
] pack , } 	 ")).
Eval vm_compute in ("<<<M719>>>" ++ check (runes_of_ascii "// @lengthOf(
packet i8i8 { u128 o , }
options { MetaDataX = true;
     =""packet"" x_y_z= 007
crc //x
= ""abc"" ;
    msg_type =
i16 }")).
Eval vm_compute in ("<<<M937>>>" ++ check (runes_of_ascii "packet A {
    u16 len @lengthOf(body) `a
    b
  c`,
    u32 crc @calculatedFrom(""CRC32"") `a
    b
  c`,
    string body,
}")).
Eval vm_compute in ("<<<M1147>>>" ++ check (runes_of_ascii "MetaData leftPad { // c
chars MetaDataX , } packet repeatCount { char[ 255 ] uint8x `" ++ [233]%N ++ runes_of_ascii "` , } MetaData pack { As Foo , }")).
Eval vm_compute in ("<<<M1179>>>" ++ check (runes_of_ascii "MetaData leftPad { chars MetaDataX , } packet repeatCount { char[ 255 ] uint8x `" ++ [233]%N ++ runes_of_ascii "` , } MetaData pack // c
{ As Foo , }")).
Eval vm_compute in ("<<<M136>>>" ++ check (runes_of_ascii "// a // b
options { // " ++ [128512]%N ++ runes_of_ascii " emoji
calculatedFrom=
'\x00'	; BodyLength = true ;asx // packet A { u8 x, }
= true }")).
Eval vm_compute in ("<<<M49>>>" ++ check (runes_of_ascii "options  { f32a = true;  metadata =""CRC32"" ;
body // " ++ [27880; 37322]%N ++ runes_of_ascii "
=
char ; A =
float64	;
} MetaData
    rootA { }")).
Eval vm_compute in ("<<<M160>>>" ++ check (runes_of_ascii "
MetaData zchar { roots
A , char[] falsey `line1
line2` ,
// " ++ [128512]%N ++ runes_of_ascii " emoji
// @lengthOf(
int crc ,	} //	t")).
Eval vm_compute in ("<<<M876>>>" ++ check (runes_of_ascii "packet A {
  match k as n {
    [""a"", ""bb"", 007, ""d"", ""e"", 66, ""g"", ""h"", 9] : B
    2 : C
  },
}")).
Eval vm_compute in ("<<<M578>>>" ++ check (runes_of_ascii "
packet
    asx {match u128 as as lengthOf
{
//	t
// `tick` ""quote"" 'q'
255 : x ,
    } ,	}")).
Eval vm_compute in ("<<<M631>>>" ++ check (runes_of_ascii "
packet
    asx {match u128 as lengthOf
{
//	t
// `tick` ""quote"" 'q'
255 %: x ,
    } ,	}")).
Eval vm_compute in ("<<<M562>>>" ++ check (runes_of_ascii "
packet
    asx match u128 as lengthOf
{
//	t
// `tick` ""quote"" 'q'
255 : x ,
    } ,	}")).
Eval vm_compute in ("<<<M1567>>>" ++ check (runes_of_ascii "packet A {
    Inner {
        match k as n {
            [1] : B,
        },
    },
}")).
Eval vm_compute in ("<<<M469>>>" ++ check (runes_of_ascii "packet uint8x
{ match pack
    as msg_type	{
    0123456789 :	float
}
,
} packet")).
Eval vm_compute in ("<<<M1726>>>" ++ check (runes_of_ascii "
packet 
A  {  match 
k
	as
n

{
[  1, 22]
: B

    2 : C
	}

    ,
}
")).
Eval vm_compute in ("<<<M827>>>" ++ check (runes_of_ascii "packet A {
  match k as n {
    [1, 22, 007, 4, 5, 66] : B
    2 : C
  },
}")).
Eval vm_compute in ("<<<M454>>>" ++ check (runes_of_ascii "packet uint8x
{ match pack
    as msg_type	{
    0123456789 :	float
}")).
Eval vm_compute in ("<<<M851>>>" ++ check (runes_of_ascii "packet A { Inner { match k as n { [1,22,007,4,5,66,7] : B, }, }, }")).
Eval vm_compute in ("<<<M783>>>" ++ check (runes_of_ascii "packet A {
  match k as n {
    [1, ""bb""] : B
    2 : C
  },
}")).
Eval vm_compute in ("<<<M1390>>>" ++ check (runes_of_ascii "MetaData M {
    u8 x `
        x`,
    T t `
        x`,
}")).
Eval vm_compute in ("<<<M1870>>>" ++ check (runes_of_ascii "options {
    Logon = """ ++ [28040; 24687]%N ++ runes_of_ascii """;
    BodyLength = false;
}")).
Eval vm_compute in ("<<<M341>>>" ++ check (runes_of_ascii "options  { len = // " ++ [128512]%N ++ runes_of_ascii " emoji
""packet"" int
= ""abc""}")).
Eval vm_compute in ("<<<M284>>>" ++ check (runes_of_ascii "
options{ trueish=
'0' //	t
;a1 = u64
; }")).
Eval vm_compute in ("<<<M1821>>>" ++ check (runes_of_ascii "packet MetaDataX {
    i16 u128 `" ++ [233]%N ++ runes_of_ascii "`,//x
}")).
Eval vm_compute in ("<<<M424>>>" ++ check (runes_of_ascii "packet uint8x
{ match pack
    as")).
Eval vm_compute in ("<<<M1684>>>" ++ check (runes_of_ascii "  packet
A 
{
	} 
    // c" ++ [6158]%N ++ runes_of_ascii "
 
")).
Eval vm_compute in ("<<<M1742>>>" ++ check (runes_of_ascii "
packet A {u8 x  `
`
    ,}
")).
Eval vm_compute in ("<<<M1748>>>" ++ check (runes_of_ascii "packet 
A
	{ } 

// c" ++ [8232]%N ++ runes_of_ascii "
")).
Eval vm_compute in ("<<<M1105>>>" ++ check (runes_of_ascii "MetaData // c
tag { }")).
Eval vm_compute in ("<<<M1134>>>" ++ check (runes_of_ascii "MetaData u { // c
}")).
Eval vm_compute in ("<<<M1037>>>" ++ check (runes_of_ascii "// c" ++ [12]%N ++ runes_of_ascii "
packet A {
}")).
Eval vm_compute in ("<<<M1029>>>" ++ check (runes_of_ascii "packet A {
}// c" ++ [11]%N)).
Eval vm_compute in ("<<<M1482>>>" ++ check (runes_of_ascii "MetaData u {
}")).
Eval vm_compute in ("<<<M1005>>>" ++ check (runes_of_ascii "// c" ++ [8202]%N)).
Eval vm_compute in ("<<<M72>>>" ++ check (@nil rune)).
