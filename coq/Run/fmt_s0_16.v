From FP Require Import Lexer Parser ShowPT Digest Formatter.
From Coq Require Import String List NArith.
Import ListNotations.
Open Scope string_scope.
Set Printing Width 100000000.
Set Printing Depth 100000000.
Definition show_fres (r : fres) : string :=
  match r with
  | FOk s => "OK:" ++ sh_escaped s ""
  | FErr s => "ERR:" ++ sh_escaped s ""
  | FPanic p => "PANIC:" ++ p
  end.
Definition check (rs : list rune) : string := digest (show_fres (format_res rs)).
Definition full (rs : list rune) : string := show_fres (format_res rs).
Eval vm_compute in ("<<<M317>>>" ++ check (runes_of_ascii "MetaData Logon
    {
    char[]u8x , matchKey pack,
u8 int ``, char[ 007
    ]
msg_type ,
BodyLength o	,string_ crc  `a\`, } options	{
    //x
    trueish = int16 Packet
    = char MetaDataX=
char[
//
// trailing space 
255 ] // a // b
;}	root
    //
    packet a1 // packet A { u8 x, }
{ } root packet // c
MetaDataX{
@lengthOf(_x)
repeat
Logon{// " ++ [128512]%N ++ runes_of_ascii " emoji
o
a1 , uint64
    u128 ,  } ,zchar[007] chars
    `line1
line2` ,	repeat Header u128`doc`, // " ++ [128512]%N ++ runes_of_ascii " emoji
@calculatedFrom(""1"")int
trueish
, char[0123456789
    ]
uint8x,
i8 int	@lengthOf( msg_type )`line1
line2`
,
    //x
    @rightPad (
) repeat f64 Z9_, metadata{ falsey @calculatedFrom(
""abc""
) , }, options1 @calculatedFrom( ""\n"" ) ,@calculatedFrom(	""\n"" )  match metadata
    as Header {[
    """" ,  ""1"" ] :	Foo //
, [  ""\n""
, 10
,
// " ++ [27880; 37322]%N ++ runes_of_ascii "
// c
""{,}"" ]
: Logon
,
[
    """"] :
len
, ""\n""  :// trailing space 
msg_type , [ // c
00 ]
    : trueish , 10 : u8x, }
    ,
    } // " ++ [27880; 37322]%N ++ runes_of_ascii "
root
packet
    BodyLength
    { char[42
] body  @calculatedFrom(
    ""{,}"" ) `tab	here` // trailing space 
,
i32
stringy  @calculatedFrom( """ ++ [28040; 24687]%N ++ runes_of_ascii """ ),  @tag(  0123456789	)
@rightPad ( )@tag( 00 )  i16 a1 @lengthOf( pack// a // b
) ,
    @tag( 10
)
@leftPad ('\x00' ) // `tick` ""quote"" 'q'
@calculatedFrom( ""a\""b"" ) repeat char[] // c
stringy `
`	, chars `say ""hi""`,
@lengthOf(  a1 ) @leftPad( '0'  )
    match Z9_
as Header { 00
    //	t
    : As ,
} // " ++ [27880; 37322]%N ++ runes_of_ascii "
, o @calculatedFrom( """ ++ [128512]%N ++ runes_of_ascii """
    )
, @leftPad //	t
(	)As// trailing space 
@calculatedFrom( ""// no comment"") ,
match x_y_z  as
    BodyLength {
""x y"" // `tick` ""quote"" 'q'
:BodyLength
, """ ++ [28040; 24687]%N ++ runes_of_ascii """  : packetx  , 0 :
    Header ,
    ""x y"" : matchKey
    //	t
    ,}, } // trailing space ")).
Eval vm_compute in ("<<<M1452>>>" ++ check (runes_of_ascii "options
    {StringPrefixLenType
	= u16	;  ArrayPrefixLenType	= u16
;
}	packet  SampleBinary { 
uint16 MsgType

`" ++ [28040; 24687; 31867; 22411]%N ++ runes_of_ascii "`
,
u16 
BodyLenght  @lengthOf( Body )

`" ++ [28040; 24687; 20307; 38271; 24230]%N ++ runes_of_ascii "`, match MsgType

as
Body
	{
	1

:Logon
	,
    2 :Logout

,

    3
    :  Heartbeat
, 4:	RiskControlRequest ,5
:  RiskControlResponse
    , } ,
    @calculatedFrom( ""CRC32""  ) u32 Ckecksum
`" ++ [26657; 39564; 21644]%N ++ runes_of_ascii "` , 
} packet Logon
{	@leftPad( 
'0' ) char[ 10

    ] 
UserName

    `" ++ [29992; 25143; 21517]%N ++ runes_of_ascii "` , string Password `" ++ [23494; 30721]%N ++ runes_of_ascii "`
,  uint64  ClientId `" ++ [23458; 25143; 31471]%N ++ runes_of_ascii "ID` ,
u16
    HeartbeatInterval

`" ++ [24515; 36339; 38388; 38548]%N ++ runes_of_ascii "`,
} packet Logout
{@rightPad
    (
	'0')
	char[
10 ]  UserName `" ++ [29992; 25143; 21517]%N ++ runes_of_ascii "`
,

    uint64	ClientId `" ++ [23458; 25143; 31471]%N ++ runes_of_ascii "ID`

,
	} packet
Heartbeat  { } packet
RiskControlRequest
{ string
UniqueOrderId`" ++ [21807; 19968; 35746; 21333; 21495]%N ++ runes_of_ascii "`
,char[
16	]ClOrdID
`" ++ [23458; 25143; 35746; 21333; 21495]%N ++ runes_of_ascii "`
,char[	3
    ]MarketID	`" ++ [24066; 22330]%N ++ runes_of_ascii "id`	,
	char[
	12	]
SecurityID

    `" ++ [35777; 21048; 20195; 30721]%N ++ runes_of_ascii "`	,
	char
Side `" ++ [20080; 21334; 26041; 21521]%N ++ runes_of_ascii "`

,
    char
    OrderType	`" ++ [35746; 21333; 31867; 22411]%N ++ runes_of_ascii "`,u64	Price

    `" ++ [20215; 26684]%N ++ runes_of_ascii "`  ,u32
Qty`" ++ [25968; 37327]%N ++ runes_of_ascii "` ,
repeat  string ExtraInfo`" ++ [38468; 21152; 20449; 24687]%N ++ runes_of_ascii "` 
,	repeat SubOrder

{char[ 16
	] ClOrdID
`" ++ [23376; 35746; 21333; 21495]%N ++ runes_of_ascii "` ,	u64 Price `" ++ [23376; 35746; 21333; 20215; 26684]%N ++ runes_of_ascii "`
,	u32
Qty

`" ++ [23376; 35746; 21333; 25968; 37327]%N ++ runes_of_ascii "`,
    } 
,	}
packet	RiskControlResponse
	{	string
UniqueOrderId

    `" ++ [21807; 19968; 35746; 21333; 21495]%N ++ runes_of_ascii "`, i32
    Status`" ++ [29366; 24577]%N ++ runes_of_ascii "`
	,
	string

    Msg 
`" ++ [32467; 26524; 20449; 24687]%N ++ runes_of_ascii "`

    ,

repeat
Detail
,

} 
packet

    Detail {
    string
RuleName`" ++ [35268; 21017; 21517; 31216]%N ++ runes_of_ascii "`
, 
u16
	Code

    `" ++ [21407; 22240; 20195; 30721]%N ++ runes_of_ascii "` , }
")).
Eval vm_compute in ("<<<M359>>>" ++ check (runes_of_ascii "root	packet // @lengthOf(
repeatCount {
    @lengthOf(u8x
) @calculatedFrom(""1"" ) @tag( 007 ) repeat zchar[
42 ] Header
    `" ++ [28040; 24687; 31867; 22411]%N ++ runes_of_ascii "` , match options1 as asx
{ 255
    // `tick` ""quote"" 'q'
    :
    roots , }, // a // b
Header
    @lengthOf(
    // a // b
    options1	) `` , Header //	t
@lengthOf(
    len )`{ , }`
, o matchKey `u8 x,` ,} packet packetx {zchar[
255
]
crc
    , }
    packet
    Logon {
    body { float { repeat Logon  trueish ,  } , } ,	@calculatedFrom(
    // `tick` ""quote"" 'q'
    ""`tick`"" ) repeat char[
    0] f32a
,match body
    as
    float {[65535
, """ ++ [28040; 24687]%N ++ runes_of_ascii """
    ] :
calculatedFrom ,}
, u32 float@calculatedFrom(
    """ ++ [233]%N ++ runes_of_ascii "t" ++ [233]%N ++ runes_of_ascii """ // @lengthOf(
)
, string body @lengthOf( len
    )`
` //
, u8x
@calculatedFrom( ""a\""b"")
    //	t
    , //	t
float64 options1@calculatedFrom(""" ++ [128512]%N ++ runes_of_ascii """ )`it's`
    ,
//x
// trailing space 
match crc as chars
    {
3
: options1 // @lengthOf(
, [ 10 ] :_x  [ ""{,}""
] :options1
,[ ""CRC32"", ""a\\""  ,
""a\\"" , ""packet"", 7
    // `tick` ""quote"" 'q'
    ]
:
As
    } , i16 msg_type , }")).
Eval vm_compute in ("<<<M1409>>>" ++ check (runes_of_ascii "// top
    options 
  // c0
{ 	 // c1
	uint8x 	 // c2a
	// c2b
	=
    007  // c4a
    // c4b
; lengthOf
    // c6
  	=
i8
    ; 	 // c9a
    // c9b

} packet
    i64_ 
    // c12

	{	// c13
	  @calculatedFrom(	// c14
	  ""1""
	// c15
) 	 // c16
	@tag( // c17
	3 
) 
// c19
@lengthOf( 

    // c20
  rootA
)	// c22
    repeat  // c23
    int8 // c24a
	// c24b
    	Packet  // c25a
	// c25b
  `u8 x,` 	 // c26

,// c27
  	} // c28a
// c28b
	root
	    // c29
  packet 	 // c30a

  // c30b
stringy

// c31
	  {	// c32a
    // c32b
@rightPad

( ' '// c35
		)// c36

repeat	// c37a
  // c37b
	char[  // c38
      10// c39
]
    repeatCount // c41a
    	// c41b
  ,// c42

  @tag( // c43a
    	// c43b
  	255 
      // c44
	  ) // c45
float64
    // c46
	  msg_type 
  // c47
@calculatedFrom( ""packet"" 

    // c49
    )// c50a
	// c50b
, // c51a
    // c51b

  }	// c52
 
")).
Eval vm_compute in ("<<<M280>>>" ++ check (runes_of_ascii "packet	crc{@lengthOf( stringy// a // b
) @leftPad (
'0'
    ) @calculatedFrom(
""packet"" )
repeat char[
    // c
    3]  i64_ // a // b
, match
    options1	as o { 255 :msg_type
,
    ""\n"": MetaDataX , 42: msg_type """ ++ [128512]%N ++ runes_of_ascii """
    : lengthOf,""// no comment"" :falsey , }
/// triple
// trailing space 
, @leftPad( )
    @lengthOf( A
    ) @calculatedFrom( ""x y"" ) uint32// a // b
charz `doc`, len ,@calculatedFrom( ""// no comment"" ) match _x
    //x
    as i64_	{ 65535
    :
    // @lengthOf(
    u8x , } ,
char[]
    a1 // @lengthOf(
, Foo { u8x{ char[]
Logon
    `// not a comment`	,}, match metadata as u128 { // trailing space 
42 : u8x
, 65535 : f32a
    } //x
, asx// " ++ [128512]%N ++ runes_of_ascii " emoji
@lengthOf( matchKey  ) ,} , roots @calculatedFrom( // packet A { u8 x, }
""a\""b"" )
,	zchar[
7] int	, repeat pack	trueish ,
    }
")).
Eval vm_compute in ("<<<M1798>>>" ++ check (runes_of_ascii "

  root packet matchKey

{ match 
Foo as 
Z9_ 
{ // c
  [
	""x y""
    , ""1""  ,
007, 7
]:

    pack	,

""`tick`""
    : 
u128	,
    ""a	b"" :  msg_type,
	[  
      //

  //
	  00
,
65535
]

: a1
,""it's""
:

Foo 
,	// " ++ [128512]%N ++ runes_of_ascii " emoji
	[	//x

""""

]	: u , }
	,}	packet calculatedFrom	// c
  { msg_type 
{ T @calculatedFrom(
""\n"" )
	, float64
	i8i8 ,
	As

    `
` ,u32 rootA 
@lengthOf( 
    // c
	// `tick` ""quote"" 'q'
    float )
, }  ,	}
packet
// " ++ [27880; 37322]%N ++ runes_of_ascii "
  	x_y_z
{  @tag(	//x
    	0
) i64_
	    // " ++ [27880; 37322]%N ++ runes_of_ascii "
  	@lengthOf(  
      //
	MetaDataX

),	}  packet A 
{ @calculatedFrom( ""a\\"")

@calculatedFrom( ""abc""	)_x

    u	`say ""hi""` 
,
	} 
options
    // `tick` ""quote"" 'q'
	{// trailing space 
  	metadata
	=""a\\""
; // a // b
}

")).
Eval vm_compute in ("<<<M6>>>" ++ check (runes_of_ascii "// `tick` ""quote"" 'q'
packet As
{ @rightPad ( '0' ) stringy
@lengthOf( calculatedFrom),	@tag( 10	) string uint8x `
` ,	match body // packet A { u8 x, }
as uint8x {
    ""it's"" :  rootA , [ 00 ] : leftPad
    ,
42 :	MetaDataX , ""a	b"" :  calculatedFrom
    255
:trueish	} , repeat	i64 Logon `tab	here` , } options {crc
= '\x00' ;}
packet x { @calculatedFrom(
""a\\""
    )
@tag( 42
) @leftPad	( '0' // c
) match o	as /// triple
x_y_z {// packet A { u8 x, }
[ """ ++ [128512]%N ++ runes_of_ascii """// trailing space 
, ""x y"" , // c
0123456789 ,""CRC32"" ,
//	t
// packet A { u8 x, }
""it's""
, 007
, 3, 007 // @lengthOf(
] :	Packet // c
[	255, ""x y""
    ] :x_y_z
    ,
} , }
// trailing space 
")).
Eval vm_compute in ("<<<M1554>>>" ++ check (runes_of_ascii "//x
packet x {
    @lengthOf(string_)
    // `tick` ""quote"" 'q'
    // trailing space 
    msg_type {
        int @lengthOf(chars) `" ++ [28040; 24687; 31867; 22411]%N ++ runes_of_ascii "`,
        int `a\`,
    },
    uint32 chars @calculatedFrom(""`tick`"") `
    `,
    @lengthOf(packetx)
    match metadata as x_y_z {
        65535 : x,
        007 : u,
        [7, ""// no comment"", """ ++ [28040; 24687]%N ++ runes_of_ascii """] : x,
        ""a\\"" : MetaDataX,
        0123456789 : lengthOf,
        10 : float,
    },
    u16 Logon @calculatedFrom(""x y"") `tab	here`,
    @lengthOf(Foo)
    zchar,
}

packet tag {
}

root packet x_y_z {
}

MetaData int {
    string A `" ++ [233]%N ++ runes_of_ascii "`,
}")).
Eval vm_compute in ("<<<M1300>>>" ++ check (runes_of_ascii "// top
packet // c0
A { u8
    // c3
a , // c5a
  // c5b
} // c6
packet
    // c7
B { // c9a
  // c9b
u16 // c10a
  // c10b
b // c11
, // c12
}
    // c13
root packet // c15a
  // c15b
P { // c17
u8 // c18
K // c19
, // c20
match // c21
K // c22
as // c23
M // c24a
  // c24b
{
    // c25
[ // c26
1
    // c27
,
    // c28
2 // c29a
  // c29b
] // c30a
  // c30b
: // c31a
  // c31b
A // c32a
  // c32b
, 3
    // c34
: // c35
B // c36a
  // c36b
, 7 // c38
: // c39a
  // c39b
A // c40
, // c41
} ,
    // c43
}
    // c44
")).
Eval vm_compute in ("<<<M1764>>>" ++ check (runes_of_ascii "// top
options {
    // c1
    uint8x = 007;
    lengthOf = i8;// c9a
    // c9b
}

packet i64_ {
    // c13
    @calculatedFrom(""1"")
    // c16
    @tag(3)
    // c19
    @lengthOf(rootA)
    // c22
    repeat int8 Packet `u8 x,`,// c27
}// c28a

// c28b
root packet stringy {
    // c32a
    // c32b
    @rightPad(' ')
    // c36
    repeat char[10] repeatCount,// c42
    @tag(255)
    // c45
    float64 msg_type @calculatedFrom(""packet""),// c51a
    // c51b
}// c52")).
Eval vm_compute in ("<<<M14>>>" ++ check (runes_of_ascii "MetaData u128
    {// a // b
string zchar //x
`two words` ,u16 packetx
`a\` , char[ 1 ] Logon	, len crc, char[
7]i8i8,char[]calculatedFrom,
} // @lengthOf(
MetaData u
    { u// " ++ [128512]%N ++ runes_of_ascii " emoji
u128
, //	t
}root packet metadata { }options	{ matchKey =
    255
;
x_y_z
= 007 crc=int16
; zchar =// c
char[42 ]
; int
= true ;
} options  {
Header = """ ++ [128512]%N ++ runes_of_ascii """
;
len
    = ' ' ; matchKey= """" ;MetaDataX =' '
; o
    = '\x00' ; }
/// triple
")).
Eval vm_compute in ("<<<M1669>>>" ++ check (runes_of_ascii "
packet int

{
	T/// triple
	{	repeat
_x ,	}	,
i64_
_x
	`
`
    ,  @calculatedFrom( 
""x y""
	) u32	A

    ,
match
a1  as
i8i8

{	[

    ""1"" 
, 4294967296 
]
    : a1 , """"

    : a1 
,007:
	a1
    ,
[
    ""CRC32""

    ]

    :	Header }
,

    int64  As 
,
int8

    a1
	,//
    char[]
	float `tab	here` /// triple
, repeat 
zchar[ 1

    ]u8x	,
	}	/// triple
")).
Eval vm_compute in ("<<<M1234>>>" ++ check (runes_of_ascii "// top
options // c0
{ // c1
f32a // c2
= // c3
0 // c4
} // c5
packet // c6
trueish // c7
{ // c8
} // c9
MetaData // c10
_x // c11
{ // c12
char[ // c13
0123456789 // c14
] // c15
zchar // c16
, // c17
string // c18
crc // c19
, // c20
char[ // c21
1 // c22
] // c23
options1 // c24
, // c25
uint8 // c26
repeatCount // c27
, // c28
} // c29
")).
Eval vm_compute in ("<<<M1385>>>" ++ check (runes_of_ascii "options {
    LittleEndian = true;
}
packet Logon {
    u8 x,
}
packet Logout {
    u16 reason,
}
root packet Frame {
    u64 Kind,
    u64 Kind2,
    match Kind as Body {
        1 : Logon,
        [2, 3, 4] : Logout,
        100 : Logon,
    },
    match Kind2 as Trailer {
        0 : Logout,
    },
}
")).
Eval vm_compute in ("<<<M222>>>" ++ check (runes_of_ascii "packet
body// @lengthOf(
{ @lengthOf(
T
    // " ++ [27880; 37322]%N ++ runes_of_ascii "
    ) @lengthOf(
int ) @leftPad ( '\x00')
asx//x
len
,
repeat	zchar[ 3] int `" ++ [28040; 24687; 31867; 22411]%N ++ runes_of_ascii "` ,@lengthOf(
    // @lengthOf(
    options1)match
    x
    as //x
leftPad // @lengthOf(
{
7
:
x_y_z , 65535:  u128 , 42 : x ,} , //
}")).
Eval vm_compute in ("<<<M308>>>" ++ check (runes_of_ascii "options { pack// `tick` ""quote"" 'q'
= 0123456789
}
packet metadata { @leftPad ( ' ' ) stringy
@lengthOf( _x )
    , repeat	u8
int
    `{ , }` ,
@leftPad //	t
('0' ) repeat char msg_type `it's`,
} MetaData x_y_z { // trailing space 
}")).
Eval vm_compute in ("<<<M350>>>" ++ check (runes_of_ascii "MetaData Pad
{ i64 Packet `{ , }`
    , // `tick` ""quote"" 'q'
repeatCount  trueish // packet A { u8 x, }
`say ""hi""`	, f32 pack`// not a comment` ,// `tick` ""quote"" 'q'
u32
calculatedFrom ,char //	t
zchar
,}
")).
Eval vm_compute in ("<<<M1295>>>" ++ check (runes_of_ascii "packet
    A{ 
u8 a,
}packet
B

{u16
	b

    , } root
packet 
P

    {  u8
    K1
, u8

K2 
,match K1
	as	M1
{
1
    :

A,

    } ,	match

K2
as M2  {
1:B ,
    }
    ,}
")).
Eval vm_compute in ("<<<M1256>>>" ++ check (runes_of_ascii "// top
root // c0
packet P // c2
{ // c3
hdr
    // c4
{
    // c5
u8 // c6
a // c7a
  // c7b
,
    // c8
} , // c10
u8 // c11
x // c12a
  // c12b
, }
    // c14
")).
Eval vm_compute in ("<<<M441>>>" ++ check (runes_of_ascii "packet uint8x
{ match pack
    as msg_type	{
    0123456789 :	float float
}
,
} packet //	t
a1
    { } options {packetx
    = '\x00'	; u128= ""a	b""  ; }
")).
Eval vm_compute in ("<<<M403>>>" ++ check (runes_of_ascii "packet uint8x
007 match pack
    as msg_type	{
    0123456789 :	float
}
,
} packet //	t
a1
    { } options {packetx
    = '\x00'	; u128= ""a	b""  ; }
")).
Eval vm_compute in ("<<<M550>>>" ++ check (runes_of_ascii "packet uint8x
{ match pack
    as msg_type	{
    0123456789 :	caf" ++ [233]%N ++ runes_of_ascii "_1
}
,
} packet //	t
a1
    { } options {packetx
    = '\x00'	; u128= ""a	b""  ; }
")).
Eval vm_compute in ("<<<M512>>>" ++ check (runes_of_ascii "packet uint8x
{ match pack
    as msg_type	{
    0123456789 :	float
}
,
} packet //	t
a1
    { } options {packetx
    = '\x00'	; =u128 ""a	b""  ; }
")).
Eval vm_compute in ("<<<M503>>>" ++ check (runes_of_ascii "packet uint8x
{ match pack
    as msg_type	{
    0123456789 :	float
}
,
} packet //	t
a1
    { } options {packetx
    = char	; u128= ""a	b""  ; }
")).
Eval vm_compute in ("<<<M691>>>" ++ check (runes_of_ascii "// @lengthOf(
packet i8i8 { u128 o , }
options f64 MetaDataX = true;
    BodyLength =""packet"" x_y_z= 007
crc //x
= ""abc"" ;
    msg_type =
i16 }")).
Eval vm_compute in ("<<<M715>>>" ++ check (runes_of_ascii "// @lengthOf(
packet i8i8 { u128 o , options
} { MetaDataX = true;
    BodyLength =""packet"" x_y_z= 007
crc //x
= ""abc"" ;
    msg_type =
i16 }")).
Eval vm_compute in ("<<<M650>>>" ++ check (runes_of_ascii "// @lengthOf(
packet i8i8 { u128 o , }
options { MetaDataX = true;
    BodyLength =""packet"" x_y_z= 007
crc //x
=  ;
    msg_type =
i16 }")).
Eval vm_compute in ("<<<M1918>>>" ++ check (runes_of_ascii "MetaData
leftPad
{	chars
MetaDataX, }	packet 
repeatCount{ char[

    255 ] uint8x	`" ++ [233]%N ++ runes_of_ascii "`
,  }
// c
	  MetaData
pack
{ As

Foo 
, }
")).
Eval vm_compute in ("<<<M1840>>>" ++ check (runes_of_ascii "MetaData leftPad {
    chars MetaDataX,
}

packet repeatCount {
    char[255] uint8x `" ++ [233]%N ++ runes_of_ascii "`,
}

MetaData pack {
    As Foo,// c
}")).
Eval vm_compute in ("<<<M1145>>>" ++ check (runes_of_ascii "MetaData leftPad // c
{ chars MetaDataX , } packet repeatCount { char[ 255 ] uint8x `" ++ [233]%N ++ runes_of_ascii "` , } MetaData pack { As Foo , }")).
Eval vm_compute in ("<<<M1177>>>" ++ check (runes_of_ascii "MetaData leftPad { chars MetaDataX , } packet repeatCount { char[ 255 ] uint8x `" ++ [233]%N ++ runes_of_ascii "` , } MetaData // c
pack { As Foo , }")).
Eval vm_compute in ("<<<M1569>>>" ++ check (runes_of_ascii "MetaData zchar {
    uint8 _x `doc`,
    float64 metadata `doc`,
    zchar[42] x_y_z,
    zchar[3] Logon `{ , }`,
}")).
Eval vm_compute in ("<<<M880>>>" ++ check (runes_of_ascii "packet A {
  match k as n {
    [""a"", ""bb"", ""c c"", ""d"", ""e"", ""f"", ""g"", ""h"", ""i"", ""j""] : B,
    2 : C
  },
}")).
Eval vm_compute in ("<<<M683>>>" ++ check (runes_of_ascii "// @lengthOf(
packet i8i8 { u128 o , }
options { MetaDataX = true;
    BodyLength =""packet"" x_y_z= 007")).
Eval vm_compute in ("<<<M1702>>>" ++ check (runes_of_ascii "root packet
SimpleMessage

{uint16 
MsgType

`" ++ [28040; 24687; 31867; 22411]%N ++ runes_of_ascii "`,  string

JsonBody
`Json" ++ [23383; 31526; 20018; 28040; 24687; 20307]%N ++ runes_of_ascii "` ,

    }
")).
Eval vm_compute in ("<<<M886>>>" ++ check (runes_of_ascii "packet A {
  match k as n {
    [1, 22, ""c c"", 4, 5, ""f"", 7, 8, ""i"", 10] : B,
    2 : C
  },
}")).
Eval vm_compute in ("<<<M623>>>" ++ check (runes_of_ascii "
packet
    asx {match u128 as lengthOf
{
//	t
// `tick` ""quote"" 'q'
255 : x ,
    } ,	} }")).
Eval vm_compute in ("<<<M594>>>" ++ check (runes_of_ascii "
packet
    asx {match u128 as lengthOf
{
//	t
// `tick` ""quote"" 'q'
: 255 x ,
    } ,	}")).
Eval vm_compute in ("<<<M1086>>>" ++ check (runes_of_ascii "packet A { match k as n // a
 { // b
 1 // c
 : // d
 B // e
 , // f
 } // g
 , // h
 }")).
Eval vm_compute in ("<<<M1634>>>" ++ check (runes_of_ascii "MetaData repeatCount {
    char[42] MetaDataX,
    // @lengthOf(
    zchar[0] asx,
}")).
Eval vm_compute in ("<<<M834>>>" ++ check (runes_of_ascii "packet A {
  match k as n {
    [1, 22, ""c c"", 4, 5, ""f""] : B,
    2 : C
  },
}")).
Eval vm_compute in ("<<<M606>>>" ++ check (runes_of_ascii "
packet
    asx {match u128 as lengthOf
{
//	t
// `tick` ""quote"" 'q'
255 :")).
Eval vm_compute in ("<<<M808>>>" ++ check (runes_of_ascii "packet A {
  match k as n {
    [1, 22, ""c c"", 4] : B,
    2 : C
  },
}")).
Eval vm_compute in ("<<<M1595>>>" ++ check (runes_of_ascii "MetaData x {
    x Packet,
    i32 lengthOf,// `tick` ""quote"" 'q'
}")).
Eval vm_compute in ("<<<M2>>>" ++ check (runes_of_ascii "root
// trailing space 
// " ++ [27880; 37322]%N ++ runes_of_ascii "
packet
u{  } // trailing space ")).
Eval vm_compute in ("<<<M1413>>>" ++ check (runes_of_ascii "root packet P {
    repeat string ss,
    repeat u16 ns,
}")).
Eval vm_compute in ("<<<M1198>>>" ++ check (runes_of_ascii "
// c
packet body { i32 f32a `{ , }` , } options { }")).
Eval vm_compute in ("<<<M1079>>>" ++ check (runes_of_ascii "packet A { u8 x, } // a
// b
packet B {} // c
// d")).
Eval vm_compute in ("<<<M284>>>" ++ check (runes_of_ascii "
options{ trueish=
'0' //	t
;a1 = u64
; }")).
Eval vm_compute in ("<<<M1766>>>" ++ check (runes_of_ascii "packet MetaDataX {
    i16 u128 `" ++ [233]%N ++ runes_of_ascii "`,//x
}")).
Eval vm_compute in ("<<<M1092>>>" ++ check (runes_of_ascii "root // a
 packet // b
 A // c
 { }")).
Eval vm_compute in ("<<<M1808>>>" ++ check (runes_of_ascii "

  packet
A

{
} 

    // c" ++ [8202]%N ++ runes_of_ascii "
 
")).
Eval vm_compute in ("<<<M1058>>>" ++ check (runes_of_ascii "packet A {
 u8 x `d" ++ [6158]%N ++ runes_of_ascii "`, // c" ++ [6158]%N ++ runes_of_ascii "
}")).
Eval vm_compute in ("<<<M1868>>>" ++ check (runes_of_ascii "
packet

    x  {// c
	}")).
Eval vm_compute in ("<<<M238>>>" ++ check (runes_of_ascii "root packet chars
{}
")).
Eval vm_compute in ("<<<M162>>>" ++ check (runes_of_ascii "
packet f32a  { }
")).
Eval vm_compute in ("<<<M1001>>>" ++ check (runes_of_ascii "packet A {
}
// c" ++ [8192]%N)).
Eval vm_compute in ("<<<M571>>>" ++ check (runes_of_ascii "
packet
    asx {")).
Eval vm_compute in ("<<<M409>>>" ++ check (runes_of_ascii "packet uint8x
{")).
Eval vm_compute in ("<<<M1911>>>" ++ check (runes_of_ascii "

  // c" ++ [8233]%N ++ runes_of_ascii "
")).
Eval vm_compute in ("<<<M293>>>" ++ check (runes_of_ascii "  

")).
