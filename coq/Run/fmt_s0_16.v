From FP Require Import Lexer Parser ShowPT Digest Formatter.
From Coq Require Import String List NArith.
Import ListNotations.
Open Scope string_scope.
Set Printing Width 100000000.
Set Printing Depth 100000000.
Definition show_fres (r : fres) : string :=
  match r with
  | FOk s => "OK:" ++ sh_escaped s ""
  | FErr s => "ERR:" ++ sh_escaped s ""
  | FPanic p => "PANIC:" ++ p
  end.
Definition check (rs : list rune) : string := digest (show_fres (format_res rs)).
Definition full (rs : list rune) : string := show_fres (format_res rs).
Eval vm_compute in ("<<<M1597>>>" ++ check (runes_of_ascii "options {
    MetaDataX = true
}

root packet u8x {
    repeat uint16 u8x `" ++ [28040; 24687; 31867; 22411]%N ++ runes_of_ascii "`,
    @tag(42)
    char[7] trueish @lengthOf(Pad),
    tag @lengthOf(A) `say ""hi""`,
    float rootA,// " ++ [27880; 37322]%N ++ runes_of_ascii "
    Foo,
    repeat uint32 calculatedFrom,
}

root packet u128 {
    repeat Packet metadata,
    repeat zchar[0123456789] len `u8 x,`,
    f32 BodyLength @lengthOf(Z9_) `it's`,
    match crc as Packet {
        0 : i64_,
        [255] : rootA,
        [""a	b"", ""\" ++ [233]%N ++ runes_of_ascii """, ""\" ++ [233]%N ++ runes_of_ascii """, 0, 4294967296] : i8i8,
    },
    @tag(1)
    @calculatedFrom(""\" ++ [233]%N ++ runes_of_ascii """)
    string f32a @calculatedFrom(""abc""),
    repeat As {
        matchKey {
            crc @calculatedFrom(""// no comment""),
        },
        lengthOf `crlf
        line`,
        // a // b
        // a // b
        T Pad `a\`,
        repeat i8i8 charz,// a // b
    },
}

packet packetx {
    @lengthOf(Packet)
    repeat uint8x `line1
    line2`,
    @tag(0123456789)
    string BodyLength @calculatedFrom(""" ++ [28040; 24687]%N ++ runes_of_ascii """),// trailing space 
    zchar[42] MetaDataX,
    char A @lengthOf(tag) `two words`,
    @tag(10)
    @calculatedFrom(""" ++ [28040; 24687]%N ++ runes_of_ascii """)
    @calculatedFrom(""x y"")
    char[7] repeatCount @calculatedFrom(""// no comment""),
    @calculatedFrom(""it's"")
    char[65535] packetx `// not a comment`,
    @leftPad(' ')
    match tag as packetx {
        00 : int,
    },
    @tag(7)
    @lengthOf(float)
    @tag(0123456789)
    Z9_,
    @tag(00)
    tag {
        uint16 MetaDataX,
        u tag `tab	here`,
        float64 Packet @calculatedFrom(""{,}""),
        x_y_z u128,
    },
    char[] msg_type @lengthOf(calculatedFrom) `line1
    line2`,
}

MetaData float {
    uint32 crc,
    charz msg_type,
    u128 crc,
    string stringy `" ++ [233]%N ++ runes_of_ascii "`,
}")).
Eval vm_compute in ("<<<M1655>>>" ++ check (runes_of_ascii "root packet u {
    char[007] x_y_z `two words`,
    int16 u8x @calculatedFrom(""packet""),
    float64 falsey @calculatedFrom(""\" ++ [233]%N ++ runes_of_ascii """) `u8 x,`,
    trueish @calculatedFrom(""" ++ [233]%N ++ runes_of_ascii "t" ++ [233]%N ++ runes_of_ascii """) `tab	here`,
    @tag(1)
    repeat char[4294967296] u,
    match i8i8 as o {
        [""a\\""] : matchKey,
        [
            0123456789, ""x y"", 0, 00, ""a	b"",
            ""{,}"", ""{,}"", 007
        ] : u8x,
        255 : u128,
        [""" ++ [28040; 24687]%N ++ runes_of_ascii """, 0123456789, 65535, ""\n""] : _x,
        7 : falsey,
    },
    @leftPad()
    // " ++ [128512]%N ++ runes_of_ascii " emoji
    charz @lengthOf(A),// `tick` ""quote"" 'q'
}

root packet stringy {
    repeat MetaDataX {
        float32 T,
        string x_y_z `a\`,
        repeat _x zchar `u8 x,`,
    },
}

packet Foo {
    @lengthOf(roots)
    calculatedFrom a1,
    zchar[0123456789] _x,
    // @lengthOf(
    // trailing space 
    match roots as MetaDataX {
        /// triple
        42 : _x,
        3 : msg_type,
        7 : a1,
        """" : i8i8,
        //x
        [""" ++ [233]%N ++ runes_of_ascii "t" ++ [233]%N ++ runes_of_ascii """] : i8i8,
        00 : leftPad,
    },
    @calculatedFrom("""")
    char[00] Foo @lengthOf(uint8x),
    f32 chars,
}

packet metadata {
}

MetaData i64_ {
    lengthOf options1,
    // @lengthOf(
    //x
    a1 A,
    x Header,
}")).
Eval vm_compute in ("<<<M1928>>>" ++ check (runes_of_ascii "packet

rootA
{
    match
	zchar
    as 
	// " ++ [128512]%N ++ runes_of_ascii " emoji
int{
	[

    ""it's""

    ,
""1""

    ] 
:// c
    	tag
    ,

}  ,

    char

Packet	@lengthOf(
body
	)
,
	metadata
    @lengthOf( 
packetx

    )  ,

@calculatedFrom(
    """ ++ [128512]%N ++ runes_of_ascii """ ) match 
repeatCount
	as  f32a
	{""" ++ [28040; 24687]%N ++ runes_of_ascii """

    :	chars ,

    } ,@lengthOf(string_
) char[

    0 
	    //
]
	len @calculatedFrom(""abc""
)
,
    // `tick` ""quote"" 'q'

  u8
    uint8x
@lengthOf(
roots)`say ""hi""`	,int

@calculatedFrom(

""a\""b""

    )
    ,

    match 
msg_type  as

    i8i8
    {  // c
	""\" ++ [233]%N ++ runes_of_ascii """

    // " ++ [27880; 37322]%N ++ runes_of_ascii "

// packet A { u8 x, }
	  :
Header, 1	: zchar
,[""\n""
    ]	: string_
""\n""	:i8i8
	0123456789
    : Logon [
00

    ,

007
	,

    ""1""

    , 
      //	t
  	""it's""  ,

    ""// no comment"" 
, 0
, ""a\\"",// packet A { u8 x, }
  007 ]  :
    BodyLength

}	,  match  rootA
    as // c

chars {
    7:
// @lengthOf(
	Header}

    ,
A Foo 
`tab	here` ,} ")).
Eval vm_compute in ("<<<M188>>>" ++ check (runes_of_ascii "// packet A { u8 x, }
root
    packet
    leftPad { @calculatedFrom(
    //x
    ""`tick`"" )	@rightPad( )
    // " ++ [128512]%N ++ runes_of_ascii " emoji
    string_
// `tick` ""quote"" 'q'
// a // b
@lengthOf(	tag
    ) `a\` ,i64 T
    `" ++ [233]%N ++ runes_of_ascii "`,//	t
}
packet
Pad// @lengthOf(
{ @lengthOf(	float ) char[] x@calculatedFrom(
    ""a\""b"")
    , // trailing space 
@tag(
    0// " ++ [128512]%N ++ runes_of_ascii " emoji
) // " ++ [27880; 37322]%N ++ runes_of_ascii "
repeatCount// packet A { u8 x, }
,
repeat rootA{
_x
    ,zchar[3 ]roots
    /// triple
    `crlf
line` ,
}
,
/// triple
// a // b
match
    metadata as BodyLength
    { [
    // c
    10 , 10 , ""a\""b"", """"	, ""\n""
,  ""a\\"" , 4294967296]  :
    u
, }
, repeat	i64_ Packet `" ++ [28040; 24687; 31867; 22411]%N ++ runes_of_ascii "`
,@tag( // packet A { u8 x, }
65535)
    char[] float`it's`
, char[7 ]
    x @calculatedFrom( ""{,}"" ),
    }MetaData leftPad// a // b
{ body rootA
`crlf
line`
, int64
msg_type
`doc`
    , // @lengthOf(
}
")).
Eval vm_compute in ("<<<M1358>>>" ++ check (runes_of_ascii "options
	{

    StringPrefixLenType = u16 ;  ArrayPrefixLenType =  u32
;FixedStringPadFromLeft =true
    ;	FixedStringPadChar=
    '0';}
    packet

Cancel
	{ }  packet Party

    {

    }

    packet
Logon

    {

}
	packet
    Ack{
} 
packet
Logout	{repeat InSym87  { InClordid94 
{

    string
    clOrdID
,

} 
,string Px
    , i16

Qty, repeat InCount71 { repeat
	Cancel  , uint16

Tail, char[ 2
    ] x 
,

    repeat
    string	Ref, 
}
	, Cancel
	, 
}

    ,

    }

root

packet 
Order { repeat
	string
tag7	,
@leftPad
(' '	) char[

    3 ]	Px
, u8
Qty  , 
match Qty as
    Body
	{ 
[
28 , 62

    ]
:

Logon ,  148
    :
	Ack ,88

    :Party
	,
184 :
Cancel	,
	},
u16

    Note
@calculatedFrom( 
""CRC32""
)
,}

")).
Eval vm_compute in ("<<<M1445>>>" ++ check (runes_of_ascii "
options {	leftPad 	 // packet A { u8 x, }
    = 0; 

//
	Logon 
= char  // `tick` ""quote"" 'q'
i64_	=
'\x00'  ;
    }
options
{ crc 
=i32
	; matchKey
=
    255 leftPad	=	' ' ; 
metadata	=

42 // trailing space 
;
	packetx
= 10
    } root
packet  //
	A
{
@calculatedFrom(
""x y""// c
  )  /// triple

  zchar[00
    ]

f32a

,

@tag(
255 
)
    zchar[ 0123456789

    ]
	a1
	@lengthOf( As )	`" ++ [28040; 24687; 31867; 22411]%N ++ runes_of_ascii "` 
      /// triple
  ,
int16

body

, 	 // `tick` ""quote"" 'q'
uint64	x	@calculatedFrom(""1""
//	t
    // " ++ [128512]%N ++ runes_of_ascii " emoji
  ) // packet A { u8 x, }
  `line1
line2`  ,  @lengthOf(
	Logon) 
char[ 
0 // packet A { u8 x, }
]  float @calculatedFrom(
	""abc""),}
MetaData
	u128

    {
}")).
Eval vm_compute in ("<<<M227>>>" ++ check (runes_of_ascii "packet	crc
    { @lengthOf(Header )	repeat roots
    // @lengthOf(
    `a\` ,
@lengthOf( tag ) match x as string_{ [ ""a\\"" , ""packet""
] : Header""// no comment""
    /// triple
    :
Logon , 7:
falsey ,7  : metadata [ 7  , 00] :
    // `tick` ""quote"" 'q'
    repeatCount 3 : u ,
},
    //	t
    @lengthOf( u128
//
// " ++ [27880; 37322]%N ++ runes_of_ascii "
) @rightPad
(
'\x00' // c
)
char[] int ,int16 Packet @lengthOf(  string_
    ) , trueish{ repeat
crc {zchar
calculatedFrom , } ,
} ,
// @lengthOf(
//x
@rightPad
( ) repeat
    _x pack // " ++ [27880; 37322]%N ++ runes_of_ascii "
, @lengthOf(
// c
// trailing space 
chars)repeat
    string_ {repeat
    uint8x`// not a comment`,}
, }")).
Eval vm_compute in ("<<<M1591>>>" ++ check (runes_of_ascii "packet int {
    // @lengthOf(
    repeat string BodyLength `a\`,
}

packet repeatCount {
    @lengthOf(x_y_z)
    crc,
    match Packet as Z9_ {
        ""// no comment"" : MetaDataX,
        //	t
        // a // b
        [00, 7] : chars,
        ""CRC32"" : zchar,
        42 : stringy,
        [""a\""b"", ""1""] : u,
    },
    @rightPad(' ')
    @lengthOf(i64_)
    repeat f64 x `two words`,
    @calculatedFrom(""`tick`"")
    int64 falsey @lengthOf(u128),
    charz {
        //x
        char[] T `a\`,
    },
    @lengthOf(u8x)
    string_,
    repeat x,
}")).
Eval vm_compute in ("<<<M1943>>>" ++ check (runes_of_ascii "options

{float
= char[]
	} // packet A { u8 x, }

	root 
packet

Logon
    { @tag( 
1
	) 	 // a // b
	  @calculatedFrom(

""packet"" 
  // a // b
// " ++ [128512]%N ++ runes_of_ascii " emoji

) 
zchar[3 
]

// c
	//x
Z9_,

@lengthOf(charz  ) @calculatedFrom( ""1"" )	match
    roots 
as

    int 
{  ""a	b""
:
MetaDataX
,
    } ,@calculatedFrom(  ""a\""b"" )match
asx 
as lengthOf { 
""" ++ [128512]%N ++ runes_of_ascii """ 
: _x ,[
255
    ]:
BodyLength,

    3:	u8x , 0123456789
: T

} , 
len
	@lengthOf( leftPad
	)

`u8 x,`
    ,
    }// @lengthOf(")).
Eval vm_compute in ("<<<M1677>>>" ++ check (runes_of_ascii "//	t
packet u8x {
    u8x {
        body @calculatedFrom(""`tick`"") `say ""hi""`,
        match a1 as asx {
            //	t
            0 : asx,
        },
    },
    @rightPad()
    match Logon as x {
        [00, ""// no comment"", ""a\\"", 0123456789, 4294967296] : crc,
        00 : options1,
        // " ++ [27880; 37322]%N ++ runes_of_ascii "
        42 : i8i8,
        0 : o,
        0123456789 : body,
    },
    @tag(7)
    float @lengthOf(stringy) `" ++ [233]%N ++ runes_of_ascii "`,
    u @lengthOf(msg_type),
}")).
Eval vm_compute in ("<<<M1931>>>" ++ check (runes_of_ascii "options {
}

packet charz {
    @rightPad(' ')
    @calculatedFrom(""a\\"")
    repeat int crc `two words`,
    string stringy @calculatedFrom(""a	b"") `// not a comment`,//
    char i8i8,
}

MetaData crc {
    // `tick` ""quote"" 'q'
    crc i64_ `{ , }`,
    // `tick` ""quote"" 'q'
    i32 u128,// packet A { u8 x, }
    BodyLength Header,
    char[0123456789] Packet `u8 x,`,
    uint8 repeatCount,//	t
}")).
Eval vm_compute in ("<<<M1947>>>" ++ check (runes_of_ascii "// @lengthOf(
MetaData leftPad {
    string options1 `say ""hi""`,
    //x
    int16 metadata `" ++ [233]%N ++ runes_of_ascii "`,
    f32 i64_,
}

packet trueish {
    // c
    MetaDataX roots,
    _x a1,
    match packetx as charz {
        0 : f32a,
    },
    repeat body Logon,
}

options {
    repeatCount = int8
    charz = char[];
    msg_type = ""it's""
    u = 007
    Z9_ = uint32
    //
}")).
Eval vm_compute in ("<<<M1484>>>" ++ check (runes_of_ascii "packet int {
    T {
        repeat _x,
    },
    i64_ _x `
        `,
    @calculatedFrom(""x y"")
    u32 A,
    match a1 as i8i8 {
        [""1"", 4294967296] : a1,
        """" : a1,
        007 : a1,
        [""CRC32""] : Header,
    },
    int64 As,
    int8 a1,//
    char[] float `tab	here`,
    repeat zchar[1] u8x,
}/// triple")).
Eval vm_compute in ("<<<M1379>>>" ++ check (runes_of_ascii "options {
    LittleEndian = true;
}
packet Logon {
    u8 x,
}
packet Logout {
    u16 reason,
}
root packet Frame {
    u8 Kind,
    u8 Kind2,
    match Kind as Body {
        1 : Logon,
        [2, 3, 4] : Logout,
        100 : Logon,
    },
    match Kind2 as Trailer {
        0 : Logout,
    },
}
")).
Eval vm_compute in ("<<<M1876>>>" ++ check (runes_of_ascii "  packet _x
    {
    repeat

    char[]
	matchKey 	 // " ++ [128512]%N ++ runes_of_ascii " emoji
  , @leftPad (  )  x_y_z	/// triple

T

    , 
Pad
{
zchar[

1]  rootA

    `tab	here` , }
    , Foo
    @calculatedFrom(
"""" 

// trailing space 
  	) ,	} packet
    MetaDataX { float64	body
,}")).
Eval vm_compute in ("<<<M1912>>>" ++ check (runes_of_ascii "// top
MetaData leftPad {
    // c2
    chars MetaDataX,// c5a
    // c5b
}

packet repeatCount {
    char[255] uint8x `" ++ [233]%N ++ runes_of_ascii "`,
    // c15
}// c16a

// c16b
MetaData pack {
    // c19a
    // c19b
    As Foo,
    // c22
}// c23a
// c23b")).
Eval vm_compute in ("<<<M318>>>" ++ check (runes_of_ascii "options {Z9_ =// trailing space 
""packet"" ;float = false
; A =
' ' }
    // c
    MetaData pack
{ zchar[
3] leftPad
,zchar
    falsey `it's` , char[] repeatCount ,char[ 65535 // " ++ [128512]%N ++ runes_of_ascii " emoji
] Z9_, }
//	t
")).
Eval vm_compute in ("<<<M1489>>>" ++ check (runes_of_ascii "packet len {
}

options {
    Z9_ = 4294967296;
    _x = 0
    f32a = zchar[42];
}

root packet BodyLength {
}

options {
    string_ = u32;
    charz = string;
}

packet len {
}")).
Eval vm_compute in ("<<<M1940>>>" ++ check (runes_of_ascii "packet A {
    match k as n {
        [
            1, 22, ""c c"", 4, 5,
            ""f"", 7, 8, ""i"", 10,
            11, ""l""
        ] : B,
        2 : C,
    },
}")).
Eval vm_compute in ("<<<M411>>>" ++ check (runes_of_ascii "packet uint8x
{ match pack pack
    as msg_type	{
    0123456789 :	float
}
,
} packet //	t
a1
    { } options {packetx
    = '\x00'	; u128= ""a	b""  ; }
")).
Eval vm_compute in ("<<<M476>>>" ++ check (runes_of_ascii "packet uint8x
{ match pack
    as msg_type	{
    0123456789 :	float
}
,
} packet //	t
a1
    { } } options {packetx
    = '\x00'	; u128= ""a	b""  ; }
")).
Eval vm_compute in ("<<<M402>>>" ++ check (runes_of_ascii "packet uint8x
match { pack
    as msg_type	{
    0123456789 :	float
}
,
} packet //	t
a1
    { } options {packetx
    = '\x00'	; u128= ""a	b""  ; }
")).
Eval vm_compute in ("<<<M400>>>" ++ check (runes_of_ascii "packet uint8x
 match pack
    as msg_type	{
    0123456789 :	float
}
,
} packet //	t
a1
    { } options {packetx
    = '\x00'	; u128= ""a	b""  ; }
")).
Eval vm_compute in ("<<<M698>>>" ++ check (runes_of_ascii "// @lengthOf(
packet i8i8 { u128 o , }
options { MetaDataX = true;
    BodyLength =""packet"" x_y_z= 007
crc //x
= ""abc"" ;
    msg_type =
i16 i16 }")).
Eval vm_compute in ("<<<M460>>>" ++ check (runes_of_ascii "packet uint8x
{ match pack
    as msg_type	{
    0123456789 :	float
}
,
}  //	t
a1
    { } options {packetx
    = '\x00'	; u128= ""a	b""  ; }
")).
Eval vm_compute in ("<<<M137>>>" ++ check (runes_of_ascii "
packet u128//x
{ @calculatedFrom(  ""x y""
    ) // `tick` ""quote"" 'q'
@rightPad (  ' ') char[ 42 ]  Header
    @calculatedFrom( ""abc"" ),  }

")).
Eval vm_compute in ("<<<M658>>>" ++ check (runes_of_ascii "// @lengthOf(
 i8i8 { u128 o , }
options { MetaDataX = true;
    BodyLength =""packet"" x_y_z= 007
crc //x
= ""abc"" ;
    msg_type =
i16 }")).
Eval vm_compute in ("<<<M514>>>" ++ check (runes_of_ascii "packet uint8x
{ match pack
    as msg_type	{
    0123456789 :	float
}
,
} packet //	t
a1
    { } options {packetx
    = '\x00'	;")).
Eval vm_compute in ("<<<M1407>>>" ++ check (runes_of_ascii "packet

A
	{
match

k	as  n 
{
	[	""a""
    ,
    22 ,
""c c"" , 
4
    ,""e"" ,

    66 
,  ""g""
	, 8

] : B 
2
	:C
    },

}

")).
Eval vm_compute in ("<<<M1146>>>" ++ check (runes_of_ascii "MetaData leftPad
// c
{ chars MetaDataX , } packet repeatCount { char[ 255 ] uint8x `" ++ [233]%N ++ runes_of_ascii "` , } MetaData pack { As Foo , }")).
Eval vm_compute in ("<<<M1178>>>" ++ check (runes_of_ascii "MetaData leftPad { chars MetaDataX , } packet repeatCount { char[ 255 ] uint8x `" ++ [233]%N ++ runes_of_ascii "` , } MetaData
// c
pack { As Foo , }")).
Eval vm_compute in ("<<<M1746>>>" ++ check (runes_of_ascii "packet
	asx

{
	match
	u128	as 
lengthOf
{
        //	t
	// `ti/ck` ""quote"" 'q'
    255

    : x
,
    } ,}
")).
Eval vm_compute in ("<<<M949>>>" ++ check (runes_of_ascii "packet A {
    u16 len @lengthOf(body) `x
`,
    u32 crc @calculatedFrom(""CRC32"") `x
`,
    string body,
}")).
Eval vm_compute in ("<<<M868>>>" ++ check (runes_of_ascii "packet A {
  match k as n {
    [""a"", ""bb"", ""c c"", ""d"", ""e"", ""f"", ""g"", ""h"", ""i""] : B
    2 : C
  },
}")).
Eval vm_compute in ("<<<M932>>>" ++ check (runes_of_ascii "packet A {
    Inner {
        u8 x `
`,
        Deep {
            u8 y `
`,
        },
    },
}")).
Eval vm_compute in ("<<<M593>>>" ++ check (runes_of_ascii "
packet
    asx {match u128 as lengthOf
{
//	t
// `tick` ""quote"" 'q'
255 255 : x ,
    } ,	}")).
Eval vm_compute in ("<<<M639>>>" ++ check (runes_of_ascii "
packet
    asx {match u128 as lengthOf
{
//	t
// `tick` ""quote"" 'q'
255 : x ,
    } ,	"" }")).
Eval vm_compute in ("<<<M594>>>" ++ check (runes_of_ascii "
packet
    asx {match u128 as lengthOf
{
//	t
// `tick` ""quote"" 'q'
: 255 x ,
    } ,	}")).
Eval vm_compute in ("<<<M828>>>" ++ check (runes_of_ascii "packet A {
  match k as n {
    [""a"", ""bb"", ""c c"", ""d"", ""e"", ""f""] : B,
    2 : C
  },
}")).
Eval vm_compute in ("<<<M866>>>" ++ check (runes_of_ascii "packet A {
  match k as n {
    [1, 22, 007, 4, 5, 66, 7, 8, 9] : B
    2 : C
  },
}")).
Eval vm_compute in ("<<<M1273>>>" ++ check (runes_of_ascii "options {
    FixedStringPadFromLeft = true;
}
root packet P {
    char[4] z,
}
")).
Eval vm_compute in ("<<<M743>>>" ++ check (runes_of_ascii "int16 zchar[ } `doc` char u16 uint16 true false u8 msg_type """ ++ [233]%N ++ runes_of_ascii "t" ++ [233]%N ++ runes_of_ascii """ ""a\\"" pack")).
Eval vm_compute in ("<<<M805>>>" ++ check (runes_of_ascii "packet A {
  match k as n {
    [1, ""bb"", 007, ""d""] : B
    2 : C
  },
}")).
Eval vm_compute in ("<<<M768>>>" ++ check (runes_of_ascii "char = char[] options char[] ] uint64 metadata match 1 zchar[ int16")).
Eval vm_compute in ("<<<M1595>>>" ++ check (runes_of_ascii "packet A  { match

k as
    n
{
1
	:B// c
, // d
  }
    ,
}
")).
Eval vm_compute in ("<<<M1287>>>" ++ check (runes_of_ascii "root packet P {
    repeat string ss,
    repeat u16 ns,
}
")).
Eval vm_compute in ("<<<M1093>>>" ++ check (runes_of_ascii "packet A { repeat // a
 B // b
 b // c
 `d` // e
 , }")).
Eval vm_compute in ("<<<M1218>>>" ++ check (runes_of_ascii "packet body { i32 f32a `{ , }` , } options {
// c
}")).
Eval vm_compute in ("<<<M755>>>" ++ check (runes_of_ascii "string i8 ) } u8 [ uint32 ] } = uint8 '\x00'")).
Eval vm_compute in ("<<<M1240>>>" ++ check (runes_of_ascii "root packet P {
    char c,
    u8 x,
}
")).
Eval vm_compute in ("<<<M1920>>>" ++ check (runes_of_ascii "// top
MetaData u {
    // c2
}// c3")).
Eval vm_compute in ("<<<M1414>>>" ++ check (runes_of_ascii "packet A {
    u8 x `d" ++ [8203]%N ++ runes_of_ascii "`,// c" ++ [8203]%N ++ runes_of_ascii "
}")).
Eval vm_compute in ("<<<M1023>>>" ++ check (runes_of_ascii "packet A {
 u8 x `d" ++ [8239]%N ++ runes_of_ascii "`, // c" ++ [8239]%N ++ runes_of_ascii "
}")).
Eval vm_compute in ("<<<M1711>>>" ++ check (runes_of_ascii "// " ++ [128512]%N ++ runes_of_ascii " emoji
MetaData crc {
}")).
Eval vm_compute in ("<<<M770>>>" ++ check (runes_of_ascii "EJYa-@ZpfaJe_ojrLyZC9M")).
Eval vm_compute in ("<<<M1129>>>" ++ check (runes_of_ascii "
// c
MetaData u { }")).
Eval vm_compute in ("<<<M987>>>" ++ check (runes_of_ascii "// c" ++ [160]%N ++ runes_of_ascii "
packet A {
}")).
Eval vm_compute in ("<<<M1232>>>" ++ check (runes_of_ascii "packet x { } // c
")).
Eval vm_compute in ("<<<M1520>>>" ++ check (runes_of_ascii "packet Packet {
}")).
Eval vm_compute in ("<<<M1837>>>" ++ check (runes_of_ascii "
/// triple")).
Eval vm_compute in ("<<<M1045>>>" ++ check (runes_of_ascii "// c" ++ [8203]%N)).
