From FP Require Import Lexer Parser ShowPT Digest Formatter.
From Coq Require Import String List NArith.
Import ListNotations.
Open Scope string_scope.
Set Printing Width 100000000.
Set Printing Depth 100000000.
Definition show_fres (r : fres) : string :=
  match r with
  | FOk s => "OK:" ++ sh_escaped s ""
  | FErr s => "ERR:" ++ sh_escaped s ""
  | FPanic p => "PANIC:" ++ p
  end.
Definition check (rs : list rune) : string := digest (show_fres (format_res rs)).
Definition full (rs : list rune) : string := show_fres (format_res rs).
Eval vm_compute in ("<<<M1541>>>" ++ check (runes_of_ascii "options {
    MetaDataX = true
}

root packet u8x {
    repeat uint16 u8x `" ++ [28040; 24687; 31867; 22411]%N ++ runes_of_ascii "`,
    @tag(42)
    char[7] trueish @lengthOf(Pad),
    tag @lengthOf(A) `say ""hi""`,
    float rootA,// " ++ [27880; 37322]%N ++ runes_of_ascii "
    Foo,
    repeat uint32 calculatedFrom,
}

root packet u128 {
    repeat Packet metadata,
    repeat zchar[0123456789] len `u8 x,`,
    f32 BodyLength @lengthOf(Z9_) `it's`,
    match crc as Packet {
        0 : i64_,
        [255] : rootA,
        [""a	b"", ""\" ++ [233]%N ++ runes_of_ascii """, ""\" ++ [233]%N ++ runes_of_ascii """, 0, 4294967296] : i8i8,
    },
    @tag(1)
    @calculatedFrom(""\" ++ [233]%N ++ runes_of_ascii """)
    string f32a @calculatedFrom(""abc""),
    repeat As {
        matchKey {
            crc @calculatedFrom(""// no comment""),
        },
        lengthOf `crlf
                line`,
        // a // b
        // a // b
        T Pad `a\`,
        repeat i8i8 charz,// a // b
    },
}

packet packetx {
    @lengthOf(Packet)
    repeat uint8x `line1
        line2`,
    @tag(0123456789)
    string BodyLength @calculatedFrom(""" ++ [28040; 24687]%N ++ runes_of_ascii """),// trailing space 
    zchar[42] MetaDataX,
    char A @lengthOf(tag) `two words`,
    @tag(10)
    @calculatedFrom(""" ++ [28040; 24687]%N ++ runes_of_ascii """)
    @calculatedFrom(""x y"")
    char[7] repeatCount @calculatedFrom(""// no comment""),
    @calculatedFrom(""it's"")
    char[65535] packetx `// not a comment`,
    @leftPad(' ')
    match tag as packetx {
        00 : int,
    },
    @tag(7)
    @lengthOf(float)
    @tag(0123456789)
    Z9_,
    @tag(00)
    tag {
        uint16 MetaDataX,
        u tag `tab	here`,
        float64 Packet @calculatedFrom(""{,}""),
        x_y_z u128,
    },
    char[] msg_type @lengthOf(calculatedFrom) `line1
        line2`,
}

MetaData float {
    uint32 crc,
    charz msg_type,
    u128 crc,
    string stringy `" ++ [233]%N ++ runes_of_ascii "`,
}")).
Eval vm_compute in ("<<<M1828>>>" ++ check (runes_of_ascii "options
    {StringPrefixLenType
	= u16	;  ArrayPrefixLenType	= u16
;
}	packet  SampleBinary { 
uint16 MsgType

`" ++ [28040; 24687; 31867; 22411]%N ++ runes_of_ascii "`
,
u16 
BodyLenght  @lengthOf( Body )

`" ++ [28040; 24687; 20307; 38271; 24230]%N ++ runes_of_ascii "`, match MsgType

as
Body
	{
	1

:Logon
	,
    2 :Logout

,

    3
    :  Heartbeat
, 4:	RiskControlRequest ,5
:  RiskControlResponse
    , } ,
    @calculatedFrom( ""CRC32""  ) u32 Ckecksum
`" ++ [26657; 39564; 21644]%N ++ runes_of_ascii "` , 
} packet Logon
{	@leftPad( 
'0' ) char[ 10

    ] 
UserName

    `" ++ [29992; 25143; 21517]%N ++ runes_of_ascii "` , string Password `" ++ [23494; 30721]%N ++ runes_of_ascii "`
,  uint64  ClientId `" ++ [23458; 25143; 31471]%N ++ runes_of_ascii "ID` ,
u16
    HeartbeatInterval

`" ++ [24515; 36339; 38388; 38548]%N ++ runes_of_ascii "`,
} packet Logout
{@rightPad
    (
	'0')
	char[
10 ]  UserName `" ++ [29992; 25143; 21517]%N ++ runes_of_ascii "`
,

    uint64	ClientId `" ++ [23458; 25143; 31471]%N ++ runes_of_ascii "ID`

,
	} packet
Heartbeat  { } packet
RiskControlRequest
{ string
UniqueOrderId`" ++ [21807; 19968; 35746; 21333; 21495]%N ++ runes_of_ascii "`
,char[
16	]ClOrdID
`" ++ [23458; 25143; 35746; 21333; 21495]%N ++ runes_of_ascii "`
,char[	3
    ]MarketID	`" ++ [24066; 22330]%N ++ runes_of_ascii "id`	,
	char[
	12	]
SecurityID

    `" ++ [35777; 21048; 20195; 30721]%N ++ runes_of_ascii "`	,
	char
Side `" ++ [20080; 21334; 26041; 21521]%N ++ runes_of_ascii "`

,
    char
    OrderType	`" ++ [35746; 21333; 31867; 22411]%N ++ runes_of_ascii "`,u64	Price

    `" ++ [20215; 26684]%N ++ runes_of_ascii "`  ,u32
Qty`" ++ [25968; 37327]%N ++ runes_of_ascii "` ,
repeat  string ExtraInfo`" ++ [38468; 21152; 20449; 24687]%N ++ runes_of_ascii "` 
,	repeat SubOrder

{char[ 16
	] ClOrdID
`" ++ [23376; 35746; 21333; 21495]%N ++ runes_of_ascii "` ,	u64 Price `" ++ [23376; 35746; 21333; 20215; 26684]%N ++ runes_of_ascii "`
,	u32
Qty

`" ++ [23376; 35746; 21333; 25968; 37327]%N ++ runes_of_ascii "`,
    } 
,	}
packet	RiskControlResponse
	{	string
UniqueOrderId

    `" ++ [21807; 19968; 35746; 21333; 21495]%N ++ runes_of_ascii "`, i32
    Status`" ++ [29366; 24577]%N ++ runes_of_ascii "`
	,
	string

    Msg 
`" ++ [32467; 26524; 20449; 24687]%N ++ runes_of_ascii "`

    ,

repeat
Detail
,

} 
packet

    Detail {
    string
RuleName`" ++ [35268; 21017; 21517; 31216]%N ++ runes_of_ascii "`
, 
u16
	Code

    `" ++ [21407; 22240; 20195; 30721]%N ++ runes_of_ascii "` , }
")).
Eval vm_compute in ("<<<M359>>>" ++ check (runes_of_ascii "root	packet // @lengthOf(
repeatCount {
    @lengthOf(u8x
) @calculatedFrom(""1"" ) @tag( 007 ) repeat zchar[
42 ] Header
    `" ++ [28040; 24687; 31867; 22411]%N ++ runes_of_ascii "` , match options1 as asx
{ 255
    // `tick` ""quote"" 'q'
    :
    roots , }, // a // b
Header
    @lengthOf(
    // a // b
    options1	) `` , Header //	t
@lengthOf(
    len )`{ , }`
, o matchKey `u8 x,` ,} packet packetx {zchar[
255
]
crc
    , }
    packet
    Logon {
    body { float { repeat Logon  trueish ,  } , } ,	@calculatedFrom(
    // `tick` ""quote"" 'q'
    ""`tick`"" ) repeat char[
    0] f32a
,match body
    as
    float {[65535
, """ ++ [28040; 24687]%N ++ runes_of_ascii """
    ] :
calculatedFrom ,}
, u32 float@calculatedFrom(
    """ ++ [233]%N ++ runes_of_ascii "t" ++ [233]%N ++ runes_of_ascii """ // @lengthOf(
)
, string body @lengthOf( len
    )`
` //
, u8x
@calculatedFrom( ""a\""b"")
    //	t
    , //	t
float64 options1@calculatedFrom(""" ++ [128512]%N ++ runes_of_ascii """ )`it's`
    ,
//x
// trailing space 
match crc as chars
    {
3
: options1 // @lengthOf(
, [ 10 ] :_x  [ ""{,}""
] :options1
,[ ""CRC32"", ""a\\""  ,
""a\\"" , ""packet"", 7
    // `tick` ""quote"" 'q'
    ]
:
As
    } , i16 msg_type , }")).
Eval vm_compute in ("<<<M1309>>>" ++ check (runes_of_ascii "// top
packet // c0a
  // c0b
A { // c2
u8 // c3a
  // c3b
a , // c5
} // c6a
  // c6b
packet // c7a
  // c7b
B {
    // c9
u16 b // c11
, } // c13a
  // c13b
packet // c14
C
    // c15
{
    // c16
u32
    // c17
c // c18
, // c19a
  // c19b
}
    // c20
root packet // c22a
  // c22b
M // c23
{ u16 Kc
    // c26
,
    // c27
u16 // c28a
  // c28b
Kb , // c30
u16 Ka
    // c32
, match // c34a
  // c34b
Kc // c35
as X
    // c37
{
    // c38
9 // c39
:
    // c40
A
    // c41
, 10 :
    // c44
B
    // c45
,
    // c46
} , match
    // c49
Kb // c50
as // c51a
  // c51b
Y // c52
{ 2 // c54a
  // c54b
:
    // c55
C , // c57
1 // c58
: A , // c61a
  // c61b
} // c62
, // c63a
  // c63b
match
    // c64
Ka as // c66
Z // c67
{
    // c68
1 // c69a
  // c69b
: B // c71a
  // c71b
, // c72
} // c73a
  // c73b
, // c74
A // c75a
  // c75b
, // c76
B
    // c77
,
    // c78
C , // c80
} ")).
Eval vm_compute in ("<<<M280>>>" ++ check (runes_of_ascii "packet	crc{@lengthOf( stringy// a // b
) @leftPad (
'0'
    ) @calculatedFrom(
""packet"" )
repeat char[
    // c
    3]  i64_ // a // b
, match
    options1	as o { 255 :msg_type
,
    ""\n"": MetaDataX , 42: msg_type """ ++ [128512]%N ++ runes_of_ascii """
    : lengthOf,""// no comment"" :falsey , }
/// triple
// trailing space 
, @leftPad( )
    @lengthOf( A
    ) @calculatedFrom( ""x y"" ) uint32// a // b
charz `doc`, len ,@calculatedFrom( ""// no comment"" ) match _x
    //x
    as i64_	{ 65535
    :
    // @lengthOf(
    u8x , } ,
char[]
    a1 // @lengthOf(
, Foo { u8x{ char[]
Logon
    `// not a comment`	,}, match metadata as u128 { // trailing space 
42 : u8x
, 65535 : f32a
    } //x
, asx// " ++ [128512]%N ++ runes_of_ascii " emoji
@lengthOf( matchKey  ) ,} , roots @calculatedFrom( // packet A { u8 x, }
""a\""b"" )
,	zchar[
7] int	, repeat pack	trueish ,
    }
")).
Eval vm_compute in ("<<<M1516>>>" ++ check (runes_of_ascii "

  packet
crc  { @lengthOf(Header) 
repeat

roots  
  // @lengthOf(
	  `a\`  ,@lengthOf(  tag  ) match
	x 
as
	string_ {
[

""a\\""

, ""packet""
]
:Header	""// no comment"" 
  /// triple
: Logon,

    7: 
falsey	, 7

:
metadata [	7 ,
	00
]	:
    // `tick` ""quote"" 'q'
    repeatCount

    3
:

    u

    , }
, 
        //	t
	@lengthOf(
    u128 

    //

// " ++ [27880; 37322]%N ++ runes_of_ascii "

  )
@rightPad('\x00'// c
		)  char[] 
int,
int16 Packet	@lengthOf(
	string_

    )
,  trueish
{repeat
	crc  {  zchar calculatedFrom, },
	}
	, 

// @lengthOf(
	//x

@rightPad (
)

repeat
	_x	pack// " ++ [27880; 37322]%N ++ runes_of_ascii "
	  , @lengthOf( 
    // c
// trailing space 
  chars )repeat  string_ { repeat

    uint8x
`// not a comment`
	,
    } 
, }")).
Eval vm_compute in ("<<<M1238>>>" ++ check (runes_of_ascii "// top
options
    // c0
{
    // c1
zchar
    // c2
=
    // c3
true
    // c4
;
    // c5
Pad
    // c6
=
    // c7
char[
    // c8
00
    // c9
]
    // c10
a1
    // c11
=
    // c12
uint32
    // c13
BodyLength
    // c14
=
    // c15
true
    // c16
;
    // c17
}
    // c18
root
    // c19
packet
    // c20
T
    // c21
{
    // c22
@lengthOf(
    // c23
repeatCount
    // c24
)
    // c25
@tag(
    // c26
1
    // c27
)
    // c28
@calculatedFrom(
    // c29
""a	b""
    // c30
)
    // c31
string
    // c32
stringy
    // c33
@calculatedFrom(
    // c34
""\n""
    // c35
)
    // c36
`u8 x,`
    // c37
,
    // c38
}
    // c39
")).
Eval vm_compute in ("<<<M1312>>>" ++ check (runes_of_ascii "// top
options // c0a
  // c0b
{ // c1a
  // c1b
FixedStringPadChar = // c3
'0' ; } packet
    // c7
Q // c8
{ // c9a
  // c9b
zchar[ // c10a
  // c10b
4 // c11
] // c12
z , // c14
@rightPad ( // c16
'\x00' ) // c18a
  // c18b
char[ 3 // c20a
  // c20b
]
    // c21
n ,
    // c23
char[
    // c24
5
    // c25
] // c26
d // c27
, } // c29a
  // c29b
root
    // c30
packet R
    // c32
{ // c33
Q , // c35a
  // c35b
zchar[ 8 // c37
] // c38
top , // c40a
  // c40b
repeat
    // c41
zchar[
    // c42
2
    // c43
] // c44a
  // c44b
zs
    // c45
, // c46a
  // c46b
} // c47
")).
Eval vm_compute in ("<<<M1364>>>" ++ check (runes_of_ascii "options {
    StringPrefixLenType = u8;
    ArrayPrefixLenType = u8;
    FixedStringPadFromLeft = false;
    FixedStringPadChar = ' ';
}
packet Ack {
    char[] tag7,
}
packet Reject {
    InSym61 {
        repeat Ack,
        zchar[4] f1,
    },
}
packet Logout {
    char[4] clOrdID,
}
root packet Cancel {
    @leftPad(' ') char[10] price,
    u8 x,
    u32 venue @lengthOf(Body),
    match x as Body {
        [92, 175] : Logout,
        26 : Reject,
        144 : Ack,
    },
    u16 count @calculatedFrom(""CRC32""),
}
")).
Eval vm_compute in ("<<<M193>>>" ++ check (runes_of_ascii "
root packet lengthOf{
    char[ 3 ] Pad ,	@rightPad
    (  '0'
)
    crc `doc` ,i32 //x
uint8x
,	zchar { match Logon  as int { [ 0 , """ ++ [233]%N ++ runes_of_ascii "t" ++ [233]%N ++ runes_of_ascii """] :o , ""// no comment"" :len ,
} , asx
{
    //x
    char[	10 ]
u128 // a // b
@lengthOf(  x_y_z)`say ""hi""`, }
/// triple
//
, char[
1 ] A, u// c
chars
    `` , }, repeat matchKey
{ //x
string trueish@calculatedFrom(
    ""a	b""  )  , repeat
    // packet A { u8 x, }
    i8 msg_type `it's` ,	} , /// triple
}
packet float { }")).
Eval vm_compute in ("<<<M1192>>>" ++ check (runes_of_ascii "// top
MetaData
    // c0
uint8x
    // c1
{
    // c2
char[]
    // c3
f32a
    // c4
`// not a comment`
    // c5
,
    // c6
float32
    // c7
roots
    // c8
,
    // c9
char[
    // c10
7
    // c11
]
    // c12
u8x
    // c13
,
    // c14
zchar[
    // c15
10
    // c16
]
    // c17
f32a
    // c18
,
    // c19
u64
    // c20
pack
    // c21
,
    // c22
u16
    // c23
pack
    // c24
,
    // c25
}
    // c26
")).
Eval vm_compute in ("<<<M292>>>" ++ check (runes_of_ascii "packet/// triple
matchKey { float32 float,@calculatedFrom(""a\\""// " ++ [27880; 37322]%N ++ runes_of_ascii "
) @rightPad
( '\x00' )i16 tag  @calculatedFrom(""abc"" ) ,
repeat zchar[255
] pack
    , @lengthOf( Z9_ ) tag , } // trailing space 
root
packet rootA { repeat metadata { Logon , }, @tag( 10)
@lengthOf( A )
@tag( 007)
u32
    options1, match float as u {0123456789 : u8x ,} ,	}// " ++ [27880; 37322]%N ++ runes_of_ascii "
root packet lengthOf { }
")).
Eval vm_compute in ("<<<M178>>>" ++ check (runes_of_ascii "packet // c
As
{@tag( 42
    )
    repeat Logon	uint8x
// " ++ [128512]%N ++ runes_of_ascii " emoji
//
``, repeat int32
    x_y_z ,char[7 // trailing space 
]	pack , repeat string crc
/// triple
// c
`// not a comment`
, @calculatedFrom(
    ""`tick`""
    ) @tag( 1 )match
    // @lengthOf(
    chars as
MetaDataX { 4294967296 : // @lengthOf(
T ,
} /// triple
,
}
")).
Eval vm_compute in ("<<<M205>>>" ++ check (runes_of_ascii "  root packet
    chars{ string T `say ""hi""`
, @tag(
    1  ) body { repeat o { f64 Packet @calculatedFrom( ""a\\"") ,  } , }	,
} packet pack
// @lengthOf(
// a // b
{
@tag( 4294967296 // `tick` ""quote"" 'q'
) repeat char[]
    Logon
    // trailing space 
    , repeat
BodyLength len ,
    // c
    }")).
Eval vm_compute in ("<<<M1322>>>" ++ check (runes_of_ascii "packet

    P1
    { u8

    a 
,
} packet

P2  { 
P1
	,
    }  packet	P3 {	P2  ,

P1	,}
	packet  P4

{ 
repeat  P3
	,

P2,

}root

    packet
    P5 {
P4,

    P3

,

    P1 , u8	K
    ,match
    K as Body {
	4:P4 ,
3

: P3 ,
	2 : P2 , 1
: P1	,
}	,  }")).
Eval vm_compute in ("<<<M190>>>" ++ check (runes_of_ascii "packet // @lengthOf(
f32a
    {	@rightPad (
    '0' ) @lengthOf( BodyLength ) uint8 Foo ``,
    //x
    char[]
    options1 @calculatedFrom(
    ""it's"" ) ,@tag(255/// triple
) uint64
    Header @calculatedFrom( ""abc""
) `
`
,}

")).
Eval vm_compute in ("<<<M1621>>>" ++ check (runes_of_ascii "

  options
{As
=	true
    MetaDataX
    =
    true
}

packet A
{
repeat
	calculatedFrom
`say ""hi""` ,

    }	MetaData crc

    {

u
crc , uint32

body

    ,
    i16  stringy

    `u8 x,`,}
")).
Eval vm_compute in ("<<<M9>>>" ++ check (runes_of_ascii "
options {body = """ ++ [28040; 24687]%N ++ runes_of_ascii """ }	packet matchKey
{string_
// packet A { u8 x, }
// a // b
@lengthOf( f32a) ,	int32 int @lengthOf(u128 )	, tag x_y_z ,}packet BodyLength /// triple
{ }")).
Eval vm_compute in ("<<<M145>>>" ++ check (runes_of_ascii "MetaData //x
Packet
/// triple
// " ++ [27880; 37322]%N ++ runes_of_ascii "
{	u
/// triple
// c
lengthOf `say ""hi""`
    , } MetaData metadata {
    crc chars `crlf
line` , asx f32a /// triple
,
}

")).
Eval vm_compute in ("<<<M478>>>" ++ check (runes_of_ascii "packet uint8x
{ match pack
    as msg_type	{
    0123456789 :	float
}
,
} packet //	t
a1
    { char[ options {packetx
    = '\x00'	; u128= ""a	b""  ; }
")).
Eval vm_compute in ("<<<M506>>>" ++ check (runes_of_ascii "packet uint8x
{ match pack
    as msg_type	{
    0123456789 :	float
}
,
} packet //	t
a1
    { } options {packetx
    = '\x00'	; ; u128= ""a	b""  ; }
")).
Eval vm_compute in ("<<<M422>>>" ++ check (runes_of_ascii "packet uint8x
{ match pack
    as {	msg_type
    0123456789 :	float
}
,
} packet //	t
a1
    { } options {packetx
    = '\x00'	; u128= ""a	b""  ; }
")).
Eval vm_compute in ("<<<M435>>>" ++ check (runes_of_ascii "packet uint8x
{ match pack
    as msg_type	{
    0123456789 	float
}
,
} packet //	t
a1
    { } options {packetx
    = '\x00'	; u128= ""a	b""  ; }
")).
Eval vm_compute in ("<<<M1886>>>" ++ check (runes_of_ascii "root packet packetx {
    char[1] chars @calculatedFrom(""packet"") `say ""hi""`,
}

options {
    asx = 65535
    u = float64
    repeatCount = ""\" ++ [233]%N ++ runes_of_ascii """
}")).
Eval vm_compute in ("<<<M657>>>" ++ check (runes_of_ascii "// @lengthOf(
packet i8i8 { u128 o , }
options { MetaDataX = true;
    BodyLength =""packet"" x_y_z= 007
?crc //x
= ""abc"" ;
    msg_type =
i16 }")).
Eval vm_compute in ("<<<M689>>>" ++ check (runes_of_ascii "// @lengthOf(
packet i8i8 { u128 o , }
options { MetaDataX  true;
    BodyLength =""packet"" x_y_z= 007
crc //x
= ""abc"" ;
    msg_type =
i16 }")).
Eval vm_compute in ("<<<M697>>>" ++ check (runes_of_ascii "// @lengthOf(
packet i8i8 { u128 o , }
, { MetaDataX = true;
    BodyLength =""packet"" x_y_z= 007
crc //x
= ""abc"" ;
    msg_type =
i16 }")).
Eval vm_compute in ("<<<M1296>>>" ++ check (runes_of_ascii "packet A {
    u8 a,
}
packet B {
    u16 b,
}
root packet P {
    u8 K,
    match K as M {
        1 : A,
        1 : B,
    },
}
")).
Eval vm_compute in ("<<<M1261>>>" ++ check (runes_of_ascii "packet B {
    u8 a,
}
root packet P {
    u8 K,
    u64 L @lengthOf(Body),
    match K as Body {
        1 : B,
    },
}
")).
Eval vm_compute in ("<<<M1151>>>" ++ check (runes_of_ascii "MetaData leftPad { chars MetaDataX // c
, } packet repeatCount { char[ 255 ] uint8x `" ++ [233]%N ++ runes_of_ascii "` , } MetaData pack { As Foo , }")).
Eval vm_compute in ("<<<M1183>>>" ++ check (runes_of_ascii "MetaData leftPad { chars MetaDataX , } packet repeatCount { char[ 255 ] uint8x `" ++ [233]%N ++ runes_of_ascii "` , } MetaData pack { As // c
Foo , }")).
Eval vm_compute in ("<<<M239>>>" ++ check (runes_of_ascii "options { lengthOf =3
trueish
// packet A { u8 x, }
// trailing space 
=
    true
; calculatedFrom =
007;} 	 ")).
Eval vm_compute in ("<<<M1269>>>" ++ check (runes_of_ascii "  packet	B
{
u8 a , 
string	s
	,
    }
    root
	packet P

{ u16

L @lengthOf( B ), B
    , 
u8  t ,
}
")).
Eval vm_compute in ("<<<M1604>>>" ++ check (runes_of_ascii "

  packet
A { 
match k

as
n{
	[ ""a"", ""bb"" ,
	""c c""

,
""d""
	, ""e""

    ,
	""f"" 
] :B	2	:  C

}
, }
")).
Eval vm_compute in ("<<<M554>>>" ++ check (runes_of_ascii "
packet packet
    asx {match u128 as lengthOf
{
//	t
// `tick` ""quote"" 'q'
255 : x ,
    } ,	}")).
Eval vm_compute in ("<<<M887>>>" ++ check (runes_of_ascii "packet A {
  match k as n {
    [1, 22, ""c c"", 4, 5, ""f"", 7, 8, ""i"", 10] : B
    2 : C
  },
}")).
Eval vm_compute in ("<<<M388>>>" ++ check (runes_of_ascii "root packet SimpleMessage {
    uint16 MsgType `" ++ [28040; 24687; 31867; 22411]%N ++ runes_of_ascii "`,
    string JsonBody `Json" ++ [23383; 31526; 20018; 28040; 24687; 20307]%N ++ runes_of_ascii "`,
}")).
Eval vm_compute in ("<<<M859>>>" ++ check (runes_of_ascii "packet A {
  match k as n {
    [""a"", 22, ""c c"", 4, ""e"", 66, ""g"", 8] : B
    2 : C
  },
}")).
Eval vm_compute in ("<<<M846>>>" ++ check (runes_of_ascii "packet A {
  match k as n {
    [""a"", 22, ""c c"", 4, ""e"", 66, ""g""] : B
    2 : C
  },
}")).
Eval vm_compute in ("<<<M1414>>>" ++ check (runes_of_ascii "packet A {
    match k as n {
        [""a"", 22, ""c c""] : B,
        2 : C,
    },
}")).
Eval vm_compute in ("<<<M1456>>>" ++ check (runes_of_ascii "  packet

A
{ @tag(
	1

) // a
  @leftPad
(
'0'	)// b
  char[

4	]
x
,}
")).
Eval vm_compute in ("<<<M811>>>" ++ check (runes_of_ascii "packet A {
  match k as n {
    [""a"", ""bb"", 007, ""d""] : B
    2 : C
  },
}")).
Eval vm_compute in ("<<<M454>>>" ++ check (runes_of_ascii "packet uint8x
{ match pack
    as msg_type	{
    0123456789 :	float
}")).
Eval vm_compute in ("<<<M1098>>>" ++ check (runes_of_ascii "packet A {
    match k as n {
        1 : B,
        // c
    },
}")).
Eval vm_compute in ("<<<M778>>>" ++ check (runes_of_ascii "packet A {
  match k as n {
    [1, 22] : B,
    2 : C
  },
}")).
Eval vm_compute in ("<<<M930>>>" ++ check (runes_of_ascii "packet A {
    B b `
`,
    B `
`,
    repeat B bs `
`,
}")).
Eval vm_compute in ("<<<M159>>>" ++ check (runes_of_ascii "root packet x  { roots @calculatedFrom(""a\""b"" ) , }")).
Eval vm_compute in ("<<<M1520>>>" ++ check (runes_of_ascii "packet body {
    i32 f32a `{ , }`,
}

options {
}")).
Eval vm_compute in ("<<<M921>>>" ++ check (runes_of_ascii "MetaData M {
    u8 x `a
b`,
    T t `a
b`,
}")).
Eval vm_compute in ("<<<M1894>>>" ++ check (runes_of_ascii "  root	packet

A{

    u8
x 
`
x`	,
} ")).
Eval vm_compute in ("<<<M1092>>>" ++ check (runes_of_ascii "root // a
 packet // b
 A // c
 { }")).
Eval vm_compute in ("<<<M738>>>" ++ check (runes_of_ascii "\B1ss""~3@|Nr!9$[0mx>ti>t+Fp_cN&")).
Eval vm_compute in ("<<<M1524>>>" ++ check (runes_of_ascii "root

    packet
chars {
}
")).
Eval vm_compute in ("<<<M338>>>" ++ check (runes_of_ascii "root packet
msg_type { }
")).
Eval vm_compute in ("<<<M747>>>" ++ check (runes_of_ascii "true int16 u16 { f32a")).
Eval vm_compute in ("<<<M1061>>>" ++ check (runes_of_ascii "packet A {
}
// c x")).
Eval vm_compute in ("<<<M1012>>>" ++ check (runes_of_ascii "// c" ++ [8232]%N ++ runes_of_ascii "
packet A {
}")).
Eval vm_compute in ("<<<M984>>>" ++ check (runes_of_ascii "packet A {
}// c" ++ [160]%N)).
Eval vm_compute in ("<<<M1682>>>" ++ check (runes_of_ascii "packet x {
}// c")).
Eval vm_compute in ("<<<M1715>>>" ++ check (runes_of_ascii "/// triple")).
Eval vm_compute in ("<<<M157>>>" ++ check (runes_of_ascii "//

")).
