From FP Require Import Lexer Parser ShowPT Digest Formatter.
From Coq Require Import String List NArith.
Import ListNotations.
Open Scope string_scope.
Set Printing Width 100000000.
Set Printing Depth 100000000.
Definition show_fres (r : fres) : string :=
  match r with
  | FOk s => "OK:" ++ sh_escaped s ""
  | FErr s => "ERR:" ++ sh_escaped s ""
  | FPanic p => "PANIC:" ++ p
  end.
Definition check (rs : list rune) : string := digest (show_fres (format_res rs)).
Definition full (rs : list rune) : string := show_fres (format_res rs).
Eval vm_compute in ("<<<M1857>>>" ++ check (runes_of_ascii "options {
    // c1
    LittleEndian = true;
    // c5
    StringPrefixLenType = u8;// c9
    ArrayPrefixLenType = u8;// c13
    FixedStringPadFromLeft = true;
    FixedStringPadChar = '0';
    // c21
}// c22a

// c22b
packet Logon {
    // c25a
    // c25b
    repeat i8 Ref,// c29
    @rightPad( // c31
        '0' // c32a
          // c32b
        )
    char[8] msgKind,// c38
    repeat InOrderid72 {
        u8 Side2,// c44
        uint32 Qty,// c47
        repeat InPrice27 {
            // c50a
            // c50b
            repeat char[4] Acct,// c56
            u64 sym,
            // c59
        },
        zchar[4] clOrdID,
        int16 lastPx,// c69
        InAcct22 {
            // c71
            repeat char[3] OrderId,// c77a
            // c77b
        },
        // c79
    },// c81
    int64 Px,
}// c85

packet Fill {
    // c88a
    // c88b
    uint16 Qty,// c91
    repeat char[1] Flags,
    // c97
    i8 Ref,// c100
}// c101

packet Logout {
    // c104
    @leftPad(
            // c106
        '0'
            // c107
        )
    // c108a
    // c108b
    char[3] x,// c113a
    // c113b
    int8 f1,// c116a
    // c116b
    Logon,
    // c118
    uint16 venue,
    // c121
    zchar[2] Px,
}// c127a

// c127b
packet Reject {
    // c130
}

root packet Leg {
    // c135a
    // c135b
    Fill,// c137
    u16 msgKind,// c140
    match msgKind as Body {
        // c145
        [182, 83] : Fill,
        // c153
        199 : Reject,
        // c157
        137 : Logout,
        35 : Logon,
        // c165
    },// c167a
    // c167b
    u32 lastPx @calculatedFrom(""CRC32""),
    // c173
}// c174a
// c174b")).
Eval vm_compute in ("<<<M1966>>>" ++ check (runes_of_ascii "root packet u8x {
    // trailing space 
    repeat u64 Pad,
    i64_ @calculatedFrom(""x y"") `100% of %d`,
    @calculatedFrom(""a	b"")
    @lengthOf(Header)
    @lengthOf(zchar)
    i32 A @lengthOf(falsey),
    repeat zchar[10] f32a `
    `,
    repeat f64 rootA `line1
    line2`,// packet A { u8 x, }
    match string_ as o {
        65535 : options1,
        // a // b
        // " ++ [128512]%N ++ runes_of_ascii " emoji
        ""// no comment"" : packetx,
        ""\" ++ [233]%N ++ runes_of_ascii """ : lengthOf,
        65535 : BodyLength,
        ""packet"" : a1,
    },
    @tag(4294967296)
    @tag(7)
    @rightPad(	'\x00'
        )
    repeat uint64 i8i8,
    char[42] string_ `// not a comment`,
}

MetaData pack {
    x o `two words`,
    x As,
    uint64 BodyLength `// not a comment`,
    x a1 ``,
    T int `it's`,
}

MetaData falsey {
    Header BodyLength ``,
}

root packet trueish {
    i16 trueish @calculatedFrom(""`tick`"") `line1
    line2`,
    f64 As,
    string T @lengthOf(pack) `100% of %d`,
    @lengthOf(matchKey)
    repeat char[00] lengthOf `line1
    line2`,
    zchar[3] _x @calculatedFrom(""`tick`""),
    // " ++ [27880; 37322]%N ++ runes_of_ascii "
    // trailing space 
    @tag(00)
    //	t
    zchar[4294967296] msg_type,
    repeat body,
    Logon,
    @tag(1)
    @calculatedFrom(""packet"")
    zchar[3] Z9_,
}")).
Eval vm_compute in ("<<<M1884>>>" ++ check (runes_of_ascii "root packet o {
    repeat zchar[65535] o,
    repeat char[0] zchar,
    int64 x `
    `,// a // b
    string msg_type,
    // c
    @leftPad('\x00' )
    repeat calculatedFrom A,
    string Header @lengthOf(a1) `crlf
    line`,
    repeat crc {
        f32 Pad,
        match charz as Logon {
            [
                ""1"", ""CRC32"", """ ++ [28040; 24687]%N ++ runes_of_ascii """, 00, ""1"",
                ""{,}"", """ ++ [28040; 24687]%N ++ runes_of_ascii """, ""{,}""
            ] : uint8x,
            [3, ""CRC32""] : lengthOf,
            42 : u128,
        },
        Z9_,
        float64 u128 `{ , }`,
    },
    u16 calculatedFrom,
    zchar[3] calculatedFrom,
    @tag(10)
    match charz as _x {
        ""abc"" : zchar,
        ""packet"" : roots,
        255 : options1,
        ""1"" : uint8x,
        // 50% %s
    },
}

MetaData len {
    uint8x len,
}

packet options1 {
    @tag(10)
    i8 roots @lengthOf(lengthOf),
    char[1] u128 `" ++ [28040; 24687; 31867; 22411]%N ++ runes_of_ascii "`,
    a1 tag `say ""hi""`,
    string asx `// not a comment`,
}

packet calculatedFrom {
    int64 a1,
    // a // b
    //x
}")).
Eval vm_compute in ("<<<M1356>>>" ++ check (runes_of_ascii "options {
    LittleEndian = false;
    StringPrefixLenType = u16;
    ArrayPrefixLenType = u8;
    FixedStringPadChar = '0';
}
packet Leg {
    zchar[1] Ref,
    repeat string count,
    repeat InMsgkind21 {
        repeat char[2] price,
        uint64 sym,
        zchar[9] msgKind,
    },
    zchar[5] Note,
}
packet Ack {
    u16 seqNo,
    repeat char[1] Acct,
    @leftPad(' ') char[4] msgKind,
    repeat InTag747 {
        Leg,
    },
    repeat string Tail,
    Leg,
}
packet Trade {
    u64 clOrdID,
    repeat InLastpx24 {
        char[10] Note,
        char[3] Qty,
        repeat char[2] Side2,
        Ack,
        repeat InX47 {
            Ack,
        },
    },
}
root packet Heartbeat {
    repeat u64 Acct,
    string lastPx,
    u8 Side2,
    match Side2 as Body {
        2 : Trade,
        157 : Ack,
        46 : Leg,
    },
    u32 sym @calculatedFrom(""CRC32""),
}
")).
Eval vm_compute in ("<<<M1741>>>" ++ check (runes_of_ascii "
packet  Pad

{ match
string_

as
    // c
  // `tick` ""quote"" 'q'
asx 
{7 :

    len
	3
:

    lengthOf,
    [
    1

]

    : charz""{,}"" 
: 
string_ , ""\n"" : tag
    , },
@calculatedFrom(
	""a	b"" )  
      // packet A { u8 x, }
  // " ++ [128512]%N ++ runes_of_ascii " emoji
    i16
calculatedFrom`it's`  , @tag( 
10) repeat 

    // packet A { u8 x, }
o
{repeat	char[]
o`say ""hi""`
	,	int@calculatedFrom(
""a\\"" ) ,	Foo
	{ 
repeat T{f32
	    /// triple
      A

    @lengthOf( charz

)
	,
Logon 
@lengthOf( // c
      pack)`a\`
,
}	,
}
,  
      // " ++ [128512]%N ++ runes_of_ascii " emoji
    //
		}

,

}
options
{
i64_ =

uint32 // trailing space 
  ;	falsey =	""a	b""
;  BodyLength 
    /// triple
  // c
		=  '0'  ; lengthOf

=
""" ++ [28040; 24687]%N ++ runes_of_ascii """  ;
repeatCount = 
// @lengthOf(
u64} ")).
Eval vm_compute in ("<<<M19>>>" ++ check (runes_of_ascii "options {i64_ = ' ' ;As //	t
= ""x y""
    _x= f64 } packet asx
    {
    string i8i8
    , } // 50% %s
packet float
    {// 50% %s
repeat char[ 1
    ] trueish,  body
@lengthOf( string_ )`two words` ,@calculatedFrom(""CRC32"") i8 u
@lengthOf( uint8x ) ,
    // trailing space 
    @leftPad
    () repeat
    uint8x `` , body tag`tab	here`
    ,
string
    chars
    `tab	here`, @tag(
0
) asx , } // `tick` ""quote"" 'q'
root packet//	t
u128//	t
{
} MetaData// `tick` ""quote"" 'q'
x_y_z  { int32 u128 , len calculatedFrom	, char[ 0 ]
    /// triple
    _x
`a\` , zchar[ 1
    ]
    x
    , string  MetaDataX `{ , }`
    // trailing space 
    ,
}
")).
Eval vm_compute in ("<<<M1158>>>" ++ check (runes_of_ascii "// top
MetaData // c0a
  // c0b
msg_type // c1
{ int32
    // c3
As // c4a
  // c4b
`crlf
line` // c5a
  // c5b
,
    // c6
MetaDataX // c7a
  // c7b
x
    // c8
`a\` // c9a
  // c9b
, // c10a
  // c10b
int8 // c11
_x // c12a
  // c12b
, // c13a
  // c13b
char[]
    // c14
As
    // c15
`u8 x,` // c16a
  // c16b
,
    // c17
zchar[ // c18
3 // c19
] // c20
uint8x // c21a
  // c21b
, // c22a
  // c22b
As // c23a
  // c23b
Foo
    // c24
, // c25a
  // c25b
} // c26
root // c27a
  // c27b
packet // c28a
  // c28b
repeatCount // c29a
  // c29b
{ // c30
} // c31
")).
Eval vm_compute in ("<<<M1699>>>" ++ check (runes_of_ascii "options
	{
string_ = 
float64 
;	} root
    packet BodyLength

{ Header	,
	i16
	Foo,lengthOf

    @calculatedFrom(
""`tick`""  )//
`// not a comment`	,
	@lengthOf(	charz) // " ++ [128512]%N ++ runes_of_ascii " emoji
	repeat
	u32  a1
	,calculatedFrom

{
f64

    chars 
@lengthOf( 
a1	)

    `u8 x,`	,}
	,

    repeat

    i8	_x	`
`	,  }
options 
{ }
MetaData 
i8i8  {	// trailing space 
    	MetaDataX
    A ,

string

    asx ,
    Packet Pad
	`say ""hi""` ,
u128 stringy ,	i64 _x  // " ++ [27880; 37322]%N ++ runes_of_ascii "
	,
	}

    packet
    x

{
}
")).
Eval vm_compute in ("<<<M322>>>" ++ check (runes_of_ascii "// `tick` ""quote"" 'q'
root packet uint8x {@leftPad	() matchKey@lengthOf(repeatCount ),
    // @lengthOf(
    @tag( 10 ) zchar[ 65535 ] u
    , char[]
x_y_z ,char[] /// triple
tag @calculatedFrom( ""a\""b"") ,
@tag(	65535)
@calculatedFrom(
""a	b"" // 50% %s
)
    @calculatedFrom( ""`tick`""
) body @lengthOf(
    falsey ) //	t
``, @calculatedFrom(	""" ++ [28040; 24687]%N ++ runes_of_ascii """
    // `tick` ""quote"" 'q'
    )  @calculatedFrom( ""a\""b"")
Pad , u16
matchKey
    /// triple
    , }")).
Eval vm_compute in ("<<<M297>>>" ++ check (runes_of_ascii "packet uint8x{ @calculatedFrom(""" ++ [233]%N ++ runes_of_ascii "t" ++ [233]%N ++ runes_of_ascii """)int16 x_y_z
// trailing space 
//x
,repeatCount , Logon  { repeat // c
i8 Packet //
`// not a comment`
, } , @rightPad (  '0'// trailing space 
)string msg_type
, @calculatedFrom( ""`tick`"")
repeat
Z9_// " ++ [128512]%N ++ runes_of_ascii " emoji
repeatCount
//
// trailing space 
, o `doc`
, i64_ Pad , match
repeatCount as
roots {[
// packet A { u8 x, }
// " ++ [27880; 37322]%N ++ runes_of_ascii "
42,007 ] :
    // packet A { u8 x, }
    i8i8 ,
}, }
")).
Eval vm_compute in ("<<<M84>>>" ++ check (runes_of_ascii "
options
{T = """ ++ [28040; 24687]%N ++ runes_of_ascii """ ; string_
// @lengthOf(
// 50% %s
=
false; f32a
    = 0123456789 ; Z9_ = 255} MetaData
chars // " ++ [27880; 37322]%N ++ runes_of_ascii "
{ float32	charz
    `{ , }` ,// @lengthOf(
zchar[
    1
] u8x`100% of %d`
, uint16 asx `two words`
,
    char[ 4294967296 ]	Header
    , i32 Logon , char[
0123456789 ]// c
crc, } packet /// triple
options1 { falsey	`crlf
line`
,
// `tick` ""quote"" 'q'
/// triple
}")).
Eval vm_compute in ("<<<M1159>>>" ++ check (runes_of_ascii "// top
MetaData // c0
x // c1
{ // c2
f32a // c3
Pad // c4
`` // c5
, // c6
} // c7
packet // c8
leftPad // c9
{ // c10
repeat // c11
int64 // c12
crc // c13
, // c14
BodyLength // c15
{ // c16
uint8 // c17
pack // c18
`say ""hi""` // c19
, // c20
lengthOf // c21
@lengthOf( // c22
asx // c23
) // c24
`" ++ [28040; 24687; 31867; 22411]%N ++ runes_of_ascii "` // c25
, // c26
} // c27
, // c28
} // c29
")).
Eval vm_compute in ("<<<M1863>>>" ++ check (runes_of_ascii "packet A
	{
	u8  a, }
packet B 
{

u16
    b
,

}  packet C

{

u32

c 
, 
}
root 
packet
M 
{
    u16

Kc
	, u16
    Kb 
,
	u16	Ka, match

    Kc

    as
    X  {
	9:
A
,

    10:
B  ,
	} ,
match Kb

    as Y	{ 
2 :C

,
1
:	A  , }	,
    match
Ka as 
Z
	{  1:
    B

, },  A

,

    B

    ,	C, } ")).
Eval vm_compute in ("<<<M1198>>>" ++ check (runes_of_ascii "// top
options // c0
{ // c1
} // c2
options // c3
{ // c4
MetaDataX // c5
= // c6
char // c7
; // c8
} // c9
MetaData // c10
Pad // c11
{ // c12
i8 // c13
metadata // c14
, // c15
string // c16
stringy // c17
, // c18
int8 // c19
As // c20
`{ , }` // c21
, // c22
} // c23
")).
Eval vm_compute in ("<<<M402>>>" ++ check (runes_of_ascii "packet
    asx { @calculatedFrom( @calculatedFrom(
""""  ) @tag( 255 )repeat
// packet A { u8 x, }
// trailing space 
int16 u8x
,
@tag(
    //
    007 )
    @tag( 0
    /// triple
    ) @tag( 1) u
    @lengthOf( T ),
// `tick` ""quote"" 'q'
//x
} // " ++ [128512]%N ++ runes_of_ascii " emoji")).
Eval vm_compute in ("<<<M439>>>" ++ check (runes_of_ascii "packet
    asx { @calculatedFrom(
""""  ) @tag( 255 )repeat
// packet A { u8 x, }
// trailing space 
`tab	here` u8x
,
@tag(
    //
    007 )
    @tag( 0
    /// triple
    ) @tag( 1) u
    @lengthOf( T ),
// `tick` ""quote"" 'q'
//x
} // " ++ [128512]%N ++ runes_of_ascii " emoji")).
Eval vm_compute in ("<<<M530>>>" ++ check (runes_of_ascii "packet
    ~ asx { @calculatedFrom(
""""  ) @tag( 255 )repeat
// packet A { u8 x, }
// trailing space 
int16 u8x
,
@tag(
    //
    007 )
    @tag( 0
    /// triple
    ) @tag( 1) u
    @lengthOf( T ),
// `tick` ""quote"" 'q'
//x
} // " ++ [128512]%N ++ runes_of_ascii " emoji")).
Eval vm_compute in ("<<<M449>>>" ++ check (runes_of_ascii "packet
    asx { @calculatedFrom(
""""  ) @tag( 255 )repeat
// packet A { u8 x, }
// trailing space 
int16 u8x
]
@tag(
    //
    007 )
    @tag( 0
    /// triple
    ) @tag( 1) u
    @lengthOf( T ),
// `tick` ""quote"" 'q'
//x
} // " ++ [128512]%N ++ runes_of_ascii " emoji")).
Eval vm_compute in ("<<<M491>>>" ++ check (runes_of_ascii "packet
    asx { @calculatedFrom(
""""  ) @tag( 255 )repeat
// packet A { u8 x, }
// trailing space 
int16 u8x
,
@tag(
    //
    007 )
    @tag( 0
    /// triple
    ) @tag( 1 u
    @lengthOf( T ),
// `tick` ""quote"" 'q'
//x
} // " ++ [128512]%N ++ runes_of_ascii " emoji")).
Eval vm_compute in ("<<<M1302>>>" ++ check (runes_of_ascii "// top
root // c0
packet // c1
P // c2a
  // c2b
{ // c3a
  // c3b
u8 // c4a
  // c4b
s_u8 // c5a
  // c5b
, repeat
    // c7
u8 // c8a
  // c8b
r_u8 // c9a
  // c9b
,
    // c10
u16
    // c11
b_len // c12
, // c13a
  // c13b
} ")).
Eval vm_compute in ("<<<M148>>>" ++ check (runes_of_ascii "packet zchar
    {
@lengthOf(
charz
    ) zchar @lengthOf(Header ) `
`
    , u8 calculatedFrom ,	@calculatedFrom(  ""x y""	) u128 @calculatedFrom( ""it's""  )
    ,  }options {float=	007
    uint8x =
""`tick`"" ;  }
")).
Eval vm_compute in ("<<<M229>>>" ++ check (runes_of_ascii "options {
    }packet u128 // 50% %s
{@tag(
// `tick` ""quote"" 'q'
// " ++ [27880; 37322]%N ++ runes_of_ascii "
255 ) @tag( // `tick` ""quote"" 'q'
0
    )  Packet , } packet u8x { o, }
packet  As { repeat
    msg_type Header , }
")).
Eval vm_compute in ("<<<M657>>>" ++ check (runes_of_ascii "MetaData u
    { } MetaData o
{ float uint8x
`100% of %d` ,repeatCount u8x, string_ leftPad
, i32
    Foo , int64 x `two words` `two words` , calculatedFrom
stringy `a\` ,
}
")).
Eval vm_compute in ("<<<M637>>>" ++ check (runes_of_ascii "MetaData u
    { } MetaData o
{ float uint8x
`100% of %d` ,repeatCount u8x, string_ leftPad
, i32
    Foo Foo , int64 x `two words` , calculatedFrom
stringy `a\` ,
}
")).
Eval vm_compute in ("<<<M694>>>" ++ check (runes_of_ascii "MetaData u
    { } MetaData o
{ float uint8x
`100% of %d` ' ,repeatCount u8x, string_ leftPad
, i32
    Foo , int64 x `two words` , calculatedFrom
stringy `a\` ,
}
")).
Eval vm_compute in ("<<<M603>>>" ++ check (runes_of_ascii "MetaData u
    { } MetaData o
{ float uint8x
`100% of %d` ,u8x repeatCount, string_ leftPad
, i32
    Foo , int64 x `two words` , calculatedFrom
stringy `a\` ,
}
")).
Eval vm_compute in ("<<<M651>>>" ++ check (runes_of_ascii "MetaData u
    { } MetaData o
{ float uint8x
`100% of %d` ,repeatCount u8x, string_ leftPad
, i32
    Foo , int64  `two words` , calculatedFrom
stringy `a\` ,
}
")).
Eval vm_compute in ("<<<M594>>>" ++ check (runes_of_ascii "MetaData u
    { } MetaData o
{ float uint8x
zchar[ ,repeatCount u8x, string_ leftPad
, i32
    Foo , int64 x `two words` , calculatedFrom
stringy `a\` ,
}
")).
Eval vm_compute in ("<<<M1819>>>" ++ check (runes_of_ascii "

  options  { 
LittleEndian
	=	true 
;
    }

packet 
B {
u8

a,
string
s  ,
	}root

    packet
    P
	{
u16
L@lengthOf(	B)
,

    B,u8
	t 
,
	}

")).
Eval vm_compute in ("<<<M1528>>>" ++ check (runes_of_ascii "packet A {
    match k as n {
        [
            ""a"", ""bb"", 007, ""d"", ""e"",
            66, ""g"", ""h""
        ] : B,
        2 : C,
    },
}")).
Eval vm_compute in ("<<<M1281>>>" ++ check (runes_of_ascii "options {
    LittleEndian = true;
}
packet B {
    u8 a,
    string s,
}
root packet P {
    u16 L @lengthOf(B),
    B,
    u8 t,
}
")).
Eval vm_compute in ("<<<M1940>>>" ++ check (runes_of_ascii "options {
}

options {
    MetaDataX = char;// c
}

MetaData Pad {
    i8 metadata,
    string stringy,
    int8 As `{ , }`,
}")).
Eval vm_compute in ("<<<M278>>>" ++ check (runes_of_ascii "options { A =
""\n""
    ; // @lengthOf(
len = ' ' ;body =
4294967296
    ;	int=3 charz ='0' }
// packet A { u8 x, }
")).
Eval vm_compute in ("<<<M1214>>>" ++ check (runes_of_ascii "options { } options { MetaDataX
// c
= char ; } MetaData Pad { i8 metadata , string stringy , int8 As `{ , }` , }")).
Eval vm_compute in ("<<<M1246>>>" ++ check (runes_of_ascii "options { } options { MetaDataX = char ; } MetaData Pad { i8 metadata , string stringy , int8 As `{ , }`
// c
, }")).
Eval vm_compute in ("<<<M947>>>" ++ check (runes_of_ascii "packet A {
    u16 len @lengthOf(body) `x
`,
    u32 crc @calculatedFrom(""CRC32"") `x
`,
    string body,
}")).
Eval vm_compute in ("<<<M964>>>" ++ check (runes_of_ascii "packet A {
    B b `100% of %s %d %v`,
    B `100% of %s %d %v`,
    repeat B bs `100% of %s %d %v`,
}")).
Eval vm_compute in ("<<<M1809>>>" ++ check (runes_of_ascii "packet
Inner

{

    u8 a 
,
}

    root packet  P{ repeat  Inner

    items
,u8
	x
,
}
")).
Eval vm_compute in ("<<<M120>>>" ++ check (runes_of_ascii "options { T = 42 packetx
    = true //	t
;x_y_z = char[] ;trueish // trailing space 
=
u16 }")).
Eval vm_compute in ("<<<M854>>>" ++ check (runes_of_ascii "packet A {
  match k as n {
    [1, ""bb"", 007, ""d"", 5, ""f"", 7, ""h""] : B,
    2 : C
  },
}")).
Eval vm_compute in ("<<<M985>>>" ++ check (runes_of_ascii "packet A {
    u32 crc @calculatedFrom(""x\
y""),
    @calculatedFrom(""x\
y"") u8 y,
}")).
Eval vm_compute in ("<<<M12>>>" ++ check (runes_of_ascii "options
    { x = ""a\\""; } MetaData u {u8
falsey ,
    crc zchar , }
/// triple
")).
Eval vm_compute in ("<<<M1623>>>" ++ check (runes_of_ascii "
packet
	A { match
    k
	as  n 
{ [ 
1 ,	""bb"" ,  007
] 
:
B	,2 : C }	,

} ")).
Eval vm_compute in ("<<<M804>>>" ++ check (runes_of_ascii "packet A {
  match k as n {
    [""a"", 22, ""c c"", 4] : B,
    2 : C
  },
}")).
Eval vm_compute in ("<<<M792>>>" ++ check (runes_of_ascii "packet A {
  match k as n {
    [""a"", 22, ""c c""] : B
    2 : C
  },
}")).
Eval vm_compute in ("<<<M786>>>" ++ check (runes_of_ascii "packet A {
  match k as n {
    [1, 22, 007] : B
    2 : C
  },
}")).
Eval vm_compute in ("<<<M1121>>>" ++ check (runes_of_ascii "// top
MetaData
    // c0
tag
    // c1
{ // c2
}
    // c3
")).
Eval vm_compute in ("<<<M205>>>" ++ check (runes_of_ascii "
options { f32a =
true
    // " ++ [128512]%N ++ runes_of_ascii " emoji
    ; } // " ++ [128512]%N ++ runes_of_ascii " emoji")).
Eval vm_compute in ("<<<M1104>>>" ++ check (runes_of_ascii "packet A { B { // a
 u8 x, // b
 } // c
 , // d
 }")).
Eval vm_compute in ("<<<M1646>>>" ++ check (runes_of_ascii "options {

    // c
A  =
	""// no comment""
} ")).
Eval vm_compute in ("<<<M1749>>>" ++ check (runes_of_ascii "
packet

    A {u8	x
    `x
` ,
    }")).
Eval vm_compute in ("<<<M1183>>>" ++ check (runes_of_ascii "options // c
{ A = ""// no comment"" }")).
Eval vm_compute in ("<<<M737>>>" ++ check (runes_of_ascii ") ""\n"" char repeat repeat ; char[")).
Eval vm_compute in ("<<<M1007>>>" ++ check (runes_of_ascii "packet A {
 u8 x `d" ++ [160]%N ++ runes_of_ascii "`, // c" ++ [160]%N ++ runes_of_ascii "
}")).
Eval vm_compute in ("<<<M1788>>>" ++ check (runes_of_ascii "options {
    asx = false;
}")).
Eval vm_compute in ("<<<M1802>>>" ++ check (runes_of_ascii "packet
A
    {} 	 // c" ++ [8233]%N)).
Eval vm_compute in ("<<<M1125>>>" ++ check (runes_of_ascii "MetaData
// c
tag { }")).
Eval vm_compute in ("<<<M1020>>>" ++ check (runes_of_ascii "packet A {
}
// c" ++ [8192]%N)).
Eval vm_compute in ("<<<M993>>>" ++ check (runes_of_ascii "packet A {
}// c ")).
Eval vm_compute in ("<<<M1495>>>" ++ check (runes_of_ascii "packet rootA {
}")).
Eval vm_compute in ("<<<M1079>>>" ++ check (runes_of_ascii "// c x")).
Eval vm_compute in ("<<<M725>>>" ++ check (runes_of_ascii "")).
