From FP Require Import Lexer Parser ShowPT Digest Formatter.
From Coq Require Import String List NArith.
Import ListNotations.
Open Scope string_scope.
Set Printing Width 100000000.
Set Printing Depth 100000000.
Definition show_fres (r : fres) : string :=
  match r with
  | FOk s => "OK:" ++ sh_escaped s ""
  | FErr s => "ERR:" ++ sh_escaped s ""
  | FPanic p => "PANIC:" ++ p
  end.
Definition check (rs : list rune) : string := digest (show_fres (format_res rs)).
Definition full (rs : list rune) : string := show_fres (format_res rs).
Eval vm_compute in ("<<<M317>>>" ++ check (runes_of_ascii "MetaData Logon
    {
    char[]u8x , matchKey pack,
u8 int ``, char[ 007
    ]
msg_type ,
BodyLength o	,string_ crc  `a\`, } options	{
    //x
    trueish = int16 Packet
    = char MetaDataX=
char[
//
// trailing space 
255 ] // a // b
;}	root
    //
    packet a1 // packet A { u8 x, }
{ } root packet // c
MetaDataX{
@lengthOf(_x)
repeat
Logon{// " ++ [128512]%N ++ runes_of_ascii " emoji
o
a1 , uint64
    u128 ,  } ,zchar[007] chars
    `line1
line2` ,	repeat Header u128`doc`, // " ++ [128512]%N ++ runes_of_ascii " emoji
@calculatedFrom(""1"")int
trueish
, char[0123456789
    ]
uint8x,
i8 int	@lengthOf( msg_type )`line1
line2`
,
    //x
    @rightPad (
) repeat f64 Z9_, metadata{ falsey @calculatedFrom(
""abc""
) , }, options1 @calculatedFrom( ""\n"" ) ,@calculatedFrom(	""\n"" )  match metadata
    as Header {[
    """" ,  ""1"" ] :	Foo //
, [  ""\n""
, 10
,
// " ++ [27880; 37322]%N ++ runes_of_ascii "
// c
""{,}"" ]
: Logon
,
[
    """"] :
len
, ""\n""  :// trailing space 
msg_type , [ // c
00 ]
    : trueish , 10 : u8x, }
    ,
    } // " ++ [27880; 37322]%N ++ runes_of_ascii "
root
packet
    BodyLength
    { char[42
] body  @calculatedFrom(
    ""{,}"" ) `tab	here` // trailing space 
,
i32
stringy  @calculatedFrom( """ ++ [28040; 24687]%N ++ runes_of_ascii """ ),  @tag(  0123456789	)
@rightPad ( )@tag( 00 )  i16 a1 @lengthOf( pack// a // b
) ,
    @tag( 10
)
@leftPad ('\x00' ) // `tick` ""quote"" 'q'
@calculatedFrom( ""a\""b"" ) repeat char[] // c
stringy `
`	, chars `say ""hi""`,
@lengthOf(  a1 ) @leftPad( '0'  )
    match Z9_
as Header { 00
    //	t
    : As ,
} // " ++ [27880; 37322]%N ++ runes_of_ascii "
, o @calculatedFrom( """ ++ [128512]%N ++ runes_of_ascii """
    )
, @leftPad //	t
(	)As// trailing space 
@calculatedFrom( ""// no comment"") ,
match x_y_z  as
    BodyLength {
""x y"" // `tick` ""quote"" 'q'
:BodyLength
, """ ++ [28040; 24687]%N ++ runes_of_ascii """  : packetx  , 0 :
    Header ,
    ""x y"" : matchKey
    //	t
    ,}, } // trailing space ")).
Eval vm_compute in ("<<<M43>>>" ++ check (runes_of_ascii "packet asx {
    leftPad@calculatedFrom( """ ++ [233]%N ++ runes_of_ascii "t" ++ [233]%N ++ runes_of_ascii """ ) , @leftPad
(  '0')
    // trailing space 
    u8x As `crlf
line` ,char[ 3 ] asx @calculatedFrom( ""{,}"" )  ,
// @lengthOf(
// trailing space 
repeat u128  { int {packetx @calculatedFrom( ""packet"" )
    ,	match
T as  T
{ ""a	b""
: o , } , zchar[ 00
    ]lengthOf
`{ , }` ,
/// triple
// trailing space 
char[] crc @calculatedFrom( ""abc"" )
, } , Header	@calculatedFrom( """ ++ [233]%N ++ runes_of_ascii "t" ++ [233]%N ++ runes_of_ascii """ )
`two words` ,
repeat uint8 uint8x , repeat
    //
    char[0123456789 ]float`u8 x,`,} ,
packetx x `say ""hi""` , @rightPad ( )
i8i8
    @calculatedFrom( ""x y""), @leftPad
    ( ) BodyLength {repeat	int32
_x ``  , i8 msg_type
`doc` //
, }, }
// `tick` ""quote"" 'q'
// packet A { u8 x, }
packet body { }	packet	repeatCount{zchar[  3 ] Packet, @lengthOf( // @lengthOf(
Header  )
    i64
// c
// c
Packet `two words` ,
zchar[ 65535
]calculatedFrom `tab	here`//	t
, match x as leftPad
    { ""// no comment"": rootA
    , ""`tick`"" :
o,
}
,// " ++ [128512]%N ++ runes_of_ascii " emoji
zchar[ //	t
3 ]
// packet A { u8 x, }
// " ++ [27880; 37322]%N ++ runes_of_ascii "
u128 @calculatedFrom( ""{,}"" ) `{ , }`
    ,
}
    //	t
    options { u = char[ 42 ] // " ++ [27880; 37322]%N ++ runes_of_ascii "
metadata
=""a\\""
;  Logon =
string ; Z9_ = u16
;  }
")).
Eval vm_compute in ("<<<M1898>>>" ++ check (runes_of_ascii "  MetaData	len {
i8
_x 
        //	t
      `` ,  zchar[  00]
tag 
,

roots

    u

    // `tick` ""quote"" 'q'
    ,

    uint16  repeatCount, 
msg_type tag ,
    } packet x_y_z

{ metadata
{ i8i8

chars 
,
	i64	chars
,
	}

    ,	repeat 
u16 asx 
    // a // b
    // a // b
	,
}
packet 
u8x
	{@lengthOf(
	BodyLength

) @leftPad
	( 
    // a // b
	  //
  )

    float  
  /// triple

	`
`  ,
    @calculatedFrom(
""// no comment""	) float32  // " ++ [128512]%N ++ runes_of_ascii " emoji
    chars	`// not a comment`
    ,
uint32  u128

    ,@tag(
0 
)int16 tag ,
leftPad	msg_type
    ,// trailing space 
  pack
`tab	here` 
, @lengthOf(

repeatCount 
// c
		// c
	) 
zchar[
4294967296

    ]

    len
	,

    i32	packetx  `tab	here`, calculatedFrom,metadata
@calculatedFrom( ""// no comment"" )

,

    } options  {	// trailing space 
	options1
	= 
42

    ; i64_ 
  // a // b
  = char[]
	falsey
= 
    // packet A { u8 x, }
  //	t
42 // a // b
    Packet 
=

true 
;  }

")).
Eval vm_compute in ("<<<M196>>>" ++ check (runes_of_ascii "root  packet u { match //x
T as body// c
{
[
""a\""b""
    , 3 ] :
stringy  ""a	b"" : charz // a // b
,
    10:  lengthOf// " ++ [128512]%N ++ runes_of_ascii " emoji
, ""CRC32"" : falsey
,
    0123456789 : _x ,
    } , body @lengthOf( i64_ )
, u64 chars
`u8 x,` ,T {i64_ string_,
    u32 metadata , zchar[ 1
]Z9_,}
    // c
    ,@calculatedFrom( ""a\\"" ) rootA // " ++ [128512]%N ++ runes_of_ascii " emoji
x_y_z
`u8 x,` ,
    zchar[ 007 ]body @calculatedFrom(
""\n""
) ,
    @leftPad (
'0') @rightPad
    ( '0' )
@calculatedFrom( """ ++ [233]%N ++ runes_of_ascii "t" ++ [233]%N ++ runes_of_ascii """
    )	repeat uint64 A	, repeat  u8x
    { match
o
as
x
    {
    10	:charz
// " ++ [27880; 37322]%N ++ runes_of_ascii "
// " ++ [27880; 37322]%N ++ runes_of_ascii "
,""a	b"": matchKey
, ""x y""
:
    trueish ,[ """ ++ [233]%N ++ runes_of_ascii "t" ++ [233]%N ++ runes_of_ascii """ ] : zchar,""1"" : charz // " ++ [27880; 37322]%N ++ runes_of_ascii "
,
[ ""a\""b"" ,
""abc""
, ""a\\"", ""abc"" ,
// packet A { u8 x, }
// " ++ [128512]%N ++ runes_of_ascii " emoji
""""
// packet A { u8 x, }
/// triple
] : u8x, } ,	},repeat falsey { rootA
    tag ,
    zchar[/// triple
0 ] falsey ,  }
    , charz a1 `{ , }`
, } root
packet /// triple
Header{}
")).
Eval vm_compute in ("<<<M362>>>" ++ check (runes_of_ascii "MetaData len
{i8 _x
    //	t
    `` , zchar[ 00 ] tag , roots
u
    // `tick` ""quote"" 'q'
    ,uint16 repeatCount , msg_type tag , } packet x_y_z
    {
metadata { i8i8 chars
,i64
chars , }
, repeat u16 asx
// a // b
// a // b
,
}	packet u8x  { @lengthOf( BodyLength	)	@leftPad(
// a // b
//
)float
    /// triple
    `
` ,
@calculatedFrom( ""// no comment"" ) float32 // " ++ [128512]%N ++ runes_of_ascii " emoji
chars`// not a comment` , uint32
u128 , @tag( 0 )
int16	tag , leftPad
    msg_type , // trailing space 
pack
    `tab	here` ,
@lengthOf(
repeatCount
// c
// c
)zchar[ 4294967296 ] len, i32 packetx`tab	here` , calculatedFrom ,metadata @calculatedFrom(
""// no comment"" ) , } options { // trailing space 
options1 = 42 ; i64_
    // a // b
    = char[] falsey=
// packet A { u8 x, }
//	t
42 // a // b
Packet =
true
;}
")).
Eval vm_compute in ("<<<M1371>>>" ++ check (runes_of_ascii "// top
options // c0
{ LittleEndian // c2
= true // c4a
  // c4b
; // c5
} // c6a
  // c6b
packet // c7
Logon
    // c8
{
    // c9
u8 // c10a
  // c10b
x // c11a
  // c11b
, string // c13a
  // c13b
user // c14
, // c15a
  // c15b
} packet // c17a
  // c17b
Logout {
    // c19
u16
    // c20
reason
    // c21
, // c22
} // c23a
  // c23b
packet
    // c24
Empty // c25a
  // c25b
{ } root // c28
packet
    // c29
Frame // c30a
  // c30b
{
    // c31
u16
    // c32
MsgType ,
    // c34
u8 // c35a
  // c35b
BodyLen // c36a
  // c36b
@lengthOf( Body // c38
) , // c40a
  // c40b
u8
    // c41
flags // c42a
  // c42b
, // c43
Logon
    // c44
Body
    // c45
, // c46
u32 trailer // c48a
  // c48b
,
    // c49
} ")).
Eval vm_compute in ("<<<M6>>>" ++ check (runes_of_ascii "// `tick` ""quote"" 'q'
packet As
{ @rightPad ( '0' ) stringy
@lengthOf( calculatedFrom),	@tag( 10	) string uint8x `
` ,	match body // packet A { u8 x, }
as uint8x {
    ""it's"" :  rootA , [ 00 ] : leftPad
    ,
42 :	MetaDataX , ""a	b"" :  calculatedFrom
    255
:trueish	} , repeat	i64 Logon `tab	here` , } options {crc
= '\x00' ;}
packet x { @calculatedFrom(
""a\\""
    )
@tag( 42
) @leftPad	( '0' // c
) match o	as /// triple
x_y_z {// packet A { u8 x, }
[ """ ++ [128512]%N ++ runes_of_ascii """// trailing space 
, ""x y"" , // c
0123456789 ,""CRC32"" ,
//	t
// packet A { u8 x, }
""it's""
, 007
, 3, 007 // @lengthOf(
] :	Packet // c
[	255, ""x y""
    ] :x_y_z
    ,
} , }
// trailing space 
")).
Eval vm_compute in ("<<<M260>>>" ++ check (runes_of_ascii "packet metadata{ @rightPad
    (	) zchar[
//	t
// `tick` ""quote"" 'q'
0123456789] i64_
    // @lengthOf(
    @calculatedFrom( ""\n"" ) , @leftPad (
    ' '// " ++ [27880; 37322]%N ++ runes_of_ascii "
) zchar[ // `tick` ""quote"" 'q'
255
]
    MetaDataX `{ , }`// a // b
, @rightPad (
' ' )@calculatedFrom(""abc"" ) // " ++ [128512]%N ++ runes_of_ascii " emoji
@lengthOf(
matchKey
// `tick` ""quote"" 'q'
// `tick` ""quote"" 'q'
)
repeat char[ 42 ] packetx // packet A { u8 x, }
`" ++ [233]%N ++ runes_of_ascii "` ,  trueish@calculatedFrom( ""packet"" )
`a\` , matchKey int `" ++ [28040; 24687; 31867; 22411]%N ++ runes_of_ascii "` ,	@tag(
    // c
    0
) len{ char[65535 ] Header,
}
,@lengthOf( f32a ) zchar[	10  ]
    trueish `crlf
line` ,  }
")).
Eval vm_compute in ("<<<M1374>>>" ++ check (runes_of_ascii "packet Sub { // c2a
  // c2b
u8 a
    // c4
, // c5
@calculatedFrom( ""CRC16"" // c7
)
    // c8
i32 // c9a
  // c9b
SubSum
    // c10
, }
    // c12
root packet // c14
Frame // c15a
  // c15b
{ // c16a
  // c16b
u16 // c17a
  // c17b
MsgType // c18a
  // c18b
, // c19
u16 BodyLen // c21a
  // c21b
@lengthOf( // c22
Body // c23
) // c24
, Sub Body
    // c27
, // c28
string note // c30
,
    // c31
@calculatedFrom( // c32
""CRC16"" ) // c34
i32 // c35
Checksum // c36
, u8
    // c38
tail // c39a
  // c39b
,
    // c40
} // c41
")).
Eval vm_compute in ("<<<M1769>>>" ++ check (runes_of_ascii "packet Logon {
    repeatCount {
        BodyLength `crlf
        line`,
    },
    zchar a1 `u8 x,`,
    match Foo as Foo {
        ""\n"" : i8i8,
        [""abc"", ""CRC32""] : crc,
        [
            3, 42, 1, 255, ""x y"",
            ""`tick`"", ""a\""b"", ""CRC32""
        ] : repeatCount,
        [
            1, 007, 007, 7, 255,
            ""\n"", ""// no comment""
        ] : uint8x,
        00 : f32a,
    },
    // a // b
    uint16 Pad @lengthOf(uint8x) `doc`,
}")).
Eval vm_compute in ("<<<M1493>>>" ++ check (runes_of_ascii "MetaData float {int16 
  // c
  // " ++ [128512]%N ++ runes_of_ascii " emoji
		chars , int8
	_x 
,char
	charz ,
Header  u8x

    ,
u16 
_x
	, 
    // @lengthOf(

	x_y_z repeatCount,
	}

packet	Foo	{
    @tag(//	t
1
)
string	Logon
    `
`	,
	}	//x
	options{ zchar  = ' ' trueish= 	 //x
  """"

    leftPad = 255
; 
}
    root
	packet
    options1
    {u64
    packetx// `tick` ""quote"" 'q'
@calculatedFrom(""// no comment"")
``
    ,
}
")).
Eval vm_compute in ("<<<M1453>>>" ++ check (runes_of_ascii "
packet	zchar

    {

    @calculatedFrom(  ""packet"" )
@lengthOf(  body
)
@lengthOf(A ) repeat /// triple
u128{ f32a
chars `` 
,
	repeat  x_y_z  `tab	here`

    ,  // c
		}
	,// " ++ [27880; 37322]%N ++ runes_of_ascii "
  repeat Logon 
{  // " ++ [27880; 37322]%N ++ runes_of_ascii "
  u

    @calculatedFrom( // `tick` ""quote"" 'q'
""// no comment"")//
    	`two words`  ,

    char  u8x

, uint32 uint8x 
,
	} , int8 asx 
`` 
, 
}
")).
Eval vm_compute in ("<<<M30>>>" ++ check (runes_of_ascii "packet
repeatCount
    {@calculatedFrom(	""abc"" ) zchar[
    // @lengthOf(
    0
] // `tick` ""quote"" 'q'
MetaDataX  `
`	, string_
@calculatedFrom( ""1""
    ) ,	match string_
    as msg_type{ [// a // b
65535	,// a // b
""a	b""
    , 7
    ,	255 ]:
matchKey , 10 :
    options1 , 3 :Logon
    , } ,
    // " ++ [27880; 37322]%N ++ runes_of_ascii "
    packetx `a\` ,}
")).
Eval vm_compute in ("<<<M81>>>" ++ check (runes_of_ascii "root packet o {
} MetaData uint8x
    { int64 rootA  ,}
    MetaData
As{i32 // packet A { u8 x, }
chars,	}packet Z9_// trailing space 
{
@leftPad( )char[]	x_y_z,} packet tag {	@leftPad(
// " ++ [128512]%N ++ runes_of_ascii " emoji
// " ++ [27880; 37322]%N ++ runes_of_ascii "
' '
    )
zchar[ 0 // `tick` ""quote"" 'q'
] rootA @calculatedFrom(
    ""a\\"" )
    `tab	here`
,}")).
Eval vm_compute in ("<<<M94>>>" ++ check (runes_of_ascii "MetaData chars{ uint64	A, msg_type asx
    // c
    , Z9_  a1,
    stringy
    i64_ //
`doc` , }packet
/// triple
// a // b
x_y_z {	} options {
float // c
=float32 rootA= false ;
repeatCount// c
=  char[ 10 ]
; }	packet Z9_{zchar[007 ]
    //	t
    charz // c
,
} //x")).
Eval vm_compute in ("<<<M97>>>" ++ check (runes_of_ascii "packet
i8i8 { repeat char[	00 ] Pad
    `a\` ,
@leftPad
    (
'\x00') string	a1@lengthOf(tag )``, float64
    u128 @calculatedFrom( ""1""
)  ,	@lengthOf( x
    )
    u128 @lengthOf( tag )
`" ++ [28040; 24687; 31867; 22411]%N ++ runes_of_ascii "` , int64 u ,
A//x
T
    `say ""hi""`
, }
")).
Eval vm_compute in ("<<<M1824>>>" ++ check (runes_of_ascii "packet roots {
    @calculatedFrom(""a\\"")
    @lengthOf(packetx)
    match repeatCount as body {
        007 : lengthOf,
        00 : zchar,
    },
    char[] chars `say ""hi""`,
}

MetaData packetx {
}")).
Eval vm_compute in ("<<<M1293>>>" ++ check (runes_of_ascii "packet A {
    u8 a,
}
packet B {
    u16 b,
}
root packet P {
    u8 K1,
    u8 K2,
    match K1 as M1 {
        1 : A,
    },
    match K2 as M2 {
        1 : B,
    },
}
")).
Eval vm_compute in ("<<<M73>>>" ++ check (runes_of_ascii "root
    packet As { //
char	charz @lengthOf( packetx
) `{ , }`,//
char[0123456789
]
MetaDataX
// " ++ [27880; 37322]%N ++ runes_of_ascii "
// `tick` ""quote"" 'q'
`it's` , zchar[
    7]o `u8 x,`
, }")).
Eval vm_compute in ("<<<M1812>>>" ++ check (runes_of_ascii "MetaData tag {
    body Packet,
    int16 body,
    f32a uint8x,
}

packet falsey {
    x {
        char[7] lengthOf,
        char[] o `say ""hi""`,
    },
}")).
Eval vm_compute in ("<<<M506>>>" ++ check (runes_of_ascii "packet uint8x
{ match pack
    as msg_type	{
    0123456789 :	float
}
,
} packet //	t
a1
    { } options {packetx
    = '\x00'	; ; u128= ""a	b""  ; }
")).
Eval vm_compute in ("<<<M417>>>" ++ check (runes_of_ascii "packet uint8x
{ match pack
    msg_type as	{
    0123456789 :	float
}
,
} packet //	t
a1
    { } options {packetx
    = '\x00'	; u128= ""a	b""  ; }
")).
Eval vm_compute in ("<<<M425>>>" ++ check (runes_of_ascii "packet uint8x
{ match pack
    as msg_type	
    0123456789 :	float
}
,
} packet //	t
a1
    { } options {packetx
    = '\x00'	; u128= ""a	b""  ; }
")).
Eval vm_compute in ("<<<M1818>>>" ++ check (runes_of_ascii "packet
	u128	//x

  {  @calculatedFrom(
""x y""
) 	 // `tick` ""quote"" 'q'
  @rightPad( ' ' )

    char[ 42] 
Header @calculatedFrom( ""abc"" 
),
}
")).
Eval vm_compute in ("<<<M657>>>" ++ check (runes_of_ascii "// @lengthOf(
packet i8i8 { u128 o , }
options { MetaDataX = true;
    BodyLength =""packet"" x_y_z= 007
?crc //x
= ""abc"" ;
    msg_type =
i16 }")).
Eval vm_compute in ("<<<M185>>>" ++ check (runes_of_ascii "root packet lengthOf{ @leftPad
    (
' '// c
)
repeat char MetaDataX
,
}MetaData
Pad {
msg_type rootA// trailing space 
`// not a comment`, }")).
Eval vm_compute in ("<<<M697>>>" ++ check (runes_of_ascii "// @lengthOf(
packet i8i8 { u128 o , }
, { MetaDataX = true;
    BodyLength =""packet"" x_y_z= 007
crc //x
= ""abc"" ;
    msg_type =
i16 }")).
Eval vm_compute in ("<<<M1449>>>" ++ check (runes_of_ascii "packet A {
    u16 len @lengthOf(body) `tab
        	x`,
    u32 crc @calculatedFrom(""CRC32"") `tab
        	x`,
    string body,
}")).
Eval vm_compute in ("<<<M1543>>>" ++ check (runes_of_ascii "packet B {
    u8 a,
}

root packet P {
    u8 K,
    u8 L @lengthOf(Body),
    match K as Body {
        1 : B,
    },
}")).
Eval vm_compute in ("<<<M1163>>>" ++ check (runes_of_ascii "MetaData leftPad { chars MetaDataX , } packet repeatCount { char[ // c
255 ] uint8x `" ++ [233]%N ++ runes_of_ascii "` , } MetaData pack { As Foo , }")).
Eval vm_compute in ("<<<M1474>>>" ++ check (runes_of_ascii "
packet A	{	match	k

as n
{ [

""a""  ,
""bb""
    , 
""c c"" ,

""d"" ,

    ""e"" ,""f""
	,
	""g"" , ""h""]

:  B,2 
:
	C} ,
}
")).
Eval vm_compute in ("<<<M1244>>>" ++ check (runes_of_ascii "// top
root // c0
packet // c1
P { // c3
repeat // c4
char cs
    // c6
, u8 x // c9a
  // c9b
, }
    // c11
")).
Eval vm_compute in ("<<<M535>>>" ++ check (runes_of_ascii "packet uint8x
{ match pack
    as msg_type	{
    0123456789 :	float
}
,
} packet //	t
a1
    { } opti")).
Eval vm_compute in ("<<<M484>>>" ++ check (runes_of_ascii "packet uint8x
{ match pack
    as msg_type	{
    0123456789 :	float
}
,
} packet //	t
a1
    { }")).
Eval vm_compute in ("<<<M1267>>>" ++ check (runes_of_ascii "packet B {
    u8 a,
    string s,
}
root packet P {
    u16 L @lengthOf(B),
    B,
    u8 t,
}
")).
Eval vm_compute in ("<<<M642>>>" ++ check (runes_of_ascii "
packet
    asx {match u128 as lengthOf
{'1'
//	t
// `tick` ""quote"" 'q'
255 : x ,
    } ,	}")).
Eval vm_compute in ("<<<M638>>>" ++ check (runes_of_ascii "
packet
    asx {match u128 as leng""thOf
{
//	t
// `tick` ""quote"" 'q'
255 : x ,
    } ,	}")).
Eval vm_compute in ("<<<M597>>>" ++ check (runes_of_ascii "
packet
    asx {match u128 as lengthOf
{
//	t
// `tick` ""quote"" 'q'
255  x ,
    } ,	}")).
Eval vm_compute in ("<<<M621>>>" ++ check (runes_of_ascii "
packet
    asx {match u128 as lengthOf
{
//	t
// `tick` ""quote"" 'q'
255 : x ,
    }")).
Eval vm_compute in ("<<<M847>>>" ++ check (runes_of_ascii "packet A {
  match k as n {
    [1, 22, ""c c"", 4, 5, ""f"", 7] : B,
    2 : C
  },
}")).
Eval vm_compute in ("<<<M835>>>" ++ check (runes_of_ascii "packet A {
  match k as n {
    [1, 22, ""c c"", 4, 5, ""f""] : B
    2 : C
  },
}")).
Eval vm_compute in ("<<<M821>>>" ++ check (runes_of_ascii "packet A {
  match k as n {
    [1, 22, ""c c"", 4, 5] : B,
    2 : C
  },
}")).
Eval vm_compute in ("<<<M814>>>" ++ check (runes_of_ascii "packet A {
  match k as n {
    [1, 22, 007, 4, 5] : B
    2 : C
  },
}")).
Eval vm_compute in ("<<<M1098>>>" ++ check (runes_of_ascii "packet A {
    match k as n {
        1 : B,
        // c
    },
}")).
Eval vm_compute in ("<<<M1534>>>" ++ check (runes_of_ascii "packet A
    {match 
k as
    n

{
1
: 
B

, 
	// c
}  ,

}
")).
Eval vm_compute in ("<<<M773>>>" ++ check (runes_of_ascii "packet A {
  match k as n {
    [1] : B,
    2 : C
  },
}")).
Eval vm_compute in ("<<<M963>>>" ++ check (runes_of_ascii "MetaData M {
    u8 x `tab
	x`,
    T t `tab
	x`,
}")).
Eval vm_compute in ("<<<M1770>>>" ++ check (runes_of_ascii "options	{ 
a
=

1 
; // a

  b
    =
	2 	 // b
}")).
Eval vm_compute in ("<<<M1095>>>" ++ check (runes_of_ascii "packet A { char[ // a
 3 // b
 ] // c
 x, }")).
Eval vm_compute in ("<<<M1875>>>" ++ check (runes_of_ascii "
MetaData

M
	{} 	 // c
	options {
}

")).
Eval vm_compute in ("<<<M1090>>>" ++ check (runes_of_ascii "packet A { @tag( // a
 1 ) u8 x, }")).
Eval vm_compute in ("<<<M978>>>" ++ check (runes_of_ascii "packet A {
 u8 x `d `, // c 
}")).
Eval vm_compute in ("<<<M419>>>" ++ check (runes_of_ascii "packet uint8x
{ match pack")).
Eval vm_compute in ("<<<M1660>>>" ++ check (runes_of_ascii "// top
MetaData tag {
}")).
Eval vm_compute in ("<<<M1794>>>" ++ check (runes_of_ascii "
packet
	falsey{ }

")).
Eval vm_compute in ("<<<M976>>>" ++ check (runes_of_ascii "packet A {
}
// c ")).
Eval vm_compute in ("<<<M1057>>>" ++ check (runes_of_ascii "// c" ++ [6158]%N ++ runes_of_ascii "
packet A {
}")).
Eval vm_compute in ("<<<M1226>>>" ++ check (runes_of_ascii "packet // c
x { }")).
Eval vm_compute in ("<<<M742>>>" ++ check (runes_of_ascii "'j=KG=k_)FDOq")).
Eval vm_compute in ("<<<M1005>>>" ++ check (runes_of_ascii "// c" ++ [8202]%N)).
Eval vm_compute in ("<<<M731>>>" ++ check (runes_of_ascii "/")).
