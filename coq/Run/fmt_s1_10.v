From FP Require Import Lexer Parser ShowPT Digest Formatter.
From Coq Require Import String List NArith.
Import ListNotations.
Open Scope string_scope.
Set Printing Width 100000000.
Set Printing Depth 100000000.
Definition show_fres (r : fres) : string :=
  match r with
  | FOk s => "OK:" ++ sh_escaped s ""
  | FErr s => "ERR:" ++ sh_escaped s ""
  | FPanic p => "PANIC:" ++ p
  end.
Definition check (rs : list rune) : string := digest (show_fres (format_res rs)).
Definition full (rs : list rune) : string := show_fres (format_res rs).
Eval vm_compute in ("<<<M4431>>>" ++ check (runes_of_ascii "root packet
	crc

    {
@calculatedFrom(
    ""1""

    )
    f32
x	, 
@calculatedFrom( ""// no comment""
    )  //x
	string
chars ,
@calculatedFrom(
""a\""b""
	)
	@rightPad(
)
	@tag(7
    )	match A

    as
	matchKey {
[ 42 ]
: msg_type""x y"" :	lengthOf
    ""a\\""

: packetx/// triple
,[	""`tick`"" , ""x y""
	,""a\""b"" , 	 // packet A { u8 x, }
    ""x y""
    , 00

    ,""it's""
,

    7	, """" ]
:	Logon

    }	// a // b

  ,
@lengthOf(falsey  ) 
repeat

falsey `u8 x,`,u8x

{ int16 lengthOf
    `u8 x,`	,

    f32a 	 // " ++ [128512]%N ++ runes_of_ascii " emoji
    packetx
    , }
,
	lengthOf
	@lengthOf(

calculatedFrom

    )
    ,  @rightPad

('0' )

f32
    f32a
    ,  
  //

	// packet A { u8 x, }
  	@calculatedFrom(
	""" ++ [128512]%N ++ runes_of_ascii """ 
)
    tag
    ,
	// " ++ [27880; 37322]%N ++ runes_of_ascii "

  //x

	string  zchar `// not a comment` , }
	MetaData 
matchKey {} packet uint8x  {  
      // a // b
  	//x
    repeat
lengthOf 
    // a // b
// @lengthOf(
{ u16 
u128 //
,

    Pad, }  ,
@tag(  4294967296
    )	@calculatedFrom(	""x y""  ) @tag( 0
	)char[	4294967296

]
options1 @calculatedFrom(
""CRC32""

    ) 
, @rightPad

    (
	'\x00'
)
    repeat 
string
	asx
`a\`	// " ++ [128512]%N ++ runes_of_ascii " emoji

,	@calculatedFrom(
""" ++ [128512]%N ++ runes_of_ascii """ )
char[
    255
    ]
    len@calculatedFrom(

    """ ++ [233]%N ++ runes_of_ascii "t" ++ [233]%N ++ runes_of_ascii """
	) , @calculatedFrom( 	 //x
    ""{,}""	)repeat

zchar	calculatedFrom
,
@calculatedFrom(  """ ++ [233]%N ++ runes_of_ascii "t" ++ [233]%N ++ runes_of_ascii """  )  string

o  @lengthOf(

u

    )
	, uint64 falsey 
// " ++ [128512]%N ++ runes_of_ascii " emoji
@calculatedFrom( ""\" ++ [233]%N ++ runes_of_ascii """
)

    ,	zchar[	65535 ] 
stringy @calculatedFrom(

    ""1""
) 
,

As 
, }	packet
    BodyLength {
repeat

    uint32
body
,zchar[
65535 ]
//	t
    Header  ,
As i8i8
`tab	here` ,  @calculatedFrom( """ ++ [128512]%N ++ runes_of_ascii """
)
@rightPad(  // trailing space 
  '0' )@tag( 
65535)Pad	{ string
u128,} 
,

@tag( 255  )
@leftPad (
    ) 
@lengthOf( f32a

)	repeat  o
,repeat

    i8i8	{ repeat
	f32a  /// triple
  float

`line1
line2` ,repeat
char[ 0123456789 ]pack 
`tab	here` ,	// `tick` ""quote"" 'q'
    char[]
	x	, 
} 
,

@calculatedFrom(
""""
    )
    @lengthOf( lengthOf
) repeat	char[
65535
]	Foo
    ,
	pack lengthOf ,
repeat

    Pad ,} packet  // " ++ [128512]%N ++ runes_of_ascii " emoji
  u8x
	{  
  //
  @tag(	// `tick` ""quote"" 'q'
255

) repeat
zchar[// trailing space 

  4294967296]
    pack
    , 	 // " ++ [128512]%N ++ runes_of_ascii " emoji

  char[

0123456789
	]	charz	// trailing space 
	@calculatedFrom( 	 //x
    ""a\""b""

    )	// packet A { u8 x, }
    ,
//
		@lengthOf(Header )  
  // c
	//x
  f32a {u128 @calculatedFrom(  """" 
    // " ++ [128512]%N ++ runes_of_ascii " emoji

  ) `line1
line2`
	,
T
	@calculatedFrom(

    ""a\""b""
	),
int32

lengthOf
	@lengthOf(
	msg_type
)
,Foo@calculatedFrom(""a\""b"" ),} 
,} ")).
Eval vm_compute in ("<<<M3990>>>" ++ check (runes_of_ascii "packet u128 {
    @calculatedFrom(""" ++ [28040; 24687]%N ++ runes_of_ascii """)
    stringy {
        match falsey as Z9_ {
            // @lengthOf(
            ""packet"" : float,
        },
        match uint8x as x_y_z {
            3 : i64_,
            //
            // " ++ [128512]%N ++ runes_of_ascii " emoji
            ""CRC32"" : float,
            007 : falsey,
            0123456789 : Packet,
            [""it's"", ""\" ++ [233]%N ++ runes_of_ascii """] : calculatedFrom,
        },
        uint16 uint8x `it's`,
        repeat i8 repeatCount,
    },
    u8 string_,
    // trailing space 
    @lengthOf(body)
    @rightPad('\x00')
    zchar[65535] trueish @calculatedFrom(""`tick`""),
    @rightPad()
    charz @lengthOf(A),
    MetaDataX,
    @tag(3)
    char[3] x `doc`,
    repeat i8i8 {
        string Z9_,
    },
}// @lengthOf(

root packet chars {
    string_,
    u16 trueish `
        `,
    float32 Pad @lengthOf(metadata) `" ++ [28040; 24687; 31867; 22411]%N ++ runes_of_ascii "`,
    repeatCount,
    @lengthOf(x)
    char[] uint8x @lengthOf(T) `tab	here`,
    A {
        char rootA `
                `,
        int64 f32a,
        Packet {
            repeat i16 Foo `it's`,/// triple
            zchar[65535] stringy @calculatedFrom(""1"") `
                        `,// trailing space 
        },
        int,
    },// trailing space 
    charz metadata,
    @calculatedFrom(""\" ++ [233]%N ++ runes_of_ascii """)
    match o as matchKey {
        ""abc"" : zchar,
        // " ++ [27880; 37322]%N ++ runes_of_ascii "
        ""CRC32"" : As,
        // packet A { u8 x, }
        ""packet"" : Packet,
        ""x y"" : pack,
        [
            0, 10, 00, ""\n"", 65535,
            ""1""
        ] : As,
    },//
}

options {
}

packet leftPad {
    @calculatedFrom(""a\\"")
    @lengthOf(len)
    @tag(1)
    char[255] u8x,
    @calculatedFrom(""// no comment"")
    int32 len @lengthOf(_x),
    @calculatedFrom(""" ++ [28040; 24687]%N ++ runes_of_ascii """)
    repeat Logon int `" ++ [28040; 24687; 31867; 22411]%N ++ runes_of_ascii "`,
    match As as packetx {
        ""a	b"" : uint8x,
        // a // b
    },
    char[0] charz @lengthOf(i8i8),
    chars metadata,
    @tag(0123456789)
    //
    // trailing space 
    BodyLength,
}")).
Eval vm_compute in ("<<<M4105>>>" ++ check (runes_of_ascii "
options { _x

=
	float32

; 
}  packet 
Packet {
	char[
    255	]
	tag @lengthOf( a1 ) , match

Packet
    as
lengthOf {

[

    ""x y"",

1	]:

metadata
,
    [	""x y""
	, 	 // @lengthOf(
    	0 	 //x
		]:  // `tick` ""quote"" 'q'

  metadata }, @lengthOf(

rootA

    )	Header
matchKey
    , @lengthOf(

    leftPad
)char[]

A `" ++ [233]%N ++ runes_of_ascii "` ,}
    packet
	Logon
{

    zchar[

1
]// c
    f32a
    `{ , }`

    ,
	i64_

    @calculatedFrom(""" ++ [28040; 24687]%N ++ runes_of_ascii """

)

    , 
@calculatedFrom( """ ++ [128512]%N ++ runes_of_ascii """
)  @lengthOf( T 
)
uint16 T
	@calculatedFrom( 
""CRC32""//
  )
    // packet A { u8 x, }
	, @tag(

65535
)// trailing space 
	@lengthOf(	body)
i8 o
@lengthOf(// packet A { u8 x, }
  MetaDataX

    )// `tick` ""quote"" 'q'
	`it's`

,
match
int as falsey  {  [	""// no comment"" , 255 
      /// triple
//	t

	]	:  MetaDataX , } 
,
	}
root

    packet 
msg_type { @calculatedFrom( ""packet""

    )
    MetaDataX
f32a `" ++ [233]%N ++ runes_of_ascii "`
,@calculatedFrom( ""// no comment"")	//
    repeat	asx
	u128 ,
match 
msg_type
as

u8x  { 
255

:
	T ,	[7] : metadata

    ,
    },
@lengthOf(
body )

leftPad

@calculatedFrom(	""it's"")	,
	@leftPad  ( ) metadata msg_type
`crlf
line`
,	@tag( 255

    )repeat  char[
	00]
rootA	// @lengthOf(
    ,	match// " ++ [27880; 37322]%N ++ runes_of_ascii "

f32a
	as	charz	{ ""a	b""
:  Header },@lengthOf(
options1  // `tick` ""quote"" 'q'
)
char[]repeatCount	`u8 x,` // @lengthOf(
    	,
	@lengthOf( o 
    // " ++ [128512]%N ++ runes_of_ascii " emoji
	// c
)float64

crc 
      // " ++ [128512]%N ++ runes_of_ascii " emoji
  	// packet A { u8 x, }

	@lengthOf(falsey 	 // `tick` ""quote"" 'q'
      ) ,

}packet

_x	{
repeat
	i64_
// c
  {
repeat
A {  x_y_z

{
char[ 1
// c
// @lengthOf(
	] Logon  ,
    }	,	/// triple
	  }	,
	}
    ,
} 	 //	t")).
Eval vm_compute in ("<<<M731>>>" ++ check (runes_of_ascii "options
    { _x =
    float32
    ;} packet Packet
{char[ 255
]	tag @lengthOf(
    a1)
    ,match Packet as lengthOf { [ ""x y"" ,	1
    ] :metadata,
[""x y""
,// @lengthOf(
0//x
]  : // `tick` ""quote"" 'q'
metadata  },@lengthOf(rootA
) Header matchKey
, @lengthOf(leftPad)  char[] A `" ++ [233]%N ++ runes_of_ascii "`
,
} packet Logon{zchar[1 ]// c
f32a `{ , }` , i64_ @calculatedFrom( """ ++ [28040; 24687]%N ++ runes_of_ascii """)
    , @calculatedFrom( """ ++ [128512]%N ++ runes_of_ascii """) @lengthOf( T ) uint16 T
    @calculatedFrom( ""CRC32""//
)
    // packet A { u8 x, }
    , @tag( 65535 )// trailing space 
@lengthOf( body ) i8 o @lengthOf(// packet A { u8 x, }
MetaDataX ) // `tick` ""quote"" 'q'
`it's` ,match
    int as falsey {  [ ""// no comment""	,
255
/// triple
//	t
] :
MetaDataX , }
    , }
root packet msg_type  {	@calculatedFrom(""packet"") MetaDataX f32a `" ++ [233]%N ++ runes_of_ascii "`
,@calculatedFrom( ""// no comment""
    ) //
repeat
asx u128
,match
msg_type as u8x
    { 255	: T , [ 7 ]
:metadata , } ,
@lengthOf( body ) leftPad @calculatedFrom( ""it's"")  ,@leftPad	()metadata msg_type  `crlf
line` , @tag(
255 )repeat
    char[ 00 ] rootA // @lengthOf(
, match // " ++ [27880; 37322]%N ++ runes_of_ascii "
f32a as charz{  ""a	b"" : Header } , @lengthOf( options1// `tick` ""quote"" 'q'
)char[]
repeatCount  `u8 x,` // @lengthOf(
,	@lengthOf( o
// " ++ [128512]%N ++ runes_of_ascii " emoji
// c
) float64 crc
// " ++ [128512]%N ++ runes_of_ascii " emoji
// packet A { u8 x, }
@lengthOf( falsey // `tick` ""quote"" 'q'
)
,
} packet	_x {	repeat i64_
    // c
    { repeat A{ x_y_z { char[ 1
// c
// @lengthOf(
]Logon
, } , /// triple
} , } , } //	t")).
Eval vm_compute in ("<<<M374>>>" ++ check (runes_of_ascii "packet BodyLength// packet A { u8 x, }
{ leftPad lengthOf ,	float rootA `it's`	, @leftPad (
    '0' ) repeat
    BodyLength ,@rightPad
(
    ) i16// a // b
falsey @lengthOf(// a // b
i64_ ) , // `tick` ""quote"" 'q'
repeat
char[ 0123456789 ]uint8x , repeat
    // " ++ [27880; 37322]%N ++ runes_of_ascii "
    f64 i64_,	a1 tag`" ++ [233]%N ++ runes_of_ascii "` ,char[ 10 ]packetx
`say ""hi""`
,
    repeat  tag metadata
`tab	here` , }
    /// triple
    options {
crc = """"
    ;
}
    packet int
{ repeat zchar[	255
    ]	i64_ `two words`//x
,
    string tag@lengthOf( // a // b
Header )
,char chars ,
@lengthOf(
    crc ) match asx as Foo{ 7  : BodyLength , ""packet"" : Z9_
,007 :
    matchKey ,} ,
uint16 metadata// a // b
,
i64_ {	repeat
u8
msg_type, stringy {char[ 0123456789 ] // c
o @calculatedFrom(
""\n"" ) `" ++ [233]%N ++ runes_of_ascii "` ,}
/// triple
// packet A { u8 x, }
, zchar[
00]
    stringy	`line1
line2`
, } ,
@leftPad//
('0') match uint8x as u128 {
[ 1 // a // b
, ""abc"" ]
    : _x  ""a	b"" :Packet
    // c
    3 : _x //	t
, ""`tick`"" :
packetx ,
""\n""
: Header ,  } ,
x
    // c
    @calculatedFrom(
    /// triple
    ""\n"" ) ,zchar[ 65535 ]
    Packet//x
,
} MetaData Logon{
    } packet packetx {
@calculatedFrom( ""a\\"" )
match roots as Foo { [""\n"", 4294967296 ] : asx ,00
:  o , ""{,}"" :Header ,255 : packetx , [255,4294967296	] :MetaDataX
    ,  } , }")).
Eval vm_compute in ("<<<M1387>>>" ++ check (runes_of_ascii "options{ falsey =
float64 ;
u8x
=' ' ; charz = '0' ; // a // b
} options/// triple
{ i8i8 = true ;	uint8x = false ; roots
//	t
// " ++ [27880; 37322]%N ++ runes_of_ascii "
=
// @lengthOf(
// c
42 ; MetaDataX= ""a\\""
} packet tag { lengthOf//
, @lengthOf(
    // a // b
    u8x)
    match// " ++ [27880; 37322]%N ++ runes_of_ascii "
metadata as packetx { ""// no comment""
:
    // `tick` ""quote"" 'q'
    tag // " ++ [128512]%N ++ runes_of_ascii " emoji
,65535
: MetaDataX
    // " ++ [128512]%N ++ runes_of_ascii " emoji
    ,	} ,@rightPad(' '
)  char[ 007 // c
] // " ++ [128512]%N ++ runes_of_ascii " emoji
len, @calculatedFrom(
    ""a	b""
) repeat//x
uint8x u8x `a\`
, repeat
uint8x	{ match  MetaDataX as zchar  { 65535 : int
, 1
    :
    matchKey  , [ 0123456789]
:pack, 7: Z9_ , 0123456789
:	rootA/// triple
[ 00
    ,""\n"" ] :leftPad , }  , u128  { // a // b
uint64 i8i8 // packet A { u8 x, }
, i32 tag	, uint8 body	,}  , zchar[255 ] rootA	, } // trailing space 
, // trailing space 
string roots , @calculatedFrom(
""CRC32"" ) @tag( 7 ) string_	@calculatedFrom(  ""abc"" )
, zchar[ 10 ] int `say ""hi""` , @lengthOf(  metadata )	char[ 0 ] roots @calculatedFrom( """" ) // `tick` ""quote"" 'q'
, @calculatedFrom(""x y""//x
) rootA `" ++ [28040; 24687; 31867; 22411]%N ++ runes_of_ascii "` , }
root packet // " ++ [128512]%N ++ runes_of_ascii " emoji
i64_ {@tag( 00 )
repeat x i64_ , } options { Header
    =00 float =	false
    ;}
")).
Eval vm_compute in ("<<<M414>>>" ++ check (runes_of_ascii "packet Packet
{ Logon @lengthOf(chars ) , @lengthOf(  stringy
    // c
    ) int { // a // b
char[ 1 ]
    rootA,
    repeat repeatCount `it's`
    , i8 calculatedFrom
    ,	} ,
    _x
u128,
    //	t
    i16 uint8x @lengthOf( a1 )	, a1@calculatedFrom( """ ++ [233]%N ++ runes_of_ascii "t" ++ [233]%N ++ runes_of_ascii """ ) , @lengthOf(
x
// `tick` ""quote"" 'q'
// packet A { u8 x, }
)	repeat
    x_y_z{
int32 crc @calculatedFrom( ""packet"" ), repeat string Z9_
    , float64 len ,} , repeat
options1`" ++ [28040; 24687; 31867; 22411]%N ++ runes_of_ascii "`
,
// a // b
// " ++ [128512]%N ++ runes_of_ascii " emoji
@leftPad  (' ' ) string // @lengthOf(
msg_type @calculatedFrom(
    ""a	b"" ) , // trailing space 
repeat uint8
trueish`line1
line2` , } options // `tick` ""quote"" 'q'
{
    body	= ""\" ++ [233]%N ++ runes_of_ascii """ } packet pack// @lengthOf(
{ /// triple
@lengthOf(	matchKey )char[3 ] a1
    ,
@leftPad
( ) @calculatedFrom( ""it's""
) repeat f32a { zchar[ 00 ]
lengthOf ,
    stringy u8x ,
As// trailing space 
{  A//x
@calculatedFrom(	""abc"" ), match
u8x as	crc	{
65535:
trueish ,
""a	b"" :
    matchKey
    // " ++ [128512]%N ++ runes_of_ascii " emoji
    } , }
, trueish // a // b
@calculatedFrom( /// triple
""\n"" // trailing space 
) `say ""hi""`
    , } , }
packet stringy {char[ 4294967296 ]
u8x
, }
")).
Eval vm_compute in ("<<<M3701>>>" ++ check (runes_of_ascii "// @lengthOf(
packet BodyLength {
    char T,
}

root packet A {
    repeat len `say ""hi""`,
    repeat Pad {
        repeat char[] stringy,
        repeat rootA {
            uint64 Foo @lengthOf(options1) `it's`,
            //x
            /// triple
            zchar {
                zchar[42] Z9_,
                repeat o i8i8,
                uint8 x `it's`,
                rootA Foo `{ , }`,
            },
        },
        metadata @calculatedFrom(""a	b""),
    },
    @tag(1)
    string u `doc`,
    u @calculatedFrom(""it's"") ``,
    char[7] packetx @lengthOf(A) `{ , }`,
    string _x `
    `,
    float32 _x,
    repeat char[42] rootA `doc`,
}

MetaData matchKey {
    zchar[0123456789] falsey ``,
}

packet Logon {
    @lengthOf(zchar)
    match leftPad as falsey {
        3 : Packet,
        007 : zchar,
        1 : float,
        ""it's"" : body,
        ""CRC32"" : body,
    },
    @calculatedFrom(""{,}"")
    zchar[1] i8i8 @lengthOf(uint8x),
    zchar[00] a1,
    uint64 u,
    string Packet @calculatedFrom(""packet""),
}")).
Eval vm_compute in ("<<<M841>>>" ++ check (runes_of_ascii "options
{ } packet Foo { string Header `doc` ,
    char[7] leftPad
    , match i64_ as o { 10 //x
: // `tick` ""quote"" 'q'
x	,[""x y"" ] : repeatCount // c
,
0123456789 //	t
:
// @lengthOf(
// `tick` ""quote"" 'q'
roots ,
    [0 ,
7
    ,00 ,
""" ++ [233]%N ++ runes_of_ascii "t" ++ [233]%N ++ runes_of_ascii """
,00 ,/// triple
10
, ""packet"" ] :  stringy ,
    /// triple
    [ 0123456789,
""{,}"" , """" , ""a	b"" ,""a\\"" , ""\n"" , 4294967296,1	] :  BodyLength, /// triple
4294967296: float , },
packetx`
`, zchar[  7 ] Foo ,  Logon ,
match o as calculatedFrom {3: uint8x
    //
    }
    , rootA repeatCount	, }
    root
packet f32a{@lengthOf(
float  ) crc
    `u8 x,`//
, @calculatedFrom(
""{,}"") repeat zchar[
3
    ]Header `` ,match len as pack { [ ""{,}"" , ""a\\""  ] :uint8x , [""packet"" , 42 ,""\n"", 4294967296// c
,  ""CRC32"" ,
    // `tick` ""quote"" 'q'
    007	]
    :Foo , """ ++ [233]%N ++ runes_of_ascii "t" ++ [233]%N ++ runes_of_ascii """
    // packet A { u8 x, }
    : BodyLength , 0123456789: crc , }
    , x As
`u8 x,`
,float64 Pad @lengthOf( repeatCount) ,	char[
00] Logon @lengthOf( tag )	,
    }")).
Eval vm_compute in ("<<<M1304>>>" ++ check (runes_of_ascii "
packet matchKey //	t
{ @leftPad
(
    ) // a // b
calculatedFrom	,@lengthOf( msg_type
    // `tick` ""quote"" 'q'
    )	repeat x_y_z `doc`  , uint8 o //
@lengthOf( leftPad )`" ++ [28040; 24687; 31867; 22411]%N ++ runes_of_ascii "` , repeat x_y_z
{match
    u8x	as i8i8 {
""a\""b"" : lengthOf ,
    [
3
    ,
""a\""b""
, 65535
,00 ,
    10 , ""1"" ]//x
:
// trailing space 
// c
roots,
3:  crc
    ,
    [ """ ++ [28040; 24687]%N ++ runes_of_ascii """,3 // a // b
] //	t
:	msg_type , [ """ ++ [128512]%N ++ runes_of_ascii """	] : Packet , 4294967296 :
    matchKey
    // " ++ [128512]%N ++ runes_of_ascii " emoji
    }, match A // a // b
as u8x
{
3 : Packet 1  : Pad ,
// " ++ [128512]%N ++ runes_of_ascii " emoji
// trailing space 
""1""
    :
//	t
// " ++ [27880; 37322]%N ++ runes_of_ascii "
options1 , }
,asx
    { o `// not a comment`
    , repeat
    rootA `// not a comment` ,
    i8i8 @lengthOf(stringy ) `" ++ [28040; 24687; 31867; 22411]%N ++ runes_of_ascii "`
    , zchar[
    // trailing space 
    3] options1 @calculatedFrom(""x y"" ) ,},
} ,
}  packet
    // " ++ [128512]%N ++ runes_of_ascii " emoji
    A { @calculatedFrom( """" ) @tag(0123456789 )f32a packetx `say ""hi""`,
    repeat
    x  uint8x ,}  options {} // trailing space ")).
Eval vm_compute in ("<<<M429>>>" ++ check (runes_of_ascii "packet options1 {repeat
u128 { repeat	Z9_//
, Packet { falsey {match len // @lengthOf(
as //x
roots// packet A { u8 x, }
{
255 :
    msg_type , 10 :
string_ 0 : int
//x
// `tick` ""quote"" 'q'
, }
,// c
int16 Packet @lengthOf( // packet A { u8 x, }
f32a	)  ,  match lengthOf as //
leftPad {[ 00
,
    ""abc"" ]: charz ,} , repeat zchar[42 ]
Header `{ , }`,	}
//
// a // b
, }
//x
// c
,
    // `tick` ""quote"" 'q'
    repeat u {
tag
//	t
// @lengthOf(
{ /// triple
char[ 0] rootA
    @lengthOf( i8i8 )
, } , zchar[007]charz
    `two words` , }
    , } ,zchar[ 3 ]
u128
    @lengthOf( falsey
) , repeat string x // trailing space 
,// packet A { u8 x, }
repeat Foo _x `u8 x,` , match
roots as
Packet	{
    ""1"" :// a // b
falsey , } ,
@lengthOf(
uint8x
//x
// " ++ [128512]%N ++ runes_of_ascii " emoji
) // packet A { u8 x, }
@lengthOf(  lengthOf )@lengthOf( f32a )zchar[ 255 ] T `two words` ,f32a T ,
}")).
Eval vm_compute in ("<<<M644>>>" ++ check (runes_of_ascii "packet
falsey { uint64 calculatedFrom@lengthOf(//	t
msg_type )
/// triple
//	t
, i16
    zchar , f32	a1 ,
    // " ++ [27880; 37322]%N ++ runes_of_ascii "
    @calculatedFrom(
""// no comment"")a1 /// triple
`say ""hi""`,
As
// " ++ [128512]%N ++ runes_of_ascii " emoji
//x
Z9_ ,
    // packet A { u8 x, }
    repeatCount @lengthOf(uint8x ) , u8 o @calculatedFrom(	""`tick`"")`say ""hi""`
,
f32
    A @lengthOf(
    //
    packetx
    // `tick` ""quote"" 'q'
    )`line1
line2` ,}	MetaData len
    {As rootA
, zchar[ 10
]
BodyLength `it's` ,
int32	crc
`
` ,
zchar
u8x
, leftPad BodyLength ,
} MetaData zchar
{options1 calculatedFrom, zchar[ 7  ]trueish
    // c
    , } // " ++ [27880; 37322]%N ++ runes_of_ascii "
root
    packet Foo { @lengthOf( i8i8 )	repeat	zchar[  255 ] u `// not a comment`
,} MetaData // " ++ [27880; 37322]%N ++ runes_of_ascii "
int
    /// triple
    { uint16 matchKey  , int16 // `tick` ""quote"" 'q'
x_y_z//
`say ""hi""` ,
leftPad Logon ,}
")).
Eval vm_compute in ("<<<M1296>>>" ++ check (runes_of_ascii "packet
    body { @tag(255 ) int @lengthOf( matchKey
    ) `tab	here` ,
}
    packet Z9_ { @lengthOf( As
)
    repeat _x
lengthOf ,	@tag( 0123456789
    ) repeat
uint8x ,int64  stringy@calculatedFrom(
    ""{,}"" )`crlf
line`
, //x
@lengthOf(	i8i8)@tag( 4294967296	) @rightPad ( // c
'0' // `tick` ""quote"" 'q'
) char[
    // c
    3]
int , } packet roots { } root
packet body { match f32a as  u8x{//x
""\" ++ [233]%N ++ runes_of_ascii """ //x
:	chars, } , @tag(255 )
@tag( 00) trueish
Header, @tag( //x
1)
match
A
    as falsey { [""a\""b"" ]: i64_ ,// trailing space 
[ 7 ,""packet"" , ""{,}""
, 4294967296 , 007] :u128 , 0
:
string_ , 007 : x
    , 1 :As ,
    }
    , @lengthOf(
    options1 ) repeat u16  Header
`` ,string trueish
, // " ++ [128512]%N ++ runes_of_ascii " emoji
@lengthOf( len ) x repeatCount
    `crlf
line` ,
    }
")).
Eval vm_compute in ("<<<M1086>>>" ++ check (runes_of_ascii "packet
u128 {
    @tag( 0 ) BodyLength { Z9_ {  stringy {	metadata
// @lengthOf(
// a // b
, } ,	zchar @lengthOf(
x_y_z)
, match	lengthOf
as
    float{ 10 : repeatCount,
}
    , repeat
string Pad `" ++ [233]%N ++ runes_of_ascii "` , } , // packet A { u8 x, }
u64
u128 @calculatedFrom( ""a\""b""
    ) ,} ,@rightPad
(	'0') uint32
    x_y_z@lengthOf(crc ) ,
    match tag	as
roots {
    4294967296 : packetx , 007
    :
    Packet
,// packet A { u8 x, }
[ """ ++ [128512]%N ++ runes_of_ascii """
,	7
// trailing space 
//
, 255 // " ++ [27880; 37322]%N ++ runes_of_ascii "
, ""a	b""
]
: x_y_z
,
3	:
    //	t
    u128,
""a	b"" : u128,}  , Foo
@lengthOf( o ), i32 int
    , options1 ,	@rightPad(
    ) @rightPad (  '\x00' )
x
`crlf
line` , @tag(
255
)  int16 u8x@lengthOf(trueish)  `" ++ [28040; 24687; 31867; 22411]%N ++ runes_of_ascii "` ,
f64 leftPad @calculatedFrom( ""CRC32"" ) `doc`,
    }")).
Eval vm_compute in ("<<<M734>>>" ++ check (runes_of_ascii "options {
    } packet x {	MetaDataX @lengthOf( _x // @lengthOf(
),
    // " ++ [128512]%N ++ runes_of_ascii " emoji
    }
root
    packet metadata{ string float``
,char[ 65535 ]  T `it's`, @lengthOf( msg_type) @tag(42 )
match Header as
    chars  { [
10,
    7
]:
a1 ,
    [//x
""1""
// c
//
] : u128 4294967296
    : options1 , } , // trailing space 
int	@calculatedFrom( ""`tick`""
    ) ,
    MetaDataX
// `tick` ""quote"" 'q'
// c
packetx , zchar[ 10] o, @tag( 007)
    u128 Pad , @calculatedFrom( ""{,}""
    //	t
    )
    // `tick` ""quote"" 'q'
    match options1 as BodyLength{ [00	, 255 , ""x y""
]	:
A ""a\\"" :T ,[ 7	,
    42 ,65535, ""a\""b""
, 7
    , 007 , //	t
""`tick`""  , 0 ]: matchKey ""CRC32""
    // c
    :	falsey ,
} , }
")).
Eval vm_compute in ("<<<M4277>>>" ++ check (runes_of_ascii "packet tag {
    float32 repeatCount @calculatedFrom(""// no comment""),
}

packet i64_ {
    char[00] calculatedFrom,// " ++ [128512]%N ++ runes_of_ascii " emoji
    @calculatedFrom(""packet"")
    i16 Packet,
    falsey {
        char[] calculatedFrom @lengthOf(stringy) ``,
    },
    repeat i32 matchKey,
    repeat char[7] tag `// not a comment`,
    leftPad {
        // @lengthOf(
        char[] i8i8,
    },
    @lengthOf(x_y_z)
    char[3] matchKey ``,
    float {
        char[] chars,
        repeat zchar[1] x_y_z,
    },
    i8 x_y_z,
    string asx,
}

root packet int {
    chars @lengthOf(Foo) `a\`,
    repeat char[0123456789] BodyLength,
    i8 T,
    @rightPad()
    u64 lengthOf,
}")).
Eval vm_compute in ("<<<M3663>>>" ++ check (runes_of_ascii "// top
options // c0a
  // c0b
{ // c1a
  // c1b
LittleEndian
    // c2
=
    // c3
true ; // c5
}
    // c6
packet
    // c7
Logon // c8a
  // c8b
{
    // c9
u8 x // c11
, // c12
string // c13a
  // c13b
user ,
    // c15
} packet // c17a
  // c17b
Logout {
    // c19
u16
    // c20
reason , // c22
} packet // c24
Empty {
    // c26
} // c27
root // c28
packet Frame
    // c30
{
    // c31
u16 MsgType , // c34a
  // c34b
u16 BodyLen @lengthOf( // c37
Body // c38a
  // c38b
) // c39
, u8 flags
    // c42
, Logon // c44a
  // c44b
Body
    // c45
, // c46
u32
    // c47
trailer // c48
,
    // c49
} // c50a
  // c50b
")).
Eval vm_compute in ("<<<M844>>>" ++ check (runes_of_ascii "root packet i8i8{ }
    root packet zchar {zchar[ 4294967296 ]
i8i8, @lengthOf(f32a
) match lengthOf as tag // a // b
{ 00 :
As,
}
,
msg_type`" ++ [233]%N ++ runes_of_ascii "` , i64_ @calculatedFrom( """" ) ,
    zchar[
    //
    3 ]//	t
roots
    , options1`u8 x,` ,
@lengthOf( string_)
BodyLength int `// not a comment`,
} packet x_y_z
    { @rightPad( ' ' )
    //x
    options1
    @calculatedFrom( ""`tick`"" ) ,
    float64
    As @lengthOf(
a1
    ) ,
    char[]
a1 ,
}packet
packetx
    {
@leftPad ( '\x00'
)stringy	`a\` , } packet packetx {@lengthOf(
tag
)	repeat  char T , @leftPad (' ' )  options1 matchKey  ,
    }
")).
Eval vm_compute in ("<<<M1130>>>" ++ check (runes_of_ascii "root packet Foo {u64 calculatedFrom @lengthOf( u ) , u16
len ,
match metadata as
a1{
// `tick` ""quote"" 'q'
// " ++ [27880; 37322]%N ++ runes_of_ascii "
255 :roots
,
10: i8i8
    [ // a // b
00
] :i8i8, [
    ""abc""  ] :
    Header
,
[
    // packet A { u8 x, }
    00 ] // packet A { u8 x, }
: x , ""abc"" :
Logon } , @leftPad(
    '0') // " ++ [27880; 37322]%N ++ runes_of_ascii "
Pad{  zchar[ 10] asx `{ , }`, Header@calculatedFrom(
""a\\"" ) , repeat T
,
int16	roots `// not a comment`,  } ,	}packet o { @tag( 00
) @leftPad ( '\x00'
// `tick` ""quote"" 'q'
//x
) Z9_
//	t
//
@calculatedFrom( ""CRC32"" ) ,@lengthOf(	crc
//x
//
)
    zchar
, }
")).
Eval vm_compute in ("<<<M485>>>" ++ check (runes_of_ascii "packet	options1 { // " ++ [27880; 37322]%N ++ runes_of_ascii "
string
    stringy @lengthOf( u8x// trailing space 
)	`it's` ,  zchar[ 7] // a // b
Packet`tab	here` ,char[]  leftPad `" ++ [28040; 24687; 31867; 22411]%N ++ runes_of_ascii "` , f32 packetx
`a\`
    ,  char[]
    //	t
    len,
    metadata // trailing space 
{ float32 Pad @lengthOf(tag),
repeat string_ lengthOf`crlf
line`,
// `tick` ""quote"" 'q'
/// triple
} , @lengthOf(	asx ) char[]trueish @lengthOf(
Header ) `tab	here`  , @leftPad( '0'
    )char[] Foo,zchar[10
    ]packetx
, repeat leftPad `u8 x,` ,
    }
    packet pack
{
    } options {
    //
    }
")).
Eval vm_compute in ("<<<M3206>>>" ++ check (runes_of_ascii "// top
options
    // c0
{
    // c1
charz
    // c2
=
    // c3
f64
    // c4
;
    // c5
metadata
    // c6
=
    // c7
7
    // c8
;
    // c9
}
    // c10
options
    // c11
{
    // c12
u128
    // c13
=
    // c14
10
    // c15
options1
    // c16
=
    // c17
true
    // c18
;
    // c19
zchar
    // c20
=
    // c21
uint16
    // c22
;
    // c23
lengthOf
    // c24
=
    // c25
true
    // c26
;
    // c27
}
    // c28
options
    // c29
{
    // c30
len
    // c31
=
    // c32
1
    // c33
}
    // c34
")).
Eval vm_compute in ("<<<M4074>>>" ++ check (runes_of_ascii "options {
    x = ""abc"";
}

root packet calculatedFrom {
    // trailing space 
    @tag(1)
    match x_y_z as int {
        [""it's""] : uint8x,
        4294967296 : i64_,
        ""x y"" : BodyLength,
        ""x y"" : u8x,
    },
    @tag(007)
    @tag(7)
    // " ++ [27880; 37322]%N ++ runes_of_ascii "
    @lengthOf(x_y_z)
    u64 crc,
    @calculatedFrom(""CRC32"")
    u64 chars @calculatedFrom(""// no comment""),
    @rightPad()
    zchar[10] lengthOf,
    char[65535] u128,
}

options {
    falsey = true;
}

packet BodyLength {
}")).
Eval vm_compute in ("<<<M1039>>>" ++ check (runes_of_ascii "MetaData MetaDataX{i64_ leftPad , zchar[7 ] u8x`" ++ [28040; 24687; 31867; 22411]%N ++ runes_of_ascii "` , zchar[// `tick` ""quote"" 'q'
00 ] crc  `crlf
line` , char[
    255 ]
    zchar
, u32 x//
`tab	here`
, i64_ falsey `it's` ,} MetaData A
/// triple
//	t
{ char[ 7 ] // `tick` ""quote"" 'q'
calculatedFrom /// triple
`two words` , asx asx `tab	here`, float64 trueish,zchar[ 42 ] f32a `tab	here` // " ++ [128512]%N ++ runes_of_ascii " emoji
, char[]
    u128 ,
    } packet uint8x { @tag(  1
//
// @lengthOf(
) repeat
    //	t
    char[]
Packet, } // c")).
Eval vm_compute in ("<<<M964>>>" ++ check (runes_of_ascii "// c
root packet o{ @tag( 42
) a1
, }
options { asx
=char[ 0	]
/// triple
// `tick` ""quote"" 'q'
;
int =
    // c
    '\x00' ;_x	=
""it's""	packetx // a // b
= ""// no comment""  u8x = """ ++ [233]%N ++ runes_of_ascii "t" ++ [233]%N ++ runes_of_ascii """ } root// trailing space 
packet T { @lengthOf( float )match falsey
//	t
// trailing space 
as  matchKey {
""a\\""
: x_y_z
// a // b
// `tick` ""quote"" 'q'
,
    //x
    } //
, } options // a // b
{ zchar = 0// trailing space 
repeatCount= uint64
    ;// a // b
}")).
Eval vm_compute in ("<<<M3632>>>" ++ check (runes_of_ascii "options {
    LittleEndian = true;
    StringPrefixLenType = u16;
    ArrayPrefixLenType = u64;
}
packet Fill {
}
packet Logon {
    repeat char[3] Tail,
    zchar[6] venue,
    repeat string Side2,
}
root packet Cancel {
    char[] Flags,
    char[] OrderId,
    zchar[6] msgKind,
    Fill,
    char[] Acct,
    u8 f1,
    match f1 as Body {
        188 : Fill,
        5 : Logon,
    },
    u32 clOrdID @calculatedFrom(""CRC32""),
}
")).
Eval vm_compute in ("<<<M1368>>>" ++ check (runes_of_ascii "
root  packet crc  { @leftPad (
    '0'
) @lengthOf( float)roots
    Logon `u8 x,` , char[ 3
] repeatCount `a\`
// `tick` ""quote"" 'q'
// @lengthOf(
,match
uint8x as//x
msg_type{ 10
:  body , 0123456789  :o
} ,
repeat x
// c
// c
{ uint8 roots
@calculatedFrom( ""abc"" ) `" ++ [28040; 24687; 31867; 22411]%N ++ runes_of_ascii "`,
}
, } packet //	t
calculatedFrom
{uint8 MetaDataX `// not a comment` , }
packet crc {
Z9_
{ repeat crc `doc`
,Z9_ ``,  }, }
// a // b
")).
Eval vm_compute in ("<<<M4271>>>" ++ check (runes_of_ascii "// top
root packet Frame {
    // c3
    u8 K,
    // c6
    Logon first,// c9a
    // c9b
    match K as Body {
        // c14a
        // c14b
        1 : Logon,
        // c18a
        // c18b
        2 : Logout,
        // c22
    },
}

// c25
packet Logon {
    // c28
    string user,// c31a
    // c31b
}// c32a

// c32b
packet Logout {
    // c35
    u16 reason,// c38a
    // c38b
}
// c39")).
Eval vm_compute in ("<<<M3308>>>" ++ check (runes_of_ascii "// top
root
    // c0
packet
    // c1
matchKey
    // c2
{
    // c3
zchar[
    // c4
3
    // c5
]
    // c6
pack
    // c7
@calculatedFrom(
    // c8
""a	b""
    // c9
)
    // c10
`doc`
    // c11
,
    // c12
}
    // c13
options
    // c14
{
    // c15
}
    // c16
MetaData
    // c17
A
    // c18
{
    // c19
int8
    // c20
msg_type
    // c21
,
    // c22
}
    // c23
")).
Eval vm_compute in ("<<<M4049>>>" ++ check (runes_of_ascii "
packet
    float
	{ @leftPad
(
    ' '

)	@calculatedFrom(	// `tick` ""quote"" 'q'
""a\""b""

    )	@calculatedFrom( 
""packet"" )
    u32

msg_type 
  //
		// a // b
`" ++ [233]%N ++ runes_of_ascii "`	, @tag( 
00	)

    @rightPad
	(

    ' '
    ) repeat  chars metadata // " ++ [128512]%N ++ runes_of_ascii " emoji
    ,  @rightPad
    ('0')
	tag
	string_

    ,

repeat

f64
    int 
`u8 x,`

    ,
	} 
        // c
")).
Eval vm_compute in ("<<<M1182>>>" ++ check (runes_of_ascii "packet Packet{@tag(
4294967296
    )  charz	{ repeat
char[
    0123456789] BodyLength ,repeat trueish stringy , }, }options { body = char ; leftPad =uint16
    //	t
    ; stringy
    = true ; packetx
= true
// `tick` ""quote"" 'q'
//
float=char[ 255 ]}
// `tick` ""quote"" 'q'
/// triple
root packet	len {  @leftPad  ( '0') uint64
    a1
    ,} 	 ")).
Eval vm_compute in ("<<<M3806>>>" ++ check (runes_of_ascii "options {
    len = ""x y"";
}

packet repeatCount {
    zchar[7] f32a,
}

packet asx {
    len @calculatedFrom(""a\\"") `line1
    line2`,
    @lengthOf(T)
    u8x `a\`,
    @tag(3)
    char Pad `
    `,
    char[4294967296] metadata @calculatedFrom(""CRC32""),
    @lengthOf(Header)
    u64 uint8x @calculatedFrom(""x y""),
}
// " ++ [128512]%N ++ runes_of_ascii " emoji")).
Eval vm_compute in ("<<<M1913>>>" ++ check (runes_of_ascii "MetaData
    u { }  options {
// c
// @lengthOf(
float = int8 ;rootA uint16 false ; As =	int16 // `tick` ""quote"" 'q'
repeatCount
    // trailing space 
    =
    int16
; u8x =
    //	t
    '\x00' ; } options	{
    repeatCount
= 0
u128
    //
    = false ; i64_
// trailing space 
// `tick` ""quote"" 'q'
= '0' ; //	t
}
")).
Eval vm_compute in ("<<<M90>>>" ++ check (runes_of_ascii "packet charz {repeat char[ 3 ]
BodyLength,As stringy, match
    tag as uint8x { //
[ ""it's"" , 007
    , 4294967296
    // c
    ] : uint8x ,
}, // a // b
@tag( 0
)/// triple
repeat char[	7	] u	,}
    // packet A { u8 x, }
    MetaData options1
    { Z9_  _x ,	} packet BodyLength
{} MetaData chars { float Foo,
}")).
Eval vm_compute in ("<<<M2071>>>" ++ check (runes_of_ascii "MetaData
    u { }  options " ++ [65279]%N ++ runes_of_ascii " {
// c
// @lengthOf(
float = int8 ;rootA =false ; As =	int16 // `tick` ""quote"" 'q'
repeatCount
    // trailing space 
    =
    int16
; u8x =
    //	t
    '\x00' ; } options	{
    repeatCount
= 0
u128
    //
    = false ; i64_
// trailing space 
// `tick` ""quote"" 'q'
= '0' ; //	t
}
")).
Eval vm_compute in ("<<<M1917>>>" ++ check (runes_of_ascii "MetaData
    u { }  options {
// c
// @lengthOf(
float = int8 ;rootA =; false As =	int16 // `tick` ""quote"" 'q'
repeatCount
    // trailing space 
    =
    int16
; u8x =
    //	t
    '\x00' ; } options	{
    repeatCount
= 0
u128
    //
    = false ; i64_
// trailing space 
// `tick` ""quote"" 'q'
= '0' ; //	t
}
")).
Eval vm_compute in ("<<<M2074>>>" ++ check (runes_of_ascii "MetaData
    u { }  options {
// c
// @lengthOf(
float = int8 ;rootA =false ; " ++ [21517; 23383]%N ++ runes_of_ascii " =	int16 // `tick` ""quote"" 'q'
repeatCount
    // trailing space 
    =
    int16
; u8x =
    //	t
    '\x00' ; } options	{
    repeatCount
= 0
u128
    //
    = false ; i64_
// trailing space 
// `tick` ""quote"" 'q'
= '0' ; //	t
}
")).
Eval vm_compute in ("<<<M1925>>>" ++ check (runes_of_ascii "MetaData
    u { }  options {
// c
// @lengthOf(
float = int8 ;rootA =false ;  =	int16 // `tick` ""quote"" 'q'
repeatCount
    // trailing space 
    =
    int16
; u8x =
    //	t
    '\x00' ; } options	{
    repeatCount
= 0
u128
    //
    = false ; i64_
// trailing space 
// `tick` ""quote"" 'q'
= '0' ; //	t
}
")).
Eval vm_compute in ("<<<M724>>>" ++ check (runes_of_ascii "// " ++ [128512]%N ++ runes_of_ascii " emoji
packet
    u { int `two words` ,
} packet
    Packet	{ repeat zchar Foo// @lengthOf(
,	} packet f32a // c
{ uint32
Packet`
`, @lengthOf(
    msg_type	) @calculatedFrom(
    ""it's"" )repeat
    repeatCount { repeat zchar[ 255 ] u8x ,repeat MetaDataX// c
`" ++ [28040; 24687; 31867; 22411]%N ++ runes_of_ascii "` , int64
    Pad `tab	here` ,} ,}
")).
Eval vm_compute in ("<<<M3986>>>" ++ check (runes_of_ascii "MetaData T {
    Foo lengthOf,
    string packetx `// not a comment`,
    zchar[0] metadata `crlf
    line`,
    x string_ `line1
    line2`,
}

packet repeatCount {
    char[255] A @calculatedFrom(""a\\""),
    float32 BodyLength @lengthOf(_x) `doc`,
    char[] trueish @calculatedFrom(""packet""),
}")).
Eval vm_compute in ("<<<M4110>>>" ++ check (runes_of_ascii "packet rootA {
    @lengthOf(A)
    @leftPad('0')
    @lengthOf(_x)
    char[0] len,
}

root packet _x {
    @lengthOf(MetaDataX)
    u16 x `say ""hi""`,
    match string_ as Foo {
        42 : string_,
        00 : T,
    },
    char[] trueish,
    repeat calculatedFrom x_y_z,// a // b
}")).
Eval vm_compute in ("<<<M32>>>" ++ check (runes_of_ascii "options	{
    // `tick` ""quote"" 'q'
    Foo
= zchar[
    1
]uint8x =""// no comment"" Pad
=
    //
    char[] ;
    A
= 4294967296
    a1 = ""`tick`"" ; } packet BodyLength  {
@calculatedFrom(
""packet"" ) roots `// not a comment`,@tag( 10 ) f32 uint8x/// triple
`" ++ [28040; 24687; 31867; 22411]%N ++ runes_of_ascii "`
,	}

")).
Eval vm_compute in ("<<<M228>>>" ++ check (runes_of_ascii "
packet
Z9_  { } packet T
{
repeat
    charz {match float as // " ++ [128512]%N ++ runes_of_ascii " emoji
stringy {00 : f32a [ 00
    //x
    , 00 ,""a\\""
// packet A { u8 x, }
// a // b
, 0 ,	7, 0 ] : As , } ,//	t
uint32 asx ,
//
/// triple
repeat u8x {
    repeat
//x
//
u8 string_ ,
} , } , }
")).
Eval vm_compute in ("<<<M1583>>>" ++ check (runes_of_ascii "packet
//	t
// trailing space 
_x {
// packet A { u8 x, }
// c
char[
3
    ] u8x @lengthOf(
u8x ) , @calculatedFrom(""" ++ [128512]%N ++ runes_of_ascii """ // @lengthOf(
)
i16	Foo
@lengthOf(	string_
    )`doc` `doc`	, repeat	i64 metadata , @lengthOf( string_
) i8 // c
u  `line1
line2`	,
}
")).
Eval vm_compute in ("<<<M1553>>>" ++ check (runes_of_ascii "packet
//	t
// trailing space 
_x {
// packet A { u8 x, }
// c
char[
3
    ] u8x @lengthOf(
u8x ) , @calculatedFrom(""" ++ [128512]%N ++ runes_of_ascii """ // @lengthOf(
) )
i16	Foo
@lengthOf(	string_
    )`doc`	, repeat	i64 metadata , @lengthOf( string_
) i8 // c
u  `line1
line2`	,
}
")).
Eval vm_compute in ("<<<M457>>>" ++ check (runes_of_ascii "packet options1 // a // b
{ @leftPad ('0' )// " ++ [128512]%N ++ runes_of_ascii " emoji
match uint8x as
    // `tick` ""quote"" 'q'
    T{
42 : stringy ,[""1"" ] :i64_,//
3
:
    string_
    , ""a\\"" : metadata  , ""CRC32"" :
int
    //x
    ""packet""
:
    rootA, } , } root packet i8i8
{ }")).
Eval vm_compute in ("<<<M1614>>>" ++ check (runes_of_ascii "packet
//	t
// trailing space 
_x {
// packet A { u8 x, }
// c
char[
3
    ] u8x @lengthOf(
u8x ) , @calculatedFrom(""" ++ [128512]%N ++ runes_of_ascii """ // @lengthOf(
)
i16	Foo
@lengthOf(	string_
    )`doc`	, repeat	i64 metadata , string_ @lengthOf(
) i8 // c
u  `line1
line2`	,
}
")).
Eval vm_compute in ("<<<M1627>>>" ++ check (runes_of_ascii "packet
//	t
// trailing space 
_x {
// packet A { u8 x, }
// c
char[
3
    ] u8x @lengthOf(
u8x ) , @calculatedFrom(""" ++ [128512]%N ++ runes_of_ascii """ // @lengthOf(
)
i16	Foo
@lengthOf(	string_
    )`doc`	, repeat	i64 metadata , @lengthOf( string_
)  // c
u  `line1
line2`	,
}
")).
Eval vm_compute in ("<<<M1602>>>" ++ check (runes_of_ascii "packet
//	t
// trailing space 
_x {
// packet A { u8 x, }
// c
char[
3
    ] u8x @lengthOf(
u8x ) , @calculatedFrom(""" ++ [128512]%N ++ runes_of_ascii """ // @lengthOf(
)
i16	Foo
@lengthOf(	string_
    )`doc`	, repeat	i64  , @lengthOf( string_
) i8 // c
u  `line1
line2`	,
}
")).
Eval vm_compute in ("<<<M1542>>>" ++ check (runes_of_ascii "packet
//	t
// trailing space 
_x {
// packet A { u8 x, }
// c
char[
3
    ] u8x @lengthOf(
u8x ) , """ ++ [128512]%N ++ runes_of_ascii """ // @lengthOf(
)
i16	Foo
@lengthOf(	string_
    )`doc`	, repeat	i64 metadata , @lengthOf( string_
) i8 // c
u  `line1
line2`	,
}
")).
Eval vm_compute in ("<<<M3939>>>" ++ check (runes_of_ascii "packet metadata {
    @lengthOf(i8i8)
    match BodyLength as Foo {
        3 : len,
    },
    body @lengthOf(roots),
    f32a x,
}

root packet i8i8 {
    zchar[10] i64_ @calculatedFrom(""a\\"") `
    `,
}// packet A { u8 x, }")).
Eval vm_compute in ("<<<M3626>>>" ++ check (runes_of_ascii "options {
    StringPrefixLenType = u16;
    FixedStringPadChar = ' ';
}
packet Party {
}
packet Quote {
    repeat Party,
    repeat char[2] f1,
}
packet Logon {
}
root packet Cancel {
    uint16 x,
    zchar[6] f1,
}
")).
Eval vm_compute in ("<<<M3941>>>" ++ check (runes_of_ascii "
MetaData float{ 	 // " ++ [27880; 37322]%N ++ runes_of_ascii "
	}
root packet Header {
float{

    i32
    u8x
	@lengthOf(
a1)
`u8 x,`, 
}

,
char[] i64_@calculatedFrom(
	""a\\"" ) `" ++ [233]%N ++ runes_of_ascii "`,

    float64

packetx `{ , }`
	,
	} // packet A { u8 x, }
 
")).
Eval vm_compute in ("<<<M1782>>>" ++ check (runes_of_ascii "options { trueish = ""`tick`"" ; string_= """ ++ [233]%N ++ runes_of_ascii "t" ++ [233]%N ++ runes_of_ascii """
    // c
    } root
    packet body { stringy @calculatedFrom(
""a	b"" ) `line1
line2` , }
packet Logon Logon {
    @leftPad(
    ' ' ) //	t
u16 string_ `u8 x,` ,
}
")).
Eval vm_compute in ("<<<M1767>>>" ++ check (runes_of_ascii "options { trueish = ""`tick`"" ; string_= """ ++ [233]%N ++ runes_of_ascii "t" ++ [233]%N ++ runes_of_ascii """
    // c
    } root
    packet body { stringy @calculatedFrom(
""a	b"" ) `line1
line2` , , }
packet Logon {
    @leftPad(
    ' ' ) //	t
u16 string_ `u8 x,` ,
}
")).
Eval vm_compute in ("<<<M1674>>>" ++ check (runes_of_ascii "{ options trueish = ""`tick`"" ; string_= """ ++ [233]%N ++ runes_of_ascii "t" ++ [233]%N ++ runes_of_ascii """
    // c
    } root
    packet body { stringy @calculatedFrom(
""a	b"" ) `line1
line2` , }
packet Logon {
    @leftPad(
    ' ' ) //	t
u16 string_ `u8 x,` ,
}
")).
Eval vm_compute in ("<<<M1809>>>" ++ check (runes_of_ascii "options { trueish = ""`tick`"" ; string_= """ ++ [233]%N ++ runes_of_ascii "t" ++ [233]%N ++ runes_of_ascii """
    // c
    } root
    packet body { stringy @calculatedFrom(
""a	b"" ) `line1
line2` , }
packet Logon {
    @leftPad(
    ' ' 0 //	t
u16 string_ `u8 x,` ,
}
")).
Eval vm_compute in ("<<<M1801>>>" ++ check (runes_of_ascii "options { trueish = ""`tick`"" ; string_= """ ++ [233]%N ++ runes_of_ascii "t" ++ [233]%N ++ runes_of_ascii """
    // c
    } root
    packet body { stringy @calculatedFrom(
""a	b"" ) `line1
line2` , }
packet Logon {
    @leftPad(
     ) //	t
u16 string_ `u8 x,` ,
}
")).
Eval vm_compute in ("<<<M1681>>>" ++ check (runes_of_ascii "options {  = ""`tick`"" ; string_= """ ++ [233]%N ++ runes_of_ascii "t" ++ [233]%N ++ runes_of_ascii """
    // c
    } root
    packet body { stringy @calculatedFrom(
""a	b"" ) `line1
line2` , }
packet Logon {
    @leftPad(
    ' ' ) //	t
u16 string_ `u8 x,` ,
}
")).
Eval vm_compute in ("<<<M1193>>>" ++ check (runes_of_ascii "MetaData// trailing space 
int {// " ++ [27880; 37322]%N ++ runes_of_ascii "
u128 uint8x , // a // b
string
    o ,A metadata `u8 x,`  ,
char[  10 ]
rootA
    , packetx x_y_z `doc` ,  string_ // `tick` ""quote"" 'q'
trueish`doc` , }")).
Eval vm_compute in ("<<<M3607>>>" ++ check (runes_of_ascii "root packet Frame {
    u8 K,
    Logon first,
    match K as Body {
        1 : Logon,
        2 : Logout,
    },
}
packet Logon {
    string user,
}
packet Logout {
    u16 reason,
}
")).
Eval vm_compute in ("<<<M187>>>" ++ check (runes_of_ascii "root packet u128 { char[  7 ]tag@calculatedFrom(
""\" ++ [233]%N ++ runes_of_ascii """
    ) // " ++ [128512]%N ++ runes_of_ascii " emoji
`" ++ [233]%N ++ runes_of_ascii "`, @rightPad ( )
    packetx , @lengthOf(  o
    )	lengthOf
@lengthOf( float )
`// not a comment`,
}
")).
Eval vm_compute in ("<<<M4045>>>" ++ check (runes_of_ascii "packet Z9_ {
    // trailing space 
    // " ++ [128512]%N ++ runes_of_ascii " emoji
    @calculatedFrom(""1"")
    // packet A { u8 x, }
    matchKey @calculatedFrom(""" ++ [128512]%N ++ runes_of_ascii """) `tab	here`,
}
// packet A { u8 x, }")).
Eval vm_compute in ("<<<M3918>>>" ++ check (runes_of_ascii "  root packet

options1  {
}options

{

u 
=

    4294967296 
As=
    ""abc"" f32a
	=' '
	; len// packet A { u8 x, }
    = char[] 
;

    uint8x

    = true 
}
")).
Eval vm_compute in ("<<<M2356>>>" ++ check (runes_of_ascii "// c
packet x { @lengthOf( metadata ) repeat lengthOf
,a1{
trueish	,// c
repeat//	t
MetaDataX , } , zchar[ zchar[
    42	] rootA // `tick` ""quote"" 'q'
,
    }
")).
Eval vm_compute in ("<<<M34>>>" ++ check (runes_of_ascii "// " ++ [27880; 37322]%N ++ runes_of_ascii "
root packet chars { @rightPad(
    //	t
    )
    u8x @calculatedFrom( ""a	b"" ) `line1
line2` ,
repeat
tag {
    repeat options1 f32a
    `" ++ [28040; 24687; 31867; 22411]%N ++ runes_of_ascii "` , },	}
")).
Eval vm_compute in ("<<<M2374>>>" ++ check (runes_of_ascii "// c
packet x { @lengthOf( metadata ) repeat lengthOf
10 a1{
trueish	,// c
repeat//	t
MetaDataX , } , zchar[
    42	] rootA // `tick` ""quote"" 'q'
,
    }
")).
Eval vm_compute in ("<<<M2110>>>" ++ check (runes_of_ascii "options{
_x
= true
} options
{ { o	= /// triple
false
    ; chars
= ""\n"" } root packet	Pad
/// triple
// packet A { u8 x, }
{	chars
    // a // b
    ,}")).
Eval vm_compute in ("<<<M2082>>>" ++ check (runes_of_ascii "options _x
{
= true
} options
{ o	= /// triple
false
    ; chars
= ""\n"" } root packet	Pad
/// triple
// packet A { u8 x, }
{	chars
    // a // b
    ,}")).
Eval vm_compute in ("<<<M2101>>>" ++ check (runes_of_ascii "options{
_x
= true
options }
{ o	= /// triple
false
    ; chars
= ""\n"" } root packet	Pad
/// triple
// packet A { u8 x, }
{	chars
    // a // b
    ,}")).
Eval vm_compute in ("<<<M2089>>>" ++ check (runes_of_ascii "options{
_x
 true
} options
{ o	= /// triple
false
    ; chars
= ""\n"" } root packet	Pad
/// triple
// packet A { u8 x, }
{	chars
    // a // b
    ,}")).
Eval vm_compute in ("<<<M2378>>>" ++ check (runes_of_ascii "// c
packet x { @lengthOf( metadata ) repeat lengthOf
,a1{
trueish	,// c
]//	t
MetaDataX , } , zchar[
    42	] rootA // `tick` ""quote"" 'q'
,
    }
")).
Eval vm_compute in ("<<<M2403>>>" ++ check (runes_of_ascii "// c
packet x { @lengthOf( metadata ) repeat lengthOf
,a1{
	,// c
repeat//	t
MetaDataX , } , zchar[
    42	] rootA // `tick` ""quote"" 'q'
,
    }
")).
Eval vm_compute in ("<<<M868>>>" ++ check (runes_of_ascii "MetaData  tag
    {char[ 3
    // trailing space 
    ]u8x , packetx a1 , } // packet A { u8 x, }
MetaData chars
{ i16 uint8x
    `tab	here` ,}")).
Eval vm_compute in ("<<<M4179>>>" ++ check (runes_of_ascii "root
    packet matchKey  { zchar[	3 ] 
pack 
@calculatedFrom( ""a	b"" 
)`doc` ,
}
options { }
MetaData
    // c
  	A{
	int8

msg_type , }

")).
Eval vm_compute in ("<<<M4057>>>" ++ check (runes_of_ascii "packet	A {match

    k as
n 
{
    [ 1
	,
	22,
007
,
4 , 5 ,66
,

    7 ,
8 ,  9

, 10 ,	11 ,
    12
]
:	B
    2 :
	C

} ,}
")).
Eval vm_compute in ("<<<M1443>>>" ++ check (runes_of_ascii "
packet
    falsey { Header@calculatedFrom(""packet""  ) , char[
    0123456789 0123456789 ] packetx
    , } // `tick` ""quote"" 'q'")).
Eval vm_compute in ("<<<M1413>>>" ++ check (runes_of_ascii "
packet
    falsey { Header Header@calculatedFrom(""packet""  ) , char[
    0123456789 ] packetx
    , } // `tick` ""quote"" 'q'")).
Eval vm_compute in ("<<<M1142>>>" ++ check (runes_of_ascii "root
    packet Foo	{@rightPad ( '\x00' ) Header
    // " ++ [27880; 37322]%N ++ runes_of_ascii "
    Pad
`tab	here`,@rightPad  (
'\x00'
) zchar[ 1	]x_y_z , }
")).
Eval vm_compute in ("<<<M3341>>>" ++ check (runes_of_ascii "root packet matchKey { zchar[ 3 ] pack @calculatedFrom( ""a	b"" ) `doc` , } options
// c
{ } MetaData A { int8 msg_type , }")).
Eval vm_compute in ("<<<M1463>>>" ++ check (runes_of_ascii "
packet
    falsey { Header@calculatedFrom(""packet""  ) , char[
    0123456789 ] packetx
    , } } // `tick` ""quote"" 'q'")).
Eval vm_compute in ("<<<M1401>>>" ++ check (runes_of_ascii "
char[]
    falsey { Header@calculatedFrom(""packet""  ) , char[
    0123456789 ] packetx
    , } // `tick` ""quote"" 'q'")).
Eval vm_compute in ("<<<M1551>>>" ++ check (runes_of_ascii "packet
//	t
// trailing space 
_x {
// packet A { u8 x, }
// c
char[
3
    ] u8x @lengthOf(
u8x ) , @calculatedFrom(")).
Eval vm_compute in ("<<<M1486>>>" ++ check (runes_of_ascii "
packet
    falsey { Header@calculatedFrom(""packet""  ) , char[
    0123456789 ] " ++ [21517; 23383]%N ++ runes_of_ascii "
    , } // `tick` ""quote"" 'q'")).
Eval vm_compute in ("<<<M1422>>>" ++ check (runes_of_ascii "
packet
    falsey { Header@calculatedFrom(  ) , char[
    0123456789 ] packetx
    , } // `tick` ""quote"" 'q'")).
Eval vm_compute in ("<<<M864>>>" ++ check (runes_of_ascii "options	{ T = // packet A { u8 x, }
true;_x = false	; A
= ""{,}"" ; leftPad=	zchar[ 0 ] ; trueish=
1 ;//
}")).
Eval vm_compute in ("<<<M4565>>>" ++ check (runes_of_ascii "options {
    u = uint16
    i8i8 = i8;
    string_ = false;
    asx = true
    lengthOf = 0123456789;
}")).
Eval vm_compute in ("<<<M3601>>>" ++ check (runes_of_ascii "packet FooBar {
    u8 a,
}
packet foo_bar {
    u16 b,
}
root packet R {
    FooBar,
    foo_bar,
}
")).
Eval vm_compute in ("<<<M26>>>" ++ check (runes_of_ascii "options // " ++ [27880; 37322]%N ++ runes_of_ascii "
{Packet = 4294967296
; i64_  = // c
""1"" ;	Z9_ = ""abc"" ; options1 =
""a\\""
; o=0  ; }")).
Eval vm_compute in ("<<<M2960>>>" ++ check (runes_of_ascii "packet A {
  match k as n {
    [""a"", ""bb"", 007, ""d"", ""e"", 66, ""g"", ""h"", 9] : B
    2 : C
  },
}")).
Eval vm_compute in ("<<<M998>>>" ++ check (runes_of_ascii "  MetaData stringy { zchar[ 4294967296
] charz , string// `tick` ""quote"" 'q'
x_y_z
    ,  }

")).
Eval vm_compute in ("<<<M2274>>>" ++ check (runes_of_ascii "options
{ } options { BodyLength= u16 Header= f64 ; u128 string
    true
    ; } // a // b")).
Eval vm_compute in ("<<<M4440>>>" ++ check (runes_of_ascii "MetaData 	 // c
  	body {i64 pack
`it's`	,}
packet

stringy
	{
int16  calculatedFrom,	}
")).
Eval vm_compute in ("<<<M3289>>>" ++ check (runes_of_ascii "MetaData float { float64 charz `
` , } root packet chars // c
{ @rightPad ( '0' ) Foo , }")).
Eval vm_compute in ("<<<M3500>>>" ++ check (runes_of_ascii "packet chars { } packet MetaDataX { @tag(
// c
42 ) i16 string_ , repeat x `say ""hi""` , }")).
Eval vm_compute in ("<<<M2272>>>" ++ check (runes_of_ascii "options
{ } options { BodyLength= u16 Header= f64 ; u128 = =
    true
    ; } // a // b")).
Eval vm_compute in ("<<<M2929>>>" ++ check (runes_of_ascii "packet A {
  match k as n {
    [""a"", 22, ""c c"", 4, ""e"", 66, ""g""] : B,
    2 : C
  },
}")).
Eval vm_compute in ("<<<M2278>>>" ++ check (runes_of_ascii "options
{ } options { BodyLength= u16 Header= f64 ; u128 =
    ;
    true } // a // b")).
Eval vm_compute in ("<<<M3240>>>" ++ check (runes_of_ascii "packet metadata { Logon { A `" ++ [28040; 24687; 31867; 22411]%N ++ runes_of_ascii "` , tag o , } , zchar
// c
len `// not a comment` , }")).
Eval vm_compute in ("<<<M3431>>>" ++ check (runes_of_ascii "packet o // c
{ repeat Logon uint8x , } options { asx = zchar[ 3 ] stringy = '\x00' }")).
Eval vm_compute in ("<<<M3463>>>" ++ check (runes_of_ascii "packet o { repeat Logon uint8x , } options { asx = zchar[ 3 ] stringy = '\x00' // c
}")).
Eval vm_compute in ("<<<M2921>>>" ++ check (runes_of_ascii "packet A {
  match k as n {
    [""a"", ""bb"", 007, ""d"", ""e"", 66] : B
    2 : C
  },
}")).
Eval vm_compute in ("<<<M3406>>>" ++ check (runes_of_ascii "MetaData body { i64 pack `it's` , // c
} packet stringy { int16 calculatedFrom , }")).
Eval vm_compute in ("<<<M3589>>>" ++ check (runes_of_ascii "packet orderItem {
    u8 a,
}
root packet newOrder {
    orderItem,
    u8 x,
}
")).
Eval vm_compute in ("<<<M3863>>>" ++ check (runes_of_ascii "packet 

//	t
	lengthOf
{
@tag(
3
	)	@lengthOf( lengthOf ) u64 options1,  }
")).
Eval vm_compute in ("<<<M885>>>" ++ check (runes_of_ascii "
packet msg_type { @tag(// " ++ [27880; 37322]%N ++ runes_of_ascii "
00 //	t
)
zchar[ 0123456789 ] //	t
rootA	, }")).
Eval vm_compute in ("<<<M451>>>" ++ check (runes_of_ascii "options{ } root
packet
    packetx {
// `tick` ""quote"" 'q'
// " ++ [128512]%N ++ runes_of_ascii " emoji
}
")).
Eval vm_compute in ("<<<M1919>>>" ++ check (runes_of_ascii "MetaData
    u { }  options {
// c
// @lengthOf(
float = int8 ;rootA =")).
Eval vm_compute in ("<<<M4595>>>" ++ check (runes_of_ascii "

  root
    packet 
P{ hdr	{

    u8
	a

    ,

} ,

u8 x
,}

")).
Eval vm_compute in ("<<<M3708>>>" ++ check (runes_of_ascii "root

    packet
    u128 {
    chars

    `it's`
,	} 

// c
")).
Eval vm_compute in ("<<<M103>>>" ++ check (runes_of_ascii "
packet float {
} MetaData As { char[]
    trueish , }
// " ++ [27880; 37322]%N ++ runes_of_ascii "
")).
Eval vm_compute in ("<<<M3942>>>" ++ check (runes_of_ascii "packet

// a // b
matchKey 
{ 
@tag(//

0
    )repeat
u
,
}")).
Eval vm_compute in ("<<<M3365>>>" ++ check (runes_of_ascii "packet // c
x { @rightPad ( ) repeat roots Logon `doc` , }")).
Eval vm_compute in ("<<<M3172>>>" ++ check (runes_of_ascii "packet A { @tag(1) // a
 @leftPad('0') // b
 char[4] x, }")).
Eval vm_compute in ("<<<M165>>>" ++ check (runes_of_ascii "packet x
{ @lengthOf( x_y_z )
BodyLength tag // c
,}
")).
Eval vm_compute in ("<<<M3169>>>" ++ check (runes_of_ascii "packet A { B { // a
 u8 x, // b
 } // c
 , // d
 }")).
Eval vm_compute in ("<<<M3011>>>" ++ check (runes_of_ascii "MetaData M {
    u8 x `a
b`,
    T t `a
b`,
}")).
Eval vm_compute in ("<<<M2836>>>" ++ check (runes_of_ascii "u16 options zchar[ char[] match i32 42 repeat")).
Eval vm_compute in ("<<<M728>>>" ++ check (runes_of_ascii "options { options1 = float64
    ; } // " ++ [27880; 37322]%N)).
Eval vm_compute in ("<<<M2800>>>" ++ check (runes_of_ascii "packet int32 options i32 MetaData packet")).
Eval vm_compute in ("<<<M3958>>>" ++ check (runes_of_ascii "MetaData packetx {
    zchar[7] u128,
}")).
Eval vm_compute in ("<<<M243>>>" ++ check (runes_of_ascii "// c
root packet
calculatedFrom { }
")).
Eval vm_compute in ("<<<M2695>>>" ++ check (runes_of_ascii "@&%t""ZYSa""[h-SeOaEg6\yrr.ozSs#Cy5AO")).
Eval vm_compute in ("<<<M931>>>" ++ check (runes_of_ascii "root packet stringy {
_x Pad , }
")).
Eval vm_compute in ("<<<M3568>>>" ++ check (runes_of_ascii "root packet P {
    string s,
}
")).
Eval vm_compute in ("<<<M2760>>>" ++ check (runes_of_ascii "RhCe{*)SOkbY3jNAmCPh}|2~2jWOF^")).
Eval vm_compute in ("<<<M2814>>>" ++ check (runes_of_ascii " y!?qy-V\MAcTKR_L,7(1t1T$HN/[")).
Eval vm_compute in ("<<<M2699>>>" ++ check (runes_of_ascii "9fg42cfm:PE.""_7ZnAcePs7rsPF")).
Eval vm_compute in ("<<<M3855>>>" ++ check (runes_of_ascii "

  packet

x {

    }
")).
Eval vm_compute in ("<<<M899>>>" ++ check (runes_of_ascii "
MetaData Pad
    {  }
")).
Eval vm_compute in ("<<<M171>>>" ++ check (runes_of_ascii "packet options1 {  }

")).
Eval vm_compute in ("<<<M733>>>" ++ check (runes_of_ascii "packet  Z9_{
    }
")).
Eval vm_compute in ("<<<M2573>>>" ++ check (runes_of_ascii "packet A { x y z, }")).
Eval vm_compute in ("<<<M2662>>>" ++ check (runes_of_ascii "options { a = 1, }")).
Eval vm_compute in ("<<<M3135>>>" ++ check (runes_of_ascii "packet A {
}
// c" ++ [65279]%N)).
Eval vm_compute in ("<<<M3098>>>" ++ check (runes_of_ascii "packet A {
}// c" ++ [8233]%N)).
Eval vm_compute in ("<<<M1380>>>" ++ check (runes_of_ascii "packet x  { }
")).
Eval vm_compute in ("<<<M248>>>" ++ check (runes_of_ascii "
options
{}")).
Eval vm_compute in ("<<<M2629>>>" ++ check (runes_of_ascii "packet { }")).
Eval vm_compute in ("<<<M723>>>" ++ check (runes_of_ascii "//x
 	 ")).
Eval vm_compute in ("<<<M2691>>>" ++ check (runes_of_ascii "MLpc5K")).
Eval vm_compute in ("<<<M3064>>>" ++ check (runes_of_ascii "// c" ++ [12288]%N)).
Eval vm_compute in ("<<<M2517>>>" ++ check (runes_of_ascii """//""")).
Eval vm_compute in ("<<<M2530>>>" ++ check (runes_of_ascii "1.5")).
Eval vm_compute in ("<<<M2531>>>" ++ check (runes_of_ascii "-1")).
Eval vm_compute in ("<<<M2852>>>" ++ check ([31]%N)).
