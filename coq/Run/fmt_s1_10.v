From FP Require Import Lexer Parser ShowPT Digest Formatter.
From Coq Require Import String List NArith.
Import ListNotations.
Open Scope string_scope.
Set Printing Width 100000000.
Set Printing Depth 100000000.
Definition show_fres (r : fres) : string :=
  match r with
  | FOk s => "OK:" ++ sh_escaped s ""
  | FErr s => "ERR:" ++ sh_escaped s ""
  | FPanic p => "PANIC:" ++ p
  end.
Definition check (rs : list rune) : string := digest (show_fres (format_res rs)).
Definition full (rs : list rune) : string := show_fres (format_res rs).
Eval vm_compute in ("<<<M1564>>>" ++ check (runes_of_ascii "// top
options
    // c0
{ // c1
LittleEndian
    // c2
= // c3
false ; FixedStringPadFromLeft // c6a
  // c6b
= // c7a
  // c7b
false // c8
; FixedStringPadChar
    // c10
= ' ' // c12
; // c13
}
    // c14
packet Fill
    // c16
{ uint16 // c18
Qty
    // c19
, // c20a
  // c20b
uint64 clOrdID , // c23a
  // c23b
repeat // c24a
  // c24b
i64
    // c25
Flags
    // c26
, // c27a
  // c27b
}
    // c28
packet
    // c29
Ack // c30
{ // c31a
  // c31b
zchar[
    // c32
7 ] // c34a
  // c34b
clOrdID , u64 // c37a
  // c37b
lastPx // c38
, // c39
char[] // c40a
  // c40b
Note // c41a
  // c41b
, // c42a
  // c42b
repeat Fill
    // c44
,
    // c45
int32 // c46
count // c47a
  // c47b
, // c48
} packet Quote { // c52a
  // c52b
u8 venue ,
    // c55
InRef40
    // c56
{
    // c57
char[] // c58a
  // c58b
Qty // c59
,
    // c60
} // c61a
  // c61b
, // c62a
  // c62b
zchar[
    // c63
5 // c64a
  // c64b
] Flags // c66a
  // c66b
,
    // c67
@rightPad // c68a
  // c68b
( // c69a
  // c69b
'\x00' // c70a
  // c70b
) // c71a
  // c71b
char[ // c72a
  // c72b
12 // c73a
  // c73b
]
    // c74
msgKind // c75a
  // c75b
, // c76
} // c77a
  // c77b
packet Logout // c79
{ InSym79 // c81
{
    // c82
int32 Qty // c84a
  // c84b
, // c85
Fill
    // c86
, char[ 3 // c89
] // c90
x ,
    // c92
repeat // c93
InNote29 // c94
{ // c95a
  // c95b
i16 // c96
price
    // c97
,
    // c98
Ack // c99a
  // c99b
, // c100a
  // c100b
f64 x , zchar[
    // c104
8
    // c105
]
    // c106
count , // c108
}
    // c109
, // c110
} // c111
,
    // c112
} root // c114a
  // c114b
packet // c115a
  // c115b
Logon {
    // c117
zchar[ 1 // c119
] // c120a
  // c120b
sym // c121
,
    // c122
u32 // c123a
  // c123b
count // c124
, u16
    // c126
tag7 @lengthOf(
    // c128
Body // c129a
  // c129b
) // c130a
  // c130b
,
    // c131
match // c132
count as
    // c134
Body { // c136
[
    // c137
122 // c138
,
    // c139
152
    // c140
] // c141a
  // c141b
: Ack
    // c143
, 118
    // c145
: // c146
Logout
    // c147
, // c148a
  // c148b
61 // c149
: // c150a
  // c150b
Quote , // c152
161 // c153
: // c154
Fill // c155a
  // c155b
, // c156
} // c157
, u32 // c159a
  // c159b
Acct
    // c160
@calculatedFrom( // c161
""CRC32"" ) // c163a
  // c163b
, } ")).
Eval vm_compute in ("<<<M322>>>" ++ check (runes_of_ascii "
packet
metadata {
i8 BodyLength,
asx `two words`  ,char[ 0123456789] asx`" ++ [28040; 24687; 31867; 22411]%N ++ runes_of_ascii "`// " ++ [128512]%N ++ runes_of_ascii " emoji
, @tag(
42/// triple
)
    repeat	charz `crlf
line` ,
body ,@tag( 65535  ) match
    // " ++ [128512]%N ++ runes_of_ascii " emoji
    Pad as x_y_z  { ""{,}"" :
u , } ,
    repeat Foo
    {repeat pack {
// `tick` ""quote"" 'q'
// `tick` ""quote"" 'q'
f32 calculatedFrom
    @lengthOf( options1
    )
,
//x
// c
}
, int32 Header @calculatedFrom(""a	b"")
, char[]
zchar
    `
`
    ,
    zchar[00 ]a1 @calculatedFrom(
    // c
    ""{,}"") `crlf
line` , }
,
    body zchar ,i64_ @calculatedFrom( ""a\\""  )
, // " ++ [27880; 37322]%N ++ runes_of_ascii "
match
/// triple
// " ++ [27880; 37322]%N ++ runes_of_ascii "
zchar
as zchar {	1 : u128
    ,
255
: packetx, [""{,}"" ,""// no comment"",  0 , 65535 ,  3 ] :  u8x, 0123456789:  calculatedFrom // `tick` ""quote"" 'q'
, 10 : Header	,
}
    ,
}packet string_
{ @tag( 10 ) T, @calculatedFrom(""CRC32""//	t
)@lengthOf(charz )@lengthOf(
zchar) zchar[
42
    ] // a // b
a1 `" ++ [233]%N ++ runes_of_ascii "` , int32 x `two words` //
, float32 repeatCount ,
    //
    @lengthOf(
    Packet) @rightPad('0'	) // @lengthOf(
@calculatedFrom(""a\""b"") zchar[ 0 ]	repeatCount @lengthOf(
BodyLength  ) // trailing space 
, float,
repeat
zchar
// trailing space 
//x
,} root packet body
{  @lengthOf(msg_type) repeat
    u128 {// trailing space 
char[
// " ++ [128512]%N ++ runes_of_ascii " emoji
//
0123456789 ]options1
,
}	, //	t
f64
    u128`it's`	,// @lengthOf(
repeat  i64 charz ,
@calculatedFrom( """ ++ [128512]%N ++ runes_of_ascii """ )
    repeat char
    roots, } packet
metadata // @lengthOf(
{ // trailing space 
@lengthOf( // packet A { u8 x, }
BodyLength ) @tag( 4294967296  ) f32a
A
, } MetaData u128 { } //")).
Eval vm_compute in ("<<<M1533>>>" ++ check (runes_of_ascii "options {
    StringPrefixLenType = u16;
    ArrayPrefixLenType = u8;
    FixedStringPadFromLeft = true;
    FixedStringPadChar = ' ';
}
packet Quote {
    int64 OrderId,
    char[] Ref,
    @leftPad('0') char[5] price,
}
packet Heartbeat {
    zchar[3] venue,
    string Flags,
}
packet Trade {
    repeat InTag787 {
        i32 venue,
        char[5] sym,
        repeat InPx98 {
            char[11] Qty,
            Heartbeat,
            char[] price,
            u32 x,
            float64 count,
            repeat Quote,
        },
        zchar[7] Note,
        repeat char[1] Tail,
    },
    repeat char[2] seqNo,
    InTail55 {
        repeat Quote,
        string msgKind,
        InPx18 {
            char[] count,
            repeat Quote,
            uint16 Qty,
        },
        char[4] seqNo,
        repeat Heartbeat,
        repeat string sym,
    },
    repeat Quote,
    Heartbeat,
    @leftPad(' ') char[10] OrderId,
}
root packet Fill {
    Heartbeat,
    uint32 count,
    u8 OrderId,
    match OrderId as Body {
        96 : Quote,
        195 : Trade,
        187 : Heartbeat,
    },
    u32 venue @calculatedFrom(""CRC32""),
}
")).
Eval vm_compute in ("<<<M204>>>" ++ check (runes_of_ascii "options {
chars  =
    //x
    ' '	}
root packet	string_ {i8i8 @lengthOf(
Z9_ )
,	match int as chars // c
{ 007: body	,[ // packet A { u8 x, }
42 ] : int	, ""`tick`"" : options1
, } ,
@leftPad ( ' ' )uint16 crc `it's` , // a // b
float64  packetx
@lengthOf( crc // " ++ [27880; 37322]%N ++ runes_of_ascii "
)// trailing space 
, @tag(4294967296
) match int
as chars{4294967296
    : Foo ,
1:
asx 10
: Pad
    0123456789	: string_
,
3
// " ++ [27880; 37322]%N ++ runes_of_ascii "
// " ++ [128512]%N ++ runes_of_ascii " emoji
: T , ""it's""  : As  } , repeat  float falsey `say ""hi""`  ,
match uint8x as zchar { ""// no comment""
    : body
, 0123456789 : crc , ""{,}"" : o } ,repeat o chars ,uint32
As
`doc` ,
repeat trueish
{ char[
    7
] i64_
`{ , }`  , }
, } packet
    Packet {
zchar[ 0123456789 ] matchKey @lengthOf( chars
)  ,  x
//	t
// a // b
{
u64 o ,} , zchar[
    // a // b
    1 ]
    MetaDataX
@calculatedFrom(
"""" ), char[]lengthOf// trailing space 
@calculatedFrom( // " ++ [27880; 37322]%N ++ runes_of_ascii "
""a\""b""
) `
` ,@rightPad( ' ' ) //	t
uint16
len `a\` , @lengthOf( //x
tag )
char[ 65535
] pack ``, }
")).
Eval vm_compute in ("<<<M1980>>>" ++ check (runes_of_ascii "packet _x {

    u , @lengthOf(	len
)
    match
    f32a	as
Pad {

    ""packet"":

metadata ,	""CRC32""  :x_y_z

    [
""abc""
,""{,}""
    ] :
Logon

    ,}
    // c
      ,

zchar[
7 ]

    a1

    ,  @tag(

65535  ) @tag(

0123456789 )
	//x
	@lengthOf(asx
) repeat
i16 	 // @lengthOf(
    tag

    `{ , }`  // `tick` ""quote"" 'q'
	,
@leftPad	(

'\x00'
)

match  i64_ as x{
0
	:
crc
,
	[ 
    //	t
// trailing space 
      ""// no comment""

    ]  :
	uint8x, 42
    // a // b
  // trailing space 
    :
string_ , 
007:
	trueish
	, [

10

] // " ++ [128512]%N ++ runes_of_ascii " emoji
    	: 
rootA

""" ++ [28040; 24687]%N ++ runes_of_ascii """ :// trailing space 
  len ,	}	//

  ,	@rightPad 
('\x00'	// trailing space 
) 
@tag(
//
      00

)@calculatedFrom(	""" ++ [233]%N ++ runes_of_ascii "t" ++ [233]%N ++ runes_of_ascii """
    )  // c
    char[]

float@calculatedFrom(
""\n"" ) ,repeat
f32 trueish
`crlf
line`
, } // @lengthOf(
 
")).
Eval vm_compute in ("<<<M1583>>>" ++ check (runes_of_ascii "// top
options
    // c0
{ // c1
LittleEndian =
    // c3
true // c4a
  // c4b
; } // c6a
  // c6b
packet // c7a
  // c7b
Sub // c8a
  // c8b
{
    // c9
u8 a // c11a
  // c11b
, @calculatedFrom( // c13a
  // c13b
""CRC16"" // c14a
  // c14b
)
    // c15
u64
    // c16
SubSum , } // c19a
  // c19b
root
    // c20
packet // c21
Frame // c22
{
    // c23
u16 MsgType // c25
, // c26a
  // c26b
u16 // c27
BodyLen
    // c28
@lengthOf(
    // c29
Body // c30a
  // c30b
) // c31
, Sub // c33
Body // c34
, string
    // c36
note // c37a
  // c37b
, // c38
@calculatedFrom( ""CRC16"" // c40a
  // c40b
) // c41
u64 Checksum // c43a
  // c43b
,
    // c44
u8 tail // c46
, // c47a
  // c47b
}
    // c48
")).
Eval vm_compute in ("<<<M186>>>" ++ check (runes_of_ascii "packet Packet { @tag(	65535 ) @leftPad ( ' '
    )
@tag( 255
    /// triple
    )
    uint8
len
    @lengthOf( T), int32 u8x , @lengthOf( rootA )float32 i64_
`u8 x,` , } packet// c
int { repeat	i8i8
{lengthOf
    @lengthOf( int)`line1
line2`
, string	falsey `
` ,uint16
// `tick` ""quote"" 'q'
// trailing space 
roots
@lengthOf(
charz), } , }options
    { Foo = ' '	len  = """ ++ [128512]%N ++ runes_of_ascii """
; chars= u64 ;
//x
//
uint8x // a // b
=	""" ++ [128512]%N ++ runes_of_ascii """
    // trailing space 
    ;metadata= ' ' ; }
    // " ++ [27880; 37322]%N ++ runes_of_ascii "
    MetaData Header
    // " ++ [27880; 37322]%N ++ runes_of_ascii "
    {
i16
    matchKey,Packet Packet `u8 x,`  , }packet u128 {uint8x
@lengthOf(charz) `u8 x,`	, }
")).
Eval vm_compute in ("<<<M157>>>" ++ check (runes_of_ascii "root
packet o { @leftPad (
    '0'  )repeat uint16 o // `tick` ""quote"" 'q'
,// `tick` ""quote"" 'q'
@tag( 1
    // `tick` ""quote"" 'q'
    )
//x
// " ++ [128512]%N ++ runes_of_ascii " emoji
@tag( 65535 ) u32 options1 ,@lengthOf( i8i8) @lengthOf(int ) @leftPad// " ++ [27880; 37322]%N ++ runes_of_ascii "
() char[  42 ] len @calculatedFrom( ""packet"" ) ,
    u32 Foo @calculatedFrom( ""a\\"") ,
    } packet a1 {@lengthOf(
    A /// triple
)	Foo MetaDataX `it's`, Z9_ metadata
    //
    `" ++ [28040; 24687; 31867; 22411]%N ++ runes_of_ascii "` ,
match MetaDataX
    as falsey { [ 42
    ]
    :body // " ++ [128512]%N ++ runes_of_ascii " emoji
[""packet""	, 4294967296]
    :  A} , Z9_ ,}")).
Eval vm_compute in ("<<<M1466>>>" ++ check (runes_of_ascii "// top
options // c0
{ // c1a
  // c1b
LittleEndian =
    // c3
true // c4a
  // c4b
;
    // c5
} // c6a
  // c6b
packet
    // c7
B // c8
{
    // c9
u8 // c10
a // c11
, // c12
string
    // c13
s // c14a
  // c14b
, // c15
}
    // c16
root
    // c17
packet // c18
P // c19
{ // c20
u16 // c21a
  // c21b
L // c22a
  // c22b
@lengthOf( // c23
B // c24a
  // c24b
)
    // c25
, B
    // c27
,
    // c28
u8
    // c29
t , // c31a
  // c31b
} // c32
")).
Eval vm_compute in ("<<<M328>>>" ++ check (runes_of_ascii "packet string_ { @lengthOf( int) BodyLength u8x,i64_ `tab	here`
// " ++ [128512]%N ++ runes_of_ascii " emoji
// @lengthOf(
,char[  3 ] /// triple
string_  ,repeat leftPad `" ++ [28040; 24687; 31867; 22411]%N ++ runes_of_ascii "`  ,
repeat int32
/// triple
// `tick` ""quote"" 'q'
BodyLength`u8 x,`, // `tick` ""quote"" 'q'
@tag( 4294967296
) BodyLength	`crlf
line`
    ,  msg_type Packet `" ++ [233]%N ++ runes_of_ascii "`
    , float32 string_ // trailing space 
@calculatedFrom(""""  )
, asx int
    `it's` , }
")).
Eval vm_compute in ("<<<M1806>>>" ++ check (runes_of_ascii "options	{
}
    root 

// a // b

packet
x  //	t
{	match len

    as x { [ 7 ,

42
,
007 , 	 //x
      255 	 // trailing space 
    ,""// no comment""
	    // `tick` ""quote"" 'q'
	// " ++ [128512]%N ++ runes_of_ascii " emoji
    ]

:

x_y_z ,""`tick`""
    :u128,
    3:	string_ 
  /// triple
		,
[ ""CRC32"" 
]
    : trueish,

4294967296 :	Foo
,

    [
0] : lengthOf
}

    ,

}")).
Eval vm_compute in ("<<<M1738>>>" ++ check (runes_of_ascii "
options
    {	charz 
= ""x y""	calculatedFrom ='0'
}  packet 
msg_type{ msg_type  asx	,
	string // packet A { u8 x, }
    packetx
	,
MetaDataX
    ,Header
    { 
i64 packetx`tab	here`
, } , } options{ // @lengthOf(
	uint8x

    =
    0

    x_y_z
=""x y""  
      // packet A { u8 x, }

	//	t
  ;
    }
")).
Eval vm_compute in ("<<<M238>>>" ++ check (runes_of_ascii "MetaData
    a1 { // a // b
}options { o
= 255
; } packet f32a //
{ uint8 _x	@calculatedFrom( ""x y""
)	,}MetaData
    options1
{  f64 lengthOf `it's`
,lengthOf metadata,	int8 crc
`
` /// triple
,
    char[0123456789//	t
]o ,
// " ++ [128512]%N ++ runes_of_ascii " emoji
// packet A { u8 x, }
char[] //	t
a1,}
")).
Eval vm_compute in ("<<<M524>>>" ++ check (runes_of_ascii "root packet tag { }  packet MetaDataX{char[007 007	]
// c
/// triple
asx  @calculatedFrom( ""a\""b""
) `say ""hi""`// " ++ [27880; 37322]%N ++ runes_of_ascii "
,  @tag(4294967296 )
    char[1//x
] packetx @calculatedFrom(""a\""b""
    ) ,
// " ++ [128512]%N ++ runes_of_ascii " emoji
// a // b
@calculatedFrom(""" ++ [233]%N ++ runes_of_ascii "t" ++ [233]%N ++ runes_of_ascii """  ) repeat pack // " ++ [27880; 37322]%N ++ runes_of_ascii "
,
    } // c")).
Eval vm_compute in ("<<<M1634>>>" ++ check (runes_of_ascii "packet Foo {
    @calculatedFrom("""")
    @calculatedFrom(""1"")
    @rightPad()
    int32 As @calculatedFrom("""") `say ""hi""`,
    @calculatedFrom(""\n"")
    // trailing space 
    /// triple
    char[65535] asx,
    repeat int8 trueish `{ , }`,
}

root packet lengthOf {
}")).
Eval vm_compute in ("<<<M521>>>" ++ check (runes_of_ascii "root packet tag { }  packet MetaDataX{true 007	]
// c
/// triple
asx  @calculatedFrom( ""a\""b""
) `say ""hi""`// " ++ [27880; 37322]%N ++ runes_of_ascii "
,  @tag(4294967296 )
    char[1//x
] packetx @calculatedFrom(""a\""b""
    ) ,
// " ++ [128512]%N ++ runes_of_ascii " emoji
// a // b
@calculatedFrom(""" ++ [233]%N ++ runes_of_ascii "t" ++ [233]%N ++ runes_of_ascii """  ) repeat pack // " ++ [27880; 37322]%N ++ runes_of_ascii "
,
    } // c")).
Eval vm_compute in ("<<<M573>>>" ++ check (runes_of_ascii "root packet tag { }  packet MetaDataX{char[007	]
// c
/// triple
asx  @calculatedFrom( ""a\""b""
) `say ""hi""`// " ++ [27880; 37322]%N ++ runes_of_ascii "
,  @tag(4294967296 
    char[1//x
] packetx @calculatedFrom(""a\""b""
    ) ,
// " ++ [128512]%N ++ runes_of_ascii " emoji
// a // b
@calculatedFrom(""" ++ [233]%N ++ runes_of_ascii "t" ++ [233]%N ++ runes_of_ascii """  ) repeat pack // " ++ [27880; 37322]%N ++ runes_of_ascii "
,
    } // c")).
Eval vm_compute in ("<<<M556>>>" ++ check (runes_of_ascii "root packet tag { }  packet MetaDataX{char[007	]
// c
/// triple
asx  @calculatedFrom( ""a\""b""
) char[// " ++ [27880; 37322]%N ++ runes_of_ascii "
,  @tag(4294967296 )
    char[1//x
] packetx @calculatedFrom(""a\""b""
    ) ,
// " ++ [128512]%N ++ runes_of_ascii " emoji
// a // b
@calculatedFrom(""" ++ [233]%N ++ runes_of_ascii "t" ++ [233]%N ++ runes_of_ascii """  ) repeat pack // " ++ [27880; 37322]%N ++ runes_of_ascii "
,
    } // c")).
Eval vm_compute in ("<<<M1542>>>" ++ check (runes_of_ascii "
options

    {StringPrefixLenType = u16;

FixedStringPadChar 
=

' ' 
;}	packet
Party {} 
packet  Quote
{ 
repeat
    Party,	repeat
char[2 ]

f1

    , }
	packet	Logon
	{
}
root packet Cancel

    { uint16	x ,

    zchar[	6
]f1

,	}
")).
Eval vm_compute in ("<<<M1442>>>" ++ check (runes_of_ascii "options {
    // c1
LittleEndian // c2
= true
    // c4
;
    // c5
} // c6
root // c7a
  // c7b
packet
    // c8
P { repeat // c11a
  // c11b
char
    // c12
cs
    // c13
, u8 x // c16
,
    // c17
} // c18a
  // c18b
")).
Eval vm_compute in ("<<<M193>>>" ++ check (runes_of_ascii "MetaData
    Header { }MetaData Logon {// trailing space 
int32 falsey ,// " ++ [27880; 37322]%N ++ runes_of_ascii "
packetx
_x ,
char[] Logon`two words`
,
    matchKey packetx ,
    u32 u // packet A { u8 x, }
,	i64 float `it's`
, }
")).
Eval vm_compute in ("<<<M1486>>>" ++ check (runes_of_ascii "// top
root // c0
packet // c1
P // c2a
  // c2b
{ u8 // c4
s_u8 // c5
, // c6a
  // c6b
repeat // c7a
  // c7b
u8 r_u8
    // c9
, // c10a
  // c10b
u16 b_len , } // c14a
  // c14b
")).
Eval vm_compute in ("<<<M717>>>" ++ check (runes_of_ascii "root packet len // trailing space 
{
// " ++ [27880; 37322]%N ++ runes_of_ascii "
//	t
char[10
] metadata	@lengthOf( o ) `crlf
line`,
    @rightPad
( ' '
match string
    Header @calculatedFrom( ""a\\""
    ), }
")).
Eval vm_compute in ("<<<M465>>>" ++ check (runes_of_ascii "packet
    // `tick` ""quote"" 'q'
    crc
// packet A { u8 x, }
//	t
{
u32 a1 ,
    // trailing space 
    roots
charz /`/
`two words`,	}
    MetaData int {
} /// triple")).
Eval vm_compute in ("<<<M680>>>" ++ check (runes_of_ascii "root packet len // trailing space 
{
// " ++ [27880; 37322]%N ++ runes_of_ascii "
//	t
char[10
] metadata	@lengthOf( o ) ,`crlf
line`
    @rightPad
( ' '
) string
    Header @calculatedFrom( ""a\\""
    ), }
")).
Eval vm_compute in ("<<<M2064>>>" ++ check (runes_of_ascii "  root packet
matchKey

    {
zchar[ 3  ]
pack

@calculatedFrom( ""a	b""
    )
`doc`
,
} 

    // c
options
{ }MetaData
    A

    {
int8

    msg_type
, 
}
")).
Eval vm_compute in ("<<<M318>>>" ++ check (runes_of_ascii "
MetaData roots {
As  asx , char[1 ] roots
,
    // c
    char[
    007]
    matchKey ,/// triple
zchar[ 1	] len ,x_y_z
// trailing space 
/// triple
u128 , }")).
Eval vm_compute in ("<<<M448>>>" ++ check (runes_of_ascii "packet
    // `tick` ""quote"" 'q'
    crc
// packet A { u8 x, }
//	t
{
u32 a1 ,
    // trailing space 
    roots
charz //
`two words`,	}
    MetaData")).
Eval vm_compute in ("<<<M2121>>>" ++ check (runes_of_ascii "packet A {
    match k as n {
        [
            1, 22, ""c c"", 4, 5,
            ""f"", 7, 8, ""i"", 10
        ] : B,
        2 : C,
    },
}")).
Eval vm_compute in ("<<<M1967>>>" ++ check (runes_of_ascii "packet A {
    match k as n {
        [
            1, 22, 007, 4, 5,
            66, 7, 8, 9
        ] : B,
        2 : C,
    },
}")).
Eval vm_compute in ("<<<M1667>>>" ++ check (runes_of_ascii "packet A {
    Inner {
        u8 x `a
        b`,
        Deep {
            u8 y `a
            b`,
        },
    },
}")).
Eval vm_compute in ("<<<M1244>>>" ++ check (runes_of_ascii "root packet matchKey { zchar[ 3 ] pack @calculatedFrom( ""a	b"" )
// c
`doc` , } options { } MetaData A { int8 msg_type , }")).
Eval vm_compute in ("<<<M1845>>>" ++ check (runes_of_ascii "

  packet

A {  match k as
    n {  [ ""a""
    ,	""bb""
, 007
    ,
""d"",	""e""	,
66 ,
""g""]:

    B,
    2	:
C
}  ,
}

")).
Eval vm_compute in ("<<<M1745>>>" ++ check (runes_of_ascii "
packet  chars {
    }packet 
MetaDataX{  @tag(
// c
  42
    )
	i16 string_,
repeat x
	`say ""hi""` ,

    } ")).
Eval vm_compute in ("<<<M2>>>" ++ check (runes_of_ascii "packet i8i8
    {
char[
1
] f32a@calculatedFrom(//	t
""\n"" )
    // packet A { u8 x, }
    , repeat charz,}
")).
Eval vm_compute in ("<<<M1656>>>" ++ check (runes_of_ascii "packet metadata {
    Logon {
        A `" ++ [28040; 24687; 31867; 22411]%N ++ runes_of_ascii "`,
        tag o,
    },
    zchar len `// not a comment`,
}")).
Eval vm_compute in ("<<<M863>>>" ++ check (runes_of_ascii "packet A {
  match k as n {
    [""a"", ""bb"", ""c c"", ""d"", ""e"", ""f"", ""g"", ""h"", ""i""] : B
    2 : C
  },
}")).
Eval vm_compute in ("<<<M895>>>" ++ check (runes_of_ascii "packet A {
  match k as n {
    [1, 22, ""c c"", 4, 5, ""f"", 7, 8, ""i"", 10, 11] : B
    2 : C
  },
}")).
Eval vm_compute in ("<<<M858>>>" ++ check (runes_of_ascii "packet A {
  match k as n {
    [""a"", ""bb"", 007, ""d"", ""e"", 66, ""g"", ""h""] : B
    2 : C
  },
}")).
Eval vm_compute in ("<<<M2049>>>" ++ check (runes_of_ascii "packet A {
    B b `a
        b`,
    B `a
        b`,
    repeat B bs `a
        b`,
}")).
Eval vm_compute in ("<<<M1203>>>" ++ check (runes_of_ascii "MetaData float { float64 charz `
` , } root packet chars {
// c
@rightPad ( '0' ) Foo , }")).
Eval vm_compute in ("<<<M1414>>>" ++ check (runes_of_ascii "packet chars { } packet MetaDataX { @tag( 42 ) // c
i16 string_ , repeat x `say ""hi""` , }")).
Eval vm_compute in ("<<<M1123>>>" ++ check (runes_of_ascii "
// c
packet metadata { Logon { A `" ++ [28040; 24687; 31867; 22411]%N ++ runes_of_ascii "` , tag o , } , zchar len `// not a comment` , }")).
Eval vm_compute in ("<<<M1144>>>" ++ check (runes_of_ascii "packet metadata { Logon { A `" ++ [28040; 24687; 31867; 22411]%N ++ runes_of_ascii "` , tag o , // c
} , zchar len `// not a comment` , }")).
Eval vm_compute in ("<<<M1349>>>" ++ check (runes_of_ascii "packet o { repeat Logon
// c
uint8x , } options { asx = zchar[ 3 ] stringy = '\x00' }")).
Eval vm_compute in ("<<<M831>>>" ++ check (runes_of_ascii "packet A {
  match k as n {
    [""a"", ""bb"", 007, ""d"", ""e"", 66] : B,
    2 : C
  },
}")).
Eval vm_compute in ("<<<M1310>>>" ++ check (runes_of_ascii "MetaData body {
// c
i64 pack `it's` , } packet stringy { int16 calculatedFrom , }")).
Eval vm_compute in ("<<<M1500>>>" ++ check (runes_of_ascii "packet orderItem {
    u8 a,
}
root packet newOrder {
    orderItem,
    u8 x,
}
")).
Eval vm_compute in ("<<<M1859>>>" ++ check (runes_of_ascii "
packet
    x
	{ 
@rightPad
	(
    )// c
    repeat  roots  Logon
`doc` , }
")).
Eval vm_compute in ("<<<M2003>>>" ++ check (runes_of_ascii "
packet  x
{
// c
  @rightPad
( )repeat
    roots
Logon
    `doc`
	,}")).
Eval vm_compute in ("<<<M1863>>>" ++ check (runes_of_ascii "packet crc {
    u32 T @lengthOf(x) `crlf
        line`,// a // b
}")).
Eval vm_compute in ("<<<M2021>>>" ++ check (runes_of_ascii "

  root
    packet
P {
    hdr	{	u8
	a
    ,
	}  , u8

x	, }
")).
Eval vm_compute in ("<<<M190>>>" ++ check (runes_of_ascii "MetaData zchar
    {  i32 Z9_ `say ""hi""` ,
    } // a // b")).
Eval vm_compute in ("<<<M768>>>" ++ check (runes_of_ascii "packet A {
  match k as n {
    [1] : B,
    2 : C
  },
}")).
Eval vm_compute in ("<<<M1080>>>" ++ check (runes_of_ascii "packet A { B { // a
 u8 x, // b
 } // c
 , // d
 }")).
Eval vm_compute in ("<<<M2019>>>" ++ check (runes_of_ascii "root
    packet

    pack 
    // c
    {	}")).
Eval vm_compute in ("<<<M652>>>" ++ check (runes_of_ascii "root packet tag { }  packet MetaDataX{ch")).
Eval vm_compute in ("<<<M764>>>" ++ check ([65533]%N ++ runes_of_ascii "X" ++ [387; 31]%N ++ runes_of_ascii "+" ++ [65533; 65533; 404; 65533; 65533]%N ++ runes_of_ascii "9C" ++ [3; 65533]%N ++ runes_of_ascii "D" ++ [65533; 65533; 65533; 65533; 11; 65533]%N ++ runes_of_ascii "&\" ++ [65533]%N ++ runes_of_ascii "1" ++ [17; 65533; 65533; 65533; 65533; 23; 7]%N ++ runes_of_ascii "_" ++ [4; 65533; 65533; 24]%N)).
Eval vm_compute in ("<<<M21>>>" ++ check (runes_of_ascii "//	t
packet Packet{ u64 tag
,}
")).
Eval vm_compute in ("<<<M1023>>>" ++ check (runes_of_ascii "packet A {
 u8 x `d" ++ [8287]%N ++ runes_of_ascii "`, // c" ++ [8287]%N ++ runes_of_ascii "
}")).
Eval vm_compute in ("<<<M93>>>" ++ check (runes_of_ascii "packet repeatCount{	} // c")).
Eval vm_compute in ("<<<M2001>>>" ++ check (runes_of_ascii "// c" ++ [65279]%N ++ runes_of_ascii "
packet

A

{}
")).
Eval vm_compute in ("<<<M971>>>" ++ check (runes_of_ascii "packet A {
}
// c ")).
Eval vm_compute in ("<<<M1052>>>" ++ check (runes_of_ascii "// c" ++ [6158]%N ++ runes_of_ascii "
packet A {
}")).
Eval vm_compute in ("<<<M766>>>" ++ check (runes_of_ascii "u16 char[ @tag(")).
Eval vm_compute in ("<<<M746>>>" ++ check (runes_of_ascii "[ { 10")).
Eval vm_compute in ("<<<M247>>>" ++ check (runes_of_ascii "

")).
