From FP Require Import Lexer Parser ShowPT Digest Formatter.
From Coq Require Import String List NArith.
Import ListNotations.
Open Scope string_scope.
Set Printing Width 100000000.
Set Printing Depth 100000000.
Definition show_fres (r : fres) : string :=
  match r with
  | FOk s => "OK:" ++ sh_escaped s ""
  | FErr s => "ERR:" ++ sh_escaped s ""
  | FPanic p => "PANIC:" ++ p
  end.
Definition check (rs : list rune) : string := digest (show_fres (format_res rs)).
Definition full (rs : list rune) : string := show_fres (format_res rs).
Eval vm_compute in ("<<<M3983>>>" ++ check (runes_of_ascii "MetaData

pack
	{ 
}
	MetaData
trueish {
string o
    ,	u // @lengthOf(
    roots
,
Header 
calculatedFrom
`doc`	, zchar[ 42
    ]

metadata
`u8 x,` ,Packet
    lengthOf

,  u128
    lengthOf

    , 
} 
root

packet

Logon

{ repeat 	 /// triple

zchar[
    7
	] 
    // packet A { u8 x, }

	// `tick` ""quote"" 'q'
	  roots
	,
    match u  as x

    {
	[""" ++ [28040; 24687]%N ++ runes_of_ascii """
    ,
	0
,

""a	b""
// @lengthOf(

	,

3/// triple
	  ,""a\""b"" ,""// no comment"" ,
""packet""
,""`tick`"" 
] :o ,  [  0 
, ""x y""
]:	u

""a\""b""
    :pack[ 65535

,

    007, 
""" ++ [233]%N ++ runes_of_ascii "t" ++ [233]%N ++ runes_of_ascii """
	    // " ++ [27880; 37322]%N ++ runes_of_ascii "
  // @lengthOf(
	, 42 ]// trailing space 
		:f32a	255: i8i8	//	t
      , 
0123456789

:
Pad , },
Foo	,
    @calculatedFrom( ""x y""

    )

body
    {repeat string metadata`it's` ,
    repeat
    zchar  x_y_z

,
    lengthOf{	Logon
    pack , match	options1

as leftPad// c
    {	//x
	10
:

a1 , """ ++ [28040; 24687]%N ++ runes_of_ascii """

: A ,
[

// trailing space 
// " ++ [128512]%N ++ runes_of_ascii " emoji
    """ ++ [28040; 24687]%N ++ runes_of_ascii """

    ,

    65535
	,
    0123456789 , 0 ]:

i64_

    ,

    1  // " ++ [27880; 37322]%N ++ runes_of_ascii "
:
	string_  ,
65535
	:
calculatedFrom, }
    , crc{u128

    ,
u128@lengthOf(
	x
)
	, u16

falsey
@lengthOf(  u )

    ,	} ,

    char[ 42 ]
options1	@calculatedFrom( ""packet"" )	`u8 x,`	,

}
    ,
float  /// triple
	float `u8 x,`	,
    }, match
packetx
as 
T
	{ ""packet""
	// @lengthOf(
      // @lengthOf(
    : As ,
    007  :BodyLength

,00 : trueish 
, [ ""abc"",
	10
, 3 
, 10,  007 , 
        // " ++ [128512]%N ++ runes_of_ascii " emoji
	// c
      ""\n"", 1
	//	t

  // a // b
    ]

:	_x

    , } ,o

`say ""hi""`	, @leftPad (
'0')  @tag(
10
) @calculatedFrom(
""\" ++ [233]%N ++ runes_of_ascii """
)  u32 	 //	t
	  i64_
    // `tick` ""quote"" 'q'
  	`{ , }`, x  body`line1
line2` 	 //	t

, 
}	packet repeatCount{

    i64
	rootA

    @calculatedFrom(
    """ ++ [128512]%N ++ runes_of_ascii """
) `" ++ [28040; 24687; 31867; 22411]%N ++ runes_of_ascii "` 
,  @rightPad
(' '
    ) @rightPad	(
    )
	int32  rootA

    @calculatedFrom(  ""{,}""
    ) ,  i16 BodyLength  // " ++ [27880; 37322]%N ++ runes_of_ascii "
	,
@calculatedFrom(""`tick`"" 
) Logon
    lengthOf

`two words`
    ,  zchar[	4294967296]	x_y_z
	`" ++ [28040; 24687; 31867; 22411]%N ++ runes_of_ascii "`
,
    string zchar`say ""hi""` 
      // `tick` ""quote"" 'q'
  // c
    , @tag(
    1
	) f32 x_y_z`it's`  ,  }root	packet

    string_
    {	// @lengthOf(
  @leftPad 
(	'0'
    )// a // b
		@calculatedFrom(
""// no comment"" )
@leftPad( ) // " ++ [27880; 37322]%N ++ runes_of_ascii "
char[ 
1

    ] tag`say ""hi""`
	,
@calculatedFrom(// " ++ [27880; 37322]%N ++ runes_of_ascii "
	""it's"" )match 
BodyLength
	as
A
{ 255
	: Foo , } 
,

u16
    x_y_z
    @calculatedFrom(  ""CRC32""
	) ,
	o MetaDataX	`// not a comment`
,
    options1
@lengthOf( x)

,  match
float
as
    A  {
	[65535
	] :
leftPad  , [007

,

    7 ,

    ""a\\""

,	1
	]
:

msg_type ,10 : u128""" ++ [28040; 24687]%N ++ runes_of_ascii """: 
As

, }

,} ")).
Eval vm_compute in ("<<<M1339>>>" ++ check (runes_of_ascii "packet
    body {
repeat // c
char[ 65535 ] float ,@calculatedFrom(
//
// c
""{,}"" )i64_ f32a `tab	here`,
    stringy @lengthOf(	options1 ) `a\` , }root // `tick` ""quote"" 'q'
packet pack
{len @calculatedFrom(""x y"" )
    // trailing space 
    `say ""hi""`,
    match msg_type as
    lengthOf
    { 10 : // c
len ,[ 007 ,
    65535
,65535,
    // trailing space 
    ""a	b""
// packet A { u8 x, }
// @lengthOf(
, 3 // @lengthOf(
,0123456789
    , ""// no comment""
]:
u,[ 10,	""" ++ [233]%N ++ runes_of_ascii "t" ++ [233]%N ++ runes_of_ascii """
,
1
    , 7 ,10 ] // `tick` ""quote"" 'q'
: // `tick` ""quote"" 'q'
_x ,
[ // a // b
""1"" ,	""`tick`"" ,7,  ""1"" ]
:u128 ,
    65535 : Pad ,// packet A { u8 x, }
}, @rightPad ( '0')
match As as zchar
    {[""" ++ [128512]%N ++ runes_of_ascii """, 0
    ]: // trailing space 
uint8x }
, falsey
{ float64 A@calculatedFrom(
    // packet A { u8 x, }
    ""{,}""
    ) , match	As as asx {
    // trailing space 
    3 /// triple
: Pad ,
}, repeat
    char[] len`crlf
line`
    , }
,
//x
// c
zchar , match
Logon as
    u // " ++ [27880; 37322]%N ++ runes_of_ascii "
{  ""{,}""
:
    x_y_z
[""packet""
] :
msg_type
    , 0 // c
: calculatedFrom , [
    ""x y""
, ""a\\"",
42 ,
    42
,// " ++ [128512]%N ++ runes_of_ascii " emoji
""a\""b""	,
    /// triple
    """ ++ [28040; 24687]%N ++ runes_of_ascii """
,""\n"" ] : asx
    """" :Pad , [
    """ ++ [233]%N ++ runes_of_ascii "t" ++ [233]%N ++ runes_of_ascii """ ]
:
    Z9_
// packet A { u8 x, }
//
} ,repeat string x_y_z ,
repeat stringy
{ repeat chars // a // b
chars, u8
    charz
// trailing space 
// packet A { u8 x, }
`{ , }` , match MetaDataX as packetx { [ ""CRC32"" ]
: metadata , // " ++ [128512]%N ++ runes_of_ascii " emoji
[ """ ++ [128512]%N ++ runes_of_ascii """,
""CRC32"" ,007 ,
""x y"" , ""1""
    // a // b
    ,
// a // b
// " ++ [27880; 37322]%N ++ runes_of_ascii "
""abc"" // trailing space 
, 42
] : calculatedFrom	,
    [
42
    ,
    65535 ] :
// " ++ [128512]%N ++ runes_of_ascii " emoji
//
Pad
, ""\" ++ [233]%N ++ runes_of_ascii """ : msg_type ,
    //
    }, }	, }
packet msg_type{ u8x @calculatedFrom(""{,}"" ), rootA uint8x
, //x
f64 falsey	`a\`,
repeat
// packet A { u8 x, }
// packet A { u8 x, }
char[]
asx ,
repeat
// packet A { u8 x, }
// packet A { u8 x, }
chars
As `two words`,
    int{ repeat matchKey	`u8 x,`,
}	, match lengthOf
as trueish {""\n"" : Foo ,""\" ++ [233]%N ++ runes_of_ascii """ :i8i8, }
, } // c
options { } options { f32a =
    7 ; }
")).
Eval vm_compute in ("<<<M1100>>>" ++ check (runes_of_ascii "options
{} packet
    // packet A { u8 x, }
    packetx {
crc charz
``
    ,leftPad ,
@tag(3 ) repeat
uint64  u128 `doc` ,
@tag(
    007 )
// c
// `tick` ""quote"" 'q'
Pad roots /// triple
,
    @calculatedFrom(// `tick` ""quote"" 'q'
""CRC32"" ) u8x metadata , @tag( 1 ) zchar[0123456789 ]  i8i8  `a\` , match a1
as
As { ""a	b""
:roots, [
    ""\" ++ [233]%N ++ runes_of_ascii """ , ""abc"" //
] :string_ , }  ,
repeat Header { match
// " ++ [128512]%N ++ runes_of_ascii " emoji
// c
f32a as
    _x { 4294967296 :
    // @lengthOf(
    repeatCount , 7
//	t
// @lengthOf(
:
    //x
    u8x
    , 7 : As ,}// " ++ [128512]%N ++ runes_of_ascii " emoji
, i64
repeatCount @lengthOf( a1 ) ,}
    ,
// " ++ [128512]%N ++ runes_of_ascii " emoji
// " ++ [27880; 37322]%N ++ runes_of_ascii "
} packet
pack
{zchar[ // a // b
0 ] stringy, } /// triple
root
packet
As {
    // @lengthOf(
    match // `tick` ""quote"" 'q'
u8x as packetx //	t
{
    7 : uint8x
65535 :int
1: T  ,
    ""{,}""
    :
Foo
    ,  0123456789
// " ++ [128512]%N ++ runes_of_ascii " emoji
// @lengthOf(
: Logon
    , [ 65535
// " ++ [27880; 37322]%N ++ runes_of_ascii "
// `tick` ""quote"" 'q'
] : len , }
    ,repeat
    lengthOf  metadata,@calculatedFrom(""" ++ [233]%N ++ runes_of_ascii "t" ++ [233]%N ++ runes_of_ascii """ ) repeat zchar[65535 ] As
`doc` , char[// trailing space 
7 ] float // @lengthOf(
@calculatedFrom(
    //
    """" )
    , float32 a1`it's`, @tag(
3	) char[]
BodyLength// @lengthOf(
`line1
line2` , match int as asx{[""" ++ [28040; 24687]%N ++ runes_of_ascii """
, 0 ] :
x_y_z , 1 :	Packet , ""{,}""  : falsey,255
    : charz , [
    ""{,}"" , 0123456789
] : uint8x , } ,
crc @calculatedFrom(
    ""\" ++ [233]%N ++ runes_of_ascii """
    // " ++ [128512]%N ++ runes_of_ascii " emoji
    )`crlf
line`
    ,	match packetx
as Pad { ""packet""://
BodyLength,} , @lengthOf( BodyLength) @tag(
// packet A { u8 x, }
//x
00
)@lengthOf( As)match charz  as len {[//x
""x y""]:_x //x
""it's"": i64_ , 0123456789: metadata
// packet A { u8 x, }
//x
""" ++ [128512]%N ++ runes_of_ascii """ : trueish, 1: Logon
, }
    , } //	t")).
Eval vm_compute in ("<<<M4574>>>" ++ check (runes_of_ascii "packet u128 {
    @rightPad(' ')
    uint8x {
        zchar {
            match u8x as Logon {
                007 : Packet,
                [
                    255, 00, 42, 3, ""`tick`"",
                    ""a\\""
                ] : int,
            },
            metadata `" ++ [28040; 24687; 31867; 22411]%N ++ runes_of_ascii "`,
            repeat char[] Header,
            a1,
        },
        match leftPad as rootA {
            0123456789 : int,
            0 : pack,
        },
        tag {
            // " ++ [27880; 37322]%N ++ runes_of_ascii "
            string_,
            pack calculatedFrom,
        },// packet A { u8 x, }
    },
    //x
    zchar[255] msg_type,
    i32 x,
    match options1 as options1 {
        10 : zchar,
        42 : pack,
        [""a\\""] : As,
        [42, ""a\""b""] : asx,
        [10] : a1,
        [00] : chars,
    },
    // `tick` ""quote"" 'q'
    //	t
    char[0] Header @lengthOf(chars) `it's`,
    //
    //	t
    match x_y_z as u8x {
        65535 : Logon,
        """ ++ [233]%N ++ runes_of_ascii "t" ++ [233]%N ++ runes_of_ascii """ : Header,
        ""a	b"" : metadata,
        [
            255, 1, 255, ""a\\"", ""a	b"",
            ""{,}"", """", """ ++ [28040; 24687]%N ++ runes_of_ascii """
        ] : f32a,
        3 : len,
    },
    @leftPad()
    @calculatedFrom(""a\\"")
    int64 leftPad `" ++ [233]%N ++ runes_of_ascii "`,
    @calculatedFrom(""packet"")
    @tag(10)
    @calculatedFrom(""a\\"")
    string Packet @lengthOf(BodyLength),//x
    @leftPad('0')
    repeat char[] Logon,
    @tag(00)
    match u8x as Z9_ {
        [10] : lengthOf,
        0123456789 : _x,
        ""packet"" : i64_,
    },
}")).
Eval vm_compute in ("<<<M1393>>>" ++ check (runes_of_ascii "options {
    StringPrefixLenType = u16;
    ArrayPrefixLenType = u16;
}

packet SampleBinary {
    uint16 MsgType `" ++ [28040; 24687; 31867; 22411]%N ++ runes_of_ascii "`,
    u16 BodyLenght @lengthOf(Body) `" ++ [28040; 24687; 20307; 38271; 24230]%N ++ runes_of_ascii "`,
    match MsgType as Body {
        1 : Logon,
        2 : Logout,
        3 : Heartbeat,
        4 : RiskControlRequest,
        5 : RiskControlResponse,
    },
    @calculatedFrom(""CRC32"")
    u32 Ckecksum `" ++ [26657; 39564; 21644]%N ++ runes_of_ascii "`,
}

packet Logon {
    @leftPad('0')
    char[10] UserName `" ++ [29992; 25143; 21517]%N ++ runes_of_ascii "`,
    string Password `" ++ [23494; 30721]%N ++ runes_of_ascii "`,
    uint64 ClientId `" ++ [23458; 25143; 31471]%N ++ runes_of_ascii "ID`,
    u16 HeartbeatInterval `" ++ [24515; 36339; 38388; 38548]%N ++ runes_of_ascii "`,
}

packet Logout {
    @rightPad('0')
    char[10] UserName `" ++ [29992; 25143; 21517]%N ++ runes_of_ascii "`,
    uint64 ClientId `" ++ [23458; 25143; 31471]%N ++ runes_of_ascii "ID`,
}

packet Heartbeat {
}

packet RiskControlRequest {
    string UniqueOrderId `" ++ [21807; 19968; 35746; 21333; 21495]%N ++ runes_of_ascii "`,
    char[16] ClOrdID `" ++ [23458; 25143; 35746; 21333; 21495]%N ++ runes_of_ascii "`,
    char[3] MarketID `" ++ [24066; 22330]%N ++ runes_of_ascii "id`,
    char[12] SecurityID `" ++ [35777; 21048; 20195; 30721]%N ++ runes_of_ascii "`,
    char Side `" ++ [20080; 21334; 26041; 21521]%N ++ runes_of_ascii "`,
    char OrderType `" ++ [35746; 21333; 31867; 22411]%N ++ runes_of_ascii "`,
    u64 Price `" ++ [20215; 26684]%N ++ runes_of_ascii "`,
    u32 Qty `" ++ [25968; 37327]%N ++ runes_of_ascii "`,
    repeat string ExtraInfo `" ++ [38468; 21152; 20449; 24687]%N ++ runes_of_ascii "`,
    repeat SubOrder {
        char[16] ClOrdID `" ++ [23376; 35746; 21333; 21495]%N ++ runes_of_ascii "`,
        u64 Price `" ++ [23376; 35746; 21333; 20215; 26684]%N ++ runes_of_ascii "`,
        u32 Qty `" ++ [23376; 35746; 21333; 25968; 37327]%N ++ runes_of_ascii "`,
    },
}

packet RiskControlResponse {
    string UniqueOrderId `" ++ [21807; 19968; 35746; 21333; 21495]%N ++ runes_of_ascii "`,
    i32 Status `" ++ [29366; 24577]%N ++ runes_of_ascii "`,
    string Msg `" ++ [32467; 26524; 20449; 24687]%N ++ runes_of_ascii "`,
    repeat Detail,
}

packet Detail {
    string RuleName `" ++ [35268; 21017; 21517; 31216]%N ++ runes_of_ascii "`,
    u16 Code `" ++ [21407; 22240; 20195; 30721]%N ++ runes_of_ascii "`,
}")).
Eval vm_compute in ("<<<M4383>>>" ++ check (runes_of_ascii "packet u8x {
    @tag(10)
    char[7] MetaDataX,
    match Z9_ as Header {
        ""a\\"" : stringy,
        ""// no comment"" : u128,
        0123456789 : matchKey,
        10 : BodyLength,
        65535 : asx,
        00 : pack,
    },
    @tag(255)
    msg_type `it's`,
    @lengthOf(A)
    leftPad @lengthOf(Header) `crlf
        line`,
    @calculatedFrom(""1"")
    repeat int8 o,
    @rightPad('\x00')
    string pack @calculatedFrom(""// no comment""),
    @lengthOf(Z9_)
    match u128 as BodyLength {
        //
        [""\n"", ""a\\""] : Logon,
        0 : As,
    },
    char[] x,
}

packet Packet {
    @calculatedFrom(""// no comment"")
    x_y_z,
    @leftPad()
    zchar[65535] As @calculatedFrom(""1"") `tab	here`,
    zchar[10] f32a,
    @tag(7)
    char[0123456789] matchKey `say ""hi""`,
}

root packet string_ {
    @tag(0)
    asx `// not a comment`,
    zchar[65535] Header,
    @tag(10)
    repeat zchar trueish,
    repeat string Packet `{ , }`,
    char[] len,
    lengthOf len ``,
    packetx @lengthOf(float) `a\`,
    @calculatedFrom(""" ++ [28040; 24687]%N ++ runes_of_ascii """)
    matchKey @calculatedFrom(""" ++ [233]%N ++ runes_of_ascii "t" ++ [233]%N ++ runes_of_ascii """),
    @rightPad(' ')
    // @lengthOf(
    // c
    options1 @calculatedFrom(""" ++ [28040; 24687]%N ++ runes_of_ascii """),
}

MetaData Header {
    Logon string_,
}")).
Eval vm_compute in ("<<<M4010>>>" ++ check (runes_of_ascii "// @lengthOf(
  	packet 
BodyLength { char 
T,	}
	root
packet
A 
{
	repeat
len
`say ""hi""`,
	repeat Pad
{
repeat
char[] // " ++ [128512]%N ++ runes_of_ascii " emoji
      stringy ,
	repeat

rootA

{uint64	Foo
    @lengthOf( // `tick` ""quote"" 'q'
	options1
	) // @lengthOf(
	`it's`
,
    //x
	/// triple
    zchar 
{
zchar[42

    ]
Z9_ ,
	repeat
o
    i8i8
    ,

    uint8
	x  `it's`
    ,
    rootA 
Foo
    `{ , }`  , }
    , 
}
    ,metadata
@calculatedFrom( ""a	b"" 
),
    }
,

    @tag(
1	)
	string 

// c
    u
	`doc`
    //	t
	, u @calculatedFrom(

""it's""  )
	``
,
char[ 7	]
packetx
	@lengthOf(	A

    )

    `{ , }`
    ,  string
    _x `
`
,

float32 _x , repeat
    char[42

] rootA

`doc`
	, }MetaData
matchKey 
{
	zchar[
	0123456789 ]
    falsey``,	}packet Logon
    {	@lengthOf( 
zchar ) match
leftPad
as
	falsey  {
	3
: Packet

,
007 :	// `tick` ""quote"" 'q'
zchar 
1

:  // @lengthOf(

float,	""it's"" :body	""CRC32""
    // " ++ [128512]%N ++ runes_of_ascii " emoji
:

    body	}	,

@calculatedFrom(
	""{,}"" ) zchar[  1
]
i8i8
@lengthOf(uint8x	)

,  zchar[

    00
    ]

// `tick` ""quote"" 'q'

	a1
, uint64 u 
, 
string	Packet

@calculatedFrom(
""packet""
)

, 
}
")).
Eval vm_compute in ("<<<M719>>>" ++ check (runes_of_ascii "packet x
{ @tag(
//x
// a // b
3
    )@calculatedFrom( // `tick` ""quote"" 'q'
""1"") @calculatedFrom( // packet A { u8 x, }
""{,}"" )
    o	uint8x , repeat
    zchar[
    4294967296
    // " ++ [128512]%N ++ runes_of_ascii " emoji
    ] Packet ,
repeat trueish	{uint16
a1  ,
    char[]
matchKey ,
    float { uint64 A	@calculatedFrom(""`tick`""
// c
//x
)
    ,
} ,
int32
tag , }
    , @leftPad
    ( ) Foo{leftPad @calculatedFrom( ""{,}"" ) , //x
} , @lengthOf( Z9_ )uint64 pack ,
    }	options {roots
=65535 ;  falsey =
10 ; //x
x_y_z =
    ' ' ;
    MetaDataX =// `tick` ""quote"" 'q'
false
    ; }options { crc
    =true ;string_
    = false;leftPad = ' ' ;i8i8 =
    // c
    '0' ; }root packet
    string_ { u16
    // trailing space 
    rootA
    @lengthOf( lengthOf ) `" ++ [233]%N ++ runes_of_ascii "`  ,@lengthOf( chars) @lengthOf( stringy)	@lengthOf( falsey	)
string
    Header @calculatedFrom( ""1"" ) ,
@calculatedFrom( ""a\""b"")
@calculatedFrom(
    ""`tick`"" ) @tag(  65535 )
    uint8
//
// " ++ [27880; 37322]%N ++ runes_of_ascii "
f32a , @leftPad () zchar[42 // trailing space 
] a1 @calculatedFrom(""""// " ++ [128512]%N ++ runes_of_ascii " emoji
)
,
// a // b
// a // b
} options{ len  =  7 ; }
")).
Eval vm_compute in ("<<<M4197>>>" ++ check (runes_of_ascii "options

{

    StringPrefixLenType
	=
    u16 
; ArrayPrefixLenType =u8
;
FixedStringPadFromLeft

=true
;
FixedStringPadChar  =' '; }
packet Quote
{ int64
OrderId
	,
	char[]Ref , @leftPad	( '0'  )
	char[

5  ]

price ,

}packet

    Heartbeat
{ 
zchar[3

]
	venue
, string Flags  ,
	}	packet	Trade
	{ repeat 
InTag787

{ i32
venue	,char[ 5	]  sym,
repeat
    InPx98  {
	char[  11	]
	Qty ,Heartbeat ,

    char[]price  , u32
x, float64 count ,repeat Quote
    ,

}
,  zchar[ 7	]	Note , repeat	char[ 1 ]
Tail,

}
    ,
repeat char[2]
    seqNo
,InTail55
    {repeat

Quote

,
string
	msgKind ,  InPx18	{char[]
    count,
	repeat
Quote 
,
	uint16 Qty	,	} 
,
char[4 ]
    seqNo ,repeat Heartbeat
,
repeat
string
	sym 
,

}
	, repeat

Quote
,
	Heartbeat
, 
@leftPad

    (	' ')char[10
	]
OrderId
    ,}
	root packet
Fill	{ Heartbeat ,
uint32
	count
    ,	u8

OrderId
    , match
    OrderId
    as
Body{ 96:Quote
	,	195:Trade  ,
    187 : Heartbeat ,
},u32 venue@calculatedFrom(
    ""CRC32""

    ), } ")).
Eval vm_compute in ("<<<M4323>>>" ++ check (runes_of_ascii "MetaData lengthOf {
    i64 u128,
    uint32 calculatedFrom,
    char[00] string_,
}

root packet falsey {
    char[] len `line1
    line2`,
    @tag(255)
    uint8x @lengthOf(falsey),
    float32 len,
    repeat calculatedFrom i64_ `say ""hi""`,
    @rightPad('0')
    char[10] Logon,
}

packet rootA {
    // " ++ [128512]%N ++ runes_of_ascii " emoji
    // a // b
    x {
        falsey Logon,
        trueish @calculatedFrom(""`tick`"") `// not a comment`,
        uint8x body,
    },
    @calculatedFrom(""{,}"")
    @calculatedFrom(""a\\"")
    match f32a as i8i8 {
        // " ++ [27880; 37322]%N ++ runes_of_ascii "
        10 : matchKey,
        1 : packetx,
        0123456789 : Header,
        ""it's"" : i64_,
        // packet A { u8 x, }
        0 : pack,
    },
    repeat uint8x x_y_z `" ++ [28040; 24687; 31867; 22411]%N ++ runes_of_ascii "`,
    repeat char[255] string_,
    @lengthOf(int)
    calculatedFrom,
    @tag(4294967296)
    u16 packetx @calculatedFrom(""" ++ [28040; 24687]%N ++ runes_of_ascii """),
    u128 body `doc`,
}

root packet tag {
    //x
    // `tick` ""quote"" 'q'
    i32 A,
}

options {
}")).
Eval vm_compute in ("<<<M4496>>>" ++ check (runes_of_ascii "packet roots {
    f32 zchar @calculatedFrom(""a	b"") `crlf
    line`,
    // @lengthOf(
    /// triple
    uint8x `tab	here`,
    @rightPad()
    @rightPad('\x00')
    string int @lengthOf(body),
    charz {
        repeat zchar {
            BodyLength @lengthOf(int),
        },
    },
    @rightPad(' ')
    repeat asx metadata `it's`,
    float64 trueish,
    repeat char[42] body `a\`,
    @rightPad('0')
    u32 body `tab	here`,
}// `tick` ""quote"" 'q'

packet chars {
    @calculatedFrom(""packet"")
    zchar[65535] _x,
    float As `line1
    line2`,
    u64 asx @calculatedFrom(""1"") `u8 x,`,
    crc @lengthOf(msg_type),
    @tag(00)
    @rightPad(' ')
    @calculatedFrom(""" ++ [233]%N ++ runes_of_ascii "t" ++ [233]%N ++ runes_of_ascii """)
    uint8 calculatedFrom,
}

options {
    Packet = ' ';
    Logon = 255
    BodyLength = ""// no comment""
}

options {
    float = ""a	b"";
    f32a = """ ++ [28040; 24687]%N ++ runes_of_ascii """
    //	t
    len = uint64;
    calculatedFrom = '0';
}")).
Eval vm_compute in ("<<<M4149>>>" ++ check (runes_of_ascii "
packet
A
	{	@lengthOf(
	lengthOf) int16	packetx  // trailing space 
	@calculatedFrom(

""1"" ) 
,

repeat	u64
	Packet `
`
	,match trueish as  /// triple
    roots
    { 
3
    :
A,

""x y"" 
	    // " ++ [27880; 37322]%N ++ runes_of_ascii "
  //
      : BodyLength 
        //

,	42
	:Foo
, 
}
    ,
}
packet

As
	{msg_type@lengthOf(
    /// triple
u
),
	}
    root
	packet  zchar

    { i8i8
	i8i8`
`
	, zchar
{

int8

Foo

`a\`

,
}
,
	f32 
pack
	@lengthOf( crc
    // packet A { u8 x, }
		// c
)

    ,  @calculatedFrom(
    ""{,}"") 	 // " ++ [27880; 37322]%N ++ runes_of_ascii "
	match  crc
	as 
roots {65535  :
int""packet""

: float	,00
    : 
zchar
    // packet A { u8 x, }
// `tick` ""quote"" 'q'
  ,[ 
""x y""
	] :options1
,
""it's""
    :x
,
} ,
@lengthOf(	Packet
) 
match

x

//	t
  as

As
{	//	t
0

    :
lengthOf, 
//	t
  3	:

pack
,
""it's"" :  x_y_z	, 
""a\""b""	:metadata
    } ,

uint16
	i8i8 ,} // a // b")).
Eval vm_compute in ("<<<M211>>>" ++ check (runes_of_ascii "packet f32a
    { @calculatedFrom(""1"" )
_x { string
/// triple
//	t
metadata@calculatedFrom( ""`tick`""	) `// not a comment` ,  match // packet A { u8 x, }
Foo as  len { 42//
:Z9_ , //x
}  , }
,} packet /// triple
options1{ @lengthOf(A )roots
@lengthOf(// packet A { u8 x, }
msg_type ) `line1
line2` , int32/// triple
a1 `it's` , @calculatedFrom( ""packet""
    )repeat string T , @lengthOf( i64_ ) @calculatedFrom(
""packet""
) @tag( 007
) int16 asx@calculatedFrom(
""it's""
    )//	t
`doc` , repeat i32
charz, metadata // packet A { u8 x, }
`// not a comment` , }  packet
Logon{ }
options {
}
root
packet tag  { @lengthOf(
    Logon
)
charz { string stringy`// not a comment`	,
uint64 int,char
    i64_ `it's`
// packet A { u8 x, }
// a // b
, } ,
//	t
//
u8
i64_ , zchar[ 1 ] float
, } /// triple")).
Eval vm_compute in ("<<<M206>>>" ++ check (runes_of_ascii "options{ }root // a // b
packet
    uint8x {  @tag( 3 ) @lengthOf(  falsey ) lengthOf @calculatedFrom(
""`tick`"" ), A { i8 msg_type
`crlf
line` ,
Foo @lengthOf( u8x
) ,float ,
    //
    }
, string // a // b
lengthOf
@calculatedFrom(	""abc"" )
, @lengthOf(charz )
    repeat string_	{// " ++ [128512]%N ++ runes_of_ascii " emoji
zchar[
    0
    // a // b
    ] T @calculatedFrom( ""a\\"" ) //	t
, zchar[
    42 ] repeatCount @lengthOf(
Z9_ )`u8 x,`,}
,  zchar[1
    ]
crc @calculatedFrom( // " ++ [27880; 37322]%N ++ runes_of_ascii "
""// no comment"" )
    `it's`
    // `tick` ""quote"" 'q'
    , @calculatedFrom(""{,}"")
    tag
int//
, //x
}
MetaData f32a { // trailing space 
i64 int // c
,string int
    , // c
asx
    //x
    Pad
    //x
    `crlf
line` , string lengthOf,
    uint32
pack ,// " ++ [27880; 37322]%N ++ runes_of_ascii "
msg_type
    u `it's` ,
}")).
Eval vm_compute in ("<<<M4265>>>" ++ check (runes_of_ascii "root packet Packet {
    char[] msg_type @calculatedFrom(""a\\""),
    repeat u16 a1 `say ""hi""`,
    f32a stringy `u8 x,`,
    uint16 int,
    @calculatedFrom(""// no comment"")
    repeat u8 T,
    zchar[65535] T,// `tick` ""quote"" 'q'
    repeat chars {
        char[] tag `" ++ [233]%N ++ runes_of_ascii "`,
        int64 A @calculatedFrom(""\n"") `// not a comment`,
        match trueish as i8i8 {
            [""a\""b""] : MetaDataX,
        },
        len {
            zchar[65535] o @lengthOf(body) `a\`,
            string options1 `two words`,
            tag {
                T `{ , }`,
                charz,
                i8 uint8x,
            },
            char[] packetx @lengthOf(roots),
        },
    },//
    string x,
}// trailing space")).
Eval vm_compute in ("<<<M88>>>" ++ check (runes_of_ascii "// trailing space 
packet tag {
    @rightPad
    // @lengthOf(
    ( '0' )
    u128 ,
@lengthOf(MetaDataX
    )
    // c
    leftPad, // packet A { u8 x, }
@tag( 1
    )calculatedFrom
    @lengthOf( Logon )  , }
packet string_	{ } packet u128 {char[	0 // packet A { u8 x, }
]
chars `say ""hi""`
,
int , @leftPad ( '0'
// @lengthOf(
//x
)T { repeat zchar[ 255]
int
,zchar  stringy	, }
    ,repeat zchar{ match leftPad as packetx
{ [
""`tick`""
    ] :
    lengthOf //x
,  [  7,""" ++ [128512]%N ++ runes_of_ascii """
    ,
00 , ""x y"" , ""packet"" ] :
    stringy // @lengthOf(
, [
42 ,""\n""
, ""it's"" ,// " ++ [128512]%N ++ runes_of_ascii " emoji
65535, 1	]
: msg_type ""packet"" :	a1 ,} , u16 int
,
repeat x_y_z float,
repeat//x
u64 A `a\` ,
} , }
")).
Eval vm_compute in ("<<<M750>>>" ++ check (runes_of_ascii "packet a1
    {  repeat//
tag
f32a /// triple
`crlf
line`,
    /// triple
    char[  4294967296] u, char[ 3]o , @tag( 007) // trailing space 
int ,} options // " ++ [128512]%N ++ runes_of_ascii " emoji
{}packet pack{ charz @lengthOf(
BodyLength ) `line1
line2`
,@tag(65535) match
pack as asx
{42 : msg_type ,	007// packet A { u8 x, }
:
T ,
    4294967296: float , }	, // a // b
@tag(4294967296)
    u8
stringy
    @lengthOf(
    msg_type ) , @calculatedFrom( ""abc""
)
repeat len ,@rightPad ( '0'
    )string //
int
@lengthOf( i8i8
    ) , } MetaData crc
    { char[] u128 ,char[] T
`a\`
    ,
    // " ++ [27880; 37322]%N ++ runes_of_ascii "
    packetx	chars ,  float64 tag`{ , }` ,
    MetaDataX charz ,}
")).
Eval vm_compute in ("<<<M847>>>" ++ check (runes_of_ascii "options// trailing space 
{ o =	007
    // packet A { u8 x, }
    ;
}
    root packet options1 {//
@rightPad () zchar[ 65535 ] x, @lengthOf( lengthOf	)x metadata // @lengthOf(
, // `tick` ""quote"" 'q'
@tag(
007  )int64
uint8x
// @lengthOf(
//x
@lengthOf(i64_ )//x
`a\`, @calculatedFrom(""1"" )	@tag(
007 ) repeat	u32 metadata
, // a // b
match
    As
as rootA {
""a\""b"" :As
,
} ,@calculatedFrom(
""CRC32"" ) uint16 As
@calculatedFrom(
    ""a	b"")
`" ++ [28040; 24687; 31867; 22411]%N ++ runes_of_ascii "` ,@lengthOf( A) u int `" ++ [233]%N ++ runes_of_ascii "`, i64_ MetaDataX , leftPad
    , @lengthOf(
_x) body `two words` ,
    } MetaData repeatCount
{ charz	packetx ,  float32 f32a ,
}
")).
Eval vm_compute in ("<<<M863>>>" ++ check (runes_of_ascii "
packet
    zchar // " ++ [128512]%N ++ runes_of_ascii " emoji
{ match Foo /// triple
as pack {""abc"": falsey ,10 : _x , }
,@tag(	255 )string
// @lengthOf(
// a // b
len `line1
line2` ,
}  MetaData o {metadata
A
    , string
stringy , string	Foo	`say ""hi""`	, repeatCount // " ++ [27880; 37322]%N ++ runes_of_ascii "
matchKey ,	x //x
u8x , // " ++ [27880; 37322]%N ++ runes_of_ascii "
} packet
    _x { @leftPad// @lengthOf(
(	'\x00') @calculatedFrom(
    ""packet""
) repeat
// trailing space 
// c
Foo
Z9_ , @lengthOf( As ) uint64
_x @lengthOf( pack )
/// triple
// a // b
,@rightPad // " ++ [128512]%N ++ runes_of_ascii " emoji
(
    '0'
)match A as uint8x
{	[0
,  ""\" ++ [233]%N ++ runes_of_ascii """]:Packet ,007	: MetaDataX // " ++ [128512]%N ++ runes_of_ascii " emoji
, ""1""	: trueish, }
,}
")).
Eval vm_compute in ("<<<M3831>>>" ++ check (runes_of_ascii "packet i8i8 {
    char[] string_ `tab	here`,
    @lengthOf(T)
    @lengthOf(uint8x)
    @rightPad('\x00')
    zchar[4294967296] f32a @calculatedFrom(""CRC32"") `it's`,
}// @lengthOf(

root packet A {
    @rightPad()
    @calculatedFrom(""" ++ [233]%N ++ runes_of_ascii "t" ++ [233]%N ++ runes_of_ascii """)
    string T `crlf
    line`,
    u64 falsey `two words`,
    zchar[65535] lengthOf `doc`,
    match crc as int {
        [""packet"", ""it's""] : body,
        007 : leftPad,
        ""{,}"" : Z9_,
        [
            0123456789, 00, ""a\\"", """ ++ [128512]%N ++ runes_of_ascii """, ""\" ++ [233]%N ++ runes_of_ascii """,
            ""`tick`"", ""it's"", """ ++ [233]%N ++ runes_of_ascii "t" ++ [233]%N ++ runes_of_ascii """
        ] : x_y_z,
    },
}")).
Eval vm_compute in ("<<<M1164>>>" ++ check (runes_of_ascii "/// triple
packet falsey { i32	BodyLength @calculatedFrom( ""// no comment""
    ) ,
i8i8 // " ++ [27880; 37322]%N ++ runes_of_ascii "
body // trailing space 
,@calculatedFrom(""packet"" ) repeat  char
    stringy,@rightPad( // `tick` ""quote"" 'q'
'0' )matchKey
@lengthOf( a1 ) , match
options1 as trueish { ""abc"":Logon
,
} ,
T
leftPad
    , As {  metadata f32a ,
//x
// " ++ [27880; 37322]%N ++ runes_of_ascii "
As @lengthOf( matchKey) , } , repeat Packet
falsey `say ""hi""`
    ,
char[
255
] charz
@lengthOf(
// " ++ [128512]%N ++ runes_of_ascii " emoji
// packet A { u8 x, }
metadata
    // " ++ [128512]%N ++ runes_of_ascii " emoji
    ) // " ++ [128512]%N ++ runes_of_ascii " emoji
`" ++ [28040; 24687; 31867; 22411]%N ++ runes_of_ascii "` , } options { }
")).
Eval vm_compute in ("<<<M503>>>" ++ check (runes_of_ascii "options {tag =	false
    ;  } root packet MetaDataX {repeat a1 { // packet A { u8 x, }
match options1 as _x { [ ""1""
    ] :
    //	t
    leftPad
, """" :Z9_ ,  ""a	b"" :leftPad ,
/// triple
// " ++ [128512]%N ++ runes_of_ascii " emoji
},
} , o , // @lengthOf(
@lengthOf( x ) calculatedFrom { repeat charz ,char[ 0123456789 ]
Pad , } , } // a // b
MetaData roots
{ }
packet
// `tick` ""quote"" 'q'
//	t
T {
match metadata // " ++ [128512]%N ++ runes_of_ascii " emoji
as BodyLength {
    0 : Packet ,
""" ++ [233]%N ++ runes_of_ascii "t" ++ [233]%N ++ runes_of_ascii """
: f32a, //x
""// no comment""
: float ,
// packet A { u8 x, }
//	t
}, }
")).
Eval vm_compute in ("<<<M4229>>>" ++ check (runes_of_ascii "

  MetaData
len 
{ }

    packet 
BodyLength{	char[
	42 
] 
A@calculatedFrom( ""// no comment""
)
    `crlf
line`  // a // b
	  ,	match//
	Header	as calculatedFrom  {  
  /// triple
// packet A { u8 x, }
""`tick`"" : 
//x

  //	t

o ,

    // packet A { u8 x, }
	// c
  }
    ,
repeat
	packetx

    ,  }
    packet

u {
    }packet	x_y_z { @lengthOf(

    repeatCount	)  // trailing space 
  char[] 
charz @calculatedFrom( ""it's""	) `doc`,
} 
packet
	calculatedFrom  { }
")).
Eval vm_compute in ("<<<M1373>>>" ++ check (runes_of_ascii "// @lengthOf(
MetaData msg_type
// `tick` ""quote"" 'q'
// @lengthOf(
{ string
Logon ,
i8 repeatCount
    `// not a comment`, }
packet i64_ {
    // c
    @leftPad(
'0' )repeat repeatCount
`u8 x,` , Header {// " ++ [27880; 37322]%N ++ runes_of_ascii "
A{ uint32 T `crlf
line` ,
} , }, }
MetaData Header// " ++ [27880; 37322]%N ++ runes_of_ascii "
{
    Header u `doc` ,
    // " ++ [27880; 37322]%N ++ runes_of_ascii "
    char[ 4294967296 ] u128
, float32 falsey , char[ 10
    ]
roots`crlf
line`
    ,
int64 calculatedFrom `say ""hi""` ,} root packet i64_ { /// triple
}
")).
Eval vm_compute in ("<<<M4450>>>" ++ check (runes_of_ascii "MetaData T
{ Foo
    lengthOf  , string
        //x
      packetx  `// not a comment` , zchar[

    //	t
0
]metadata

//x
  // `tick` ""quote"" 'q'
  	`crlf
line` 
,
    x
    string_

`line1
line2` ,}
	packet  repeatCount

{

    char[	// `tick` ""quote"" 'q'
		255 ]

A

    @calculatedFrom(""a\\"") ,
float32
BodyLength 
@lengthOf(
_x
)

    // c
    //
  `doc`
,

char[]
trueish 
    // " ++ [128512]%N ++ runes_of_ascii " emoji
@calculatedFrom(

""packet"") 
,
	}
")).
Eval vm_compute in ("<<<M180>>>" ++ check (runes_of_ascii "  packet repeatCount {
@rightPad (' ' )
char[42]	Header @calculatedFrom( ""a\\"" )
    ,
// packet A { u8 x, }
// packet A { u8 x, }
@tag( 10 ) i64 options1@calculatedFrom( ""x y"" )
,  Packet{ i64 lengthOf@calculatedFrom( ""abc""
)
    // " ++ [128512]%N ++ runes_of_ascii " emoji
    , repeat zchar[
00 ] i64_`u8 x,`
    , } ,
    string tag , string
    o `" ++ [233]%N ++ runes_of_ascii "`
/// triple
// " ++ [128512]%N ++ runes_of_ascii " emoji
, repeat char[  42] a1 `doc`,
string leftPad @calculatedFrom(""a\\"" ), } 	 ")).
Eval vm_compute in ("<<<M373>>>" ++ check (runes_of_ascii "options { x =3
    matchKey= ""a\""b"" // @lengthOf(
leftPad	= ""packet"" ; T = zchar[ 65535 ]; } MetaData
    MetaDataX {} MetaData // " ++ [128512]%N ++ runes_of_ascii " emoji
repeatCount {u8x Pad	, }
    packet
T{ @tag( 42  ) repeat MetaDataX `{ , }`
    // a // b
    , // @lengthOf(
float32 x@lengthOf( u8x  )
`
`
    ,int16 matchKey @calculatedFrom( ""\n""	) `two words` , }packet packetx
{_x
@calculatedFrom( ""a\""b""
)`a\`	,
} // a // b")).
Eval vm_compute in ("<<<M122>>>" ++ check (runes_of_ascii "
packet  u
    //	t
    {uint32 metadata	,	@lengthOf( metadata // " ++ [27880; 37322]%N ++ runes_of_ascii "
)
// `tick` ""quote"" 'q'
// c
repeat Logon
    ,x_y_z// a // b
, @lengthOf(
    tag )
// " ++ [128512]%N ++ runes_of_ascii " emoji
// c
float msg_type	,}MetaData chars { u8x
    matchKey
// " ++ [27880; 37322]%N ++ runes_of_ascii "
//x
,
    uint8
    x_y_z `u8 x,`, zchar x_y_z `doc` ,	char i64_ `a\` ,f32 tag//	t
, } MetaData _x {
// trailing space 
// `tick` ""quote"" 'q'
} options { }
")).
Eval vm_compute in ("<<<M74>>>" ++ check (runes_of_ascii "root packet x	{ @calculatedFrom(""a\\"" ) zchar[42 ]float @calculatedFrom(""a\""b""  ) `
` ,
    } MetaData o
    {
int8
BodyLength,string len ,
    string len , float falsey ,T float
    , }	MetaData pack { /// triple
charz o
`// not a comment`	,	float64 f32a `tab	here`  , int32  u8x  `// not a comment` ,char[10 ]
a1
, float32 options1  ,
} // `tick` ""quote"" 'q'")).
Eval vm_compute in ("<<<M4364>>>" ++ check (runes_of_ascii "
// top
  packet
    // c0

	metadata  
  // c1
      { 
      // c2
	  Logon 
	    // c3
	{ 
    // c4
A 
	// c5
  `" ++ [28040; 24687; 31867; 22411]%N ++ runes_of_ascii "` 
	    // c6
	  ,
// c7

	tag

    // c8
	o 
        // c9
  ,
    // c10
  	} 
	    // c11
  	, 
	    // c12
      zchar

// c13
    len 
  // c14
    `// not a comment` 
// c15
	, 
	// c16
    	} 
        // c17
")).
Eval vm_compute in ("<<<M3816>>>" ++ check (runes_of_ascii "
options 
{	zchar= ' '
	;  MetaDataX

    =  zchar[ 255
]	// " ++ [128512]%N ++ runes_of_ascii " emoji
; 
}
	options{
options1 
= 
""1""
//x
// " ++ [128512]%N ++ runes_of_ascii " emoji
	;
	} MetaData u128

    /// triple
	  // `tick` ""quote"" 'q'
		{
	char[]
	leftPad,

}options//	t

{  a1
= 255 ;

    } packet As

    { 
repeat

char[	007
    ]A
	,

    f32a
@lengthOf(  calculatedFrom ) ,}
")).
Eval vm_compute in ("<<<M4546>>>" ++ check (runes_of_ascii "packet string_ {
    @lengthOf(int)
    BodyLength u8x,
    i64_ `tab	here`,
    char[3] string_,
    repeat leftPad `" ++ [28040; 24687; 31867; 22411]%N ++ runes_of_ascii "`,
    repeat int32 BodyLength `u8 x,`,// `tick` ""quote"" 'q'
    @tag(4294967296)
    BodyLength `crlf
    line`,
    msg_type Packet `" ++ [233]%N ++ runes_of_ascii "`,
    float32 string_ @calculatedFrom(""""),
    asx int `it's`,
}")).
Eval vm_compute in ("<<<M1963>>>" ++ check (runes_of_ascii "MetaData
    u { }  options {
// c
// @lengthOf(
float = int8 ;rootA =false ; As =	int16 // `tick` ""quote"" 'q'
repeatCount
    // trailing space 
    =
    int16
; @leftPad =
    //	t
    '\x00' ; } options	{
    repeatCount
= 0
u128
    //
    = false ; i64_
// trailing space 
// `tick` ""quote"" 'q'
= '0' ; //	t
}
")).
Eval vm_compute in ("<<<M1931>>>" ++ check (runes_of_ascii "MetaData
    u { }  options {
// c
// @lengthOf(
float = int8 ;rootA =false ; As = =	int16 // `tick` ""quote"" 'q'
repeatCount
    // trailing space 
    =
    int16
; u8x =
    //	t
    '\x00' ; } options	{
    repeatCount
= 0
u128
    //
    = false ; i64_
// trailing space 
// `tick` ""quote"" 'q'
= '0' ; //	t
}
")).
Eval vm_compute in ("<<<M2062>>>" ++ check (runes_of_ascii "MetaData
    u { }  options {
// c
// @lengthOf(
float = int8 ;rootA =false ; As =	int16 // `tick` ""quote"" 'q|'
repeatCount
    // trailing space 
    =
    int16
; u8x =
    //	t
    '\x00' ; } options	{
    repeatCount
= 0
u128
    //
    = false ; i64_
// trailing space 
// `tick` ""quote"" 'q'
= '0' ; //	t
}
")).
Eval vm_compute in ("<<<M1968>>>" ++ check (runes_of_ascii "MetaData
    u { }  options {
// c
// @lengthOf(
float = int8 ;rootA =false ; As =	int16 // `tick` ""quote"" 'q'
repeatCount
    // trailing space 
    =
    int16
; u8x {
    //	t
    '\x00' ; } options	{
    repeatCount
= 0
u128
    //
    = false ; i64_
// trailing space 
// `tick` ""quote"" 'q'
= '0' ; //	t
}
")).
Eval vm_compute in ("<<<M1945>>>" ++ check (runes_of_ascii "MetaData
    u { }  options {
// c
// @lengthOf(
float = int8 ;rootA =false ; As =	int16 // `tick` ""quote"" 'q'
repeatCount
    // trailing space 
    
    int16
; u8x =
    //	t
    '\x00' ; } options	{
    repeatCount
= 0
u128
    //
    = false ; i64_
// trailing space 
// `tick` ""quote"" 'q'
= '0' ; //	t
}
")).
Eval vm_compute in ("<<<M1905>>>" ++ check (runes_of_ascii "MetaData
    u { }  options {
// c
// @lengthOf(
float = int8 ; =false ; As =	int16 // `tick` ""quote"" 'q'
repeatCount
    // trailing space 
    =
    int16
; u8x =
    //	t
    '\x00' ; } options	{
    repeatCount
= 0
u128
    //
    = false ; i64_
// trailing space 
// `tick` ""quote"" 'q'
= '0' ; //	t
}
")).
Eval vm_compute in ("<<<M3521>>>" ++ check (runes_of_ascii "// top
packet // c0
float // c1
{ // c2
repeat // c3
i8i8 // c4
MetaDataX // c5
`it's` // c6
, // c7
rootA // c8
, // c9
repeat // c10
int8 // c11
int // c12
, // c13
match // c14
repeatCount // c15
as // c16
x_y_z // c17
{ // c18
""{,}"" // c19
: // c20
Logon // c21
, // c22
} // c23
, // c24
} // c25
")).
Eval vm_compute in ("<<<M447>>>" ++ check (runes_of_ascii "packet roots { @tag(  255) zchar[ 00] lengthOf	`" ++ [233]%N ++ runes_of_ascii "`
    , zchar[ 7
// @lengthOf(
//
] u `say ""hi""`// " ++ [27880; 37322]%N ++ runes_of_ascii "
, }  options { } options { calculatedFrom
= 4294967296 // " ++ [128512]%N ++ runes_of_ascii " emoji
i64_ = '\x00' ; i64_
= ""abc"" ; }  MetaData roots{
    char[]
    BodyLength`two words`
, i16 Header `// not a comment`, }")).
Eval vm_compute in ("<<<M871>>>" ++ check (runes_of_ascii "packet len
{@calculatedFrom(
    ""x y"" ) @tag(3
// packet A { u8 x, }
// `tick` ""quote"" 'q'
)
//
// c
@tag( 1)
    /// triple
    match
o as
    Header { 007 : BodyLength
    ,	""x y"" : zchar
, [
""abc""] : string_
, } ,// c
int32
// packet A { u8 x, }
// a // b
leftPad , } // c")).
Eval vm_compute in ("<<<M167>>>" ++ check (runes_of_ascii "options { roots
=//x
int64 }
// @lengthOf(
// @lengthOf(
packet
    int {
char  zchar, repeat len {
    f32a `" ++ [28040; 24687; 31867; 22411]%N ++ runes_of_ascii "`, } ,zchar[
007 ]As
    `it's`
,  zchar[007
    // a // b
    ] uint8x @lengthOf(
    //x
    Foo)
    ,
// packet A { u8 x, }
// packet A { u8 x, }
}
")).
Eval vm_compute in ("<<<M1573>>>" ++ check (runes_of_ascii "packet
//	t
// trailing space 
_x {
// packet A { u8 x, }
// c
char[
3
    ] u8x @lengthOf(
u8x ) , @calculatedFrom(""" ++ [128512]%N ++ runes_of_ascii """ // @lengthOf(
)
i16	Foo
@lengthOf(	string_ string_
    )`doc`	, repeat	i64 metadata , @lengthOf( string_
) i8 // c
u  `line1
line2`	,
}
")).
Eval vm_compute in ("<<<M1565>>>" ++ check (runes_of_ascii "packet
//	t
// trailing space 
_x {
// packet A { u8 x, }
// c
char[
3
    ] u8x @lengthOf(
u8x ) , @calculatedFrom(""" ++ [128512]%N ++ runes_of_ascii """ // @lengthOf(
)
i16	uint64
@lengthOf(	string_
    )`doc`	, repeat	i64 metadata , @lengthOf( string_
) i8 // c
u  `line1
line2`	,
}
")).
Eval vm_compute in ("<<<M1656>>>" ++ check (runes_of_ascii "packet
//	t
// trailing space 
_x {
// packet A { u8 x, }
// c
char[
3
    ] u8x @lengthOf(
u8x ) , @calculatedFrom(""" ++ [128512]%N ++ runes_of_ascii """ // @lengthOf(
)
i16	Foo
@lengthOf(	string_
    )`doc`	, repeat	i64 metadata , `@lengthOf( string_
) i8 // c
u  `line1
line2`	,
}
")).
Eval vm_compute in ("<<<M1569>>>" ++ check (runes_of_ascii "packet
//	t
// trailing space 
_x {
// packet A { u8 x, }
// c
char[
3
    ] u8x @lengthOf(
u8x ) , @calculatedFrom(""" ++ [128512]%N ++ runes_of_ascii """ // @lengthOf(
)
i16	Foo
string_	@lengthOf(
    )`doc`	, repeat	i64 metadata , @lengthOf( string_
) i8 // c
u  `line1
line2`	,
}
")).
Eval vm_compute in ("<<<M1587>>>" ++ check (runes_of_ascii "packet
//	t
// trailing space 
_x {
// packet A { u8 x, }
// c
char[
3
    ] u8x @lengthOf(
u8x ) , @calculatedFrom(""" ++ [128512]%N ++ runes_of_ascii """ // @lengthOf(
)
i16	Foo
@lengthOf(	string_
    )`doc`	 repeat	i64 metadata , @lengthOf( string_
) i8 // c
u  `line1
line2`	,
}
")).
Eval vm_compute in ("<<<M3749>>>" ++ check (runes_of_ascii "packet tag {
    int8 packetx,
}

packet Foo {
    //x
    repeatCount @calculatedFrom(""x y""),
    char[00] As @lengthOf(a1) `crlf
        line`,
    @tag(10)
    len {
        char[10] matchKey `" ++ [233]%N ++ runes_of_ascii "`,
        f32a @lengthOf(u128) `it's`,
    },
}")).
Eval vm_compute in ("<<<M3390>>>" ++ check (runes_of_ascii "// top
MetaData
    // c0
body
    // c1
{
    // c2
i64
    // c3
pack
    // c4
`it's`
    // c5
,
    // c6
}
    // c7
packet
    // c8
stringy
    // c9
{
    // c10
int16
    // c11
calculatedFrom
    // c12
,
    // c13
}
    // c14
")).
Eval vm_compute in ("<<<M3>>>" ++ check (runes_of_ascii "
options	{
} MetaData pack {string T ,
    msg_type
    // a // b
    stringy `" ++ [233]%N ++ runes_of_ascii "`
, }
    // " ++ [128512]%N ++ runes_of_ascii " emoji
    packet a1 {
// " ++ [128512]%N ++ runes_of_ascii " emoji
// packet A { u8 x, }
repeat i32 x , i16 msg_type @calculatedFrom( ""it's""
    )`two words` , } // " ++ [27880; 37322]%N)).
Eval vm_compute in ("<<<M3531>>>" ++ check (runes_of_ascii "options {
    // c1
LittleEndian // c2
= true
    // c4
;
    // c5
} // c6
root // c7a
  // c7b
packet
    // c8
P { repeat // c11a
  // c11b
char
    // c12
cs
    // c13
, u8 x // c16
,
    // c17
} // c18a
  // c18b
")).
Eval vm_compute in ("<<<M1847>>>" ++ check (runes_of_ascii "options { @lengthOftrueish = ""`tick`"" ; string_= """ ++ [233]%N ++ runes_of_ascii "t" ++ [233]%N ++ runes_of_ascii """
    // c
    } root
    packet body { stringy @calculatedFrom(
""a	b"" ) `line1
line2` , }
packet Logon {
    @leftPad(
    ' ' ) //	t
u16 string_ `u8 x,` ,
}
")).
Eval vm_compute in ("<<<M1850>>>" ++ check (runes_of_ascii "options { trueish = ""`tick`"" ; string_= """ ++ [233]%N ++ runes_of_ascii "t" ++ [233]%N ++ runes_of_ascii """
    // c
    } root
    packet body { stringy @calculatedFrom(
""a	b"" ) `line1
line2` , }
packet Logon {
    @leftPa'\x01'd(
    ' ' ) //	t
u16 string_ `u8 x,` ,
}
")).
Eval vm_compute in ("<<<M1767>>>" ++ check (runes_of_ascii "options { trueish = ""`tick`"" ; string_= """ ++ [233]%N ++ runes_of_ascii "t" ++ [233]%N ++ runes_of_ascii """
    // c
    } root
    packet body { stringy @calculatedFrom(
""a	b"" ) `line1
line2` , , }
packet Logon {
    @leftPad(
    ' ' ) //	t
u16 string_ `u8 x,` ,
}
")).
Eval vm_compute in ("<<<M1674>>>" ++ check (runes_of_ascii "{ options trueish = ""`tick`"" ; string_= """ ++ [233]%N ++ runes_of_ascii "t" ++ [233]%N ++ runes_of_ascii """
    // c
    } root
    packet body { stringy @calculatedFrom(
""a	b"" ) `line1
line2` , }
packet Logon {
    @leftPad(
    ' ' ) //	t
u16 string_ `u8 x,` ,
}
")).
Eval vm_compute in ("<<<M1809>>>" ++ check (runes_of_ascii "options { trueish = ""`tick`"" ; string_= """ ++ [233]%N ++ runes_of_ascii "t" ++ [233]%N ++ runes_of_ascii """
    // c
    } root
    packet body { stringy @calculatedFrom(
""a	b"" ) `line1
line2` , }
packet Logon {
    @leftPad(
    ' ' 0 //	t
u16 string_ `u8 x,` ,
}
")).
Eval vm_compute in ("<<<M1801>>>" ++ check (runes_of_ascii "options { trueish = ""`tick`"" ; string_= """ ++ [233]%N ++ runes_of_ascii "t" ++ [233]%N ++ runes_of_ascii """
    // c
    } root
    packet body { stringy @calculatedFrom(
""a	b"" ) `line1
line2` , }
packet Logon {
    @leftPad(
     ) //	t
u16 string_ `u8 x,` ,
}
")).
Eval vm_compute in ("<<<M1672>>>" ++ check (runes_of_ascii " { trueish = ""`tick`"" ; string_= """ ++ [233]%N ++ runes_of_ascii "t" ++ [233]%N ++ runes_of_ascii """
    // c
    } root
    packet body { stringy @calculatedFrom(
""a	b"" ) `line1
line2` , }
packet Logon {
    @leftPad(
    ' ' ) //	t
u16 string_ `u8 x,` ,
}
")).
Eval vm_compute in ("<<<M185>>>" ++ check (runes_of_ascii "packet a1 {
    char[ 0 ]
len
    `two words` , char[ 00 ]packetx ,} MetaData pack // a // b
{	int64 a1 `crlf
line` ,i64_  Foo,
char[0123456789
// " ++ [128512]%N ++ runes_of_ascii " emoji
// " ++ [27880; 37322]%N ++ runes_of_ascii "
] x
    `tab	here` ,
    }

")).
Eval vm_compute in ("<<<M3709>>>" ++ check (runes_of_ascii "
// c
  options 
//	t
	{ 

// `tick` ""quote"" 'q'
	/// triple
	  repeatCount=

00
    tag
=""{,}""	MetaDataX =
'0' o
=
""`tick`""
    //x
	  // `tick` ""quote"" 'q'
  	a1 
=	""abc""

}
")).
Eval vm_compute in ("<<<M224>>>" ++ check (runes_of_ascii "root
packet Logon	{/// triple
@calculatedFrom(
    ""`tick`"" ) @rightPad ( ' '  )
    @tag(
    42 ) //	t
char[ 3 ]
trueish  @lengthOf(
matchKey
    // @lengthOf(
    ) `" ++ [233]%N ++ runes_of_ascii "` ,}
")).
Eval vm_compute in ("<<<M1810>>>" ++ check (runes_of_ascii "options { trueish = ""`tick`"" ; string_= """ ++ [233]%N ++ runes_of_ascii "t" ++ [233]%N ++ runes_of_ascii """
    // c
    } root
    packet body { stringy @calculatedFrom(
""a	b"" ) `line1
line2` , }
packet Logon {
    @leftPad(
    ' '")).
Eval vm_compute in ("<<<M392>>>" ++ check (runes_of_ascii "
root
packet
calculatedFrom
/// triple
// packet A { u8 x, }
{ i64_
    // @lengthOf(
    Packet `a\` ,
zchar[ 42] Foo@lengthOf(
tag) /// triple
`crlf
line`
, }
")).
Eval vm_compute in ("<<<M1006>>>" ++ check (runes_of_ascii "options {
    calculatedFrom //x
=float64; x_y_z = 00 } packet roots { @lengthOf( trueish)  zchar[
// trailing space 
// c
42  ] charz , } MetaData Header {  }")).
Eval vm_compute in ("<<<M1203>>>" ++ check (runes_of_ascii "root
packet i8i8 { } options {pack
=
char[3
    ]body= ""// no comment"" ;
// @lengthOf(
// c
i8i8
    // packet A { u8 x, }
    = i32 //	t
;	falsey
=""a\\"" }
")).
Eval vm_compute in ("<<<M2399>>>" ++ check (runes_of_ascii "// c
packet x { @lengthOf( metadata ) repeat lengthOf
,a1{ {
trueish	,// c
repeat//	t
MetaDataX , } , zchar[
    42	] rootA // `tick` ""quote"" 'q'
,
    }
")).
Eval vm_compute in ("<<<M2180>>>" ++ check (runes_of_ascii "options{
_x
= true
} options
{ o	= /// triple
false
    ; chars
= ""\n"" } root packet	Pad
/// triple
// packet A { u8 x, }
{	chars
    // a // b
    , ,}")).
Eval vm_compute in ("<<<M2191>>>" ++ check (runes_of_ascii "options{
_x
= true
} options
/{ o	= /// triple
false
    ; chars
= ""\n"" } root packet	Pad
/// triple
// packet A { u8 x, }
{	chars
    // a // b
    ,}")).
Eval vm_compute in ("<<<M2126>>>" ++ check (runes_of_ascii "options{
_x
= true
} options
{ o	= /// triple
;
    false chars
= ""\n"" } root packet	Pad
/// triple
// packet A { u8 x, }
{	chars
    // a // b
    ,}")).
Eval vm_compute in ("<<<M2169>>>" ++ check (runes_of_ascii "options{
_x
= true
} options
{ o	= /// triple
false
    ; chars
= ""\n"" } root packet	Pad
/// triple
// packet A { u8 x, }
	chars
    // a // b
    ,}")).
Eval vm_compute in ("<<<M2144>>>" ++ check (runes_of_ascii "options{
_x
= true
} options
{ o	= /// triple
false
    ; chars
=  } root packet	Pad
/// triple
// packet A { u8 x, }
{	chars
    // a // b
    ,}")).
Eval vm_compute in ("<<<M3837>>>" ++ check (runes_of_ascii "//
MetaData calculatedFrom {
    char[42] tag,
    body tag ``,
    int16 int,
    zchar[42] tag `doc`,
    char[] matchKey,
    uint32 Z9_,
}//	t")).
Eval vm_compute in ("<<<M862>>>" ++ check (runes_of_ascii "MetaData
trueish { o charz `tab	here`	,}  MetaData int {zchar[	4294967296  ] a1 `say ""hi""` ,
}	options { charz
    //	t
    =	'0'  tag	=""abc""}")).
Eval vm_compute in ("<<<M3706>>>" ++ check (runes_of_ascii "root packet _x {
    @rightPad(' ')
    f32 zchar @calculatedFrom(""abc"") `
    `,
    char[255] roots `crlf
    line`,
    repeat u8x,
}")).
Eval vm_compute in ("<<<M335>>>" ++ check (runes_of_ascii "MetaData u { BodyLength repeatCount // packet A { u8 x, }
,
} options {
string_
= false ; i8i8=10 ;}
    root packet float { } //")).
Eval vm_compute in ("<<<M1423>>>" ++ check (runes_of_ascii "
packet
    falsey { Header@calculatedFrom(""packet"" ""packet""  ) , char[
    0123456789 ] packetx
    , } // `tick` ""quote"" 'q'")).
Eval vm_compute in ("<<<M1949>>>" ++ check (runes_of_ascii "MetaData
    u { }  options {
// c
// @lengthOf(
float = int8 ;rootA =false ; As =	int16 // `tick` ""quote"" 'q'
repeatCount")).
Eval vm_compute in ("<<<M3315>>>" ++ check (runes_of_ascii "root packet
// c
matchKey { zchar[ 3 ] pack @calculatedFrom( ""a	b"" ) `doc` , } options { } MetaData A { int8 msg_type , }")).
Eval vm_compute in ("<<<M3347>>>" ++ check (runes_of_ascii "root packet matchKey { zchar[ 3 ] pack @calculatedFrom( ""a	b"" ) `doc` , } options { } MetaData
// c
A { int8 msg_type , }")).
Eval vm_compute in ("<<<M3927>>>" ++ check (runes_of_ascii "  packet
matchKey	// @lengthOf(
    {	// packet A { u8 x, }
		@leftPad
    (

    '0' )
int16
    options1
,

}
")).
Eval vm_compute in ("<<<M1440>>>" ++ check (runes_of_ascii "
packet
    falsey { Header@calculatedFrom(""packet""  ) , ""{,}""
    0123456789 ] packetx
    , } // `tick` ""quote"" 'q'")).
Eval vm_compute in ("<<<M3051>>>" ++ check (runes_of_ascii "packet A {
    match k as n {
        ""x\
y"" : B,
        [""x\
y"", 1] : C,
        [1,2,3,4,5,""x\
y""] : D,
    },
}")).
Eval vm_compute in ("<<<M814>>>" ++ check (runes_of_ascii "packet MetaDataX // c
{
i8i8  @calculatedFrom( ""a\""b"") `
`
    ,@calculatedFrom(""a\\"" )leftPad , }
// " ++ [128512]%N ++ runes_of_ascii " emoji
")).
Eval vm_compute in ("<<<M4128>>>" ++ check (runes_of_ascii "packet

    metadata	{Logon{ A 	 // c
    	`" ++ [28040; 24687; 31867; 22411]%N ++ runes_of_ascii "`

,
tag o 
, }	,

zchar len

    `// not a comment`
	,	}")).
Eval vm_compute in ("<<<M3033>>>" ++ check (runes_of_ascii "packet A {
    u16 len @lengthOf(body) `x
`,
    u32 crc @calculatedFrom(""CRC32"") `x
`,
    string body,
}")).
Eval vm_compute in ("<<<M3028>>>" ++ check (runes_of_ascii "packet A {
    Inner {
        u8 x `a

b`,
        Deep {
            u8 y `a

b`,
        },
    },
}")).
Eval vm_compute in ("<<<M4033>>>" ++ check (runes_of_ascii "options {
    _x = true
}

options {
    o = u64;
    chars = ""\n""
}

root packet Pad {
    chars,
}")).
Eval vm_compute in ("<<<M3016>>>" ++ check (runes_of_ascii "packet A {
    Inner {
        u8 x `
`,
        Deep {
            u8 y `
`,
        },
    },
}")).
Eval vm_compute in ("<<<M846>>>" ++ check (runes_of_ascii "packet
// @lengthOf(
// " ++ [128512]%N ++ runes_of_ascii " emoji
len{ @calculatedFrom( ""it's"")
    calculatedFrom msg_type
, }
")).
Eval vm_compute in ("<<<M2953>>>" ++ check (runes_of_ascii "packet A {
  match k as n {
    [1, ""bb"", 007, ""d"", 5, ""f"", 7, ""h"", 9] : B,
    2 : C
  },
}")).
Eval vm_compute in ("<<<M3306>>>" ++ check (runes_of_ascii "MetaData float { float64 charz `
` , } root packet chars { @rightPad ( '0' ) Foo , }
// c
")).
Eval vm_compute in ("<<<M3283>>>" ++ check (runes_of_ascii "MetaData float { float64 charz `
` , } // c
root packet chars { @rightPad ( '0' ) Foo , }")).
Eval vm_compute in ("<<<M3494>>>" ++ check (runes_of_ascii "packet chars { } packet
// c
MetaDataX { @tag( 42 ) i16 string_ , repeat x `say ""hi""` , }")).
Eval vm_compute in ("<<<M2217>>>" ++ check (runes_of_ascii "options
{ } } options { BodyLength= u16 Header= f64 ; u128 =
    true
    ; } // a // b")).
Eval vm_compute in ("<<<M2301>>>" ++ check (runes_of_ascii "options
{ } options { BodyLength= u16 Header= f64 ; u128 =
   | true
    ; } // a // b")).
Eval vm_compute in ("<<<M2233>>>" ++ check (runes_of_ascii "options
{ } options { =BodyLength u16 Header= f64 ; u128 =
    true
    ; } // a // b")).
Eval vm_compute in ("<<<M3233>>>" ++ check (runes_of_ascii "packet metadata { Logon { A `" ++ [28040; 24687; 31867; 22411]%N ++ runes_of_ascii "` , tag o , // c
} , zchar len `// not a comment` , }")).
Eval vm_compute in ("<<<M2271>>>" ++ check (runes_of_ascii "options
{ } options { BodyLength= u16 Header= f64 ; u128 
    true
    ; } // a // b")).
Eval vm_compute in ("<<<M3453>>>" ++ check (runes_of_ascii "packet o { repeat Logon uint8x , } options { asx = zchar[ // c
3 ] stringy = '\x00' }")).
Eval vm_compute in ("<<<M965>>>" ++ check (runes_of_ascii "root
packet roots
{
    // " ++ [128512]%N ++ runes_of_ascii " emoji
    calculatedFrom // c
x_y_z ,
    } // a // b")).
Eval vm_compute in ("<<<M3398>>>" ++ check (runes_of_ascii "MetaData body { // c
i64 pack `it's` , } packet stringy { int16 calculatedFrom , }")).
Eval vm_compute in ("<<<M2914>>>" ++ check (runes_of_ascii "packet A {
  match k as n {
    [1, ""bb"", 007, ""d"", 5, ""f""] : B,
    2 : C
  },
}")).
Eval vm_compute in ("<<<M3056>>>" ++ check (runes_of_ascii "packet A {
    u32 crc @calculatedFrom(""\
""),
    @calculatedFrom(""\
"") u8 y,
}")).
Eval vm_compute in ("<<<M1307>>>" ++ check (runes_of_ascii "options // `tick` ""quote"" 'q'
{ stringy='\x00'  ;
msg_type
= float32
}

")).
Eval vm_compute in ("<<<M2153>>>" ++ check (runes_of_ascii "options{
_x
= true
} options
{ o	= /// triple
false
    ; chars
= ""\n""")).
Eval vm_compute in ("<<<M4379>>>" ++ check (runes_of_ascii "options {
    _x = true
}

options {
    o = false;
    chars = ""\n""
}")).
Eval vm_compute in ("<<<M2876>>>" ++ check (runes_of_ascii "packet A {
  match k as n {
    [1, ""bb"", 007] : B
    2 : C
  },
}")).
Eval vm_compute in ("<<<M526>>>" ++ check (runes_of_ascii "//
MetaData o { i16 zchar // a // b
, char[//	t
00
] string_	, }")).
Eval vm_compute in ("<<<M669>>>" ++ check (runes_of_ascii "packet calculatedFrom
{ u32	metadata @lengthOf( Logon
)
, }
")).
Eval vm_compute in ("<<<M2340>>>" ++ check (runes_of_ascii "// c
packet x { @lengthOf( metadata ) repeat lengthOf
,a1{")).
Eval vm_compute in ("<<<M3373>>>" ++ check (runes_of_ascii "packet x { @rightPad ( // c
) repeat roots Logon `doc` , }")).
Eval vm_compute in ("<<<M4218>>>" ++ check (runes_of_ascii "root packet A {
    u8 x `a
            b
          c`,
}")).
Eval vm_compute in ("<<<M2870>>>" ++ check (runes_of_ascii "packet A { Inner { match k as n { [1,22] : B, }, }, }")).
Eval vm_compute in ("<<<M3686>>>" ++ check (runes_of_ascii "// c
MetaData calculatedFrom {
    Foo msg_type,
}")).
Eval vm_compute in ("<<<M3029>>>" ++ check (runes_of_ascii "MetaData M {
    u8 x `a

b`,
    T t `a

b`,
}")).
Eval vm_compute in ("<<<M2843>>>" ++ check (runes_of_ascii ", float32 int8 `" ++ [233]%N ++ runes_of_ascii "` char[] } { u16 { options }")).
Eval vm_compute in ("<<<M3179>>>" ++ check (runes_of_ascii "packet A { char[ // a
 3 // b
 ] // c
 x, }")).
Eval vm_compute in ("<<<M945>>>" ++ check (runes_of_ascii "options {  Packet
=	0 trueish =
i8
;	}
")).
Eval vm_compute in ("<<<M1715>>>" ++ check (runes_of_ascii "options { trueish = ""`tick`"" ; string_=")).
Eval vm_compute in ("<<<M3180>>>" ++ check (runes_of_ascii "packet A { u8 x,// a


// b

 u8 y, }")).
Eval vm_compute in ("<<<M2561>>>" ++ check (runes_of_ascii "packet A { repeat x @lengthOf(y), }")).
Eval vm_compute in ("<<<M3174>>>" ++ check (runes_of_ascii "packet A { @tag( // a
 1 ) u8 x, }")).
Eval vm_compute in ("<<<M2587>>>" ++ check (runes_of_ascii "packet A { x @lengthOf(y) `d`, }")).
Eval vm_compute in ("<<<M1705>>>" ++ check (runes_of_ascii "options { trueish = ""`tick`"" ;")).
Eval vm_compute in ("<<<M1326>>>" ++ check (runes_of_ascii "options { matchKey	='\x00';	}")).
Eval vm_compute in ("<<<M2643>>>" ++ check (runes_of_ascii "packet A { } x packet B { }")).
Eval vm_compute in ("<<<M3263>>>" ++ check (runes_of_ascii "root packet pack { }
// c
")).
Eval vm_compute in ("<<<M2291>>>" ++ check (runes_of_ascii "options
{ } options { B")).
Eval vm_compute in ("<<<M2639>>>" ++ check (runes_of_ascii "root root packet A { }")).
Eval vm_compute in ("<<<M2666>>>" ++ check (runes_of_ascii "options { a = `d`; }")).
Eval vm_compute in ("<<<M2724>>>" ++ check (runes_of_ascii "8""" ++ [65533; 65533; 65533; 24; 65533; 26]%N ++ runes_of_ascii "fLV" ++ [65533; 65533]%N ++ runes_of_ascii "J" ++ [19; 914; 65533; 27; 918]%N)).
Eval vm_compute in ("<<<M2775>>>" ++ check ([16]%N ++ runes_of_ascii "t" ++ [65533; 65533; 65533]%N ++ runes_of_ascii "N" ++ [65533; 65533]%N ++ runes_of_ascii "c" ++ [65533; 2]%N ++ runes_of_ascii "Y" ++ [65533]%N ++ runes_of_ascii "M+" ++ [65533; 65533]%N)).
Eval vm_compute in ("<<<M3140>>>" ++ check (runes_of_ascii "packet A {
}
// c" ++ [6158]%N)).
Eval vm_compute in ("<<<M3103>>>" ++ check (runes_of_ascii "packet A {
}// c" ++ [8239]%N)).
Eval vm_compute in ("<<<M2567>>>" ++ check (runes_of_ascii "packet A { u8 }")).
Eval vm_compute in ("<<<M958>>>" ++ check (runes_of_ascii "options	{ }
")).
Eval vm_compute in ("<<<M2629>>>" ++ check (runes_of_ascii "packet { }")).
Eval vm_compute in ("<<<M4110>>>" ++ check (runes_of_ascii "  // c
")).
Eval vm_compute in ("<<<M2456>>>" ++ check (runes_of_ascii "option")).
Eval vm_compute in ("<<<M2511>>>" ++ check (runes_of_ascii """a\""""")).
Eval vm_compute in ("<<<M2460>>>" ++ check (runes_of_ascii "root")).
Eval vm_compute in ("<<<M2475>>>" ++ check (runes_of_ascii "'1'")).
Eval vm_compute in ("<<<M2453>>>" ++ check (runes_of_ascii "as")).
Eval vm_compute in ("<<<M2677>>>" ++ check (runes_of_ascii ",")).
