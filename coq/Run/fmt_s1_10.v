From FP Require Import Lexer Parser ShowPT Digest Formatter.
From Coq Require Import String List NArith.
Import ListNotations.
Open Scope string_scope.
Set Printing Width 100000000.
Set Printing Depth 100000000.
Definition show_fres (r : fres) : string :=
  match r with
  | FOk s => "OK:" ++ sh_escaped s ""
  | FErr s => "ERR:" ++ sh_escaped s ""
  | FPanic p => "PANIC:" ++ p
  end.
Definition check (rs : list rune) : string := digest (show_fres (format_res rs)).
Definition full (rs : list rune) : string := show_fres (format_res rs).
Eval vm_compute in ("<<<M163>>>" ++ check (runes_of_ascii "// " ++ [128512]%N ++ runes_of_ascii " emoji
root packet	uint8x
{ zchar[ 007 ] trueish `doc` , @calculatedFrom(
""" ++ [28040; 24687]%N ++ runes_of_ascii """)body Pad
, }
packet i64_
// packet A { u8 x, }
// packet A { u8 x, }
{ int32
i8i8 `doc` ,// a // b
}
    // 50% %s
    options { f32a = ""// no comment"" ;
    crc
= ' '/// triple
As // " ++ [128512]%N ++ runes_of_ascii " emoji
='\x00' Packet
    =
u64; Logon
    =false; } packet Logon {@lengthOf( zchar
    ) zchar[ 007 ]x // 50% %s
,
@rightPad
( ' '
) match matchKey as zchar { 0: f32a
,[ ""x y""
    // " ++ [27880; 37322]%N ++ runes_of_ascii "
    ,
""" ++ [233]%N ++ runes_of_ascii "t" ++ [233]%N ++ runes_of_ascii """ ,42 // packet A { u8 x, }
, ""it's"" , 00
    // c
    ,7
,	""" ++ [128512]%N ++ runes_of_ascii """, """ ++ [233]%N ++ runes_of_ascii "t" ++ [233]%N ++ runes_of_ascii """ ] :
    falsey [4294967296 ]// @lengthOf(
:
    pack,  [ ""a	b"" , 42
,	10
// " ++ [27880; 37322]%N ++ runes_of_ascii "
// `tick` ""quote"" 'q'
, ""abc"", ""{,}""  , ""{,}"" ]: //	t
f32a[ 00 ,
// packet A { u8 x, }
// @lengthOf(
""// no comment"",0
,
    //	t
    10	, ""packet""
    ,
    //
    ""x y"" ] :packetx
, 007 : float  } ,
// @lengthOf(
// packet A { u8 x, }
@tag( 10 ) u32
zchar @lengthOf(
u8x )
    , @lengthOf(
    // c
    tag) zchar[ 7
    ]
_x ,
@tag( 65535 ) tag {//
uint8x repeatCount , match packetx
as zchar {
    [
""" ++ [128512]%N ++ runes_of_ascii """ , // " ++ [27880; 37322]%N ++ runes_of_ascii "
007
    // `tick` ""quote"" 'q'
    ] :leftPad 7
    : zchar
,
""packet"": lengthOf },}
// trailing space 
// @lengthOf(
, zchar[ 3 ] pack
@lengthOf(
T  ) , repeat A charz
, repeat
    // " ++ [128512]%N ++ runes_of_ascii " emoji
    charz `100% of %d` ,	@tag( 007)@tag(	00 )@calculatedFrom(
    ""abc"") repeat
u64 repeatCount`doc` , // `tick` ""quote"" 'q'
stringy  `{ , }` , } packet	crc
    { i16
metadata // " ++ [128512]%N ++ runes_of_ascii " emoji
, match
    string_ as  float{
    42: rootA
    , 65535 :
roots 00 : As,
    [//x
""// no comment""
    /// triple
    ,
    0123456789 ] : // " ++ [128512]%N ++ runes_of_ascii " emoji
options1, // a // b
00: BodyLength, }, repeat x{
repeat
o i8i8
// packet A { u8 x, }
// @lengthOf(
`" ++ [233]%N ++ runes_of_ascii "`
    // a // b
    ,} , match string_
as
    Z9_ { ""abc"" : a1, [ 42
, 255//	t
,
    3 , ""a	b"" , ""\" ++ [233]%N ++ runes_of_ascii """ ]
: /// triple
MetaDataX, 3 :
    //x
    matchKey ,
[ // a // b
""\" ++ [233]%N ++ runes_of_ascii """
    ,	1,
""abc"" , 255 ,	255]:
string_ ,} ,
Foo
{ crc {	char[] stringy @calculatedFrom( ""\" ++ [233]%N ++ runes_of_ascii """
    // 50% %s
    )
    // `tick` ""quote"" 'q'
    ,
repeat a1 { char[ 42 ]
    calculatedFrom @calculatedFrom( ""a\\""),
}
    ,float64 Packet `crlf
line`
, }, As { zchar @calculatedFrom( ""a\\"" ) , }, } //	t
, int16 string_ //x
@calculatedFrom( ""// no comment"" ) `" ++ [28040; 24687; 31867; 22411]%N ++ runes_of_ascii "` , repeat x `
`
, //
zchar[ 65535	] i64_ ,
    } 	 ")).
Eval vm_compute in ("<<<M3526>>>" ++ check (runes_of_ascii "packet i8i8 {
    u32 T @lengthOf(MetaDataX) `u8 x,`,// c
    As @calculatedFrom(""abc""),
    @leftPad(' ')
    @calculatedFrom(""" ++ [128512]%N ++ runes_of_ascii """)
    chars,// `tick` ""quote"" 'q'
    zchar[255] zchar,
    Packet asx,
    // " ++ [128512]%N ++ runes_of_ascii " emoji
    // packet A { u8 x, }
    Z9_ charz,
    uint64 packetx,
    @tag(3)
    @calculatedFrom(""abc"")
    @tag(007)
    repeat BodyLength lengthOf,
}

packet pack {
    @lengthOf(rootA)
    @tag(7)
    @rightPad(' ')
    body x_y_z,
    a1 {
        f32 crc @lengthOf(repeatCount),
        lengthOf int `" ++ [28040; 24687; 31867; 22411]%N ++ runes_of_ascii "`,
        match pack as repeatCount {
            ""1"" : calculatedFrom,
            4294967296 : charz,
        },
    },
    @tag(255)
    @lengthOf(float)
    repeat i32 options1,
    @lengthOf(msg_type)
    @leftPad()
    @lengthOf(body)
    uint8x body,
}

root packet x {
    @tag(7)
    repeat f32a rootA `line1
        line2`,
    @leftPad('\x00')
    @calculatedFrom(""it's"")
    @lengthOf(i64_)
    // packet A { u8 x, }
    // " ++ [27880; 37322]%N ++ runes_of_ascii "
    repeat roots {
        metadata {
            repeat calculatedFrom {
                f32 x,
                uint64 A,
                match leftPad as Pad {
                    ""a	b"" : leftPad,
                    255 : u8x,
                },
            },
        },// c
        repeat char[0123456789] falsey,
        char[0] trueish @calculatedFrom(""packet""),
        int16 repeatCount,
    },
    Packet @lengthOf(int) `line1
        line2`,
    uint16 i64_,
    Header {
        // 50% %s
        string metadata,
        // `tick` ""quote"" 'q'
        repeat Pad pack,
        crc @lengthOf(Z9_) `" ++ [233]%N ++ runes_of_ascii "`,
    },
    @lengthOf(x_y_z)
    @lengthOf(A)
    @tag(65535)
    int8 Logon @calculatedFrom(""`tick`"") `line1
        line2`,
    @calculatedFrom(""packet"")
    u8x Foo `100% of %d`,
    roots @calculatedFrom(""\n""),
    x_y_z {
        zchar[42] charz @lengthOf(u128),
        leftPad `say ""hi""`,
    },
}")).
Eval vm_compute in ("<<<M4188>>>" ++ check (runes_of_ascii "

  root
packet
Packet{

    repeat
u8  Header
, Header

,
	char 
msg_type	,
float64 msg_type `two words` , 
    //	t

// packet A { u8 x, }
@leftPad  (

    )repeat  metadata{	matchKey	{ match	MetaDataX
    as
float
// `tick` ""quote"" 'q'
  //

{ ""a	b""
:

    zchar
,
	0123456789:

    msg_type

    ,  ""a\""b"":

    msg_type
, 
    // @lengthOf(
[ 
3
    ]

: 
BodyLength	,""" ++ [128512]%N ++ runes_of_ascii """:  Pad,  ""`tick`"" :lengthOf
    ,}

,  u64

BodyLength  `100% of %d`
,
	u8x

    @calculatedFrom(
""it's""
	)	, 
}
,
	uint8
len @calculatedFrom(

""\" ++ [233]%N ++ runes_of_ascii """
)
	    // a // b

	,	T,
Z9_ ,} ,
match 
Pad // 50% %s
      as 
f32a 
{	65535  :_x}

    ,repeat
    matchKey `crlf
line`

, @lengthOf(

    i8i8) f64
	A@calculatedFrom( ""// no comment""
)

,
repeat	zchar[255 ] float
    ,  }
	options
{
rootA =	i64	// " ++ [128512]%N ++ runes_of_ascii " emoji

	;  }

    packet Pad 
{ 
MetaDataX  {  Z9_ @lengthOf( 
	// " ++ [27880; 37322]%N ++ runes_of_ascii "
/// triple
    Packet)``
	,
x tag
    ,
char[ 
    //x
    // `tick` ""quote"" 'q'
0123456789
    ]

    matchKey  ,zchar[
0
	]
	u8x  @calculatedFrom(
    ""\" ++ [233]%N ++ runes_of_ascii """	// 50% %s

)

`" ++ [28040; 24687; 31867; 22411]%N ++ runes_of_ascii "`
        // 50% %s

,  }
    // c
    //

  ,@calculatedFrom( 
""\" ++ [233]%N ++ runes_of_ascii """)

    body

    @lengthOf(

roots	)	,

f32a

    x

    ,
    roots
//	t

	@lengthOf(

    MetaDataX	) `crlf
line`
,

    @lengthOf(
u8x	)
    f64

    Logon 
@lengthOf( asx ),
repeat 
zchar[3]

    Packet`say ""hi""`
,	i16 	 // " ++ [27880; 37322]%N ++ runes_of_ascii "
	x
@calculatedFrom(

""packet""),

    @rightPad(

    ' ')
    @lengthOf(a1) stringy packetx
,  // 50% %s
    As
@lengthOf( u128
) ,
}
root 
packet
Logon 
    // c
	{	Pad
@calculatedFrom( """"
)	, }")).
Eval vm_compute in ("<<<M3531>>>" ++ check (runes_of_ascii "packet

    stringy
	{ 
@tag(

3

    )@rightPad 
(
	)  //x

  @lengthOf(
charz

)  i8i8 @lengthOf(

// @lengthOf(

BodyLength) `line1
line2`
	,

msg_type @calculatedFrom(
	""CRC32"" ) ,
	} packet
a1	{

repeat 
i32
x, 
i16 msg_type
    @calculatedFrom(""it's""
)
	`crlf
line`
    , }packet
// a // b
// @lengthOf(

Z9_{ 
repeat
	asx  `100% of %d`,  int
    ,
    // " ++ [128512]%N ++ runes_of_ascii " emoji
// " ++ [27880; 37322]%N ++ runes_of_ascii "

  @tag(

10
	)

int16 Logon

    , i64 roots

`line1
line2` 
,
u64  Pad @calculatedFrom( ""\" ++ [233]%N ++ runes_of_ascii """
    )	, @leftPad
	    // " ++ [27880; 37322]%N ++ runes_of_ascii "
// a // b
	(
)
    @leftPad
    ( ' '

    )

    @tag(
	007
)

    u @calculatedFrom(""" ++ [233]%N ++ runes_of_ascii "t" ++ [233]%N ++ runes_of_ascii """ 
)

`
` , }
packet asx {string i64_
    @lengthOf(pack

    ),
	@tag(	10

    )

char[ 1 
]  T
	,  repeat
leftPad
{

repeat

uint64
	repeatCount , int64 

// " ++ [27880; 37322]%N ++ runes_of_ascii "
    // trailing space 

pack 
`it's`
,repeat

char[

    255 ]
	BodyLength
    ,

} 
,
// `tick` ""quote"" 'q'
    	//	t
	@lengthOf(  f32a
	) 
calculatedFrom

    {

    roots 	 //
    , match

metadata  as

x_y_z 
	// 50% %s
// 50% %s
    {
	42
: metadata [

    ""\n"",
""a\\"" 
]
	:

As [

    0 , """"	, 
42 
,
	4294967296
    ,

""abc"" ,""CRC32"",
""a	b"" ,
007
	]	: falsey
,[ ""a	b""
,	7  ] :  i64_ // @lengthOf(
      ,	[
""" ++ [28040; 24687]%N ++ runes_of_ascii """ 
,
""{,}""
,  65535

    ,
	42
, ""{,}""  ,

    255, 255]  :	string_  /// triple
		,
	7	// a // b
  : T
}
,}

,

    }")).
Eval vm_compute in ("<<<M1404>>>" ++ check (runes_of_ascii "options {
	StringPrefixLenType = u16;
	ArrayPrefixLenType = u16;
}

packet SampleBinary {
    uint16 MsgType `" ++ [28040; 24687; 31867; 22411]%N ++ runes_of_ascii "`,
    u16 BodyLenght @lengthOf(Body) `" ++ [28040; 24687; 20307; 38271; 24230]%N ++ runes_of_ascii "`,
    match MsgType as Body {
        1 : Logon,
        2 : Logout,
        3 : Heartbeat,
        4 : RiskControlRequest,
        5 : RiskControlResponse,
    },
        @calculatedFrom(""CRC32"")
    u32 Ckecksum `" ++ [26657; 39564; 21644]%N ++ runes_of_ascii "`,
}

packet Logon {
     @leftPad('0')
    char[10] UserName `" ++ [29992; 25143; 21517]%N ++ runes_of_ascii "`,
    string Password `" ++ [23494; 30721]%N ++ runes_of_ascii "`,
    uint64 ClientId `" ++ [23458; 25143; 31471]%N ++ runes_of_ascii "ID`,
    u16 HeartbeatInterval `" ++ [24515; 36339; 38388; 38548]%N ++ runes_of_ascii "`,
}

packet Logout {
      @rightPad('0')
    char[10] UserName `" ++ [29992; 25143; 21517]%N ++ runes_of_ascii "`,
    uint64 ClientId `" ++ [23458; 25143; 31471]%N ++ runes_of_ascii "ID`,
}

packet Heartbeat {
}

packet RiskControlRequest {
    string UniqueOrderId `" ++ [21807; 19968; 35746; 21333; 21495]%N ++ runes_of_ascii "`,
    char[16] ClOrdID `" ++ [23458; 25143; 35746; 21333; 21495]%N ++ runes_of_ascii "`,
    char[3] MarketID `" ++ [24066; 22330]%N ++ runes_of_ascii "id`,
    char[12] SecurityID `" ++ [35777; 21048; 20195; 30721]%N ++ runes_of_ascii "`,
    char Side `" ++ [20080; 21334; 26041; 21521]%N ++ runes_of_ascii "`,
    char OrderType `" ++ [35746; 21333; 31867; 22411]%N ++ runes_of_ascii "`,
    u64 Price `" ++ [20215; 26684]%N ++ runes_of_ascii "`,
    u32 Qty `" ++ [25968; 37327]%N ++ runes_of_ascii "`,
    repeat string ExtraInfo `" ++ [38468; 21152; 20449; 24687]%N ++ runes_of_ascii "`,
    repeat SubOrder {
    		char[16] ClOrdID `" ++ [23376; 35746; 21333; 21495]%N ++ runes_of_ascii "`,
    		u64 Price `" ++ [23376; 35746; 21333; 20215; 26684]%N ++ runes_of_ascii "`,
    		u32 Qty `" ++ [23376; 35746; 21333; 25968; 37327]%N ++ runes_of_ascii "`,
    	},
}

packet RiskControlResponse {
    string UniqueOrderId `" ++ [21807; 19968; 35746; 21333; 21495]%N ++ runes_of_ascii "`,
    i32 Status `" ++ [29366; 24577]%N ++ runes_of_ascii "`,
    string Msg `" ++ [32467; 26524; 20449; 24687]%N ++ runes_of_ascii "`,
    repeat Detail,
}

packet Detail {
    string RuleName `" ++ [35268; 21017; 21517; 31216]%N ++ runes_of_ascii "`,
    u16 Code `" ++ [21407; 22240; 20195; 30721]%N ++ runes_of_ascii "`,
}")).
Eval vm_compute in ("<<<M714>>>" ++ check (runes_of_ascii "
root
packet T{msg_type ,
    // " ++ [128512]%N ++ runes_of_ascii " emoji
    }	root
    packet // trailing space 
pack {repeat
int64 lengthOf ,uint16
    stringy
    , @calculatedFrom(""\" ++ [233]%N ++ runes_of_ascii """
) a1 string_ ,
repeat packetx tag , // packet A { u8 x, }
match x as
Foo {
[4294967296
    , """ ++ [28040; 24687]%N ++ runes_of_ascii """ ,65535 , 0 ,
    ""\n"",	""CRC32"" ] : // " ++ [128512]%N ++ runes_of_ascii " emoji
falsey , [ ""a\\"" , ""{,}"" , ""`tick`""
,
    0,
""x y""
]  :len , ""\" ++ [233]%N ++ runes_of_ascii """
: matchKey ""1"":
    /// triple
    packetx
    , 1 : stringy,
    } , @rightPad
(' ' ) @lengthOf( a1	) @tag(
    65535
    ) int64 tag@calculatedFrom(""packet"" )`two words`// a // b
,@leftPad ( ' ') // c
@leftPad (
    ) chars{
    string
zchar `two words`,
    match tag	as
    u8x{ 10 // packet A { u8 x, }
:chars
// " ++ [27880; 37322]%N ++ runes_of_ascii "
// trailing space 
10
    : chars
, [ ""// no comment""
    ,7
,	""packet""
,  ""a	b"" , """", 007
    , 007
//
// a // b
, ""// no comment""
]
: MetaDataX
,// trailing space 
}
,
    } , // " ++ [27880; 37322]%N ++ runes_of_ascii "
char[]	u8x @lengthOf(
Z9_
) `two words`
    // " ++ [27880; 37322]%N ++ runes_of_ascii "
    , @rightPad (
//	t
// 50% %s
' ' )  i32 asx@lengthOf( BodyLength
), @tag( // 50% %s
3 )  @calculatedFrom(
""a\\""
    )
// c
//	t
@leftPad ('0' )
    //	t
    repeat
    // 50% %s
    Logon	Logon `it's` ,
}
")).
Eval vm_compute in ("<<<M129>>>" ++ check (runes_of_ascii "packet u8x {  @calculatedFrom( ""1""
)
// 50% %s
// " ++ [27880; 37322]%N ++ runes_of_ascii "
repeat	msg_type	{
repeat f64 Packet
    `{ , }` ,
repeat int32 rootA, zchar[ 3 ] // a // b
metadata ,zchar[00]x_y_z @calculatedFrom(
""CRC32"" ) ,
    }, leftPad
    zchar,@lengthOf( body  ) match Foo as _x {
// " ++ [128512]%N ++ runes_of_ascii " emoji
// " ++ [27880; 37322]%N ++ runes_of_ascii "
""" ++ [28040; 24687]%N ++ runes_of_ascii """
    : Packet }
,}	MetaData trueish{
    // `tick` ""quote"" 'q'
    zchar[ 0]
metadata `two words`
,
zchar
    x_y_z `
`
,// " ++ [27880; 37322]%N ++ runes_of_ascii "
u8x lengthOf , } packet u128 {  @calculatedFrom( ""a\""b"" ) repeat float32 As
`// not a comment`
, uint16 BodyLength
    @calculatedFrom(""a	b"" )  `` ,repeat zchar[
4294967296 ] stringy // @lengthOf(
`// not a comment`,@leftPad // 50% %s
(
'\x00'/// triple
) int8 body
, @lengthOf( stringy )
roots
{ zchar[ 10
] packetx, }
,@rightPad (  '\x00'
//
// " ++ [27880; 37322]%N ++ runes_of_ascii "
) As uint8x	,
// @lengthOf(
// c
repeat zchar[ 007] Packet,  string int , } packet// a // b
lengthOf {int64
u@lengthOf( rootA
    ) ,repeat pack
, repeat asx//x
{match string_ as // packet A { u8 x, }
Logon { 0123456789 : msg_type
    , } , repeat
    // " ++ [27880; 37322]%N ++ runes_of_ascii "
    rootA `{ , }`
    ,
    }
    , }
root packet int { }
")).
Eval vm_compute in ("<<<M52>>>" ++ check (runes_of_ascii "options  { o =// `tick` ""quote"" 'q'
true
// trailing space 
//x
;Z9_  =false ; Z9_ =""" ++ [128512]%N ++ runes_of_ascii """;
    // " ++ [27880; 37322]%N ++ runes_of_ascii "
    } root packet f32a{  int8 metadata
,
@leftPad (
//x
// @lengthOf(
)
float32	int
`100% of %d` , } packet float {@calculatedFrom( ""// no comment"") @tag( 65535 ) @lengthOf(
msg_type ) match
    u as A
{
[ 007 , 7// a // b
, ""x y"", 7, ""{,}"" ]: rootA ,
    """ ++ [128512]%N ++ runes_of_ascii """
    : packetx 0: i8i8
, 4294967296 :
zchar
, 4294967296
    :
x, }
, float32 uint8x
// 50% %s
// c
, match string_ as packetx { """ ++ [128512]%N ++ runes_of_ascii """: stringy, ""\n""
    : x
,""""	:
zchar , 1 : tag ,
    3
: Foo
// trailing space 
//x
,
[ 00]
    :  leftPad , // a // b
},  @calculatedFrom(""1"")
uint64
f32a,@calculatedFrom( ""// no comment"" ) char[
00 ]	trueish	@calculatedFrom( ""a\""b""
)`// not a comment`, repeatCount// 50% %s
{
char /// triple
charz  ,
float64 falsey	@lengthOf(
    chars)  `doc`
,
// " ++ [128512]%N ++ runes_of_ascii " emoji
//
uint16 crc
, int32 pack
    `doc` ,
}  , //x
Foo
    @calculatedFrom(// @lengthOf(
""a\""b""
)
`
`
    // trailing space 
    , zchar @lengthOf(
body ) , }

")).
Eval vm_compute in ("<<<M3680>>>" ++ check (runes_of_ascii "MetaData tag {
    u16 leftPad `doc`,
    chars _x `say ""hi""`,
}// @lengthOf(

root packet crc {
    packetx o `// not a comment`,
    char[] matchKey,
    @leftPad()
    repeat repeatCount `a\`,
    @leftPad('0')
    Header {
        match rootA as packetx {
            """" : options1,
            [""CRC32"", ""packet"", ""1""] : x,
            [""`tick`""] : len,
        },
    },
}

packet roots {
    //x
    @tag(1)
    charz,
    // @lengthOf(
    //x
    int32 msg_type,
    @lengthOf(matchKey)
    @calculatedFrom(""a\\"")
    repeat trueish {
        u x,
    },
    i32 msg_type,
    match trueish as rootA {
        """" : f32a,
    },
    @lengthOf(repeatCount)
    i64 packetx @lengthOf(i64_),
    repeat i32 o `// not a comment`,
    @tag(42)
    @calculatedFrom(""1"")
    @lengthOf(crc)
    //
    A o `two words`,
    repeat i64_,
    chars `" ++ [233]%N ++ runes_of_ascii "`,
}

options {
    A = ""CRC32""
}

MetaData u8x {
    u8 string_ `line1
    line2`,
    BodyLength i8i8 `" ++ [28040; 24687; 31867; 22411]%N ++ runes_of_ascii "`,
}")).
Eval vm_compute in ("<<<M3914>>>" ++ check (runes_of_ascii "
MetaData
BodyLength {zchar[  1
	]MetaDataX,

    } options {  } 
  // 50% %s
// @lengthOf(
	  options{  options1	= true 
; falsey = '0' 
;
Foo = 
""packet""

u // " ++ [27880; 37322]%N ++ runes_of_ascii "

= ""// no comment"" 	 /// triple
		; }

    packet
matchKey

    { @lengthOf( zchar

    ) char[]
    u8x@lengthOf(
	len  ) 
`// not a comment`
,
    @tag( 42 )
    @rightPad
    // @lengthOf(

// `tick` ""quote"" 'q'
    (  '0') @rightPad( 
'0' )
repeat  // trailing space 
      char[]
zchar
,

repeat pack
,
@leftPad
	// packet A { u8 x, }
      (

'\x00'/// triple
	)f32a @calculatedFrom(

    ""a	b"")  `a\`, 
@lengthOf(	x_y_z
)uint8

    _x

    @calculatedFrom(
//x
	// c
    """ ++ [233]%N ++ runes_of_ascii "t" ++ [233]%N ++ runes_of_ascii """ 
)

, _x

{ 
repeat char[ 10]f32a ,} 
,
	uint16	len 
,} MetaData
    charz  {
    char[]	o, uint8x
	tag`crlf
line` ,Header
    i64_ , metadata 
MetaDataX
    `a\`
	, zchar[	255  ]calculatedFrom

,u16 Foo`tab	here` 
, 	 // trailing space 
  }

")).
Eval vm_compute in ("<<<M263>>>" ++ check (runes_of_ascii "packet calculatedFrom
    { // @lengthOf(
repeat uint64 i8i8 // 50% %s
, @lengthOf(matchKey
)
    float32 Logon
    `crlf
line` , @calculatedFrom( // trailing space 
"""" )  char[ 42  ]
uint8x , options1 // a // b
{ char[]	chars @lengthOf( // " ++ [128512]%N ++ runes_of_ascii " emoji
u
    // `tick` ""quote"" 'q'
    ) , match // " ++ [27880; 37322]%N ++ runes_of_ascii "
zchar as pack
    {
    [
    ""1""
, """ ++ [233]%N ++ runes_of_ascii "t" ++ [233]%N ++ runes_of_ascii """ ]	: x
, 3  : u  ,0// 50% %s
: f32a , 007// c
:A
, 7 : // c
As 3 :
T  , } ,	} , }
    options{ //	t
BodyLength
    =
00
// trailing space 
// a // b
} options
    // c
    {pack = ""x y"" body
    = true; charz
    = zchar[ 4294967296 ]
;// " ++ [27880; 37322]%N ++ runes_of_ascii "
metadata
=
    string
    }
MetaData a1 { uint64 Z9_ ,
    asx Z9_
`" ++ [233]%N ++ runes_of_ascii "`
    //
    , }packet packetx
    {
// packet A { u8 x, }
/// triple
@rightPad (
    ) f64 int @lengthOf(// `tick` ""quote"" 'q'
Pad ) , u32 BodyLength ,
float64 trueish//x
@lengthOf( lengthOf ) `tab	here` , }
")).
Eval vm_compute in ("<<<M3506>>>" ++ check (runes_of_ascii "// top
options
    // c0

	{ 
        // c1
  msg_type
	    // c2
	=

    // c3
    255 

    // c4
o 

    // c5

=
	// c6
'\x00'
    // c7

  ; 
  // c8
    x_y_z
    // c9
	= 
    // c10

	""abc""
        // c11
	; 

// c12
    int 
        // c13
	=  
      // c14
  00 

    // c15
  ;
        // c16
	body
    // c17

= 
	// c18

""\" ++ [233]%N ++ runes_of_ascii """

// c19

	;

// c20
} 
	    // c21
    	MetaData 
// c22
    BodyLength 
// c23
	{

// c24
      repeatCount 
	// c25
metadata

// c26
`a\`
// c27
, 
    // c28
	f64 
// c29
	float

    // c30
		`tab	here`
        // c31
	  ,
    // c32
  	zchar[

// c33
    	4294967296
    // c34

	]
    // c35
  metadata 
	    // c36
`" ++ [233]%N ++ runes_of_ascii "` 

    // c37

, 
	// c38
	  zchar[
    // c39
    	255
	// c40
] 
      // c41
float
// c42
	, 
	// c43

  } 
    // c44
")).
Eval vm_compute in ("<<<M3712>>>" ++ check (runes_of_ascii "options {
}

root packet x_y_z {
    string u128,
    i8 zchar,
    repeatCount roots `crlf
    line`,
}

options {
    float = char[0]// c
}

packet packetx {
    @rightPad('0')
    Packet {
        roots x,
    },
    zchar[0] trueish @lengthOf(zchar),
    @lengthOf(float)
    @leftPad('0')
    //x
    @lengthOf(calculatedFrom)
    char[4294967296] x `" ++ [28040; 24687; 31867; 22411]%N ++ runes_of_ascii "`,
    Z9_ @calculatedFrom(""\n""),
}

packet MetaDataX {
    @rightPad('0')
    @tag(42)
    a1 ``,
    @calculatedFrom(""" ++ [233]%N ++ runes_of_ascii "t" ++ [233]%N ++ runes_of_ascii """)
    @tag(007)
    @leftPad()
    char[1] roots @lengthOf(repeatCount),
    char[] string_ @lengthOf(repeatCount),
    @tag(3)
    char[] x_y_z `u8 x,`,
    f64 o @lengthOf(o),
    @calculatedFrom(""" ++ [28040; 24687]%N ++ runes_of_ascii """)
    zchar[007] options1 @lengthOf(msg_type),
    @rightPad('0')
    lengthOf,
    int8 a1,
}")).
Eval vm_compute in ("<<<M122>>>" ++ check (runes_of_ascii "root packet
A
// packet A { u8 x, }
// `tick` ""quote"" 'q'
{
    int64
    //	t
    Header@calculatedFrom(
""packet"" ) , f32 o `it's` ,
@calculatedFrom(// @lengthOf(
"""" )zchar[
0123456789 ] A @calculatedFrom(
    ""\" ++ [233]%N ++ runes_of_ascii """ )
    ,@calculatedFrom( ""abc""
// a // b
//	t
) repeat
    // `tick` ""quote"" 'q'
    char[] a1,
    repeat int trueish ,@rightPad
(
'\x00'
) zchar[4294967296] _x , } root packet Z9_ {
    } packet calculatedFrom { @lengthOf( int )repeat chars // trailing space 
body, options1// " ++ [27880; 37322]%N ++ runes_of_ascii "
@lengthOf(int) ,@lengthOf(a1 ) repeat char[
    //x
    1 ]  Pad `" ++ [28040; 24687; 31867; 22411]%N ++ runes_of_ascii "` , @calculatedFrom( """" )rootA u
// " ++ [27880; 37322]%N ++ runes_of_ascii "
//
`doc`,
int8 matchKey @calculatedFrom( ""CRC32""	) , @lengthOf( packetx ) @lengthOf(  msg_type ) u16 Foo	,	packetx crc `u8 x,`, zchar[ 255  ] A	,}")).
Eval vm_compute in ("<<<M3613>>>" ++ check (runes_of_ascii "

  MetaData Foo  /// triple
{
uint32

calculatedFrom
`tab	here` 
,  //x
options1 
    //
	//x

  i64_,	// 50% %s
  string	packetx `it's` 	 // " ++ [128512]%N ++ runes_of_ascii " emoji
	,u32

Packet

    `
`	,zchar[1 ]int `" ++ [233]%N ++ runes_of_ascii "` ,

}
	    // `tick` ""quote"" 'q'
	packet
x_y_z	{

    T,
	match

    BodyLength 	 // @lengthOf(
    as 
//
charz 
{

[
	""// no comment"",
""" ++ [233]%N ++ runes_of_ascii "t" ++ [233]%N ++ runes_of_ascii """
,""`tick`""	,  0123456789] 
: 
Z9_ 
""1""
:MetaDataX[ ""\n""]	:

matchKey
, }

    ,
	stringy{
repeat  uint16 
float
	,
zchar[ 
1
	] Packet, } , //
match

    metadata as

o // " ++ [27880; 37322]%N ++ runes_of_ascii "
{ 
10
	: Header ,
7:
crc ""it's"" // 50% %s
      :
    falsey

    3 :
    leftPad 
, [	00 , 1  // trailing space 
	, 
255 ,007 	 // " ++ [27880; 37322]%N ++ runes_of_ascii "
,255 ]
	:charz
    4294967296
    : 
metadata

}
    , }
")).
Eval vm_compute in ("<<<M624>>>" ++ check (runes_of_ascii "options{ roots
=
    65535;
    }options { repeatCount =""" ++ [28040; 24687]%N ++ runes_of_ascii """ i64_
// " ++ [128512]%N ++ runes_of_ascii " emoji
// `tick` ""quote"" 'q'
=
    zchar[ 0123456789 ] i64_=""""pack
// packet A { u8 x, }
// " ++ [27880; 37322]%N ++ runes_of_ascii "
= true
    } packet rootA{
    // " ++ [128512]%N ++ runes_of_ascii " emoji
    msg_type { int32 trueish@lengthOf( asx ) `crlf
line` ,a1 @lengthOf(
    leftPad // a // b
)  ,	}// `tick` ""quote"" 'q'
, i64	repeatCount ,
u32	float
@lengthOf( float
    )
, pack  { leftPad	, } ,packetx As ,
}
// packet A { u8 x, }
// 50% %s
packet pack{
match
A as msg_type { 007  : Logon , // " ++ [27880; 37322]%N ++ runes_of_ascii "
[""CRC32"",007 , 10,
    // @lengthOf(
    7
    , ""CRC32""] : lengthOf
[
""packet""] : string_ ,""x y"": Z9_
    , }
/// triple
// @lengthOf(
,
tag ,chars @lengthOf( float ) , }")).
Eval vm_compute in ("<<<M3327>>>" ++ check (runes_of_ascii "// top
packet
    // c0
A
    // c1
{
    // c2
match
    // c3
packetx
    // c4
as
    // c5
BodyLength
    // c6
{
    // c7
007
    // c8
:
    // c9
A
    // c10
""" ++ [28040; 24687]%N ++ runes_of_ascii """
    // c11
:
    // c12
x_y_z
    // c13
,
    // c14
""" ++ [128512]%N ++ runes_of_ascii """
    // c15
:
    // c16
crc
    // c17
[
    // c18
""{,}""
    // c19
,
    // c20
""\n""
    // c21
,
    // c22
""" ++ [233]%N ++ runes_of_ascii "t" ++ [233]%N ++ runes_of_ascii """
    // c23
,
    // c24
""x y""
    // c25
,
    // c26
""a\""b""
    // c27
]
    // c28
:
    // c29
stringy
    // c30
,
    // c31
}
    // c32
,
    // c33
}
    // c34
root
    // c35
packet
    // c36
i64_
    // c37
{
    // c38
repeat
    // c39
pack
    // c40
`100% of %d`
    // c41
,
    // c42
}
    // c43
")).
Eval vm_compute in ("<<<M466>>>" ++ check (runes_of_ascii "root packet  calculatedFrom {@calculatedFrom( """ ++ [128512]%N ++ runes_of_ascii """ ) match metadata as  chars	{ ""a	b"" :
roots
    , ""\n"": BodyLength
, 00: lengthOf , }, } root packet // `tick` ""quote"" 'q'
crc {	@rightPad(  )
    string//x
stringy
@calculatedFrom( """")`doc`
// @lengthOf(
// c
, @calculatedFrom( ""it's""
    ) @leftPad
(
'0'
    ) uint16 len @calculatedFrom( ""// no comment"" )
,// " ++ [128512]%N ++ runes_of_ascii " emoji
string x
,}	packet options1{  uint8 matchKey  @lengthOf( u	)
    ,
repeat u8x  { float32
tag `say ""hi""` , options1 Pad ,falsey // trailing space 
{ repeat i8 body  `tab	here`, } ,} ,	@calculatedFrom(
    """ ++ [128512]%N ++ runes_of_ascii """ ) string_
// @lengthOf(
//
@lengthOf( falsey )// " ++ [27880; 37322]%N ++ runes_of_ascii "
`doc` ,  }")).
Eval vm_compute in ("<<<M770>>>" ++ check (runes_of_ascii "//x
root packet  uint8x {	@lengthOf( int
)@lengthOf( metadata )@lengthOf(  pack ) asx @lengthOf( trueish)
// 50% %s
//x
,}packet int{ match Logon as chars {""packet"": Packet ,
    ""{,}"" :  x, } ,msg_type `two words` , uint8 i8i8 `u8 x,` , @tag( 007
    ) @calculatedFrom(
""" ++ [128512]%N ++ runes_of_ascii """
    // `tick` ""quote"" 'q'
    )
@tag(
    3 // " ++ [27880; 37322]%N ++ runes_of_ascii "
) zchar[//	t
255 ] charz @lengthOf( falsey ),  u8
    crc
    @calculatedFrom(
    ""it's"")
    `say ""hi""` ,Logon i8i8
    ,
    u64 f32a , tag A`` ,i64_@calculatedFrom(
""" ++ [233]%N ++ runes_of_ascii "t" ++ [233]%N ++ runes_of_ascii """
) // @lengthOf(
`u8 x,`, @tag( 007 ) repeat
    metadata , } packet i64_
    {} options { BodyLength =
    255  }")).
Eval vm_compute in ("<<<M20>>>" ++ check (runes_of_ascii "packet // " ++ [27880; 37322]%N ++ runes_of_ascii "
MetaDataX /// triple
{char[ 1 ]T  ,
char[] Foo @calculatedFrom(
""{,}"" )
, a1
    // " ++ [27880; 37322]%N ++ runes_of_ascii "
    ,@lengthOf( roots) falsey int `u8 x,` , char[
    0123456789 ] a1 `
`,  string
Z9_ @calculatedFrom( ""`tick`"" ) , zchar[
00 ] Logon
    @lengthOf(u128 // " ++ [128512]%N ++ runes_of_ascii " emoji
)  `tab	here`
    ,@calculatedFrom( ""a	b""
) Z9_ { repeat stringy
    { int16  string_ ,
    string //x
tag @lengthOf(// `tick` ""quote"" 'q'
a1)// 50% %s
, } ,
    }
, repeat charz
    {lengthOf f32a , } ,char[ 65535] crc`" ++ [28040; 24687; 31867; 22411]%N ++ runes_of_ascii "` ,} packet len
{
    rootA // c
{ repeat string string_ ,
string pack
,
char[]
roots,
}
, } //")).
Eval vm_compute in ("<<<M409>>>" ++ check (runes_of_ascii "// c
root
// c
//x
packet As { trueish
    @lengthOf( A )  , @tag(42)repeat  u16
trueish
,
@rightPad  (  ' '
) i8 stringy@calculatedFrom( """ ++ [128512]%N ++ runes_of_ascii """
    )	`crlf
line`
    // 50% %s
    , calculatedFrom`tab	here`
,
    // " ++ [128512]%N ++ runes_of_ascii " emoji
    i32 Logon @calculatedFrom(
    ""CRC32""
    ) // a // b
, roots { matchKey @lengthOf( len  )
    ,
    matchKey@calculatedFrom( ""\" ++ [233]%N ++ runes_of_ascii """ ), u8x
    @calculatedFrom(""1"" )
    , falsey
    // 50% %s
    {
    // a // b
    repeat stringy u`" ++ [233]%N ++ runes_of_ascii "`	, repeat char[ 65535
    ] a1
,
}
// " ++ [128512]%N ++ runes_of_ascii " emoji
//
, }
, @tag( /// triple
3 )  int8 T
    `say ""hi""`
    , }
")).
Eval vm_compute in ("<<<M1212>>>" ++ check (runes_of_ascii "root
    packet
o { uint8 charz `" ++ [233]%N ++ runes_of_ascii "`
,	char[ 65535
] Header @calculatedFrom( ""a\\"" ) ,repeat
uint32
pack,
    chars{u32 metadata @calculatedFrom(
// @lengthOf(
// c
""x y""
    // packet A { u8 x, }
    ) `" ++ [233]%N ++ runes_of_ascii "` //	t
,	x_y_z
,string_ @calculatedFrom(
    ""a	b"" ) ,
    //	t
    float	@lengthOf(	leftPad ), } ,}MetaData body
    { string Pad `
` ,	}
root packet o
    {@calculatedFrom( ""{,}""
    ) @calculatedFrom(
    // 50% %s
    ""1"")
_x
    //
    { zchar[
    1]crc ,char[]//x
u128
    @lengthOf( matchKey)
,o @lengthOf(matchKey  )`{ , }` ,
}, }

")).
Eval vm_compute in ("<<<M3782>>>" ++ check (runes_of_ascii "root
packet

    len 
{
}
MetaData 
zchar{
} 
root
packet
len	{match

lengthOf as  x {  ""it's"" :  i64_,
[

    ""a	b"" , 0123456789,  ""\" ++ [233]%N ++ runes_of_ascii """ ,

    00 , """ ++ [28040; 24687]%N ++ runes_of_ascii """ ]
	:// `tick` ""quote"" 'q'
    	float 
[ 
    // @lengthOf(
  // packet A { u8 x, }
	""CRC32""  ,

""{,}"" 	 // a // b
    ]
	:  f32a,  [""it's"" 
,""" ++ [128512]%N ++ runes_of_ascii """
, ""a	b""

,""it's""
	,""" ++ [128512]%N ++ runes_of_ascii """ ,  3  ]  : u128

, """ ++ [128512]%N ++ runes_of_ascii """	: chars 
,

[  // @lengthOf(
		7
,	"""" ]	:
charz	,
}	, char[  00

    ]BodyLength

    ,
	@tag(4294967296  )

    string_,
@lengthOf(Foo  )BodyLength int ,}
")).
Eval vm_compute in ("<<<M3409>>>" ++ check (runes_of_ascii "// top
packet // c0a
  // c0b
A // c1
{ // c2a
  // c2b
u8
    // c3
a // c4a
  // c4b
, // c5a
  // c5b
}
    // c6
packet // c7a
  // c7b
B // c8
{
    // c9
u16
    // c10
b // c11
, // c12
} // c13a
  // c13b
root
    // c14
packet
    // c15
P // c16a
  // c16b
{ // c17
u8 // c18
K
    // c19
, // c20a
  // c20b
match // c21
K
    // c22
as
    // c23
M { // c25a
  // c25b
1 // c26a
  // c26b
: A
    // c28
, 1 // c30a
  // c30b
: // c31a
  // c31b
B // c32a
  // c32b
,
    // c33
} , } ")).
Eval vm_compute in ("<<<M3732>>>" ++ check (runes_of_ascii "packet A {
    @tag(00)
    f32a @lengthOf(Pad),// a // b
    @rightPad(' ')
    uint16 o,
    repeat Pad {
        trueish @calculatedFrom(""// no comment""),
        asx calculatedFrom ``,//	t
        zchar @lengthOf(int),
        repeat packetx {
            MetaDataX,
        },
    },
    repeat Packet matchKey,//
}

MetaData matchKey {
    u8 charz `" ++ [28040; 24687; 31867; 22411]%N ++ runes_of_ascii "`,
    i8i8 T,
    zchar[0] trueish,
    char[4294967296] float `a\`,
    options1 Pad `" ++ [28040; 24687; 31867; 22411]%N ++ runes_of_ascii "`,
    char[] stringy,
}")).
Eval vm_compute in ("<<<M1218>>>" ++ check (runes_of_ascii "
packet
    falsey { }
packet x { } packet repeatCount { @tag(
    // 50% %s
    007 ) @lengthOf( body
) @lengthOf( Z9_  ) repeat T  {repeat
    int {	char[] lengthOf @calculatedFrom( ""// no comment"" )
    ,
} ,
i8 tag , repeat char packetx // packet A { u8 x, }
`// not a comment`
,
} ,lengthOf @lengthOf(  T ), @calculatedFrom(
""{,}"" )
@calculatedFrom( ""`tick`"" )@tag(
    65535 ) zchar[ 0123456789 ] Z9_
@lengthOf(
stringy )`tab	here`
    , }
//x
")).
Eval vm_compute in ("<<<M1103>>>" ++ check (runes_of_ascii "MetaData tag { MetaDataX i8i8
    ,
}	MetaData o { a1
    charz `two words`, }// packet A { u8 x, }
root// " ++ [27880; 37322]%N ++ runes_of_ascii "
packet	zchar {	@calculatedFrom( ""// no comment"" ) @lengthOf(
string_)
@calculatedFrom(
""a\""b"" )match Header
as options1 { 0123456789 : roots 00 :/// triple
asx//x
[65535 , /// triple
""\n""
]:u128
, """ ++ [233]%N ++ runes_of_ascii "t" ++ [233]%N ++ runes_of_ascii """ : zchar 255
:
Header
    , 65535: packetx ,  }	,// " ++ [128512]%N ++ runes_of_ascii " emoji
@calculatedFrom( ""1"" ) repeat u32 repeatCount ,
    }
")).
Eval vm_compute in ("<<<M160>>>" ++ check (runes_of_ascii "root packet
a1 {
@calculatedFrom( """") int8 u128 , match
    i64_  as leftPad {
007 : tag ,[ 0123456789 ] : // 50% %s
string_	,
""" ++ [233]%N ++ runes_of_ascii "t" ++ [233]%N ++ runes_of_ascii """  :trueish , [ 255 ,  ""a	b"" ] :
trueish , }
, zchar[ 255
    ]o ,
    @tag( 65535
    ) @rightPad (' ' ) @tag( 7 )i8 pack
    @calculatedFrom( ""\n"" )
    //	t
    , repeat char[]
    charz `say ""hi""`  ,	}	options{ Header = int16 } options{ rootA= """ ++ [128512]%N ++ runes_of_ascii """ body= ""// no comment"" ;
}

")).
Eval vm_compute in ("<<<M3447>>>" ++ check (runes_of_ascii "packet NewOrder {
    u32 qty,
}
packet Cancel {
    u64 id,
}
packet Business {
    u8 Kind,
    match Kind as Detail {
        1 : NewOrder,
        2 : Cancel,
    },
}
packet TcpFrame {
    u8 T,
    match T as Body {
        1 : Business,
    },
}
packet UdpFrame {
    u8 U,
    match U as Body {
        1 : Business,
    },
    Business extra,
}
root packet Wire {
    TcpFrame,
    UdpFrame,
}
")).
Eval vm_compute in ("<<<M820>>>" ++ check (runes_of_ascii "packet uint8x { @tag(0123456789 ) match u8x
as //x
tag
    {
[ ""a\\"" , ""{,}"", // " ++ [128512]%N ++ runes_of_ascii " emoji
0123456789 // " ++ [128512]%N ++ runes_of_ascii " emoji
,""it's"" ] : tag } , char[ 3 ] packetx	,
repeat u8 x_y_z
    , i64
    repeatCount `{ , }`, msg_type
    ,@lengthOf( body ) repeat i8i8 _x `{ , }` , /// triple
@lengthOf( Pad )
repeat T	{ match msg_type // trailing space 
as tag{ /// triple
""`tick`"":len }
,
    }
,
    }")).
Eval vm_compute in ("<<<M965>>>" ++ check (runes_of_ascii "root packet  zchar {
    char[ 1 ] int
`a\` ,	} packet Foo { matchKey @calculatedFrom( """ ++ [233]%N ++ runes_of_ascii "t" ++ [233]%N ++ runes_of_ascii """	) `
`  ,
int32
body`" ++ [233]%N ++ runes_of_ascii "`, @tag(7
//x
//
) match
repeatCount as T {
[
    ""\n"" ,
    // @lengthOf(
    ""1""  ]:
tag , [//	t
""`tick`""
, ""\n"" // c
]
    // `tick` ""quote"" 'q'
    :repeatCount 00	:	Pad ,255 : body}
    , @lengthOf(x ) float64 chars	@lengthOf( uint8x ) , }
")).
Eval vm_compute in ("<<<M709>>>" ++ check (runes_of_ascii "packet f32a {// trailing space 
} packet // trailing space 
As
{ string // @lengthOf(
roots @calculatedFrom( // 50% %s
""a\""b""
    )
    , repeat leftPad
    { int32	As ,// " ++ [27880; 37322]%N ++ runes_of_ascii "
} ,  Logon
int
`crlf
line` , @leftPad ( '\x00' ) @tag(
    65535 )
@calculatedFrom( ""a	b"" )
    u32 f32a @calculatedFrom(
""packet""
) `u8 x,` // a // b
,
    } /// triple")).
Eval vm_compute in ("<<<M98>>>" ++ check (runes_of_ascii "packet calculatedFrom
{
    @tag( 00)
    @calculatedFrom(
""`tick`"" ) trueish@calculatedFrom(""x y"" )	,
i8 // 50% %s
u8x , @lengthOf( body ) uint8x
x ,  msg_type { // packet A { u8 x, }
char[] Pad`two words` ,
} , } //	t
options { charz =
    7 ; u8x = zchar[ 255 ]
;//	t
u128
    =""`tick`"" calculatedFrom = false
;} options {}
")).
Eval vm_compute in ("<<<M830>>>" ++ check (runes_of_ascii "packet len // 50% %s
{
    @calculatedFrom(""it's"" )
calculatedFrom/// triple
msg_type,
}options {zchar = 3; T
    = """ ++ [28040; 24687]%N ++ runes_of_ascii """ ;  x = char[ // 50% %s
3] Foo=false ;
} options {zchar= ""`tick`"" ;T =
    true
Packet
=
    ' ' }options { A= ""\n""
    ;  roots = ""1""
    ;lengthOf= 0 ;	metadata
    // " ++ [128512]%N ++ runes_of_ascii " emoji
    =0123456789 }

")).
Eval vm_compute in ("<<<M3938>>>" ++ check (runes_of_ascii "options {
    charz = ""x y"";
}

MetaData Pad {
}

packet As {
}

packet body {
    match matchKey as f32a {
        ""a\\"" : tag,
        007 : tag,
        3 : Packet,
        [""{,}"", ""a\\"", ""{,}""] : MetaDataX,
        // c
        // " ++ [128512]%N ++ runes_of_ascii " emoji
    },
    repeat zchar[1] x_y_z `doc`,
}

packet BodyLength {
}")).
Eval vm_compute in ("<<<M867>>>" ++ check (runes_of_ascii "packet Pad { @lengthOf( f32a )repeat u64
    // c
    lengthOf`it's`,
    @calculatedFrom( //x
""CRC32"" ) falsey {repeat  uint16 pack
    , } , } root
    packet
falsey { int8 //
falsey ,
    } root packet
trueish
    {}
//x
// trailing space 
root
    packet /// triple
calculatedFrom//
{}")).
Eval vm_compute in ("<<<M1667>>>" ++ check (runes_of_ascii "// 50% %s
packet	a1
    { zchar[
// a // b
// 50% %s
007]
T `it's`
    ,@rightPad
    // a // b
    (
'\x00')
    o repeatCount , }  packet Logon {  }packet	Logon //x
{ repeat // " ++ [128512]%N ++ runes_of_ascii " emoji
uint16 u128
    //
    `a\`,
falsey
@calculatedFrom( @calculatedFrom(""packet"" ) ,
    } 	 ")).
Eval vm_compute in ("<<<M3810>>>" ++ check (runes_of_ascii "MetaData 
pack
{	zchar[10 ] string_ `" ++ [28040; 24687; 31867; 22411]%N ++ runes_of_ascii "`  ,msg_type chars ,	char[]

    o // trailing space 

	`a\`//x
, 
zchar[65535 ]T,As
T,  packetx  tag
,
    }root

packet o
        // c
    	// `tick` ""quote"" 'q'
    	{}
MetaData chars
// trailing space 
  // 50% %s
{//x
}
")).
Eval vm_compute in ("<<<M1534>>>" ++ check (runes_of_ascii "// 50% %s
packet	a1
    { @lengthOf(
// a // b
// 50% %s
007]
T `it's`
    ,@rightPad
    // a // b
    (
'\x00')
    o repeatCount , }  packet Logon {  }packet	Logon //x
{ repeat // " ++ [128512]%N ++ runes_of_ascii " emoji
uint16 u128
    //
    `a\`,
falsey
@calculatedFrom(""packet"" ) ,
    } 	 ")).
Eval vm_compute in ("<<<M1677>>>" ++ check (runes_of_ascii "// 50% %s
packet	a1
    { zchar[
// a // b
// 50% %s
007]
T `it's`
    ,@rightPad
    // a // b
    (
'\x00')
    o repeatCount , }  packet Logon {  }packet	Logon //x
{ repeat // " ++ [128512]%N ++ runes_of_ascii " emoji
uint16 u128
    //
    `a\`,
falsey
@calculatedFrom(""packet"" ) ) ,
    } 	 ")).
Eval vm_compute in ("<<<M1563>>>" ++ check (runes_of_ascii "// 50% %s
packet	a1
    { zchar[
// a // b
// 50% %s
007]
T `it's`
    ,(
    // a // b
    @rightPad
'\x00')
    o repeatCount , }  packet Logon {  }packet	Logon //x
{ repeat // " ++ [128512]%N ++ runes_of_ascii " emoji
uint16 u128
    //
    `a\`,
falsey
@calculatedFrom(""packet"" ) ,
    } 	 ")).
Eval vm_compute in ("<<<M1541>>>" ++ check (runes_of_ascii "// 50% %s
packet	a1
    { zchar[
// a // b
// 50% %s
007
T `it's`
    ,@rightPad
    // a // b
    (
'\x00')
    o repeatCount , }  packet Logon {  }packet	Logon //x
{ repeat // " ++ [128512]%N ++ runes_of_ascii " emoji
uint16 u128
    //
    `a\`,
falsey
@calculatedFrom(""packet"" ) ,
    } 	 ")).
Eval vm_compute in ("<<<M1609>>>" ++ check (runes_of_ascii "// 50% %s
packet	a1
    { zchar[
// a // b
// 50% %s
007]
T `it's`
    ,@rightPad
    // a // b
    (
'\x00')
    o repeatCount , }  packet } {  }packet	Logon //x
{ repeat // " ++ [128512]%N ++ runes_of_ascii " emoji
uint16 u128
    //
    `a\`,
falsey
@calculatedFrom(""packet"" ) ,
    } 	 ")).
Eval vm_compute in ("<<<M644>>>" ++ check (runes_of_ascii "  options // " ++ [128512]%N ++ runes_of_ascii " emoji
{ //
}
MetaData
pack {char[] u128 ,}
root packet// 50% %s
stringy
    { // `tick` ""quote"" 'q'
@leftPad // 50% %s
( ' ' // a // b
) @lengthOf( metadata ) repeat packetx `line1
line2`
, Header@lengthOf(
    a1 //x
)`line1
line2` , }
")).
Eval vm_compute in ("<<<M360>>>" ++ check (runes_of_ascii "root packet Z9_{string_ { repeat
float { repeat // c
int8// a // b
u8x `// not a comment` ,	char[]options1@lengthOf( x_y_z )`two words` ,repeat char[ 3 ] i8i8
`" ++ [233]%N ++ runes_of_ascii "`
,match
repeatCount
as	body
    {  ""x y"":
    asx ,	}
    ,}, }, } // @lengthOf(")).
Eval vm_compute in ("<<<M3415>>>" ++ check (runes_of_ascii "packet order_item
    // c1
{ // c2a
  // c2b
u8 // c3
a ,
    // c5
} // c6a
  // c6b
root
    // c7
packet // c8
new_order // c9a
  // c9b
{
    // c10
order_item // c11a
  // c11b
, // c12
u8 // c13
x
    // c14
,
    // c15
} // c16
")).
Eval vm_compute in ("<<<M3488>>>" ++ check (runes_of_ascii "packet Sub {
    u8 a,
    u16 SubSum @calculatedFrom(""CRC16""),
}
root packet Frame {
    u16 MsgType,
    u16 BodyLen @lengthOf(Body),
    Sub Body,
    string note,
    u16 Checksum @calculatedFrom(""CRC16""),
    u8 tail,
}
")).
Eval vm_compute in ("<<<M594>>>" ++ check (runes_of_ascii "
packet i8i8	{ } packet metadata {	zchar o , }//
packet  Pad { @lengthOf(calculatedFrom )packetx, float64 Header
    ,	char
    /// triple
    x// a // b
`u8 x,`	,
@tag( 42 ) zchar[ 1/// triple
]
int
    `doc`
,
}
")).
Eval vm_compute in ("<<<M4458>>>" ++ check (runes_of_ascii "
packet MetaDataX
    {}	MetaData
	crc
{
    tag
    MetaDataX
, 
	// `tick` ""quote"" 'q'
      char[ 65535 ]

trueish	,
    string	crc
,	// a // b
    zchar[
7 ] MetaDataX 
,
	    /// triple
	// " ++ [27880; 37322]%N ++ runes_of_ascii "
	}
")).
Eval vm_compute in ("<<<M65>>>" ++ check (runes_of_ascii "packet
// @lengthOf(
// c
calculatedFrom {match	_x as MetaDataX
{ ""// no comment""  : T
, }	, } packet options1 {
} packet Logon
    {
    f32 falsey @calculatedFrom(
""" ++ [128512]%N ++ runes_of_ascii """ ), }
// packet A { u8 x, }
")).
Eval vm_compute in ("<<<M1020>>>" ++ check (runes_of_ascii "packet u8x {
options1{ u32 roots@lengthOf(
    zchar ) , char[ 4294967296] Packet  @lengthOf( A) `{ , }` ,	float@lengthOf( options1 )// 50% %s
, u @lengthOf( x) `crlf
line`,// " ++ [27880; 37322]%N ++ runes_of_ascii "
} ,
}
")).
Eval vm_compute in ("<<<M601>>>" ++ check (runes_of_ascii "root
packet
    i8i8	{ } packet u8x {uint8x  o ,
    string_ { tag
    float `crlf
line`
    , } ,
    repeat // " ++ [128512]%N ++ runes_of_ascii " emoji
char[ 7]
stringy `two words` // trailing space 
, }
")).
Eval vm_compute in ("<<<M912>>>" ++ check (runes_of_ascii "packet Pad{ zchar[
    00	]	crc ,@rightPad ( '\x00' ) uint16 crc `" ++ [233]%N ++ runes_of_ascii "`,} options { _x = string ; }// 50% %s
options
// " ++ [27880; 37322]%N ++ runes_of_ascii "
/// triple
{ Foo=  10 }options
{ Foo = '\x00'	; }
")).
Eval vm_compute in ("<<<M67>>>" ++ check (runes_of_ascii "MetaData charz { } options { crc  =  ""a	b"" ; } packet	falsey
    { // trailing space 
} packet falsey //	t
{@lengthOf( uint8x
) uint32 asx, }
root packet
crc {
}
")).
Eval vm_compute in ("<<<M4010>>>" ++ check (runes_of_ascii "packet A {
    Inner {
        u8 x `a
            b
          c`,
        Deep {
            u8 y `a
                b
              c`,
        },
    },
}")).
Eval vm_compute in ("<<<M4107>>>" ++ check (runes_of_ascii "packet leftPad {
}

MetaData trueish {
    i64_ roots,
}

root packet i8i8 {
    @leftPad('0')
    _x _x ``,// packet A { u8 x, }
}// packet A { u8 x, }")).
Eval vm_compute in ("<<<M2156>>>" ++ check (runes_of_ascii "MetaData BodyLength
{ int8 Foo
, string
    MetaDataX , float zchar ,pack options1
,asx string_, }
packet u8x {Foo Foo@lengthOf(charz )
`" ++ [28040; 24687; 31867; 22411]%N ++ runes_of_ascii "`,  }
")).
Eval vm_compute in ("<<<M2204>>>" ++ check (runes_of_ascii "MetaData BodyLength
{ int8 Foo
, string
    Me''taDataX , float zchar ,pack options1
,asx string_, }
packet u8x {Foo@lengthOf(charz )
`" ++ [28040; 24687; 31867; 22411]%N ++ runes_of_ascii "`,  }
")).
Eval vm_compute in ("<<<M1932>>>" ++ check (runes_of_ascii "
packet leftPad leftPad {
@leftPad( '0')
u32
i64_ `100% of %d` ,repeat// 50% %s
i8 chars
    ,
} MetaData
    f32a
{ // packet A { u8 x, }
}")).
Eval vm_compute in ("<<<M2231>>>" ++ check (runes_of_ascii "options
    {
x_y_z// " ++ [27880; 37322]%N ++ runes_of_ascii "
= @lengthOf( ; }
packet body {
    @calculatedFrom(
// trailing space 
// " ++ [27880; 37322]%N ++ runes_of_ascii "
""1""
)	match T as Foo
    {
255 :T , }
,}")).
Eval vm_compute in ("<<<M2098>>>" ++ check (runes_of_ascii "MetaData BodyLength
{ int8 Foo
, string
    MetaDataX , float u32 ,pack options1
,asx string_, }
packet u8x {Foo@lengthOf(charz )
`" ++ [28040; 24687; 31867; 22411]%N ++ runes_of_ascii "`,  }
")).
Eval vm_compute in ("<<<M767>>>" ++ check (runes_of_ascii "root
packet asx {  packetx u128 `a\`
//x
// " ++ [128512]%N ++ runes_of_ascii " emoji
,repeat
    //	t
    i32 x , }	options { pack  =
    true As = """ ++ [128512]%N ++ runes_of_ascii """
    ;  }
// a // b
")).
Eval vm_compute in ("<<<M2090>>>" ++ check (runes_of_ascii "MetaData BodyLength
{ int8 Foo
, string
    MetaDataX ,  zchar ,pack options1
,asx string_, }
packet u8x {Foo@lengthOf(charz )
`" ++ [28040; 24687; 31867; 22411]%N ++ runes_of_ascii "`,  }
")).
Eval vm_compute in ("<<<M2239>>>" ++ check (runes_of_ascii "options
    {
x_y_z// " ++ [27880; 37322]%N ++ runes_of_ascii "
= 10 ; } }
packet body {
    @calculatedFrom(
// trailing space 
// " ++ [27880; 37322]%N ++ runes_of_ascii "
""1""
)	match T as Foo
    {
255 :T , }
,}")).
Eval vm_compute in ("<<<M2301>>>" ++ check (runes_of_ascii "options
    {
x_y_z// " ++ [27880; 37322]%N ++ runes_of_ascii "
= 10 ; }
packet body {
    @calculatedFrom(
// trailing space 
// " ++ [27880; 37322]%N ++ runes_of_ascii "
""1""
)	match T as Foo
    {
`a\` :T , }
,}")).
Eval vm_compute in ("<<<M2003>>>" ++ check (runes_of_ascii "
packet leftPad {
@leftPad( '0')
u32
i64_ `100% of %d` ,repeat// 50% %s
i8 chars
    ,
MetaData }
    f32a
{ // packet A { u8 x, }
}")).
Eval vm_compute in ("<<<M2320>>>" ++ check (runes_of_ascii "options
    {
x_y_z// " ++ [27880; 37322]%N ++ runes_of_ascii "
= 10 ; }
packet body {
    @calculatedFrom(
// trailing space 
// " ++ [27880; 37322]%N ++ runes_of_ascii "
""1""
)	match T as Foo
    {
255 :T , ,
}}")).
Eval vm_compute in ("<<<M2308>>>" ++ check (runes_of_ascii "options
    {
x_y_z// " ++ [27880; 37322]%N ++ runes_of_ascii "
= 10 ; }
packet body {
    @calculatedFrom(
// trailing space 
// " ++ [27880; 37322]%N ++ runes_of_ascii "
""1""
)	match T as Foo
    {
255 : , }
,}")).
Eval vm_compute in ("<<<M132>>>" ++ check (runes_of_ascii "// packet A { u8 x, }
packet u128 {} options	{Z9_// a // b
=u32
}options { }	MetaData
a1
{char[  42 ] roots `" ++ [28040; 24687; 31867; 22411]%N ++ runes_of_ascii "` , }
// " ++ [128512]%N ++ runes_of_ascii " emoji
")).
Eval vm_compute in ("<<<M1267>>>" ++ check (runes_of_ascii "packet
    lengthOf { @rightPad ( ' ' ) @calculatedFrom( ""{,}"" )@lengthOf(T )repeat zchar[
    0123456789 ] lengthOf`" ++ [28040; 24687; 31867; 22411]%N ++ runes_of_ascii "`
, } 	 ")).
Eval vm_compute in ("<<<M4186>>>" ++ check (runes_of_ascii "packet A {
    Inner {
        u8 x `tab
        	x`,
        Deep {
            u8 y `tab
            	x`,
        },
    },
}")).
Eval vm_compute in ("<<<M1237>>>" ++ check (runes_of_ascii "packet
chars {
// @lengthOf(
//x
} options{
As=
uint8
As =
    // a // b
    ' 'i8i8 =// packet A { u8 x, }
0123456789 }
")).
Eval vm_compute in ("<<<M3591>>>" ++ check (runes_of_ascii "packet msg_type {
    @lengthOf(i64_)
    @leftPad(' ')
    // a // b
    char[1] float @lengthOf(matchKey),
}// " ++ [128512]%N ++ runes_of_ascii " emoji")).
Eval vm_compute in ("<<<M900>>>" ++ check (runes_of_ascii "MetaData crc  {char[] packetx
    , } MetaData f32a { string
    o`
` ,
    }  packet  Packet {repeat
i8i8 i64_
,
}")).
Eval vm_compute in ("<<<M1914>>>" ++ check (runes_of_ascii "packet o {
    'roots `it's`
// trailing space 
//x
, char[ 42
    ]  A, // " ++ [27880; 37322]%N ++ runes_of_ascii "
f64
repeatCount
    `crlf
line`
,}")).
Eval vm_compute in ("<<<M2410>>>" ++ check (runes_of_ascii "MetaData
    
{ zchar[  10 ]
    As`tab	here`,
    }// trailing space 
options  { roots ='\x00' ; } packet A
{ }
")).
Eval vm_compute in ("<<<M3074>>>" ++ check (runes_of_ascii "packet A {
    u16 len @lengthOf(body) `%%d%!`,
    u32 crc @calculatedFrom(""CRC32"") `%%d%!`,
    string body,
}")).
Eval vm_compute in ("<<<M525>>>" ++ check (runes_of_ascii "options { string_
=
""" ++ [128512]%N ++ runes_of_ascii """
; lengthOf
=
string T // c
= uint16 ;int = zchar[
    //x
    3 ] ; A	= ""1"" ;
    }")).
Eval vm_compute in ("<<<M2976>>>" ++ check (runes_of_ascii "packet A {
  match k as n {
    [""a"", ""bb"", ""c c"", ""d"", ""e"", ""f"", ""g"", ""h"", ""i"", ""j""] : B
    2 : C
  },
}")).
Eval vm_compute in ("<<<M4342>>>" ++ check (runes_of_ascii "MetaData leftPad {
    int8 falsey `line1
        line2`,
}/// triple

options {
    BodyLength = '0';
}")).
Eval vm_compute in ("<<<M4463>>>" ++ check (runes_of_ascii "  packet
    Packet{@calculatedFrom( ""\" ++ [233]%N ++ runes_of_ascii """ )
    @tag( 42 
) @calculatedFrom( 
""\n"") a1 `{ , }`  ,	}
")).
Eval vm_compute in ("<<<M2272>>>" ++ check (runes_of_ascii "options
    {
x_y_z// " ++ [27880; 37322]%N ++ runes_of_ascii "
= 10 ; }
packet body {
    @calculatedFrom(
// trailing space 
// " ++ [27880; 37322]%N ++ runes_of_ascii "
""1""")).
Eval vm_compute in ("<<<M1741>>>" ++ check (runes_of_ascii "options{  lengthOf =//x
i16;
    BodyLength BodyLength = 0 ; pack
= false;
    A = char[ 3 ] }")).
Eval vm_compute in ("<<<M1721>>>" ++ check (runes_of_ascii "options{  lengthOf lengthOf =//x
i16;
    BodyLength = 0 ; pack
= false;
    A = char[ 3 ] }")).
Eval vm_compute in ("<<<M1712>>>" ++ check (runes_of_ascii "options options{  lengthOf =//x
i16;
    BodyLength = 0 ; pack
= false;
    A = char[ 3 ] }")).
Eval vm_compute in ("<<<M552>>>" ++ check (runes_of_ascii "//x
options
{
f32a=
true
; f32a
    =
    ""a	b""; trueish =
float32 ;
BodyLength =false }
")).
Eval vm_compute in ("<<<M3216>>>" ++ check (runes_of_ascii "// top
root // c0
packet // c1
u128 // c2
{ // c3
chars // c4
`doc` // c5
, // c6
} // c7
")).
Eval vm_compute in ("<<<M1718>>>" ++ check (runes_of_ascii "options int8  lengthOf =//x
i16;
    BodyLength = 0 ; pack
= false;
    A = char[ 3 ] }")).
Eval vm_compute in ("<<<M1430>>>" ++ check (runes_of_ascii "packet
T
{ ) repeatCount as	calculatedFrom
{ [65535 ]	: As	,
} ,}
// trailing space 
")).
Eval vm_compute in ("<<<M1728>>>" ++ check (runes_of_ascii "options{  lengthOf as//x
i16;
    BodyLength = 0 ; pack
= false;
    A = char[ 3 ] }")).
Eval vm_compute in ("<<<M1772>>>" ++ check (runes_of_ascii "options{  lengthOf =//x
i16;
    BodyLength = 0 ; pack
= ;false
    A = char[ 3 ] }")).
Eval vm_compute in ("<<<M2932>>>" ++ check (runes_of_ascii "packet A {
  match k as n {
    [""a"", ""bb"", 007, ""d"", ""e"", 66] : B
    2 : C
  },
}")).
Eval vm_compute in ("<<<M2948>>>" ++ check (runes_of_ascii "packet A {
  match k as n {
    [1, 22, 007, 4, 5, 66, 7, 8] : B
    2 : C
  },
}")).
Eval vm_compute in ("<<<M2919>>>" ++ check (runes_of_ascii "packet A {
  match k as n {
    [""a"", ""bb"", 007, ""d"", ""e""] : B
    2 : C
  },
}")).
Eval vm_compute in ("<<<M3271>>>" ++ check (runes_of_ascii "MetaData Foo { zchar[ 0 ] matchKey , } options { lengthOf = i32 // c
u = 00 ; }")).
Eval vm_compute in ("<<<M331>>>" ++ check (runes_of_ascii "root packet
    //	t
    crc { // trailing space 
repeat
zchar[255 ]int
,}
")).
Eval vm_compute in ("<<<M2916>>>" ++ check (runes_of_ascii "packet A {
  match k as n {
    [1, 22, ""c c"", 4, 5] : B,
    2 : C
  },
}")).
Eval vm_compute in ("<<<M4326>>>" ++ check (runes_of_ascii "  packet
	u8x
	{ @tag(
	10

    // a // b
  	)u128

    `` ,	//	t
	} ")).
Eval vm_compute in ("<<<M1001>>>" ++ check (runes_of_ascii "packet // @lengthOf(
Packet
{
    f64 stringy `it's` , }
/// triple
")).
Eval vm_compute in ("<<<M2104>>>" ++ check (runes_of_ascii "MetaData BodyLength
{ int8 Foo
, string
    MetaDataX , float zchar")).
Eval vm_compute in ("<<<M1486>>>" ++ check (runes_of_ascii "packet
T
{ match repeatCount as	calculatedFrom
{ [65535 ]	: As	,")).
Eval vm_compute in ("<<<M3013>>>" ++ check (runes_of_ascii "packet A {
    B b `a
b`,
    B `a
b`,
    repeat B bs `a
b`,
}")).
Eval vm_compute in ("<<<M3295>>>" ++ check (runes_of_ascii "packet u8x { // c
} MetaData crc { char[ 4294967296 ] Foo , }")).
Eval vm_compute in ("<<<M2874>>>" ++ check (runes_of_ascii "packet A {
  match k as n {
    [1, 22] : B
    2 : C
  },
}")).
Eval vm_compute in ("<<<M2613>>>" ++ check (runes_of_ascii "packet A { match k as n { 1 : B 2 : C ""s"" : D [1] : E }, }")).
Eval vm_compute in ("<<<M896>>>" ++ check (runes_of_ascii "MetaData body
    //x
    { // c
} packet matchKey
{}
")).
Eval vm_compute in ("<<<M24>>>" ++ check (runes_of_ascii "packet // " ++ [27880; 37322]%N ++ runes_of_ascii "
BodyLength { f64	body@lengthOf( o ), }
")).
Eval vm_compute in ("<<<M1456>>>" ++ check (runes_of_ascii "packet
T
{ match repeatCount as	calculatedFrom
{")).
Eval vm_compute in ("<<<M3897>>>" ++ check (runes_of_ascii "
root 
packet  A
{u8	x

    `
`
,

    }

")).
Eval vm_compute in ("<<<M473>>>" ++ check (runes_of_ascii "// c
MetaData crc // `tick` ""quote"" 'q'
{ }
")).
Eval vm_compute in ("<<<M257>>>" ++ check (runes_of_ascii "packet packetx{} packet
    zchar //	t
{}
")).
Eval vm_compute in ("<<<M1311>>>" ++ check (runes_of_ascii "packet// c
u128
{ roots BodyLength , }

")).
Eval vm_compute in ("<<<M3225>>>" ++ check (runes_of_ascii "root packet u128 // c
{ chars `doc` , }")).
Eval vm_compute in ("<<<M4165>>>" ++ check (runes_of_ascii "options

{
a =
	""%d%s"" ;	b	= ""%d%s""}
")).
Eval vm_compute in ("<<<M2387>>>" ++ check (runes_of_ascii "MetaData
Foo {Header //
pack "",	} 	 ")).
Eval vm_compute in ("<<<M2377>>>" ++ check (runes_of_ascii "MetaData
Foo {Header //
pack }	, 	 ")).
Eval vm_compute in ("<<<M3041>>>" ++ check (runes_of_ascii "root packet A {
    u8 x `a

b`,
}")).
Eval vm_compute in ("<<<M2594>>>" ++ check (runes_of_ascii "packet A { x @lengthOf(y) `d`, }")).
Eval vm_compute in ("<<<M2858>>>" ++ check (runes_of_ascii "f64 zchar[ char u16 = f64 match")).
Eval vm_compute in ("<<<M3169>>>" ++ check (runes_of_ascii "packet A {
 u8 x `d" ++ [65279]%N ++ runes_of_ascii "`, // c" ++ [65279]%N ++ runes_of_ascii "
}")).
Eval vm_compute in ("<<<M2658>>>" ++ check (runes_of_ascii "MetaData M { @tag(1) u8 x, }")).
Eval vm_compute in ("<<<M2656>>>" ++ check (runes_of_ascii "MetaData M { repeat u8 x, }")).
Eval vm_compute in ("<<<M4373>>>" ++ check (runes_of_ascii "

  // c" ++ [12]%N ++ runes_of_ascii "
  packet  A

{} ")).
Eval vm_compute in ("<<<M3784>>>" ++ check (runes_of_ascii "
packet	A {

} 
  // c 	")).
Eval vm_compute in ("<<<M2646>>>" ++ check (runes_of_ascii "root root packet A { }")).
Eval vm_compute in ("<<<M224>>>" ++ check (runes_of_ascii "packet
    zchar{ }
")).
Eval vm_compute in ("<<<M2651>>>" ++ check (runes_of_ascii "MetaData M { u8 x }")).
Eval vm_compute in ("<<<M3103>>>" ++ check (runes_of_ascii "// c" ++ [160]%N ++ runes_of_ascii "
packet A {
}")).
Eval vm_compute in ("<<<M386>>>" ++ check (runes_of_ascii "packet u8x
{  }
")).
Eval vm_compute in ("<<<M3160>>>" ++ check (runes_of_ascii "packet A {
}// c" ++ [8203]%N)).
Eval vm_compute in ("<<<M2501>>>" ++ check (runes_of_ascii "@calculatedFrom")).
Eval vm_compute in ("<<<M2754>>>" ++ check (runes_of_ascii "q\A<l :(?*R<U")).
Eval vm_compute in ("<<<M1152>>>" ++ check (runes_of_ascii " // a // b")).
Eval vm_compute in ("<<<M1935>>>" ++ check (runes_of_ascii "
packet")).
Eval vm_compute in ("<<<M2432>>>" ++ check (runes_of_ascii "char[]")).
Eval vm_compute in ("<<<M2468>>>" ++ check (runes_of_ascii "roots")).
Eval vm_compute in ("<<<M101>>>" ++ check (runes_of_ascii "
 	 ")).
Eval vm_compute in ("<<<M2418>>>" ++ check (runes_of_ascii "Met")).
Eval vm_compute in ("<<<M32>>>" ++ check (runes_of_ascii "

")).
Eval vm_compute in ("<<<M2561>>>" ++ check ([233]%N)).
