From FP Require Import Lexer Parser ShowPT Digest.
From Coq Require Import String List NArith.
Import ListNotations.
Open Scope string_scope.
Set Printing Width 100000000.
Set Printing Depth 100000000.
Definition nl : string := String (Ascii.ascii_of_nat 10) EmptyString.
Definition model_lex (rs : list rune) : string := show_toks (lex rs).
Definition model_parse (rs : list rune) : string :=
  show_pt (match lex rs with Some ts => parse ts | None => None end).
(* coqc is slow at printing long strings: digests first (Digest.v), full texts on demand *)
Definition check (rs : list rune) : string :=
  digest (model_lex rs) ++ " " ++ digest (model_parse rs).
Definition full (rs : list rune) : string := model_lex rs ++ nl ++ model_parse rs.
Definition terms (ts : list tok) (t : pt) : string :=
  digest (show_toks (Some ts)) ++ " " ++ digest (show_pt (Some t)) ++ " " ++ digest (show_pt (parse ts)).
Definition terms_full (ts : list tok) (t : pt) : string :=
  show_toks (Some ts) ++ nl ++ show_pt (Some t) ++ nl ++ show_pt (parse ts).
Eval vm_compute in ("<<<M0>>>" ++ check (runes_of_ascii "packet uint8x {	@calculatedFrom(""a	b""
) i32
//
// " ++ [128512]%N ++ runes_of_ascii " emoji
charz ,
    match
x //x
as	x
{ ""a	b"":  lengthOf
,}, leftPad `// not a comment`
    , }
")).
Eval vm_compute in ("<<<M10>>>" ++ check (runes_of_ascii "
packet As {
// " ++ [27880; 37322]%N ++ runes_of_ascii "
// " ++ [27880; 37322]%N ++ runes_of_ascii "
Foo , @lengthOf( f32a ) float32 a1 ,	string pack @lengthOf( i64_
)`crlf
line`, @rightPad () @leftPad
    ( '\x00'
    ) @calculatedFrom(
""// no comment"") repeat Header charz , }
")).
Eval vm_compute in ("<<<M20>>>" ++ check (runes_of_ascii "packet // " ++ [27880; 37322]%N ++ runes_of_ascii "
MetaDataX /// triple
{char[ 1 ]T  ,
char[] Foo @calculatedFrom(
""{,}"" )
, a1
    // " ++ [27880; 37322]%N ++ runes_of_ascii "
    ,@lengthOf( roots) falsey int `u8 x,` , char[
    0123456789 ] a1 `
`,  string
Z9_ @calculatedFrom( ""`tick`"" ) , zchar[
00 ] Logon
    @lengthOf(u128 // " ++ [128512]%N ++ runes_of_ascii " emoji
)  `tab	here`
    ,@calculatedFrom( ""a	b""
) Z9_ { repeat stringy
    { int16  string_ ,
    string //x
tag @lengthOf(// `tick` ""quote"" 'q'
a1)// 50% %s
, } ,
    }
, repeat charz
    {lengthOf f32a , } ,char[ 65535] crc`" ++ [28040; 24687; 31867; 22411]%N ++ runes_of_ascii "` ,} packet len
{
    rootA // c
{ repeat string string_ ,
string pack
,
char[]
roots,
}
, } //")).
Eval vm_compute in ("<<<T20>>>" ++ terms [mkTok 35 "packet" 1 0 false; mkTok 44 (string_of_bytes [47; 47; 32; 230; 179; 168; 233; 135; 138]%N) 1 7 true; mkTok 42 "MetaDataX" 2 0 false; mkTok 44 "/// triple" 2 10 true; mkTok 2 "{" 3 0 false; mkTok 12 "char[" 3 1 false; mkTok 30 "1" 3 7 false; mkTok 13 "]" 3 9 false; mkTok 42 "T" 3 10 false; mkTok 40 "," 3 13 false; mkTok 16 "char[]" 4 0 false; mkTok 42 "Foo" 4 7 false; mkTok 5 "@calculatedFrom(" 4 11 false; mkTok 31 """{,}""" 5 0 false; mkTok 6 ")" 5 6 false; mkTok 40 "," 6 0 false; mkTok 42 "a1" 6 2 false; mkTok 44 (string_of_bytes [47; 47; 32; 230; 179; 168; 233; 135; 138]%N) 7 4 true; mkTok 40 "," 8 4 false; mkTok 7 "@lengthOf(" 8 5 false; mkTok 42 "roots" 8 16 false; mkTok 6 ")" 8 21 false; mkTok 42 "falsey" 8 23 false; mkTok 42 "int" 8 30 false; mkTok 43 "`u8 x,`" 8 34 false; mkTok 40 "," 8 42 false; mkTok 12 "char[" 8 44 false; mkTok 30 "0123456789" 9 4 false; mkTok 13 "]" 9 15 false; mkTok 42 "a1" 9 17 false; mkTok 43 (string_of_bytes [96; 10; 96]%N) 9 20 false; mkTok 40 "," 10 1 false; mkTok 15 "string" 10 4 false; mkTok 42 "Z9_" 11 0 false; mkTok 5 "@calculatedFrom(" 11 4 false; mkTok 31 """`tick`""" 11 21 false; mkTok 6 ")" 11 30 false; mkTok 40 "," 11 32 false; mkTok 14 "zchar[" 11 34 false; mkTok 30 "00" 12 0 false; mkTok 13 "]" 12 3 false; mkTok 42 "Logon" 12 5 false; mkTok 7 "@lengthOf(" 13 4 false; mkTok 42 "u128" 13 14 false; mkTok 44 (string_of_bytes [47; 47; 32; 240; 159; 152; 128; 32; 101; 109; 111; 106; 105]%N) 13 19 true; mkTok 6 ")" 14 0 false; mkTok 43 (string_of_bytes [96; 116; 97; 98; 9; 104; 101; 114; 101; 96]%N) 14 3 false; mkTok 40 "," 15 4 false; mkTok 5 "@calculatedFrom(" 15 5 false; mkTok 31 (string_of_bytes [34; 97; 9; 98; 34]%N) 15 22 false; mkTok 6 ")" 16 0 false; mkTok 42 "Z9_" 16 2 false; mkTok 2 "{" 16 6 false; mkTok 36 "repeat" 16 8 false; mkTok 42 "stringy" 16 15 false; mkTok 2 "{" 17 4 false; mkTok 25 "int16" 17 6 false; mkTok 42 "string_" 17 13 false; mkTok 40 "," 17 21 false; mkTok 15 "string" 18 4 false; mkTok 44 "//x" 18 11 true; mkTok 42 "tag" 19 0 false; mkTok 7 "@lengthOf(" 19 4 false; mkTok 44 "// `tick` ""quote"" 'q'" 19 14 true; mkTok 42 "a1" 20 0 false; mkTok 6 ")" 20 2 false; mkTok 44 "// 50% %s" 20 3 true; mkTok 40 "," 21 0 false; mkTok 3 "}" 21 2 false; mkTok 40 "," 21 4 false; mkTok 3 "}" 22 4 false; mkTok 40 "," 23 0 false; mkTok 36 "repeat" 23 2 false; mkTok 42 "charz" 23 9 false; mkTok 2 "{" 24 4 false; mkTok 42 "lengthOf" 24 5 false; mkTok 42 "f32a" 24 14 false; mkTok 40 "," 24 19 false; mkTok 3 "}" 24 21 false; mkTok 40 "," 24 23 false; mkTok 12 "char[" 24 24 false; mkTok 30 "65535" 24 30 false; mkTok 13 "]" 24 35 false; mkTok 42 "crc" 24 37 false; mkTok 43 (string_of_bytes [96; 230; 182; 136; 230; 129; 175; 231; 177; 187; 229; 158; 139; 96]%N) 24 40 false; mkTok 40 "," 24 47 false; mkTok 3 "}" 24 48 false; mkTok 35 "packet" 24 50 false; mkTok 42 "len" 24 57 false; mkTok 2 "{" 25 0 false; mkTok 42 "rootA" 26 4 false; mkTok 44 "// c" 26 10 true; mkTok 2 "{" 27 0 false; mkTok 36 "repeat" 27 2 false; mkTok 15 "string" 27 9 false; mkTok 42 "string_" 27 16 false; mkTok 40 "," 27 24 false; mkTok 15 "string" 28 0 false; mkTok 42 "pack" 28 7 false; mkTok 40 "," 29 0 false; mkTok 16 "char[]" 30 0 false; mkTok 42 "roots" 31 0 false; mkTok 40 "," 31 5 false; mkTok 3 "}" 32 0 false; mkTok 40 "," 33 0 false; mkTok 3 "}" 33 2 false; mkTok 44 "//" 33 4 true; mkTok 0 "<EOF>" 33 6 false] (mkPacket (mkPtok 35 "packet" 1 0 0) (Some (mkPtok 3 "}" 33 2 105)) [(DPacket (mkPacketDef (mkSpan (mkPtok 35 "packet" 1 0 0) (mkPtok 3 "}" 24 48 86)) None (mkPtok 35 "packet" 1 0 0) (mkPtok 42 "MetaDataX" 2 0 2) (mkPtok 2 "{" 3 0 4) [(mkFieldWithAttr (mkSpan (mkPtok 12 "char[" 3 1 5) (mkPtok 40 "," 3 13 9)) [] (MetaField (mkSpan (mkPtok 12 "char[" 3 1 5) (mkPtok 40 "," 3 13 9)) None (mkMetaDecl (mkSpan (mkPtok 12 "char[" 3 1 5) (mkPtok 40 "," 3 13 9)) (TyFixed (mkSpan (mkPtok 12 "char[" 3 1 5) (mkPtok 13 "]" 3 9 7)) (mkFixedString (mkSpan (mkPtok 12 "char[" 3 1 5) (mkPtok 13 "]" 3 9 7)) (mkPtok 12 "char[" 3 1 5) (mkPtok 30 "1" 3 7 6) (mkPtok 13 "]" 3 9 7))) (mkPtok 42 "T" 3 10 8) None (mkPtok 40 "," 3 13 9)))); (mkFieldWithAttr (mkSpan (mkPtok 16 "char[]" 4 0 10) (mkPtok 40 "," 6 0 15)) [] (CheckSumField (mkSpan (mkPtok 16 "char[]" 4 0 10) (mkPtok 40 "," 6 0 15)) (mkChecksumFieldDecl (mkSpan (mkPtok 16 "char[]" 4 0 10) (mkPtok 40 "," 6 0 15)) (Some (TyDynamic (mkSpan (mkPtok 16 "char[]" 4 0 10) (mkPtok 16 "char[]" 4 0 10)) (mkDynamicString (mkSpan (mkPtok 16 "char[]" 4 0 10) (mkPtok 16 "char[]" 4 0 10)) (mkPtok 16 "char[]" 4 0 10)))) (mkPtok 42 "Foo" 4 7 11) (mkCalculatedFrom (mkSpan (mkPtok 5 "@calculatedFrom(" 4 11 12) (mkPtok 6 ")" 5 6 14)) (mkPtok 5 "@calculatedFrom(" 4 11 12) (mkPtok 31 """{,}""" 5 0 13) (mkPtok 6 ")" 5 6 14)) None (mkPtok 40 "," 6 0 15)))); (mkFieldWithAttr (mkSpan (mkPtok 42 "a1" 6 2 16) (mkPtok 40 "," 8 4 18)) [] (ObjectField (mkSpan (mkPtok 42 "a1" 6 2 16) (mkPtok 40 "," 8 4 18)) None (mkPtok 42 "a1" 6 2 16) None None (mkPtok 40 "," 8 4 18))); (mkFieldWithAttr (mkSpan (mkPtok 7 "@lengthOf(" 8 5 19) (mkPtok 40 "," 8 42 25)) [(FALengthOf (mkSpan (mkPtok 7 "@lengthOf(" 8 5 19) (mkPtok 6 ")" 8 21 21)) (mkLengthOf (mkSpan (mkPtok 7 "@lengthOf(" 8 5 19) (mkPtok 6 ")" 8 21 21)) (mkPtok 7 "@lengthOf(" 8 5 19) (mkPtok 42 "roots" 8 16 20) (mkPtok 6 ")" 8 21 21)))] (ObjectField (mkSpan (mkPtok 42 "falsey" 8 23 22) (mkPtok 40 "," 8 42 25)) None (mkPtok 42 "falsey" 8 23 22) (Some (mkPtok 42 "int" 8 30 23)) (Some (mkPtok 43 "`u8 x,`" 8 34 24)) (mkPtok 40 "," 8 42 25))); (mkFieldWithAttr (mkSpan (mkPtok 12 "char[" 8 44 26) (mkPtok 40 "," 10 1 31)) [] (MetaField (mkSpan (mkPtok 12 "char[" 8 44 26) (mkPtok 40 "," 10 1 31)) None (mkMetaDecl (mkSpan (mkPtok 12 "char[" 8 44 26) (mkPtok 40 "," 10 1 31)) (TyFixed (mkSpan (mkPtok 12 "char[" 8 44 26) (mkPtok 13 "]" 9 15 28)) (mkFixedString (mkSpan (mkPtok 12 "char[" 8 44 26) (mkPtok 13 "]" 9 15 28)) (mkPtok 12 "char[" 8 44 26) (mkPtok 30 "0123456789" 9 4 27) (mkPtok 13 "]" 9 15 28))) (mkPtok 42 "a1" 9 17 29) (Some (mkPtok 43 (string_of_bytes [96; 10; 96]%N) 9 20 30)) (mkPtok 40 "," 10 1 31)))); (mkFieldWithAttr (mkSpan (mkPtok 15 "string" 10 4 32) (mkPtok 40 "," 11 32 37)) [] (CheckSumField (mkSpan (mkPtok 15 "string" 10 4 32) (mkPtok 40 "," 11 32 37)) (mkChecksumFieldDecl (mkSpan (mkPtok 15 "string" 10 4 32) (mkPtok 40 "," 11 32 37)) (Some (TyDynamic (mkSpan (mkPtok 15 "string" 10 4 32) (mkPtok 15 "string" 10 4 32)) (mkDynamicString (mkSpan (mkPtok 15 "string" 10 4 32) (mkPtok 15 "string" 10 4 32)) (mkPtok 15 "string" 10 4 32)))) (mkPtok 42 "Z9_" 11 0 33) (mkCalculatedFrom (mkSpan (mkPtok 5 "@calculatedFrom(" 11 4 34) (mkPtok 6 ")" 11 30 36)) (mkPtok 5 "@calculatedFrom(" 11 4 34) (mkPtok 31 """`tick`""" 11 21 35) (mkPtok 6 ")" 11 30 36)) None (mkPtok 40 "," 11 32 37)))); (mkFieldWithAttr (mkSpan (mkPtok 14 "zchar[" 11 34 38) (mkPtok 40 "," 15 4 47)) [] (LengthField (mkSpan (mkPtok 14 "zchar[" 11 34 38) (mkPtok 40 "," 15 4 47)) (mkLengthFieldDecl (mkSpan (mkPtok 14 "zchar[" 11 34 38) (mkPtok 40 "," 15 4 47)) (Some (TyFixed (mkSpan (mkPtok 14 "zchar[" 11 34 38) (mkPtok 13 "]" 12 3 40)) (mkFixedString (mkSpan (mkPtok 14 "zchar[" 11 34 38) (mkPtok 13 "]" 12 3 40)) (mkPtok 14 "zchar[" 11 34 38) (mkPtok 30 "00" 12 0 39) (mkPtok 13 "]" 12 3 40)))) (mkPtok 42 "Logon" 12 5 41) (mkLengthOf (mkSpan (mkPtok 7 "@lengthOf(" 13 4 42) (mkPtok 6 ")" 14 0 45)) (mkPtok 7 "@lengthOf(" 13 4 42) (mkPtok 42 "u128" 13 14 43) (mkPtok 6 ")" 14 0 45)) (Some (mkPtok 43 (string_of_bytes [96; 116; 97; 98; 9; 104; 101; 114; 101; 96]%N) 14 3 46)) (mkPtok 40 "," 15 4 47)))); (mkFieldWithAttr (mkSpan (mkPtok 5 "@calculatedFrom(" 15 5 48) (mkPtok 40 "," 23 0 71)) [(FACalculatedFrom (mkSpan (mkPtok 5 "@calculatedFrom(" 15 5 48) (mkPtok 6 ")" 16 0 50)) (mkCalculatedFrom (mkSpan (mkPtok 5 "@calculatedFrom(" 15 5 48) (mkPtok 6 ")" 16 0 50)) (mkPtok 5 "@calculatedFrom(" 15 5 48) (mkPtok 31 (string_of_bytes [34; 97; 9; 98; 34]%N) 15 22 49) (mkPtok 6 ")" 16 0 50)))] (InerObjectField (mkSpan (mkPtok 42 "Z9_" 16 2 51) (mkPtok 40 "," 23 0 71)) None (InerObjectDecl (mkSpan (mkPtok 42 "Z9_" 16 2 51) (mkPtok 3 "}" 22 4 70)) (mkPtok 42 "Z9_" 16 2 51) (mkPtok 2 "{" 16 6 52) [(InerObjectField (mkSpan (mkPtok 36 "repeat" 16 8 53) (mkPtok 40 "," 21 4 69)) (Some (mkPtok 36 "repeat" 16 8 53)) (InerObjectDecl (mkSpan (mkPtok 42 "stringy" 16 15 54) (mkPtok 3 "}" 21 2 68)) (mkPtok 42 "stringy" 16 15 54) (mkPtok 2 "{" 17 4 55) [(MetaField (mkSpan (mkPtok 25 "int16" 17 6 56) (mkPtok 40 "," 17 21 58)) None (mkMetaDecl (mkSpan (mkPtok 25 "int16" 17 6 56) (mkPtok 40 "," 17 21 58)) (TyBasic (mkSpan (mkPtok 25 "int16" 17 6 56) (mkPtok 25 "int16" 17 6 56)) (mkBasicType (mkSpan (mkPtok 25 "int16" 17 6 56) (mkPtok 25 "int16" 17 6 56)) (mkPtok 25 "int16" 17 6 56))) (mkPtok 42 "string_" 17 13 57) None (mkPtok 40 "," 17 21 58))); (LengthField (mkSpan (mkPtok 15 "string" 18 4 59) (mkPtok 40 "," 21 0 67)) (mkLengthFieldDecl (mkSpan (mkPtok 15 "string" 18 4 59) (mkPtok 40 "," 21 0 67)) (Some (TyDynamic (mkSpan (mkPtok 15 "string" 18 4 59) (mkPtok 15 "string" 18 4 59)) (mkDynamicString (mkSpan (mkPtok 15 "string" 18 4 59) (mkPtok 15 "string" 18 4 59)) (mkPtok 15 "string" 18 4 59)))) (mkPtok 42 "tag" 19 0 61) (mkLengthOf (mkSpan (mkPtok 7 "@lengthOf(" 19 4 62) (mkPtok 6 ")" 20 2 65)) (mkPtok 7 "@lengthOf(" 19 4 62) (mkPtok 42 "a1" 20 0 64) (mkPtok 6 ")" 20 2 65)) None (mkPtok 40 "," 21 0 67)))] (mkPtok 3 "}" 21 2 68)) (mkPtok 40 "," 21 4 69))] (mkPtok 3 "}" 22 4 70)) (mkPtok 40 "," 23 0 71))); (mkFieldWithAttr (mkSpan (mkPtok 36 "repeat" 23 2 72) (mkPtok 40 "," 24 23 79)) [] (InerObjectField (mkSpan (mkPtok 36 "repeat" 23 2 72) (mkPtok 40 "," 24 23 79)) (Some (mkPtok 36 "repeat" 23 2 72)) (InerObjectDecl (mkSpan (mkPtok 42 "charz" 23 9 73) (mkPtok 3 "}" 24 21 78)) (mkPtok 42 "charz" 23 9 73) (mkPtok 2 "{" 24 4 74) [(ObjectField (mkSpan (mkPtok 42 "lengthOf" 24 5 75) (mkPtok 40 "," 24 19 77)) None (mkPtok 42 "lengthOf" 24 5 75) (Some (mkPtok 42 "f32a" 24 14 76)) None (mkPtok 40 "," 24 19 77))] (mkPtok 3 "}" 24 21 78)) (mkPtok 40 "," 24 23 79))); (mkFieldWithAttr (mkSpan (mkPtok 12 "char[" 24 24 80) (mkPtok 40 "," 24 47 85)) [] (MetaField (mkSpan (mkPtok 12 "char[" 24 24 80) (mkPtok 40 "," 24 47 85)) None (mkMetaDecl (mkSpan (mkPtok 12 "char[" 24 24 80) (mkPtok 40 "," 24 47 85)) (TyFixed (mkSpan (mkPtok 12 "char[" 24 24 80) (mkPtok 13 "]" 24 35 82)) (mkFixedString (mkSpan (mkPtok 12 "char[" 24 24 80) (mkPtok 13 "]" 24 35 82)) (mkPtok 12 "char[" 24 24 80) (mkPtok 30 "65535" 24 30 81) (mkPtok 13 "]" 24 35 82))) (mkPtok 42 "crc" 24 37 83) (Some (mkPtok 43 (string_of_bytes [96; 230; 182; 136; 230; 129; 175; 231; 177; 187; 229; 158; 139; 96]%N) 24 40 84)) (mkPtok 40 "," 24 47 85))))] (mkPtok 3 "}" 24 48 86))); (DPacket (mkPacketDef (mkSpan (mkPtok 35 "packet" 24 50 87) (mkPtok 3 "}" 33 2 105)) None (mkPtok 35 "packet" 24 50 87) (mkPtok 42 "len" 24 57 88) (mkPtok 2 "{" 25 0 89) [(mkFieldWithAttr (mkSpan (mkPtok 42 "rootA" 26 4 90) (mkPtok 40 "," 33 0 104)) [] (InerObjectField (mkSpan (mkPtok 42 "rootA" 26 4 90) (mkPtok 40 "," 33 0 104)) None (InerObjectDecl (mkSpan (mkPtok 42 "rootA" 26 4 90) (mkPtok 3 "}" 32 0 103)) (mkPtok 42 "rootA" 26 4 90) (mkPtok 2 "{" 27 0 92) [(MetaField (mkSpan (mkPtok 36 "repeat" 27 2 93) (mkPtok 40 "," 27 24 96)) (Some (mkPtok 36 "repeat" 27 2 93)) (mkMetaDecl (mkSpan (mkPtok 15 "string" 27 9 94) (mkPtok 40 "," 27 24 96)) (TyDynamic (mkSpan (mkPtok 15 "string" 27 9 94) (mkPtok 15 "string" 27 9 94)) (mkDynamicString (mkSpan (mkPtok 15 "string" 27 9 94) (mkPtok 15 "string" 27 9 94)) (mkPtok 15 "string" 27 9 94))) (mkPtok 42 "string_" 27 16 95) None (mkPtok 40 "," 27 24 96))); (MetaField (mkSpan (mkPtok 15 "string" 28 0 97) (mkPtok 40 "," 29 0 99)) None (mkMetaDecl (mkSpan (mkPtok 15 "string" 28 0 97) (mkPtok 40 "," 29 0 99)) (TyDynamic (mkSpan (mkPtok 15 "string" 28 0 97) (mkPtok 15 "string" 28 0 97)) (mkDynamicString (mkSpan (mkPtok 15 "string" 28 0 97) (mkPtok 15 "string" 28 0 97)) (mkPtok 15 "string" 28 0 97))) (mkPtok 42 "pack" 28 7 98) None (mkPtok 40 "," 29 0 99))); (MetaField (mkSpan (mkPtok 16 "char[]" 30 0 100) (mkPtok 40 "," 31 5 102)) None (mkMetaDecl (mkSpan (mkPtok 16 "char[]" 30 0 100) (mkPtok 40 "," 31 5 102)) (TyDynamic (mkSpan (mkPtok 16 "char[]" 30 0 100) (mkPtok 16 "char[]" 30 0 100)) (mkDynamicString (mkSpan (mkPtok 16 "char[]" 30 0 100) (mkPtok 16 "char[]" 30 0 100)) (mkPtok 16 "char[]" 30 0 100))) (mkPtok 42 "roots" 31 0 101) None (mkPtok 40 "," 31 5 102)))] (mkPtok 3 "}" 32 0 103)) (mkPtok 40 "," 33 0 104)))] (mkPtok 3 "}" 33 2 105)))])).
Eval vm_compute in ("<<<M30>>>" ++ check (runes_of_ascii "packet
u8x{ char[ 7 ]Logon//x
, @lengthOf( Foo) trueish Header
    , match
repeatCount as o { 00
: uint8x, [ 007 // " ++ [27880; 37322]%N ++ runes_of_ascii "
]
    :calculatedFrom
""abc"":
_x , } , char[] MetaDataX `it's` , } root  packet _x {
@lengthOf(As)
@lengthOf( asx
    ) zchar[ 42 //	t
]
    u128	@calculatedFrom( """ ++ [28040; 24687]%N ++ runes_of_ascii """ ),
repeat string
_x , asx{ zchar[ 1  ]
crc
    ,}
,
    } packet trueish { match
    i64_ as
    tag
{ 3:
    roots  ,
0123456789 :
    options1
    ,""it's""
    :
stringy , } , @tag(
    // `tick` ""quote"" 'q'
    10 ) @rightPad (// @lengthOf(
' ' )  @rightPad	(
    /// triple
    '\x00' )
repeat i64 // @lengthOf(
packetx
, repeat//x
o  x `// not a comment` , }
")).
Eval vm_compute in ("<<<M40>>>" ++ check (runes_of_ascii "MetaData
T {crc /// triple
u8x `" ++ [233]%N ++ runes_of_ascii "` , } // `tick` ""quote"" 'q'")).
Eval vm_compute in ("<<<M50>>>" ++ check (runes_of_ascii "MetaData leftPad
    { uint64 tag	`{ , }`
, i64
    chars
`
`
    , }packet MetaDataX
    /// triple
    { char[ 0 ]
x `100% of %d` ,
}
")).
Eval vm_compute in ("<<<M60>>>" ++ check (runes_of_ascii "packet
chars {
match
    A as stringy
    { ""CRC32""
    // `tick` ""quote"" 'q'
    : len
    ,
    [	""x y""] : BodyLength	, // packet A { u8 x, }
}	,}
    options
{ // @lengthOf(
string_= '\x00'
; /// triple
} packet
/// triple
// " ++ [27880; 37322]%N ++ runes_of_ascii "
crc { @rightPad ( '\x00'
) match
    Header  as rootA{
[ 255	, 42
    ,""1""
, ""{,}"" ,
// 50% %s
// 50% %s
10	, ""CRC32"" , 7 ]: leftPad ,}, uint32 crc,// packet A { u8 x, }
u8x@lengthOf(MetaDataX
/// triple
/// triple
) , i32 o
    // `tick` ""quote"" 'q'
    `crlf
line` , } // packet A { u8 x, }")).
Eval vm_compute in ("<<<M70>>>" ++ check (runes_of_ascii "packet
    zchar{zchar[ // 50% %s
4294967296
] len `crlf
line`, @tag(
7 ) @tag( 4294967296 ) i8 msg_type @calculatedFrom(""1"" ) `crlf
line`  ,
    zchar[ 0] // " ++ [27880; 37322]%N ++ runes_of_ascii "
body @calculatedFrom(
""// no comment""
)  , repeat f64 _x // trailing space 
,char[3
] x @calculatedFrom(""`tick`"" )
    `say ""hi""` , @tag(
65535  ) char MetaDataX// @lengthOf(
@lengthOf( BodyLength ) ,// packet A { u8 x, }
@lengthOf(Z9_ )match Pad as Z9_ { ""x y"":
    chars , ""a	b"":
u128 , """ ++ [128512]%N ++ runes_of_ascii """ : Header }
    , zchar[	007]
    float
    `u8 x,`, }options
{
    stringy = zchar[7 ] ;}packet Header
{	matchKey  tag	, @calculatedFrom(	""// no comment"") @calculatedFrom( """"	)	@rightPad  (' ') u128// trailing space 
{repeat leftPad
{ int64
    rootA	@lengthOf(
crc ) `" ++ [233]%N ++ runes_of_ascii "` , }  ,
    } ,zchar[
42
    ] matchKey	,
    // " ++ [27880; 37322]%N ++ runes_of_ascii "
    @lengthOf(rootA ) float32
chars @lengthOf( pack // `tick` ""quote"" 'q'
)
// " ++ [27880; 37322]%N ++ runes_of_ascii "
// c
``
,}
")).
Eval vm_compute in ("<<<M80>>>" ++ check (runes_of_ascii "// trailing space 
options{ x
=	""it's"" }")).
Eval vm_compute in ("<<<M90>>>" ++ check (runes_of_ascii "packet metadata { // trailing space 
roots
uint8x , @leftPad
    ( )zchar[
3
] Header,
    i64_ roots , @lengthOf( A)
    // " ++ [128512]%N ++ runes_of_ascii " emoji
    @lengthOf( // trailing space 
pack
) @lengthOf( calculatedFrom
// a // b
/// triple
)
    // trailing space 
    u8 charz `crlf
line` , }")).
Eval vm_compute in ("<<<T90>>>" ++ terms [mkTok 35 "packet" 1 0 false; mkTok 42 "metadata" 1 7 false; mkTok 2 "{" 1 16 false; mkTok 44 "// trailing space " 1 18 true; mkTok 42 "roots" 2 0 false; mkTok 42 "uint8x" 3 0 false; mkTok 40 "," 3 7 false; mkTok 32 "@leftPad" 3 9 false; mkTok 8 "(" 4 4 false; mkTok 6 ")" 4 6 false; mkTok 14 "zchar[" 4 7 false; mkTok 30 "3" 5 0 false; mkTok 13 "]" 6 0 false; mkTok 42 "Header" 6 2 false; mkTok 40 "," 6 8 false; mkTok 42 "i64_" 7 4 false; mkTok 42 "roots" 7 9 false; mkTok 40 "," 7 15 false; mkTok 7 "@lengthOf(" 7 17 false; mkTok 42 "A" 7 28 false; mkTok 6 ")" 7 29 false; mkTok 44 (string_of_bytes [47; 47; 32; 240; 159; 152; 128; 32; 101; 109; 111; 106; 105]%N) 8 4 true; mkTok 7 "@lengthOf(" 9 4 false; mkTok 44 "// trailing space " 9 15 true; mkTok 42 "pack" 10 0 false; mkTok 6 ")" 11 0 false; mkTok 7 "@lengthOf(" 11 2 false; mkTok 42 "calculatedFrom" 11 13 false; mkTok 44 "// a // b" 12 0 true; mkTok 44 "/// triple" 13 0 true; mkTok 6 ")" 14 0 false; mkTok 44 "// trailing space " 15 4 true; mkTok 20 "u8" 16 4 false; mkTok 42 "charz" 16 7 false; mkTok 43 (string_of_bytes [96; 99; 114; 108; 102; 13; 10; 108; 105; 110; 101; 96]%N) 16 13 false; mkTok 40 "," 17 6 false; mkTok 3 "}" 17 8 false; mkTok 0 "<EOF>" 17 9 false] (mkPacket (mkPtok 35 "packet" 1 0 0) (Some (mkPtok 3 "}" 17 8 36)) [(DPacket (mkPacketDef (mkSpan (mkPtok 35 "packet" 1 0 0) (mkPtok 3 "}" 17 8 36)) None (mkPtok 35 "packet" 1 0 0) (mkPtok 42 "metadata" 1 7 1) (mkPtok 2 "{" 1 16 2) [(mkFieldWithAttr (mkSpan (mkPtok 42 "roots" 2 0 4) (mkPtok 40 "," 3 7 6)) [] (ObjectField (mkSpan (mkPtok 42 "roots" 2 0 4) (mkPtok 40 "," 3 7 6)) None (mkPtok 42 "roots" 2 0 4) (Some (mkPtok 42 "uint8x" 3 0 5)) None (mkPtok 40 "," 3 7 6))); (mkFieldWithAttr (mkSpan (mkPtok 32 "@leftPad" 3 9 7) (mkPtok 40 "," 6 8 14)) [(FAPadding (mkSpan (mkPtok 32 "@leftPad" 3 9 7) (mkPtok 6 ")" 4 6 9)) (mkPaddingAttr (mkSpan (mkPtok 32 "@leftPad" 3 9 7) (mkPtok 6 ")" 4 6 9)) (mkPtok 32 "@leftPad" 3 9 7) (mkPtok 8 "(" 4 4 8) None (mkPtok 6 ")" 4 6 9)))] (MetaField (mkSpan (mkPtok 14 "zchar[" 4 7 10) (mkPtok 40 "," 6 8 14)) None (mkMetaDecl (mkSpan (mkPtok 14 "zchar[" 4 7 10) (mkPtok 40 "," 6 8 14)) (TyFixed (mkSpan (mkPtok 14 "zchar[" 4 7 10) (mkPtok 13 "]" 6 0 12)) (mkFixedString (mkSpan (mkPtok 14 "zchar[" 4 7 10) (mkPtok 13 "]" 6 0 12)) (mkPtok 14 "zchar[" 4 7 10) (mkPtok 30 "3" 5 0 11) (mkPtok 13 "]" 6 0 12))) (mkPtok 42 "Header" 6 2 13) None (mkPtok 40 "," 6 8 14)))); (mkFieldWithAttr (mkSpan (mkPtok 42 "i64_" 7 4 15) (mkPtok 40 "," 7 15 17)) [] (ObjectField (mkSpan (mkPtok 42 "i64_" 7 4 15) (mkPtok 40 "," 7 15 17)) None (mkPtok 42 "i64_" 7 4 15) (Some (mkPtok 42 "roots" 7 9 16)) None (mkPtok 40 "," 7 15 17))); (mkFieldWithAttr (mkSpan (mkPtok 7 "@lengthOf(" 7 17 18) (mkPtok 40 "," 17 6 35)) [(FALengthOf (mkSpan (mkPtok 7 "@lengthOf(" 7 17 18) (mkPtok 6 ")" 7 29 20)) (mkLengthOf (mkSpan (mkPtok 7 "@lengthOf(" 7 17 18) (mkPtok 6 ")" 7 29 20)) (mkPtok 7 "@lengthOf(" 7 17 18) (mkPtok 42 "A" 7 28 19) (mkPtok 6 ")" 7 29 20))); (FALengthOf (mkSpan (mkPtok 7 "@lengthOf(" 9 4 22) (mkPtok 6 ")" 11 0 25)) (mkLengthOf (mkSpan (mkPtok 7 "@lengthOf(" 9 4 22) (mkPtok 6 ")" 11 0 25)) (mkPtok 7 "@lengthOf(" 9 4 22) (mkPtok 42 "pack" 10 0 24) (mkPtok 6 ")" 11 0 25))); (FALengthOf (mkSpan (mkPtok 7 "@lengthOf(" 11 2 26) (mkPtok 6 ")" 14 0 30)) (mkLengthOf (mkSpan (mkPtok 7 "@lengthOf(" 11 2 26) (mkPtok 6 ")" 14 0 30)) (mkPtok 7 "@lengthOf(" 11 2 26) (mkPtok 42 "calculatedFrom" 11 13 27) (mkPtok 6 ")" 14 0 30)))] (MetaField (mkSpan (mkPtok 20 "u8" 16 4 32) (mkPtok 40 "," 17 6 35)) None (mkMetaDecl (mkSpan (mkPtok 20 "u8" 16 4 32) (mkPtok 40 "," 17 6 35)) (TyBasic (mkSpan (mkPtok 20 "u8" 16 4 32) (mkPtok 20 "u8" 16 4 32)) (mkBasicType (mkSpan (mkPtok 20 "u8" 16 4 32) (mkPtok 20 "u8" 16 4 32)) (mkPtok 20 "u8" 16 4 32))) (mkPtok 42 "charz" 16 7 33) (Some (mkPtok 43 (string_of_bytes [96; 99; 114; 108; 102; 13; 10; 108; 105; 110; 101; 96]%N) 16 13 34)) (mkPtok 40 "," 17 6 35))))] (mkPtok 3 "}" 17 8 36)))])).
Eval vm_compute in ("<<<M100>>>" ++ check (runes_of_ascii "
root packet
    Logon {
zchar[ 65535 ] uint8x ,@leftPad (
)repeat f32 Packet , @leftPad
( ' ' // c
) match i8i8 as body { 65535 : MetaDataX/// triple
, //x
007 : // c
Packet },
@calculatedFrom( ""packet"") uint8x , Foo @lengthOf( // `tick` ""quote"" 'q'
asx ) ,i64 int ,@leftPad ( ' ' ) repeat
rootA{ int32 zchar, match  stringy
    as MetaDataX
    {
[ """ ++ [28040; 24687]%N ++ runes_of_ascii """
,
10 ,42 , ""a\""b"" ,
// trailing space 
// trailing space 
42 ,
    7 ]
    : msg_type ,[42 ] :stringy ,""a\\""
:	Header
255 : calculatedFrom , [ 007
    ] : MetaDataX , ""a\""b"": stringy
    , } ,char[ 007 ]
    int @lengthOf( o ) `100% of %d`
,
    } ,char[ 00 ]leftPad @lengthOf(
zchar ) ,
char[]
zchar
    @calculatedFrom( ""1"" )
    ,
i64_
{ Packet
@lengthOf( Header )`two words`  ,// a // b
match int as As {
    ""\" ++ [233]%N ++ runes_of_ascii """
    : As
,
}  ,metadata`// not a comment`, repeat f64 float ,
    //	t
    }
, } options { //
u = ""packet"" BodyLength = ""packet"" ;
} root
packet u8x {  } // packet A { u8 x, }")).
Eval vm_compute in ("<<<M110>>>" ++ check (runes_of_ascii "packet
calculatedFrom { Header @lengthOf( T
    )
    `" ++ [233]%N ++ runes_of_ascii "`
,}
root
packet T
{
    @tag( 4294967296) // a // b
string
    string_
// packet A { u8 x, }
// `tick` ""quote"" 'q'
@calculatedFrom(
// trailing space 
/// triple
""""), zchar[
007 ]  i64_, // " ++ [27880; 37322]%N ++ runes_of_ascii "
@tag( 4294967296) msg_type	@calculatedFrom( ""1""	) ,
x
{
    // c
    Packet, }, repeat u8 T
// c
/// triple
`a\` ,f32a
// trailing space 
//	t
@lengthOf( float
    // packet A { u8 x, }
    ) , @calculatedFrom( """ ++ [233]%N ++ runes_of_ascii "t" ++ [233]%N ++ runes_of_ascii """ )match crc
as
repeatCount{ ""a	b"": pack, } , @calculatedFrom(
    ""it's""
)f64
uint8x @lengthOf(crc ) `two words` ,
char[] tag ,}
")).
Eval vm_compute in ("<<<M120>>>" ++ check (runes_of_ascii "packet crc{
    } packet pack {repeat _x Foo // `tick` ""quote"" 'q'
,@lengthOf( string_
    )
    @rightPad ( ) @calculatedFrom( ""\n"")
charz  { char[ 42 ]
a1 , //x
repeat T // `tick` ""quote"" 'q'
{ repeat zchar[ 3
    ] T , } , match  i64_  as	trueish { ""`tick`""
:
/// triple
// packet A { u8 x, }
trueish , [""" ++ [233]%N ++ runes_of_ascii "t" ++ [233]%N ++ runes_of_ascii """, 0123456789] : Foo
,
    """"
    :
    x_y_z [ ""\" ++ [233]%N ++ runes_of_ascii """ // trailing space 
, 3
, ""a	b"" , ""\" ++ [233]%N ++ runes_of_ascii """
    ,
""x y""
    , ""1"" , ""a	b""
, ""CRC32"" ] : asx [
    255 ] : leftPad  ,
42 :
    u8x
, }
    , } ,
    o ,}
")).
Eval vm_compute in ("<<<M130>>>" ++ check (runes_of_ascii "options
//x
/// triple
{ a1
=
    ' ';
stringy=
'\x00'string_
    = ' ' ; lengthOf
    = 7
;
}packet Pad {
    uint32 As`a\`  , }
//	t
/// triple
packet a1 /// triple
{ @calculatedFrom( ""`tick`"") i16 body `tab	here` ,	}	options { As
    = true // a // b
}")).
Eval vm_compute in ("<<<M140>>>" ++ check (runes_of_ascii "
")).
Eval vm_compute in ("<<<M150>>>" ++ check (runes_of_ascii "packet u8x{ float32
roots `u8 x,`
,  repeat float32 crc
    `" ++ [28040; 24687; 31867; 22411]%N ++ runes_of_ascii "`
    ,u32
pack
// 50% %s
// " ++ [27880; 37322]%N ++ runes_of_ascii "
@lengthOf(f32a ) `100% of %d`,// " ++ [128512]%N ++ runes_of_ascii " emoji
match u128
as _x
// trailing space 
// packet A { u8 x, }
{[ 65535 ]
:MetaDataX ,//x
}
, }packet x_y_z {	@rightPad
( '\x00' )i64
    /// triple
    roots, @calculatedFrom(
// " ++ [27880; 37322]%N ++ runes_of_ascii "
//
""packet"" ) match o as
    trueish	{	[ 1
    ,
0123456789
] :  u8x	,
    //	t
    } , }
")).
Eval vm_compute in ("<<<M160>>>" ++ check (runes_of_ascii "packet falsey { repeat u8 Logon ,
char[]
f32a
    , tag rootA,
    //
    @rightPad (' ' // `tick` ""quote"" 'q'
)@tag( 007 ) match o	as _x{ [ 1 ,""a	b"" , ""1""	, 00  ,7 ,
    // `tick` ""quote"" 'q'
    """ ++ [233]%N ++ runes_of_ascii "t" ++ [233]%N ++ runes_of_ascii """ ,7 , 00
    ]
    :
Foo
,
    ""\" ++ [233]%N ++ runes_of_ascii """ : matchKey ,
} ,
    @rightPad (
'\x00' )string msg_type , repeat u8x
    , repeat BodyLength  ,
}")).
Eval vm_compute in ("<<<T160>>>" ++ terms [mkTok 35 "packet" 1 0 false; mkTok 42 "falsey" 1 7 false; mkTok 2 "{" 1 14 false; mkTok 36 "repeat" 1 16 false; mkTok 20 "u8" 1 23 false; mkTok 42 "Logon" 1 26 false; mkTok 40 "," 1 32 false; mkTok 16 "char[]" 2 0 false; mkTok 42 "f32a" 3 0 false; mkTok 40 "," 4 4 false; mkTok 42 "tag" 4 6 false; mkTok 42 "rootA" 4 10 false; mkTok 40 "," 4 15 false; mkTok 44 "//" 5 4 true; mkTok 32 "@rightPad" 6 4 false; mkTok 8 "(" 6 14 false; mkTok 33 "' '" 6 15 false; mkTok 44 "// `tick` ""quote"" 'q'" 6 19 true; mkTok 6 ")" 7 0 false; mkTok 9 "@tag(" 7 1 false; mkTok 30 "007" 7 7 false; mkTok 6 ")" 7 11 false; mkTok 38 "match" 7 13 false; mkTok 42 "o" 7 19 false; mkTok 17 "as" 7 21 false; mkTok 42 "_x" 7 24 false; mkTok 2 "{" 7 26 false; mkTok 18 "[" 7 28 false; mkTok 30 "1" 7 30 false; mkTok 40 "," 7 32 false; mkTok 31 (string_of_bytes [34; 97; 9; 98; 34]%N) 7 33 false; mkTok 40 "," 7 39 false; mkTok 31 """1""" 7 41 false; mkTok 40 "," 7 45 false; mkTok 30 "00" 7 47 false; mkTok 40 "," 7 51 false; mkTok 30 "7" 7 52 false; mkTok 40 "," 7 54 false; mkTok 44 "// `tick` ""quote"" 'q'" 8 4 true; mkTok 31 (string_of_bytes [34; 195; 169; 116; 195; 169; 34]%N) 9 4 false; mkTok 40 "," 9 10 false; mkTok 30 "7" 9 11 false; mkTok 40 "," 9 13 false; mkTok 30 "00" 9 15 false; mkTok 13 "]" 10 4 false; mkTok 39 ":" 11 4 false; mkTok 42 "Foo" 12 0 false; mkTok 40 "," 13 0 false; mkTok 31 (string_of_bytes [34; 92; 195; 169; 34]%N) 14 4 false; mkTok 39 ":" 14 9 false; mkTok 42 "matchKey" 14 11 false; mkTok 40 "," 14 20 false; mkTok 3 "}" 15 0 false; mkTok 40 "," 15 2 false; mkTok 32 "@rightPad" 16 4 false; mkTok 8 "(" 16 14 false; mkTok 33 "'\x00'" 17 0 false; mkTok 6 ")" 17 7 false; mkTok 15 "string" 17 8 false; mkTok 42 "msg_type" 17 15 false; mkTok 40 "," 17 24 false; mkTok 36 "repeat" 17 26 false; mkTok 42 "u8x" 17 33 false; mkTok 40 "," 18 4 false; mkTok 36 "repeat" 18 6 false; mkTok 42 "BodyLength" 18 13 false; mkTok 40 "," 18 25 false; mkTok 3 "}" 19 0 false; mkTok 0 "<EOF>" 19 1 false] (mkPacket (mkPtok 35 "packet" 1 0 0) (Some (mkPtok 3 "}" 19 0 67)) [(DPacket (mkPacketDef (mkSpan (mkPtok 35 "packet" 1 0 0) (mkPtok 3 "}" 19 0 67)) None (mkPtok 35 "packet" 1 0 0) (mkPtok 42 "falsey" 1 7 1) (mkPtok 2 "{" 1 14 2) [(mkFieldWithAttr (mkSpan (mkPtok 36 "repeat" 1 16 3) (mkPtok 40 "," 1 32 6)) [] (MetaField (mkSpan (mkPtok 36 "repeat" 1 16 3) (mkPtok 40 "," 1 32 6)) (Some (mkPtok 36 "repeat" 1 16 3)) (mkMetaDecl (mkSpan (mkPtok 20 "u8" 1 23 4) (mkPtok 40 "," 1 32 6)) (TyBasic (mkSpan (mkPtok 20 "u8" 1 23 4) (mkPtok 20 "u8" 1 23 4)) (mkBasicType (mkSpan (mkPtok 20 "u8" 1 23 4) (mkPtok 20 "u8" 1 23 4)) (mkPtok 20 "u8" 1 23 4))) (mkPtok 42 "Logon" 1 26 5) None (mkPtok 40 "," 1 32 6)))); (mkFieldWithAttr (mkSpan (mkPtok 16 "char[]" 2 0 7) (mkPtok 40 "," 4 4 9)) [] (MetaField (mkSpan (mkPtok 16 "char[]" 2 0 7) (mkPtok 40 "," 4 4 9)) None (mkMetaDecl (mkSpan (mkPtok 16 "char[]" 2 0 7) (mkPtok 40 "," 4 4 9)) (TyDynamic (mkSpan (mkPtok 16 "char[]" 2 0 7) (mkPtok 16 "char[]" 2 0 7)) (mkDynamicString (mkSpan (mkPtok 16 "char[]" 2 0 7) (mkPtok 16 "char[]" 2 0 7)) (mkPtok 16 "char[]" 2 0 7))) (mkPtok 42 "f32a" 3 0 8) None (mkPtok 40 "," 4 4 9)))); (mkFieldWithAttr (mkSpan (mkPtok 42 "tag" 4 6 10) (mkPtok 40 "," 4 15 12)) [] (ObjectField (mkSpan (mkPtok 42 "tag" 4 6 10) (mkPtok 40 "," 4 15 12)) None (mkPtok 42 "tag" 4 6 10) (Some (mkPtok 42 "rootA" 4 10 11)) None (mkPtok 40 "," 4 15 12))); (mkFieldWithAttr (mkSpan (mkPtok 32 "@rightPad" 6 4 14) (mkPtok 40 "," 15 2 53)) [(FAPadding (mkSpan (mkPtok 32 "@rightPad" 6 4 14) (mkPtok 6 ")" 7 0 18)) (mkPaddingAttr (mkSpan (mkPtok 32 "@rightPad" 6 4 14) (mkPtok 6 ")" 7 0 18)) (mkPtok 32 "@rightPad" 6 4 14) (mkPtok 8 "(" 6 14 15) (Some (mkPtok 33 "' '" 6 15 16)) (mkPtok 6 ")" 7 0 18))); (FATag (mkSpan (mkPtok 9 "@tag(" 7 1 19) (mkPtok 6 ")" 7 11 21)) (mkTagAttr (mkSpan (mkPtok 9 "@tag(" 7 1 19) (mkPtok 6 ")" 7 11 21)) (mkPtok 9 "@tag(" 7 1 19) (mkPtok 30 "007" 7 7 20) (mkPtok 6 ")" 7 11 21)))] (MatchField (mkSpan (mkPtok 38 "match" 7 13 22) (mkPtok 40 "," 15 2 53)) (mkMatchFieldDecl (mkSpan (mkPtok 38 "match" 7 13 22) (mkPtok 3 "}" 15 0 52)) (mkPtok 38 "match" 7 13 22) (mkPtok 42 "o" 7 19 23) (mkPtok 17 "as" 7 21 24) (mkPtok 42 "_x" 7 24 25) (mkPtok 2 "{" 7 26 26) [(mkMatchPair (mkSpan (mkPtok 18 "[" 7 28 27) (mkPtok 40 "," 13 0 47)) (MKList (mkKeyList (mkSpan (mkPtok 18 "[" 7 28 27) (mkPtok 13 "]" 10 4 44)) (mkPtok 18 "[" 7 28 27) (mkPtok 30 "1" 7 30 28) [((mkPtok 40 "," 7 32 29), (mkPtok 31 (string_of_bytes [34; 97; 9; 98; 34]%N) 7 33 30)); ((mkPtok 40 "," 7 39 31), (mkPtok 31 """1""" 7 41 32)); ((mkPtok 40 "," 7 45 33), (mkPtok 30 "00" 7 47 34)); ((mkPtok 40 "," 7 51 35), (mkPtok 30 "7" 7 52 36)); ((mkPtok 40 "," 7 54 37), (mkPtok 31 (string_of_bytes [34; 195; 169; 116; 195; 169; 34]%N) 9 4 39)); ((mkPtok 40 "," 9 10 40), (mkPtok 30 "7" 9 11 41)); ((mkPtok 40 "," 9 13 42), (mkPtok 30 "00" 9 15 43))] (mkPtok 13 "]" 10 4 44))) (mkPtok 39 ":" 11 4 45) (mkPtok 42 "Foo" 12 0 46) (Some (mkPtok 40 "," 13 0 47))); (mkMatchPair (mkSpan (mkPtok 31 (string_of_bytes [34; 92; 195; 169; 34]%N) 14 4 48) (mkPtok 40 "," 14 20 51)) (MKString (mkPtok 31 (string_of_bytes [34; 92; 195; 169; 34]%N) 14 4 48)) (mkPtok 39 ":" 14 9 49) (mkPtok 42 "matchKey" 14 11 50) (Some (mkPtok 40 "," 14 20 51)))] (mkPtok 3 "}" 15 0 52)) (mkPtok 40 "," 15 2 53))); (mkFieldWithAttr (mkSpan (mkPtok 32 "@rightPad" 16 4 54) (mkPtok 40 "," 17 24 60)) [(FAPadding (mkSpan (mkPtok 32 "@rightPad" 16 4 54) (mkPtok 6 ")" 17 7 57)) (mkPaddingAttr (mkSpan (mkPtok 32 "@rightPad" 16 4 54) (mkPtok 6 ")" 17 7 57)) (mkPtok 32 "@rightPad" 16 4 54) (mkPtok 8 "(" 16 14 55) (Some (mkPtok 33 "'\x00'" 17 0 56)) (mkPtok 6 ")" 17 7 57)))] (MetaField (mkSpan (mkPtok 15 "string" 17 8 58) (mkPtok 40 "," 17 24 60)) None (mkMetaDecl (mkSpan (mkPtok 15 "string" 17 8 58) (mkPtok 40 "," 17 24 60)) (TyDynamic (mkSpan (mkPtok 15 "string" 17 8 58) (mkPtok 15 "string" 17 8 58)) (mkDynamicString (mkSpan (mkPtok 15 "string" 17 8 58) (mkPtok 15 "string" 17 8 58)) (mkPtok 15 "string" 17 8 58))) (mkPtok 42 "msg_type" 17 15 59) None (mkPtok 40 "," 17 24 60)))); (mkFieldWithAttr (mkSpan (mkPtok 36 "repeat" 17 26 61) (mkPtok 40 "," 18 4 63)) [] (ObjectField (mkSpan (mkPtok 36 "repeat" 17 26 61) (mkPtok 40 "," 18 4 63)) (Some (mkPtok 36 "repeat" 17 26 61)) (mkPtok 42 "u8x" 17 33 62) None None (mkPtok 40 "," 18 4 63))); (mkFieldWithAttr (mkSpan (mkPtok 36 "repeat" 18 6 64) (mkPtok 40 "," 18 25 66)) [] (ObjectField (mkSpan (mkPtok 36 "repeat" 18 6 64) (mkPtok 40 "," 18 25 66)) (Some (mkPtok 36 "repeat" 18 6 64)) (mkPtok 42 "BodyLength" 18 13 65) None None (mkPtok 40 "," 18 25 66)))] (mkPtok 3 "}" 19 0 67)))])).
Eval vm_compute in ("<<<M170>>>" ++ check (runes_of_ascii "packet int
{
    // " ++ [128512]%N ++ runes_of_ascii " emoji
    } options{
Z9_ = ' ';
    repeatCount = 0
    Header = zchar[ 007
    ] i64_
/// triple
// " ++ [128512]%N ++ runes_of_ascii " emoji
= """ ++ [128512]%N ++ runes_of_ascii """ ;  }root packet leftPad{
roots, }root packet Foo { repeat//x
MetaDataX u8x
    `crlf
line`
, @lengthOf(
    Header ) zchar[ 65535 ] metadata `u8 x,` , @tag( 65535 ) stringy{ options1 @lengthOf( asx ) , } , char[0
]
    Packet `two words`
,@lengthOf( u8x) int @lengthOf(
Logon ) , } 	 ")).
Eval vm_compute in ("<<<M180>>>" ++ check (runes_of_ascii "
root packet i8i8
{}
")).
Eval vm_compute in ("<<<M190>>>" ++ check (runes_of_ascii "
MetaData
    //x
    float {u8 uint8x ,
// @lengthOf(
// packet A { u8 x, }
} options {}	root packet T /// triple
{ u , }
    packet
x_y_z // c
{@lengthOf( T
) asx lengthOf `
`, repeat
    f64
// c
// a // b
metadata
    ,char[
    4294967296
    ] u8x ,	repeat
    uint8 zchar, // a // b
@tag(
    0123456789)  repeat i64
_x,u16
u
    // `tick` ""quote"" 'q'
    ,match roots as
Header { 007 : zchar
    // packet A { u8 x, }
    ""it's""
: rootA , [""it's""
    ,""\n"", ""x y"" , 00 ,
    42  ,
""it's""
    ]
    : len , 0 :Z9_	, //x
},match Logon as falsey {4294967296 : T
    ""CRC32"" : u8x , [
""" ++ [28040; 24687]%N ++ runes_of_ascii """
    , ""1"" , ""it's"" , ""a\\"" , 3
    ,
4294967296 , """ ++ [128512]%N ++ runes_of_ascii """
// " ++ [27880; 37322]%N ++ runes_of_ascii "
// @lengthOf(
, ""CRC32"" ]
: _x ,
[
""// no comment"" ,// trailing space 
0123456789 ,
    10 , 65535 , """ ++ [128512]%N ++ runes_of_ascii """] : T , 42:
    lengthOf ,0 :x_y_z
    , } ,
    match crc as u8x {[
42]:repeatCount 0 : calculatedFrom , } , }

")).
Eval vm_compute in ("<<<M200>>>" ++ check (runes_of_ascii "options{
lengthOf =
// packet A { u8 x, }
// c
""a	b"";} root packet //	t
body
{ f32a Foo , //x
}")).
Eval vm_compute in ("<<<M210>>>" ++ check (runes_of_ascii "MetaData packetx{
char[] x
// `tick` ""quote"" 'q'
//
, body Z9_ //	t
, }
// trailing space 
")).
Eval vm_compute in ("<<<M220>>>" ++ check (runes_of_ascii "packet
    // " ++ [27880; 37322]%N ++ runes_of_ascii "
    string_
    // " ++ [128512]%N ++ runes_of_ascii " emoji
    { f32 string_
    @calculatedFrom(
""" ++ [128512]%N ++ runes_of_ascii """),} packet int { }
root packet
    // trailing space 
    Header	{repeat
lengthOf {
    repeat int
{body Foo ,	}
    // trailing space 
    ,
match i8i8	as
Pad { [ 10 ]
    : options1
, ""abc"" :u8x
, """ ++ [128512]%N ++ runes_of_ascii """ // 50% %s
: f32a// 50% %s
00  :  metadata , },
// a // b
// " ++ [128512]%N ++ runes_of_ascii " emoji
lengthOf BodyLength ,
},
    }
")).
Eval vm_compute in ("<<<M230>>>" ++ check (runes_of_ascii "options {
    // a // b
    a1// c
=
255
;
i8i8 =""" ++ [128512]%N ++ runes_of_ascii """}
")).
Eval vm_compute in ("<<<T230>>>" ++ terms [mkTok 1 "options" 1 0 false; mkTok 2 "{" 1 8 false; mkTok 44 "// a // b" 2 4 true; mkTok 42 "a1" 3 4 false; mkTok 44 "// c" 3 6 true; mkTok 4 "=" 4 0 false; mkTok 30 "255" 5 0 false; mkTok 41 ";" 6 0 false; mkTok 42 "i8i8" 7 0 false; mkTok 4 "=" 7 5 false; mkTok 31 (string_of_bytes [34; 240; 159; 152; 128; 34]%N) 7 6 false; mkTok 3 "}" 7 9 false; mkTok 0 "<EOF>" 8 0 false] (mkPacket (mkPtok 1 "options" 1 0 0) (Some (mkPtok 3 "}" 7 9 11)) [(DOption (mkOptionDef (mkSpan (mkPtok 1 "options" 1 0 0) (mkPtok 3 "}" 7 9 11)) (mkPtok 1 "options" 1 0 0) (mkPtok 2 "{" 1 8 1) [(mkOptionDecl (mkSpan (mkPtok 42 "a1" 3 4 3) (mkPtok 41 ";" 6 0 7)) (mkPtok 42 "a1" 3 4 3) (mkPtok 4 "=" 4 0 5) (VDigits (mkSpan (mkPtok 30 "255" 5 0 6) (mkPtok 30 "255" 5 0 6)) (mkPtok 30 "255" 5 0 6)) (Some (mkPtok 41 ";" 6 0 7))); (mkOptionDecl (mkSpan (mkPtok 42 "i8i8" 7 0 8) (mkPtok 31 (string_of_bytes [34; 240; 159; 152; 128; 34]%N) 7 6 10)) (mkPtok 42 "i8i8" 7 0 8) (mkPtok 4 "=" 7 5 9) (VString (mkSpan (mkPtok 31 (string_of_bytes [34; 240; 159; 152; 128; 34]%N) 7 6 10) (mkPtok 31 (string_of_bytes [34; 240; 159; 152; 128; 34]%N) 7 6 10)) (mkPtok 31 (string_of_bytes [34; 240; 159; 152; 128; 34]%N) 7 6 10)) None)] (mkPtok 3 "}" 7 9 11)))])).
Eval vm_compute in ("<<<M240>>>" ++ check (runes_of_ascii "packet A { repeat crc uint8x // @lengthOf(
,
@calculatedFrom( ""it's""
) uint64 Logon `a\`,
    }")).
Eval vm_compute in ("<<<M250>>>" ++ check (runes_of_ascii "// " ++ [128512]%N ++ runes_of_ascii " emoji
packet float {
    zchar[
7 ]trueish ,
    // a // b
    }")).
Eval vm_compute in ("<<<M260>>>" ++ check (runes_of_ascii "
")).
Eval vm_compute in ("<<<M270>>>" ++ check (runes_of_ascii "
packet Header {
As `" ++ [233]%N ++ runes_of_ascii "` , }
")).
Eval vm_compute in ("<<<M280>>>" ++ check (runes_of_ascii "// trailing space 
root packet
    matchKey {u128 // c
, uint8 x
@calculatedFrom( """ ++ [233]%N ++ runes_of_ascii "t" ++ [233]%N ++ runes_of_ascii """ // " ++ [27880; 37322]%N ++ runes_of_ascii "
)
,
i64
    f32a @calculatedFrom(
    """ ++ [28040; 24687]%N ++ runes_of_ascii """
)
`crlf
line`  ,}
    MetaData
    zchar // packet A { u8 x, }
{ // a // b
char[4294967296 ]
// " ++ [27880; 37322]%N ++ runes_of_ascii "
/// triple
string_ , x
i8i8
    , char[ 7 ]// " ++ [27880; 37322]%N ++ runes_of_ascii "
Z9_
    `tab	here`, }
    // trailing space 
    root packet
o{@leftPad
    ('\x00'
)
//x
// 50% %s
@tag( 10 ) @tag(
    10) string // " ++ [128512]%N ++ runes_of_ascii " emoji
u`doc` ,
    @leftPad( )char[65535
// trailing space 
// packet A { u8 x, }
]
    //	t
    body ,
/// triple
// 50% %s
repeat pack  {rootA ``,//	t
repeat body // packet A { u8 x, }
, string Packet// trailing space 
, }
    , @lengthOf( stringy )
    // trailing space 
    repeat _x { BodyLength// trailing space 
{
    repeatCount
// c
/// triple
{zchar[65535 ] As
,
// @lengthOf(
// c
options1  ,
float32
    len, zchar[7
// packet A { u8 x, }
// c
]
rootA
`u8 x,` // `tick` ""quote"" 'q'
,
}, i64  falsey @lengthOf(uint8x ) ,
char[
    00 ]
crc
,
}  , } , tag
@calculatedFrom(
""// no comment""
)	`100% of %d`, }
packet
Pad { f32
    Logon`
`, body
    @lengthOf(
u8x)
    `" ++ [28040; 24687; 31867; 22411]%N ++ runes_of_ascii "` , @lengthOf( Z9_// " ++ [128512]%N ++ runes_of_ascii " emoji
) packetx @calculatedFrom( """ ++ [28040; 24687]%N ++ runes_of_ascii """
)  ,x
{ zchar[
    3 ]
    body
,Header
@calculatedFrom(""a	b""), char[]	u128 `it's` // @lengthOf(
, i8 metadata ,}
    , match i64_ as string_ { [ 3 ,
255 // c
,
    007
    , ""packet""
    ,65535
// @lengthOf(
// 50% %s
,""// no comment"",
""a	b"" ,// packet A { u8 x, }
007] // trailing space 
:options1 4294967296
    // " ++ [27880; 37322]%N ++ runes_of_ascii "
    : len,
""CRC32""	:pack
""" ++ [28040; 24687]%N ++ runes_of_ascii """
    : options1
    , [0 // `tick` ""quote"" 'q'
]
    // `tick` ""quote"" 'q'
    : Header ,[ 00 ]
    : As // trailing space 
, }
,@lengthOf(
    // c
    tag ) metadata @calculatedFrom(
""CRC32"" )
    ,//	t
@tag( // packet A { u8 x, }
3)repeat //x
string pack , Pad ,@rightPad ( )  tag { leftPad @calculatedFrom(  """ ++ [233]%N ++ runes_of_ascii "t" ++ [233]%N ++ runes_of_ascii """	),
string chars ,
    char[
4294967296 ]
i64_
`" ++ [233]%N ++ runes_of_ascii "` , repeat charz
zchar,  }
    ,} options { pack
=""abc"" ;pack = i8// packet A { u8 x, }
; }")).
Eval vm_compute in ("<<<M290>>>" ++ check (runes_of_ascii "packet Header {
repeat	i64 float ,} packet matchKey { @tag( 00) match u8x as pack
    // " ++ [128512]%N ++ runes_of_ascii " emoji
    { 1	:u ""a\\"": string_ , 0:
body
, }
    ,
@calculatedFrom( ""// no comment""	) @rightPad
(
'0' )@tag( 00 ) // a // b
int16
calculatedFrom
@lengthOf( //x
pack
),repeat char[] x_y_z , } options //	t
{ //	t
float = // " ++ [128512]%N ++ runes_of_ascii " emoji
char[] roots
// " ++ [27880; 37322]%N ++ runes_of_ascii "
// a // b
='0' ; u = char Packet =
    0123456789// @lengthOf(
; u8x // " ++ [27880; 37322]%N ++ runes_of_ascii "
= ""CRC32""
    ;}
    root packet
    x { i16 T
@lengthOf(
f32a)
`" ++ [28040; 24687; 31867; 22411]%N ++ runes_of_ascii "` , }
")).
Eval vm_compute in ("<<<M300>>>" ++ check (runes_of_ascii "options {
	StringPrefixLenType = u16;
	ArrayPrefixLenType = u16;
}

packet SampleBinary {
    uint16 MsgType `" ++ [28040; 24687; 31867; 22411]%N ++ runes_of_ascii "`,
    u16 BodyLenght @lengthOf(Body) `" ++ [28040; 24687; 20307; 38271; 24230]%N ++ runes_of_ascii "`,
    match MsgType as Body {
        1 : Logon,
        2 : Logout,
        3 : Heartbeat,
        4 : RiskControlRequest,
        5 : RiskControlResponse,
    },
        @calculatedFrom(""CRC32"")
    u32 Ckecksum `" ++ [26657; 39564; 21644]%N ++ runes_of_ascii "`,
}

packet Logon {
     @leftPad('0')
    char[10] UserName `" ++ [29992; 25143; 21517]%N ++ runes_of_ascii "`,
    string Password `" ++ [23494; 30721]%N ++ runes_of_ascii "`,
    uint64 ClientId `" ++ [23458; 25143; 31471]%N ++ runes_of_ascii "ID`,
    u16 HeartbeatInterval `" ++ [24515; 36339; 38388; 38548]%N ++ runes_of_ascii "`,
}

packet Logout {
      @rightPad('0')
    char[10] UserName `" ++ [29992; 25143; 21517]%N ++ runes_of_ascii "`,
    uint64 ClientId `" ++ [23458; 25143; 31471]%N ++ runes_of_ascii "ID`,
}

packet Heartbeat {
}

packet RiskControlRequest {
    string UniqueOrderId `" ++ [21807; 19968; 35746; 21333; 21495]%N ++ runes_of_ascii "`,
    char[16] ClOrdID `" ++ [23458; 25143; 35746; 21333; 21495]%N ++ runes_of_ascii "`,
    char[3] MarketID `" ++ [24066; 22330]%N ++ runes_of_ascii "id`,
    char[12] SecurityID `" ++ [35777; 21048; 20195; 30721]%N ++ runes_of_ascii "`,
    char Side `" ++ [20080; 21334; 26041; 21521]%N ++ runes_of_ascii "`,
    char OrderType `" ++ [35746; 21333; 31867; 22411]%N ++ runes_of_ascii "`,
    u64 Price `" ++ [20215; 26684]%N ++ runes_of_ascii "`,
    u32 Qty `" ++ [25968; 37327]%N ++ runes_of_ascii "`,
    repeat string ExtraInfo `" ++ [38468; 21152; 20449; 24687]%N ++ runes_of_ascii "`,
    repeat SubOrder {
    		char[16] ClOrdID `" ++ [23376; 35746; 21333; 21495]%N ++ runes_of_ascii "`,
    		u64 Price `" ++ [23376; 35746; 21333; 20215; 26684]%N ++ runes_of_ascii "`,
    		u32 Qty `" ++ [23376; 35746; 21333; 25968; 37327]%N ++ runes_of_ascii "`,
    	},
}

packet RiskControlResponse {
    string UniqueOrderId `" ++ [21807; 19968; 35746; 21333; 21495]%N ++ runes_of_ascii "`,
    i32 Status `" ++ [29366; 24577]%N ++ runes_of_ascii "`,
    string Msg `" ++ [32467; 26524; 20449; 24687]%N ++ runes_of_ascii "`,
    repeat Detail,
}

packet Detail {
    string RuleName `" ++ [35268; 21017; 21517; 31216]%N ++ runes_of_ascii "`,
    u16 Code `" ++ [21407; 22240; 20195; 30721]%N ++ runes_of_ascii "`,
}")).
Eval vm_compute in ("<<<T300>>>" ++ terms [mkTok 1 "options" 1 0 false; mkTok 2 "{" 1 8 false; mkTok 42 "StringPrefixLenType" 2 1 false; mkTok 4 "=" 2 21 false; mkTok 21 "u16" 2 23 false; mkTok 41 ";" 2 26 false; mkTok 42 "ArrayPrefixLenType" 3 1 false; mkTok 4 "=" 3 20 false; mkTok 21 "u16" 3 22 false; mkTok 41 ";" 3 25 false; mkTok 3 "}" 4 0 false; mkTok 35 "packet" 6 0 false; mkTok 42 "SampleBinary" 6 7 false; mkTok 2 "{" 6 20 false; mkTok 21 "uint16" 7 4 false; mkTok 42 "MsgType" 7 11 false; mkTok 43 (string_of_bytes [96; 230; 182; 136; 230; 129; 175; 231; 177; 187; 229; 158; 139; 96]%N) 7 19 false; mkTok 40 "," 7 25 false; mkTok 21 "u16" 8 4 false; mkTok 42 "BodyLenght" 8 8 false; mkTok 7 "@lengthOf(" 8 19 false; mkTok 42 "Body" 8 29 false; mkTok 6 ")" 8 33 false; mkTok 43 (string_of_bytes [96; 230; 182; 136; 230; 129; 175; 228; 189; 147; 233; 149; 191; 229; 186; 166; 96]%N) 8 35 false; mkTok 40 "," 8 42 false; mkTok 38 "match" 9 4 false; mkTok 42 "MsgType" 9 10 false; mkTok 17 "as" 9 18 false; mkTok 42 "Body" 9 21 false; mkTok 2 "{" 9 26 false; mkTok 30 "1" 10 8 false; mkTok 39 ":" 10 10 false; mkTok 42 "Logon" 10 12 false; mkTok 40 "," 10 17 false; mkTok 30 "2" 11 8 false; mkTok 39 ":" 11 10 false; mkTok 42 "Logout" 11 12 false; mkTok 40 "," 11 18 false; mkTok 30 "3" 12 8 false; mkTok 39 ":" 12 10 false; mkTok 42 "Heartbeat" 12 12 false; mkTok 40 "," 12 21 false; mkTok 30 "4" 13 8 false; mkTok 39 ":" 13 10 false; mkTok 42 "RiskControlRequest" 13 12 false; mkTok 40 "," 13 30 false; mkTok 30 "5" 14 8 false; mkTok 39 ":" 14 10 false; mkTok 42 "RiskControlResponse" 14 12 false; mkTok 40 "," 14 31 false; mkTok 3 "}" 15 4 false; mkTok 40 "," 15 5 false; mkTok 5 "@calculatedFrom(" 16 8 false; mkTok 31 """CRC32""" 16 24 false; mkTok 6 ")" 16 31 false; mkTok 22 "u32" 17 4 false; mkTok 42 "Ckecksum" 17 8 false; mkTok 43 (string_of_bytes [96; 230; 160; 161; 233; 170; 140; 229; 146; 140; 96]%N) 17 17 false; mkTok 40 "," 17 22 false; mkTok 3 "}" 18 0 false; mkTok 35 "packet" 20 0 false; mkTok 42 "Logon" 20 7 false; mkTok 2 "{" 20 13 false; mkTok 32 "@leftPad" 21 5 false; mkTok 8 "(" 21 13 false; mkTok 33 "'0'" 21 14 false; mkTok 6 ")" 21 17 false; mkTok 12 "char[" 22 4 false; mkTok 30 "10" 22 9 false; mkTok 13 "]" 22 11 false; mkTok 42 "UserName" 22 13 false; mkTok 43 (string_of_bytes [96; 231; 148; 168; 230; 136; 183; 229; 144; 141; 96]%N) 22 22 false; mkTok 40 "," 22 27 false; mkTok 15 "string" 23 4 false; mkTok 42 "Password" 23 11 false; mkTok 43 (string_of_bytes [96; 229; 175; 134; 231; 160; 129; 96]%N) 23 20 false; mkTok 40 "," 23 24 false; mkTok 23 "uint64" 24 4 false; mkTok 42 "ClientId" 24 11 false; mkTok 43 (string_of_bytes [96; 229; 174; 162; 230; 136; 183; 231; 171; 175; 73; 68; 96]%N) 24 20 false; mkTok 40 "," 24 27 false; mkTok 21 "u16" 25 4 false; mkTok 42 "HeartbeatInterval" 25 8 false; mkTok 43 (string_of_bytes [96; 229; 191; 131; 232; 183; 179; 233; 151; 180; 233; 154; 148; 96]%N) 25 26 false; mkTok 40 "," 25 32 false; mkTok 3 "}" 26 0 false; mkTok 35 "packet" 28 0 false; mkTok 42 "Logout" 28 7 false; mkTok 2 "{" 28 14 false; mkTok 32 "@rightPad" 29 6 false; mkTok 8 "(" 29 15 false; mkTok 33 "'0'" 29 16 false; mkTok 6 ")" 29 19 false; mkTok 12 "char[" 30 4 false; mkTok 30 "10" 30 9 false; mkTok 13 "]" 30 11 false; mkTok 42 "UserName" 30 13 false; mkTok 43 (string_of_bytes [96; 231; 148; 168; 230; 136; 183; 229; 144; 141; 96]%N) 30 22 false; mkTok 40 "," 30 27 false; mkTok 23 "uint64" 31 4 false; mkTok 42 "ClientId" 31 11 false; mkTok 43 (string_of_bytes [96; 229; 174; 162; 230; 136; 183; 231; 171; 175; 73; 68; 96]%N) 31 20 false; mkTok 40 "," 31 27 false; mkTok 3 "}" 32 0 false; mkTok 35 "packet" 34 0 false; mkTok 42 "Heartbeat" 34 7 false; mkTok 2 "{" 34 17 false; mkTok 3 "}" 35 0 false; mkTok 35 "packet" 37 0 false; mkTok 42 "RiskControlRequest" 37 7 false; mkTok 2 "{" 37 26 false; mkTok 15 "string" 38 4 false; mkTok 42 "UniqueOrderId" 38 11 false; mkTok 43 (string_of_bytes [96; 229; 148; 175; 228; 184; 128; 232; 174; 162; 229; 141; 149; 229; 143; 183; 96]%N) 38 25 false; mkTok 40 "," 38 32 false; mkTok 12 "char[" 39 4 false; mkTok 30 "16" 39 9 false; mkTok 13 "]" 39 11 false; mkTok 42 "ClOrdID" 39 13 false; mkTok 43 (string_of_bytes [96; 229; 174; 162; 230; 136; 183; 232; 174; 162; 229; 141; 149; 229; 143; 183; 96]%N) 39 21 false; mkTok 40 "," 39 28 false; mkTok 12 "char[" 40 4 false; mkTok 30 "3" 40 9 false; mkTok 13 "]" 40 10 false; mkTok 42 "MarketID" 40 12 false; mkTok 43 (string_of_bytes [96; 229; 184; 130; 229; 156; 186; 105; 100; 96]%N) 40 21 false; mkTok 40 "," 40 27 false; mkTok 12 "char[" 41 4 false; mkTok 30 "12" 41 9 false; mkTok 13 "]" 41 11 false; mkTok 42 "SecurityID" 41 13 false; mkTok 43 (string_of_bytes [96; 232; 175; 129; 229; 136; 184; 228; 187; 163; 231; 160; 129; 96]%N) 41 24 false; mkTok 40 "," 41 30 false; mkTok 19 "char" 42 4 false; mkTok 42 "Side" 42 9 false; mkTok 43 (string_of_bytes [96; 228; 185; 176; 229; 141; 150; 230; 150; 185; 229; 144; 145; 96]%N) 42 14 false; mkTok 40 "," 42 20 false; mkTok 19 "char" 43 4 false; mkTok 42 "OrderType" 43 9 false; mkTok 43 (string_of_bytes [96; 232; 174; 162; 229; 141; 149; 231; 177; 187; 229; 158; 139; 96]%N) 43 19 false; mkTok 40 "," 43 25 false; mkTok 23 "u64" 44 4 false; mkTok 42 "Price" 44 8 false; mkTok 43 (string_of_bytes [96; 228; 187; 183; 230; 160; 188; 96]%N) 44 14 false; mkTok 40 "," 44 18 false; mkTok 22 "u32" 45 4 false; mkTok 42 "Qty" 45 8 false; mkTok 43 (string_of_bytes [96; 230; 149; 176; 233; 135; 143; 96]%N) 45 12 false; mkTok 40 "," 45 16 false; mkTok 36 "repeat" 46 4 false; mkTok 15 "string" 46 11 false; mkTok 42 "ExtraInfo" 46 18 false; mkTok 43 (string_of_bytes [96; 233; 153; 132; 229; 138; 160; 228; 191; 161; 230; 129; 175; 96]%N) 46 28 false; mkTok 40 "," 46 34 false; mkTok 36 "repeat" 47 4 false; mkTok 42 "SubOrder" 47 11 false; mkTok 2 "{" 47 20 false; mkTok 12 "char[" 48 6 false; mkTok 30 "16" 48 11 false; mkTok 13 "]" 48 13 false; mkTok 42 "ClOrdID" 48 15 false; mkTok 43 (string_of_bytes [96; 229; 173; 144; 232; 174; 162; 229; 141; 149; 229; 143; 183; 96]%N) 48 23 false; mkTok 40 "," 48 29 false; mkTok 23 "u64" 49 6 false; mkTok 42 "Price" 49 10 false; mkTok 43 (string_of_bytes [96; 229; 173; 144; 232; 174; 162; 229; 141; 149; 228; 187; 183; 230; 160; 188; 96]%N) 49 16 false; mkTok 40 "," 49 23 false; mkTok 22 "u32" 50 6 false; mkTok 42 "Qty" 50 10 false; mkTok 43 (string_of_bytes [96; 229; 173; 144; 232; 174; 162; 229; 141; 149; 230; 149; 176; 233; 135; 143; 96]%N) 50 14 false; mkTok 40 "," 50 21 false; mkTok 3 "}" 51 5 false; mkTok 40 "," 51 6 false; mkTok 3 "}" 52 0 false; mkTok 35 "packet" 54 0 false; mkTok 42 "RiskControlResponse" 54 7 false; mkTok 2 "{" 54 27 false; mkTok 15 "string" 55 4 false; mkTok 42 "UniqueOrderId" 55 11 false; mkTok 43 (string_of_bytes [96; 229; 148; 175; 228; 184; 128; 232; 174; 162; 229; 141; 149; 229; 143; 183; 96]%N) 55 25 false; mkTok 40 "," 55 32 false; mkTok 26 "i32" 56 4 false; mkTok 42 "Status" 56 8 false; mkTok 43 (string_of_bytes [96; 231; 138; 182; 230; 128; 129; 96]%N) 56 15 false; mkTok 40 "," 56 19 false; mkTok 15 "string" 57 4 false; mkTok 42 "Msg" 57 11 false; mkTok 43 (string_of_bytes [96; 231; 187; 147; 230; 158; 156; 228; 191; 161; 230; 129; 175; 96]%N) 57 15 false; mkTok 40 "," 57 21 false; mkTok 36 "repeat" 58 4 false; mkTok 42 "Detail" 58 11 false; mkTok 40 "," 58 17 false; mkTok 3 "}" 59 0 false; mkTok 35 "packet" 61 0 false; mkTok 42 "Detail" 61 7 false; mkTok 2 "{" 61 14 false; mkTok 15 "string" 62 4 false; mkTok 42 "RuleName" 62 11 false; mkTok 43 (string_of_bytes [96; 232; 167; 132; 229; 136; 153; 229; 144; 141; 231; 167; 176; 96]%N) 62 20 false; mkTok 40 "," 62 26 false; mkTok 21 "u16" 63 4 false; mkTok 42 "Code" 63 8 false; mkTok 43 (string_of_bytes [96; 229; 142; 159; 229; 155; 160; 228; 187; 163; 231; 160; 129; 96]%N) 63 13 false; mkTok 40 "," 63 19 false; mkTok 3 "}" 64 0 false; mkTok 0 "<EOF>" 64 1 false] (mkPacket (mkPtok 1 "options" 1 0 0) (Some (mkPtok 3 "}" 64 0 204)) [(DOption (mkOptionDef (mkSpan (mkPtok 1 "options" 1 0 0) (mkPtok 3 "}" 4 0 10)) (mkPtok 1 "options" 1 0 0) (mkPtok 2 "{" 1 8 1) [(mkOptionDecl (mkSpan (mkPtok 42 "StringPrefixLenType" 2 1 2) (mkPtok 41 ";" 2 26 5)) (mkPtok 42 "StringPrefixLenType" 2 1 2) (mkPtok 4 "=" 2 21 3) (VType (mkSpan (mkPtok 21 "u16" 2 23 4) (mkPtok 21 "u16" 2 23 4)) (TyBasic (mkSpan (mkPtok 21 "u16" 2 23 4) (mkPtok 21 "u16" 2 23 4)) (mkBasicType (mkSpan (mkPtok 21 "u16" 2 23 4) (mkPtok 21 "u16" 2 23 4)) (mkPtok 21 "u16" 2 23 4)))) (Some (mkPtok 41 ";" 2 26 5))); (mkOptionDecl (mkSpan (mkPtok 42 "ArrayPrefixLenType" 3 1 6) (mkPtok 41 ";" 3 25 9)) (mkPtok 42 "ArrayPrefixLenType" 3 1 6) (mkPtok 4 "=" 3 20 7) (VType (mkSpan (mkPtok 21 "u16" 3 22 8) (mkPtok 21 "u16" 3 22 8)) (TyBasic (mkSpan (mkPtok 21 "u16" 3 22 8) (mkPtok 21 "u16" 3 22 8)) (mkBasicType (mkSpan (mkPtok 21 "u16" 3 22 8) (mkPtok 21 "u16" 3 22 8)) (mkPtok 21 "u16" 3 22 8)))) (Some (mkPtok 41 ";" 3 25 9)))] (mkPtok 3 "}" 4 0 10))); (DPacket (mkPacketDef (mkSpan (mkPtok 35 "packet" 6 0 11) (mkPtok 3 "}" 18 0 59)) None (mkPtok 35 "packet" 6 0 11) (mkPtok 42 "SampleBinary" 6 7 12) (mkPtok 2 "{" 6 20 13) [(mkFieldWithAttr (mkSpan (mkPtok 21 "uint16" 7 4 14) (mkPtok 40 "," 7 25 17)) [] (MetaField (mkSpan (mkPtok 21 "uint16" 7 4 14) (mkPtok 40 "," 7 25 17)) None (mkMetaDecl (mkSpan (mkPtok 21 "uint16" 7 4 14) (mkPtok 40 "," 7 25 17)) (TyBasic (mkSpan (mkPtok 21 "uint16" 7 4 14) (mkPtok 21 "uint16" 7 4 14)) (mkBasicType (mkSpan (mkPtok 21 "uint16" 7 4 14) (mkPtok 21 "uint16" 7 4 14)) (mkPtok 21 "uint16" 7 4 14))) (mkPtok 42 "MsgType" 7 11 15) (Some (mkPtok 43 (string_of_bytes [96; 230; 182; 136; 230; 129; 175; 231; 177; 187; 229; 158; 139; 96]%N) 7 19 16)) (mkPtok 40 "," 7 25 17)))); (mkFieldWithAttr (mkSpan (mkPtok 21 "u16" 8 4 18) (mkPtok 40 "," 8 42 24)) [] (LengthField (mkSpan (mkPtok 21 "u16" 8 4 18) (mkPtok 40 "," 8 42 24)) (mkLengthFieldDecl (mkSpan (mkPtok 21 "u16" 8 4 18) (mkPtok 40 "," 8 42 24)) (Some (TyBasic (mkSpan (mkPtok 21 "u16" 8 4 18) (mkPtok 21 "u16" 8 4 18)) (mkBasicType (mkSpan (mkPtok 21 "u16" 8 4 18) (mkPtok 21 "u16" 8 4 18)) (mkPtok 21 "u16" 8 4 18)))) (mkPtok 42 "BodyLenght" 8 8 19) (mkLengthOf (mkSpan (mkPtok 7 "@lengthOf(" 8 19 20) (mkPtok 6 ")" 8 33 22)) (mkPtok 7 "@lengthOf(" 8 19 20) (mkPtok 42 "Body" 8 29 21) (mkPtok 6 ")" 8 33 22)) (Some (mkPtok 43 (string_of_bytes [96; 230; 182; 136; 230; 129; 175; 228; 189; 147; 233; 149; 191; 229; 186; 166; 96]%N) 8 35 23)) (mkPtok 40 "," 8 42 24)))); (mkFieldWithAttr (mkSpan (mkPtok 38 "match" 9 4 25) (mkPtok 40 "," 15 5 51)) [] (MatchField (mkSpan (mkPtok 38 "match" 9 4 25) (mkPtok 40 "," 15 5 51)) (mkMatchFieldDecl (mkSpan (mkPtok 38 "match" 9 4 25) (mkPtok 3 "}" 15 4 50)) (mkPtok 38 "match" 9 4 25) (mkPtok 42 "MsgType" 9 10 26) (mkPtok 17 "as" 9 18 27) (mkPtok 42 "Body" 9 21 28) (mkPtok 2 "{" 9 26 29) [(mkMatchPair (mkSpan (mkPtok 30 "1" 10 8 30) (mkPtok 40 "," 10 17 33)) (MKDigits (mkPtok 30 "1" 10 8 30)) (mkPtok 39 ":" 10 10 31) (mkPtok 42 "Logon" 10 12 32) (Some (mkPtok 40 "," 10 17 33))); (mkMatchPair (mkSpan (mkPtok 30 "2" 11 8 34) (mkPtok 40 "," 11 18 37)) (MKDigits (mkPtok 30 "2" 11 8 34)) (mkPtok 39 ":" 11 10 35) (mkPtok 42 "Logout" 11 12 36) (Some (mkPtok 40 "," 11 18 37))); (mkMatchPair (mkSpan (mkPtok 30 "3" 12 8 38) (mkPtok 40 "," 12 21 41)) (MKDigits (mkPtok 30 "3" 12 8 38)) (mkPtok 39 ":" 12 10 39) (mkPtok 42 "Heartbeat" 12 12 40) (Some (mkPtok 40 "," 12 21 41))); (mkMatchPair (mkSpan (mkPtok 30 "4" 13 8 42) (mkPtok 40 "," 13 30 45)) (MKDigits (mkPtok 30 "4" 13 8 42)) (mkPtok 39 ":" 13 10 43) (mkPtok 42 "RiskControlRequest" 13 12 44) (Some (mkPtok 40 "," 13 30 45))); (mkMatchPair (mkSpan (mkPtok 30 "5" 14 8 46) (mkPtok 40 "," 14 31 49)) (MKDigits (mkPtok 30 "5" 14 8 46)) (mkPtok 39 ":" 14 10 47) (mkPtok 42 "RiskControlResponse" 14 12 48) (Some (mkPtok 40 "," 14 31 49)))] (mkPtok 3 "}" 15 4 50)) (mkPtok 40 "," 15 5 51))); (mkFieldWithAttr (mkSpan (mkPtok 5 "@calculatedFrom(" 16 8 52) (mkPtok 40 "," 17 22 58)) [(FACalculatedFrom (mkSpan (mkPtok 5 "@calculatedFrom(" 16 8 52) (mkPtok 6 ")" 16 31 54)) (mkCalculatedFrom (mkSpan (mkPtok 5 "@calculatedFrom(" 16 8 52) (mkPtok 6 ")" 16 31 54)) (mkPtok 5 "@calculatedFrom(" 16 8 52) (mkPtok 31 """CRC32""" 16 24 53) (mkPtok 6 ")" 16 31 54)))] (MetaField (mkSpan (mkPtok 22 "u32" 17 4 55) (mkPtok 40 "," 17 22 58)) None (mkMetaDecl (mkSpan (mkPtok 22 "u32" 17 4 55) (mkPtok 40 "," 17 22 58)) (TyBasic (mkSpan (mkPtok 22 "u32" 17 4 55) (mkPtok 22 "u32" 17 4 55)) (mkBasicType (mkSpan (mkPtok 22 "u32" 17 4 55) (mkPtok 22 "u32" 17 4 55)) (mkPtok 22 "u32" 17 4 55))) (mkPtok 42 "Ckecksum" 17 8 56) (Some (mkPtok 43 (string_of_bytes [96; 230; 160; 161; 233; 170; 140; 229; 146; 140; 96]%N) 17 17 57)) (mkPtok 40 "," 17 22 58))))] (mkPtok 3 "}" 18 0 59))); (DPacket (mkPacketDef (mkSpan (mkPtok 35 "packet" 20 0 60) (mkPtok 3 "}" 26 0 85)) None (mkPtok 35 "packet" 20 0 60) (mkPtok 42 "Logon" 20 7 61) (mkPtok 2 "{" 20 13 62) [(mkFieldWithAttr (mkSpan (mkPtok 32 "@leftPad" 21 5 63) (mkPtok 40 "," 22 27 72)) [(FAPadding (mkSpan (mkPtok 32 "@leftPad" 21 5 63) (mkPtok 6 ")" 21 17 66)) (mkPaddingAttr (mkSpan (mkPtok 32 "@leftPad" 21 5 63) (mkPtok 6 ")" 21 17 66)) (mkPtok 32 "@leftPad" 21 5 63) (mkPtok 8 "(" 21 13 64) (Some (mkPtok 33 "'0'" 21 14 65)) (mkPtok 6 ")" 21 17 66)))] (MetaField (mkSpan (mkPtok 12 "char[" 22 4 67) (mkPtok 40 "," 22 27 72)) None (mkMetaDecl (mkSpan (mkPtok 12 "char[" 22 4 67) (mkPtok 40 "," 22 27 72)) (TyFixed (mkSpan (mkPtok 12 "char[" 22 4 67) (mkPtok 13 "]" 22 11 69)) (mkFixedString (mkSpan (mkPtok 12 "char[" 22 4 67) (mkPtok 13 "]" 22 11 69)) (mkPtok 12 "char[" 22 4 67) (mkPtok 30 "10" 22 9 68) (mkPtok 13 "]" 22 11 69))) (mkPtok 42 "UserName" 22 13 70) (Some (mkPtok 43 (string_of_bytes [96; 231; 148; 168; 230; 136; 183; 229; 144; 141; 96]%N) 22 22 71)) (mkPtok 40 "," 22 27 72)))); (mkFieldWithAttr (mkSpan (mkPtok 15 "string" 23 4 73) (mkPtok 40 "," 23 24 76)) [] (MetaField (mkSpan (mkPtok 15 "string" 23 4 73) (mkPtok 40 "," 23 24 76)) None (mkMetaDecl (mkSpan (mkPtok 15 "string" 23 4 73) (mkPtok 40 "," 23 24 76)) (TyDynamic (mkSpan (mkPtok 15 "string" 23 4 73) (mkPtok 15 "string" 23 4 73)) (mkDynamicString (mkSpan (mkPtok 15 "string" 23 4 73) (mkPtok 15 "string" 23 4 73)) (mkPtok 15 "string" 23 4 73))) (mkPtok 42 "Password" 23 11 74) (Some (mkPtok 43 (string_of_bytes [96; 229; 175; 134; 231; 160; 129; 96]%N) 23 20 75)) (mkPtok 40 "," 23 24 76)))); (mkFieldWithAttr (mkSpan (mkPtok 23 "uint64" 24 4 77) (mkPtok 40 "," 24 27 80)) [] (MetaField (mkSpan (mkPtok 23 "uint64" 24 4 77) (mkPtok 40 "," 24 27 80)) None (mkMetaDecl (mkSpan (mkPtok 23 "uint64" 24 4 77) (mkPtok 40 "," 24 27 80)) (TyBasic (mkSpan (mkPtok 23 "uint64" 24 4 77) (mkPtok 23 "uint64" 24 4 77)) (mkBasicType (mkSpan (mkPtok 23 "uint64" 24 4 77) (mkPtok 23 "uint64" 24 4 77)) (mkPtok 23 "uint64" 24 4 77))) (mkPtok 42 "ClientId" 24 11 78) (Some (mkPtok 43 (string_of_bytes [96; 229; 174; 162; 230; 136; 183; 231; 171; 175; 73; 68; 96]%N) 24 20 79)) (mkPtok 40 "," 24 27 80)))); (mkFieldWithAttr (mkSpan (mkPtok 21 "u16" 25 4 81) (mkPtok 40 "," 25 32 84)) [] (MetaField (mkSpan (mkPtok 21 "u16" 25 4 81) (mkPtok 40 "," 25 32 84)) None (mkMetaDecl (mkSpan (mkPtok 21 "u16" 25 4 81) (mkPtok 40 "," 25 32 84)) (TyBasic (mkSpan (mkPtok 21 "u16" 25 4 81) (mkPtok 21 "u16" 25 4 81)) (mkBasicType (mkSpan (mkPtok 21 "u16" 25 4 81) (mkPtok 21 "u16" 25 4 81)) (mkPtok 21 "u16" 25 4 81))) (mkPtok 42 "HeartbeatInterval" 25 8 82) (Some (mkPtok 43 (string_of_bytes [96; 229; 191; 131; 232; 183; 179; 233; 151; 180; 233; 154; 148; 96]%N) 25 26 83)) (mkPtok 40 "," 25 32 84))))] (mkPtok 3 "}" 26 0 85))); (DPacket (mkPacketDef (mkSpan (mkPtok 35 "packet" 28 0 86) (mkPtok 3 "}" 32 0 103)) None (mkPtok 35 "packet" 28 0 86) (mkPtok 42 "Logout" 28 7 87) (mkPtok 2 "{" 28 14 88) [(mkFieldWithAttr (mkSpan (mkPtok 32 "@rightPad" 29 6 89) (mkPtok 40 "," 30 27 98)) [(FAPadding (mkSpan (mkPtok 32 "@rightPad" 29 6 89) (mkPtok 6 ")" 29 19 92)) (mkPaddingAttr (mkSpan (mkPtok 32 "@rightPad" 29 6 89) (mkPtok 6 ")" 29 19 92)) (mkPtok 32 "@rightPad" 29 6 89) (mkPtok 8 "(" 29 15 90) (Some (mkPtok 33 "'0'" 29 16 91)) (mkPtok 6 ")" 29 19 92)))] (MetaField (mkSpan (mkPtok 12 "char[" 30 4 93) (mkPtok 40 "," 30 27 98)) None (mkMetaDecl (mkSpan (mkPtok 12 "char[" 30 4 93) (mkPtok 40 "," 30 27 98)) (TyFixed (mkSpan (mkPtok 12 "char[" 30 4 93) (mkPtok 13 "]" 30 11 95)) (mkFixedString (mkSpan (mkPtok 12 "char[" 30 4 93) (mkPtok 13 "]" 30 11 95)) (mkPtok 12 "char[" 30 4 93) (mkPtok 30 "10" 30 9 94) (mkPtok 13 "]" 30 11 95))) (mkPtok 42 "UserName" 30 13 96) (Some (mkPtok 43 (string_of_bytes [96; 231; 148; 168; 230; 136; 183; 229; 144; 141; 96]%N) 30 22 97)) (mkPtok 40 "," 30 27 98)))); (mkFieldWithAttr (mkSpan (mkPtok 23 "uint64" 31 4 99) (mkPtok 40 "," 31 27 102)) [] (MetaField (mkSpan (mkPtok 23 "uint64" 31 4 99) (mkPtok 40 "," 31 27 102)) None (mkMetaDecl (mkSpan (mkPtok 23 "uint64" 31 4 99) (mkPtok 40 "," 31 27 102)) (TyBasic (mkSpan (mkPtok 23 "uint64" 31 4 99) (mkPtok 23 "uint64" 31 4 99)) (mkBasicType (mkSpan (mkPtok 23 "uint64" 31 4 99) (mkPtok 23 "uint64" 31 4 99)) (mkPtok 23 "uint64" 31 4 99))) (mkPtok 42 "ClientId" 31 11 100) (Some (mkPtok 43 (string_of_bytes [96; 229; 174; 162; 230; 136; 183; 231; 171; 175; 73; 68; 96]%N) 31 20 101)) (mkPtok 40 "," 31 27 102))))] (mkPtok 3 "}" 32 0 103))); (DPacket (mkPacketDef (mkSpan (mkPtok 35 "packet" 34 0 104) (mkPtok 3 "}" 35 0 107)) None (mkPtok 35 "packet" 34 0 104) (mkPtok 42 "Heartbeat" 34 7 105) (mkPtok 2 "{" 34 17 106) [] (mkPtok 3 "}" 35 0 107))); (DPacket (mkPacketDef (mkSpan (mkPtok 35 "packet" 37 0 108) (mkPtok 3 "}" 52 0 173)) None (mkPtok 35 "packet" 37 0 108) (mkPtok 42 "RiskControlRequest" 37 7 109) (mkPtok 2 "{" 37 26 110) [(mkFieldWithAttr (mkSpan (mkPtok 15 "string" 38 4 111) (mkPtok 40 "," 38 32 114)) [] (MetaField (mkSpan (mkPtok 15 "string" 38 4 111) (mkPtok 40 "," 38 32 114)) None (mkMetaDecl (mkSpan (mkPtok 15 "string" 38 4 111) (mkPtok 40 "," 38 32 114)) (TyDynamic (mkSpan (mkPtok 15 "string" 38 4 111) (mkPtok 15 "string" 38 4 111)) (mkDynamicString (mkSpan (mkPtok 15 "string" 38 4 111) (mkPtok 15 "string" 38 4 111)) (mkPtok 15 "string" 38 4 111))) (mkPtok 42 "UniqueOrderId" 38 11 112) (Some (mkPtok 43 (string_of_bytes [96; 229; 148; 175; 228; 184; 128; 232; 174; 162; 229; 141; 149; 229; 143; 183; 96]%N) 38 25 113)) (mkPtok 40 "," 38 32 114)))); (mkFieldWithAttr (mkSpan (mkPtok 12 "char[" 39 4 115) (mkPtok 40 "," 39 28 120)) [] (MetaField (mkSpan (mkPtok 12 "char[" 39 4 115) (mkPtok 40 "," 39 28 120)) None (mkMetaDecl (mkSpan (mkPtok 12 "char[" 39 4 115) (mkPtok 40 "," 39 28 120)) (TyFixed (mkSpan (mkPtok 12 "char[" 39 4 115) (mkPtok 13 "]" 39 11 117)) (mkFixedString (mkSpan (mkPtok 12 "char[" 39 4 115) (mkPtok 13 "]" 39 11 117)) (mkPtok 12 "char[" 39 4 115) (mkPtok 30 "16" 39 9 116) (mkPtok 13 "]" 39 11 117))) (mkPtok 42 "ClOrdID" 39 13 118) (Some (mkPtok 43 (string_of_bytes [96; 229; 174; 162; 230; 136; 183; 232; 174; 162; 229; 141; 149; 229; 143; 183; 96]%N) 39 21 119)) (mkPtok 40 "," 39 28 120)))); (mkFieldWithAttr (mkSpan (mkPtok 12 "char[" 40 4 121) (mkPtok 40 "," 40 27 126)) [] (MetaField (mkSpan (mkPtok 12 "char[" 40 4 121) (mkPtok 40 "," 40 27 126)) None (mkMetaDecl (mkSpan (mkPtok 12 "char[" 40 4 121) (mkPtok 40 "," 40 27 126)) (TyFixed (mkSpan (mkPtok 12 "char[" 40 4 121) (mkPtok 13 "]" 40 10 123)) (mkFixedString (mkSpan (mkPtok 12 "char[" 40 4 121) (mkPtok 13 "]" 40 10 123)) (mkPtok 12 "char[" 40 4 121) (mkPtok 30 "3" 40 9 122) (mkPtok 13 "]" 40 10 123))) (mkPtok 42 "MarketID" 40 12 124) (Some (mkPtok 43 (string_of_bytes [96; 229; 184; 130; 229; 156; 186; 105; 100; 96]%N) 40 21 125)) (mkPtok 40 "," 40 27 126)))); (mkFieldWithAttr (mkSpan (mkPtok 12 "char[" 41 4 127) (mkPtok 40 "," 41 30 132)) [] (MetaField (mkSpan (mkPtok 12 "char[" 41 4 127) (mkPtok 40 "," 41 30 132)) None (mkMetaDecl (mkSpan (mkPtok 12 "char[" 41 4 127) (mkPtok 40 "," 41 30 132)) (TyFixed (mkSpan (mkPtok 12 "char[" 41 4 127) (mkPtok 13 "]" 41 11 129)) (mkFixedString (mkSpan (mkPtok 12 "char[" 41 4 127) (mkPtok 13 "]" 41 11 129)) (mkPtok 12 "char[" 41 4 127) (mkPtok 30 "12" 41 9 128) (mkPtok 13 "]" 41 11 129))) (mkPtok 42 "SecurityID" 41 13 130) (Some (mkPtok 43 (string_of_bytes [96; 232; 175; 129; 229; 136; 184; 228; 187; 163; 231; 160; 129; 96]%N) 41 24 131)) (mkPtok 40 "," 41 30 132)))); (mkFieldWithAttr (mkSpan (mkPtok 19 "char" 42 4 133) (mkPtok 40 "," 42 20 136)) [] (MetaField (mkSpan (mkPtok 19 "char" 42 4 133) (mkPtok 40 "," 42 20 136)) None (mkMetaDecl (mkSpan (mkPtok 19 "char" 42 4 133) (mkPtok 40 "," 42 20 136)) (TyBasic (mkSpan (mkPtok 19 "char" 42 4 133) (mkPtok 19 "char" 42 4 133)) (mkBasicType (mkSpan (mkPtok 19 "char" 42 4 133) (mkPtok 19 "char" 42 4 133)) (mkPtok 19 "char" 42 4 133))) (mkPtok 42 "Side" 42 9 134) (Some (mkPtok 43 (string_of_bytes [96; 228; 185; 176; 229; 141; 150; 230; 150; 185; 229; 144; 145; 96]%N) 42 14 135)) (mkPtok 40 "," 42 20 136)))); (mkFieldWithAttr (mkSpan (mkPtok 19 "char" 43 4 137) (mkPtok 40 "," 43 25 140)) [] (MetaField (mkSpan (mkPtok 19 "char" 43 4 137) (mkPtok 40 "," 43 25 140)) None (mkMetaDecl (mkSpan (mkPtok 19 "char" 43 4 137) (mkPtok 40 "," 43 25 140)) (TyBasic (mkSpan (mkPtok 19 "char" 43 4 137) (mkPtok 19 "char" 43 4 137)) (mkBasicType (mkSpan (mkPtok 19 "char" 43 4 137) (mkPtok 19 "char" 43 4 137)) (mkPtok 19 "char" 43 4 137))) (mkPtok 42 "OrderType" 43 9 138) (Some (mkPtok 43 (string_of_bytes [96; 232; 174; 162; 229; 141; 149; 231; 177; 187; 229; 158; 139; 96]%N) 43 19 139)) (mkPtok 40 "," 43 25 140)))); (mkFieldWithAttr (mkSpan (mkPtok 23 "u64" 44 4 141) (mkPtok 40 "," 44 18 144)) [] (MetaField (mkSpan (mkPtok 23 "u64" 44 4 141) (mkPtok 40 "," 44 18 144)) None (mkMetaDecl (mkSpan (mkPtok 23 "u64" 44 4 141) (mkPtok 40 "," 44 18 144)) (TyBasic (mkSpan (mkPtok 23 "u64" 44 4 141) (mkPtok 23 "u64" 44 4 141)) (mkBasicType (mkSpan (mkPtok 23 "u64" 44 4 141) (mkPtok 23 "u64" 44 4 141)) (mkPtok 23 "u64" 44 4 141))) (mkPtok 42 "Price" 44 8 142) (Some (mkPtok 43 (string_of_bytes [96; 228; 187; 183; 230; 160; 188; 96]%N) 44 14 143)) (mkPtok 40 "," 44 18 144)))); (mkFieldWithAttr (mkSpan (mkPtok 22 "u32" 45 4 145) (mkPtok 40 "," 45 16 148)) [] (MetaField (mkSpan (mkPtok 22 "u32" 45 4 145) (mkPtok 40 "," 45 16 148)) None (mkMetaDecl (mkSpan (mkPtok 22 "u32" 45 4 145) (mkPtok 40 "," 45 16 148)) (TyBasic (mkSpan (mkPtok 22 "u32" 45 4 145) (mkPtok 22 "u32" 45 4 145)) (mkBasicType (mkSpan (mkPtok 22 "u32" 45 4 145) (mkPtok 22 "u32" 45 4 145)) (mkPtok 22 "u32" 45 4 145))) (mkPtok 42 "Qty" 45 8 146) (Some (mkPtok 43 (string_of_bytes [96; 230; 149; 176; 233; 135; 143; 96]%N) 45 12 147)) (mkPtok 40 "," 45 16 148)))); (mkFieldWithAttr (mkSpan (mkPtok 36 "repeat" 46 4 149) (mkPtok 40 "," 46 34 153)) [] (MetaField (mkSpan (mkPtok 36 "repeat" 46 4 149) (mkPtok 40 "," 46 34 153)) (Some (mkPtok 36 "repeat" 46 4 149)) (mkMetaDecl (mkSpan (mkPtok 15 "string" 46 11 150) (mkPtok 40 "," 46 34 153)) (TyDynamic (mkSpan (mkPtok 15 "string" 46 11 150) (mkPtok 15 "string" 46 11 150)) (mkDynamicString (mkSpan (mkPtok 15 "string" 46 11 150) (mkPtok 15 "string" 46 11 150)) (mkPtok 15 "string" 46 11 150))) (mkPtok 42 "ExtraInfo" 46 18 151) (Some (mkPtok 43 (string_of_bytes [96; 233; 153; 132; 229; 138; 160; 228; 191; 161; 230; 129; 175; 96]%N) 46 28 152)) (mkPtok 40 "," 46 34 153)))); (mkFieldWithAttr (mkSpan (mkPtok 36 "repeat" 47 4 154) (mkPtok 40 "," 51 6 172)) [] (InerObjectField (mkSpan (mkPtok 36 "repeat" 47 4 154) (mkPtok 40 "," 51 6 172)) (Some (mkPtok 36 "repeat" 47 4 154)) (InerObjectDecl (mkSpan (mkPtok 42 "SubOrder" 47 11 155) (mkPtok 3 "}" 51 5 171)) (mkPtok 42 "SubOrder" 47 11 155) (mkPtok 2 "{" 47 20 156) [(MetaField (mkSpan (mkPtok 12 "char[" 48 6 157) (mkPtok 40 "," 48 29 162)) None (mkMetaDecl (mkSpan (mkPtok 12 "char[" 48 6 157) (mkPtok 40 "," 48 29 162)) (TyFixed (mkSpan (mkPtok 12 "char[" 48 6 157) (mkPtok 13 "]" 48 13 159)) (mkFixedString (mkSpan (mkPtok 12 "char[" 48 6 157) (mkPtok 13 "]" 48 13 159)) (mkPtok 12 "char[" 48 6 157) (mkPtok 30 "16" 48 11 158) (mkPtok 13 "]" 48 13 159))) (mkPtok 42 "ClOrdID" 48 15 160) (Some (mkPtok 43 (string_of_bytes [96; 229; 173; 144; 232; 174; 162; 229; 141; 149; 229; 143; 183; 96]%N) 48 23 161)) (mkPtok 40 "," 48 29 162))); (MetaField (mkSpan (mkPtok 23 "u64" 49 6 163) (mkPtok 40 "," 49 23 166)) None (mkMetaDecl (mkSpan (mkPtok 23 "u64" 49 6 163) (mkPtok 40 "," 49 23 166)) (TyBasic (mkSpan (mkPtok 23 "u64" 49 6 163) (mkPtok 23 "u64" 49 6 163)) (mkBasicType (mkSpan (mkPtok 23 "u64" 49 6 163) (mkPtok 23 "u64" 49 6 163)) (mkPtok 23 "u64" 49 6 163))) (mkPtok 42 "Price" 49 10 164) (Some (mkPtok 43 (string_of_bytes [96; 229; 173; 144; 232; 174; 162; 229; 141; 149; 228; 187; 183; 230; 160; 188; 96]%N) 49 16 165)) (mkPtok 40 "," 49 23 166))); (MetaField (mkSpan (mkPtok 22 "u32" 50 6 167) (mkPtok 40 "," 50 21 170)) None (mkMetaDecl (mkSpan (mkPtok 22 "u32" 50 6 167) (mkPtok 40 "," 50 21 170)) (TyBasic (mkSpan (mkPtok 22 "u32" 50 6 167) (mkPtok 22 "u32" 50 6 167)) (mkBasicType (mkSpan (mkPtok 22 "u32" 50 6 167) (mkPtok 22 "u32" 50 6 167)) (mkPtok 22 "u32" 50 6 167))) (mkPtok 42 "Qty" 50 10 168) (Some (mkPtok 43 (string_of_bytes [96; 229; 173; 144; 232; 174; 162; 229; 141; 149; 230; 149; 176; 233; 135; 143; 96]%N) 50 14 169)) (mkPtok 40 "," 50 21 170)))] (mkPtok 3 "}" 51 5 171)) (mkPtok 40 "," 51 6 172)))] (mkPtok 3 "}" 52 0 173))); (DPacket (mkPacketDef (mkSpan (mkPtok 35 "packet" 54 0 174) (mkPtok 3 "}" 59 0 192)) None (mkPtok 35 "packet" 54 0 174) (mkPtok 42 "RiskControlResponse" 54 7 175) (mkPtok 2 "{" 54 27 176) [(mkFieldWithAttr (mkSpan (mkPtok 15 "string" 55 4 177) (mkPtok 40 "," 55 32 180)) [] (MetaField (mkSpan (mkPtok 15 "string" 55 4 177) (mkPtok 40 "," 55 32 180)) None (mkMetaDecl (mkSpan (mkPtok 15 "string" 55 4 177) (mkPtok 40 "," 55 32 180)) (TyDynamic (mkSpan (mkPtok 15 "string" 55 4 177) (mkPtok 15 "string" 55 4 177)) (mkDynamicString (mkSpan (mkPtok 15 "string" 55 4 177) (mkPtok 15 "string" 55 4 177)) (mkPtok 15 "string" 55 4 177))) (mkPtok 42 "UniqueOrderId" 55 11 178) (Some (mkPtok 43 (string_of_bytes [96; 229; 148; 175; 228; 184; 128; 232; 174; 162; 229; 141; 149; 229; 143; 183; 96]%N) 55 25 179)) (mkPtok 40 "," 55 32 180)))); (mkFieldWithAttr (mkSpan (mkPtok 26 "i32" 56 4 181) (mkPtok 40 "," 56 19 184)) [] (MetaField (mkSpan (mkPtok 26 "i32" 56 4 181) (mkPtok 40 "," 56 19 184)) None (mkMetaDecl (mkSpan (mkPtok 26 "i32" 56 4 181) (mkPtok 40 "," 56 19 184)) (TyBasic (mkSpan (mkPtok 26 "i32" 56 4 181) (mkPtok 26 "i32" 56 4 181)) (mkBasicType (mkSpan (mkPtok 26 "i32" 56 4 181) (mkPtok 26 "i32" 56 4 181)) (mkPtok 26 "i32" 56 4 181))) (mkPtok 42 "Status" 56 8 182) (Some (mkPtok 43 (string_of_bytes [96; 231; 138; 182; 230; 128; 129; 96]%N) 56 15 183)) (mkPtok 40 "," 56 19 184)))); (mkFieldWithAttr (mkSpan (mkPtok 15 "string" 57 4 185) (mkPtok 40 "," 57 21 188)) [] (MetaField (mkSpan (mkPtok 15 "string" 57 4 185) (mkPtok 40 "," 57 21 188)) None (mkMetaDecl (mkSpan (mkPtok 15 "string" 57 4 185) (mkPtok 40 "," 57 21 188)) (TyDynamic (mkSpan (mkPtok 15 "string" 57 4 185) (mkPtok 15 "string" 57 4 185)) (mkDynamicString (mkSpan (mkPtok 15 "string" 57 4 185) (mkPtok 15 "string" 57 4 185)) (mkPtok 15 "string" 57 4 185))) (mkPtok 42 "Msg" 57 11 186) (Some (mkPtok 43 (string_of_bytes [96; 231; 187; 147; 230; 158; 156; 228; 191; 161; 230; 129; 175; 96]%N) 57 15 187)) (mkPtok 40 "," 57 21 188)))); (mkFieldWithAttr (mkSpan (mkPtok 36 "repeat" 58 4 189) (mkPtok 40 "," 58 17 191)) [] (ObjectField (mkSpan (mkPtok 36 "repeat" 58 4 189) (mkPtok 40 "," 58 17 191)) (Some (mkPtok 36 "repeat" 58 4 189)) (mkPtok 42 "Detail" 58 11 190) None None (mkPtok 40 "," 58 17 191)))] (mkPtok 3 "}" 59 0 192))); (DPacket (mkPacketDef (mkSpan (mkPtok 35 "packet" 61 0 193) (mkPtok 3 "}" 64 0 204)) None (mkPtok 35 "packet" 61 0 193) (mkPtok 42 "Detail" 61 7 194) (mkPtok 2 "{" 61 14 195) [(mkFieldWithAttr (mkSpan (mkPtok 15 "string" 62 4 196) (mkPtok 40 "," 62 26 199)) [] (MetaField (mkSpan (mkPtok 15 "string" 62 4 196) (mkPtok 40 "," 62 26 199)) None (mkMetaDecl (mkSpan (mkPtok 15 "string" 62 4 196) (mkPtok 40 "," 62 26 199)) (TyDynamic (mkSpan (mkPtok 15 "string" 62 4 196) (mkPtok 15 "string" 62 4 196)) (mkDynamicString (mkSpan (mkPtok 15 "string" 62 4 196) (mkPtok 15 "string" 62 4 196)) (mkPtok 15 "string" 62 4 196))) (mkPtok 42 "RuleName" 62 11 197) (Some (mkPtok 43 (string_of_bytes [96; 232; 167; 132; 229; 136; 153; 229; 144; 141; 231; 167; 176; 96]%N) 62 20 198)) (mkPtok 40 "," 62 26 199)))); (mkFieldWithAttr (mkSpan (mkPtok 21 "u16" 63 4 200) (mkPtok 40 "," 63 19 203)) [] (MetaField (mkSpan (mkPtok 21 "u16" 63 4 200) (mkPtok 40 "," 63 19 203)) None (mkMetaDecl (mkSpan (mkPtok 21 "u16" 63 4 200) (mkPtok 40 "," 63 19 203)) (TyBasic (mkSpan (mkPtok 21 "u16" 63 4 200) (mkPtok 21 "u16" 63 4 200)) (mkBasicType (mkSpan (mkPtok 21 "u16" 63 4 200) (mkPtok 21 "u16" 63 4 200)) (mkPtok 21 "u16" 63 4 200))) (mkPtok 42 "Code" 63 8 201) (Some (mkPtok 43 (string_of_bytes [96; 229; 142; 159; 229; 155; 160; 228; 187; 163; 231; 160; 129; 96]%N) 63 13 202)) (mkPtok 40 "," 63 19 203))))] (mkPtok 3 "}" 64 0 204)))])).
Eval vm_compute in ("<<<M310>>>" ++ check (runes_of_ascii "MetaData MetaData
crc	{ char[] Z9_`{ , }`,} options { tag =
    false } packet
// a // b
// @lengthOf(
Pad {Foo @calculatedFrom( // `tick` ""quote"" 'q'
""a\\"" ) ,
    trueish ,
    char[ 00]
    // " ++ [128512]%N ++ runes_of_ascii " emoji
    packetx , }
")).
Eval vm_compute in ("<<<M320>>>" ++ check (runes_of_ascii "MetaData
crc	{ { char[] Z9_`{ , }`,} options { tag =
    false } packet
// a // b
// @lengthOf(
Pad {Foo @calculatedFrom( // `tick` ""quote"" 'q'
""a\\"" ) ,
    trueish ,
    char[ 00]
    // " ++ [128512]%N ++ runes_of_ascii " emoji
    packetx , }
")).
Eval vm_compute in ("<<<M330>>>" ++ check (runes_of_ascii "MetaData
crc	{ char[] Z9_ Z9_`{ , }`,} options { tag =
    false } packet
// a // b
// @lengthOf(
Pad {Foo @calculatedFrom( // `tick` ""quote"" 'q'
""a\\"" ) ,
    trueish ,
    char[ 00]
    // " ++ [128512]%N ++ runes_of_ascii " emoji
    packetx , }
")).
Eval vm_compute in ("<<<M340>>>" ++ check (runes_of_ascii "MetaData
crc	{ char[] Z9_`{ , }`, ,} options { tag =
    false } packet
// a // b
// @lengthOf(
Pad {Foo @calculatedFrom( // `tick` ""quote"" 'q'
""a\\"" ) ,
    trueish ,
    char[ 00]
    // " ++ [128512]%N ++ runes_of_ascii " emoji
    packetx , }
")).
Eval vm_compute in ("<<<M350>>>" ++ check (runes_of_ascii "MetaData
crc	{ char[] Z9_`{ , }`,} options options { tag =
    false } packet
// a // b
// @lengthOf(
Pad {Foo @calculatedFrom( // `tick` ""quote"" 'q'
""a\\"" ) ,
    trueish ,
    char[ 00]
    // " ++ [128512]%N ++ runes_of_ascii " emoji
    packetx , }
")).
Eval vm_compute in ("<<<M360>>>" ++ check (runes_of_ascii "MetaData
crc	{ char[] Z9_`{ , }`,} options { tag tag =
    false } packet
// a // b
// @lengthOf(
Pad {Foo @calculatedFrom( // `tick` ""quote"" 'q'
""a\\"" ) ,
    trueish ,
    char[ 00]
    // " ++ [128512]%N ++ runes_of_ascii " emoji
    packetx , }
")).
Eval vm_compute in ("<<<M370>>>" ++ check (runes_of_ascii "MetaData
crc	{ char[] Z9_`{ , }`,} options { tag =
    false false } packet
// a // b
// @lengthOf(
Pad {Foo @calculatedFrom( // `tick` ""quote"" 'q'
""a\\"" ) ,
    trueish ,
    char[ 00]
    // " ++ [128512]%N ++ runes_of_ascii " emoji
    packetx , }
")).
Eval vm_compute in ("<<<M380>>>" ++ check (runes_of_ascii "MetaData
crc	{ char[] Z9_`{ , }`,} options { tag =
    false } packet packet
// a // b
// @lengthOf(
Pad {Foo @calculatedFrom( // `tick` ""quote"" 'q'
""a\\"" ) ,
    trueish ,
    char[ 00]
    // " ++ [128512]%N ++ runes_of_ascii " emoji
    packetx , }
")).
Eval vm_compute in ("<<<M390>>>" ++ check (runes_of_ascii "MetaData
crc	{ char[] Z9_`{ , }`,} options { tag =
    false } packet
// a // b
// @lengthOf(
Pad { {Foo @calculatedFrom( // `tick` ""quote"" 'q'
""a\\"" ) ,
    trueish ,
    char[ 00]
    // " ++ [128512]%N ++ runes_of_ascii " emoji
    packetx , }
")).
Eval vm_compute in ("<<<M400>>>" ++ check (runes_of_ascii "MetaData
crc	{ char[] Z9_`{ , }`,} options { tag =
    false } packet
// a // b
// @lengthOf(
Pad {Foo @calculatedFrom( @calculatedFrom( // `tick` ""quote"" 'q'
""a\\"" ) ,
    trueish ,
    char[ 00]
    // " ++ [128512]%N ++ runes_of_ascii " emoji
    packetx , }
")).
Eval vm_compute in ("<<<M410>>>" ++ check (runes_of_ascii "MetaData
crc	{ char[] Z9_`{ , }`,} options { tag =
    false } packet
// a // b
// @lengthOf(
Pad {Foo @calculatedFrom( // `tick` ""quote"" 'q'
""a\\"" ) ) ,
    trueish ,
    char[ 00]
    // " ++ [128512]%N ++ runes_of_ascii " emoji
    packetx , }
")).
Eval vm_compute in ("<<<M420>>>" ++ check (runes_of_ascii "MetaData
crc	{ char[] Z9_`{ , }`,} options { tag =
    false } packet
// a // b
// @lengthOf(
Pad {Foo @calculatedFrom( // `tick` ""quote"" 'q'
""a\\"" ) ,
    trueish trueish ,
    char[ 00]
    // " ++ [128512]%N ++ runes_of_ascii " emoji
    packetx , }
")).
Eval vm_compute in ("<<<M430>>>" ++ check (runes_of_ascii "MetaData
crc	{ char[] Z9_`{ , }`,} options { tag =
    false } packet
// a // b
// @lengthOf(
Pad {Foo @calculatedFrom( // `tick` ""quote"" 'q'
""a\\"" ) ,
    trueish ,
    char[ char[ 00]
    // " ++ [128512]%N ++ runes_of_ascii " emoji
    packetx , }
")).
Eval vm_compute in ("<<<M440>>>" ++ check (runes_of_ascii "MetaData
crc	{ char[] Z9_`{ , }`,} options { tag =
    false } packet
// a // b
// @lengthOf(
Pad {Foo @calculatedFrom( // `tick` ""quote"" 'q'
""a\\"" ) ,
    trueish ,
    char[ 00] ]
    // " ++ [128512]%N ++ runes_of_ascii " emoji
    packetx , }
")).
Eval vm_compute in ("<<<M450>>>" ++ check (runes_of_ascii "MetaData
crc	{ char[] Z9_`{ , }`,} options { tag =
    false } packet
// a // b
// @lengthOf(
Pad {Foo @calculatedFrom( // `tick` ""quote"" 'q'
""a\\"" ) ,
    trueish ,
    char[ 00]
    // " ++ [128512]%N ++ runes_of_ascii " emoji
    packetx , , }
")).
Eval vm_compute in ("<<<M460>>>" ++ check (runes_of_ascii "MetaData
crc	{ char[] Z9_`{ , }`,} options { tag =
    false } packet
// a // b
// @lengthOf(
Pad {Foo @calculatedFrom( // `tick` ""quote"" 'q'
""a\\"" ) ,
    trueish ,
    char[ 00]
    // " ++ [128512]%N ++ runes_of_ascii " emoji
")).
Eval vm_compute in ("<<<M470>>>" ++ check (runes_of_ascii "MetaData
crc	{ char[] Z9_`{ , }`,} options { tag =
    false } packet
// a // b
// @lengthOf(
Pad {Foo @calculatedF~rom( // `tick` ""quote"" 'q'
""a\\"" ) ,
    trueish ,
    char[ 00]
    // " ++ [128512]%N ++ runes_of_ascii " emoji
    packetx , }
")).
Eval vm_compute in ("<<<M480>>>" ++ check (runes_of_ascii "root packet _x	{ @rightPad (
 ) string u8x @lengthOf(
    _x
) , repeat Pad  { // " ++ [128512]%N ++ runes_of_ascii " emoji
As
// `tick` ""quote"" 'q'
//x
{matchKey chars,
} , }, }")).
Eval vm_compute in ("<<<M490>>>" ++ check (runes_of_ascii "root packet _x	{ @rightPad (
' ' )")).
Eval vm_compute in ("<<<M500>>>" ++ check (runes_of_ascii "root packet _x	{ @rightPad (
' ' ) string u8x @lengthOf(
    _x
) , repeat Pad  { // " ++ [128512]%N ++ runes_of_ascii " emoji
As
// `tick` ""quote"" 'q'
//x
{matchKey chars,
} } , }, }")).
Eval vm_compute in ("<<<M510>>>" ++ check (runes_of_ascii "root packet _x	{ @rightPad (
' ' ) string u8x @lengthOf(
    _x
) , repeat Pad  { { // " ++ [128512]%N ++ runes_of_ascii " emoji
As
// `tick` ""quote"" 'q'
//x
{matchKey chars,
} , }, }")).
Eval vm_compute in ("<<<M520>>>" ++ check (runes_of_ascii "packet root _x	{ @rightPad (
' ' ) string u8x @lengthOf(
    _x
) , repeat Pad  { // " ++ [128512]%N ++ runes_of_ascii " emoji
As
// `tick` ""quote"" 'q'
//x
{matchKey chars,
} , }, }")).
Eval vm_compute in ("<<<M530>>>" ++ check (runes_of_ascii "root packet _x	{ @rightPad (
' ' ) string u8x @lengthOf(
    _x
) as repeat Pad  { // " ++ [128512]%N ++ runes_of_ascii " emoji
As
// `tick` ""quote"" 'q'
//x
{matchKey chars,
} , }, }")).
Eval vm_compute in ("<<<M540>>>" ++ check (runes_of_ascii "root packet _x	{ @rightPad (
' ' ) string u8x @lengthOf(
    _x
) , repeat Pad  { // " ++ [128512]%N ++ runes_of_ascii " emoji
As
// `tick` ""quote"" 'q'
//x
{matchKey chars,
} `100% of %d` }, }")).
Eval vm_compute in ("<<<M550>>>" ++ check (runes_of_ascii "root packet _x	{ @rightPad (
' ' ) string u8x @lengthOf(
    _x
) , repeat Pad  { // " ++ [128512]%N ++ runes_of_ascii " emoji
As
// `tick` ""quote"" 'q'
//x
{matchKey matchKey chars,
} , }, }")).
Eval vm_compute in ("<<<M560>>>" ++ check (runes_of_ascii "root packet _x	char[] @rightPad (
' ' ) string u8x @lengthOf(
    _x
) , repeat Pad  { // " ++ [128512]%N ++ runes_of_ascii " emoji
As
// `tick` ""quote"" 'q'
//x
{matchKey chars,
} , }, }")).
Eval vm_compute in ("<<<M570>>>" ++ check (runes_of_ascii "//")).
Eval vm_compute in ("<<<M580>>>" ++ check (runes_of_ascii "' ' } match u64 f64 `say ""hi""` match 7 uint8 int8")).
Eval vm_compute in ("<<<M590>>>" ++ check (runes_of_ascii "R10X>Hj3S7F$[YuBB]Gw=wcD""1ok[NFyj,pr$w")).
