From FP Require Import Lexer Parser ShowPT Digest.
From Coq Require Import String List NArith.
Import ListNotations.
Open Scope string_scope.
Set Printing Width 100000000.
Set Printing Depth 100000000.
Definition nl : string := String (Ascii.ascii_of_nat 10) EmptyString.
Definition model_lex (rs : list rune) : string := show_toks (lex rs).
Definition model_parse (rs : list rune) : string :=
  show_pt (match lex rs with Some ts => parse ts | None => None end).
(* coqc is slow at printing long strings: digests first (Digest.v), full texts on demand *)
Definition check (rs : list rune) : string :=
  digest (model_lex rs) ++ " " ++ digest (model_parse rs).
Definition full (rs : list rune) : string := model_lex rs ++ nl ++ model_parse rs.
Definition terms (ts : list tok) (t : pt) : string :=
  digest (show_toks (Some ts)) ++ " " ++ digest (show_pt (Some t)) ++ " " ++ digest (show_pt (parse ts)).
Definition terms_full (ts : list tok) (t : pt) : string :=
  show_toks (Some ts) ++ nl ++ show_pt (Some t) ++ nl ++ show_pt (parse ts).
Eval vm_compute in ("<<<M0>>>" ++ check (runes_of_ascii "
packet /// triple
uint8x	{@calculatedFrom(
""a	b"" )
//
// " ++ [128512]%N ++ runes_of_ascii " emoji
i32 charz
    ,
match //x
x	as
x {""a	b""  :
lengthOf,} , leftPad
    `{ , }` , } //x")).
Eval vm_compute in ("<<<M10>>>" ++ check (runes_of_ascii "
options{
crc
// " ++ [128512]%N ++ runes_of_ascii " emoji
// trailing space 
= uint8} packet len {uint8x @calculatedFrom( ""x y"" ), @lengthOf(
    rootA  )
    @lengthOf( body
// `tick` ""quote"" 'q'
// `tick` ""quote"" 'q'
)@calculatedFrom(  ""x y""
) Packet  @calculatedFrom(// `tick` ""quote"" 'q'
""\n"" )
`
`
, Packet ,  repeat
    // trailing space 
    i8	Z9_ , @tag(255 )
falsey `
` ,	i64 int `line1
line2` ,@calculatedFrom(
    ""\n""
// packet A { u8 x, }
/// triple
) @leftPad()
@calculatedFrom(//	t
""abc"" )// packet A { u8 x, }
BodyLength ,uint8 u , @calculatedFrom(
    ""a\""b""
) @lengthOf( metadata ) @rightPad (' ') // packet A { u8 x, }
char[10] f32a , }  packet repeatCount { }options  {
string_ =  i32 ;
o =	""a	b"" ;
    i8i8	=
    ""a\""b"" ; uint8x =
uint16
    // " ++ [128512]%N ++ runes_of_ascii " emoji
    ;
}")).
Eval vm_compute in ("<<<M20>>>" ++ check (runes_of_ascii "packet
int // " ++ [27880; 37322]%N ++ runes_of_ascii "
{ repeat // @lengthOf(
MetaDataX // a // b
{ //	t
pack
    { repeat Pad	{ i8 MetaDataX
, repeat pack	trueish ,
u
    // trailing space 
    charz	`" ++ [233]%N ++ runes_of_ascii "` ,string
int
, }	, f64 Z9_
    ,
} ,
} // c
,	} packet trueish {
@lengthOf(
    u)uint8 metadata
    `" ++ [28040; 24687; 31867; 22411]%N ++ runes_of_ascii "` , match	uint8x
as roots
{ """ ++ [233]%N ++ runes_of_ascii "t" ++ [233]%N ++ runes_of_ascii """:
    Pad 0123456789
: msg_type// " ++ [27880; 37322]%N ++ runes_of_ascii "
[ ""1"" ,	0 ,10] //	t
:
pack,
[ ""it's"" ,  ""\" ++ [233]%N ++ runes_of_ascii """ ] :u8x
, [// " ++ [128512]%N ++ runes_of_ascii " emoji
0123456789 ] :
MetaDataX
    // packet A { u8 x, }
    , },zchar[	00 ] pack @lengthOf( string_ ),// packet A { u8 x, }
@tag( 4294967296 )
x_y_z string_ ,
    } options {A
    =true float  =	""" ++ [28040; 24687]%N ++ runes_of_ascii """ ; }
MetaData Header { zchar[//
7 // `tick` ""quote"" 'q'
]u128
, char[]
/// triple
// trailing space 
u , string_ metadata	,
uint32 f32a `u8 x,` , } options{// trailing space 
roots
    =
    true;
int =false ; string_=
"""" }")).
Eval vm_compute in ("<<<T20>>>" ++ terms [mkTok 35 "packet" 1 0 false; mkTok 42 "int" 2 0 false; mkTok 44 (string_of_bytes [47; 47; 32; 230; 179; 168; 233; 135; 138]%N) 2 4 true; mkTok 2 "{" 3 0 false; mkTok 36 "repeat" 3 2 false; mkTok 44 "// @lengthOf(" 3 9 true; mkTok 42 "MetaDataX" 4 0 false; mkTok 44 "// a // b" 4 10 true; mkTok 2 "{" 5 0 false; mkTok 44 (string_of_bytes [47; 47; 9; 116]%N) 5 2 true; mkTok 42 "pack" 6 0 false; mkTok 2 "{" 7 4 false; mkTok 36 "repeat" 7 6 false; mkTok 42 "Pad" 7 13 false; mkTok 2 "{" 7 17 false; mkTok 24 "i8" 7 19 false; mkTok 42 "MetaDataX" 7 22 false; mkTok 40 "," 8 0 false; mkTok 36 "repeat" 8 2 false; mkTok 42 "pack" 8 9 false; mkTok 42 "trueish" 8 14 false; mkTok 40 "," 8 22 false; mkTok 42 "u" 9 0 false; mkTok 44 "// trailing space " 10 4 true; mkTok 42 "charz" 11 4 false; mkTok 43 (string_of_bytes [96; 195; 169; 96]%N) 11 10 false; mkTok 40 "," 11 14 false; mkTok 15 "string" 11 15 false; mkTok 42 "int" 12 0 false; mkTok 40 "," 13 0 false; mkTok 3 "}" 13 2 false; mkTok 40 "," 13 4 false; mkTok 29 "f64" 13 6 false; mkTok 42 "Z9_" 13 10 false; mkTok 40 "," 14 4 false; mkTok 3 "}" 15 0 false; mkTok 40 "," 15 2 false; mkTok 3 "}" 16 0 false; mkTok 44 "// c" 16 2 true; mkTok 40 "," 17 0 false; mkTok 3 "}" 17 2 false; mkTok 35 "packet" 17 4 false; mkTok 42 "trueish" 17 11 false; mkTok 2 "{" 17 19 false; mkTok 7 "@lengthOf(" 18 0 false; mkTok 42 "u" 19 4 false; mkTok 6 ")" 19 5 false; mkTok 20 "uint8" 19 6 false; mkTok 42 "metadata" 19 12 false; mkTok 43 (string_of_bytes [96; 230; 182; 136; 230; 129; 175; 231; 177; 187; 229; 158; 139; 96]%N) 20 4 false; mkTok 40 "," 20 11 false; mkTok 38 "match" 20 13 false; mkTok 42 "uint8x" 20 19 false; mkTok 17 "as" 21 0 false; mkTok 42 "roots" 21 3 false; mkTok 2 "{" 22 0 false; mkTok 31 (string_of_bytes [34; 195; 169; 116; 195; 169; 34]%N) 22 2 false; mkTok 39 ":" 22 7 false; mkTok 42 "Pad" 23 4 false; mkTok 30 "0123456789" 23 8 false; mkTok 39 ":" 24 0 false; mkTok 42 "msg_type" 24 2 false; mkTok 44 (string_of_bytes [47; 47; 32; 230; 179; 168; 233; 135; 138]%N) 24 10 true; mkTok 18 "[" 25 0 false; mkTok 31 """1""" 25 2 false; mkTok 40 "," 25 6 false; mkTok 30 "0" 25 8 false; mkTok 40 "," 25 10 false; mkTok 30 "10" 25 11 false; mkTok 13 "]" 25 13 false; mkTok 44 (string_of_bytes [47; 47; 9; 116]%N) 25 15 true; mkTok 39 ":" 26 0 false; mkTok 42 "pack" 27 0 false; mkTok 40 "," 27 4 false; mkTok 18 "[" 28 0 false; mkTok 31 """it's""" 28 2 false; mkTok 40 "," 28 9 false; mkTok 31 (string_of_bytes [34; 92; 195; 169; 34]%N) 28 12 false; mkTok 13 "]" 28 17 false; mkTok 39 ":" 28 19 false; mkTok 42 "u8x" 28 20 false; mkTok 40 "," 29 0 false; mkTok 18 "[" 29 2 false; mkTok 44 (string_of_bytes [47; 47; 32; 240; 159; 152; 128; 32; 101; 109; 111; 106; 105]%N) 29 3 true; mkTok 30 "0123456789" 30 0 false; mkTok 13 "]" 30 11 false; mkTok 39 ":" 30 13 false; mkTok 42 "MetaDataX" 31 0 false; mkTok 44 "// packet A { u8 x, }" 32 4 true; mkTok 40 "," 33 4 false; mkTok 3 "}" 33 6 false; mkTok 40 "," 33 7 false; mkTok 14 "zchar[" 33 8 false; mkTok 30 "00" 33 15 false; mkTok 13 "]" 33 18 false; mkTok 42 "pack" 33 20 false; mkTok 7 "@lengthOf(" 33 25 false; mkTok 42 "string_" 33 36 false; mkTok 6 ")" 33 44 false; mkTok 40 "," 33 45 false; mkTok 44 "// packet A { u8 x, }" 33 46 true; mkTok 9 "@tag(" 34 0 false; mkTok 30 "4294967296" 34 6 false; mkTok 6 ")" 34 17 false; mkTok 42 "x_y_z" 35 0 false; mkTok 42 "string_" 35 6 false; mkTok 40 "," 35 14 false; mkTok 3 "}" 36 4 false; mkTok 1 "options" 36 6 false; mkTok 2 "{" 36 14 false; mkTok 42 "A" 36 15 false; mkTok 4 "=" 37 4 false; mkTok 10 "true" 37 5 false; mkTok 42 "float" 37 10 false; mkTok 4 "=" 37 17 false; mkTok 31 (string_of_bytes [34; 230; 182; 136; 230; 129; 175; 34]%N) 37 19 false; mkTok 41 ";" 37 24 false; mkTok 3 "}" 37 26 false; mkTok 37 "MetaData" 38 0 false; mkTok 42 "Header" 38 9 false; mkTok 2 "{" 38 16 false; mkTok 14 "zchar[" 38 18 false; mkTok 44 "//" 38 24 true; mkTok 30 "7" 39 0 false; mkTok 44 "// `tick` ""quote"" 'q'" 39 2 true; mkTok 13 "]" 40 0 false; mkTok 42 "u128" 40 1 false; mkTok 40 "," 41 0 false; mkTok 16 "char[]" 41 2 false; mkTok 44 "/// triple" 42 0 true; mkTok 44 "// trailing space " 43 0 true; mkTok 42 "u" 44 0 false; mkTok 40 "," 44 2 false; mkTok 42 "string_" 44 4 false; mkTok 42 "metadata" 44 12 false; mkTok 40 "," 44 21 false; mkTok 22 "uint32" 45 0 false; mkTok 42 "f32a" 45 7 false; mkTok 43 "`u8 x,`" 45 12 false; mkTok 40 "," 45 20 false; mkTok 3 "}" 45 22 false; mkTok 1 "options" 45 24 false; mkTok 2 "{" 45 31 false; mkTok 44 "// trailing space " 45 32 true; mkTok 42 "roots" 46 0 false; mkTok 4 "=" 47 4 false; mkTok 10 "true" 48 4 false; mkTok 41 ";" 48 8 false; mkTok 42 "int" 49 0 false; mkTok 4 "=" 49 4 false; mkTok 11 "false" 49 5 false; mkTok 41 ";" 49 11 false; mkTok 42 "string_" 49 13 false; mkTok 4 "=" 49 20 false; mkTok 31 """""" 50 0 false; mkTok 3 "}" 50 3 false; mkTok 0 "<EOF>" 50 4 false] (mkPacket (mkPtok 35 "packet" 1 0 0) (Some (mkPtok 3 "}" 50 3 155)) [(DPacket (mkPacketDef (mkSpan (mkPtok 35 "packet" 1 0 0) (mkPtok 3 "}" 17 2 40)) None (mkPtok 35 "packet" 1 0 0) (mkPtok 42 "int" 2 0 1) (mkPtok 2 "{" 3 0 3) [(mkFieldWithAttr (mkSpan (mkPtok 36 "repeat" 3 2 4) (mkPtok 40 "," 17 0 39)) [] (InerObjectField (mkSpan (mkPtok 36 "repeat" 3 2 4) (mkPtok 40 "," 17 0 39)) (Some (mkPtok 36 "repeat" 3 2 4)) (InerObjectDecl (mkSpan (mkPtok 42 "MetaDataX" 4 0 6) (mkPtok 3 "}" 16 0 37)) (mkPtok 42 "MetaDataX" 4 0 6) (mkPtok 2 "{" 5 0 8) [(InerObjectField (mkSpan (mkPtok 42 "pack" 6 0 10) (mkPtok 40 "," 15 2 36)) None (InerObjectDecl (mkSpan (mkPtok 42 "pack" 6 0 10) (mkPtok 3 "}" 15 0 35)) (mkPtok 42 "pack" 6 0 10) (mkPtok 2 "{" 7 4 11) [(InerObjectField (mkSpan (mkPtok 36 "repeat" 7 6 12) (mkPtok 40 "," 13 4 31)) (Some (mkPtok 36 "repeat" 7 6 12)) (InerObjectDecl (mkSpan (mkPtok 42 "Pad" 7 13 13) (mkPtok 3 "}" 13 2 30)) (mkPtok 42 "Pad" 7 13 13) (mkPtok 2 "{" 7 17 14) [(MetaField (mkSpan (mkPtok 24 "i8" 7 19 15) (mkPtok 40 "," 8 0 17)) None (mkMetaDecl (mkSpan (mkPtok 24 "i8" 7 19 15) (mkPtok 40 "," 8 0 17)) (TyBasic (mkSpan (mkPtok 24 "i8" 7 19 15) (mkPtok 24 "i8" 7 19 15)) (mkBasicType (mkSpan (mkPtok 24 "i8" 7 19 15) (mkPtok 24 "i8" 7 19 15)) (mkPtok 24 "i8" 7 19 15))) (mkPtok 42 "MetaDataX" 7 22 16) None (mkPtok 40 "," 8 0 17))); (ObjectField (mkSpan (mkPtok 36 "repeat" 8 2 18) (mkPtok 40 "," 8 22 21)) (Some (mkPtok 36 "repeat" 8 2 18)) (mkPtok 42 "pack" 8 9 19) (Some (mkPtok 42 "trueish" 8 14 20)) None (mkPtok 40 "," 8 22 21)); (ObjectField (mkSpan (mkPtok 42 "u" 9 0 22) (mkPtok 40 "," 11 14 26)) None (mkPtok 42 "u" 9 0 22) (Some (mkPtok 42 "charz" 11 4 24)) (Some (mkPtok 43 (string_of_bytes [96; 195; 169; 96]%N) 11 10 25)) (mkPtok 40 "," 11 14 26)); (MetaField (mkSpan (mkPtok 15 "string" 11 15 27) (mkPtok 40 "," 13 0 29)) None (mkMetaDecl (mkSpan (mkPtok 15 "string" 11 15 27) (mkPtok 40 "," 13 0 29)) (TyDynamic (mkSpan (mkPtok 15 "string" 11 15 27) (mkPtok 15 "string" 11 15 27)) (mkDynamicString (mkSpan (mkPtok 15 "string" 11 15 27) (mkPtok 15 "string" 11 15 27)) (mkPtok 15 "string" 11 15 27))) (mkPtok 42 "int" 12 0 28) None (mkPtok 40 "," 13 0 29)))] (mkPtok 3 "}" 13 2 30)) (mkPtok 40 "," 13 4 31)); (MetaField (mkSpan (mkPtok 29 "f64" 13 6 32) (mkPtok 40 "," 14 4 34)) None (mkMetaDecl (mkSpan (mkPtok 29 "f64" 13 6 32) (mkPtok 40 "," 14 4 34)) (TyBasic (mkSpan (mkPtok 29 "f64" 13 6 32) (mkPtok 29 "f64" 13 6 32)) (mkBasicType (mkSpan (mkPtok 29 "f64" 13 6 32) (mkPtok 29 "f64" 13 6 32)) (mkPtok 29 "f64" 13 6 32))) (mkPtok 42 "Z9_" 13 10 33) None (mkPtok 40 "," 14 4 34)))] (mkPtok 3 "}" 15 0 35)) (mkPtok 40 "," 15 2 36))] (mkPtok 3 "}" 16 0 37)) (mkPtok 40 "," 17 0 39)))] (mkPtok 3 "}" 17 2 40))); (DPacket (mkPacketDef (mkSpan (mkPtok 35 "packet" 17 4 41) (mkPtok 3 "}" 36 4 107)) None (mkPtok 35 "packet" 17 4 41) (mkPtok 42 "trueish" 17 11 42) (mkPtok 2 "{" 17 19 43) [(mkFieldWithAttr (mkSpan (mkPtok 7 "@lengthOf(" 18 0 44) (mkPtok 40 "," 20 11 50)) [(FALengthOf (mkSpan (mkPtok 7 "@lengthOf(" 18 0 44) (mkPtok 6 ")" 19 5 46)) (mkLengthOf (mkSpan (mkPtok 7 "@lengthOf(" 18 0 44) (mkPtok 6 ")" 19 5 46)) (mkPtok 7 "@lengthOf(" 18 0 44) (mkPtok 42 "u" 19 4 45) (mkPtok 6 ")" 19 5 46)))] (MetaField (mkSpan (mkPtok 20 "uint8" 19 6 47) (mkPtok 40 "," 20 11 50)) None (mkMetaDecl (mkSpan (mkPtok 20 "uint8" 19 6 47) (mkPtok 40 "," 20 11 50)) (TyBasic (mkSpan (mkPtok 20 "uint8" 19 6 47) (mkPtok 20 "uint8" 19 6 47)) (mkBasicType (mkSpan (mkPtok 20 "uint8" 19 6 47) (mkPtok 20 "uint8" 19 6 47)) (mkPtok 20 "uint8" 19 6 47))) (mkPtok 42 "metadata" 19 12 48) (Some (mkPtok 43 (string_of_bytes [96; 230; 182; 136; 230; 129; 175; 231; 177; 187; 229; 158; 139; 96]%N) 20 4 49)) (mkPtok 40 "," 20 11 50)))); (mkFieldWithAttr (mkSpan (mkPtok 38 "match" 20 13 51) (mkPtok 40 "," 33 7 91)) [] (MatchField (mkSpan (mkPtok 38 "match" 20 13 51) (mkPtok 40 "," 33 7 91)) (mkMatchFieldDecl (mkSpan (mkPtok 38 "match" 20 13 51) (mkPtok 3 "}" 33 6 90)) (mkPtok 38 "match" 20 13 51) (mkPtok 42 "uint8x" 20 19 52) (mkPtok 17 "as" 21 0 53) (mkPtok 42 "roots" 21 3 54) (mkPtok 2 "{" 22 0 55) [(mkMatchPair (mkSpan (mkPtok 31 (string_of_bytes [34; 195; 169; 116; 195; 169; 34]%N) 22 2 56) (mkPtok 42 "Pad" 23 4 58)) (MKString (mkPtok 31 (string_of_bytes [34; 195; 169; 116; 195; 169; 34]%N) 22 2 56)) (mkPtok 39 ":" 22 7 57) (mkPtok 42 "Pad" 23 4 58) None); (mkMatchPair (mkSpan (mkPtok 30 "0123456789" 23 8 59) (mkPtok 42 "msg_type" 24 2 61)) (MKDigits (mkPtok 30 "0123456789" 23 8 59)) (mkPtok 39 ":" 24 0 60) (mkPtok 42 "msg_type" 24 2 61) None); (mkMatchPair (mkSpan (mkPtok 18 "[" 25 0 63) (mkPtok 40 "," 27 4 73)) (MKList (mkKeyList (mkSpan (mkPtok 18 "[" 25 0 63) (mkPtok 13 "]" 25 13 69)) (mkPtok 18 "[" 25 0 63) (mkPtok 31 """1""" 25 2 64) [((mkPtok 40 "," 25 6 65), (mkPtok 30 "0" 25 8 66)); ((mkPtok 40 "," 25 10 67), (mkPtok 30 "10" 25 11 68))] (mkPtok 13 "]" 25 13 69))) (mkPtok 39 ":" 26 0 71) (mkPtok 42 "pack" 27 0 72) (Some (mkPtok 40 "," 27 4 73))); (mkMatchPair (mkSpan (mkPtok 18 "[" 28 0 74) (mkPtok 40 "," 29 0 81)) (MKList (mkKeyList (mkSpan (mkPtok 18 "[" 28 0 74) (mkPtok 13 "]" 28 17 78)) (mkPtok 18 "[" 28 0 74) (mkPtok 31 """it's""" 28 2 75) [((mkPtok 40 "," 28 9 76), (mkPtok 31 (string_of_bytes [34; 92; 195; 169; 34]%N) 28 12 77))] (mkPtok 13 "]" 28 17 78))) (mkPtok 39 ":" 28 19 79) (mkPtok 42 "u8x" 28 20 80) (Some (mkPtok 40 "," 29 0 81))); (mkMatchPair (mkSpan (mkPtok 18 "[" 29 2 82) (mkPtok 40 "," 33 4 89)) (MKList (mkKeyList (mkSpan (mkPtok 18 "[" 29 2 82) (mkPtok 13 "]" 30 11 85)) (mkPtok 18 "[" 29 2 82) (mkPtok 30 "0123456789" 30 0 84) [] (mkPtok 13 "]" 30 11 85))) (mkPtok 39 ":" 30 13 86) (mkPtok 42 "MetaDataX" 31 0 87) (Some (mkPtok 40 "," 33 4 89)))] (mkPtok 3 "}" 33 6 90)) (mkPtok 40 "," 33 7 91))); (mkFieldWithAttr (mkSpan (mkPtok 14 "zchar[" 33 8 92) (mkPtok 40 "," 33 45 99)) [] (LengthField (mkSpan (mkPtok 14 "zchar[" 33 8 92) (mkPtok 40 "," 33 45 99)) (mkLengthFieldDecl (mkSpan (mkPtok 14 "zchar[" 33 8 92) (mkPtok 40 "," 33 45 99)) (Some (TyFixed (mkSpan (mkPtok 14 "zchar[" 33 8 92) (mkPtok 13 "]" 33 18 94)) (mkFixedString (mkSpan (mkPtok 14 "zchar[" 33 8 92) (mkPtok 13 "]" 33 18 94)) (mkPtok 14 "zchar[" 33 8 92) (mkPtok 30 "00" 33 15 93) (mkPtok 13 "]" 33 18 94)))) (mkPtok 42 "pack" 33 20 95) (mkLengthOf (mkSpan (mkPtok 7 "@lengthOf(" 33 25 96) (mkPtok 6 ")" 33 44 98)) (mkPtok 7 "@lengthOf(" 33 25 96) (mkPtok 42 "string_" 33 36 97) (mkPtok 6 ")" 33 44 98)) None (mkPtok 40 "," 33 45 99)))); (mkFieldWithAttr (mkSpan (mkPtok 9 "@tag(" 34 0 101) (mkPtok 40 "," 35 14 106)) [(FATag (mkSpan (mkPtok 9 "@tag(" 34 0 101) (mkPtok 6 ")" 34 17 103)) (mkTagAttr (mkSpan (mkPtok 9 "@tag(" 34 0 101) (mkPtok 6 ")" 34 17 103)) (mkPtok 9 "@tag(" 34 0 101) (mkPtok 30 "4294967296" 34 6 102) (mkPtok 6 ")" 34 17 103)))] (ObjectField (mkSpan (mkPtok 42 "x_y_z" 35 0 104) (mkPtok 40 "," 35 14 106)) None (mkPtok 42 "x_y_z" 35 0 104) (Some (mkPtok 42 "string_" 35 6 105)) None (mkPtok 40 "," 35 14 106)))] (mkPtok 3 "}" 36 4 107))); (DOption (mkOptionDef (mkSpan (mkPtok 1 "options" 36 6 108) (mkPtok 3 "}" 37 26 117)) (mkPtok 1 "options" 36 6 108) (mkPtok 2 "{" 36 14 109) [(mkOptionDecl (mkSpan (mkPtok 42 "A" 36 15 110) (mkPtok 10 "true" 37 5 112)) (mkPtok 42 "A" 36 15 110) (mkPtok 4 "=" 37 4 111) (VTrue (mkSpan (mkPtok 10 "true" 37 5 112) (mkPtok 10 "true" 37 5 112)) (mkPtok 10 "true" 37 5 112)) None); (mkOptionDecl (mkSpan (mkPtok 42 "float" 37 10 113) (mkPtok 41 ";" 37 24 116)) (mkPtok 42 "float" 37 10 113) (mkPtok 4 "=" 37 17 114) (VString (mkSpan (mkPtok 31 (string_of_bytes [34; 230; 182; 136; 230; 129; 175; 34]%N) 37 19 115) (mkPtok 31 (string_of_bytes [34; 230; 182; 136; 230; 129; 175; 34]%N) 37 19 115)) (mkPtok 31 (string_of_bytes [34; 230; 182; 136; 230; 129; 175; 34]%N) 37 19 115)) (Some (mkPtok 41 ";" 37 24 116)))] (mkPtok 3 "}" 37 26 117))); (DMeta (mkMetaDef (mkSpan (mkPtok 37 "MetaData" 38 0 118) (mkPtok 3 "}" 45 22 140)) (mkPtok 37 "MetaData" 38 0 118) (mkPtok 42 "Header" 38 9 119) (mkPtok 2 "{" 38 16 120) [(MIDecl (mkMetaDecl (mkSpan (mkPtok 14 "zchar[" 38 18 121) (mkPtok 40 "," 41 0 127)) (TyFixed (mkSpan (mkPtok 14 "zchar[" 38 18 121) (mkPtok 13 "]" 40 0 125)) (mkFixedString (mkSpan (mkPtok 14 "zchar[" 38 18 121) (mkPtok 13 "]" 40 0 125)) (mkPtok 14 "zchar[" 38 18 121) (mkPtok 30 "7" 39 0 123) (mkPtok 13 "]" 40 0 125))) (mkPtok 42 "u128" 40 1 126) None (mkPtok 40 "," 41 0 127))); (MIDecl (mkMetaDecl (mkSpan (mkPtok 16 "char[]" 41 2 128) (mkPtok 40 "," 44 2 132)) (TyDynamic (mkSpan (mkPtok 16 "char[]" 41 2 128) (mkPtok 16 "char[]" 41 2 128)) (mkDynamicString (mkSpan (mkPtok 16 "char[]" 41 2 128) (mkPtok 16 "char[]" 41 2 128)) (mkPtok 16 "char[]" 41 2 128))) (mkPtok 42 "u" 44 0 131) None (mkPtok 40 "," 44 2 132))); (MIRef (mkRefMetaDecl (mkSpan (mkPtok 42 "string_" 44 4 133) (mkPtok 40 "," 44 21 135)) (mkPtok 42 "string_" 44 4 133) (mkPtok 42 "metadata" 44 12 134) None (mkPtok 40 "," 44 21 135))); (MIDecl (mkMetaDecl (mkSpan (mkPtok 22 "uint32" 45 0 136) (mkPtok 40 "," 45 20 139)) (TyBasic (mkSpan (mkPtok 22 "uint32" 45 0 136) (mkPtok 22 "uint32" 45 0 136)) (mkBasicType (mkSpan (mkPtok 22 "uint32" 45 0 136) (mkPtok 22 "uint32" 45 0 136)) (mkPtok 22 "uint32" 45 0 136))) (mkPtok 42 "f32a" 45 7 137) (Some (mkPtok 43 "`u8 x,`" 45 12 138)) (mkPtok 40 "," 45 20 139)))] (mkPtok 3 "}" 45 22 140))); (DOption (mkOptionDef (mkSpan (mkPtok 1 "options" 45 24 141) (mkPtok 3 "}" 50 3 155)) (mkPtok 1 "options" 45 24 141) (mkPtok 2 "{" 45 31 142) [(mkOptionDecl (mkSpan (mkPtok 42 "roots" 46 0 144) (mkPtok 41 ";" 48 8 147)) (mkPtok 42 "roots" 46 0 144) (mkPtok 4 "=" 47 4 145) (VTrue (mkSpan (mkPtok 10 "true" 48 4 146) (mkPtok 10 "true" 48 4 146)) (mkPtok 10 "true" 48 4 146)) (Some (mkPtok 41 ";" 48 8 147))); (mkOptionDecl (mkSpan (mkPtok 42 "int" 49 0 148) (mkPtok 41 ";" 49 11 151)) (mkPtok 42 "int" 49 0 148) (mkPtok 4 "=" 49 4 149) (VFalse (mkSpan (mkPtok 11 "false" 49 5 150) (mkPtok 11 "false" 49 5 150)) (mkPtok 11 "false" 49 5 150)) (Some (mkPtok 41 ";" 49 11 151))); (mkOptionDecl (mkSpan (mkPtok 42 "string_" 49 13 152) (mkPtok 31 """""" 50 0 154)) (mkPtok 42 "string_" 49 13 152) (mkPtok 4 "=" 49 20 153) (VString (mkSpan (mkPtok 31 """""" 50 0 154) (mkPtok 31 """""" 50 0 154)) (mkPtok 31 """""" 50 0 154)) None)] (mkPtok 3 "}" 50 3 155)))])).
Eval vm_compute in ("<<<M30>>>" ++ check (runes_of_ascii "// `tick` ""quote"" 'q'
MetaData
    pack {
string MetaDataX , //
zchar[ 65535
] i8i8, pack rootA	`say ""hi""` ,
    string_ Header `crlf
line` ,
int64
string_ ,
/// triple
//	t
char[]
packetx
,	} options
    { trueish
= ' '
; i64_ =
i16 pack = u16
;
len =false }	MetaData i64_{ }")).
Eval vm_compute in ("<<<M40>>>" ++ check (runes_of_ascii "packet As
{//
@lengthOf(trueish ) uint8
    repeatCount	,
} options// c
{As =	""1""matchKey
=""x y"" ;
Packet = ' '  }MetaData repeatCount { string BodyLength `{ , }` , char[
    0123456789 ]//	t
trueish
    ,
uint16 A, u32 falsey `two words`
, } packet
float{// c
}

")).
Eval vm_compute in ("<<<M50>>>" ++ check (runes_of_ascii "  options { zchar =  007
Header =
char[// c
007 ] ;
    lengthOf= char[
7 ]; chars =//
"""" // a // b
;
}
")).
Eval vm_compute in ("<<<M60>>>" ++ check (runes_of_ascii "root packet chars { /// triple
int16 trueish	@lengthOf( MetaDataX)
`tab	here`,} MetaData
T
// a // b
// c
{
    int64 packetx `doc`
    // @lengthOf(
    ,}")).
Eval vm_compute in ("<<<M70>>>" ++ check (runes_of_ascii "MetaData
len { i8 BodyLength , u32
    u `tab	here`,
    // `tick` ""quote"" 'q'
    calculatedFrom	asx `" ++ [28040; 24687; 31867; 22411]%N ++ runes_of_ascii "` /// triple
,
Logon Packet `// not a comment`
    ,
    } //
root packet string_ { zchar[ 00
]
options1	, match
x_y_z as msg_type{	""it's""
    // c
    :  T 0123456789: a1 10 :
trueish
, } ,} packet
len { int64 crc ,  body {
f64 leftPad , a1, }
    , repeat uint8x {repeat f32
string_`" ++ [28040; 24687; 31867; 22411]%N ++ runes_of_ascii "`
    , int8 T @calculatedFrom( """"
    ) `line1
line2` ,
uint8 repeatCount	,
} , u64 Foo `line1
line2`	, @tag(1 ) repeat
matchKey
{ i8	x_y_z @lengthOf(Z9_ )// packet A { u8 x, }
`tab	here` , calculatedFrom
trueish// trailing space 
, uint16 charz
    // packet A { u8 x, }
    @calculatedFrom(
    ""{,}"" )`line1
line2`	, } ,
// @lengthOf(
//
uint32
    metadata, @lengthOf( msg_type )repeat Packet { zchar[
255
]u8x @calculatedFrom( ""x y"")
//
// packet A { u8 x, }
`crlf
line`	, repeat
// `tick` ""quote"" 'q'
//
u128 ,// packet A { u8 x, }
float64 int ,
    repeat Header	{ char[ 42 ]roots
    @calculatedFrom(
    //	t
    ""CRC32"") `two words`,
roots @calculatedFrom( ""a	b"" ) `two words`
// packet A { u8 x, }
// c
, u32
    // c
    packetx
@lengthOf( roots
) , repeat float	BodyLength	`" ++ [233]%N ++ runes_of_ascii "` , } , }	,match
float
as A
{	[ 7 , ""a	b"" ]
:	Header ,[
007	, ""1""
    ]
// @lengthOf(
// @lengthOf(
: charz
    , ""\" ++ [233]%N ++ runes_of_ascii """ : i8i8 00 :	charz // packet A { u8 x, }
42	:i64_
, } , match
// `tick` ""quote"" 'q'
//
uint8x as u8x{ 255 :
    int } ,	}
")).
Eval vm_compute in ("<<<M80>>>" ++ check (runes_of_ascii "packet stringy
{  @calculatedFrom(""a	b""
)uint8x,}
// @lengthOf(
// @lengthOf(
root packet  i8i8
{ @lengthOf( options1
) @tag( 0 )
    repeat
metadata _x `" ++ [233]%N ++ runes_of_ascii "`	, repeat
i8i8`
` // a // b
,
repeat  char[ //x
3 ]o , // " ++ [128512]%N ++ runes_of_ascii " emoji
@calculatedFrom(""a	b""
) repeat
    u16 x `doc`
,string_
`tab	here`  , @calculatedFrom(
    """ ++ [233]%N ++ runes_of_ascii "t" ++ [233]%N ++ runes_of_ascii """)@tag(	4294967296)
repeat Logon stringy , } root
    packet
    tag { }")).
Eval vm_compute in ("<<<M90>>>" ++ check (runes_of_ascii "
// c
")).
Eval vm_compute in ("<<<T90>>>" ++ terms [mkTok 44 "// c" 2 0 true; mkTok 0 "<EOF>" 3 0 false] (mkPacket (mkPtok 0 "<EOF>" 3 0 1) None [])).
Eval vm_compute in ("<<<M100>>>" ++ check (runes_of_ascii "root packet Logon {
    zchar[ 65535
]
uint8x ,@leftPad ()repeat f32
    Packet , @leftPad ( ' '
//x
//	t
) match i8i8 as  body// a // b
{ 65535 : MetaDataX ,
    007
    : Packet
}
,  @calculatedFrom(""packet"")uint8x ,Foo@lengthOf( asx
    //	t
    )
, i64 int , //
@leftPad ( ' ' ) repeat rootA {
int32 zchar
,match stringy  as MetaDataX
    { [ """ ++ [28040; 24687]%N ++ runes_of_ascii """  , 10 ,42 , ""a\""b"" ,	42 ,7]: msg_type ,[
    42 ]	:stringy , ""a\\"" :
Header  255 : calculatedFrom
    //	t
    ,
// a // b
/// triple
[ 007// " ++ [27880; 37322]%N ++ runes_of_ascii "
]
    :
/// triple
//x
MetaDataX , ""a\""b""
    //	t
    ://
stringy // " ++ [128512]%N ++ runes_of_ascii " emoji
, } , char[ 007  ] int @lengthOf(
    o
    )`" ++ [233]%N ++ runes_of_ascii "` // `tick` ""quote"" 'q'
,
// trailing space 
//x
}	, @leftPad (
//
// @lengthOf(
)@lengthOf(
    metadata )match
asx
as leftPad { ""x y""
:
matchKey // packet A { u8 x, }
} // " ++ [27880; 37322]%N ++ runes_of_ascii "
,
    repeat  leftPad `say ""hi""` ,char[//	t
65535// c
] // a // b
Packet , } root packet // a // b
x_y_z { match uint8x as As
    { [0123456789 ] : T
    65535
    :	x_y_z ""\n""
    //
    : u,
    4294967296 :  Packet	[ 65535  ]: T ,
    255 : uint8x },int32 Packet  `tab	here` , @calculatedFrom( """"
) @calculatedFrom(
    ""a\\"" ) u64 repeatCount
    @calculatedFrom( """" ) , Header
zchar
`doc` ,
match
_x as	metadata // " ++ [128512]%N ++ runes_of_ascii " emoji
{ [ 255 ,""1""	] : Logon [
""" ++ [233]%N ++ runes_of_ascii "t" ++ [233]%N ++ runes_of_ascii """ ,00, 65535
    ,	7 , 42	, 00	]
:
packetx , 4294967296 : stringy
    //	t
    ,}, char[00
    ] tag `doc` ,@lengthOf(
int )
string u
    ,  @tag( 007 ) int16 stringy , float64
    crc, @calculatedFrom( ""x y""  ) repeat u16 f32a ,}options  {	u128= ""CRC32"" options1 = // packet A { u8 x, }
false u8x= ""`tick`"";}")).
Eval vm_compute in ("<<<M110>>>" ++ check (runes_of_ascii "packet  matchKey
{
    } options{ int = ""a\\""
; lengthOf //	t
= ""it's"" } MetaData lengthOf { Pad  tag
    , } root packet
    x {int @lengthOf(	pack )
`a\` //
, string matchKey
@lengthOf( chars
    )  `" ++ [233]%N ++ runes_of_ascii "` , repeat repeatCount
//x
//
{
    // packet A { u8 x, }
    match x_y_z as A
    {""1"": o	,
// packet A { u8 x, }
// `tick` ""quote"" 'q'
7 :uint8x
// `tick` ""quote"" 'q'
//	t
, [
// `tick` ""quote"" 'q'
// " ++ [128512]%N ++ runes_of_ascii " emoji
65535 , """"
] ://
Header """ ++ [233]%N ++ runes_of_ascii "t" ++ [233]%N ++ runes_of_ascii """ :  u8x
    """ ++ [28040; 24687]%N ++ runes_of_ascii """ : charz 65535 :
stringy }// " ++ [128512]%N ++ runes_of_ascii " emoji
,	zchar[007]	uint8x ,f32 repeatCount @lengthOf( // c
float) `two words` , f64 A  `u8 x,`	,
}, }
    packet Header{ }
")).
Eval vm_compute in ("<<<M120>>>" ++ check (runes_of_ascii "
MetaData stringy
{
    i16
    f32a , string  crc `crlf
line`
, f32 o `doc` , float64
calculatedFrom , }	packet o
{ @leftPad // `tick` ""quote"" 'q'
( )string_
    @lengthOf(packetx // `tick` ""quote"" 'q'
), }
")).
Eval vm_compute in ("<<<M130>>>" ++ check (runes_of_ascii "options {
// a // b
// trailing space 
Pad
    =
// " ++ [128512]%N ++ runes_of_ascii " emoji
// " ++ [128512]%N ++ runes_of_ascii " emoji
false Logon = uint32 ; // " ++ [128512]%N ++ runes_of_ascii " emoji
x_y_z =
    1 }
    MetaData
// `tick` ""quote"" 'q'
//	t
_x
    {
    uint32
stringy ,
zchar[ 42
    ] A,
} packet A {
    match As as string_/// triple
{ 0 :
/// triple
// `tick` ""quote"" 'q'
Z9_ ,}
,  @lengthOf(
    Z9_ )@lengthOf( x_y_z )As
    @lengthOf( As )
`doc` ,
u64 calculatedFrom	@calculatedFrom(
""abc"")
`// not a comment` , // c
Packet //	t
string_ ,
    // trailing space 
    @lengthOf(  Z9_
    ) Z9_ @lengthOf( body)// trailing space 
,
calculatedFrom
BodyLength , @lengthOf( msg_type
)repeat
char tag `it's` ,
}
    packet zchar { @leftPad (
//x
//
)
    repeat zchar[ 3 ]Z9_
, } // `tick` ""quote"" 'q'
packet chars { @lengthOf( Z9_ ) repeat string crc , string MetaDataX ,@calculatedFrom( """"
    )
x
    ,
u8x//
, @tag(10 ) match
    falsey as	tag {""CRC32""	: x
    , /// triple
} //	t
,
x_y_z`tab	here`
,
@rightPad(
'0'
)int16
Logon
    ,trueish
, @rightPad
( )
_x @calculatedFrom(
""packet""// c
), } // @lengthOf(")).
Eval vm_compute in ("<<<M140>>>" ++ check (runes_of_ascii "packet As { options1
    { i16 o , } , i64 roots ,repeat char[] o
    `a\` , @calculatedFrom( ""1""//x
)  repeatCount	@lengthOf(/// triple
falsey /// triple
)
// packet A { u8 x, }
// " ++ [128512]%N ++ runes_of_ascii " emoji
`a\` ,
@lengthOf( stringy ) char[]	As
`" ++ [233]%N ++ runes_of_ascii "` ,
asx {match msg_type as
chars { //	t
00: metadata
    // `tick` ""quote"" 'q'
    , }
    , i8 pack// c
@calculatedFrom(
    /// triple
    ""x y"" )
// trailing space 
// a // b
,//	t
match u8x as	rootA{
""1"": a1
, [
    // packet A { u8 x, }
    4294967296 ]
:msg_type
//
//x
,
}
, } // a // b
, @calculatedFrom(
""" ++ [233]%N ++ runes_of_ascii "t" ++ [233]%N ++ runes_of_ascii """ ) int16 roots ,
    @tag(1 )	@leftPad ( '0' ) @rightPad // " ++ [27880; 37322]%N ++ runes_of_ascii "
( '\x00'
)i32 asx `tab	here`	,char Logon `u8 x,` // trailing space 
,  }
root	packet string_ {// @lengthOf(
}packet Z9_ { int8 _x
, repeat u8 uint8x `" ++ [233]%N ++ runes_of_ascii "`
,
float64 x_y_z @calculatedFrom(	""x y"" )
    , @calculatedFrom(	""a\""b"" ) @calculatedFrom( ""a\""b"" )
    int
{zchar[255
] //
msg_type,  i64_
    // trailing space 
    {
    stringy @lengthOf(x_y_z )
    , u
    options1
    //
    `tab	here` ,
char[0123456789 ] msg_type ,float32
    Foo `{ , }`
    , } , } ,  @tag(	0
)
    @calculatedFrom( ""CRC32"" ) charz , @tag(
    // @lengthOf(
    4294967296 )
i64 packetx ,  } //	t")).
Eval vm_compute in ("<<<M150>>>" ++ check (runes_of_ascii "MetaData Pad{	x_y_z
    // packet A { u8 x, }
    T ,
    }
")).
Eval vm_compute in ("<<<M160>>>" ++ check (runes_of_ascii "options
// packet A { u8 x, }
/// triple
{	}MetaData	zchar// @lengthOf(
{
    A i64_
`crlf
line` , char[]string_ `
` , Packet
stringy `a\` , // `tick` ""quote"" 'q'
char[ 1] i8i8 // @lengthOf(
,float32
options1 `{ , }` ,} packet
    a1{@lengthOf( o ) //x
o { calculatedFrom @calculatedFrom(
    //x
    ""a\\""
) , } , @lengthOf(
a1) repeat i8i8
    stringy ,int8	pack , @lengthOf( u8x
    ) string
packetx @calculatedFrom( ""`tick`"" ) `` , @lengthOf( Header ) @tag( 0123456789 ) @calculatedFrom(
""CRC32"" ) repeat BodyLength `two words` , @lengthOf( T)  zchar[ 1//
] repeatCount@lengthOf( o	) ,
    match // " ++ [128512]%N ++ runes_of_ascii " emoji
As as options1 { ""1"":
    o, ""a\\"": crc
,[ 0123456789, ""a	b"" // `tick` ""quote"" 'q'
, """ ++ [128512]%N ++ runes_of_ascii """ ,	65535
, """ ++ [128512]%N ++ runes_of_ascii """
    // `tick` ""quote"" 'q'
    ,  ""1""	,
00 ] : x , [ ""abc""	,
""\n""
, 4294967296 ,
10 ,
    //x
    0123456789
,	42 , """ ++ [128512]%N ++ runes_of_ascii """, 3 ] :
    // " ++ [128512]%N ++ runes_of_ascii " emoji
    msg_type } , match
u8x as
lengthOf
    { [""x y"" , ""{,}""// a // b
] :	asx // `tick` ""quote"" 'q'
4294967296  : chars,
    ""CRC32"" : a1 ""a	b"" :metadata ,  7 : zchar  , }
, }")).
Eval vm_compute in ("<<<T160>>>" ++ terms [mkTok 1 "options" 1 0 false; mkTok 44 "// packet A { u8 x, }" 2 0 true; mkTok 44 "/// triple" 3 0 true; mkTok 2 "{" 4 0 false; mkTok 3 "}" 4 2 false; mkTok 37 "MetaData" 4 3 false; mkTok 42 "zchar" 4 12 false; mkTok 44 "// @lengthOf(" 4 17 true; mkTok 2 "{" 5 0 false; mkTok 42 "A" 6 4 false; mkTok 42 "i64_" 6 6 false; mkTok 43 (string_of_bytes [96; 99; 114; 108; 102; 13; 10; 108; 105; 110; 101; 96]%N) 7 0 false; mkTok 40 "," 8 6 false; mkTok 16 "char[]" 8 8 false; mkTok 42 "string_" 8 14 false; mkTok 43 (string_of_bytes [96; 10; 96]%N) 8 22 false; mkTok 40 "," 9 2 false; mkTok 42 "Packet" 9 4 false; mkTok 42 "stringy" 10 0 false; mkTok 43 "`a\`" 10 8 false; mkTok 40 "," 10 13 false; mkTok 44 "// `tick` ""quote"" 'q'" 10 15 true; mkTok 12 "char[" 11 0 false; mkTok 30 "1" 11 6 false; mkTok 13 "]" 11 7 false; mkTok 42 "i8i8" 11 9 false; mkTok 44 "// @lengthOf(" 11 14 true; mkTok 40 "," 12 0 false; mkTok 28 "float32" 12 1 false; mkTok 42 "options1" 13 0 false; mkTok 43 "`{ , }`" 13 9 false; mkTok 40 "," 13 17 false; mkTok 3 "}" 13 18 false; mkTok 35 "packet" 13 20 false; mkTok 42 "a1" 14 4 false; mkTok 2 "{" 14 6 false; mkTok 7 "@lengthOf(" 14 7 false; mkTok 42 "o" 14 18 false; mkTok 6 ")" 14 20 false; mkTok 44 "//x" 14 22 true; mkTok 42 "o" 15 0 false; mkTok 2 "{" 15 2 false; mkTok 42 "calculatedFrom" 15 4 false; mkTok 5 "@calculatedFrom(" 15 19 false; mkTok 44 "//x" 16 4 true; mkTok 31 """a\\""" 17 4 false; mkTok 6 ")" 18 0 false; mkTok 40 "," 18 2 false; mkTok 3 "}" 18 4 false; mkTok 40 "," 18 6 false; mkTok 7 "@lengthOf(" 18 8 false; mkTok 42 "a1" 19 0 false; mkTok 6 ")" 19 2 false; mkTok 36 "repeat" 19 4 false; mkTok 42 "i8i8" 19 11 false; mkTok 42 "stringy" 20 4 false; mkTok 40 "," 20 12 false; mkTok 24 "int8" 20 13 false; mkTok 42 "pack" 20 18 false; mkTok 40 "," 20 23 false; mkTok 7 "@lengthOf(" 20 25 false; mkTok 42 "u8x" 20 36 false; mkTok 6 ")" 21 4 false; mkTok 15 "string" 21 6 false; mkTok 42 "packetx" 22 0 false; mkTok 5 "@calculatedFrom(" 22 8 false; mkTok 31 """`tick`""" 22 25 false; mkTok 6 ")" 22 34 false; mkTok 43 "``" 22 36 false; mkTok 40 "," 22 39 false; mkTok 7 "@lengthOf(" 22 41 false; mkTok 42 "Header" 22 52 false; mkTok 6 ")" 22 59 false; mkTok 9 "@tag(" 22 61 false; mkTok 30 "0123456789" 22 67 false; mkTok 6 ")" 22 78 false; mkTok 5 "@calculatedFrom(" 22 80 false; mkTok 31 """CRC32""" 23 0 false; mkTok 6 ")" 23 8 false; mkTok 36 "repeat" 23 10 false; mkTok 42 "BodyLength" 23 17 false; mkTok 43 "`two words`" 23 28 false; mkTok 40 "," 23 40 false; mkTok 7 "@lengthOf(" 23 42 false; mkTok 42 "T" 23 53 false; mkTok 6 ")" 23 54 false; mkTok 14 "zchar[" 23 57 false; mkTok 30 "1" 23 64 false; mkTok 44 "//" 23 65 true; mkTok 13 "]" 24 0 false; mkTok 42 "repeatCount" 24 2 false; mkTok 7 "@lengthOf(" 24 13 false; mkTok 42 "o" 24 24 false; mkTok 6 ")" 24 26 false; mkTok 40 "," 24 28 false; mkTok 38 "match" 25 4 false; mkTok 44 (string_of_bytes [47; 47; 32; 240; 159; 152; 128; 32; 101; 109; 111; 106; 105]%N) 25 10 true; mkTok 42 "As" 26 0 false; mkTok 17 "as" 26 3 false; mkTok 42 "options1" 26 6 false; mkTok 2 "{" 26 15 false; mkTok 31 """1""" 26 17 false; mkTok 39 ":" 26 20 false; mkTok 42 "o" 27 4 false; mkTok 40 "," 27 5 false; mkTok 31 """a\\""" 27 7 false; mkTok 39 ":" 27 12 false; mkTok 42 "crc" 27 14 false; mkTok 40 "," 28 0 false; mkTok 18 "[" 28 1 false; mkTok 30 "0123456789" 28 3 false; mkTok 40 "," 28 13 false; mkTok 31 (string_of_bytes [34; 97; 9; 98; 34]%N) 28 15 false; mkTok 44 "// `tick` ""quote"" 'q'" 28 21 true; mkTok 40 "," 29 0 false; mkTok 31 (string_of_bytes [34; 240; 159; 152; 128; 34]%N) 29 2 false; mkTok 40 "," 29 6 false; mkTok 30 "65535" 29 8 false; mkTok 40 "," 30 0 false; mkTok 31 (string_of_bytes [34; 240; 159; 152; 128; 34]%N) 30 2 false; mkTok 44 "// `tick` ""quote"" 'q'" 31 4 true; mkTok 40 "," 32 4 false; mkTok 31 """1""" 32 7 false; mkTok 40 "," 32 11 false; mkTok 30 "00" 33 0 false; mkTok 13 "]" 33 3 false; mkTok 39 ":" 33 5 false; mkTok 42 "x" 33 7 false; mkTok 40 "," 33 9 false; mkTok 18 "[" 33 11 false; mkTok 31 """abc""" 33 13 false; mkTok 40 "," 33 19 false; mkTok 31 """\n""" 34 0 false; mkTok 40 "," 35 0 false; mkTok 30 "4294967296" 35 2 false; mkTok 40 "," 35 13 false; mkTok 30 "10" 36 0 false; mkTok 40 "," 36 3 false; mkTok 44 "//x" 37 4 true; mkTok 30 "0123456789" 38 4 false; mkTok 40 "," 39 0 false; mkTok 30 "42" 39 2 false; mkTok 40 "," 39 5 false; mkTok 31 (string_of_bytes [34; 240; 159; 152; 128; 34]%N) 39 7 false; mkTok 40 "," 39 10 false; mkTok 30 "3" 39 12 false; mkTok 13 "]" 39 14 false; mkTok 39 ":" 39 16 false; mkTok 44 (string_of_bytes [47; 47; 32; 240; 159; 152; 128; 32; 101; 109; 111; 106; 105]%N) 40 4 true; mkTok 42 "msg_type" 41 4 false; mkTok 3 "}" 41 13 false; mkTok 40 "," 41 15 false; mkTok 38 "match" 41 17 false; mkTok 42 "u8x" 42 0 false; mkTok 17 "as" 42 4 false; mkTok 42 "lengthOf" 43 0 false; mkTok 2 "{" 44 4 false; mkTok 18 "[" 44 6 false; mkTok 31 """x y""" 44 7 false; mkTok 40 "," 44 13 false; mkTok 31 """{,}""" 44 15 false; mkTok 44 "// a // b" 44 20 true; mkTok 13 "]" 45 0 false; mkTok 39 ":" 45 2 false; mkTok 42 "asx" 45 4 false; mkTok 44 "// `tick` ""quote"" 'q'" 45 8 true; mkTok 30 "4294967296" 46 0 false; mkTok 39 ":" 46 12 false; mkTok 42 "chars" 46 14 false; mkTok 40 "," 46 19 false; mkTok 31 """CRC32""" 47 4 false; mkTok 39 ":" 47 12 false; mkTok 42 "a1" 47 14 false; mkTok 31 (string_of_bytes [34; 97; 9; 98; 34]%N) 47 17 false; mkTok 39 ":" 47 23 false; mkTok 42 "metadata" 47 24 false; mkTok 40 "," 47 33 false; mkTok 30 "7" 47 36 false; mkTok 39 ":" 47 38 false; mkTok 42 "zchar" 47 40 false; mkTok 40 "," 47 47 false; mkTok 3 "}" 47 49 false; mkTok 40 "," 48 0 false; mkTok 3 "}" 48 2 false; mkTok 0 "<EOF>" 48 3 false] (mkPacket (mkPtok 1 "options" 1 0 0) (Some (mkPtok 3 "}" 48 2 183)) [(DOption (mkOptionDef (mkSpan (mkPtok 1 "options" 1 0 0) (mkPtok 3 "}" 4 2 4)) (mkPtok 1 "options" 1 0 0) (mkPtok 2 "{" 4 0 3) [] (mkPtok 3 "}" 4 2 4))); (DMeta (mkMetaDef (mkSpan (mkPtok 37 "MetaData" 4 3 5) (mkPtok 3 "}" 13 18 32)) (mkPtok 37 "MetaData" 4 3 5) (mkPtok 42 "zchar" 4 12 6) (mkPtok 2 "{" 5 0 8) [(MIRef (mkRefMetaDecl (mkSpan (mkPtok 42 "A" 6 4 9) (mkPtok 40 "," 8 6 12)) (mkPtok 42 "A" 6 4 9) (mkPtok 42 "i64_" 6 6 10) (Some (mkPtok 43 (string_of_bytes [96; 99; 114; 108; 102; 13; 10; 108; 105; 110; 101; 96]%N) 7 0 11)) (mkPtok 40 "," 8 6 12))); (MIDecl (mkMetaDecl (mkSpan (mkPtok 16 "char[]" 8 8 13) (mkPtok 40 "," 9 2 16)) (TyDynamic (mkSpan (mkPtok 16 "char[]" 8 8 13) (mkPtok 16 "char[]" 8 8 13)) (mkDynamicString (mkSpan (mkPtok 16 "char[]" 8 8 13) (mkPtok 16 "char[]" 8 8 13)) (mkPtok 16 "char[]" 8 8 13))) (mkPtok 42 "string_" 8 14 14) (Some (mkPtok 43 (string_of_bytes [96; 10; 96]%N) 8 22 15)) (mkPtok 40 "," 9 2 16))); (MIRef (mkRefMetaDecl (mkSpan (mkPtok 42 "Packet" 9 4 17) (mkPtok 40 "," 10 13 20)) (mkPtok 42 "Packet" 9 4 17) (mkPtok 42 "stringy" 10 0 18) (Some (mkPtok 43 "`a\`" 10 8 19)) (mkPtok 40 "," 10 13 20))); (MIDecl (mkMetaDecl (mkSpan (mkPtok 12 "char[" 11 0 22) (mkPtok 40 "," 12 0 27)) (TyFixed (mkSpan (mkPtok 12 "char[" 11 0 22) (mkPtok 13 "]" 11 7 24)) (mkFixedString (mkSpan (mkPtok 12 "char[" 11 0 22) (mkPtok 13 "]" 11 7 24)) (mkPtok 12 "char[" 11 0 22) (mkPtok 30 "1" 11 6 23) (mkPtok 13 "]" 11 7 24))) (mkPtok 42 "i8i8" 11 9 25) None (mkPtok 40 "," 12 0 27))); (MIDecl (mkMetaDecl (mkSpan (mkPtok 28 "float32" 12 1 28) (mkPtok 40 "," 13 17 31)) (TyBasic (mkSpan (mkPtok 28 "float32" 12 1 28) (mkPtok 28 "float32" 12 1 28)) (mkBasicType (mkSpan (mkPtok 28 "float32" 12 1 28) (mkPtok 28 "float32" 12 1 28)) (mkPtok 28 "float32" 12 1 28))) (mkPtok 42 "options1" 13 0 29) (Some (mkPtok 43 "`{ , }`" 13 9 30)) (mkPtok 40 "," 13 17 31)))] (mkPtok 3 "}" 13 18 32))); (DPacket (mkPacketDef (mkSpan (mkPtok 35 "packet" 13 20 33) (mkPtok 3 "}" 48 2 183)) None (mkPtok 35 "packet" 13 20 33) (mkPtok 42 "a1" 14 4 34) (mkPtok 2 "{" 14 6 35) [(mkFieldWithAttr (mkSpan (mkPtok 7 "@lengthOf(" 14 7 36) (mkPtok 40 "," 18 6 49)) [(FALengthOf (mkSpan (mkPtok 7 "@lengthOf(" 14 7 36) (mkPtok 6 ")" 14 20 38)) (mkLengthOf (mkSpan (mkPtok 7 "@lengthOf(" 14 7 36) (mkPtok 6 ")" 14 20 38)) (mkPtok 7 "@lengthOf(" 14 7 36) (mkPtok 42 "o" 14 18 37) (mkPtok 6 ")" 14 20 38)))] (InerObjectField (mkSpan (mkPtok 42 "o" 15 0 40) (mkPtok 40 "," 18 6 49)) None (InerObjectDecl (mkSpan (mkPtok 42 "o" 15 0 40) (mkPtok 3 "}" 18 4 48)) (mkPtok 42 "o" 15 0 40) (mkPtok 2 "{" 15 2 41) [(CheckSumField (mkSpan (mkPtok 42 "calculatedFrom" 15 4 42) (mkPtok 40 "," 18 2 47)) (mkChecksumFieldDecl (mkSpan (mkPtok 42 "calculatedFrom" 15 4 42) (mkPtok 40 "," 18 2 47)) None (mkPtok 42 "calculatedFrom" 15 4 42) (mkCalculatedFrom (mkSpan (mkPtok 5 "@calculatedFrom(" 15 19 43) (mkPtok 6 ")" 18 0 46)) (mkPtok 5 "@calculatedFrom(" 15 19 43) (mkPtok 31 """a\\""" 17 4 45) (mkPtok 6 ")" 18 0 46)) None (mkPtok 40 "," 18 2 47)))] (mkPtok 3 "}" 18 4 48)) (mkPtok 40 "," 18 6 49))); (mkFieldWithAttr (mkSpan (mkPtok 7 "@lengthOf(" 18 8 50) (mkPtok 40 "," 20 12 56)) [(FALengthOf (mkSpan (mkPtok 7 "@lengthOf(" 18 8 50) (mkPtok 6 ")" 19 2 52)) (mkLengthOf (mkSpan (mkPtok 7 "@lengthOf(" 18 8 50) (mkPtok 6 ")" 19 2 52)) (mkPtok 7 "@lengthOf(" 18 8 50) (mkPtok 42 "a1" 19 0 51) (mkPtok 6 ")" 19 2 52)))] (ObjectField (mkSpan (mkPtok 36 "repeat" 19 4 53) (mkPtok 40 "," 20 12 56)) (Some (mkPtok 36 "repeat" 19 4 53)) (mkPtok 42 "i8i8" 19 11 54) (Some (mkPtok 42 "stringy" 20 4 55)) None (mkPtok 40 "," 20 12 56))); (mkFieldWithAttr (mkSpan (mkPtok 24 "int8" 20 13 57) (mkPtok 40 "," 20 23 59)) [] (MetaField (mkSpan (mkPtok 24 "int8" 20 13 57) (mkPtok 40 "," 20 23 59)) None (mkMetaDecl (mkSpan (mkPtok 24 "int8" 20 13 57) (mkPtok 40 "," 20 23 59)) (TyBasic (mkSpan (mkPtok 24 "int8" 20 13 57) (mkPtok 24 "int8" 20 13 57)) (mkBasicType (mkSpan (mkPtok 24 "int8" 20 13 57) (mkPtok 24 "int8" 20 13 57)) (mkPtok 24 "int8" 20 13 57))) (mkPtok 42 "pack" 20 18 58) None (mkPtok 40 "," 20 23 59)))); (mkFieldWithAttr (mkSpan (mkPtok 7 "@lengthOf(" 20 25 60) (mkPtok 40 "," 22 39 69)) [(FALengthOf (mkSpan (mkPtok 7 "@lengthOf(" 20 25 60) (mkPtok 6 ")" 21 4 62)) (mkLengthOf (mkSpan (mkPtok 7 "@lengthOf(" 20 25 60) (mkPtok 6 ")" 21 4 62)) (mkPtok 7 "@lengthOf(" 20 25 60) (mkPtok 42 "u8x" 20 36 61) (mkPtok 6 ")" 21 4 62)))] (CheckSumField (mkSpan (mkPtok 15 "string" 21 6 63) (mkPtok 40 "," 22 39 69)) (mkChecksumFieldDecl (mkSpan (mkPtok 15 "string" 21 6 63) (mkPtok 40 "," 22 39 69)) (Some (TyDynamic (mkSpan (mkPtok 15 "string" 21 6 63) (mkPtok 15 "string" 21 6 63)) (mkDynamicString (mkSpan (mkPtok 15 "string" 21 6 63) (mkPtok 15 "string" 21 6 63)) (mkPtok 15 "string" 21 6 63)))) (mkPtok 42 "packetx" 22 0 64) (mkCalculatedFrom (mkSpan (mkPtok 5 "@calculatedFrom(" 22 8 65) (mkPtok 6 ")" 22 34 67)) (mkPtok 5 "@calculatedFrom(" 22 8 65) (mkPtok 31 """`tick`""" 22 25 66) (mkPtok 6 ")" 22 34 67)) (Some (mkPtok 43 "``" 22 36 68)) (mkPtok 40 "," 22 39 69)))); (mkFieldWithAttr (mkSpan (mkPtok 7 "@lengthOf(" 22 41 70) (mkPtok 40 "," 23 40 82)) [(FALengthOf (mkSpan (mkPtok 7 "@lengthOf(" 22 41 70) (mkPtok 6 ")" 22 59 72)) (mkLengthOf (mkSpan (mkPtok 7 "@lengthOf(" 22 41 70) (mkPtok 6 ")" 22 59 72)) (mkPtok 7 "@lengthOf(" 22 41 70) (mkPtok 42 "Header" 22 52 71) (mkPtok 6 ")" 22 59 72))); (FATag (mkSpan (mkPtok 9 "@tag(" 22 61 73) (mkPtok 6 ")" 22 78 75)) (mkTagAttr (mkSpan (mkPtok 9 "@tag(" 22 61 73) (mkPtok 6 ")" 22 78 75)) (mkPtok 9 "@tag(" 22 61 73) (mkPtok 30 "0123456789" 22 67 74) (mkPtok 6 ")" 22 78 75))); (FACalculatedFrom (mkSpan (mkPtok 5 "@calculatedFrom(" 22 80 76) (mkPtok 6 ")" 23 8 78)) (mkCalculatedFrom (mkSpan (mkPtok 5 "@calculatedFrom(" 22 80 76) (mkPtok 6 ")" 23 8 78)) (mkPtok 5 "@calculatedFrom(" 22 80 76) (mkPtok 31 """CRC32""" 23 0 77) (mkPtok 6 ")" 23 8 78)))] (ObjectField (mkSpan (mkPtok 36 "repeat" 23 10 79) (mkPtok 40 "," 23 40 82)) (Some (mkPtok 36 "repeat" 23 10 79)) (mkPtok 42 "BodyLength" 23 17 80) None (Some (mkPtok 43 "`two words`" 23 28 81)) (mkPtok 40 "," 23 40 82))); (mkFieldWithAttr (mkSpan (mkPtok 7 "@lengthOf(" 23 42 83) (mkPtok 40 "," 24 28 94)) [(FALengthOf (mkSpan (mkPtok 7 "@lengthOf(" 23 42 83) (mkPtok 6 ")" 23 54 85)) (mkLengthOf (mkSpan (mkPtok 7 "@lengthOf(" 23 42 83) (mkPtok 6 ")" 23 54 85)) (mkPtok 7 "@lengthOf(" 23 42 83) (mkPtok 42 "T" 23 53 84) (mkPtok 6 ")" 23 54 85)))] (LengthField (mkSpan (mkPtok 14 "zchar[" 23 57 86) (mkPtok 40 "," 24 28 94)) (mkLengthFieldDecl (mkSpan (mkPtok 14 "zchar[" 23 57 86) (mkPtok 40 "," 24 28 94)) (Some (TyFixed (mkSpan (mkPtok 14 "zchar[" 23 57 86) (mkPtok 13 "]" 24 0 89)) (mkFixedString (mkSpan (mkPtok 14 "zchar[" 23 57 86) (mkPtok 13 "]" 24 0 89)) (mkPtok 14 "zchar[" 23 57 86) (mkPtok 30 "1" 23 64 87) (mkPtok 13 "]" 24 0 89)))) (mkPtok 42 "repeatCount" 24 2 90) (mkLengthOf (mkSpan (mkPtok 7 "@lengthOf(" 24 13 91) (mkPtok 6 ")" 24 26 93)) (mkPtok 7 "@lengthOf(" 24 13 91) (mkPtok 42 "o" 24 24 92) (mkPtok 6 ")" 24 26 93)) None (mkPtok 40 "," 24 28 94)))); (mkFieldWithAttr (mkSpan (mkPtok 38 "match" 25 4 95) (mkPtok 40 "," 41 15 151)) [] (MatchField (mkSpan (mkPtok 38 "match" 25 4 95) (mkPtok 40 "," 41 15 151)) (mkMatchFieldDecl (mkSpan (mkPtok 38 "match" 25 4 95) (mkPtok 3 "}" 41 13 150)) (mkPtok 38 "match" 25 4 95) (mkPtok 42 "As" 26 0 97) (mkPtok 17 "as" 26 3 98) (mkPtok 42 "options1" 26 6 99) (mkPtok 2 "{" 26 15 100) [(mkMatchPair (mkSpan (mkPtok 31 """1""" 26 17 101) (mkPtok 40 "," 27 5 104)) (MKString (mkPtok 31 """1""" 26 17 101)) (mkPtok 39 ":" 26 20 102) (mkPtok 42 "o" 27 4 103) (Some (mkPtok 40 "," 27 5 104))); (mkMatchPair (mkSpan (mkPtok 31 """a\\""" 27 7 105) (mkPtok 40 "," 28 0 108)) (MKString (mkPtok 31 """a\\""" 27 7 105)) (mkPtok 39 ":" 27 12 106) (mkPtok 42 "crc" 27 14 107) (Some (mkPtok 40 "," 28 0 108))); (mkMatchPair (mkSpan (mkPtok 18 "[" 28 1 109) (mkPtok 40 "," 33 9 128)) (MKList (mkKeyList (mkSpan (mkPtok 18 "[" 28 1 109) (mkPtok 13 "]" 33 3 125)) (mkPtok 18 "[" 28 1 109) (mkPtok 30 "0123456789" 28 3 110) [((mkPtok 40 "," 28 13 111), (mkPtok 31 (string_of_bytes [34; 97; 9; 98; 34]%N) 28 15 112)); ((mkPtok 40 "," 29 0 114), (mkPtok 31 (string_of_bytes [34; 240; 159; 152; 128; 34]%N) 29 2 115)); ((mkPtok 40 "," 29 6 116), (mkPtok 30 "65535" 29 8 117)); ((mkPtok 40 "," 30 0 118), (mkPtok 31 (string_of_bytes [34; 240; 159; 152; 128; 34]%N) 30 2 119)); ((mkPtok 40 "," 32 4 121), (mkPtok 31 """1""" 32 7 122)); ((mkPtok 40 "," 32 11 123), (mkPtok 30 "00" 33 0 124))] (mkPtok 13 "]" 33 3 125))) (mkPtok 39 ":" 33 5 126) (mkPtok 42 "x" 33 7 127) (Some (mkPtok 40 "," 33 9 128))); (mkMatchPair (mkSpan (mkPtok 18 "[" 33 11 129) (mkPtok 42 "msg_type" 41 4 149)) (MKList (mkKeyList (mkSpan (mkPtok 18 "[" 33 11 129) (mkPtok 13 "]" 39 14 146)) (mkPtok 18 "[" 33 11 129) (mkPtok 31 """abc""" 33 13 130) [((mkPtok 40 "," 33 19 131), (mkPtok 31 """\n""" 34 0 132)); ((mkPtok 40 "," 35 0 133), (mkPtok 30 "4294967296" 35 2 134)); ((mkPtok 40 "," 35 13 135), (mkPtok 30 "10" 36 0 136)); ((mkPtok 40 "," 36 3 137), (mkPtok 30 "0123456789" 38 4 139)); ((mkPtok 40 "," 39 0 140), (mkPtok 30 "42" 39 2 141)); ((mkPtok 40 "," 39 5 142), (mkPtok 31 (string_of_bytes [34; 240; 159; 152; 128; 34]%N) 39 7 143)); ((mkPtok 40 "," 39 10 144), (mkPtok 30 "3" 39 12 145))] (mkPtok 13 "]" 39 14 146))) (mkPtok 39 ":" 39 16 147) (mkPtok 42 "msg_type" 41 4 149) None)] (mkPtok 3 "}" 41 13 150)) (mkPtok 40 "," 41 15 151))); (mkFieldWithAttr (mkSpan (mkPtok 38 "match" 41 17 152) (mkPtok 40 "," 48 0 182)) [] (MatchField (mkSpan (mkPtok 38 "match" 41 17 152) (mkPtok 40 "," 48 0 182)) (mkMatchFieldDecl (mkSpan (mkPtok 38 "match" 41 17 152) (mkPtok 3 "}" 47 49 181)) (mkPtok 38 "match" 41 17 152) (mkPtok 42 "u8x" 42 0 153) (mkPtok 17 "as" 42 4 154) (mkPtok 42 "lengthOf" 43 0 155) (mkPtok 2 "{" 44 4 156) [(mkMatchPair (mkSpan (mkPtok 18 "[" 44 6 157) (mkPtok 42 "asx" 45 4 164)) (MKList (mkKeyList (mkSpan (mkPtok 18 "[" 44 6 157) (mkPtok 13 "]" 45 0 162)) (mkPtok 18 "[" 44 6 157) (mkPtok 31 """x y""" 44 7 158) [((mkPtok 40 "," 44 13 159), (mkPtok 31 """{,}""" 44 15 160))] (mkPtok 13 "]" 45 0 162))) (mkPtok 39 ":" 45 2 163) (mkPtok 42 "asx" 45 4 164) None); (mkMatchPair (mkSpan (mkPtok 30 "4294967296" 46 0 166) (mkPtok 40 "," 46 19 169)) (MKDigits (mkPtok 30 "4294967296" 46 0 166)) (mkPtok 39 ":" 46 12 167) (mkPtok 42 "chars" 46 14 168) (Some (mkPtok 40 "," 46 19 169))); (mkMatchPair (mkSpan (mkPtok 31 """CRC32""" 47 4 170) (mkPtok 42 "a1" 47 14 172)) (MKString (mkPtok 31 """CRC32""" 47 4 170)) (mkPtok 39 ":" 47 12 171) (mkPtok 42 "a1" 47 14 172) None); (mkMatchPair (mkSpan (mkPtok 31 (string_of_bytes [34; 97; 9; 98; 34]%N) 47 17 173) (mkPtok 40 "," 47 33 176)) (MKString (mkPtok 31 (string_of_bytes [34; 97; 9; 98; 34]%N) 47 17 173)) (mkPtok 39 ":" 47 23 174) (mkPtok 42 "metadata" 47 24 175) (Some (mkPtok 40 "," 47 33 176))); (mkMatchPair (mkSpan (mkPtok 30 "7" 47 36 177) (mkPtok 40 "," 47 47 180)) (MKDigits (mkPtok 30 "7" 47 36 177)) (mkPtok 39 ":" 47 38 178) (mkPtok 42 "zchar" 47 40 179) (Some (mkPtok 40 "," 47 47 180)))] (mkPtok 3 "}" 47 49 181)) (mkPtok 40 "," 48 0 182)))] (mkPtok 3 "}" 48 2 183)))])).
Eval vm_compute in ("<<<M170>>>" ++ check (runes_of_ascii "packet
    // `tick` ""quote"" 'q'
    u8x {} packet calculatedFrom
    {
    i8i8
len
,
    match lengthOf as leftPad
{ 007
    : crc
, ""abc"": o 10 : falsey
    } , repeat  i8
metadata  , @calculatedFrom(""" ++ [28040; 24687]%N ++ runes_of_ascii """ ) repeat int16
leftPad
    // trailing space 
    ``
    ,BodyLength
    @calculatedFrom(  ""a\\""
    ) ,
char[] f32a,
    tag// packet A { u8 x, }
rootA
, @rightPad (
    // " ++ [27880; 37322]%N ++ runes_of_ascii "
    ' ' ) @tag( 007 ) match o as
    // " ++ [27880; 37322]%N ++ runes_of_ascii "
    _x { [ 1
    // " ++ [27880; 37322]%N ++ runes_of_ascii "
    ,
""a	b""
, ""1"" ,
00 ,7
// " ++ [128512]%N ++ runes_of_ascii " emoji
//x
,""" ++ [233]%N ++ runes_of_ascii "t" ++ [233]%N ++ runes_of_ascii """
    ,
    // c
    7 ,00
    ]
    : Foo ,
    // " ++ [27880; 37322]%N ++ runes_of_ascii "
    ""\" ++ [233]%N ++ runes_of_ascii """// @lengthOf(
:  matchKey
    ,},//x
@rightPad (	'\x00' )string msg_type	, }
packet  trueish {u8x
``
, @lengthOf( Header
    )
    repeat int64 int	`` ,
} MetaData matchKey	{ string msg_type	, zchar[
    //	t
    4294967296
]
repeatCount `it's`
, u8
crc
, zchar
o ,int64 asx
, }root
packet chars{
    }
")).
Eval vm_compute in ("<<<M180>>>" ++ check (runes_of_ascii "MetaData T  {
char[] metadata ,
    // `tick` ""quote"" 'q'
    i8
Header
    //	t
    ,
u128 chars `a\` , char[
    42
] calculatedFrom
, } // packet A { u8 x, }
packet stringy {
    @rightPad( // c
)
    //	t
    string trueish
`two words`, } MetaData metadata{ zchar[//
007]x_y_z
, zchar[ 10 ] u	`// not a comment`
    , string u8x, char[]repeatCount// " ++ [128512]%N ++ runes_of_ascii " emoji
, zchar Pad ,u32 f32a
    `doc`
, } // `tick` ""quote"" 'q'")).
Eval vm_compute in ("<<<M190>>>" ++ check (runes_of_ascii "packet T
{}
")).
Eval vm_compute in ("<<<M200>>>" ++ check (runes_of_ascii "MetaData
    Header { }MetaData Logon {// trailing space 
int32 falsey ,// " ++ [27880; 37322]%N ++ runes_of_ascii "
packetx
_x ,
char[] Logon`two words`
,
    matchKey packetx ,
    u32 u // packet A { u8 x, }
,	i64 float `it's`
, }
")).
Eval vm_compute in ("<<<M210>>>" ++ check (runes_of_ascii "packet u128  { @calculatedFrom(
""a	b"" ) repeat  uint8x u128
`line1
line2`  , }
    packet string_ { @calculatedFrom(
// `tick` ""quote"" 'q'
// packet A { u8 x, }
""" ++ [128512]%N ++ runes_of_ascii """ )
uint8 Pad
    @lengthOf(
    o )
`{ , }`, }")).
Eval vm_compute in ("<<<M220>>>" ++ check (runes_of_ascii "packet f32a
    { @calculatedFrom(""1"" )
_x { string
/// triple
//	t
metadata@calculatedFrom( ""`tick`""	) `// not a comment` ,  match // packet A { u8 x, }
Foo as  len { 42//
:Z9_ , //x
}  , }
,} packet /// triple
options1{ @lengthOf(A )roots
@lengthOf(// packet A { u8 x, }
msg_type ) `line1
line2` , int32/// triple
a1 `it's` , @calculatedFrom( ""packet""
    )repeat string T , @lengthOf( i64_ ) @calculatedFrom(
""packet""
) @tag( 007
) int16 asx@calculatedFrom(
""it's""
    )//	t
`doc` , repeat i32
charz, metadata // packet A { u8 x, }
`// not a comment` , }  packet
Logon{ }
options {
}
root
packet tag  { @lengthOf(
    Logon
)
charz { string stringy`// not a comment`	,
uint64 int,char
    i64_ `it's`
// packet A { u8 x, }
// a // b
, } ,
//	t
//
u8
i64_ , zchar[ 1 ] float
, } /// triple")).
Eval vm_compute in ("<<<M230>>>" ++ check (runes_of_ascii "packet
matchKey { match Header as chars
{ [ """ ++ [233]%N ++ runes_of_ascii "t" ++ [233]%N ++ runes_of_ascii """ ,0 ]	: body
,
    [
    42,10 ]
    :msg_type
,
""" ++ [128512]%N ++ runes_of_ascii """
: options1 ,7 :
    roots ""\n"" :
    // c
    packetx,	} ,
    zchar[
0 ]
A
@lengthOf(  int )
, char[] Header `
` ,// trailing space 
repeat
    float { repeat
o
    , // `tick` ""quote"" 'q'
repeat
int32 x_y_z `
` , }	,@tag( 0 ) u64 string_ @calculatedFrom(""`tick`"" ) // " ++ [27880; 37322]%N ++ runes_of_ascii "
`two words` , calculatedFrom // " ++ [27880; 37322]%N ++ runes_of_ascii "
{ matchKey
//
// packet A { u8 x, }
, // packet A { u8 x, }
rootA
, } ,
}
    options // " ++ [128512]%N ++ runes_of_ascii " emoji
{ chars =	"""" //
;
    As = true	; Foo =
7	; lengthOf =  ""a\\"" }

")).
Eval vm_compute in ("<<<T230>>>" ++ terms [mkTok 35 "packet" 1 0 false; mkTok 42 "matchKey" 2 0 false; mkTok 2 "{" 2 9 false; mkTok 38 "match" 2 11 false; mkTok 42 "Header" 2 17 false; mkTok 17 "as" 2 24 false; mkTok 42 "chars" 2 27 false; mkTok 2 "{" 3 0 false; mkTok 18 "[" 3 2 false; mkTok 31 (string_of_bytes [34; 195; 169; 116; 195; 169; 34]%N) 3 4 false; mkTok 40 "," 3 10 false; mkTok 30 "0" 3 11 false; mkTok 13 "]" 3 13 false; mkTok 39 ":" 3 15 false; mkTok 42 "body" 3 17 false; mkTok 40 "," 4 0 false; mkTok 18 "[" 5 4 false; mkTok 30 "42" 6 4 false; mkTok 40 "," 6 6 false; mkTok 30 "10" 6 7 false; mkTok 13 "]" 6 10 false; mkTok 39 ":" 7 4 false; mkTok 42 "msg_type" 7 5 false; mkTok 40 "," 8 0 false; mkTok 31 (string_of_bytes [34; 240; 159; 152; 128; 34]%N) 9 0 false; mkTok 39 ":" 10 0 false; mkTok 42 "options1" 10 2 false; mkTok 40 "," 10 11 false; mkTok 30 "7" 10 12 false; mkTok 39 ":" 10 14 false; mkTok 42 "roots" 11 4 false; mkTok 31 """\n""" 11 10 false; mkTok 39 ":" 11 15 false; mkTok 44 "// c" 12 4 true; mkTok 42 "packetx" 13 4 false; mkTok 40 "," 13 11 false; mkTok 3 "}" 13 13 false; mkTok 40 "," 13 15 false; mkTok 14 "zchar[" 14 4 false; mkTok 30 "0" 15 0 false; mkTok 13 "]" 15 2 false; mkTok 42 "A" 16 0 false; mkTok 7 "@lengthOf(" 17 0 false; mkTok 42 "int" 17 12 false; mkTok 6 ")" 17 16 false; mkTok 40 "," 18 0 false; mkTok 16 "char[]" 18 2 false; mkTok 42 "Header" 18 9 false; mkTok 43 (string_of_bytes [96; 10; 96]%N) 18 16 false; mkTok 40 "," 19 2 false; mkTok 44 "// trailing space " 19 3 true; mkTok 36 "repeat" 20 0 false; mkTok 42 "float" 21 4 false; mkTok 2 "{" 21 10 false; mkTok 36 "repeat" 21 12 false; mkTok 42 "o" 22 0 false; mkTok 40 "," 23 4 false; mkTok 44 "// `tick` ""quote"" 'q'" 23 6 true; mkTok 36 "repeat" 24 0 false; mkTok 26 "int32" 25 0 false; mkTok 42 "x_y_z" 25 6 false; mkTok 43 (string_of_bytes [96; 10; 96]%N) 25 12 false; mkTok 40 "," 26 2 false; mkTok 3 "}" 26 4 false; mkTok 40 "," 26 6 false; mkTok 9 "@tag(" 26 7 false; mkTok 30 "0" 26 13 false; mkTok 6 ")" 26 15 false; mkTok 23 "u64" 26 17 false; mkTok 42 "string_" 26 21 false; mkTok 5 "@calculatedFrom(" 26 29 false; mkTok 31 """`tick`""" 26 45 false; mkTok 6 ")" 26 54 false; mkTok 44 (string_of_bytes [47; 47; 32; 230; 179; 168; 233; 135; 138]%N) 26 56 true; mkTok 43 "`two words`" 27 0 false; mkTok 40 "," 27 12 false; mkTok 42 "calculatedFrom" 27 14 false; mkTok 44 (string_of_bytes [47; 47; 32; 230; 179; 168; 233; 135; 138]%N) 27 29 true; mkTok 2 "{" 28 0 false; mkTok 42 "matchKey" 28 2 false; mkTok 44 "//" 29 0 true; mkTok 44 "// packet A { u8 x, }" 30 0 true; mkTok 40 "," 31 0 false; mkTok 44 "// packet A { u8 x, }" 31 2 true; mkTok 42 "rootA" 32 0 false; mkTok 40 "," 33 0 false; mkTok 3 "}" 33 2 false; mkTok 40 "," 33 4 false; mkTok 3 "}" 34 0 false; mkTok 1 "options" 35 4 false; mkTok 44 (string_of_bytes [47; 47; 32; 240; 159; 152; 128; 32; 101; 109; 111; 106; 105]%N) 35 12 true; mkTok 2 "{" 36 0 false; mkTok 42 "chars" 36 2 false; mkTok 4 "=" 36 8 false; mkTok 31 """""" 36 10 false; mkTok 44 "//" 36 13 true; mkTok 41 ";" 37 0 false; mkTok 42 "As" 38 4 false; mkTok 4 "=" 38 7 false; mkTok 10 "true" 38 9 false; mkTok 41 ";" 38 14 false; mkTok 42 "Foo" 38 16 false; mkTok 4 "=" 38 20 false; mkTok 30 "7" 39 0 false; mkTok 41 ";" 39 2 false; mkTok 42 "lengthOf" 39 4 false; mkTok 4 "=" 39 13 false; mkTok 31 """a\\""" 39 16 false; mkTok 3 "}" 39 22 false; mkTok 0 "<EOF>" 41 0 false] (mkPacket (mkPtok 35 "packet" 1 0 0) (Some (mkPtok 3 "}" 39 22 108)) [(DPacket (mkPacketDef (mkSpan (mkPtok 35 "packet" 1 0 0) (mkPtok 3 "}" 34 0 88)) None (mkPtok 35 "packet" 1 0 0) (mkPtok 42 "matchKey" 2 0 1) (mkPtok 2 "{" 2 9 2) [(mkFieldWithAttr (mkSpan (mkPtok 38 "match" 2 11 3) (mkPtok 40 "," 13 15 37)) [] (MatchField (mkSpan (mkPtok 38 "match" 2 11 3) (mkPtok 40 "," 13 15 37)) (mkMatchFieldDecl (mkSpan (mkPtok 38 "match" 2 11 3) (mkPtok 3 "}" 13 13 36)) (mkPtok 38 "match" 2 11 3) (mkPtok 42 "Header" 2 17 4) (mkPtok 17 "as" 2 24 5) (mkPtok 42 "chars" 2 27 6) (mkPtok 2 "{" 3 0 7) [(mkMatchPair (mkSpan (mkPtok 18 "[" 3 2 8) (mkPtok 40 "," 4 0 15)) (MKList (mkKeyList (mkSpan (mkPtok 18 "[" 3 2 8) (mkPtok 13 "]" 3 13 12)) (mkPtok 18 "[" 3 2 8) (mkPtok 31 (string_of_bytes [34; 195; 169; 116; 195; 169; 34]%N) 3 4 9) [((mkPtok 40 "," 3 10 10), (mkPtok 30 "0" 3 11 11))] (mkPtok 13 "]" 3 13 12))) (mkPtok 39 ":" 3 15 13) (mkPtok 42 "body" 3 17 14) (Some (mkPtok 40 "," 4 0 15))); (mkMatchPair (mkSpan (mkPtok 18 "[" 5 4 16) (mkPtok 40 "," 8 0 23)) (MKList (mkKeyList (mkSpan (mkPtok 18 "[" 5 4 16) (mkPtok 13 "]" 6 10 20)) (mkPtok 18 "[" 5 4 16) (mkPtok 30 "42" 6 4 17) [((mkPtok 40 "," 6 6 18), (mkPtok 30 "10" 6 7 19))] (mkPtok 13 "]" 6 10 20))) (mkPtok 39 ":" 7 4 21) (mkPtok 42 "msg_type" 7 5 22) (Some (mkPtok 40 "," 8 0 23))); (mkMatchPair (mkSpan (mkPtok 31 (string_of_bytes [34; 240; 159; 152; 128; 34]%N) 9 0 24) (mkPtok 40 "," 10 11 27)) (MKString (mkPtok 31 (string_of_bytes [34; 240; 159; 152; 128; 34]%N) 9 0 24)) (mkPtok 39 ":" 10 0 25) (mkPtok 42 "options1" 10 2 26) (Some (mkPtok 40 "," 10 11 27))); (mkMatchPair (mkSpan (mkPtok 30 "7" 10 12 28) (mkPtok 42 "roots" 11 4 30)) (MKDigits (mkPtok 30 "7" 10 12 28)) (mkPtok 39 ":" 10 14 29) (mkPtok 42 "roots" 11 4 30) None); (mkMatchPair (mkSpan (mkPtok 31 """\n""" 11 10 31) (mkPtok 40 "," 13 11 35)) (MKString (mkPtok 31 """\n""" 11 10 31)) (mkPtok 39 ":" 11 15 32) (mkPtok 42 "packetx" 13 4 34) (Some (mkPtok 40 "," 13 11 35)))] (mkPtok 3 "}" 13 13 36)) (mkPtok 40 "," 13 15 37))); (mkFieldWithAttr (mkSpan (mkPtok 14 "zchar[" 14 4 38) (mkPtok 40 "," 18 0 45)) [] (LengthField (mkSpan (mkPtok 14 "zchar[" 14 4 38) (mkPtok 40 "," 18 0 45)) (mkLengthFieldDecl (mkSpan (mkPtok 14 "zchar[" 14 4 38) (mkPtok 40 "," 18 0 45)) (Some (TyFixed (mkSpan (mkPtok 14 "zchar[" 14 4 38) (mkPtok 13 "]" 15 2 40)) (mkFixedString (mkSpan (mkPtok 14 "zchar[" 14 4 38) (mkPtok 13 "]" 15 2 40)) (mkPtok 14 "zchar[" 14 4 38) (mkPtok 30 "0" 15 0 39) (mkPtok 13 "]" 15 2 40)))) (mkPtok 42 "A" 16 0 41) (mkLengthOf (mkSpan (mkPtok 7 "@lengthOf(" 17 0 42) (mkPtok 6 ")" 17 16 44)) (mkPtok 7 "@lengthOf(" 17 0 42) (mkPtok 42 "int" 17 12 43) (mkPtok 6 ")" 17 16 44)) None (mkPtok 40 "," 18 0 45)))); (mkFieldWithAttr (mkSpan (mkPtok 16 "char[]" 18 2 46) (mkPtok 40 "," 19 2 49)) [] (MetaField (mkSpan (mkPtok 16 "char[]" 18 2 46) (mkPtok 40 "," 19 2 49)) None (mkMetaDecl (mkSpan (mkPtok 16 "char[]" 18 2 46) (mkPtok 40 "," 19 2 49)) (TyDynamic (mkSpan (mkPtok 16 "char[]" 18 2 46) (mkPtok 16 "char[]" 18 2 46)) (mkDynamicString (mkSpan (mkPtok 16 "char[]" 18 2 46) (mkPtok 16 "char[]" 18 2 46)) (mkPtok 16 "char[]" 18 2 46))) (mkPtok 42 "Header" 18 9 47) (Some (mkPtok 43 (string_of_bytes [96; 10; 96]%N) 18 16 48)) (mkPtok 40 "," 19 2 49)))); (mkFieldWithAttr (mkSpan (mkPtok 36 "repeat" 20 0 51) (mkPtok 40 "," 26 6 64)) [] (InerObjectField (mkSpan (mkPtok 36 "repeat" 20 0 51) (mkPtok 40 "," 26 6 64)) (Some (mkPtok 36 "repeat" 20 0 51)) (InerObjectDecl (mkSpan (mkPtok 42 "float" 21 4 52) (mkPtok 3 "}" 26 4 63)) (mkPtok 42 "float" 21 4 52) (mkPtok 2 "{" 21 10 53) [(ObjectField (mkSpan (mkPtok 36 "repeat" 21 12 54) (mkPtok 40 "," 23 4 56)) (Some (mkPtok 36 "repeat" 21 12 54)) (mkPtok 42 "o" 22 0 55) None None (mkPtok 40 "," 23 4 56)); (MetaField (mkSpan (mkPtok 36 "repeat" 24 0 58) (mkPtok 40 "," 26 2 62)) (Some (mkPtok 36 "repeat" 24 0 58)) (mkMetaDecl (mkSpan (mkPtok 26 "int32" 25 0 59) (mkPtok 40 "," 26 2 62)) (TyBasic (mkSpan (mkPtok 26 "int32" 25 0 59) (mkPtok 26 "int32" 25 0 59)) (mkBasicType (mkSpan (mkPtok 26 "int32" 25 0 59) (mkPtok 26 "int32" 25 0 59)) (mkPtok 26 "int32" 25 0 59))) (mkPtok 42 "x_y_z" 25 6 60) (Some (mkPtok 43 (string_of_bytes [96; 10; 96]%N) 25 12 61)) (mkPtok 40 "," 26 2 62)))] (mkPtok 3 "}" 26 4 63)) (mkPtok 40 "," 26 6 64))); (mkFieldWithAttr (mkSpan (mkPtok 9 "@tag(" 26 7 65) (mkPtok 40 "," 27 12 75)) [(FATag (mkSpan (mkPtok 9 "@tag(" 26 7 65) (mkPtok 6 ")" 26 15 67)) (mkTagAttr (mkSpan (mkPtok 9 "@tag(" 26 7 65) (mkPtok 6 ")" 26 15 67)) (mkPtok 9 "@tag(" 26 7 65) (mkPtok 30 "0" 26 13 66) (mkPtok 6 ")" 26 15 67)))] (CheckSumField (mkSpan (mkPtok 23 "u64" 26 17 68) (mkPtok 40 "," 27 12 75)) (mkChecksumFieldDecl (mkSpan (mkPtok 23 "u64" 26 17 68) (mkPtok 40 "," 27 12 75)) (Some (TyBasic (mkSpan (mkPtok 23 "u64" 26 17 68) (mkPtok 23 "u64" 26 17 68)) (mkBasicType (mkSpan (mkPtok 23 "u64" 26 17 68) (mkPtok 23 "u64" 26 17 68)) (mkPtok 23 "u64" 26 17 68)))) (mkPtok 42 "string_" 26 21 69) (mkCalculatedFrom (mkSpan (mkPtok 5 "@calculatedFrom(" 26 29 70) (mkPtok 6 ")" 26 54 72)) (mkPtok 5 "@calculatedFrom(" 26 29 70) (mkPtok 31 """`tick`""" 26 45 71) (mkPtok 6 ")" 26 54 72)) (Some (mkPtok 43 "`two words`" 27 0 74)) (mkPtok 40 "," 27 12 75)))); (mkFieldWithAttr (mkSpan (mkPtok 42 "calculatedFrom" 27 14 76) (mkPtok 40 "," 33 4 87)) [] (InerObjectField (mkSpan (mkPtok 42 "calculatedFrom" 27 14 76) (mkPtok 40 "," 33 4 87)) None (InerObjectDecl (mkSpan (mkPtok 42 "calculatedFrom" 27 14 76) (mkPtok 3 "}" 33 2 86)) (mkPtok 42 "calculatedFrom" 27 14 76) (mkPtok 2 "{" 28 0 78) [(ObjectField (mkSpan (mkPtok 42 "matchKey" 28 2 79) (mkPtok 40 "," 31 0 82)) None (mkPtok 42 "matchKey" 28 2 79) None None (mkPtok 40 "," 31 0 82)); (ObjectField (mkSpan (mkPtok 42 "rootA" 32 0 84) (mkPtok 40 "," 33 0 85)) None (mkPtok 42 "rootA" 32 0 84) None None (mkPtok 40 "," 33 0 85))] (mkPtok 3 "}" 33 2 86)) (mkPtok 40 "," 33 4 87)))] (mkPtok 3 "}" 34 0 88))); (DOption (mkOptionDef (mkSpan (mkPtok 1 "options" 35 4 89) (mkPtok 3 "}" 39 22 108)) (mkPtok 1 "options" 35 4 89) (mkPtok 2 "{" 36 0 91) [(mkOptionDecl (mkSpan (mkPtok 42 "chars" 36 2 92) (mkPtok 41 ";" 37 0 96)) (mkPtok 42 "chars" 36 2 92) (mkPtok 4 "=" 36 8 93) (VString (mkSpan (mkPtok 31 """""" 36 10 94) (mkPtok 31 """""" 36 10 94)) (mkPtok 31 """""" 36 10 94)) (Some (mkPtok 41 ";" 37 0 96))); (mkOptionDecl (mkSpan (mkPtok 42 "As" 38 4 97) (mkPtok 41 ";" 38 14 100)) (mkPtok 42 "As" 38 4 97) (mkPtok 4 "=" 38 7 98) (VTrue (mkSpan (mkPtok 10 "true" 38 9 99) (mkPtok 10 "true" 38 9 99)) (mkPtok 10 "true" 38 9 99)) (Some (mkPtok 41 ";" 38 14 100))); (mkOptionDecl (mkSpan (mkPtok 42 "Foo" 38 16 101) (mkPtok 41 ";" 39 2 104)) (mkPtok 42 "Foo" 38 16 101) (mkPtok 4 "=" 38 20 102) (VDigits (mkSpan (mkPtok 30 "7" 39 0 103) (mkPtok 30 "7" 39 0 103)) (mkPtok 30 "7" 39 0 103)) (Some (mkPtok 41 ";" 39 2 104))); (mkOptionDecl (mkSpan (mkPtok 42 "lengthOf" 39 4 105) (mkPtok 31 """a\\""" 39 16 107)) (mkPtok 42 "lengthOf" 39 4 105) (mkPtok 4 "=" 39 13 106) (VString (mkSpan (mkPtok 31 """a\\""" 39 16 107) (mkPtok 31 """a\\""" 39 16 107)) (mkPtok 31 """a\\""" 39 16 107)) None)] (mkPtok 3 "}" 39 22 108)))])).
Eval vm_compute in ("<<<M240>>>" ++ check (runes_of_ascii "MetaData/// triple
float {	f64
    // trailing space 
    u8x
`
` ,	}")).
Eval vm_compute in ("<<<M250>>>" ++ check (runes_of_ascii "

//x
")).
Eval vm_compute in ("<<<M260>>>" ++ check (runes_of_ascii "packet tag
{@rightPad( )	zchar[ 00
    //x
    ] //x
MetaDataX `" ++ [233]%N ++ runes_of_ascii "` ,
    float32 Header `say ""hi""`
// " ++ [128512]%N ++ runes_of_ascii " emoji
// `tick` ""quote"" 'q'
, } MetaData
T{int lengthOf  ,}")).
Eval vm_compute in ("<<<M270>>>" ++ check (runes_of_ascii "options { Pad = char[]; u8x
    // trailing space 
    =
    ""packet"";
o = i64
; stringy
=""a\""b""
packetx
    // trailing space 
    = 65535
} options
{ chars
= '0'}")).
Eval vm_compute in ("<<<M280>>>" ++ check (runes_of_ascii "  packet
chars	{ }
")).
Eval vm_compute in ("<<<M290>>>" ++ check (runes_of_ascii "packet zchar { msg_type ,
//
// `tick` ""quote"" 'q'
@tag( 65535 ) repeat float32 len,
    @lengthOf(
// " ++ [27880; 37322]%N ++ runes_of_ascii "
// `tick` ""quote"" 'q'
crc )	lengthOf
    //
    {
repeat float `say ""hi""` ,}	, u32 // a // b
Packet
@lengthOf( i8i8// a // b
)  `
`
// packet A { u8 x, }
// packet A { u8 x, }
,
i8i8 // a // b
, u32 calculatedFrom  @lengthOf( BodyLength //x
)`a\` , @lengthOf( Logon// " ++ [128512]%N ++ runes_of_ascii " emoji
) match MetaDataX
as	Foo  { [
""\n"" ,
255 ] :Packet , 3: o
    ,
[007] : T, }
, match pack as A { """ ++ [28040; 24687]%N ++ runes_of_ascii """
: _x 007	:
//x
// " ++ [128512]%N ++ runes_of_ascii " emoji
metadata,
255 :
As
    ,
    7 :charz, 10 : len, } , f32 len
, @leftPad ('\x00'  )float32 trueish , }
")).
Eval vm_compute in ("<<<M300>>>" ++ check (runes_of_ascii "options {
	StringPrefixLenType = u16;
	ArrayPrefixLenType = u16;
}

packet SampleBinary {
    uint16 MsgType `" ++ [28040; 24687; 31867; 22411]%N ++ runes_of_ascii "`,
    u16 BodyLenght @lengthOf(Body) `" ++ [28040; 24687; 20307; 38271; 24230]%N ++ runes_of_ascii "`,
    match MsgType as Body {
        1 : Logon,
        2 : Logout,
        3 : Heartbeat,
        4 : RiskControlRequest,
        5 : RiskControlResponse,
    },
        @calculatedFrom(""CRC32"")
    u32 Ckecksum `" ++ [26657; 39564; 21644]%N ++ runes_of_ascii "`,
}

packet Logon {
     @leftPad('0')
    char[10] UserName `" ++ [29992; 25143; 21517]%N ++ runes_of_ascii "`,
    string Password `" ++ [23494; 30721]%N ++ runes_of_ascii "`,
    uint64 ClientId `" ++ [23458; 25143; 31471]%N ++ runes_of_ascii "ID`,
    u16 HeartbeatInterval `" ++ [24515; 36339; 38388; 38548]%N ++ runes_of_ascii "`,
}

packet Logout {
      @rightPad('0')
    char[10] UserName `" ++ [29992; 25143; 21517]%N ++ runes_of_ascii "`,
    uint64 ClientId `" ++ [23458; 25143; 31471]%N ++ runes_of_ascii "ID`,
}

packet Heartbeat {
}

packet RiskControlRequest {
    string UniqueOrderId `" ++ [21807; 19968; 35746; 21333; 21495]%N ++ runes_of_ascii "`,
    char[16] ClOrdID `" ++ [23458; 25143; 35746; 21333; 21495]%N ++ runes_of_ascii "`,
    char[3] MarketID `" ++ [24066; 22330]%N ++ runes_of_ascii "id`,
    char[12] SecurityID `" ++ [35777; 21048; 20195; 30721]%N ++ runes_of_ascii "`,
    char Side `" ++ [20080; 21334; 26041; 21521]%N ++ runes_of_ascii "`,
    char OrderType `" ++ [35746; 21333; 31867; 22411]%N ++ runes_of_ascii "`,
    u64 Price `" ++ [20215; 26684]%N ++ runes_of_ascii "`,
    u32 Qty `" ++ [25968; 37327]%N ++ runes_of_ascii "`,
    repeat string ExtraInfo `" ++ [38468; 21152; 20449; 24687]%N ++ runes_of_ascii "`,
    repeat SubOrder {
    		char[16] ClOrdID `" ++ [23376; 35746; 21333; 21495]%N ++ runes_of_ascii "`,
    		u64 Price `" ++ [23376; 35746; 21333; 20215; 26684]%N ++ runes_of_ascii "`,
    		u32 Qty `" ++ [23376; 35746; 21333; 25968; 37327]%N ++ runes_of_ascii "`,
    	},
}

packet RiskControlResponse {
    string UniqueOrderId `" ++ [21807; 19968; 35746; 21333; 21495]%N ++ runes_of_ascii "`,
    i32 Status `" ++ [29366; 24577]%N ++ runes_of_ascii "`,
    string Msg `" ++ [32467; 26524; 20449; 24687]%N ++ runes_of_ascii "`,
    repeat Detail,
}

packet Detail {
    string RuleName `" ++ [35268; 21017; 21517; 31216]%N ++ runes_of_ascii "`,
    u16 Code `" ++ [21407; 22240; 20195; 30721]%N ++ runes_of_ascii "`,
}")).
Eval vm_compute in ("<<<T300>>>" ++ terms [mkTok 1 "options" 1 0 false; mkTok 2 "{" 1 8 false; mkTok 42 "StringPrefixLenType" 2 1 false; mkTok 4 "=" 2 21 false; mkTok 21 "u16" 2 23 false; mkTok 41 ";" 2 26 false; mkTok 42 "ArrayPrefixLenType" 3 1 false; mkTok 4 "=" 3 20 false; mkTok 21 "u16" 3 22 false; mkTok 41 ";" 3 25 false; mkTok 3 "}" 4 0 false; mkTok 35 "packet" 6 0 false; mkTok 42 "SampleBinary" 6 7 false; mkTok 2 "{" 6 20 false; mkTok 21 "uint16" 7 4 false; mkTok 42 "MsgType" 7 11 false; mkTok 43 (string_of_bytes [96; 230; 182; 136; 230; 129; 175; 231; 177; 187; 229; 158; 139; 96]%N) 7 19 false; mkTok 40 "," 7 25 false; mkTok 21 "u16" 8 4 false; mkTok 42 "BodyLenght" 8 8 false; mkTok 7 "@lengthOf(" 8 19 false; mkTok 42 "Body" 8 29 false; mkTok 6 ")" 8 33 false; mkTok 43 (string_of_bytes [96; 230; 182; 136; 230; 129; 175; 228; 189; 147; 233; 149; 191; 229; 186; 166; 96]%N) 8 35 false; mkTok 40 "," 8 42 false; mkTok 38 "match" 9 4 false; mkTok 42 "MsgType" 9 10 false; mkTok 17 "as" 9 18 false; mkTok 42 "Body" 9 21 false; mkTok 2 "{" 9 26 false; mkTok 30 "1" 10 8 false; mkTok 39 ":" 10 10 false; mkTok 42 "Logon" 10 12 false; mkTok 40 "," 10 17 false; mkTok 30 "2" 11 8 false; mkTok 39 ":" 11 10 false; mkTok 42 "Logout" 11 12 false; mkTok 40 "," 11 18 false; mkTok 30 "3" 12 8 false; mkTok 39 ":" 12 10 false; mkTok 42 "Heartbeat" 12 12 false; mkTok 40 "," 12 21 false; mkTok 30 "4" 13 8 false; mkTok 39 ":" 13 10 false; mkTok 42 "RiskControlRequest" 13 12 false; mkTok 40 "," 13 30 false; mkTok 30 "5" 14 8 false; mkTok 39 ":" 14 10 false; mkTok 42 "RiskControlResponse" 14 12 false; mkTok 40 "," 14 31 false; mkTok 3 "}" 15 4 false; mkTok 40 "," 15 5 false; mkTok 5 "@calculatedFrom(" 16 8 false; mkTok 31 """CRC32""" 16 24 false; mkTok 6 ")" 16 31 false; mkTok 22 "u32" 17 4 false; mkTok 42 "Ckecksum" 17 8 false; mkTok 43 (string_of_bytes [96; 230; 160; 161; 233; 170; 140; 229; 146; 140; 96]%N) 17 17 false; mkTok 40 "," 17 22 false; mkTok 3 "}" 18 0 false; mkTok 35 "packet" 20 0 false; mkTok 42 "Logon" 20 7 false; mkTok 2 "{" 20 13 false; mkTok 32 "@leftPad" 21 5 false; mkTok 8 "(" 21 13 false; mkTok 33 "'0'" 21 14 false; mkTok 6 ")" 21 17 false; mkTok 12 "char[" 22 4 false; mkTok 30 "10" 22 9 false; mkTok 13 "]" 22 11 false; mkTok 42 "UserName" 22 13 false; mkTok 43 (string_of_bytes [96; 231; 148; 168; 230; 136; 183; 229; 144; 141; 96]%N) 22 22 false; mkTok 40 "," 22 27 false; mkTok 15 "string" 23 4 false; mkTok 42 "Password" 23 11 false; mkTok 43 (string_of_bytes [96; 229; 175; 134; 231; 160; 129; 96]%N) 23 20 false; mkTok 40 "," 23 24 false; mkTok 23 "uint64" 24 4 false; mkTok 42 "ClientId" 24 11 false; mkTok 43 (string_of_bytes [96; 229; 174; 162; 230; 136; 183; 231; 171; 175; 73; 68; 96]%N) 24 20 false; mkTok 40 "," 24 27 false; mkTok 21 "u16" 25 4 false; mkTok 42 "HeartbeatInterval" 25 8 false; mkTok 43 (string_of_bytes [96; 229; 191; 131; 232; 183; 179; 233; 151; 180; 233; 154; 148; 96]%N) 25 26 false; mkTok 40 "," 25 32 false; mkTok 3 "}" 26 0 false; mkTok 35 "packet" 28 0 false; mkTok 42 "Logout" 28 7 false; mkTok 2 "{" 28 14 false; mkTok 32 "@rightPad" 29 6 false; mkTok 8 "(" 29 15 false; mkTok 33 "'0'" 29 16 false; mkTok 6 ")" 29 19 false; mkTok 12 "char[" 30 4 false; mkTok 30 "10" 30 9 false; mkTok 13 "]" 30 11 false; mkTok 42 "UserName" 30 13 false; mkTok 43 (string_of_bytes [96; 231; 148; 168; 230; 136; 183; 229; 144; 141; 96]%N) 30 22 false; mkTok 40 "," 30 27 false; mkTok 23 "uint64" 31 4 false; mkTok 42 "ClientId" 31 11 false; mkTok 43 (string_of_bytes [96; 229; 174; 162; 230; 136; 183; 231; 171; 175; 73; 68; 96]%N) 31 20 false; mkTok 40 "," 31 27 false; mkTok 3 "}" 32 0 false; mkTok 35 "packet" 34 0 false; mkTok 42 "Heartbeat" 34 7 false; mkTok 2 "{" 34 17 false; mkTok 3 "}" 35 0 false; mkTok 35 "packet" 37 0 false; mkTok 42 "RiskControlRequest" 37 7 false; mkTok 2 "{" 37 26 false; mkTok 15 "string" 38 4 false; mkTok 42 "UniqueOrderId" 38 11 false; mkTok 43 (string_of_bytes [96; 229; 148; 175; 228; 184; 128; 232; 174; 162; 229; 141; 149; 229; 143; 183; 96]%N) 38 25 false; mkTok 40 "," 38 32 false; mkTok 12 "char[" 39 4 false; mkTok 30 "16" 39 9 false; mkTok 13 "]" 39 11 false; mkTok 42 "ClOrdID" 39 13 false; mkTok 43 (string_of_bytes [96; 229; 174; 162; 230; 136; 183; 232; 174; 162; 229; 141; 149; 229; 143; 183; 96]%N) 39 21 false; mkTok 40 "," 39 28 false; mkTok 12 "char[" 40 4 false; mkTok 30 "3" 40 9 false; mkTok 13 "]" 40 10 false; mkTok 42 "MarketID" 40 12 false; mkTok 43 (string_of_bytes [96; 229; 184; 130; 229; 156; 186; 105; 100; 96]%N) 40 21 false; mkTok 40 "," 40 27 false; mkTok 12 "char[" 41 4 false; mkTok 30 "12" 41 9 false; mkTok 13 "]" 41 11 false; mkTok 42 "SecurityID" 41 13 false; mkTok 43 (string_of_bytes [96; 232; 175; 129; 229; 136; 184; 228; 187; 163; 231; 160; 129; 96]%N) 41 24 false; mkTok 40 "," 41 30 false; mkTok 19 "char" 42 4 false; mkTok 42 "Side" 42 9 false; mkTok 43 (string_of_bytes [96; 228; 185; 176; 229; 141; 150; 230; 150; 185; 229; 144; 145; 96]%N) 42 14 false; mkTok 40 "," 42 20 false; mkTok 19 "char" 43 4 false; mkTok 42 "OrderType" 43 9 false; mkTok 43 (string_of_bytes [96; 232; 174; 162; 229; 141; 149; 231; 177; 187; 229; 158; 139; 96]%N) 43 19 false; mkTok 40 "," 43 25 false; mkTok 23 "u64" 44 4 false; mkTok 42 "Price" 44 8 false; mkTok 43 (string_of_bytes [96; 228; 187; 183; 230; 160; 188; 96]%N) 44 14 false; mkTok 40 "," 44 18 false; mkTok 22 "u32" 45 4 false; mkTok 42 "Qty" 45 8 false; mkTok 43 (string_of_bytes [96; 230; 149; 176; 233; 135; 143; 96]%N) 45 12 false; mkTok 40 "," 45 16 false; mkTok 36 "repeat" 46 4 false; mkTok 15 "string" 46 11 false; mkTok 42 "ExtraInfo" 46 18 false; mkTok 43 (string_of_bytes [96; 233; 153; 132; 229; 138; 160; 228; 191; 161; 230; 129; 175; 96]%N) 46 28 false; mkTok 40 "," 46 34 false; mkTok 36 "repeat" 47 4 false; mkTok 42 "SubOrder" 47 11 false; mkTok 2 "{" 47 20 false; mkTok 12 "char[" 48 6 false; mkTok 30 "16" 48 11 false; mkTok 13 "]" 48 13 false; mkTok 42 "ClOrdID" 48 15 false; mkTok 43 (string_of_bytes [96; 229; 173; 144; 232; 174; 162; 229; 141; 149; 229; 143; 183; 96]%N) 48 23 false; mkTok 40 "," 48 29 false; mkTok 23 "u64" 49 6 false; mkTok 42 "Price" 49 10 false; mkTok 43 (string_of_bytes [96; 229; 173; 144; 232; 174; 162; 229; 141; 149; 228; 187; 183; 230; 160; 188; 96]%N) 49 16 false; mkTok 40 "," 49 23 false; mkTok 22 "u32" 50 6 false; mkTok 42 "Qty" 50 10 false; mkTok 43 (string_of_bytes [96; 229; 173; 144; 232; 174; 162; 229; 141; 149; 230; 149; 176; 233; 135; 143; 96]%N) 50 14 false; mkTok 40 "," 50 21 false; mkTok 3 "}" 51 5 false; mkTok 40 "," 51 6 false; mkTok 3 "}" 52 0 false; mkTok 35 "packet" 54 0 false; mkTok 42 "RiskControlResponse" 54 7 false; mkTok 2 "{" 54 27 false; mkTok 15 "string" 55 4 false; mkTok 42 "UniqueOrderId" 55 11 false; mkTok 43 (string_of_bytes [96; 229; 148; 175; 228; 184; 128; 232; 174; 162; 229; 141; 149; 229; 143; 183; 96]%N) 55 25 false; mkTok 40 "," 55 32 false; mkTok 26 "i32" 56 4 false; mkTok 42 "Status" 56 8 false; mkTok 43 (string_of_bytes [96; 231; 138; 182; 230; 128; 129; 96]%N) 56 15 false; mkTok 40 "," 56 19 false; mkTok 15 "string" 57 4 false; mkTok 42 "Msg" 57 11 false; mkTok 43 (string_of_bytes [96; 231; 187; 147; 230; 158; 156; 228; 191; 161; 230; 129; 175; 96]%N) 57 15 false; mkTok 40 "," 57 21 false; mkTok 36 "repeat" 58 4 false; mkTok 42 "Detail" 58 11 false; mkTok 40 "," 58 17 false; mkTok 3 "}" 59 0 false; mkTok 35 "packet" 61 0 false; mkTok 42 "Detail" 61 7 false; mkTok 2 "{" 61 14 false; mkTok 15 "string" 62 4 false; mkTok 42 "RuleName" 62 11 false; mkTok 43 (string_of_bytes [96; 232; 167; 132; 229; 136; 153; 229; 144; 141; 231; 167; 176; 96]%N) 62 20 false; mkTok 40 "," 62 26 false; mkTok 21 "u16" 63 4 false; mkTok 42 "Code" 63 8 false; mkTok 43 (string_of_bytes [96; 229; 142; 159; 229; 155; 160; 228; 187; 163; 231; 160; 129; 96]%N) 63 13 false; mkTok 40 "," 63 19 false; mkTok 3 "}" 64 0 false; mkTok 0 "<EOF>" 64 1 false] (mkPacket (mkPtok 1 "options" 1 0 0) (Some (mkPtok 3 "}" 64 0 204)) [(DOption (mkOptionDef (mkSpan (mkPtok 1 "options" 1 0 0) (mkPtok 3 "}" 4 0 10)) (mkPtok 1 "options" 1 0 0) (mkPtok 2 "{" 1 8 1) [(mkOptionDecl (mkSpan (mkPtok 42 "StringPrefixLenType" 2 1 2) (mkPtok 41 ";" 2 26 5)) (mkPtok 42 "StringPrefixLenType" 2 1 2) (mkPtok 4 "=" 2 21 3) (VType (mkSpan (mkPtok 21 "u16" 2 23 4) (mkPtok 21 "u16" 2 23 4)) (TyBasic (mkSpan (mkPtok 21 "u16" 2 23 4) (mkPtok 21 "u16" 2 23 4)) (mkBasicType (mkSpan (mkPtok 21 "u16" 2 23 4) (mkPtok 21 "u16" 2 23 4)) (mkPtok 21 "u16" 2 23 4)))) (Some (mkPtok 41 ";" 2 26 5))); (mkOptionDecl (mkSpan (mkPtok 42 "ArrayPrefixLenType" 3 1 6) (mkPtok 41 ";" 3 25 9)) (mkPtok 42 "ArrayPrefixLenType" 3 1 6) (mkPtok 4 "=" 3 20 7) (VType (mkSpan (mkPtok 21 "u16" 3 22 8) (mkPtok 21 "u16" 3 22 8)) (TyBasic (mkSpan (mkPtok 21 "u16" 3 22 8) (mkPtok 21 "u16" 3 22 8)) (mkBasicType (mkSpan (mkPtok 21 "u16" 3 22 8) (mkPtok 21 "u16" 3 22 8)) (mkPtok 21 "u16" 3 22 8)))) (Some (mkPtok 41 ";" 3 25 9)))] (mkPtok 3 "}" 4 0 10))); (DPacket (mkPacketDef (mkSpan (mkPtok 35 "packet" 6 0 11) (mkPtok 3 "}" 18 0 59)) None (mkPtok 35 "packet" 6 0 11) (mkPtok 42 "SampleBinary" 6 7 12) (mkPtok 2 "{" 6 20 13) [(mkFieldWithAttr (mkSpan (mkPtok 21 "uint16" 7 4 14) (mkPtok 40 "," 7 25 17)) [] (MetaField (mkSpan (mkPtok 21 "uint16" 7 4 14) (mkPtok 40 "," 7 25 17)) None (mkMetaDecl (mkSpan (mkPtok 21 "uint16" 7 4 14) (mkPtok 40 "," 7 25 17)) (TyBasic (mkSpan (mkPtok 21 "uint16" 7 4 14) (mkPtok 21 "uint16" 7 4 14)) (mkBasicType (mkSpan (mkPtok 21 "uint16" 7 4 14) (mkPtok 21 "uint16" 7 4 14)) (mkPtok 21 "uint16" 7 4 14))) (mkPtok 42 "MsgType" 7 11 15) (Some (mkPtok 43 (string_of_bytes [96; 230; 182; 136; 230; 129; 175; 231; 177; 187; 229; 158; 139; 96]%N) 7 19 16)) (mkPtok 40 "," 7 25 17)))); (mkFieldWithAttr (mkSpan (mkPtok 21 "u16" 8 4 18) (mkPtok 40 "," 8 42 24)) [] (LengthField (mkSpan (mkPtok 21 "u16" 8 4 18) (mkPtok 40 "," 8 42 24)) (mkLengthFieldDecl (mkSpan (mkPtok 21 "u16" 8 4 18) (mkPtok 40 "," 8 42 24)) (Some (TyBasic (mkSpan (mkPtok 21 "u16" 8 4 18) (mkPtok 21 "u16" 8 4 18)) (mkBasicType (mkSpan (mkPtok 21 "u16" 8 4 18) (mkPtok 21 "u16" 8 4 18)) (mkPtok 21 "u16" 8 4 18)))) (mkPtok 42 "BodyLenght" 8 8 19) (mkLengthOf (mkSpan (mkPtok 7 "@lengthOf(" 8 19 20) (mkPtok 6 ")" 8 33 22)) (mkPtok 7 "@lengthOf(" 8 19 20) (mkPtok 42 "Body" 8 29 21) (mkPtok 6 ")" 8 33 22)) (Some (mkPtok 43 (string_of_bytes [96; 230; 182; 136; 230; 129; 175; 228; 189; 147; 233; 149; 191; 229; 186; 166; 96]%N) 8 35 23)) (mkPtok 40 "," 8 42 24)))); (mkFieldWithAttr (mkSpan (mkPtok 38 "match" 9 4 25) (mkPtok 40 "," 15 5 51)) [] (MatchField (mkSpan (mkPtok 38 "match" 9 4 25) (mkPtok 40 "," 15 5 51)) (mkMatchFieldDecl (mkSpan (mkPtok 38 "match" 9 4 25) (mkPtok 3 "}" 15 4 50)) (mkPtok 38 "match" 9 4 25) (mkPtok 42 "MsgType" 9 10 26) (mkPtok 17 "as" 9 18 27) (mkPtok 42 "Body" 9 21 28) (mkPtok 2 "{" 9 26 29) [(mkMatchPair (mkSpan (mkPtok 30 "1" 10 8 30) (mkPtok 40 "," 10 17 33)) (MKDigits (mkPtok 30 "1" 10 8 30)) (mkPtok 39 ":" 10 10 31) (mkPtok 42 "Logon" 10 12 32) (Some (mkPtok 40 "," 10 17 33))); (mkMatchPair (mkSpan (mkPtok 30 "2" 11 8 34) (mkPtok 40 "," 11 18 37)) (MKDigits (mkPtok 30 "2" 11 8 34)) (mkPtok 39 ":" 11 10 35) (mkPtok 42 "Logout" 11 12 36) (Some (mkPtok 40 "," 11 18 37))); (mkMatchPair (mkSpan (mkPtok 30 "3" 12 8 38) (mkPtok 40 "," 12 21 41)) (MKDigits (mkPtok 30 "3" 12 8 38)) (mkPtok 39 ":" 12 10 39) (mkPtok 42 "Heartbeat" 12 12 40) (Some (mkPtok 40 "," 12 21 41))); (mkMatchPair (mkSpan (mkPtok 30 "4" 13 8 42) (mkPtok 40 "," 13 30 45)) (MKDigits (mkPtok 30 "4" 13 8 42)) (mkPtok 39 ":" 13 10 43) (mkPtok 42 "RiskControlRequest" 13 12 44) (Some (mkPtok 40 "," 13 30 45))); (mkMatchPair (mkSpan (mkPtok 30 "5" 14 8 46) (mkPtok 40 "," 14 31 49)) (MKDigits (mkPtok 30 "5" 14 8 46)) (mkPtok 39 ":" 14 10 47) (mkPtok 42 "RiskControlResponse" 14 12 48) (Some (mkPtok 40 "," 14 31 49)))] (mkPtok 3 "}" 15 4 50)) (mkPtok 40 "," 15 5 51))); (mkFieldWithAttr (mkSpan (mkPtok 5 "@calculatedFrom(" 16 8 52) (mkPtok 40 "," 17 22 58)) [(FACalculatedFrom (mkSpan (mkPtok 5 "@calculatedFrom(" 16 8 52) (mkPtok 6 ")" 16 31 54)) (mkCalculatedFrom (mkSpan (mkPtok 5 "@calculatedFrom(" 16 8 52) (mkPtok 6 ")" 16 31 54)) (mkPtok 5 "@calculatedFrom(" 16 8 52) (mkPtok 31 """CRC32""" 16 24 53) (mkPtok 6 ")" 16 31 54)))] (MetaField (mkSpan (mkPtok 22 "u32" 17 4 55) (mkPtok 40 "," 17 22 58)) None (mkMetaDecl (mkSpan (mkPtok 22 "u32" 17 4 55) (mkPtok 40 "," 17 22 58)) (TyBasic (mkSpan (mkPtok 22 "u32" 17 4 55) (mkPtok 22 "u32" 17 4 55)) (mkBasicType (mkSpan (mkPtok 22 "u32" 17 4 55) (mkPtok 22 "u32" 17 4 55)) (mkPtok 22 "u32" 17 4 55))) (mkPtok 42 "Ckecksum" 17 8 56) (Some (mkPtok 43 (string_of_bytes [96; 230; 160; 161; 233; 170; 140; 229; 146; 140; 96]%N) 17 17 57)) (mkPtok 40 "," 17 22 58))))] (mkPtok 3 "}" 18 0 59))); (DPacket (mkPacketDef (mkSpan (mkPtok 35 "packet" 20 0 60) (mkPtok 3 "}" 26 0 85)) None (mkPtok 35 "packet" 20 0 60) (mkPtok 42 "Logon" 20 7 61) (mkPtok 2 "{" 20 13 62) [(mkFieldWithAttr (mkSpan (mkPtok 32 "@leftPad" 21 5 63) (mkPtok 40 "," 22 27 72)) [(FAPadding (mkSpan (mkPtok 32 "@leftPad" 21 5 63) (mkPtok 6 ")" 21 17 66)) (mkPaddingAttr (mkSpan (mkPtok 32 "@leftPad" 21 5 63) (mkPtok 6 ")" 21 17 66)) (mkPtok 32 "@leftPad" 21 5 63) (mkPtok 8 "(" 21 13 64) (Some (mkPtok 33 "'0'" 21 14 65)) (mkPtok 6 ")" 21 17 66)))] (MetaField (mkSpan (mkPtok 12 "char[" 22 4 67) (mkPtok 40 "," 22 27 72)) None (mkMetaDecl (mkSpan (mkPtok 12 "char[" 22 4 67) (mkPtok 40 "," 22 27 72)) (TyFixed (mkSpan (mkPtok 12 "char[" 22 4 67) (mkPtok 13 "]" 22 11 69)) (mkFixedString (mkSpan (mkPtok 12 "char[" 22 4 67) (mkPtok 13 "]" 22 11 69)) (mkPtok 12 "char[" 22 4 67) (mkPtok 30 "10" 22 9 68) (mkPtok 13 "]" 22 11 69))) (mkPtok 42 "UserName" 22 13 70) (Some (mkPtok 43 (string_of_bytes [96; 231; 148; 168; 230; 136; 183; 229; 144; 141; 96]%N) 22 22 71)) (mkPtok 40 "," 22 27 72)))); (mkFieldWithAttr (mkSpan (mkPtok 15 "string" 23 4 73) (mkPtok 40 "," 23 24 76)) [] (MetaField (mkSpan (mkPtok 15 "string" 23 4 73) (mkPtok 40 "," 23 24 76)) None (mkMetaDecl (mkSpan (mkPtok 15 "string" 23 4 73) (mkPtok 40 "," 23 24 76)) (TyDynamic (mkSpan (mkPtok 15 "string" 23 4 73) (mkPtok 15 "string" 23 4 73)) (mkDynamicString (mkSpan (mkPtok 15 "string" 23 4 73) (mkPtok 15 "string" 23 4 73)) (mkPtok 15 "string" 23 4 73))) (mkPtok 42 "Password" 23 11 74) (Some (mkPtok 43 (string_of_bytes [96; 229; 175; 134; 231; 160; 129; 96]%N) 23 20 75)) (mkPtok 40 "," 23 24 76)))); (mkFieldWithAttr (mkSpan (mkPtok 23 "uint64" 24 4 77) (mkPtok 40 "," 24 27 80)) [] (MetaField (mkSpan (mkPtok 23 "uint64" 24 4 77) (mkPtok 40 "," 24 27 80)) None (mkMetaDecl (mkSpan (mkPtok 23 "uint64" 24 4 77) (mkPtok 40 "," 24 27 80)) (TyBasic (mkSpan (mkPtok 23 "uint64" 24 4 77) (mkPtok 23 "uint64" 24 4 77)) (mkBasicType (mkSpan (mkPtok 23 "uint64" 24 4 77) (mkPtok 23 "uint64" 24 4 77)) (mkPtok 23 "uint64" 24 4 77))) (mkPtok 42 "ClientId" 24 11 78) (Some (mkPtok 43 (string_of_bytes [96; 229; 174; 162; 230; 136; 183; 231; 171; 175; 73; 68; 96]%N) 24 20 79)) (mkPtok 40 "," 24 27 80)))); (mkFieldWithAttr (mkSpan (mkPtok 21 "u16" 25 4 81) (mkPtok 40 "," 25 32 84)) [] (MetaField (mkSpan (mkPtok 21 "u16" 25 4 81) (mkPtok 40 "," 25 32 84)) None (mkMetaDecl (mkSpan (mkPtok 21 "u16" 25 4 81) (mkPtok 40 "," 25 32 84)) (TyBasic (mkSpan (mkPtok 21 "u16" 25 4 81) (mkPtok 21 "u16" 25 4 81)) (mkBasicType (mkSpan (mkPtok 21 "u16" 25 4 81) (mkPtok 21 "u16" 25 4 81)) (mkPtok 21 "u16" 25 4 81))) (mkPtok 42 "HeartbeatInterval" 25 8 82) (Some (mkPtok 43 (string_of_bytes [96; 229; 191; 131; 232; 183; 179; 233; 151; 180; 233; 154; 148; 96]%N) 25 26 83)) (mkPtok 40 "," 25 32 84))))] (mkPtok 3 "}" 26 0 85))); (DPacket (mkPacketDef (mkSpan (mkPtok 35 "packet" 28 0 86) (mkPtok 3 "}" 32 0 103)) None (mkPtok 35 "packet" 28 0 86) (mkPtok 42 "Logout" 28 7 87) (mkPtok 2 "{" 28 14 88) [(mkFieldWithAttr (mkSpan (mkPtok 32 "@rightPad" 29 6 89) (mkPtok 40 "," 30 27 98)) [(FAPadding (mkSpan (mkPtok 32 "@rightPad" 29 6 89) (mkPtok 6 ")" 29 19 92)) (mkPaddingAttr (mkSpan (mkPtok 32 "@rightPad" 29 6 89) (mkPtok 6 ")" 29 19 92)) (mkPtok 32 "@rightPad" 29 6 89) (mkPtok 8 "(" 29 15 90) (Some (mkPtok 33 "'0'" 29 16 91)) (mkPtok 6 ")" 29 19 92)))] (MetaField (mkSpan (mkPtok 12 "char[" 30 4 93) (mkPtok 40 "," 30 27 98)) None (mkMetaDecl (mkSpan (mkPtok 12 "char[" 30 4 93) (mkPtok 40 "," 30 27 98)) (TyFixed (mkSpan (mkPtok 12 "char[" 30 4 93) (mkPtok 13 "]" 30 11 95)) (mkFixedString (mkSpan (mkPtok 12 "char[" 30 4 93) (mkPtok 13 "]" 30 11 95)) (mkPtok 12 "char[" 30 4 93) (mkPtok 30 "10" 30 9 94) (mkPtok 13 "]" 30 11 95))) (mkPtok 42 "UserName" 30 13 96) (Some (mkPtok 43 (string_of_bytes [96; 231; 148; 168; 230; 136; 183; 229; 144; 141; 96]%N) 30 22 97)) (mkPtok 40 "," 30 27 98)))); (mkFieldWithAttr (mkSpan (mkPtok 23 "uint64" 31 4 99) (mkPtok 40 "," 31 27 102)) [] (MetaField (mkSpan (mkPtok 23 "uint64" 31 4 99) (mkPtok 40 "," 31 27 102)) None (mkMetaDecl (mkSpan (mkPtok 23 "uint64" 31 4 99) (mkPtok 40 "," 31 27 102)) (TyBasic (mkSpan (mkPtok 23 "uint64" 31 4 99) (mkPtok 23 "uint64" 31 4 99)) (mkBasicType (mkSpan (mkPtok 23 "uint64" 31 4 99) (mkPtok 23 "uint64" 31 4 99)) (mkPtok 23 "uint64" 31 4 99))) (mkPtok 42 "ClientId" 31 11 100) (Some (mkPtok 43 (string_of_bytes [96; 229; 174; 162; 230; 136; 183; 231; 171; 175; 73; 68; 96]%N) 31 20 101)) (mkPtok 40 "," 31 27 102))))] (mkPtok 3 "}" 32 0 103))); (DPacket (mkPacketDef (mkSpan (mkPtok 35 "packet" 34 0 104) (mkPtok 3 "}" 35 0 107)) None (mkPtok 35 "packet" 34 0 104) (mkPtok 42 "Heartbeat" 34 7 105) (mkPtok 2 "{" 34 17 106) [] (mkPtok 3 "}" 35 0 107))); (DPacket (mkPacketDef (mkSpan (mkPtok 35 "packet" 37 0 108) (mkPtok 3 "}" 52 0 173)) None (mkPtok 35 "packet" 37 0 108) (mkPtok 42 "RiskControlRequest" 37 7 109) (mkPtok 2 "{" 37 26 110) [(mkFieldWithAttr (mkSpan (mkPtok 15 "string" 38 4 111) (mkPtok 40 "," 38 32 114)) [] (MetaField (mkSpan (mkPtok 15 "string" 38 4 111) (mkPtok 40 "," 38 32 114)) None (mkMetaDecl (mkSpan (mkPtok 15 "string" 38 4 111) (mkPtok 40 "," 38 32 114)) (TyDynamic (mkSpan (mkPtok 15 "string" 38 4 111) (mkPtok 15 "string" 38 4 111)) (mkDynamicString (mkSpan (mkPtok 15 "string" 38 4 111) (mkPtok 15 "string" 38 4 111)) (mkPtok 15 "string" 38 4 111))) (mkPtok 42 "UniqueOrderId" 38 11 112) (Some (mkPtok 43 (string_of_bytes [96; 229; 148; 175; 228; 184; 128; 232; 174; 162; 229; 141; 149; 229; 143; 183; 96]%N) 38 25 113)) (mkPtok 40 "," 38 32 114)))); (mkFieldWithAttr (mkSpan (mkPtok 12 "char[" 39 4 115) (mkPtok 40 "," 39 28 120)) [] (MetaField (mkSpan (mkPtok 12 "char[" 39 4 115) (mkPtok 40 "," 39 28 120)) None (mkMetaDecl (mkSpan (mkPtok 12 "char[" 39 4 115) (mkPtok 40 "," 39 28 120)) (TyFixed (mkSpan (mkPtok 12 "char[" 39 4 115) (mkPtok 13 "]" 39 11 117)) (mkFixedString (mkSpan (mkPtok 12 "char[" 39 4 115) (mkPtok 13 "]" 39 11 117)) (mkPtok 12 "char[" 39 4 115) (mkPtok 30 "16" 39 9 116) (mkPtok 13 "]" 39 11 117))) (mkPtok 42 "ClOrdID" 39 13 118) (Some (mkPtok 43 (string_of_bytes [96; 229; 174; 162; 230; 136; 183; 232; 174; 162; 229; 141; 149; 229; 143; 183; 96]%N) 39 21 119)) (mkPtok 40 "," 39 28 120)))); (mkFieldWithAttr (mkSpan (mkPtok 12 "char[" 40 4 121) (mkPtok 40 "," 40 27 126)) [] (MetaField (mkSpan (mkPtok 12 "char[" 40 4 121) (mkPtok 40 "," 40 27 126)) None (mkMetaDecl (mkSpan (mkPtok 12 "char[" 40 4 121) (mkPtok 40 "," 40 27 126)) (TyFixed (mkSpan (mkPtok 12 "char[" 40 4 121) (mkPtok 13 "]" 40 10 123)) (mkFixedString (mkSpan (mkPtok 12 "char[" 40 4 121) (mkPtok 13 "]" 40 10 123)) (mkPtok 12 "char[" 40 4 121) (mkPtok 30 "3" 40 9 122) (mkPtok 13 "]" 40 10 123))) (mkPtok 42 "MarketID" 40 12 124) (Some (mkPtok 43 (string_of_bytes [96; 229; 184; 130; 229; 156; 186; 105; 100; 96]%N) 40 21 125)) (mkPtok 40 "," 40 27 126)))); (mkFieldWithAttr (mkSpan (mkPtok 12 "char[" 41 4 127) (mkPtok 40 "," 41 30 132)) [] (MetaField (mkSpan (mkPtok 12 "char[" 41 4 127) (mkPtok 40 "," 41 30 132)) None (mkMetaDecl (mkSpan (mkPtok 12 "char[" 41 4 127) (mkPtok 40 "," 41 30 132)) (TyFixed (mkSpan (mkPtok 12 "char[" 41 4 127) (mkPtok 13 "]" 41 11 129)) (mkFixedString (mkSpan (mkPtok 12 "char[" 41 4 127) (mkPtok 13 "]" 41 11 129)) (mkPtok 12 "char[" 41 4 127) (mkPtok 30 "12" 41 9 128) (mkPtok 13 "]" 41 11 129))) (mkPtok 42 "SecurityID" 41 13 130) (Some (mkPtok 43 (string_of_bytes [96; 232; 175; 129; 229; 136; 184; 228; 187; 163; 231; 160; 129; 96]%N) 41 24 131)) (mkPtok 40 "," 41 30 132)))); (mkFieldWithAttr (mkSpan (mkPtok 19 "char" 42 4 133) (mkPtok 40 "," 42 20 136)) [] (MetaField (mkSpan (mkPtok 19 "char" 42 4 133) (mkPtok 40 "," 42 20 136)) None (mkMetaDecl (mkSpan (mkPtok 19 "char" 42 4 133) (mkPtok 40 "," 42 20 136)) (TyBasic (mkSpan (mkPtok 19 "char" 42 4 133) (mkPtok 19 "char" 42 4 133)) (mkBasicType (mkSpan (mkPtok 19 "char" 42 4 133) (mkPtok 19 "char" 42 4 133)) (mkPtok 19 "char" 42 4 133))) (mkPtok 42 "Side" 42 9 134) (Some (mkPtok 43 (string_of_bytes [96; 228; 185; 176; 229; 141; 150; 230; 150; 185; 229; 144; 145; 96]%N) 42 14 135)) (mkPtok 40 "," 42 20 136)))); (mkFieldWithAttr (mkSpan (mkPtok 19 "char" 43 4 137) (mkPtok 40 "," 43 25 140)) [] (MetaField (mkSpan (mkPtok 19 "char" 43 4 137) (mkPtok 40 "," 43 25 140)) None (mkMetaDecl (mkSpan (mkPtok 19 "char" 43 4 137) (mkPtok 40 "," 43 25 140)) (TyBasic (mkSpan (mkPtok 19 "char" 43 4 137) (mkPtok 19 "char" 43 4 137)) (mkBasicType (mkSpan (mkPtok 19 "char" 43 4 137) (mkPtok 19 "char" 43 4 137)) (mkPtok 19 "char" 43 4 137))) (mkPtok 42 "OrderType" 43 9 138) (Some (mkPtok 43 (string_of_bytes [96; 232; 174; 162; 229; 141; 149; 231; 177; 187; 229; 158; 139; 96]%N) 43 19 139)) (mkPtok 40 "," 43 25 140)))); (mkFieldWithAttr (mkSpan (mkPtok 23 "u64" 44 4 141) (mkPtok 40 "," 44 18 144)) [] (MetaField (mkSpan (mkPtok 23 "u64" 44 4 141) (mkPtok 40 "," 44 18 144)) None (mkMetaDecl (mkSpan (mkPtok 23 "u64" 44 4 141) (mkPtok 40 "," 44 18 144)) (TyBasic (mkSpan (mkPtok 23 "u64" 44 4 141) (mkPtok 23 "u64" 44 4 141)) (mkBasicType (mkSpan (mkPtok 23 "u64" 44 4 141) (mkPtok 23 "u64" 44 4 141)) (mkPtok 23 "u64" 44 4 141))) (mkPtok 42 "Price" 44 8 142) (Some (mkPtok 43 (string_of_bytes [96; 228; 187; 183; 230; 160; 188; 96]%N) 44 14 143)) (mkPtok 40 "," 44 18 144)))); (mkFieldWithAttr (mkSpan (mkPtok 22 "u32" 45 4 145) (mkPtok 40 "," 45 16 148)) [] (MetaField (mkSpan (mkPtok 22 "u32" 45 4 145) (mkPtok 40 "," 45 16 148)) None (mkMetaDecl (mkSpan (mkPtok 22 "u32" 45 4 145) (mkPtok 40 "," 45 16 148)) (TyBasic (mkSpan (mkPtok 22 "u32" 45 4 145) (mkPtok 22 "u32" 45 4 145)) (mkBasicType (mkSpan (mkPtok 22 "u32" 45 4 145) (mkPtok 22 "u32" 45 4 145)) (mkPtok 22 "u32" 45 4 145))) (mkPtok 42 "Qty" 45 8 146) (Some (mkPtok 43 (string_of_bytes [96; 230; 149; 176; 233; 135; 143; 96]%N) 45 12 147)) (mkPtok 40 "," 45 16 148)))); (mkFieldWithAttr (mkSpan (mkPtok 36 "repeat" 46 4 149) (mkPtok 40 "," 46 34 153)) [] (MetaField (mkSpan (mkPtok 36 "repeat" 46 4 149) (mkPtok 40 "," 46 34 153)) (Some (mkPtok 36 "repeat" 46 4 149)) (mkMetaDecl (mkSpan (mkPtok 15 "string" 46 11 150) (mkPtok 40 "," 46 34 153)) (TyDynamic (mkSpan (mkPtok 15 "string" 46 11 150) (mkPtok 15 "string" 46 11 150)) (mkDynamicString (mkSpan (mkPtok 15 "string" 46 11 150) (mkPtok 15 "string" 46 11 150)) (mkPtok 15 "string" 46 11 150))) (mkPtok 42 "ExtraInfo" 46 18 151) (Some (mkPtok 43 (string_of_bytes [96; 233; 153; 132; 229; 138; 160; 228; 191; 161; 230; 129; 175; 96]%N) 46 28 152)) (mkPtok 40 "," 46 34 153)))); (mkFieldWithAttr (mkSpan (mkPtok 36 "repeat" 47 4 154) (mkPtok 40 "," 51 6 172)) [] (InerObjectField (mkSpan (mkPtok 36 "repeat" 47 4 154) (mkPtok 40 "," 51 6 172)) (Some (mkPtok 36 "repeat" 47 4 154)) (InerObjectDecl (mkSpan (mkPtok 42 "SubOrder" 47 11 155) (mkPtok 3 "}" 51 5 171)) (mkPtok 42 "SubOrder" 47 11 155) (mkPtok 2 "{" 47 20 156) [(MetaField (mkSpan (mkPtok 12 "char[" 48 6 157) (mkPtok 40 "," 48 29 162)) None (mkMetaDecl (mkSpan (mkPtok 12 "char[" 48 6 157) (mkPtok 40 "," 48 29 162)) (TyFixed (mkSpan (mkPtok 12 "char[" 48 6 157) (mkPtok 13 "]" 48 13 159)) (mkFixedString (mkSpan (mkPtok 12 "char[" 48 6 157) (mkPtok 13 "]" 48 13 159)) (mkPtok 12 "char[" 48 6 157) (mkPtok 30 "16" 48 11 158) (mkPtok 13 "]" 48 13 159))) (mkPtok 42 "ClOrdID" 48 15 160) (Some (mkPtok 43 (string_of_bytes [96; 229; 173; 144; 232; 174; 162; 229; 141; 149; 229; 143; 183; 96]%N) 48 23 161)) (mkPtok 40 "," 48 29 162))); (MetaField (mkSpan (mkPtok 23 "u64" 49 6 163) (mkPtok 40 "," 49 23 166)) None (mkMetaDecl (mkSpan (mkPtok 23 "u64" 49 6 163) (mkPtok 40 "," 49 23 166)) (TyBasic (mkSpan (mkPtok 23 "u64" 49 6 163) (mkPtok 23 "u64" 49 6 163)) (mkBasicType (mkSpan (mkPtok 23 "u64" 49 6 163) (mkPtok 23 "u64" 49 6 163)) (mkPtok 23 "u64" 49 6 163))) (mkPtok 42 "Price" 49 10 164) (Some (mkPtok 43 (string_of_bytes [96; 229; 173; 144; 232; 174; 162; 229; 141; 149; 228; 187; 183; 230; 160; 188; 96]%N) 49 16 165)) (mkPtok 40 "," 49 23 166))); (MetaField (mkSpan (mkPtok 22 "u32" 50 6 167) (mkPtok 40 "," 50 21 170)) None (mkMetaDecl (mkSpan (mkPtok 22 "u32" 50 6 167) (mkPtok 40 "," 50 21 170)) (TyBasic (mkSpan (mkPtok 22 "u32" 50 6 167) (mkPtok 22 "u32" 50 6 167)) (mkBasicType (mkSpan (mkPtok 22 "u32" 50 6 167) (mkPtok 22 "u32" 50 6 167)) (mkPtok 22 "u32" 50 6 167))) (mkPtok 42 "Qty" 50 10 168) (Some (mkPtok 43 (string_of_bytes [96; 229; 173; 144; 232; 174; 162; 229; 141; 149; 230; 149; 176; 233; 135; 143; 96]%N) 50 14 169)) (mkPtok 40 "," 50 21 170)))] (mkPtok 3 "}" 51 5 171)) (mkPtok 40 "," 51 6 172)))] (mkPtok 3 "}" 52 0 173))); (DPacket (mkPacketDef (mkSpan (mkPtok 35 "packet" 54 0 174) (mkPtok 3 "}" 59 0 192)) None (mkPtok 35 "packet" 54 0 174) (mkPtok 42 "RiskControlResponse" 54 7 175) (mkPtok 2 "{" 54 27 176) [(mkFieldWithAttr (mkSpan (mkPtok 15 "string" 55 4 177) (mkPtok 40 "," 55 32 180)) [] (MetaField (mkSpan (mkPtok 15 "string" 55 4 177) (mkPtok 40 "," 55 32 180)) None (mkMetaDecl (mkSpan (mkPtok 15 "string" 55 4 177) (mkPtok 40 "," 55 32 180)) (TyDynamic (mkSpan (mkPtok 15 "string" 55 4 177) (mkPtok 15 "string" 55 4 177)) (mkDynamicString (mkSpan (mkPtok 15 "string" 55 4 177) (mkPtok 15 "string" 55 4 177)) (mkPtok 15 "string" 55 4 177))) (mkPtok 42 "UniqueOrderId" 55 11 178) (Some (mkPtok 43 (string_of_bytes [96; 229; 148; 175; 228; 184; 128; 232; 174; 162; 229; 141; 149; 229; 143; 183; 96]%N) 55 25 179)) (mkPtok 40 "," 55 32 180)))); (mkFieldWithAttr (mkSpan (mkPtok 26 "i32" 56 4 181) (mkPtok 40 "," 56 19 184)) [] (MetaField (mkSpan (mkPtok 26 "i32" 56 4 181) (mkPtok 40 "," 56 19 184)) None (mkMetaDecl (mkSpan (mkPtok 26 "i32" 56 4 181) (mkPtok 40 "," 56 19 184)) (TyBasic (mkSpan (mkPtok 26 "i32" 56 4 181) (mkPtok 26 "i32" 56 4 181)) (mkBasicType (mkSpan (mkPtok 26 "i32" 56 4 181) (mkPtok 26 "i32" 56 4 181)) (mkPtok 26 "i32" 56 4 181))) (mkPtok 42 "Status" 56 8 182) (Some (mkPtok 43 (string_of_bytes [96; 231; 138; 182; 230; 128; 129; 96]%N) 56 15 183)) (mkPtok 40 "," 56 19 184)))); (mkFieldWithAttr (mkSpan (mkPtok 15 "string" 57 4 185) (mkPtok 40 "," 57 21 188)) [] (MetaField (mkSpan (mkPtok 15 "string" 57 4 185) (mkPtok 40 "," 57 21 188)) None (mkMetaDecl (mkSpan (mkPtok 15 "string" 57 4 185) (mkPtok 40 "," 57 21 188)) (TyDynamic (mkSpan (mkPtok 15 "string" 57 4 185) (mkPtok 15 "string" 57 4 185)) (mkDynamicString (mkSpan (mkPtok 15 "string" 57 4 185) (mkPtok 15 "string" 57 4 185)) (mkPtok 15 "string" 57 4 185))) (mkPtok 42 "Msg" 57 11 186) (Some (mkPtok 43 (string_of_bytes [96; 231; 187; 147; 230; 158; 156; 228; 191; 161; 230; 129; 175; 96]%N) 57 15 187)) (mkPtok 40 "," 57 21 188)))); (mkFieldWithAttr (mkSpan (mkPtok 36 "repeat" 58 4 189) (mkPtok 40 "," 58 17 191)) [] (ObjectField (mkSpan (mkPtok 36 "repeat" 58 4 189) (mkPtok 40 "," 58 17 191)) (Some (mkPtok 36 "repeat" 58 4 189)) (mkPtok 42 "Detail" 58 11 190) None None (mkPtok 40 "," 58 17 191)))] (mkPtok 3 "}" 59 0 192))); (DPacket (mkPacketDef (mkSpan (mkPtok 35 "packet" 61 0 193) (mkPtok 3 "}" 64 0 204)) None (mkPtok 35 "packet" 61 0 193) (mkPtok 42 "Detail" 61 7 194) (mkPtok 2 "{" 61 14 195) [(mkFieldWithAttr (mkSpan (mkPtok 15 "string" 62 4 196) (mkPtok 40 "," 62 26 199)) [] (MetaField (mkSpan (mkPtok 15 "string" 62 4 196) (mkPtok 40 "," 62 26 199)) None (mkMetaDecl (mkSpan (mkPtok 15 "string" 62 4 196) (mkPtok 40 "," 62 26 199)) (TyDynamic (mkSpan (mkPtok 15 "string" 62 4 196) (mkPtok 15 "string" 62 4 196)) (mkDynamicString (mkSpan (mkPtok 15 "string" 62 4 196) (mkPtok 15 "string" 62 4 196)) (mkPtok 15 "string" 62 4 196))) (mkPtok 42 "RuleName" 62 11 197) (Some (mkPtok 43 (string_of_bytes [96; 232; 167; 132; 229; 136; 153; 229; 144; 141; 231; 167; 176; 96]%N) 62 20 198)) (mkPtok 40 "," 62 26 199)))); (mkFieldWithAttr (mkSpan (mkPtok 21 "u16" 63 4 200) (mkPtok 40 "," 63 19 203)) [] (MetaField (mkSpan (mkPtok 21 "u16" 63 4 200) (mkPtok 40 "," 63 19 203)) None (mkMetaDecl (mkSpan (mkPtok 21 "u16" 63 4 200) (mkPtok 40 "," 63 19 203)) (TyBasic (mkSpan (mkPtok 21 "u16" 63 4 200) (mkPtok 21 "u16" 63 4 200)) (mkBasicType (mkSpan (mkPtok 21 "u16" 63 4 200) (mkPtok 21 "u16" 63 4 200)) (mkPtok 21 "u16" 63 4 200))) (mkPtok 42 "Code" 63 8 201) (Some (mkPtok 43 (string_of_bytes [96; 229; 142; 159; 229; 155; 160; 228; 187; 163; 231; 160; 129; 96]%N) 63 13 202)) (mkPtok 40 "," 63 19 203))))] (mkPtok 3 "}" 64 0 204)))])).
Eval vm_compute in ("<<<M310>>>" ++ check (runes_of_ascii "packet packet
asx
{ Z9_ Header// " ++ [128512]%N ++ runes_of_ascii " emoji
,} packet pack
    { }
")).
Eval vm_compute in ("<<<M320>>>" ++ check (runes_of_ascii "packet
asx
{ { Z9_ Header// " ++ [128512]%N ++ runes_of_ascii " emoji
,} packet pack
    { }
")).
Eval vm_compute in ("<<<M330>>>" ++ check (runes_of_ascii "packet
asx
{ Z9_ Header Header// " ++ [128512]%N ++ runes_of_ascii " emoji
,} packet pack
    { }
")).
Eval vm_compute in ("<<<M340>>>" ++ check (runes_of_ascii "packet
asx
{ Z9_ Header// " ++ [128512]%N ++ runes_of_ascii " emoji
,} } packet pack
    { }
")).
Eval vm_compute in ("<<<M350>>>" ++ check (runes_of_ascii "packet
asx
{ Z9_ Header// " ++ [128512]%N ++ runes_of_ascii " emoji
,} packet pack pack
    { }
")).
Eval vm_compute in ("<<<M360>>>" ++ check (runes_of_ascii "packet
asx
{ Z9_ Header// " ++ [128512]%N ++ runes_of_ascii " emoji
,} packet pack
    { } }
")).
Eval vm_compute in ("<<<M370>>>" ++ check (runes_of_ascii "/packet
asx
{ Z9_ Header// " ++ [128512]%N ++ runes_of_ascii " emoji
,} packet pack
    { }
")).
Eval vm_compute in ("<<<M380>>>" ++ check (runes_of_ascii "packet
asx
{ Z9_ @xHeader// " ++ [128512]%N ++ runes_of_ascii " emoji
,} packet pack
    { }
")).
Eval vm_compute in ("<<<M390>>>" ++ check (runes_of_ascii "MetaData  { char[ // `tick` ""quote"" 'q'
3] body, } packet o{
u8
charz ,
    }")).
Eval vm_compute in ("<<<M400>>>" ++ check (runes_of_ascii "MetaData o {  // `tick` ""quote"" 'q'
3] body, } packet o{
u8
charz ,
    }")).
Eval vm_compute in ("<<<M410>>>" ++ check (runes_of_ascii "MetaData o { char[ // `tick` ""quote"" 'q'
3 body, } packet o{
u8
charz ,
    }")).
Eval vm_compute in ("<<<M420>>>" ++ check (runes_of_ascii "MetaData o { char[ // `tick` ""quote"" 'q'
3] body } packet o{
u8
charz ,
    }")).
Eval vm_compute in ("<<<M430>>>" ++ check (runes_of_ascii "MetaData o { char[ // `tick` ""quote"" 'q'
3] body, }  o{
u8
charz ,
    }")).
Eval vm_compute in ("<<<M440>>>" ++ check (runes_of_ascii "MetaData o { char[ // `tick` ""quote"" 'q'
3] body, } packet o
u8
charz ,
    }")).
Eval vm_compute in ("<<<M450>>>" ++ check (runes_of_ascii "MetaData o { char[ // `tick` ""quote"" 'q'
3] body, } packet o{
u8
 ,
    }")).
Eval vm_compute in ("<<<M460>>>" ++ check (runes_of_ascii "MetaData o { char[ // `tick` ""quote"" 'q'
3] body, } packet o{
u8
charz ,
    ")).
Eval vm_compute in ("<<<M470>>>" ++ check (runes_of_ascii "MetaData o { char[ // `tick` ""quote"" 'q'
3] body, } packet o{
u8~
charz ,
    }")).
Eval vm_compute in ("<<<M480>>>" ++ check (runes_of_ascii "MetaData o { char[ // `tick` ""quote"" 'q'
3] body, } packet o{
u8
cha" ++ [127]%N ++ runes_of_ascii "rz ,
    }")).
Eval vm_compute in ("<<<M490>>>" ++ check (@nil rune)).
Eval vm_compute in ("<<<T490>>>" ++ terms [mkTok 0 "<EOF>" 1 0 false] (mkPacket (mkPtok 0 "<EOF>" 1 0 0) None [])).
Eval vm_compute in ("<<<M500>>>" ++ check (runes_of_ascii "options {")).
Eval vm_compute in ("<<<M510>>>" ++ check (runes_of_ascii "options {calculatedFrom =")).
Eval vm_compute in ("<<<M520>>>" ++ check (runes_of_ascii "op")).
Eval vm_compute in ("<<<M530>>>" ++ check (runes_of_ascii "options {calculatedFrom@lengthOf =	int8 ;}

")).
Eval vm_compute in ("<<<M540>>>" ++ check (runes_of_ascii "options {a" ++ [769]%N ++ runes_of_ascii "b =	int8 ;}

")).
Eval vm_compute in ("<<<M550>>>" ++ check (runes_of_ascii "
MetaData chars {Logon packetx,
    float calculatedFrom
,  u32 i64_ ,")).
Eval vm_compute in ("<<<M560>>>" ++ check (runes_of_ascii "
")).
Eval vm_compute in ("<<<M570>>>" ++ check (runes_of_ascii "//")).
Eval vm_compute in ("<<<M580>>>" ++ check (runes_of_ascii "float64 @lengthOf( false : f32")).
Eval vm_compute in ("<<<M590>>>" ++ check (runes_of_ascii "S")).
