From FP Require Import Lexer Parser ShowPT Digest.
From Coq Require Import String List NArith.
Import ListNotations.
Open Scope string_scope.
Set Printing Width 100000000.
Set Printing Depth 100000000.
Definition nl : string := String (Ascii.ascii_of_nat 10) EmptyString.
Definition model_lex (rs : list rune) : string := show_toks (lex rs).
Definition model_parse (rs : list rune) : string :=
  show_pt (match lex rs with Some ts => parse ts | None => None end).
(* coqc is slow at printing long strings: digests first (Digest.v), full texts on demand *)
Definition check (rs : list rune) : string :=
  digest (model_lex rs) ++ " " ++ digest (model_parse rs).
Definition full (rs : list rune) : string := model_lex rs ++ nl ++ model_parse rs.
Definition terms (ts : list tok) (t : pt) : string :=
  digest (show_toks (Some ts)) ++ " " ++ digest (show_pt (Some t)) ++ " " ++ digest (show_pt (parse ts)).
Definition terms_full (ts : list tok) (t : pt) : string :=
  show_toks (Some ts) ++ nl ++ show_pt (Some t) ++ nl ++ show_pt (parse ts).
Eval vm_compute in ("<<<M2>>>" ++ check (runes_of_ascii "packet
A { f32a { match float
    as o	{"""" : lengthOf,
} ,
} , uint32 matchKey
, @calculatedFrom( ""a	b"" )
u128
//x
// " ++ [27880; 37322]%N ++ runes_of_ascii "
{ repeat
string
    /// triple
    len
,
    repeat float asx, } ,
    T { u32 matchKey  , f64 _x
@calculatedFrom( """ ++ [28040; 24687]%N ++ runes_of_ascii """
)
,	string
    // " ++ [27880; 37322]%N ++ runes_of_ascii "
    stringy
    , }
    ,crc
{ match
    chars //x
as roots{	255 : i8i8 ,""\n""
    : metadata , 1 : int }, // " ++ [128512]%N ++ runes_of_ascii " emoji
} // " ++ [128512]%N ++ runes_of_ascii " emoji
,calculatedFrom{ // packet A { u8 x, }
match
repeatCount  as u128 {
    ""a\""b""
    // a // b
    :body
, }
    , repeat char[
    // " ++ [27880; 37322]%N ++ runes_of_ascii "
    0123456789
]
Z9_`crlf
line`,// " ++ [27880; 37322]%N ++ runes_of_ascii "
} , @leftPad ( '0' ) @lengthOf(
    Z9_ ) // " ++ [128512]%N ++ runes_of_ascii " emoji
@lengthOf(charz )	match	Logon as A
    {
[ 007
    ] //	t
:  Packet
,
    00 : A [  0
    ] :o
, """ ++ [233]%N ++ runes_of_ascii "t" ++ [233]%N ++ runes_of_ascii """// c
: body ,
    4294967296 : MetaDataX	, 10 :asx
, } , }")).
Eval vm_compute in ("<<<M12>>>" ++ check (runes_of_ascii "
")).
Eval vm_compute in ("<<<M22>>>" ++ check (runes_of_ascii "// packet A { u8 x, }
root packet msg_type
    { match repeatCount as metadata
{ [ ""\n"" ] :
    Logon
    //x
    , } , @lengthOf( leftPad )
//	t
//	t
repeat tag `
`
,
    // packet A { u8 x, }
    a1 @lengthOf( f32a //
) ,match
// trailing space 
//	t
tag as T
    {	1 :
    A,	7 :
u8x }, @calculatedFrom(
""packet"" ) uint8 a1,@calculatedFrom(
""`tick`"" ) int8 repeatCount@lengthOf(
Foo )`doc` ,
    string
    u
    `" ++ [233]%N ++ runes_of_ascii "`// c
,match float as Z9_ { ""a	b"" :// packet A { u8 x, }
tag, 42	:x_y_z
    """" : len	, } , match
//	t
//
Pad	as falsey {""" ++ [128512]%N ++ runes_of_ascii """ : x , 255 : roots [""1""
,	""a\\"" ] :i64_ ,[ ""it's"",	""1""	] : repeatCount	,
00 : As ,	} ,
repeat stringy `" ++ [233]%N ++ runes_of_ascii "`,
    }
root/// triple
packet
x {
// @lengthOf(
// @lengthOf(
@tag(	65535
) match roots
// " ++ [128512]%N ++ runes_of_ascii " emoji
// " ++ [128512]%N ++ runes_of_ascii " emoji
as u8x { 0123456789 : x_y_z ""abc""  :
float
//
// a // b
, 007
    : u8x ,
} , zchar[
    00]
string_	,	match  x as	len{
""a\""b"" :roots }
, Foo{
repeat	int32
trueish , string
//x
// " ++ [128512]%N ++ runes_of_ascii " emoji
u128 `it's` ,u8 o
    @calculatedFrom(""abc"" )`two words` ,
repeat string_ trueish, }  ,
    @calculatedFrom( ""\" ++ [233]%N ++ runes_of_ascii """ )
    @calculatedFrom(""\n"") zchar[007]  repeatCount @calculatedFrom(	""" ++ [233]%N ++ runes_of_ascii "t" ++ [233]%N ++ runes_of_ascii """ ) `line1
line2` , // " ++ [27880; 37322]%N ++ runes_of_ascii "
repeat u64 u
`u8 x,` // " ++ [128512]%N ++ runes_of_ascii " emoji
, repeat zchar[ 007 ]
metadata `doc` , uint32 len @lengthOf( x_y_z )
,
// packet A { u8 x, }
// @lengthOf(
char[ 4294967296] x_y_z @lengthOf( Z9_ // packet A { u8 x, }
) `doc` , o	,	}
")).
Eval vm_compute in ("<<<M32>>>" ++ check (runes_of_ascii "root
packet int { match charz as body // " ++ [27880; 37322]%N ++ runes_of_ascii "
{ /// triple
[
""`tick`""
] // packet A { u8 x, }
: BodyLength ,10 :trueish
, 0: crc
[ 00 // " ++ [128512]%N ++ runes_of_ascii " emoji
, ""x y"" ,
""a\""b"" ,
    0123456789, 0 ,
""// no comment""] : chars, }
, @leftPad ( '\x00' ) char[ 1 ] i64_  ,@tag( 255 ) char[] o	,@tag(/// triple
7 //	t
) char[] packetx @calculatedFrom( ""packet""  ) ,uint8 len @lengthOf( pack ) ,
    @calculatedFrom(// c
""abc"" )repeat //	t
len
Pad `tab	here`,
i8
float `it's`	,} packet repeatCount {	match
i64_ as x { 42
:metadata , [ ""1"" ] : //
leftPad, [ 42 ] :asx , [""\" ++ [233]%N ++ runes_of_ascii """, 0 , ""{,}""	,
""a	b"",
    4294967296 ]
    // packet A { u8 x, }
    : crc
,
""a\\""
:  lengthOf , }, }
")).
Eval vm_compute in ("<<<M42>>>" ++ check (runes_of_ascii "  
// `tick` ""quote"" 'q'
")).
Eval vm_compute in ("<<<M52>>>" ++ check (runes_of_ascii "packet len	{ match a1 as u8x { ""\" ++ [233]%N ++ runes_of_ascii """	:
    zchar , // `tick` ""quote"" 'q'
""CRC32""// a // b
:metadata
    , [ ""x y"" ,""" ++ [128512]%N ++ runes_of_ascii """ , ""{,}""	,
""a	b"" ]
    // c
    : Foo [4294967296 //
,
""""]
    : int , }// trailing space 
, @tag( 4294967296	) f64 pack/// triple
@calculatedFrom(""abc""
)
    , }")).
Eval vm_compute in ("<<<M62>>>" ++ check (runes_of_ascii "packet BodyLength {
}
")).
Eval vm_compute in ("<<<T62>>>" ++ terms [mkTok 35 "packet" 1 0 false; mkTok 42 "BodyLength" 1 7 false; mkTok 2 "{" 1 18 false; mkTok 3 "}" 2 0 false; mkTok 0 "<EOF>" 3 0 false] (mkPacket (mkPtok 35 "packet" 1 0 0) (Some (mkPtok 3 "}" 2 0 3)) [(DPacket (mkPacketDef (mkSpan (mkPtok 35 "packet" 1 0 0) (mkPtok 3 "}" 2 0 3)) None (mkPtok 35 "packet" 1 0 0) (mkPtok 42 "BodyLength" 1 7 1) (mkPtok 2 "{" 1 18 2) [] (mkPtok 3 "}" 2 0 3)))])).
Eval vm_compute in ("<<<M72>>>" ++ check (runes_of_ascii "root packet Header { repeat Packet _x, calculatedFrom Pad `it's`, int64// packet A { u8 x, }
chars ,
    }
packet
    chars{ }
")).
Eval vm_compute in ("<<<M82>>>" ++ check (runes_of_ascii "root packet
    int { } packet Packet
/// triple
// " ++ [128512]%N ++ runes_of_ascii " emoji
{
    match f32a
    // c
    as	Packet {""1""// `tick` ""quote"" 'q'
: packetx ,
}  , MetaDataX
x_y_z //	t
`two words`, // @lengthOf(
@calculatedFrom( ""abc""
    ) repeat Packet{
    asx {
i64_ Foo , repeat string falsey`it's`	,
    } ,int64 i64_`" ++ [233]%N ++ runes_of_ascii "` , } ,
@calculatedFrom(
""" ++ [128512]%N ++ runes_of_ascii """ )
    zchar[
    65535//	t
] int ,
i64_
`a\`
, } MetaData zchar  {
    Packet leftPad , len a1
    `crlf
line` ,  char[	00] Pad ,Foo	Logon ,	leftPad o
    ,i64 roots
    `{ , }` , } MetaData
zchar { u32 Header
    , char[
4294967296 ] Packet `" ++ [28040; 24687; 31867; 22411]%N ++ runes_of_ascii "`
    , } options{
    metadata  = ""\n""matchKey // " ++ [27880; 37322]%N ++ runes_of_ascii "
= ""CRC32""
    ; }")).
Eval vm_compute in ("<<<M92>>>" ++ check (runes_of_ascii "packet	x_y_z
{i64_ @calculatedFrom(""{,}""
    ) , } packet Logon  {
} options {
    tag	= ""packet"" ; } // trailing space ")).
Eval vm_compute in ("<<<M102>>>" ++ check (runes_of_ascii "root // @lengthOf(
packet
Header
{ @calculatedFrom( ""CRC32"" )T `say ""hi""`	,// @lengthOf(
}")).
Eval vm_compute in ("<<<M112>>>" ++ check (runes_of_ascii "packet A {repeat
o zchar ,
}
")).
Eval vm_compute in ("<<<M122>>>" ++ check (runes_of_ascii "packet i64_ {  @lengthOf( x )o @lengthOf(  charz)
    , i64_ @calculatedFrom( """")  , @calculatedFrom( ""packet"" ) @calculatedFrom(""a\""b"" ) match roots as As{ [
10	, ""a\""b""
, 65535 ,	""\" ++ [233]%N ++ runes_of_ascii """ ]	:Foo ,
0123456789
:calculatedFrom
""a\\"" :A ,}
    ,
    //	t
    string
    len @calculatedFrom(""{,}"" //x
) `line1
line2` ,@leftPad // @lengthOf(
( '\x00'
) uint16 options1
@lengthOf(
    crc )
    , }
")).
Eval vm_compute in ("<<<M132>>>" ++ check (runes_of_ascii "// a // b
packet
    i64_{ // " ++ [128512]%N ++ runes_of_ascii " emoji
}
")).
Eval vm_compute in ("<<<T132>>>" ++ terms [mkTok 44 "// a // b" 1 0 true; mkTok 35 "packet" 2 0 false; mkTok 42 "i64_" 3 4 false; mkTok 2 "{" 3 8 false; mkTok 44 (string_of_bytes [47; 47; 32; 240; 159; 152; 128; 32; 101; 109; 111; 106; 105]%N) 3 10 true; mkTok 3 "}" 4 0 false; mkTok 0 "<EOF>" 5 0 false] (mkPacket (mkPtok 35 "packet" 2 0 1) (Some (mkPtok 3 "}" 4 0 5)) [(DPacket (mkPacketDef (mkSpan (mkPtok 35 "packet" 2 0 1) (mkPtok 3 "}" 4 0 5)) None (mkPtok 35 "packet" 2 0 1) (mkPtok 42 "i64_" 3 4 2) (mkPtok 2 "{" 3 8 3) [] (mkPtok 3 "}" 4 0 5)))])).
Eval vm_compute in ("<<<M142>>>" ++ check (runes_of_ascii "
MetaData body
{ As msg_type ,
    zchar[ 0123456789 ]
Foo , x_y_z rootA
`u8 x,`
    ,
    zchar[
65535 ] stringy , i8 x_y_z
    ,Foo // `tick` ""quote"" 'q'
T
    `tab	here`	, }")).
Eval vm_compute in ("<<<M152>>>" ++ check (runes_of_ascii "packet
i8i8 { } // c")).
Eval vm_compute in ("<<<M162>>>" ++ check (runes_of_ascii "
MetaData BodyLength
{
zchar[4294967296 ]
    T `" ++ [233]%N ++ runes_of_ascii "` ,
f32 uint8x
    ,u16 asx`a\`
    //x
    , MetaDataX i64_
    `a\`,char[]
    /// triple
    Z9_ ,	}")).
Eval vm_compute in ("<<<M172>>>" ++ check (runes_of_ascii "  packet i8i8 {  zchar[ 00 ]
a1 `` ,
    zchar[10 ] Foo @calculatedFrom(  ""\n"" )
,/// triple
repeat
    char[]
    body`u8 x,` , @calculatedFrom( """ ++ [233]%N ++ runes_of_ascii "t" ++ [233]%N ++ runes_of_ascii """ ) @tag( 0 ) pack len ,
zchar
    @lengthOf(
    // `tick` ""quote"" 'q'
    Z9_
    ) , @lengthOf( roots )
    char[ 10 ] repeatCount
// trailing space 
// @lengthOf(
@calculatedFrom(
    // @lengthOf(
    """ ++ [28040; 24687]%N ++ runes_of_ascii """ ) `u8 x,` ,@lengthOf( stringy	) // " ++ [128512]%N ++ runes_of_ascii " emoji
@calculatedFrom( ""{,}"" ) @tag(255 )char[]zchar, @calculatedFrom(	""// no comment"") a1, }
options
    {options1=
    false
    Header
= false ; trueish=zchar[
007] charz = '0' ; // " ++ [27880; 37322]%N ++ runes_of_ascii "
a1 =255 ;
    }
packet _x { // packet A { u8 x, }
}
")).
Eval vm_compute in ("<<<M182>>>" ++ check (runes_of_ascii "// `tick` ""quote"" 'q'


")).
Eval vm_compute in ("<<<M192>>>" ++ check (runes_of_ascii "
")).
Eval vm_compute in ("<<<M202>>>" ++ check (runes_of_ascii "root packet crc {match
// `tick` ""quote"" 'q'
// c
len as metadata { [ ""CRC32""
    , ""{,}"" ]: lengthOf //	t
, ""abc"": Z9_	, }
, @tag(
    007 )// @lengthOf(
chars @lengthOf( o ), @rightPad( ' '
)
options1
    {
u , repeat packetx int
`line1
line2` ,} , @tag(255
    )
    pack , }")).
Eval vm_compute in ("<<<T202>>>" ++ terms [mkTok 34 "root" 1 0 false; mkTok 35 "packet" 1 5 false; mkTok 42 "crc" 1 12 false; mkTok 2 "{" 1 16 false; mkTok 38 "match" 1 17 false; mkTok 44 "// `tick` ""quote"" 'q'" 2 0 true; mkTok 44 "// c" 3 0 true; mkTok 42 "len" 4 0 false; mkTok 17 "as" 4 4 false; mkTok 42 "metadata" 4 7 false; mkTok 2 "{" 4 16 false; mkTok 18 "[" 4 18 false; mkTok 31 """CRC32""" 4 20 false; mkTok 40 "," 5 4 false; mkTok 31 """{,}""" 5 6 false; mkTok 13 "]" 5 12 false; mkTok 39 ":" 5 13 false; mkTok 42 "lengthOf" 5 15 false; mkTok 44 (string_of_bytes [47; 47; 9; 116]%N) 5 24 true; mkTok 40 "," 6 0 false; mkTok 31 """abc""" 6 2 false; mkTok 39 ":" 6 7 false; mkTok 42 "Z9_" 6 9 false; mkTok 40 "," 6 13 false; mkTok 3 "}" 6 15 false; mkTok 40 "," 7 0 false; mkTok 9 "@tag(" 7 2 false; mkTok 30 "007" 8 4 false; mkTok 6 ")" 8 8 false; mkTok 44 "// @lengthOf(" 8 9 true; mkTok 42 "chars" 9 0 false; mkTok 7 "@lengthOf(" 9 6 false; mkTok 42 "o" 9 17 false; mkTok 6 ")" 9 19 false; mkTok 40 "," 9 20 false; mkTok 32 "@rightPad" 9 22 false; mkTok 8 "(" 9 31 false; mkTok 33 "' '" 9 33 false; mkTok 6 ")" 10 0 false; mkTok 42 "options1" 11 0 false; mkTok 2 "{" 12 4 false; mkTok 42 "u" 13 0 false; mkTok 40 "," 13 2 false; mkTok 36 "repeat" 13 4 false; mkTok 42 "packetx" 13 11 false; mkTok 42 "int" 13 19 false; mkTok 43 (string_of_bytes [96; 108; 105; 110; 101; 49; 10; 108; 105; 110; 101; 50; 96]%N) 14 0 false; mkTok 40 "," 15 7 false; mkTok 3 "}" 15 8 false; mkTok 40 "," 15 10 false; mkTok 9 "@tag(" 15 12 false; mkTok 30 "255" 15 17 false; mkTok 6 ")" 16 4 false; mkTok 42 "pack" 17 4 false; mkTok 40 "," 17 9 false; mkTok 3 "}" 17 11 false; mkTok 0 "<EOF>" 17 12 false] (mkPacket (mkPtok 34 "root" 1 0 0) (Some (mkPtok 3 "}" 17 11 55)) [(DPacket (mkPacketDef (mkSpan (mkPtok 34 "root" 1 0 0) (mkPtok 3 "}" 17 11 55)) (Some (mkPtok 34 "root" 1 0 0)) (mkPtok 35 "packet" 1 5 1) (mkPtok 42 "crc" 1 12 2) (mkPtok 2 "{" 1 16 3) [(mkFieldWithAttr (mkSpan (mkPtok 38 "match" 1 17 4) (mkPtok 40 "," 7 0 25)) [] (MatchField (mkSpan (mkPtok 38 "match" 1 17 4) (mkPtok 40 "," 7 0 25)) (mkMatchFieldDecl (mkSpan (mkPtok 38 "match" 1 17 4) (mkPtok 3 "}" 6 15 24)) (mkPtok 38 "match" 1 17 4) (mkPtok 42 "len" 4 0 7) (mkPtok 17 "as" 4 4 8) (mkPtok 42 "metadata" 4 7 9) (mkPtok 2 "{" 4 16 10) [(mkMatchPair (mkSpan (mkPtok 18 "[" 4 18 11) (mkPtok 40 "," 6 0 19)) (MKList (mkKeyList (mkSpan (mkPtok 18 "[" 4 18 11) (mkPtok 13 "]" 5 12 15)) (mkPtok 18 "[" 4 18 11) (mkPtok 31 """CRC32""" 4 20 12) [((mkPtok 40 "," 5 4 13), (mkPtok 31 """{,}""" 5 6 14))] (mkPtok 13 "]" 5 12 15))) (mkPtok 39 ":" 5 13 16) (mkPtok 42 "lengthOf" 5 15 17) (Some (mkPtok 40 "," 6 0 19))); (mkMatchPair (mkSpan (mkPtok 31 """abc""" 6 2 20) (mkPtok 40 "," 6 13 23)) (MKString (mkPtok 31 """abc""" 6 2 20)) (mkPtok 39 ":" 6 7 21) (mkPtok 42 "Z9_" 6 9 22) (Some (mkPtok 40 "," 6 13 23)))] (mkPtok 3 "}" 6 15 24)) (mkPtok 40 "," 7 0 25))); (mkFieldWithAttr (mkSpan (mkPtok 9 "@tag(" 7 2 26) (mkPtok 40 "," 9 20 34)) [(FATag (mkSpan (mkPtok 9 "@tag(" 7 2 26) (mkPtok 6 ")" 8 8 28)) (mkTagAttr (mkSpan (mkPtok 9 "@tag(" 7 2 26) (mkPtok 6 ")" 8 8 28)) (mkPtok 9 "@tag(" 7 2 26) (mkPtok 30 "007" 8 4 27) (mkPtok 6 ")" 8 8 28)))] (LengthField (mkSpan (mkPtok 42 "chars" 9 0 30) (mkPtok 40 "," 9 20 34)) (mkLengthFieldDecl (mkSpan (mkPtok 42 "chars" 9 0 30) (mkPtok 40 "," 9 20 34)) None (mkPtok 42 "chars" 9 0 30) (mkLengthOf (mkSpan (mkPtok 7 "@lengthOf(" 9 6 31) (mkPtok 6 ")" 9 19 33)) (mkPtok 7 "@lengthOf(" 9 6 31) (mkPtok 42 "o" 9 17 32) (mkPtok 6 ")" 9 19 33)) None (mkPtok 40 "," 9 20 34)))); (mkFieldWithAttr (mkSpan (mkPtok 32 "@rightPad" 9 22 35) (mkPtok 40 "," 15 10 49)) [(FAPadding (mkSpan (mkPtok 32 "@rightPad" 9 22 35) (mkPtok 6 ")" 10 0 38)) (mkPaddingAttr (mkSpan (mkPtok 32 "@rightPad" 9 22 35) (mkPtok 6 ")" 10 0 38)) (mkPtok 32 "@rightPad" 9 22 35) (mkPtok 8 "(" 9 31 36) (Some (mkPtok 33 "' '" 9 33 37)) (mkPtok 6 ")" 10 0 38)))] (InerObjectField (mkSpan (mkPtok 42 "options1" 11 0 39) (mkPtok 40 "," 15 10 49)) None (InerObjectDecl (mkSpan (mkPtok 42 "options1" 11 0 39) (mkPtok 3 "}" 15 8 48)) (mkPtok 42 "options1" 11 0 39) (mkPtok 2 "{" 12 4 40) [(ObjectField (mkSpan (mkPtok 42 "u" 13 0 41) (mkPtok 40 "," 13 2 42)) None (mkPtok 42 "u" 13 0 41) None None (mkPtok 40 "," 13 2 42)); (ObjectField (mkSpan (mkPtok 36 "repeat" 13 4 43) (mkPtok 40 "," 15 7 47)) (Some (mkPtok 36 "repeat" 13 4 43)) (mkPtok 42 "packetx" 13 11 44) (Some (mkPtok 42 "int" 13 19 45)) (Some (mkPtok 43 (string_of_bytes [96; 108; 105; 110; 101; 49; 10; 108; 105; 110; 101; 50; 96]%N) 14 0 46)) (mkPtok 40 "," 15 7 47))] (mkPtok 3 "}" 15 8 48)) (mkPtok 40 "," 15 10 49))); (mkFieldWithAttr (mkSpan (mkPtok 9 "@tag(" 15 12 50) (mkPtok 40 "," 17 9 54)) [(FATag (mkSpan (mkPtok 9 "@tag(" 15 12 50) (mkPtok 6 ")" 16 4 52)) (mkTagAttr (mkSpan (mkPtok 9 "@tag(" 15 12 50) (mkPtok 6 ")" 16 4 52)) (mkPtok 9 "@tag(" 15 12 50) (mkPtok 30 "255" 15 17 51) (mkPtok 6 ")" 16 4 52)))] (ObjectField (mkSpan (mkPtok 42 "pack" 17 4 53) (mkPtok 40 "," 17 9 54)) None (mkPtok 42 "pack" 17 4 53) None None (mkPtok 40 "," 17 9 54)))] (mkPtok 3 "}" 17 11 55)))])).
Eval vm_compute in ("<<<M212>>>" ++ check (runes_of_ascii "MetaData //x
_x
{
    // `tick` ""quote"" 'q'
    }")).
Eval vm_compute in ("<<<M222>>>" ++ check (runes_of_ascii "MetaData
    // packet A { u8 x, }
    lengthOf {
} options { MetaDataX =
// trailing space 
// " ++ [128512]%N ++ runes_of_ascii " emoji
4294967296	; i8i8 =  ""\" ++ [233]%N ++ runes_of_ascii """ } packet
    trueish /// triple
{//
matchKey // c
leftPad `say ""hi""` ,
//x
// " ++ [27880; 37322]%N ++ runes_of_ascii "
falsey { char[4294967296  ]// c
chars @calculatedFrom("""" ) , } // @lengthOf(
,matchKey
    { x`u8 x,` ,  f32a`tab	here` ,  },}
")).
Eval vm_compute in ("<<<M232>>>" ++ check (runes_of_ascii "options { }
MetaData MetaDataX { // packet A { u8 x, }
u64
leftPad `two words` ,// `tick` ""quote"" 'q'
} packet Header	{ a1 @lengthOf(roots// trailing space 
) // `tick` ""quote"" 'q'
,  repeat int8 Pad , i32 f32a,
    repeat zchar[ 0 ] x_y_z//	t
`doc`  , i8i8
`two words`
,
    // @lengthOf(
    zchar[ 4294967296 ]
    //
    u8x , char[]repeatCount, repeat zchar[
    65535 ]	Foo,
}
")).
Eval vm_compute in ("<<<M242>>>" ++ check (runes_of_ascii "// a // b
packet BodyLength {@tag(65535 )
    float32  metadata,	@rightPad ('\x00' )
    charz
// c
// `tick` ""quote"" 'q'
,
    repeat
    i16
    falsey  , repeat
    x // `tick` ""quote"" 'q'
{ repeat falsey { i32
charz , } ,Foo leftPad
    ,match Header as
    x_y_z {
[ """ ++ [28040; 24687]%N ++ runes_of_ascii """ ,/// triple
10
, 0] // " ++ [128512]%N ++ runes_of_ascii " emoji
: i8i8	,
}
, },repeat int , @tag(255 ) crc rootA`say ""hi""` , Logon {
    match
    u128  as x { // @lengthOf(
1 : body , ""abc""
    : Header ,
    ""{,}"" :	string_,0123456789 :
// " ++ [27880; 37322]%N ++ runes_of_ascii "
// trailing space 
a1 1 : leftPad , """ ++ [28040; 24687]%N ++ runes_of_ascii """
    : Foo} , string
roots ,
x_y_z { int{body , falsey ,
    o
    @lengthOf( roots) // " ++ [27880; 37322]%N ++ runes_of_ascii "
`say ""hi""` , }
,
repeat options1 {
As
`line1
line2` , uint8 leftPad @calculatedFrom(// " ++ [128512]%N ++ runes_of_ascii " emoji
""it's"" ) `
` , match
x_y_z	as matchKey { [ 10 ] : chars
, 255 : u//x
,}
    , u128, } ,
    // a // b
    } , }
    , zchar
    @calculatedFrom(
""// no comment"")
    ``
    ,	@tag(65535
    )  match metadata
as
    //	t
    Foo { 1
    :
f32a
    // c
    , //x
} , // " ++ [27880; 37322]%N ++ runes_of_ascii "
zchar {lengthOf  @calculatedFrom( ""`tick`""	)	`say ""hi""` , char pack , Logon @calculatedFrom( ""x y""
    ) ,
    }, }")).
Eval vm_compute in ("<<<M252>>>" ++ check (runes_of_ascii "packet
asx { @leftPad ( ' ' ) len BodyLength`doc`
,} packet MetaDataX
    { i8 stringy , // c
uint16 int
`` , repeat u64
Pad , @rightPad
( ) @lengthOf( a1)// a // b
string
body
    `crlf
line` ,}

")).
Eval vm_compute in ("<<<M262>>>" ++ check (runes_of_ascii "root  packet calculatedFrom {
    char roots`say ""hi""` , Foo
    , //x
metadata o `a\`
, @lengthOf(stringy )
i8 charz
    `say ""hi""` , char[]
_x
, u8x
As,
@tag(
    3
    ) repeat u64 Z9_ `// not a comment` , len
//
//x
{
match float  as Packet { 00
: // a // b
uint8x
    , 42
: stringy  , } ,
} , @calculatedFrom( ""x y""
)repeat
zchar[ //x
7
]// c
Foo `doc`
// trailing space 
//x
,
}
// " ++ [128512]%N ++ runes_of_ascii " emoji
// @lengthOf(
packet int {
    @lengthOf( A )  @rightPad( '\x00'	)
@lengthOf(
    matchKey )
    repeat // " ++ [27880; 37322]%N ++ runes_of_ascii "
uint64
//	t
//	t
u128 ,@leftPad (// trailing space 
'\x00' )
float32  options1
    @calculatedFrom(
// a // b
//	t
""a	b"" ) , @leftPad
    ( '0') lengthOf@calculatedFrom(
""" ++ [233]%N ++ runes_of_ascii "t" ++ [233]%N ++ runes_of_ascii """ ) `doc`, @tag(//x
00 )
    zchar[00 ] Z9_ , repeat tag ,@calculatedFrom( ""a	b""
    )
//	t
// " ++ [128512]%N ++ runes_of_ascii " emoji
charz asx , @tag( 255 ) string
    trueish,
}
root packet Logon {match float as Foo
{[
    ""packet"" , 007
//	t
//	t
,
// c
//
42 , 00	, 1 ] :
string_ , 7: leftPad 3// packet A { u8 x, }
:tag// " ++ [27880; 37322]%N ++ runes_of_ascii "
, // packet A { u8 x, }
}  ,
@leftPad ( '0'
// " ++ [27880; 37322]%N ++ runes_of_ascii "
// a // b
)
    MetaDataX
@lengthOf(
trueish )`
`, int8 x_y_z`say ""hi""`,
    @calculatedFrom( ""`tick`"" )char[]matchKey `// not a comment`
, // c
crc
//x
//x
{ uint8 crc `line1
line2` , leftPad `{ , }`
, repeat Foo  body  `u8 x,`
, u16 lengthOf, } , i8 pack ,Logon
{Z9_
zchar
`u8 x,`
, repeat string  o , zchar[255 ] Packet
, repeat
//x
//	t
T pack ,
// " ++ [128512]%N ++ runes_of_ascii " emoji
//x
} ,	match
Logon  as MetaDataX { ""x y"" :Pad ,}
    /// triple
    , } MetaData	Foo{ u32
int `
`
    , }packet charz  { i8/// triple
leftPad
, }")).
Eval vm_compute in ("<<<M272>>>" ++ check (runes_of_ascii "options {
u = 255
    Pad
= 00 f32a = ' ' ; }
")).
Eval vm_compute in ("<<<T272>>>" ++ terms [mkTok 1 "options" 1 0 false; mkTok 2 "{" 1 8 false; mkTok 42 "u" 2 0 false; mkTok 4 "=" 2 2 false; mkTok 30 "255" 2 4 false; mkTok 42 "Pad" 3 4 false; mkTok 4 "=" 4 0 false; mkTok 30 "00" 4 2 false; mkTok 42 "f32a" 4 5 false; mkTok 4 "=" 4 10 false; mkTok 33 "' '" 4 12 false; mkTok 41 ";" 4 16 false; mkTok 3 "}" 4 18 false; mkTok 0 "<EOF>" 5 0 false] (mkPacket (mkPtok 1 "options" 1 0 0) (Some (mkPtok 3 "}" 4 18 12)) [(DOption (mkOptionDef (mkSpan (mkPtok 1 "options" 1 0 0) (mkPtok 3 "}" 4 18 12)) (mkPtok 1 "options" 1 0 0) (mkPtok 2 "{" 1 8 1) [(mkOptionDecl (mkSpan (mkPtok 42 "u" 2 0 2) (mkPtok 30 "255" 2 4 4)) (mkPtok 42 "u" 2 0 2) (mkPtok 4 "=" 2 2 3) (VDigits (mkSpan (mkPtok 30 "255" 2 4 4) (mkPtok 30 "255" 2 4 4)) (mkPtok 30 "255" 2 4 4)) None); (mkOptionDecl (mkSpan (mkPtok 42 "Pad" 3 4 5) (mkPtok 30 "00" 4 2 7)) (mkPtok 42 "Pad" 3 4 5) (mkPtok 4 "=" 4 0 6) (VDigits (mkSpan (mkPtok 30 "00" 4 2 7) (mkPtok 30 "00" 4 2 7)) (mkPtok 30 "00" 4 2 7)) None); (mkOptionDecl (mkSpan (mkPtok 42 "f32a" 4 5 8) (mkPtok 41 ";" 4 16 11)) (mkPtok 42 "f32a" 4 5 8) (mkPtok 4 "=" 4 10 9) (VPaddingChar (mkSpan (mkPtok 33 "' '" 4 12 10) (mkPtok 33 "' '" 4 12 10)) (mkPtok 33 "' '" 4 12 10)) (Some (mkPtok 41 ";" 4 16 11)))] (mkPtok 3 "}" 4 18 12)))])).
Eval vm_compute in ("<<<M282>>>" ++ check (runes_of_ascii "packet
    float
    { }
")).
Eval vm_compute in ("<<<M292>>>" ++ check (runes_of_ascii "options{
rootA
    = int32 a1 =
""// no comment""
    ;f32a = 007 } MetaData metadata {
o u `say ""hi""` /// triple
, i16 charz
`say ""hi""` ,// `tick` ""quote"" 'q'
a1 body ,zchar[ 0123456789
    //	t
    ] tag ,lengthOf metadata `two words` ,}")).
Eval vm_compute in ("<<<M302>>>" ++ check (runes_of_ascii "options {
	StringPrefixLenType = u16;
	ArrayPrefixLenType = u16;
}

packet SampleBinary {
	uint16 MsgType `" ++ [28040; 24687; 31867; 22411]%N ++ runes_of_ascii "`,
	u16 BodyLenght @lengthOf(Body) `" ++ [28040; 24687; 20307; 38271; 24230]%N ++ runes_of_ascii "`,
	match MsgType as Body {
		1 : Logon,
		2 : Logout,
		3 : Heartbeat,
		4 : RiskControlRequest,
		5 : RiskControlResponse,
	},
		@calculatedFrom(""CRC32"")
	u32 Ckecksum `" ++ [26657; 39564; 21644]%N ++ runes_of_ascii "`,
}

packet Logon {
	 @leftPad('0')
	char[10] UserName `" ++ [29992; 25143; 21517]%N ++ runes_of_ascii "`,
	string Password `" ++ [23494; 30721]%N ++ runes_of_ascii "`,
	uint64 ClientId `" ++ [23458; 25143; 31471]%N ++ runes_of_ascii "ID`,
	u16 HeartbeatInterval `" ++ [24515; 36339; 38388; 38548]%N ++ runes_of_ascii "`,
}

packet Logout {
	  @rightPad('0')
	char[10] UserName `" ++ [29992; 25143; 21517]%N ++ runes_of_ascii "`,
	uint64 ClientId `" ++ [23458; 25143; 31471]%N ++ runes_of_ascii "ID`,
}

packet Heartbeat {
}

packet RiskControlRequest {
	string UniqueOrderId `" ++ [21807; 19968; 35746; 21333; 21495]%N ++ runes_of_ascii "`,
	char[16] ClOrdID `" ++ [23458; 25143; 35746; 21333; 21495]%N ++ runes_of_ascii "`,
	char[3] MarketID `" ++ [24066; 22330]%N ++ runes_of_ascii "id`,
	char[12] SecurityID `" ++ [35777; 21048; 20195; 30721]%N ++ runes_of_ascii "`,
	char Side `" ++ [20080; 21334; 26041; 21521]%N ++ runes_of_ascii "`,
	char OrderType `" ++ [35746; 21333; 31867; 22411]%N ++ runes_of_ascii "`,
	u64 Price `" ++ [20215; 26684]%N ++ runes_of_ascii "`,
	u32 Qty `" ++ [25968; 37327]%N ++ runes_of_ascii "`,
	repeat string ExtraInfo `" ++ [38468; 21152; 20449; 24687]%N ++ runes_of_ascii "`,
	repeat SubOrder {
			char[16] ClOrdID `" ++ [23376; 35746; 21333; 21495]%N ++ runes_of_ascii "`,
			u64 Price `" ++ [23376; 35746; 21333; 20215; 26684]%N ++ runes_of_ascii "`,
			u32 Qty `" ++ [23376; 35746; 21333; 25968; 37327]%N ++ runes_of_ascii "`,
		},
}

packet RiskControlResponse {
	string UniqueOrderId `" ++ [21807; 19968; 35746; 21333; 21495]%N ++ runes_of_ascii "`,
	i32 Status `" ++ [29366; 24577]%N ++ runes_of_ascii "`,
	string Msg `" ++ [32467; 26524; 20449; 24687]%N ++ runes_of_ascii "`,
	repeat Detail,
}

packet Detail {
	string RuleName `" ++ [35268; 21017; 21517; 31216]%N ++ runes_of_ascii "`,
	u16 Code `" ++ [21407; 22240; 20195; 30721]%N ++ runes_of_ascii "`,
}")).
Eval vm_compute in ("<<<M312>>>" ++ check (runes_of_ascii "char  calculatedFrom{ @rightPad(	' '
    )@lengthOf( uint8x
)	i32  options1 ,u ,
    //	t
    len @lengthOf(
int // trailing space 
)
    , @tag( 42 ) repeat uint32 u ,
    }")).
Eval vm_compute in ("<<<M322>>>" ++ check (runes_of_ascii "packet  calculatedFrom char[] @rightPad(	' '
    )@lengthOf( uint8x
)	i32  options1 ,u ,
    //	t
    len @lengthOf(
int // trailing space 
)
    , @tag( 42 ) repeat uint32 u ,
    }")).
Eval vm_compute in ("<<<M332>>>" ++ check (runes_of_ascii "packet  calculatedFrom{ @rightPad int16	' '
    )@lengthOf( uint8x
)	i32  options1 ,u ,
    //	t
    len @lengthOf(
int // trailing space 
)
    , @tag( 42 ) repeat uint32 u ,
    }")).
Eval vm_compute in ("<<<M342>>>" ++ check (runes_of_ascii "packet  calculatedFrom{ @rightPad(	' '
    =@lengthOf( uint8x
)	i32  options1 ,u ,
    //	t
    len @lengthOf(
int // trailing space 
)
    , @tag( 42 ) repeat uint32 u ,
    }")).
Eval vm_compute in ("<<<M352>>>" ++ check (runes_of_ascii "packet  calculatedFrom{ @rightPad(	' '
    )@lengthOf( uint16
)	i32  options1 ,u ,
    //	t
    len @lengthOf(
int // trailing space 
)
    , @tag( 42 ) repeat uint32 u ,
    }")).
Eval vm_compute in ("<<<M362>>>" ++ check (runes_of_ascii "packet  calculatedFrom{ @rightPad(	' '
    )@lengthOf( uint8x
)	}  options1 ,u ,
    //	t
    len @lengthOf(
int // trailing space 
)
    , @tag( 42 ) repeat uint32 u ,
    }")).
Eval vm_compute in ("<<<M372>>>" ++ check (runes_of_ascii "packet  calculatedFrom{ @rightPad(	' '
    )@lengthOf( uint8x
)	i32  options1 u64 u ,
    //	t
    len @lengthOf(
int // trailing space 
)
    , @tag( 42 ) repeat uint32 u ,
    }")).
Eval vm_compute in ("<<<M382>>>" ++ check (runes_of_ascii "packet  calculatedFrom{ @rightPad(	' '
    )@lengthOf( uint8x
)	i32  options1 ,u uint64
    //	t
    len @lengthOf(
int // trailing space 
)
    , @tag( 42 ) repeat uint32 u ,
    }")).
Eval vm_compute in ("<<<M392>>>" ++ check (runes_of_ascii "packet  calculatedFrom{ @rightPad(	' '
    )@lengthOf( uint8x
)	i32  options1 ,u ,
    //	t
    len zchar[
int // trailing space 
)
    , @tag( 42 ) repeat uint32 u ,
    }")).
Eval vm_compute in ("<<<M402>>>" ++ check (runes_of_ascii "packet  calculatedFrom{ @rightPad(	' '
    )@lengthOf( uint8x
)	i32  options1 ,u ,
    //	t
    len @lengthOf(
int // trailing space 
zchar[
    , @tag( 42 ) repeat uint32 u ,
    }")).
Eval vm_compute in ("<<<M412>>>" ++ check (runes_of_ascii "packet  calculatedFrom{ @rightPad(	' '
    )@lengthOf( uint8x
)	i32  options1 ,u ,
    //	t
    len @lengthOf(
int // trailing space 
)
    , uint16 42 ) repeat uint32 u ,
    }")).
Eval vm_compute in ("<<<M422>>>" ++ check (runes_of_ascii "packet  calculatedFrom{ @rightPad(	' '
    )@lengthOf( uint8x
)	i32  options1 ,u ,
    //	t
    len @lengthOf(
int // trailing space 
)
    , @tag( 42 ( repeat uint32 u ,
    }")).
Eval vm_compute in ("<<<M432>>>" ++ check (runes_of_ascii "packet  calculatedFrom{ @rightPad(	' '
    )@lengthOf( uint8x
)	i32  options1 ,u ,
    //	t
    len @lengthOf(
int // trailing space 
)
    , @tag( 42 ) repeat zchar[ u ,
    }")).
Eval vm_compute in ("<<<M442>>>" ++ check (runes_of_ascii "packet  calculatedFrom{ @rightPad(	' '
    )@lengthOf( uint8x
)	i32  options1 ,u ,
    //	t
    len @lengthOf(
int // trailing space 
)
    , @tag( 42 ) repeat uint32 u (
    }")).
Eval vm_compute in ("<<<M452>>>" ++ check (runes_of_ascii "packet  calculatedFrom{ @rightPad(	' '
    )@lengthOf( uint8x
)	i32  options1 ,u ,
    //	t
    len @lengthOf(
int // trailing space 
)
")).
Eval vm_compute in ("<<<M462>>>" ++ check (runes_of_ascii "packet  calculatedFrom{ @rightPad(	' '
    )@lengthOf( uint8x
)	i32  options1 ,u ,
    //	t
 " ++ [8232]%N ++ runes_of_ascii "   len @lengthOf(
int // trailing space 
)
    , @tag( 42 ) repeat uint32 u ,
    }")).
Eval vm_compute in ("<<<M472>>>" ++ check (runes_of_ascii "u MetaData// packet A { u8 x, }
{ A
// c
//	t
i64_ ,char[ 255 ]
    repeatCount , zchar[
65535 ]
    tag `" ++ [233]%N ++ runes_of_ascii "`
    ,int32 lengthOf	, }
")).
Eval vm_compute in ("<<<M482>>>" ++ check (runes_of_ascii "MetaData u")).
Eval vm_compute in ("<<<M492>>>" ++ check (runes_of_ascii "MetaData u// packet A { u8 x, }
{ A
// c
//	t
i64_ ,char[ 255 ]
    repeatCount , zchar[
65535 tag
    ] `" ++ [233]%N ++ runes_of_ascii "`
    ,int32 lengthOf	, }
")).
Eval vm_compute in ("<<<M502>>>" ++ check (runes_of_ascii "MetaData u// packet A { u8 x, }
{ A
// c
//	t
i64_ ,char[ 255 ]
    repeatCount")).
Eval vm_compute in ("<<<M512>>>" ++ check (runes_of_ascii "MetaData u// packet A { u8 x, }
{ A
// c
//	t
i64_ ,char[ char[ 255 ]
    repeatCount , zchar[
65535 ]
    tag `" ++ [233]%N ++ runes_of_ascii "`
    ,int32 lengthOf	, }
")).
Eval vm_compute in ("<<<M522>>>" ++ check (runes_of_ascii "MetaData u// packet A { u8 x, }
{ A
// c
//	t
i64_ ,char[ 255 ]
    repeatCount , zchar[
65535 ]
    tag `" ++ [233]%N ++ runes_of_ascii "`
    ,")).
Eval vm_compute in ("<<<M532>>>" ++ check (runes_of_ascii "MetaData =// packet A { u8 x, }
{ A
// c
//	t
i64_ ,char[ 255 ]
    repeatCount , zchar[
65535 ]
    tag `" ++ [233]%N ++ runes_of_ascii "`
    ,int32 lengthOf	, }
")).
Eval vm_compute in ("<<<M542>>>" ++ check (runes_of_ascii "MetaData u// packet A { u8 x, }
{ A
// c
//	t
i64_ ,char[ 255 ]
    repeatCount , zchar[
65535 ]
    tag `" ++ [233]%N ++ runes_of_ascii "`
    "" ,int32 lengthOf	, }
")).
Eval vm_compute in ("<<<M552>>>" ++ check (runes_of_ascii "MetaData u// packet A { u8 x, }
{ A
// c
//	t
i64_ ,char[ 255 ]
    repeatCount , zchar[
65")).
Eval vm_compute in ("<<<M562>>>" ++ check (runes_of_ascii "MetaData u// packet A { u8 x, }
{ A
// c
//	t
i64_ ,char[ 255 ]
    repeatCount , zchar[
65535 ]
    tag `" ++ [233]%N ++ runes_of_ascii "`
    float64 int32 lengthOf	, }
")).
Eval vm_compute in ("<<<M572>>>" ++ check (runes_of_ascii "// a
// b
")).
Eval vm_compute in ("<<<M582>>>" ++ check (runes_of_ascii "9X};t1)Go`4 oKb0Nw9r.Ph2#e]G m@xQ'-)tA")).
Eval vm_compute in ("<<<M592>>>" ++ check (runes_of_ascii "zchar[ ""abc"" , u32 MetaData = f32 ; ""packet"" ' ' 0 ] [ float32")).
