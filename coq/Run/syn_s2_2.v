From FP Require Import Lexer Parser ShowPT Digest.
From Coq Require Import String List NArith.
Import ListNotations.
Open Scope string_scope.
Set Printing Width 100000000.
Set Printing Depth 100000000.
Definition nl : string := String (Ascii.ascii_of_nat 10) EmptyString.
Definition model_lex (rs : list rune) : string := show_toks (lex rs).
Definition model_parse (rs : list rune) : string :=
  show_pt (match lex rs with Some ts => parse ts | None => None end).
(* coqc is slow at printing long strings: digests first (Digest.v), full texts on demand *)
Definition check (rs : list rune) : string :=
  digest (model_lex rs) ++ " " ++ digest (model_parse rs).
Definition full (rs : list rune) : string := model_lex rs ++ nl ++ model_parse rs.
Definition terms (ts : list tok) (t : pt) : string :=
  digest (show_toks (Some ts)) ++ " " ++ digest (show_pt (Some t)) ++ " " ++ digest (show_pt (parse ts)).
Definition terms_full (ts : list tok) (t : pt) : string :=
  show_toks (Some ts) ++ nl ++ show_pt (Some t) ++ nl ++ show_pt (parse ts).
Eval vm_compute in ("<<<M2>>>" ++ check (runes_of_ascii "
packet int{ len	T , }MetaData trueish { // packet A { u8 x, }
}
    packet BodyLength { @calculatedFrom( ""packet"" )
@calculatedFrom(
    ""CRC32"" )
    // c
    @tag(
00 ) char[ 4294967296 ] stringy, @lengthOf(
leftPad
)// c
char zchar ,@lengthOf( MetaDataX	)@tag(10) // " ++ [128512]%N ++ runes_of_ascii " emoji
@rightPad ( '0') options1 matchKey//
`{ , }`
    // packet A { u8 x, }
    , @tag( 42
    ) @tag( 1 ) @tag( 10
) char[] // c
stringy
`doc` , msg_type `" ++ [233]%N ++ runes_of_ascii "` ,
@lengthOf(trueish )body {	repeat o stringy `crlf
line` , repeat u32 i8i8 ,
    char[65535] stringy
`a\` ,
    //x
    }
    ,
@calculatedFrom(""packet""	) matchKey/// triple
, @tag( 4294967296 ) uint32 rootA @lengthOf( trueish ) ,string body `u8 x,` , }")).
Eval vm_compute in ("<<<M12>>>" ++ check (runes_of_ascii "  MetaData	calculatedFrom
{char[]
lengthOf
    , } // trailing space 
root // " ++ [27880; 37322]%N ++ runes_of_ascii "
packet _x { @calculatedFrom(""" ++ [28040; 24687]%N ++ runes_of_ascii """) repeat zchar _x ,
    // packet A { u8 x, }
    repeat zchar[42//x
]
Pad , @tag(42	)char[ 42] u8x
    ,}
")).
Eval vm_compute in ("<<<M22>>>" ++ check (runes_of_ascii "packet  Pad{
@leftPad ( '0' ) @calculatedFrom( ""`tick`""
    )// @lengthOf(
match
    i64_ as x
    {
    /// triple
    00: zchar
    , } , i8i8 o // " ++ [27880; 37322]%N ++ runes_of_ascii "
,char[] _x
, repeat zchar[007 ] trueish
    ,zchar @lengthOf( trueish)`{ , }`
,// c
@calculatedFrom(""a\""b"") @tag( 1 ) trueish zchar ,
char[
    3 ] rootA @calculatedFrom(
    ""a\""b"" )
`tab	here`
//	t
// trailing space 
,
}")).
Eval vm_compute in ("<<<M32>>>" ++ check (runes_of_ascii "packet Logon{
f32a
// " ++ [27880; 37322]%N ++ runes_of_ascii "
// " ++ [128512]%N ++ runes_of_ascii " emoji
@lengthOf(
x ) `u8 x,` ,
@calculatedFrom(
    // `tick` ""quote"" 'q'
    ""a\""b"" // trailing space 
) @rightPad( '0'
)repeat int8
u128`doc` , match packetx //x
as
a1 { [
    // " ++ [27880; 37322]%N ++ runes_of_ascii "
    65535, """ ++ [128512]%N ++ runes_of_ascii """ ]
: packetx	,00 : x
,
// c
// @lengthOf(
} ,
    @calculatedFrom(""" ++ [28040; 24687]%N ++ runes_of_ascii """ )match
leftPad as lengthOf /// triple
{ 0
: packetx, [
    ""{,}"" // `tick` ""quote"" 'q'
,  0,
""CRC32"" , 4294967296
]
    :
    // @lengthOf(
    int
, """ ++ [28040; 24687]%N ++ runes_of_ascii """:A, [ 7
, 0  ,
""abc"" ,""CRC32"" ,""x y""// c
,
    //	t
    255
// a // b
// " ++ [27880; 37322]%N ++ runes_of_ascii "
, 007
, 1 // @lengthOf(
]	: _x } ,matchKey@lengthOf(tag ) , string BodyLength
    @calculatedFrom( ""packet""	)
/// triple
// a // b
, As @lengthOf(i8i8 ) `a\`
,int16 A@lengthOf( tag ) `// not a comment`
// " ++ [128512]%N ++ runes_of_ascii " emoji
//
,
}
MetaData metadata
//	t
// " ++ [128512]%N ++ runes_of_ascii " emoji
{
u32
// c
// a // b
a1 ,  u16 BodyLength `tab	here` // " ++ [128512]%N ++ runes_of_ascii " emoji
, int8
lengthOf// " ++ [27880; 37322]%N ++ runes_of_ascii "
,
    // " ++ [128512]%N ++ runes_of_ascii " emoji
    trueish x_y_z ,charz leftPad //
,} MetaData leftPad {	} packet rootA
{ match
    x
as
    int
    {0123456789// `tick` ""quote"" 'q'
: u8x
    ,
    0123456789
    :  tag
    ,	} , @lengthOf(A )
repeat
f32 body `a\` ,// trailing space 
i64	rootA
    // packet A { u8 x, }
    , @tag(007 ) match // @lengthOf(
Logon as metadata
    {
[""a	b"", // `tick` ""quote"" 'q'
65535
, ""abc"", 3 ,
10 , ""\" ++ [233]%N ++ runes_of_ascii """
]
    // packet A { u8 x, }
    :u128, 7
: // packet A { u8 x, }
zchar, 7 : stringy
    , 007
    :  string_ , """" : //x
a1 , }
,// c
i8
lengthOf// trailing space 
, float64 pack @calculatedFrom(""" ++ [128512]%N ++ runes_of_ascii """
) ,  repeatCount @calculatedFrom(
""// no comment"") , float // c
string_ , @leftPad // c
(
    '0' ) @calculatedFrom( ""a	b"" )@calculatedFrom( ""\" ++ [233]%N ++ runes_of_ascii """ ) // `tick` ""quote"" 'q'
match
    Logon as
    // @lengthOf(
    msg_type {	255 : roots, 255: x_y_z
// c
// packet A { u8 x, }
,	""it's""  :
len,[00 ,
    // packet A { u8 x, }
    42
    , ""\n"" ,007
    , ""1""
,//
""a\\"" , ""a\\""] :
f32a [
    42,	""a	b""
/// triple
//
]  :
    Header, [ """" , ""\" ++ [233]%N ++ runes_of_ascii """// `tick` ""quote"" 'q'
]
    : //
tag , } , // packet A { u8 x, }
int , }
    options // c
{uint8x = // @lengthOf(
""\n"" ;}
")).
Eval vm_compute in ("<<<M42>>>" ++ check (runes_of_ascii "  root
    packet falsey
{}
/// triple
// " ++ [27880; 37322]%N ++ runes_of_ascii "
options {}
// trailing space 
")).
Eval vm_compute in ("<<<M52>>>" ++ check (runes_of_ascii "//

")).
Eval vm_compute in ("<<<M62>>>" ++ check (runes_of_ascii "packet _x { Packet { chars
    Logon
,int8 float , i64 rootA `" ++ [233]%N ++ runes_of_ascii "` ,} /// triple
,@calculatedFrom(
""abc"" )
    x_y_z
{ leftPad // trailing space 
charz
`a\` ,i32 metadata `say ""hi""` ,} , charz rootA `u8 x,`, }  root// " ++ [128512]%N ++ runes_of_ascii " emoji
packet f32a//
{ }
")).
Eval vm_compute in ("<<<T62>>>" ++ terms [mkTok 35 "packet" 1 0 false; mkTok 42 "_x" 1 7 false; mkTok 2 "{" 1 10 false; mkTok 42 "Packet" 1 12 false; mkTok 2 "{" 1 19 false; mkTok 42 "chars" 1 21 false; mkTok 42 "Logon" 2 4 false; mkTok 40 "," 3 0 false; mkTok 24 "int8" 3 1 false; mkTok 42 "float" 3 6 false; mkTok 40 "," 3 12 false; mkTok 27 "i64" 3 14 false; mkTok 42 "rootA" 3 18 false; mkTok 43 (string_of_bytes [96; 195; 169; 96]%N) 3 24 false; mkTok 40 "," 3 28 false; mkTok 3 "}" 3 29 false; mkTok 44 "/// triple" 3 31 true; mkTok 40 "," 4 0 false; mkTok 5 "@calculatedFrom(" 4 1 false; mkTok 31 """abc""" 5 0 false; mkTok 6 ")" 5 6 false; mkTok 42 "x_y_z" 6 4 false; mkTok 2 "{" 7 0 false; mkTok 42 "leftPad" 7 2 false; mkTok 44 "// trailing space " 7 10 true; mkTok 42 "charz" 8 0 false; mkTok 43 "`a\`" 9 0 false; mkTok 40 "," 9 5 false; mkTok 26 "i32" 9 6 false; mkTok 42 "metadata" 9 10 false; mkTok 43 "`say ""hi""`" 9 19 false; mkTok 40 "," 9 30 false; mkTok 3 "}" 9 31 false; mkTok 40 "," 9 33 false; mkTok 42 "charz" 9 35 false; mkTok 42 "rootA" 9 41 false; mkTok 43 "`u8 x,`" 9 47 false; mkTok 40 "," 9 54 false; mkTok 3 "}" 9 56 false; mkTok 34 "root" 9 59 false; mkTok 44 (string_of_bytes [47; 47; 32; 240; 159; 152; 128; 32; 101; 109; 111; 106; 105]%N) 9 63 true; mkTok 35 "packet" 10 0 false; mkTok 42 "f32a" 10 7 false; mkTok 44 "//" 10 11 true; mkTok 2 "{" 11 0 false; mkTok 3 "}" 11 2 false; mkTok 0 "<EOF>" 12 0 false] (mkPacket (mkPtok 35 "packet" 1 0 0) (Some (mkPtok 3 "}" 11 2 45)) [(DPacket (mkPacketDef (mkSpan (mkPtok 35 "packet" 1 0 0) (mkPtok 3 "}" 9 56 38)) None (mkPtok 35 "packet" 1 0 0) (mkPtok 42 "_x" 1 7 1) (mkPtok 2 "{" 1 10 2) [(mkFieldWithAttr (mkSpan (mkPtok 42 "Packet" 1 12 3) (mkPtok 40 "," 4 0 17)) [] (InerObjectField (mkSpan (mkPtok 42 "Packet" 1 12 3) (mkPtok 40 "," 4 0 17)) None (InerObjectDecl (mkSpan (mkPtok 42 "Packet" 1 12 3) (mkPtok 3 "}" 3 29 15)) (mkPtok 42 "Packet" 1 12 3) (mkPtok 2 "{" 1 19 4) [(ObjectField (mkSpan (mkPtok 42 "chars" 1 21 5) (mkPtok 40 "," 3 0 7)) None (mkPtok 42 "chars" 1 21 5) (Some (mkPtok 42 "Logon" 2 4 6)) None (mkPtok 40 "," 3 0 7)); (MetaField (mkSpan (mkPtok 24 "int8" 3 1 8) (mkPtok 40 "," 3 12 10)) None (mkMetaDecl (mkSpan (mkPtok 24 "int8" 3 1 8) (mkPtok 40 "," 3 12 10)) (TyBasic (mkSpan (mkPtok 24 "int8" 3 1 8) (mkPtok 24 "int8" 3 1 8)) (mkBasicType (mkSpan (mkPtok 24 "int8" 3 1 8) (mkPtok 24 "int8" 3 1 8)) (mkPtok 24 "int8" 3 1 8))) (mkPtok 42 "float" 3 6 9) None (mkPtok 40 "," 3 12 10))); (MetaField (mkSpan (mkPtok 27 "i64" 3 14 11) (mkPtok 40 "," 3 28 14)) None (mkMetaDecl (mkSpan (mkPtok 27 "i64" 3 14 11) (mkPtok 40 "," 3 28 14)) (TyBasic (mkSpan (mkPtok 27 "i64" 3 14 11) (mkPtok 27 "i64" 3 14 11)) (mkBasicType (mkSpan (mkPtok 27 "i64" 3 14 11) (mkPtok 27 "i64" 3 14 11)) (mkPtok 27 "i64" 3 14 11))) (mkPtok 42 "rootA" 3 18 12) (Some (mkPtok 43 (string_of_bytes [96; 195; 169; 96]%N) 3 24 13)) (mkPtok 40 "," 3 28 14)))] (mkPtok 3 "}" 3 29 15)) (mkPtok 40 "," 4 0 17))); (mkFieldWithAttr (mkSpan (mkPtok 5 "@calculatedFrom(" 4 1 18) (mkPtok 40 "," 9 33 33)) [(FACalculatedFrom (mkSpan (mkPtok 5 "@calculatedFrom(" 4 1 18) (mkPtok 6 ")" 5 6 20)) (mkCalculatedFrom (mkSpan (mkPtok 5 "@calculatedFrom(" 4 1 18) (mkPtok 6 ")" 5 6 20)) (mkPtok 5 "@calculatedFrom(" 4 1 18) (mkPtok 31 """abc""" 5 0 19) (mkPtok 6 ")" 5 6 20)))] (InerObjectField (mkSpan (mkPtok 42 "x_y_z" 6 4 21) (mkPtok 40 "," 9 33 33)) None (InerObjectDecl (mkSpan (mkPtok 42 "x_y_z" 6 4 21) (mkPtok 3 "}" 9 31 32)) (mkPtok 42 "x_y_z" 6 4 21) (mkPtok 2 "{" 7 0 22) [(ObjectField (mkSpan (mkPtok 42 "leftPad" 7 2 23) (mkPtok 40 "," 9 5 27)) None (mkPtok 42 "leftPad" 7 2 23) (Some (mkPtok 42 "charz" 8 0 25)) (Some (mkPtok 43 "`a\`" 9 0 26)) (mkPtok 40 "," 9 5 27)); (MetaField (mkSpan (mkPtok 26 "i32" 9 6 28) (mkPtok 40 "," 9 30 31)) None (mkMetaDecl (mkSpan (mkPtok 26 "i32" 9 6 28) (mkPtok 40 "," 9 30 31)) (TyBasic (mkSpan (mkPtok 26 "i32" 9 6 28) (mkPtok 26 "i32" 9 6 28)) (mkBasicType (mkSpan (mkPtok 26 "i32" 9 6 28) (mkPtok 26 "i32" 9 6 28)) (mkPtok 26 "i32" 9 6 28))) (mkPtok 42 "metadata" 9 10 29) (Some (mkPtok 43 "`say ""hi""`" 9 19 30)) (mkPtok 40 "," 9 30 31)))] (mkPtok 3 "}" 9 31 32)) (mkPtok 40 "," 9 33 33))); (mkFieldWithAttr (mkSpan (mkPtok 42 "charz" 9 35 34) (mkPtok 40 "," 9 54 37)) [] (ObjectField (mkSpan (mkPtok 42 "charz" 9 35 34) (mkPtok 40 "," 9 54 37)) None (mkPtok 42 "charz" 9 35 34) (Some (mkPtok 42 "rootA" 9 41 35)) (Some (mkPtok 43 "`u8 x,`" 9 47 36)) (mkPtok 40 "," 9 54 37)))] (mkPtok 3 "}" 9 56 38))); (DPacket (mkPacketDef (mkSpan (mkPtok 34 "root" 9 59 39) (mkPtok 3 "}" 11 2 45)) (Some (mkPtok 34 "root" 9 59 39)) (mkPtok 35 "packet" 10 0 41) (mkPtok 42 "f32a" 10 7 42) (mkPtok 2 "{" 11 0 44) [] (mkPtok 3 "}" 11 2 45)))])).
Eval vm_compute in ("<<<M72>>>" ++ check (runes_of_ascii "MetaData Pad { Z9_
    // c
    pack ,u8 asx
    , i32
    MetaDataX , int8 // `tick` ""quote"" 'q'
x_y_z ,u128 f32a, calculatedFrom calculatedFrom
    `say ""hi""`  ,
    // trailing space 
    }
")).
Eval vm_compute in ("<<<M82>>>" ++ check (runes_of_ascii "MetaData o
    { char[] i64_
`{ , }`	, u16 tag  ,
char[]
lengthOf	`u8 x,` , Z9_  rootA`
`,
zchar[	3 // trailing space 
] u, // " ++ [27880; 37322]%N ++ runes_of_ascii "
float T
//	t
//	t
`{ , }`
    , }
")).
Eval vm_compute in ("<<<M92>>>" ++ check (runes_of_ascii "
packet calculatedFrom { } MetaData charz
{
Z9_
    // @lengthOf(
    Pad // a // b
, uint64
// packet A { u8 x, }
// a // b
u `" ++ [233]%N ++ runes_of_ascii "` , char[
00]
Z9_,	}// `tick` ""quote"" 'q'
options {} 	 ")).
Eval vm_compute in ("<<<M102>>>" ++ check (runes_of_ascii "options{
} packet /// triple
chars {
int64 i8i8
    /// triple
    @calculatedFrom( ""// no comment"" ) `line1
line2` ,
@calculatedFrom(
""`tick`"" )
    _x
    `" ++ [28040; 24687; 31867; 22411]%N ++ runes_of_ascii "` , match
float /// triple
as BodyLength  {//
""" ++ [28040; 24687]%N ++ runes_of_ascii """:
    x_y_z [ 7 , 10
    , """ ++ [233]%N ++ runes_of_ascii "t" ++ [233]%N ++ runes_of_ascii """	, 1 ,""x y"" , 3 ] :	i64_	,
} , // a // b
} packet
uint8x { } // " ++ [27880; 37322]%N)).
Eval vm_compute in ("<<<M112>>>" ++ check (runes_of_ascii "// " ++ [27880; 37322]%N ++ runes_of_ascii "
options //x
{ msg_type
//x
//	t
= '0'} packet _x { // `tick` ""quote"" 'q'
@tag( 00  ) @tag(1)	char[] a1
,
// packet A { u8 x, }
/// triple
} packet float
//	t
// " ++ [128512]%N ++ runes_of_ascii " emoji
{ }
//	t
// packet A { u8 x, }
MetaData
    // `tick` ""quote"" 'q'
    Foo {
}")).
Eval vm_compute in ("<<<M122>>>" ++ check (runes_of_ascii "root packet T{ }	MetaData	msg_type { i64_ //x
i64_,  } root packet
    // packet A { u8 x, }
    x_y_z { }  MetaData	crc { o
zchar`line1
line2`
,} packet
x{ }")).
Eval vm_compute in ("<<<M132>>>" ++ check (runes_of_ascii "root
packet x_y_z{
// a // b
// packet A { u8 x, }
repeat falsey // " ++ [27880; 37322]%N ++ runes_of_ascii "
`" ++ [233]%N ++ runes_of_ascii "` , }")).
Eval vm_compute in ("<<<T132>>>" ++ terms [mkTok 34 "root" 1 0 false; mkTok 35 "packet" 2 0 false; mkTok 42 "x_y_z" 2 7 false; mkTok 2 "{" 2 12 false; mkTok 44 "// a // b" 3 0 true; mkTok 44 "// packet A { u8 x, }" 4 0 true; mkTok 36 "repeat" 5 0 false; mkTok 42 "falsey" 5 7 false; mkTok 44 (string_of_bytes [47; 47; 32; 230; 179; 168; 233; 135; 138]%N) 5 14 true; mkTok 43 (string_of_bytes [96; 195; 169; 96]%N) 6 0 false; mkTok 40 "," 6 4 false; mkTok 3 "}" 6 6 false; mkTok 0 "<EOF>" 6 7 false] (mkPacket (mkPtok 34 "root" 1 0 0) (Some (mkPtok 3 "}" 6 6 11)) [(DPacket (mkPacketDef (mkSpan (mkPtok 34 "root" 1 0 0) (mkPtok 3 "}" 6 6 11)) (Some (mkPtok 34 "root" 1 0 0)) (mkPtok 35 "packet" 2 0 1) (mkPtok 42 "x_y_z" 2 7 2) (mkPtok 2 "{" 2 12 3) [(mkFieldWithAttr (mkSpan (mkPtok 36 "repeat" 5 0 6) (mkPtok 40 "," 6 4 10)) [] (ObjectField (mkSpan (mkPtok 36 "repeat" 5 0 6) (mkPtok 40 "," 6 4 10)) (Some (mkPtok 36 "repeat" 5 0 6)) (mkPtok 42 "falsey" 5 7 7) None (Some (mkPtok 43 (string_of_bytes [96; 195; 169; 96]%N) 6 0 9)) (mkPtok 40 "," 6 4 10)))] (mkPtok 3 "}" 6 6 11)))])).
Eval vm_compute in ("<<<M142>>>" ++ check (runes_of_ascii "packet string_ // `tick` ""quote"" 'q'
{ u
//
// " ++ [128512]%N ++ runes_of_ascii " emoji
, }
")).
Eval vm_compute in ("<<<M152>>>" ++ check (runes_of_ascii "options { msg_type = 00 string_ =
// `tick` ""quote"" 'q'
// c
0 x
=
zchar[
255 ] ;leftPad =false ;f32a // @lengthOf(
=
007 ; // " ++ [27880; 37322]%N ++ runes_of_ascii "
}
")).
Eval vm_compute in ("<<<M162>>>" ++ check (runes_of_ascii "options
    {
matchKey
= ' '
tag  = '\x00' ;
    metadata
// `tick` ""quote"" 'q'
// @lengthOf(
=  string ; charz
= 65535
; }
")).
Eval vm_compute in ("<<<M172>>>" ++ check (runes_of_ascii "packet u {A
    trueish , }
")).
Eval vm_compute in ("<<<M182>>>" ++ check (runes_of_ascii "root  packet body { /// triple
crc
x_y_z `say ""hi""` , float// `tick` ""quote"" 'q'
_x , T// " ++ [128512]%N ++ runes_of_ascii " emoji
`a\`
    // " ++ [27880; 37322]%N ++ runes_of_ascii "
    , uint64 MetaDataX , repeat zchar[ 7 ]
    calculatedFrom `` , uint32 len
// c
// @lengthOf(
`a\` , } /// triple
options{
} packet	a1{ @tag( 1 )Logon @lengthOf(	options1) `{ , }` , @calculatedFrom( ""abc"")
    /// triple
    f32a // " ++ [27880; 37322]%N ++ runes_of_ascii "
{leftPad { // trailing space 
o matchKey
``  , }
, int32 int
// c
// @lengthOf(
``
, char[ 007 ]
    zchar
@lengthOf( Z9_ ) `tab	here`
    , char[ 1 ] falsey ,  } ,
    repeat int16 Z9_ , match	zchar as zchar{ ""packet"" :	x_y_z	,
[3
    // " ++ [128512]%N ++ runes_of_ascii " emoji
    , ""CRC32"", 0,""CRC32""//
, 0123456789 ]
: len
, [0 ,	4294967296
] :
Packet
, [65535
] : options1 [ 10]//	t
: u128 , } , // packet A { u8 x, }
}
")).
Eval vm_compute in ("<<<M192>>>" ++ check (runes_of_ascii "root
packet BodyLength {
//x
//	t
@rightPad( ' ') f32
_x @lengthOf( Header )
`" ++ [28040; 24687; 31867; 22411]%N ++ runes_of_ascii "`
, @lengthOf( crc )
    // a // b
    @tag(
    007
) char[]// c
a1
    ,  } packet metadata { Foo@calculatedFrom( ""\n""), char _x
// " ++ [27880; 37322]%N ++ runes_of_ascii "
//	t
, }
")).
Eval vm_compute in ("<<<M202>>>" ++ check (runes_of_ascii "packet i64_ { match
    BodyLength as u8x {
[ 0123456789 ]: leftPad ""{,}"" :	lengthOf	,
007 :	A, [  ""a\""b"" ] :float , //x
} , @calculatedFrom( // `tick` ""quote"" 'q'
""" ++ [233]%N ++ runes_of_ascii "t" ++ [233]%N ++ runes_of_ascii """ )// a // b
body
u8x
    , packetx`say ""hi""`, // @lengthOf(
zchar[
    42 ]MetaDataX `line1
line2`
    ,
    f32 // @lengthOf(
matchKey, roots{
    // " ++ [27880; 37322]%N ++ runes_of_ascii "
    u128 @lengthOf( T ) , char[
// " ++ [128512]%N ++ runes_of_ascii " emoji
// packet A { u8 x, }
42
    ]	x_y_z	@calculatedFrom( """" ) ,repeat float64 stringy// " ++ [128512]%N ++ runes_of_ascii " emoji
`` ,
    }
,u16 // @lengthOf(
metadata
    `tab	here` ,@rightPad	( '0'
    // " ++ [128512]%N ++ runes_of_ascii " emoji
    )
@tag( 7 )
// " ++ [27880; 37322]%N ++ runes_of_ascii "
// " ++ [27880; 37322]%N ++ runes_of_ascii "
repeat uint16 // @lengthOf(
x_y_z `say ""hi""`, repeat
    roots{ // a // b
Packet {float{ repeat asx , asx
Foo
    , }
,
    }	,} ,@tag( 42 )//x
u `line1
line2` , // `tick` ""quote"" 'q'
}  packet int { } options {
    // `tick` ""quote"" 'q'
    Logon
    = ""{,}"" ; } packet	As{// packet A { u8 x, }
@calculatedFrom( // @lengthOf(
"""" ) @rightPad ( '\x00'
// " ++ [128512]%N ++ runes_of_ascii " emoji
//	t
) @leftPad (
'0' ) repeat Logon
f32a	, @lengthOf(
// a // b
// a // b
rootA ) @tag(42 )
    @lengthOf(
// " ++ [128512]%N ++ runes_of_ascii " emoji
//
u
//	t
// a // b
)repeat o u8x `u8 x,` , @tag( 7) zchar[
    //x
    42] asx @lengthOf(
    trueish ) , @lengthOf( trueish ) int16
stringy
,
zchar f32a
    `two words` , string u8x@calculatedFrom( ""\n""
    )  , _x `
` , @lengthOf( i8i8  ) i64_@lengthOf(
    uint8x )
    , uint32 rootA `it's` , }
")).
Eval vm_compute in ("<<<T202>>>" ++ terms [mkTok 35 "packet" 1 0 false; mkTok 42 "i64_" 1 7 false; mkTok 2 "{" 1 12 false; mkTok 38 "match" 1 14 false; mkTok 42 "BodyLength" 2 4 false; mkTok 17 "as" 2 15 false; mkTok 42 "u8x" 2 18 false; mkTok 2 "{" 2 22 false; mkTok 18 "[" 3 0 false; mkTok 30 "0123456789" 3 2 false; mkTok 13 "]" 3 13 false; mkTok 39 ":" 3 14 false; mkTok 42 "leftPad" 3 16 false; mkTok 31 """{,}""" 3 24 false; mkTok 39 ":" 3 30 false; mkTok 42 "lengthOf" 3 32 false; mkTok 40 "," 3 41 false; mkTok 30 "007" 4 0 false; mkTok 39 ":" 4 4 false; mkTok 42 "A" 4 6 false; mkTok 40 "," 4 7 false; mkTok 18 "[" 4 9 false; mkTok 31 """a\""b""" 4 12 false; mkTok 13 "]" 4 19 false; mkTok 39 ":" 4 21 false; mkTok 42 "float" 4 22 false; mkTok 40 "," 4 28 false; mkTok 44 "//x" 4 30 true; mkTok 3 "}" 5 0 false; mkTok 40 "," 5 2 false; mkTok 5 "@calculatedFrom(" 5 4 false; mkTok 44 "// `tick` ""quote"" 'q'" 5 21 true; mkTok 31 (string_of_bytes [34; 195; 169; 116; 195; 169; 34]%N) 6 0 false; mkTok 6 ")" 6 6 false; mkTok 44 "// a // b" 6 7 true; mkTok 42 "body" 7 0 false; mkTok 42 "u8x" 8 0 false; mkTok 40 "," 9 4 false; mkTok 42 "packetx" 9 6 false; mkTok 43 "`say ""hi""`" 9 13 false; mkTok 40 "," 9 23 false; mkTok 44 "// @lengthOf(" 9 25 true; mkTok 14 "zchar[" 10 0 false; mkTok 30 "42" 11 4 false; mkTok 13 "]" 11 7 false; mkTok 42 "MetaDataX" 11 8 false; mkTok 43 (string_of_bytes [96; 108; 105; 110; 101; 49; 10; 108; 105; 110; 101; 50; 96]%N) 11 18 false; mkTok 40 "," 13 4 false; mkTok 28 "f32" 14 4 false; mkTok 44 "// @lengthOf(" 14 8 true; mkTok 42 "matchKey" 15 0 false; mkTok 40 "," 15 8 false; mkTok 42 "roots" 15 10 false; mkTok 2 "{" 15 15 false; mkTok 44 (string_of_bytes [47; 47; 32; 230; 179; 168; 233; 135; 138]%N) 16 4 true; mkTok 42 "u128" 17 4 false; mkTok 7 "@lengthOf(" 17 9 false; mkTok 42 "T" 17 20 false; mkTok 6 ")" 17 22 false; mkTok 40 "," 17 24 false; mkTok 12 "char[" 17 26 false; mkTok 44 (string_of_bytes [47; 47; 32; 240; 159; 152; 128; 32; 101; 109; 111; 106; 105]%N) 18 0 true; mkTok 44 "// packet A { u8 x, }" 19 0 true; mkTok 30 "42" 20 0 false; mkTok 13 "]" 21 4 false; mkTok 42 "x_y_z" 21 6 false; mkTok 5 "@calculatedFrom(" 21 12 false; mkTok 31 """""" 21 29 false; mkTok 6 ")" 21 32 false; mkTok 40 "," 21 34 false; mkTok 36 "repeat" 21 35 false; mkTok 29 "float64" 21 42 false; mkTok 42 "stringy" 21 50 false; mkTok 44 (string_of_bytes [47; 47; 32; 240; 159; 152; 128; 32; 101; 109; 111; 106; 105]%N) 21 57 true; mkTok 43 "``" 22 0 false; mkTok 40 "," 22 3 false; mkTok 3 "}" 23 4 false; mkTok 40 "," 24 0 false; mkTok 21 "u16" 24 1 false; mkTok 44 "// @lengthOf(" 24 5 true; mkTok 42 "metadata" 25 0 false; mkTok 43 (string_of_bytes [96; 116; 97; 98; 9; 104; 101; 114; 101; 96]%N) 26 4 false; mkTok 40 "," 26 15 false; mkTok 32 "@rightPad" 26 16 false; mkTok 8 "(" 26 26 false; mkTok 33 "'0'" 26 28 false; mkTok 44 (string_of_bytes [47; 47; 32; 240; 159; 152; 128; 32; 101; 109; 111; 106; 105]%N) 27 4 true; mkTok 6 ")" 28 4 false; mkTok 9 "@tag(" 29 0 false; mkTok 30 "7" 29 6 false; mkTok 6 ")" 29 8 false; mkTok 44 (string_of_bytes [47; 47; 32; 230; 179; 168; 233; 135; 138]%N) 30 0 true; mkTok 44 (string_of_bytes [47; 47; 32; 230; 179; 168; 233; 135; 138]%N) 31 0 true; mkTok 36 "repeat" 32 0 false; mkTok 21 "uint16" 32 7 false; mkTok 44 "// @lengthOf(" 32 14 true; mkTok 42 "x_y_z" 33 0 false; mkTok 43 "`say ""hi""`" 33 6 false; mkTok 40 "," 33 16 false; mkTok 36 "repeat" 33 18 false; mkTok 42 "roots" 34 4 false; mkTok 2 "{" 34 9 false; mkTok 44 "// a // b" 34 11 true; mkTok 42 "Packet" 35 0 false; mkTok 2 "{" 35 7 false; mkTok 42 "float" 35 8 false; mkTok 2 "{" 35 13 false; mkTok 36 "repeat" 35 15 false; mkTok 42 "asx" 35 22 false; mkTok 40 "," 35 26 false; mkTok 42 "asx" 35 28 false; mkTok 42 "Foo" 36 0 false; mkTok 40 "," 37 4 false; mkTok 3 "}" 37 6 false; mkTok 40 "," 38 0 false; mkTok 3 "}" 39 4 false; mkTok 40 "," 39 6 false; mkTok 3 "}" 39 7 false; mkTok 40 "," 39 9 false; mkTok 9 "@tag(" 39 10 false; mkTok 30 "42" 39 16 false; mkTok 6 ")" 39 19 false; mkTok 44 "//x" 39 20 true; mkTok 42 "u" 40 0 false; mkTok 43 (string_of_bytes [96; 108; 105; 110; 101; 49; 10; 108; 105; 110; 101; 50; 96]%N) 40 2 false; mkTok 40 "," 41 7 false; mkTok 44 "// `tick` ""quote"" 'q'" 41 9 true; mkTok 3 "}" 42 0 false; mkTok 35 "packet" 42 3 false; mkTok 42 "int" 42 10 false; mkTok 2 "{" 42 14 false; mkTok 3 "}" 42 16 false; mkTok 1 "options" 42 18 false; mkTok 2 "{" 42 26 false; mkTok 44 "// `tick` ""quote"" 'q'" 43 4 true; mkTok 42 "Logon" 44 4 false; mkTok 4 "=" 45 4 false; mkTok 31 """{,}""" 45 6 false; mkTok 41 ";" 45 12 false; mkTok 3 "}" 45 14 false; mkTok 35 "packet" 45 16 false; mkTok 42 "As" 45 23 false; mkTok 2 "{" 45 25 false; mkTok 44 "// packet A { u8 x, }" 45 26 true; mkTok 5 "@calculatedFrom(" 46 0 false; mkTok 44 "// @lengthOf(" 46 17 true; mkTok 31 """""" 47 0 false; mkTok 6 ")" 47 3 false; mkTok 32 "@rightPad" 47 5 false; mkTok 8 "(" 47 15 false; mkTok 33 "'\x00'" 47 17 false; mkTok 44 (string_of_bytes [47; 47; 32; 240; 159; 152; 128; 32; 101; 109; 111; 106; 105]%N) 48 0 true; mkTok 44 (string_of_bytes [47; 47; 9; 116]%N) 49 0 true; mkTok 6 ")" 50 0 false; mkTok 32 "@leftPad" 50 2 false; mkTok 8 "(" 50 11 false; mkTok 33 "'0'" 51 0 false; mkTok 6 ")" 51 4 false; mkTok 36 "repeat" 51 6 false; mkTok 42 "Logon" 51 13 false; mkTok 42 "f32a" 52 0 false; mkTok 40 "," 52 5 false; mkTok 7 "@lengthOf(" 52 7 false; mkTok 44 "// a // b" 53 0 true; mkTok 44 "// a // b" 54 0 true; mkTok 42 "rootA" 55 0 false; mkTok 6 ")" 55 6 false; mkTok 9 "@tag(" 55 8 false; mkTok 30 "42" 55 13 false; mkTok 6 ")" 55 16 false; mkTok 7 "@lengthOf(" 56 4 false; mkTok 44 (string_of_bytes [47; 47; 32; 240; 159; 152; 128; 32; 101; 109; 111; 106; 105]%N) 57 0 true; mkTok 44 "//" 58 0 true; mkTok 42 "u" 59 0 false; mkTok 44 (string_of_bytes [47; 47; 9; 116]%N) 60 0 true; mkTok 44 "// a // b" 61 0 true; mkTok 6 ")" 62 0 false; mkTok 36 "repeat" 62 1 false; mkTok 42 "o" 62 8 false; mkTok 42 "u8x" 62 10 false; mkTok 43 "`u8 x,`" 62 14 false; mkTok 40 "," 62 22 false; mkTok 9 "@tag(" 62 24 false; mkTok 30 "7" 62 30 false; mkTok 6 ")" 62 31 false; mkTok 14 "zchar[" 62 33 false; mkTok 44 "//x" 63 4 true; mkTok 30 "42" 64 4 false; mkTok 13 "]" 64 6 false; mkTok 42 "asx" 64 8 false; mkTok 7 "@lengthOf(" 64 12 false; mkTok 42 "trueish" 65 4 false; mkTok 6 ")" 65 12 false; mkTok 40 "," 65 14 false; mkTok 7 "@lengthOf(" 65 16 false; mkTok 42 "trueish" 65 27 false; mkTok 6 ")" 65 35 false; mkTok 25 "int16" 65 37 false; mkTok 42 "stringy" 66 0 false; mkTok 40 "," 67 0 false; mkTok 42 "zchar" 68 0 false; mkTok 42 "f32a" 68 6 false; mkTok 43 "`two words`" 69 4 false; mkTok 40 "," 69 16 false; mkTok 15 "string" 69 18 false; mkTok 42 "u8x" 69 25 false; mkTok 5 "@calculatedFrom(" 69 28 false; mkTok 31 """\n""" 69 45 false; mkTok 6 ")" 70 4 false; mkTok 40 "," 70 7 false; mkTok 42 "_x" 70 9 false; mkTok 43 (string_of_bytes [96; 10; 96]%N) 70 12 false; mkTok 40 "," 71 2 false; mkTok 7 "@lengthOf(" 71 4 false; mkTok 42 "i8i8" 71 15 false; mkTok 6 ")" 71 21 false; mkTok 42 "i64_" 71 23 false; mkTok 7 "@lengthOf(" 71 27 false; mkTok 42 "uint8x" 72 4 false; mkTok 6 ")" 72 11 false; mkTok 40 "," 73 4 false; mkTok 22 "uint32" 73 6 false; mkTok 42 "rootA" 73 13 false; mkTok 43 "`it's`" 73 19 false; mkTok 40 "," 73 26 false; mkTok 3 "}" 73 28 false; mkTok 0 "<EOF>" 74 0 false] (mkPacket (mkPtok 35 "packet" 1 0 0) (Some (mkPtok 3 "}" 73 28 225)) [(DPacket (mkPacketDef (mkSpan (mkPtok 35 "packet" 1 0 0) (mkPtok 3 "}" 42 0 127)) None (mkPtok 35 "packet" 1 0 0) (mkPtok 42 "i64_" 1 7 1) (mkPtok 2 "{" 1 12 2) [(mkFieldWithAttr (mkSpan (mkPtok 38 "match" 1 14 3) (mkPtok 40 "," 5 2 29)) [] (MatchField (mkSpan (mkPtok 38 "match" 1 14 3) (mkPtok 40 "," 5 2 29)) (mkMatchFieldDecl (mkSpan (mkPtok 38 "match" 1 14 3) (mkPtok 3 "}" 5 0 28)) (mkPtok 38 "match" 1 14 3) (mkPtok 42 "BodyLength" 2 4 4) (mkPtok 17 "as" 2 15 5) (mkPtok 42 "u8x" 2 18 6) (mkPtok 2 "{" 2 22 7) [(mkMatchPair (mkSpan (mkPtok 18 "[" 3 0 8) (mkPtok 42 "leftPad" 3 16 12)) (MKList (mkKeyList (mkSpan (mkPtok 18 "[" 3 0 8) (mkPtok 13 "]" 3 13 10)) (mkPtok 18 "[" 3 0 8) (mkPtok 30 "0123456789" 3 2 9) [] (mkPtok 13 "]" 3 13 10))) (mkPtok 39 ":" 3 14 11) (mkPtok 42 "leftPad" 3 16 12) None); (mkMatchPair (mkSpan (mkPtok 31 """{,}""" 3 24 13) (mkPtok 40 "," 3 41 16)) (MKString (mkPtok 31 """{,}""" 3 24 13)) (mkPtok 39 ":" 3 30 14) (mkPtok 42 "lengthOf" 3 32 15) (Some (mkPtok 40 "," 3 41 16))); (mkMatchPair (mkSpan (mkPtok 30 "007" 4 0 17) (mkPtok 40 "," 4 7 20)) (MKDigits (mkPtok 30 "007" 4 0 17)) (mkPtok 39 ":" 4 4 18) (mkPtok 42 "A" 4 6 19) (Some (mkPtok 40 "," 4 7 20))); (mkMatchPair (mkSpan (mkPtok 18 "[" 4 9 21) (mkPtok 40 "," 4 28 26)) (MKList (mkKeyList (mkSpan (mkPtok 18 "[" 4 9 21) (mkPtok 13 "]" 4 19 23)) (mkPtok 18 "[" 4 9 21) (mkPtok 31 """a\""b""" 4 12 22) [] (mkPtok 13 "]" 4 19 23))) (mkPtok 39 ":" 4 21 24) (mkPtok 42 "float" 4 22 25) (Some (mkPtok 40 "," 4 28 26)))] (mkPtok 3 "}" 5 0 28)) (mkPtok 40 "," 5 2 29))); (mkFieldWithAttr (mkSpan (mkPtok 5 "@calculatedFrom(" 5 4 30) (mkPtok 40 "," 9 4 37)) [(FACalculatedFrom (mkSpan (mkPtok 5 "@calculatedFrom(" 5 4 30) (mkPtok 6 ")" 6 6 33)) (mkCalculatedFrom (mkSpan (mkPtok 5 "@calculatedFrom(" 5 4 30) (mkPtok 6 ")" 6 6 33)) (mkPtok 5 "@calculatedFrom(" 5 4 30) (mkPtok 31 (string_of_bytes [34; 195; 169; 116; 195; 169; 34]%N) 6 0 32) (mkPtok 6 ")" 6 6 33)))] (ObjectField (mkSpan (mkPtok 42 "body" 7 0 35) (mkPtok 40 "," 9 4 37)) None (mkPtok 42 "body" 7 0 35) (Some (mkPtok 42 "u8x" 8 0 36)) None (mkPtok 40 "," 9 4 37))); (mkFieldWithAttr (mkSpan (mkPtok 42 "packetx" 9 6 38) (mkPtok 40 "," 9 23 40)) [] (ObjectField (mkSpan (mkPtok 42 "packetx" 9 6 38) (mkPtok 40 "," 9 23 40)) None (mkPtok 42 "packetx" 9 6 38) None (Some (mkPtok 43 "`say ""hi""`" 9 13 39)) (mkPtok 40 "," 9 23 40))); (mkFieldWithAttr (mkSpan (mkPtok 14 "zchar[" 10 0 42) (mkPtok 40 "," 13 4 47)) [] (MetaField (mkSpan (mkPtok 14 "zchar[" 10 0 42) (mkPtok 40 "," 13 4 47)) None (mkMetaDecl (mkSpan (mkPtok 14 "zchar[" 10 0 42) (mkPtok 40 "," 13 4 47)) (TyFixed (mkSpan (mkPtok 14 "zchar[" 10 0 42) (mkPtok 13 "]" 11 7 44)) (mkFixedString (mkSpan (mkPtok 14 "zchar[" 10 0 42) (mkPtok 13 "]" 11 7 44)) (mkPtok 14 "zchar[" 10 0 42) (mkPtok 30 "42" 11 4 43) (mkPtok 13 "]" 11 7 44))) (mkPtok 42 "MetaDataX" 11 8 45) (Some (mkPtok 43 (string_of_bytes [96; 108; 105; 110; 101; 49; 10; 108; 105; 110; 101; 50; 96]%N) 11 18 46)) (mkPtok 40 "," 13 4 47)))); (mkFieldWithAttr (mkSpan (mkPtok 28 "f32" 14 4 48) (mkPtok 40 "," 15 8 51)) [] (MetaField (mkSpan (mkPtok 28 "f32" 14 4 48) (mkPtok 40 "," 15 8 51)) None (mkMetaDecl (mkSpan (mkPtok 28 "f32" 14 4 48) (mkPtok 40 "," 15 8 51)) (TyBasic (mkSpan (mkPtok 28 "f32" 14 4 48) (mkPtok 28 "f32" 14 4 48)) (mkBasicType (mkSpan (mkPtok 28 "f32" 14 4 48) (mkPtok 28 "f32" 14 4 48)) (mkPtok 28 "f32" 14 4 48))) (mkPtok 42 "matchKey" 15 0 50) None (mkPtok 40 "," 15 8 51)))); (mkFieldWithAttr (mkSpan (mkPtok 42 "roots" 15 10 52) (mkPtok 40 "," 24 0 77)) [] (InerObjectField (mkSpan (mkPtok 42 "roots" 15 10 52) (mkPtok 40 "," 24 0 77)) None (InerObjectDecl (mkSpan (mkPtok 42 "roots" 15 10 52) (mkPtok 3 "}" 23 4 76)) (mkPtok 42 "roots" 15 10 52) (mkPtok 2 "{" 15 15 53) [(LengthField (mkSpan (mkPtok 42 "u128" 17 4 55) (mkPtok 40 "," 17 24 59)) (mkLengthFieldDecl (mkSpan (mkPtok 42 "u128" 17 4 55) (mkPtok 40 "," 17 24 59)) None (mkPtok 42 "u128" 17 4 55) (mkLengthOf (mkSpan (mkPtok 7 "@lengthOf(" 17 9 56) (mkPtok 6 ")" 17 22 58)) (mkPtok 7 "@lengthOf(" 17 9 56) (mkPtok 42 "T" 17 20 57) (mkPtok 6 ")" 17 22 58)) None (mkPtok 40 "," 17 24 59))); (CheckSumField (mkSpan (mkPtok 12 "char[" 17 26 60) (mkPtok 40 "," 21 34 69)) (mkChecksumFieldDecl (mkSpan (mkPtok 12 "char[" 17 26 60) (mkPtok 40 "," 21 34 69)) (Some (TyFixed (mkSpan (mkPtok 12 "char[" 17 26 60) (mkPtok 13 "]" 21 4 64)) (mkFixedString (mkSpan (mkPtok 12 "char[" 17 26 60) (mkPtok 13 "]" 21 4 64)) (mkPtok 12 "char[" 17 26 60) (mkPtok 30 "42" 20 0 63) (mkPtok 13 "]" 21 4 64)))) (mkPtok 42 "x_y_z" 21 6 65) (mkCalculatedFrom (mkSpan (mkPtok 5 "@calculatedFrom(" 21 12 66) (mkPtok 6 ")" 21 32 68)) (mkPtok 5 "@calculatedFrom(" 21 12 66) (mkPtok 31 """""" 21 29 67) (mkPtok 6 ")" 21 32 68)) None (mkPtok 40 "," 21 34 69))); (MetaField (mkSpan (mkPtok 36 "repeat" 21 35 70) (mkPtok 40 "," 22 3 75)) (Some (mkPtok 36 "repeat" 21 35 70)) (mkMetaDecl (mkSpan (mkPtok 29 "float64" 21 42 71) (mkPtok 40 "," 22 3 75)) (TyBasic (mkSpan (mkPtok 29 "float64" 21 42 71) (mkPtok 29 "float64" 21 42 71)) (mkBasicType (mkSpan (mkPtok 29 "float64" 21 42 71) (mkPtok 29 "float64" 21 42 71)) (mkPtok 29 "float64" 21 42 71))) (mkPtok 42 "stringy" 21 50 72) (Some (mkPtok 43 "``" 22 0 74)) (mkPtok 40 "," 22 3 75)))] (mkPtok 3 "}" 23 4 76)) (mkPtok 40 "," 24 0 77))); (mkFieldWithAttr (mkSpan (mkPtok 21 "u16" 24 1 78) (mkPtok 40 "," 26 15 82)) [] (MetaField (mkSpan (mkPtok 21 "u16" 24 1 78) (mkPtok 40 "," 26 15 82)) None (mkMetaDecl (mkSpan (mkPtok 21 "u16" 24 1 78) (mkPtok 40 "," 26 15 82)) (TyBasic (mkSpan (mkPtok 21 "u16" 24 1 78) (mkPtok 21 "u16" 24 1 78)) (mkBasicType (mkSpan (mkPtok 21 "u16" 24 1 78) (mkPtok 21 "u16" 24 1 78)) (mkPtok 21 "u16" 24 1 78))) (mkPtok 42 "metadata" 25 0 80) (Some (mkPtok 43 (string_of_bytes [96; 116; 97; 98; 9; 104; 101; 114; 101; 96]%N) 26 4 81)) (mkPtok 40 "," 26 15 82)))); (mkFieldWithAttr (mkSpan (mkPtok 32 "@rightPad" 26 16 83) (mkPtok 40 "," 33 16 98)) [(FAPadding (mkSpan (mkPtok 32 "@rightPad" 26 16 83) (mkPtok 6 ")" 28 4 87)) (mkPaddingAttr (mkSpan (mkPtok 32 "@rightPad" 26 16 83) (mkPtok 6 ")" 28 4 87)) (mkPtok 32 "@rightPad" 26 16 83) (mkPtok 8 "(" 26 26 84) (Some (mkPtok 33 "'0'" 26 28 85)) (mkPtok 6 ")" 28 4 87))); (FATag (mkSpan (mkPtok 9 "@tag(" 29 0 88) (mkPtok 6 ")" 29 8 90)) (mkTagAttr (mkSpan (mkPtok 9 "@tag(" 29 0 88) (mkPtok 6 ")" 29 8 90)) (mkPtok 9 "@tag(" 29 0 88) (mkPtok 30 "7" 29 6 89) (mkPtok 6 ")" 29 8 90)))] (MetaField (mkSpan (mkPtok 36 "repeat" 32 0 93) (mkPtok 40 "," 33 16 98)) (Some (mkPtok 36 "repeat" 32 0 93)) (mkMetaDecl (mkSpan (mkPtok 21 "uint16" 32 7 94) (mkPtok 40 "," 33 16 98)) (TyBasic (mkSpan (mkPtok 21 "uint16" 32 7 94) (mkPtok 21 "uint16" 32 7 94)) (mkBasicType (mkSpan (mkPtok 21 "uint16" 32 7 94) (mkPtok 21 "uint16" 32 7 94)) (mkPtok 21 "uint16" 32 7 94))) (mkPtok 42 "x_y_z" 33 0 96) (Some (mkPtok 43 "`say ""hi""`" 33 6 97)) (mkPtok 40 "," 33 16 98)))); (mkFieldWithAttr (mkSpan (mkPtok 36 "repeat" 33 18 99) (mkPtok 40 "," 39 9 118)) [] (InerObjectField (mkSpan (mkPtok 36 "repeat" 33 18 99) (mkPtok 40 "," 39 9 118)) (Some (mkPtok 36 "repeat" 33 18 99)) (InerObjectDecl (mkSpan (mkPtok 42 "roots" 34 4 100) (mkPtok 3 "}" 39 7 117)) (mkPtok 42 "roots" 34 4 100) (mkPtok 2 "{" 34 9 101) [(InerObjectField (mkSpan (mkPtok 42 "Packet" 35 0 103) (mkPtok 40 "," 39 6 116)) None (InerObjectDecl (mkSpan (mkPtok 42 "Packet" 35 0 103) (mkPtok 3 "}" 39 4 115)) (mkPtok 42 "Packet" 35 0 103) (mkPtok 2 "{" 35 7 104) [(InerObjectField (mkSpan (mkPtok 42 "float" 35 8 105) (mkPtok 40 "," 38 0 114)) None (InerObjectDecl (mkSpan (mkPtok 42 "float" 35 8 105) (mkPtok 3 "}" 37 6 113)) (mkPtok 42 "float" 35 8 105) (mkPtok 2 "{" 35 13 106) [(ObjectField (mkSpan (mkPtok 36 "repeat" 35 15 107) (mkPtok 40 "," 35 26 109)) (Some (mkPtok 36 "repeat" 35 15 107)) (mkPtok 42 "asx" 35 22 108) None None (mkPtok 40 "," 35 26 109)); (ObjectField (mkSpan (mkPtok 42 "asx" 35 28 110) (mkPtok 40 "," 37 4 112)) None (mkPtok 42 "asx" 35 28 110) (Some (mkPtok 42 "Foo" 36 0 111)) None (mkPtok 40 "," 37 4 112))] (mkPtok 3 "}" 37 6 113)) (mkPtok 40 "," 38 0 114))] (mkPtok 3 "}" 39 4 115)) (mkPtok 40 "," 39 6 116))] (mkPtok 3 "}" 39 7 117)) (mkPtok 40 "," 39 9 118))); (mkFieldWithAttr (mkSpan (mkPtok 9 "@tag(" 39 10 119) (mkPtok 40 "," 41 7 125)) [(FATag (mkSpan (mkPtok 9 "@tag(" 39 10 119) (mkPtok 6 ")" 39 19 121)) (mkTagAttr (mkSpan (mkPtok 9 "@tag(" 39 10 119) (mkPtok 6 ")" 39 19 121)) (mkPtok 9 "@tag(" 39 10 119) (mkPtok 30 "42" 39 16 120) (mkPtok 6 ")" 39 19 121)))] (ObjectField (mkSpan (mkPtok 42 "u" 40 0 123) (mkPtok 40 "," 41 7 125)) None (mkPtok 42 "u" 40 0 123) None (Some (mkPtok 43 (string_of_bytes [96; 108; 105; 110; 101; 49; 10; 108; 105; 110; 101; 50; 96]%N) 40 2 124)) (mkPtok 40 "," 41 7 125)))] (mkPtok 3 "}" 42 0 127))); (DPacket (mkPacketDef (mkSpan (mkPtok 35 "packet" 42 3 128) (mkPtok 3 "}" 42 16 131)) None (mkPtok 35 "packet" 42 3 128) (mkPtok 42 "int" 42 10 129) (mkPtok 2 "{" 42 14 130) [] (mkPtok 3 "}" 42 16 131))); (DOption (mkOptionDef (mkSpan (mkPtok 1 "options" 42 18 132) (mkPtok 3 "}" 45 14 139)) (mkPtok 1 "options" 42 18 132) (mkPtok 2 "{" 42 26 133) [(mkOptionDecl (mkSpan (mkPtok 42 "Logon" 44 4 135) (mkPtok 41 ";" 45 12 138)) (mkPtok 42 "Logon" 44 4 135) (mkPtok 4 "=" 45 4 136) (VString (mkSpan (mkPtok 31 """{,}""" 45 6 137) (mkPtok 31 """{,}""" 45 6 137)) (mkPtok 31 """{,}""" 45 6 137)) (Some (mkPtok 41 ";" 45 12 138)))] (mkPtok 3 "}" 45 14 139))); (DPacket (mkPacketDef (mkSpan (mkPtok 35 "packet" 45 16 140) (mkPtok 3 "}" 73 28 225)) None (mkPtok 35 "packet" 45 16 140) (mkPtok 42 "As" 45 23 141) (mkPtok 2 "{" 45 25 142) [(mkFieldWithAttr (mkSpan (mkPtok 5 "@calculatedFrom(" 46 0 144) (mkPtok 40 "," 52 5 161)) [(FACalculatedFrom (mkSpan (mkPtok 5 "@calculatedFrom(" 46 0 144) (mkPtok 6 ")" 47 3 147)) (mkCalculatedFrom (mkSpan (mkPtok 5 "@calculatedFrom(" 46 0 144) (mkPtok 6 ")" 47 3 147)) (mkPtok 5 "@calculatedFrom(" 46 0 144) (mkPtok 31 """""" 47 0 146) (mkPtok 6 ")" 47 3 147))); (FAPadding (mkSpan (mkPtok 32 "@rightPad" 47 5 148) (mkPtok 6 ")" 50 0 153)) (mkPaddingAttr (mkSpan (mkPtok 32 "@rightPad" 47 5 148) (mkPtok 6 ")" 50 0 153)) (mkPtok 32 "@rightPad" 47 5 148) (mkPtok 8 "(" 47 15 149) (Some (mkPtok 33 "'\x00'" 47 17 150)) (mkPtok 6 ")" 50 0 153))); (FAPadding (mkSpan (mkPtok 32 "@leftPad" 50 2 154) (mkPtok 6 ")" 51 4 157)) (mkPaddingAttr (mkSpan (mkPtok 32 "@leftPad" 50 2 154) (mkPtok 6 ")" 51 4 157)) (mkPtok 32 "@leftPad" 50 2 154) (mkPtok 8 "(" 50 11 155) (Some (mkPtok 33 "'0'" 51 0 156)) (mkPtok 6 ")" 51 4 157)))] (ObjectField (mkSpan (mkPtok 36 "repeat" 51 6 158) (mkPtok 40 "," 52 5 161)) (Some (mkPtok 36 "repeat" 51 6 158)) (mkPtok 42 "Logon" 51 13 159) (Some (mkPtok 42 "f32a" 52 0 160)) None (mkPtok 40 "," 52 5 161))); (mkFieldWithAttr (mkSpan (mkPtok 7 "@lengthOf(" 52 7 162) (mkPtok 40 "," 62 22 181)) [(FALengthOf (mkSpan (mkPtok 7 "@lengthOf(" 52 7 162) (mkPtok 6 ")" 55 6 166)) (mkLengthOf (mkSpan (mkPtok 7 "@lengthOf(" 52 7 162) (mkPtok 6 ")" 55 6 166)) (mkPtok 7 "@lengthOf(" 52 7 162) (mkPtok 42 "rootA" 55 0 165) (mkPtok 6 ")" 55 6 166))); (FATag (mkSpan (mkPtok 9 "@tag(" 55 8 167) (mkPtok 6 ")" 55 16 169)) (mkTagAttr (mkSpan (mkPtok 9 "@tag(" 55 8 167) (mkPtok 6 ")" 55 16 169)) (mkPtok 9 "@tag(" 55 8 167) (mkPtok 30 "42" 55 13 168) (mkPtok 6 ")" 55 16 169))); (FALengthOf (mkSpan (mkPtok 7 "@lengthOf(" 56 4 170) (mkPtok 6 ")" 62 0 176)) (mkLengthOf (mkSpan (mkPtok 7 "@lengthOf(" 56 4 170) (mkPtok 6 ")" 62 0 176)) (mkPtok 7 "@lengthOf(" 56 4 170) (mkPtok 42 "u" 59 0 173) (mkPtok 6 ")" 62 0 176)))] (ObjectField (mkSpan (mkPtok 36 "repeat" 62 1 177) (mkPtok 40 "," 62 22 181)) (Some (mkPtok 36 "repeat" 62 1 177)) (mkPtok 42 "o" 62 8 178) (Some (mkPtok 42 "u8x" 62 10 179)) (Some (mkPtok 43 "`u8 x,`" 62 14 180)) (mkPtok 40 "," 62 22 181))); (mkFieldWithAttr (mkSpan (mkPtok 9 "@tag(" 62 24 182) (mkPtok 40 "," 65 14 193)) [(FATag (mkSpan (mkPtok 9 "@tag(" 62 24 182) (mkPtok 6 ")" 62 31 184)) (mkTagAttr (mkSpan (mkPtok 9 "@tag(" 62 24 182) (mkPtok 6 ")" 62 31 184)) (mkPtok 9 "@tag(" 62 24 182) (mkPtok 30 "7" 62 30 183) (mkPtok 6 ")" 62 31 184)))] (LengthField (mkSpan (mkPtok 14 "zchar[" 62 33 185) (mkPtok 40 "," 65 14 193)) (mkLengthFieldDecl (mkSpan (mkPtok 14 "zchar[" 62 33 185) (mkPtok 40 "," 65 14 193)) (Some (TyFixed (mkSpan (mkPtok 14 "zchar[" 62 33 185) (mkPtok 13 "]" 64 6 188)) (mkFixedString (mkSpan (mkPtok 14 "zchar[" 62 33 185) (mkPtok 13 "]" 64 6 188)) (mkPtok 14 "zchar[" 62 33 185) (mkPtok 30 "42" 64 4 187) (mkPtok 13 "]" 64 6 188)))) (mkPtok 42 "asx" 64 8 189) (mkLengthOf (mkSpan (mkPtok 7 "@lengthOf(" 64 12 190) (mkPtok 6 ")" 65 12 192)) (mkPtok 7 "@lengthOf(" 64 12 190) (mkPtok 42 "trueish" 65 4 191) (mkPtok 6 ")" 65 12 192)) None (mkPtok 40 "," 65 14 193)))); (mkFieldWithAttr (mkSpan (mkPtok 7 "@lengthOf(" 65 16 194) (mkPtok 40 "," 67 0 199)) [(FALengthOf (mkSpan (mkPtok 7 "@lengthOf(" 65 16 194) (mkPtok 6 ")" 65 35 196)) (mkLengthOf (mkSpan (mkPtok 7 "@lengthOf(" 65 16 194) (mkPtok 6 ")" 65 35 196)) (mkPtok 7 "@lengthOf(" 65 16 194) (mkPtok 42 "trueish" 65 27 195) (mkPtok 6 ")" 65 35 196)))] (MetaField (mkSpan (mkPtok 25 "int16" 65 37 197) (mkPtok 40 "," 67 0 199)) None (mkMetaDecl (mkSpan (mkPtok 25 "int16" 65 37 197) (mkPtok 40 "," 67 0 199)) (TyBasic (mkSpan (mkPtok 25 "int16" 65 37 197) (mkPtok 25 "int16" 65 37 197)) (mkBasicType (mkSpan (mkPtok 25 "int16" 65 37 197) (mkPtok 25 "int16" 65 37 197)) (mkPtok 25 "int16" 65 37 197))) (mkPtok 42 "stringy" 66 0 198) None (mkPtok 40 "," 67 0 199)))); (mkFieldWithAttr (mkSpan (mkPtok 42 "zchar" 68 0 200) (mkPtok 40 "," 69 16 203)) [] (ObjectField (mkSpan (mkPtok 42 "zchar" 68 0 200) (mkPtok 40 "," 69 16 203)) None (mkPtok 42 "zchar" 68 0 200) (Some (mkPtok 42 "f32a" 68 6 201)) (Some (mkPtok 43 "`two words`" 69 4 202)) (mkPtok 40 "," 69 16 203))); (mkFieldWithAttr (mkSpan (mkPtok 15 "string" 69 18 204) (mkPtok 40 "," 70 7 209)) [] (CheckSumField (mkSpan (mkPtok 15 "string" 69 18 204) (mkPtok 40 "," 70 7 209)) (mkChecksumFieldDecl (mkSpan (mkPtok 15 "string" 69 18 204) (mkPtok 40 "," 70 7 209)) (Some (TyDynamic (mkSpan (mkPtok 15 "string" 69 18 204) (mkPtok 15 "string" 69 18 204)) (mkDynamicString (mkSpan (mkPtok 15 "string" 69 18 204) (mkPtok 15 "string" 69 18 204)) (mkPtok 15 "string" 69 18 204)))) (mkPtok 42 "u8x" 69 25 205) (mkCalculatedFrom (mkSpan (mkPtok 5 "@calculatedFrom(" 69 28 206) (mkPtok 6 ")" 70 4 208)) (mkPtok 5 "@calculatedFrom(" 69 28 206) (mkPtok 31 """\n""" 69 45 207) (mkPtok 6 ")" 70 4 208)) None (mkPtok 40 "," 70 7 209)))); (mkFieldWithAttr (mkSpan (mkPtok 42 "_x" 70 9 210) (mkPtok 40 "," 71 2 212)) [] (ObjectField (mkSpan (mkPtok 42 "_x" 70 9 210) (mkPtok 40 "," 71 2 212)) None (mkPtok 42 "_x" 70 9 210) None (Some (mkPtok 43 (string_of_bytes [96; 10; 96]%N) 70 12 211)) (mkPtok 40 "," 71 2 212))); (mkFieldWithAttr (mkSpan (mkPtok 7 "@lengthOf(" 71 4 213) (mkPtok 40 "," 73 4 220)) [(FALengthOf (mkSpan (mkPtok 7 "@lengthOf(" 71 4 213) (mkPtok 6 ")" 71 21 215)) (mkLengthOf (mkSpan (mkPtok 7 "@lengthOf(" 71 4 213) (mkPtok 6 ")" 71 21 215)) (mkPtok 7 "@lengthOf(" 71 4 213) (mkPtok 42 "i8i8" 71 15 214) (mkPtok 6 ")" 71 21 215)))] (LengthField (mkSpan (mkPtok 42 "i64_" 71 23 216) (mkPtok 40 "," 73 4 220)) (mkLengthFieldDecl (mkSpan (mkPtok 42 "i64_" 71 23 216) (mkPtok 40 "," 73 4 220)) None (mkPtok 42 "i64_" 71 23 216) (mkLengthOf (mkSpan (mkPtok 7 "@lengthOf(" 71 27 217) (mkPtok 6 ")" 72 11 219)) (mkPtok 7 "@lengthOf(" 71 27 217) (mkPtok 42 "uint8x" 72 4 218) (mkPtok 6 ")" 72 11 219)) None (mkPtok 40 "," 73 4 220)))); (mkFieldWithAttr (mkSpan (mkPtok 22 "uint32" 73 6 221) (mkPtok 40 "," 73 26 224)) [] (MetaField (mkSpan (mkPtok 22 "uint32" 73 6 221) (mkPtok 40 "," 73 26 224)) None (mkMetaDecl (mkSpan (mkPtok 22 "uint32" 73 6 221) (mkPtok 40 "," 73 26 224)) (TyBasic (mkSpan (mkPtok 22 "uint32" 73 6 221) (mkPtok 22 "uint32" 73 6 221)) (mkBasicType (mkSpan (mkPtok 22 "uint32" 73 6 221) (mkPtok 22 "uint32" 73 6 221)) (mkPtok 22 "uint32" 73 6 221))) (mkPtok 42 "rootA" 73 13 222) (Some (mkPtok 43 "`it's`" 73 19 223)) (mkPtok 40 "," 73 26 224))))] (mkPtok 3 "}" 73 28 225)))])).
Eval vm_compute in ("<<<M212>>>" ++ check (runes_of_ascii "packet
    body {
@rightPad(	'0'	) Packet a1 ,asx ,repeatCount
// trailing space 
// packet A { u8 x, }
{// trailing space 
repeat int64 falsey , },	@rightPad
// c
// a // b
( '0'
)	match int
    // " ++ [27880; 37322]%N ++ runes_of_ascii "
    as T { 4294967296
: _x, 00 :  string_// c
,
    [""x y""  ] :  stringy, } ,// packet A { u8 x, }
uint32 x_y_z
,
}")).
Eval vm_compute in ("<<<M222>>>" ++ check (runes_of_ascii "
packet //
u8x
    {
    @lengthOf( Logon )
    u128 { //x
Logon@lengthOf( msg_type
), }
    ,  repeat
uint8x
, // @lengthOf(
int64 // c
o `tab	here`
    , }MetaData
    int{// " ++ [128512]%N ++ runes_of_ascii " emoji
char[]
    // `tick` ""quote"" 'q'
    chars `it's`,	int crc `{ , }`, // @lengthOf(
}root packet chars
    { char[]
x_y_z , }
// trailing space 
")).
Eval vm_compute in ("<<<M232>>>" ++ check (runes_of_ascii "packet i8i8  { lengthOf lengthOf
    `u8 x,`
, }options{u =
'\x00'; } MetaData i64_ {
}MetaData Header {}")).
Eval vm_compute in ("<<<M242>>>" ++ check (runes_of_ascii " // packet A { u8 x, }")).
Eval vm_compute in ("<<<M252>>>" ++ check (runes_of_ascii "// " ++ [128512]%N ++ runes_of_ascii " emoji
packet	roots
    // trailing space 
    {
    } // @lengthOf(")).
Eval vm_compute in ("<<<M262>>>" ++ check (runes_of_ascii "packet
Pad { } packet// packet A { u8 x, }
len // a // b
{ string u128 , } root packet o {
@tag( 7
) char[] msg_type @calculatedFrom( ""// no comment""
)
    ,}
")).
Eval vm_compute in ("<<<M272>>>" ++ check (runes_of_ascii "packet matchKey {
@tag( 7
    ) @leftPad
    //x
    ( '\x00')
    string_ ,	} 	 ")).
Eval vm_compute in ("<<<T272>>>" ++ terms [mkTok 35 "packet" 1 0 false; mkTok 42 "matchKey" 1 7 false; mkTok 2 "{" 1 16 false; mkTok 9 "@tag(" 2 0 false; mkTok 30 "7" 2 6 false; mkTok 6 ")" 3 4 false; mkTok 32 "@leftPad" 3 6 false; mkTok 44 "//x" 4 4 true; mkTok 8 "(" 5 4 false; mkTok 33 "'\x00'" 5 6 false; mkTok 6 ")" 5 12 false; mkTok 42 "string_" 6 4 false; mkTok 40 "," 6 12 false; mkTok 3 "}" 6 14 false; mkTok 0 "<EOF>" 6 18 false] (mkPacket (mkPtok 35 "packet" 1 0 0) (Some (mkPtok 3 "}" 6 14 13)) [(DPacket (mkPacketDef (mkSpan (mkPtok 35 "packet" 1 0 0) (mkPtok 3 "}" 6 14 13)) None (mkPtok 35 "packet" 1 0 0) (mkPtok 42 "matchKey" 1 7 1) (mkPtok 2 "{" 1 16 2) [(mkFieldWithAttr (mkSpan (mkPtok 9 "@tag(" 2 0 3) (mkPtok 40 "," 6 12 12)) [(FATag (mkSpan (mkPtok 9 "@tag(" 2 0 3) (mkPtok 6 ")" 3 4 5)) (mkTagAttr (mkSpan (mkPtok 9 "@tag(" 2 0 3) (mkPtok 6 ")" 3 4 5)) (mkPtok 9 "@tag(" 2 0 3) (mkPtok 30 "7" 2 6 4) (mkPtok 6 ")" 3 4 5))); (FAPadding (mkSpan (mkPtok 32 "@leftPad" 3 6 6) (mkPtok 6 ")" 5 12 10)) (mkPaddingAttr (mkSpan (mkPtok 32 "@leftPad" 3 6 6) (mkPtok 6 ")" 5 12 10)) (mkPtok 32 "@leftPad" 3 6 6) (mkPtok 8 "(" 5 4 8) (Some (mkPtok 33 "'\x00'" 5 6 9)) (mkPtok 6 ")" 5 12 10)))] (ObjectField (mkSpan (mkPtok 42 "string_" 6 4 11) (mkPtok 40 "," 6 12 12)) None (mkPtok 42 "string_" 6 4 11) None None (mkPtok 40 "," 6 12 12)))] (mkPtok 3 "}" 6 14 13)))])).
Eval vm_compute in ("<<<M282>>>" ++ check (runes_of_ascii "options
{Packet=
char[] }")).
Eval vm_compute in ("<<<M292>>>" ++ check (runes_of_ascii "options { u =""a\""b""
//	t
//
;
    Z9_ =""// no comment"" ; tag
    // " ++ [27880; 37322]%N ++ runes_of_ascii "
    =7 } root packet
    // trailing space 
    As { }
packet Header { @lengthOf(
    Foo )  rootA
@calculatedFrom( ""\" ++ [233]%N ++ runes_of_ascii """ ) , @calculatedFrom( ""CRC32""// a // b
)
    float64 crc
,  repeat char[ // packet A { u8 x, }
007
] Logon , //
@tag( 7
    )
//
// c
@calculatedFrom( ""{,}"" ) @lengthOf( stringy
) match //	t
A as
// " ++ [128512]%N ++ runes_of_ascii " emoji
// `tick` ""quote"" 'q'
f32a {
    // `tick` ""quote"" 'q'
    [""a\\""
,	1 , ""CRC32"" , 007 ,	""a	b"" , ""\" ++ [233]%N ++ runes_of_ascii """ ] :trueish, 4294967296
    :
// c
//x
u8x ,//
}  ,
@tag(
255 ) @lengthOf( u8x
    )
@calculatedFrom( ""x y""
    ) pack { uint16 uint8x
    ,
    }
, match
leftPad as
asx {""{,}"" : T 007
    //	t
    : // @lengthOf(
_x
    1  : options1
,
    [ 42	,007]// a // b
:calculatedFrom
, """ ++ [233]%N ++ runes_of_ascii "t" ++ [233]%N ++ runes_of_ascii """ :
    lengthOf } ,
    u8x {int64 charz
`line1
line2`,
} , repeat
    //x
    Header BodyLength `
`  ,
@rightPad  ( // `tick` ""quote"" 'q'
'\x00' ) @lengthOf( tag )
    match o // trailing space 
as
    uint8x {
[ 255 ] :
_x ,1 :
    matchKey ,
// " ++ [128512]%N ++ runes_of_ascii " emoji
//x
65535
:
// c
// @lengthOf(
tag
,  0123456789: zchar,
""a\\"" :metadata
    ,
    }	, }
")).
Eval vm_compute in ("<<<M302>>>" ++ check (runes_of_ascii "options {
	StringPrefixLenType = u16;
	ArrayPrefixLenType = u16;
}

packet SampleBinary {
	uint16 MsgType `" ++ [28040; 24687; 31867; 22411]%N ++ runes_of_ascii "`,
	u16 BodyLenght @lengthOf(Body) `" ++ [28040; 24687; 20307; 38271; 24230]%N ++ runes_of_ascii "`,
	match MsgType as Body {
		1 : Logon,
		2 : Logout,
		3 : Heartbeat,
		4 : RiskControlRequest,
		5 : RiskControlResponse,
	},
		@calculatedFrom(""CRC32"")
	u32 Ckecksum `" ++ [26657; 39564; 21644]%N ++ runes_of_ascii "`,
}

packet Logon {
	 @leftPad('0')
	char[10] UserName `" ++ [29992; 25143; 21517]%N ++ runes_of_ascii "`,
	string Password `" ++ [23494; 30721]%N ++ runes_of_ascii "`,
	uint64 ClientId `" ++ [23458; 25143; 31471]%N ++ runes_of_ascii "ID`,
	u16 HeartbeatInterval `" ++ [24515; 36339; 38388; 38548]%N ++ runes_of_ascii "`,
}

packet Logout {
	  @rightPad('0')
	char[10] UserName `" ++ [29992; 25143; 21517]%N ++ runes_of_ascii "`,
	uint64 ClientId `" ++ [23458; 25143; 31471]%N ++ runes_of_ascii "ID`,
}

packet Heartbeat {
}

packet RiskControlRequest {
	string UniqueOrderId `" ++ [21807; 19968; 35746; 21333; 21495]%N ++ runes_of_ascii "`,
	char[16] ClOrdID `" ++ [23458; 25143; 35746; 21333; 21495]%N ++ runes_of_ascii "`,
	char[3] MarketID `" ++ [24066; 22330]%N ++ runes_of_ascii "id`,
	char[12] SecurityID `" ++ [35777; 21048; 20195; 30721]%N ++ runes_of_ascii "`,
	char Side `" ++ [20080; 21334; 26041; 21521]%N ++ runes_of_ascii "`,
	char OrderType `" ++ [35746; 21333; 31867; 22411]%N ++ runes_of_ascii "`,
	u64 Price `" ++ [20215; 26684]%N ++ runes_of_ascii "`,
	u32 Qty `" ++ [25968; 37327]%N ++ runes_of_ascii "`,
	repeat string ExtraInfo `" ++ [38468; 21152; 20449; 24687]%N ++ runes_of_ascii "`,
	repeat SubOrder {
			char[16] ClOrdID `" ++ [23376; 35746; 21333; 21495]%N ++ runes_of_ascii "`,
			u64 Price `" ++ [23376; 35746; 21333; 20215; 26684]%N ++ runes_of_ascii "`,
			u32 Qty `" ++ [23376; 35746; 21333; 25968; 37327]%N ++ runes_of_ascii "`,
		},
}

packet RiskControlResponse {
	string UniqueOrderId `" ++ [21807; 19968; 35746; 21333; 21495]%N ++ runes_of_ascii "`,
	i32 Status `" ++ [29366; 24577]%N ++ runes_of_ascii "`,
	string Msg `" ++ [32467; 26524; 20449; 24687]%N ++ runes_of_ascii "`,
	repeat Detail,
}

packet Detail {
	string RuleName `" ++ [35268; 21017; 21517; 31216]%N ++ runes_of_ascii "`,
	u16 Code `" ++ [21407; 22240; 20195; 30721]%N ++ runes_of_ascii "`,
}")).
Eval vm_compute in ("<<<M312>>>" ++ check (runes_of_ascii "( packet asx { @tag(007 ) // @lengthOf(
repeat
    u64  leftPad , } packet
i64_{ // packet A { u8 x, }
@calculatedFrom(
""a\""b"" )
    zchar[
    10]
    chars,
    }
    MetaData A { charz
uint8x
    // trailing space 
    , len uint8x , u8
    charz,	string_ msg_type ,}
")).
Eval vm_compute in ("<<<M322>>>" ++ check (runes_of_ascii "root packet uint16 { @tag(007 ) // @lengthOf(
repeat
    u64  leftPad , } packet
i64_{ // packet A { u8 x, }
@calculatedFrom(
""a\""b"" )
    zchar[
    10]
    chars,
    }
    MetaData A { charz
uint8x
    // trailing space 
    , len uint8x , u8
    charz,	string_ msg_type ,}
")).
Eval vm_compute in ("<<<M332>>>" ++ check (runes_of_ascii "root packet asx { }007 ) // @lengthOf(
repeat
    u64  leftPad , } packet
i64_{ // packet A { u8 x, }
@calculatedFrom(
""a\""b"" )
    zchar[
    10]
    chars,
    }
    MetaData A { charz
uint8x
    // trailing space 
    , len uint8x , u8
    charz,	string_ msg_type ,}
")).
Eval vm_compute in ("<<<M342>>>" ++ check (runes_of_ascii "root packet asx { @tag(007 packet // @lengthOf(
repeat
    u64  leftPad , } packet
i64_{ // packet A { u8 x, }
@calculatedFrom(
""a\""b"" )
    zchar[
    10]
    chars,
    }
    MetaData A { charz
uint8x
    // trailing space 
    , len uint8x , u8
    charz,	string_ msg_type ,}
")).
Eval vm_compute in ("<<<M352>>>" ++ check (runes_of_ascii "root packet asx { @tag(007 ) // @lengthOf(
repeat
    ,  leftPad , } packet
i64_{ // packet A { u8 x, }
@calculatedFrom(
""a\""b"" )
    zchar[
    10]
    chars,
    }
    MetaData A { charz
uint8x
    // trailing space 
    , len uint8x , u8
    charz,	string_ msg_type ,}
")).
Eval vm_compute in ("<<<M362>>>" ++ check (runes_of_ascii "root packet asx { @tag(007 ) // @lengthOf(
repeat
    u64  leftPad @rightPad } packet
i64_{ // packet A { u8 x, }
@calculatedFrom(
""a\""b"" )
    zchar[
    10]
    chars,
    }
    MetaData A { charz
uint8x
    // trailing space 
    , len uint8x , u8
    charz,	string_ msg_type ,}
")).
Eval vm_compute in ("<<<M372>>>" ++ check (runes_of_ascii "root packet asx { @tag(007 ) // @lengthOf(
repeat
    u64  leftPad , } char[
i64_{ // packet A { u8 x, }
@calculatedFrom(
""a\""b"" )
    zchar[
    10]
    chars,
    }
    MetaData A { charz
uint8x
    // trailing space 
    , len uint8x , u8
    charz,	string_ msg_type ,}
")).
Eval vm_compute in ("<<<M382>>>" ++ check (runes_of_ascii "root packet asx { @tag(007 ) // @lengthOf(
repeat
    u64  leftPad , } packet
i64_ f64 // packet A { u8 x, }
@calculatedFrom(
""a\""b"" )
    zchar[
    10]
    chars,
    }
    MetaData A { charz
uint8x
    // trailing space 
    , len uint8x , u8
    charz,	string_ msg_type ,}
")).
Eval vm_compute in ("<<<M392>>>" ++ check (runes_of_ascii "root packet asx { @tag(007 ) // @lengthOf(
repeat
    u64  leftPad , } packet
i64_{ // packet A { u8 x, }
@calculatedFrom(
; )
    zchar[
    10]
    chars,
    }
    MetaData A { charz
uint8x
    // trailing space 
    , len uint8x , u8
    charz,	string_ msg_type ,}
")).
Eval vm_compute in ("<<<M402>>>" ++ check (runes_of_ascii "root packet asx { @tag(007 ) // @lengthOf(
repeat
    u64  leftPad , } packet
i64_{ // packet A { u8 x, }
@calculatedFrom(
""a\""b"" )
    @tag(
    10]
    chars,
    }
    MetaData A { charz
uint8x
    // trailing space 
    , len uint8x , u8
    charz,	string_ msg_type ,}
")).
Eval vm_compute in ("<<<M412>>>" ++ check (runes_of_ascii "root packet asx { @tag(007 ) // @lengthOf(
repeat
    u64  leftPad , } packet
i64_{ // packet A { u8 x, }
@calculatedFrom(
""a\""b"" )
    zchar[
    10@leftPad
    chars,
    }
    MetaData A { charz
uint8x
    // trailing space 
    , len uint8x , u8
    charz,	string_ msg_type ,}
")).
Eval vm_compute in ("<<<M422>>>" ++ check (runes_of_ascii "root packet asx { @tag(007 ) // @lengthOf(
repeat
    u64  leftPad , } packet
i64_{ // packet A { u8 x, }
@calculatedFrom(
""a\""b"" )
    zchar[
    10]
    chars uint16
    }
    MetaData A { charz
uint8x
    // trailing space 
    , len uint8x , u8
    charz,	string_ msg_type ,}
")).
Eval vm_compute in ("<<<M432>>>" ++ check (runes_of_ascii "root packet asx { @tag(007 ) // @lengthOf(
repeat
    u64  leftPad , } packet
i64_{ // packet A { u8 x, }
@calculatedFrom(
""a\""b"" )
    zchar[
    10]
    chars,
    }
    @calculatedFrom( A { charz
uint8x
    // trailing space 
    , len uint8x , u8
    charz,	string_ msg_type ,}
")).
Eval vm_compute in ("<<<M442>>>" ++ check (runes_of_ascii "root packet asx { @tag(007 ) // @lengthOf(
repeat
    u64  leftPad , } packet
i64_{ // packet A { u8 x, }
@calculatedFrom(
""a\""b"" )
    zchar[
    10]
    chars,
    }
    MetaData A char[ charz
uint8x
    // trailing space 
    , len uint8x , u8
    charz,	string_ msg_type ,}
")).
Eval vm_compute in ("<<<M452>>>" ++ check (runes_of_ascii "root packet asx { @tag(007 ) // @lengthOf(
repeat
    u64  leftPad , } packet
i64_{ // packet A { u8 x, }
@calculatedFrom(
""a\""b"" )
    zchar[
    10]
    chars,
    }
    MetaData A { charz
i64
    // trailing space 
    , len uint8x , u8
    charz,	string_ msg_type ,}
")).
Eval vm_compute in ("<<<M462>>>" ++ check (runes_of_ascii "root packet asx { @tag(007 ) // @lengthOf(
repeat
    u64  leftPad , } packet
i64_{ // packet A { u8 x, }
@calculatedFrom(
""a\""b"" )
    zchar[
    10]
    chars,
    }
    MetaData A { charz
uint8x
    // trailing space 
    , : uint8x , u8
    charz,	string_ msg_type ,}
")).
Eval vm_compute in ("<<<M472>>>" ++ check (runes_of_ascii "root packet asx { @tag(007 ) // @lengthOf(
repeat
    u64  leftPad , } packet
i64_{ // packet A { u8 x, }
@calculatedFrom(
""a\""b"" )
    zchar[
    10]
    chars,
    }
    MetaData A { charz
uint8x
    // trailing space 
    , len uint8x `" ++ [28040; 24687; 31867; 22411]%N ++ runes_of_ascii "` u8
    charz,	string_ msg_type ,}
")).
Eval vm_compute in ("<<<M482>>>" ++ check (runes_of_ascii "root packet asx { @tag(007 ) // @lengthOf(
repeat
    u64  leftPad , } packet
i64_{ // packet A { u8 x, }
@calculatedFrom(
""a\""b"" )
    zchar[
    10]
    chars,
    }
    MetaData A { charz
uint8x
    // trailing space 
    , len uint8x , u8
    as,	string_ msg_type ,}
")).
Eval vm_compute in ("<<<M492>>>" ++ check (runes_of_ascii "root packet asx { @tag(007 ) // @lengthOf(
repeat
    u64  leftPad , } packet
i64_{ // packet A { u8 x, }
@calculatedFrom(
""a\""b"" )
    zchar[
    10]
    chars,
    }
    MetaData A { charz
uint8x
    // trailing space 
    , len uint8x , u8
    charz,	match msg_type ,}
")).
Eval vm_compute in ("<<<M502>>>" ++ check (runes_of_ascii "root packet asx { @tag(007 ) // @lengthOf(
repeat
    u64  leftPad , } packet
i64_{ // packet A { u8 x, }
@calculatedFrom(
""a\""b"" )
    zchar[
    10]
    chars,
    }
    MetaData A { charz
uint8x
    // trailing space 
    , len uint8x , u8
    charz,	string_ msg_type @lengthOf(}
")).
Eval vm_compute in ("<<<M512>>>" ++ check (runes_of_ascii "root packet asx { @tag(007 ) // @lengthOf(
repeat
    u64  leftPad , } packet
i64_{ // packet A { u8 x, }
@calculatedFrom(
""a\""b"" )
    zchar[
    10]
    chars,
    }
    MetaData A { charz
uint8x
    // trailing space 
    , len uint8x , u8
    charz,	string")).
Eval vm_compute in ("<<<M522>>>" ++ check (runes_of_ascii "root packet asx { @tag(007 ) // @lengthOf(
repeat
   | u64  leftPad , } packet
i64_{ // packet A { u8 x, }
@calculatedFrom(
""a\""b"" )
    zchar[
    10]
    chars,
    }
    MetaData A { charz
uint8x
    // trailing space 
    , len uint8x , u8
    charz,	string_ msg_type ,}
")).
Eval vm_compute in ("<<<M532>>>" ++ check (runes_of_ascii "MetaData asx
{ zchar[ 7
] roots
,leftPad
Foo
    `" ++ [233]%N ++ runes_of_ascii "`
, ` Header Header , int16
falsey , // `tick` ""quote"" 'q'
u16 Packet , int64 packetx// " ++ [128512]%N ++ runes_of_ascii " emoji
,}")).
Eval vm_compute in ("<<<M542>>>" ++ check (runes_of_ascii "MetaData asx
{ zchar[ 7
] roots
,leftPad
Foo
    `" ++ [233]%N ++ runes_of_ascii "`
, Header  , int16
falsey , // `tick` ""quote"" 'q'
u16 Packet , int64 packetx// " ++ [128512]%N ++ runes_of_ascii " emoji
,}")).
Eval vm_compute in ("<<<M552>>>" ++ check (runes_of_ascii "MetaData asx
{ zchar[ 7
] roots
,leftPad
Foo
    `" ++ [233]%N ++ runes_of_ascii "`
, Header Header , int16
falsey , // `tick` ""quote"" 'q'
u16 Packet , packetx int64// " ++ [128512]%N ++ runes_of_ascii " emoji
,}")).
Eval vm_compute in ("<<<M562>>>" ++ check (runes_of_ascii "MetaData asx
{ zchar[ 7
] roots
,leftPad
Foo
    `" ++ [233]%N ++ runes_of_ascii "`
, Header Header Header , int16
falsey , // `tick` ""quote"" 'q'
u16 Packet , int64 packetx// " ++ [128512]%N ++ runes_of_ascii " emoji
,}")).
Eval vm_compute in ("<<<M572>>>" ++ check (runes_of_ascii "// a
// b
")).
Eval vm_compute in ("<<<M582>>>" ++ check (runes_of_ascii "n")).
Eval vm_compute in ("<<<M592>>>" ++ check (runes_of_ascii "true ] `crlf
line` @rightPad uint8 `u8 x,` u32 0 repeat float32 root char[")).
