From FP Require Import Lexer Parser ShowPT Digest.
From Coq Require Import String List NArith.
Import ListNotations.
Open Scope string_scope.
Set Printing Width 100000000.
Set Printing Depth 100000000.
Definition nl : string := String (Ascii.ascii_of_nat 10) EmptyString.
Definition model_lex (rs : list rune) : string := show_toks (lex rs).
Definition model_parse (rs : list rune) : string :=
  show_pt (match lex rs with Some ts => parse ts | None => None end).
(* coqc is slow at printing long strings: digests first (Digest.v), full texts on demand *)
Definition check (rs : list rune) : string :=
  digest (model_lex rs) ++ " " ++ digest (model_parse rs).
Definition full (rs : list rune) : string := model_lex rs ++ nl ++ model_parse rs.
Definition terms (ts : list tok) (t : pt) : string :=
  digest (show_toks (Some ts)) ++ " " ++ digest (show_pt (Some t)) ++ " " ++ digest (show_pt (parse ts)).
Definition terms_full (ts : list tok) (t : pt) : string :=
  show_toks (Some ts) ++ nl ++ show_pt (Some t) ++ nl ++ show_pt (parse ts).
Eval vm_compute in ("<<<M12>>>" ++ check (runes_of_ascii "options	{
    // `tick` ""quote"" 'q'
    _x// trailing space 
=""" ++ [28040; 24687]%N ++ runes_of_ascii """ ; }
")).
Eval vm_compute in ("<<<M44>>>" ++ check (runes_of_ascii "//x
options{
x= ""1"" x= ""x y""
    //
    ; calculatedFrom= ""a	b"" calculatedFrom = zchar[
// c
// c
00 ] ;// `tick` ""quote"" 'q'
_x =false ;
    } packet Logon // 50% %s
{
    } packet
x_y_z { match
    f32a as repeatCount { 10// 50% %s
: zchar , } ,char[] options1`u8 x,`
    ,} packet options1
{@calculatedFrom( ""it's""  )@calculatedFrom(""packet"") // " ++ [128512]%N ++ runes_of_ascii " emoji
repeat string repeatCount ``
,char[] msg_type ,
i16 Z9_ @calculatedFrom( ""\n"" // 50% %s
)	, @leftPad (' ') repeat
BodyLength calculatedFrom
,
char[
    4294967296
    ] u128 , u128 repeatCount`
`, @lengthOf(rootA )int64 Pad
    @calculatedFrom( ""x y""
// " ++ [128512]%N ++ runes_of_ascii " emoji
// 50% %s
), @lengthOf(
int)repeat As ,stringy
`u8 x,` ,
    @leftPad( '0' )uint32 // @lengthOf(
A
,
}root packet string_ // " ++ [27880; 37322]%N ++ runes_of_ascii "
{ }")).
Eval vm_compute in ("<<<M76>>>" ++ check (runes_of_ascii "options {Packet
= true ; f32a = u8
    ; }packet
    // `tick` ""quote"" 'q'
    matchKey	{ @lengthOf( /// triple
A
)packetx ``
    ,
    string //
BodyLength ,@tag( 42 ) float32
Z9_
@calculatedFrom(	""\n"" )
`" ++ [28040; 24687; 31867; 22411]%N ++ runes_of_ascii "` , repeat zchar[	0123456789
    // c
    ]  chars ,int16 charz@lengthOf( body
)
`" ++ [233]%N ++ runes_of_ascii "` , repeat u8x msg_type
, }
")).
Eval vm_compute in ("<<<T76>>>" ++ terms [mkTok 1 "options" 1 0 false; mkTok 2 "{" 1 8 false; mkTok 42 "Packet" 1 9 false; mkTok 4 "=" 2 0 false; mkTok 10 "true" 2 2 false; mkTok 41 ";" 2 7 false; mkTok 42 "f32a" 2 9 false; mkTok 4 "=" 2 14 false; mkTok 20 "u8" 2 16 false; mkTok 41 ";" 3 4 false; mkTok 3 "}" 3 6 false; mkTok 35 "packet" 3 7 false; mkTok 44 "// `tick` ""quote"" 'q'" 4 4 true; mkTok 42 "matchKey" 5 4 false; mkTok 2 "{" 5 13 false; mkTok 7 "@lengthOf(" 5 15 false; mkTok 44 "/// triple" 5 26 true; mkTok 42 "A" 6 0 false; mkTok 6 ")" 7 0 false; mkTok 42 "packetx" 7 1 false; mkTok 43 "``" 7 9 false; mkTok 40 "," 8 4 false; mkTok 15 "string" 9 4 false; mkTok 44 "//" 9 11 true; mkTok 42 "BodyLength" 10 0 false; mkTok 40 "," 10 11 false; mkTok 9 "@tag(" 10 12 false; mkTok 30 "42" 10 18 false; mkTok 6 ")" 10 21 false; mkTok 28 "float32" 10 23 false; mkTok 42 "Z9_" 11 0 false; mkTok 5 "@calculatedFrom(" 12 0 false; mkTok 31 """\n""" 12 17 false; mkTok 6 ")" 12 22 false; mkTok 43 (string_of_bytes [96; 230; 182; 136; 230; 129; 175; 231; 177; 187; 229; 158; 139; 96]%N) 13 0 false; mkTok 40 "," 13 7 false; mkTok 36 "repeat" 13 9 false; mkTok 14 "zchar[" 13 16 false; mkTok 30 "0123456789" 13 23 false; mkTok 44 "// c" 14 4 true; mkTok 13 "]" 15 4 false; mkTok 42 "chars" 15 7 false; mkTok 40 "," 15 13 false; mkTok 25 "int16" 15 14 false; mkTok 42 "charz" 15 20 false; mkTok 7 "@lengthOf(" 15 25 false; mkTok 42 "body" 15 36 false; mkTok 6 ")" 16 0 false; mkTok 43 (string_of_bytes [96; 195; 169; 96]%N) 17 0 false; mkTok 40 "," 17 4 false; mkTok 36 "repeat" 17 6 false; mkTok 42 "u8x" 17 13 false; mkTok 42 "msg_type" 17 17 false; mkTok 40 "," 18 0 false; mkTok 3 "}" 18 2 false; mkTok 0 "<EOF>" 19 0 false] (mkPacket (mkPtok 1 "options" 1 0 0) (Some (mkPtok 3 "}" 18 2 54)) [(DOption (mkOptionDef (mkSpan (mkPtok 1 "options" 1 0 0) (mkPtok 3 "}" 3 6 10)) (mkPtok 1 "options" 1 0 0) (mkPtok 2 "{" 1 8 1) [(mkOptionDecl (mkSpan (mkPtok 42 "Packet" 1 9 2) (mkPtok 41 ";" 2 7 5)) (mkPtok 42 "Packet" 1 9 2) (mkPtok 4 "=" 2 0 3) (VTrue (mkSpan (mkPtok 10 "true" 2 2 4) (mkPtok 10 "true" 2 2 4)) (mkPtok 10 "true" 2 2 4)) (Some (mkPtok 41 ";" 2 7 5))); (mkOptionDecl (mkSpan (mkPtok 42 "f32a" 2 9 6) (mkPtok 41 ";" 3 4 9)) (mkPtok 42 "f32a" 2 9 6) (mkPtok 4 "=" 2 14 7) (VType (mkSpan (mkPtok 20 "u8" 2 16 8) (mkPtok 20 "u8" 2 16 8)) (TyBasic (mkSpan (mkPtok 20 "u8" 2 16 8) (mkPtok 20 "u8" 2 16 8)) (mkBasicType (mkSpan (mkPtok 20 "u8" 2 16 8) (mkPtok 20 "u8" 2 16 8)) (mkPtok 20 "u8" 2 16 8)))) (Some (mkPtok 41 ";" 3 4 9)))] (mkPtok 3 "}" 3 6 10))); (DPacket (mkPacketDef (mkSpan (mkPtok 35 "packet" 3 7 11) (mkPtok 3 "}" 18 2 54)) None (mkPtok 35 "packet" 3 7 11) (mkPtok 42 "matchKey" 5 4 13) (mkPtok 2 "{" 5 13 14) [(mkFieldWithAttr (mkSpan (mkPtok 7 "@lengthOf(" 5 15 15) (mkPtok 40 "," 8 4 21)) [(FALengthOf (mkSpan (mkPtok 7 "@lengthOf(" 5 15 15) (mkPtok 6 ")" 7 0 18)) (mkLengthOf (mkSpan (mkPtok 7 "@lengthOf(" 5 15 15) (mkPtok 6 ")" 7 0 18)) (mkPtok 7 "@lengthOf(" 5 15 15) (mkPtok 42 "A" 6 0 17) (mkPtok 6 ")" 7 0 18)))] (ObjectField (mkSpan (mkPtok 42 "packetx" 7 1 19) (mkPtok 40 "," 8 4 21)) None (mkPtok 42 "packetx" 7 1 19) None (Some (mkPtok 43 "``" 7 9 20)) (mkPtok 40 "," 8 4 21))); (mkFieldWithAttr (mkSpan (mkPtok 15 "string" 9 4 22) (mkPtok 40 "," 10 11 25)) [] (MetaField (mkSpan (mkPtok 15 "string" 9 4 22) (mkPtok 40 "," 10 11 25)) None (mkMetaDecl (mkSpan (mkPtok 15 "string" 9 4 22) (mkPtok 40 "," 10 11 25)) (TyDynamic (mkSpan (mkPtok 15 "string" 9 4 22) (mkPtok 15 "string" 9 4 22)) (mkDynamicString (mkSpan (mkPtok 15 "string" 9 4 22) (mkPtok 15 "string" 9 4 22)) (mkPtok 15 "string" 9 4 22))) (mkPtok 42 "BodyLength" 10 0 24) None (mkPtok 40 "," 10 11 25)))); (mkFieldWithAttr (mkSpan (mkPtok 9 "@tag(" 10 12 26) (mkPtok 40 "," 13 7 35)) [(FATag (mkSpan (mkPtok 9 "@tag(" 10 12 26) (mkPtok 6 ")" 10 21 28)) (mkTagAttr (mkSpan (mkPtok 9 "@tag(" 10 12 26) (mkPtok 6 ")" 10 21 28)) (mkPtok 9 "@tag(" 10 12 26) (mkPtok 30 "42" 10 18 27) (mkPtok 6 ")" 10 21 28)))] (CheckSumField (mkSpan (mkPtok 28 "float32" 10 23 29) (mkPtok 40 "," 13 7 35)) (mkChecksumFieldDecl (mkSpan (mkPtok 28 "float32" 10 23 29) (mkPtok 40 "," 13 7 35)) (Some (TyBasic (mkSpan (mkPtok 28 "float32" 10 23 29) (mkPtok 28 "float32" 10 23 29)) (mkBasicType (mkSpan (mkPtok 28 "float32" 10 23 29) (mkPtok 28 "float32" 10 23 29)) (mkPtok 28 "float32" 10 23 29)))) (mkPtok 42 "Z9_" 11 0 30) (mkCalculatedFrom (mkSpan (mkPtok 5 "@calculatedFrom(" 12 0 31) (mkPtok 6 ")" 12 22 33)) (mkPtok 5 "@calculatedFrom(" 12 0 31) (mkPtok 31 """\n""" 12 17 32) (mkPtok 6 ")" 12 22 33)) (Some (mkPtok 43 (string_of_bytes [96; 230; 182; 136; 230; 129; 175; 231; 177; 187; 229; 158; 139; 96]%N) 13 0 34)) (mkPtok 40 "," 13 7 35)))); (mkFieldWithAttr (mkSpan (mkPtok 36 "repeat" 13 9 36) (mkPtok 40 "," 15 13 42)) [] (MetaField (mkSpan (mkPtok 36 "repeat" 13 9 36) (mkPtok 40 "," 15 13 42)) (Some (mkPtok 36 "repeat" 13 9 36)) (mkMetaDecl (mkSpan (mkPtok 14 "zchar[" 13 16 37) (mkPtok 40 "," 15 13 42)) (TyFixed (mkSpan (mkPtok 14 "zchar[" 13 16 37) (mkPtok 13 "]" 15 4 40)) (mkFixedString (mkSpan (mkPtok 14 "zchar[" 13 16 37) (mkPtok 13 "]" 15 4 40)) (mkPtok 14 "zchar[" 13 16 37) (mkPtok 30 "0123456789" 13 23 38) (mkPtok 13 "]" 15 4 40))) (mkPtok 42 "chars" 15 7 41) None (mkPtok 40 "," 15 13 42)))); (mkFieldWithAttr (mkSpan (mkPtok 25 "int16" 15 14 43) (mkPtok 40 "," 17 4 49)) [] (LengthField (mkSpan (mkPtok 25 "int16" 15 14 43) (mkPtok 40 "," 17 4 49)) (mkLengthFieldDecl (mkSpan (mkPtok 25 "int16" 15 14 43) (mkPtok 40 "," 17 4 49)) (Some (TyBasic (mkSpan (mkPtok 25 "int16" 15 14 43) (mkPtok 25 "int16" 15 14 43)) (mkBasicType (mkSpan (mkPtok 25 "int16" 15 14 43) (mkPtok 25 "int16" 15 14 43)) (mkPtok 25 "int16" 15 14 43)))) (mkPtok 42 "charz" 15 20 44) (mkLengthOf (mkSpan (mkPtok 7 "@lengthOf(" 15 25 45) (mkPtok 6 ")" 16 0 47)) (mkPtok 7 "@lengthOf(" 15 25 45) (mkPtok 42 "body" 15 36 46) (mkPtok 6 ")" 16 0 47)) (Some (mkPtok 43 (string_of_bytes [96; 195; 169; 96]%N) 17 0 48)) (mkPtok 40 "," 17 4 49)))); (mkFieldWithAttr (mkSpan (mkPtok 36 "repeat" 17 6 50) (mkPtok 40 "," 18 0 53)) [] (ObjectField (mkSpan (mkPtok 36 "repeat" 17 6 50) (mkPtok 40 "," 18 0 53)) (Some (mkPtok 36 "repeat" 17 6 50)) (mkPtok 42 "u8x" 17 13 51) (Some (mkPtok 42 "msg_type" 17 17 52)) None (mkPtok 40 "," 18 0 53)))] (mkPtok 3 "}" 18 2 54)))])).
Eval vm_compute in ("<<<M108>>>" ++ check (runes_of_ascii "root packet	repeatCount {
    // @lengthOf(
    @tag( 42 )
int64 lengthOf , }
")).
Eval vm_compute in ("<<<M140>>>" ++ check (runes_of_ascii "
")).
Eval vm_compute in ("<<<M172>>>" ++ check (runes_of_ascii "// " ++ [128512]%N ++ runes_of_ascii " emoji
root
packet // packet A { u8 x, }
T
    // a // b
    {
int16  a1 ,
tag {	u16 stringy , }
    , MetaDataX crc ,i16 stringy @calculatedFrom(
""x y"" ) , match
int as
BodyLength//
{ 1 : Header
,
    [ 0 ] : tag """ ++ [28040; 24687]%N ++ runes_of_ascii """ :
    asx,
// " ++ [27880; 37322]%N ++ runes_of_ascii "
// trailing space 
},	@leftPad ( ' ' ) metadata
// a // b
// @lengthOf(
`it's`
,	len
    @lengthOf( metadata), zchar[65535
    ]
A @lengthOf( //	t
trueish
    ) , } //")).
Eval vm_compute in ("<<<M204>>>" ++ check (runes_of_ascii "packet x
    {
    string msg_type ,match roots  as // @lengthOf(
pack { ""\" ++ [233]%N ++ runes_of_ascii """: leftPad ,
    //	t
    0  : u8x 255 : options1
,""x y""
: i8i8// " ++ [27880; 37322]%N ++ runes_of_ascii "
, ""x y"" : len ""`tick`"": metadata ,
    }
    ,}
")).
Eval vm_compute in ("<<<M236>>>" ++ check (runes_of_ascii "MetaData T { char[ 7 ] len
    `tab	here`, }")).
Eval vm_compute in ("<<<M268>>>" ++ check (runes_of_ascii "root packet x_y_z{
    //
    T _x
,@lengthOf(
    uint8x
)i32 Pad
    // " ++ [128512]%N ++ runes_of_ascii " emoji
    `tab	here` , repeat
char[ 0]o `crlf
line`	,i8i8 {
int// packet A { u8 x, }
Header `
`  ,u8 f32a
,}
,
@lengthOf(
    crc)	match i8i8 as
Logon{  0123456789  :
float
,}
, int {
    x `line1
line2`,}
    ,
    // " ++ [128512]%N ++ runes_of_ascii " emoji
    repeat falsey{options1 x `doc`	, i8i8
    `u8 x,`
    ,
    } ,
    repeat // `tick` ""quote"" 'q'
zchar[ 0123456789// a // b
] a1	,}	options
{ } options  { } root packet metadata
    {
    @calculatedFrom( ""a\\""
    ) string_
{ pack { match
msg_type
as	MetaDataX { ""// no comment""
// " ++ [27880; 37322]%N ++ runes_of_ascii "
// 50% %s
:string_ , [ 65535
    ]:	roots
,
// packet A { u8 x, }
// " ++ [128512]%N ++ runes_of_ascii " emoji
10 :
    metadata
, 0 :_x ,
    [
0123456789
, 007 ,  7 , 00 ,
    4294967296 ] : trueish	, } // " ++ [128512]%N ++ runes_of_ascii " emoji
, char[]
//x
// " ++ [128512]%N ++ runes_of_ascii " emoji
u128
    ,u64 u8x@lengthOf( string_ ) `doc`, }, // packet A { u8 x, }
repeat
    uint8
    stringy  ,
    // 50% %s
    crc msg_type , } ,
// `tick` ""quote"" 'q'
// trailing space 
@calculatedFrom( """ ++ [28040; 24687]%N ++ runes_of_ascii """	) int32 packetx`" ++ [233]%N ++ runes_of_ascii "` , Logon { match  uint8x as options1{""\" ++ [233]%N ++ runes_of_ascii """
:
    Z9_ ,
// 50% %s
// 50% %s
} , } , } root packet // c
options1 { @tag( 0 )  @calculatedFrom(
""" ++ [233]%N ++ runes_of_ascii "t" ++ [233]%N ++ runes_of_ascii """ )
@lengthOf(
roots ) pack {i32
    msg_type
    , } ,	}")).
Eval vm_compute in ("<<<M300>>>" ++ check (runes_of_ascii "// " ++ [128512]%N ++ runes_of_ascii " emoji
MetaData
len// " ++ [27880; 37322]%N ++ runes_of_ascii "
{ chars len  ,u128 trueish`
`
// trailing space 
//	t
,
    // packet A { u8 x, }
    int8 pack //x
, zchar[ 00 ]
    // c
    repeatCount
    `it's`
, zchar[ 42
]calculatedFrom /// triple
,lengthOf Pad , }MetaData lengthOf {
//	t
// @lengthOf(
x_y_z
//	t
//	t
asx ,}packet x_y_z { repeat uint16 x_y_z
    , @tag( 1
// a // b
// @lengthOf(
) match u128 as // `tick` ""quote"" 'q'
rootA { 3
    : tag
    , ""\n"":
    // " ++ [128512]%N ++ runes_of_ascii " emoji
    pack , [ """ ++ [233]%N ++ runes_of_ascii "t" ++ [233]%N ++ runes_of_ascii """, //
7 ] :
    T , } , }")).
Eval vm_compute in ("<<<T300>>>" ++ terms [mkTok 44 (string_of_bytes [47; 47; 32; 240; 159; 152; 128; 32; 101; 109; 111; 106; 105]%N) 1 0 true; mkTok 37 "MetaData" 2 0 false; mkTok 42 "len" 3 0 false; mkTok 44 (string_of_bytes [47; 47; 32; 230; 179; 168; 233; 135; 138]%N) 3 3 true; mkTok 2 "{" 4 0 false; mkTok 42 "chars" 4 2 false; mkTok 42 "len" 4 8 false; mkTok 40 "," 4 13 false; mkTok 42 "u128" 4 14 false; mkTok 42 "trueish" 4 19 false; mkTok 43 (string_of_bytes [96; 10; 96]%N) 4 26 false; mkTok 44 "// trailing space " 6 0 true; mkTok 44 (string_of_bytes [47; 47; 9; 116]%N) 7 0 true; mkTok 40 "," 8 0 false; mkTok 44 "// packet A { u8 x, }" 9 4 true; mkTok 24 "int8" 10 4 false; mkTok 42 "pack" 10 9 false; mkTok 44 "//x" 10 14 true; mkTok 40 "," 11 0 false; mkTok 14 "zchar[" 11 2 false; mkTok 30 "00" 11 9 false; mkTok 13 "]" 11 12 false; mkTok 44 "// c" 12 4 true; mkTok 42 "repeatCount" 13 4 false; mkTok 43 "`it's`" 14 4 false; mkTok 40 "," 15 0 false; mkTok 14 "zchar[" 15 2 false; mkTok 30 "42" 15 9 false; mkTok 13 "]" 16 0 false; mkTok 42 "calculatedFrom" 16 1 false; mkTok 44 "/// triple" 16 16 true; mkTok 40 "," 17 0 false; mkTok 42 "lengthOf" 17 1 false; mkTok 42 "Pad" 17 10 false; mkTok 40 "," 17 14 false; mkTok 3 "}" 17 16 false; mkTok 37 "MetaData" 17 17 false; mkTok 42 "lengthOf" 17 26 false; mkTok 2 "{" 17 35 false; mkTok 44 (string_of_bytes [47; 47; 9; 116]%N) 18 0 true; mkTok 44 "// @lengthOf(" 19 0 true; mkTok 42 "x_y_z" 20 0 false; mkTok 44 (string_of_bytes [47; 47; 9; 116]%N) 21 0 true; mkTok 44 (string_of_bytes [47; 47; 9; 116]%N) 22 0 true; mkTok 42 "asx" 23 0 false; mkTok 40 "," 23 4 false; mkTok 3 "}" 23 5 false; mkTok 35 "packet" 23 6 false; mkTok 42 "x_y_z" 23 13 false; mkTok 2 "{" 23 19 false; mkTok 36 "repeat" 23 21 false; mkTok 21 "uint16" 23 28 false; mkTok 42 "x_y_z" 23 35 false; mkTok 40 "," 24 4 false; mkTok 9 "@tag(" 24 6 false; mkTok 30 "1" 24 12 false; mkTok 44 "// a // b" 25 0 true; mkTok 44 "// @lengthOf(" 26 0 true; mkTok 6 ")" 27 0 false; mkTok 38 "match" 27 2 false; mkTok 42 "u128" 27 8 false; mkTok 17 "as" 27 13 false; mkTok 44 "// `tick` ""quote"" 'q'" 27 16 true; mkTok 42 "rootA" 28 0 false; mkTok 2 "{" 28 6 false; mkTok 30 "3" 28 8 false; mkTok 39 ":" 29 4 false; mkTok 42 "tag" 29 6 false; mkTok 40 "," 30 4 false; mkTok 31 """\n""" 30 6 false; mkTok 39 ":" 30 10 false; mkTok 44 (string_of_bytes [47; 47; 32; 240; 159; 152; 128; 32; 101; 109; 111; 106; 105]%N) 31 4 true; mkTok 42 "pack" 32 4 false; mkTok 40 "," 32 9 false; mkTok 18 "[" 32 11 false; mkTok 31 (string_of_bytes [34; 195; 169; 116; 195; 169; 34]%N) 32 13 false; mkTok 40 "," 32 18 false; mkTok 44 "//" 32 20 true; mkTok 30 "7" 33 0 false; mkTok 13 "]" 33 2 false; mkTok 39 ":" 33 4 false; mkTok 42 "T" 34 4 false; mkTok 40 "," 34 6 false; mkTok 3 "}" 34 8 false; mkTok 40 "," 34 10 false; mkTok 3 "}" 34 12 false; mkTok 0 "<EOF>" 34 13 false] (mkPacket (mkPtok 37 "MetaData" 2 0 1) (Some (mkPtok 3 "}" 34 12 85)) [(DMeta (mkMetaDef (mkSpan (mkPtok 37 "MetaData" 2 0 1) (mkPtok 3 "}" 17 16 35)) (mkPtok 37 "MetaData" 2 0 1) (mkPtok 42 "len" 3 0 2) (mkPtok 2 "{" 4 0 4) [(MIRef (mkRefMetaDecl (mkSpan (mkPtok 42 "chars" 4 2 5) (mkPtok 40 "," 4 13 7)) (mkPtok 42 "chars" 4 2 5) (mkPtok 42 "len" 4 8 6) None (mkPtok 40 "," 4 13 7))); (MIRef (mkRefMetaDecl (mkSpan (mkPtok 42 "u128" 4 14 8) (mkPtok 40 "," 8 0 13)) (mkPtok 42 "u128" 4 14 8) (mkPtok 42 "trueish" 4 19 9) (Some (mkPtok 43 (string_of_bytes [96; 10; 96]%N) 4 26 10)) (mkPtok 40 "," 8 0 13))); (MIDecl (mkMetaDecl (mkSpan (mkPtok 24 "int8" 10 4 15) (mkPtok 40 "," 11 0 18)) (TyBasic (mkSpan (mkPtok 24 "int8" 10 4 15) (mkPtok 24 "int8" 10 4 15)) (mkBasicType (mkSpan (mkPtok 24 "int8" 10 4 15) (mkPtok 24 "int8" 10 4 15)) (mkPtok 24 "int8" 10 4 15))) (mkPtok 42 "pack" 10 9 16) None (mkPtok 40 "," 11 0 18))); (MIDecl (mkMetaDecl (mkSpan (mkPtok 14 "zchar[" 11 2 19) (mkPtok 40 "," 15 0 25)) (TyFixed (mkSpan (mkPtok 14 "zchar[" 11 2 19) (mkPtok 13 "]" 11 12 21)) (mkFixedString (mkSpan (mkPtok 14 "zchar[" 11 2 19) (mkPtok 13 "]" 11 12 21)) (mkPtok 14 "zchar[" 11 2 19) (mkPtok 30 "00" 11 9 20) (mkPtok 13 "]" 11 12 21))) (mkPtok 42 "repeatCount" 13 4 23) (Some (mkPtok 43 "`it's`" 14 4 24)) (mkPtok 40 "," 15 0 25))); (MIDecl (mkMetaDecl (mkSpan (mkPtok 14 "zchar[" 15 2 26) (mkPtok 40 "," 17 0 31)) (TyFixed (mkSpan (mkPtok 14 "zchar[" 15 2 26) (mkPtok 13 "]" 16 0 28)) (mkFixedString (mkSpan (mkPtok 14 "zchar[" 15 2 26) (mkPtok 13 "]" 16 0 28)) (mkPtok 14 "zchar[" 15 2 26) (mkPtok 30 "42" 15 9 27) (mkPtok 13 "]" 16 0 28))) (mkPtok 42 "calculatedFrom" 16 1 29) None (mkPtok 40 "," 17 0 31))); (MIRef (mkRefMetaDecl (mkSpan (mkPtok 42 "lengthOf" 17 1 32) (mkPtok 40 "," 17 14 34)) (mkPtok 42 "lengthOf" 17 1 32) (mkPtok 42 "Pad" 17 10 33) None (mkPtok 40 "," 17 14 34)))] (mkPtok 3 "}" 17 16 35))); (DMeta (mkMetaDef (mkSpan (mkPtok 37 "MetaData" 17 17 36) (mkPtok 3 "}" 23 5 46)) (mkPtok 37 "MetaData" 17 17 36) (mkPtok 42 "lengthOf" 17 26 37) (mkPtok 2 "{" 17 35 38) [(MIRef (mkRefMetaDecl (mkSpan (mkPtok 42 "x_y_z" 20 0 41) (mkPtok 40 "," 23 4 45)) (mkPtok 42 "x_y_z" 20 0 41) (mkPtok 42 "asx" 23 0 44) None (mkPtok 40 "," 23 4 45)))] (mkPtok 3 "}" 23 5 46))); (DPacket (mkPacketDef (mkSpan (mkPtok 35 "packet" 23 6 47) (mkPtok 3 "}" 34 12 85)) None (mkPtok 35 "packet" 23 6 47) (mkPtok 42 "x_y_z" 23 13 48) (mkPtok 2 "{" 23 19 49) [(mkFieldWithAttr (mkSpan (mkPtok 36 "repeat" 23 21 50) (mkPtok 40 "," 24 4 53)) [] (MetaField (mkSpan (mkPtok 36 "repeat" 23 21 50) (mkPtok 40 "," 24 4 53)) (Some (mkPtok 36 "repeat" 23 21 50)) (mkMetaDecl (mkSpan (mkPtok 21 "uint16" 23 28 51) (mkPtok 40 "," 24 4 53)) (TyBasic (mkSpan (mkPtok 21 "uint16" 23 28 51) (mkPtok 21 "uint16" 23 28 51)) (mkBasicType (mkSpan (mkPtok 21 "uint16" 23 28 51) (mkPtok 21 "uint16" 23 28 51)) (mkPtok 21 "uint16" 23 28 51))) (mkPtok 42 "x_y_z" 23 35 52) None (mkPtok 40 "," 24 4 53)))); (mkFieldWithAttr (mkSpan (mkPtok 9 "@tag(" 24 6 54) (mkPtok 40 "," 34 10 84)) [(FATag (mkSpan (mkPtok 9 "@tag(" 24 6 54) (mkPtok 6 ")" 27 0 58)) (mkTagAttr (mkSpan (mkPtok 9 "@tag(" 24 6 54) (mkPtok 6 ")" 27 0 58)) (mkPtok 9 "@tag(" 24 6 54) (mkPtok 30 "1" 24 12 55) (mkPtok 6 ")" 27 0 58)))] (MatchField (mkSpan (mkPtok 38 "match" 27 2 59) (mkPtok 40 "," 34 10 84)) (mkMatchFieldDecl (mkSpan (mkPtok 38 "match" 27 2 59) (mkPtok 3 "}" 34 8 83)) (mkPtok 38 "match" 27 2 59) (mkPtok 42 "u128" 27 8 60) (mkPtok 17 "as" 27 13 61) (mkPtok 42 "rootA" 28 0 63) (mkPtok 2 "{" 28 6 64) [(mkMatchPair (mkSpan (mkPtok 30 "3" 28 8 65) (mkPtok 40 "," 30 4 68)) (MKDigits (mkPtok 30 "3" 28 8 65)) (mkPtok 39 ":" 29 4 66) (mkPtok 42 "tag" 29 6 67) (Some (mkPtok 40 "," 30 4 68))); (mkMatchPair (mkSpan (mkPtok 31 """\n""" 30 6 69) (mkPtok 40 "," 32 9 73)) (MKString (mkPtok 31 """\n""" 30 6 69)) (mkPtok 39 ":" 30 10 70) (mkPtok 42 "pack" 32 4 72) (Some (mkPtok 40 "," 32 9 73))); (mkMatchPair (mkSpan (mkPtok 18 "[" 32 11 74) (mkPtok 40 "," 34 6 82)) (MKList (mkKeyList (mkSpan (mkPtok 18 "[" 32 11 74) (mkPtok 13 "]" 33 2 79)) (mkPtok 18 "[" 32 11 74) (mkPtok 31 (string_of_bytes [34; 195; 169; 116; 195; 169; 34]%N) 32 13 75) [((mkPtok 40 "," 32 18 76), (mkPtok 30 "7" 33 0 78))] (mkPtok 13 "]" 33 2 79))) (mkPtok 39 ":" 33 4 80) (mkPtok 42 "T" 34 4 81) (Some (mkPtok 40 "," 34 6 82)))] (mkPtok 3 "}" 34 8 83)) (mkPtok 40 "," 34 10 84)))] (mkPtok 3 "}" 34 12 85)))])).
Eval vm_compute in ("<<<M332>>>" ++ check (runes_of_ascii "
packet a1 { @calculatedFrom(
""\n""
// 50% %s
// packet A { u8 x, }
) zchar[ 4294967296 ]  asx  ,
    crc
    `100% of %d` , tag Pad , @leftPad
    ( '\x00')body { zchar[ 255 ] u8x `" ++ [28040; 24687; 31867; 22411]%N ++ runes_of_ascii "` , repeat u64
    pack `it's`, }, match	falsey	as // `tick` ""quote"" 'q'
o { [ 0123456789, ""1""
]: u128 ,} ,
repeat
packetx len
,  match crc as msg_type {
3 :
A, [""x y"" , 7// a // b
] :u , """ ++ [233]%N ++ runes_of_ascii "t" ++ [233]%N ++ runes_of_ascii """:rootA,
1 : f32a , } , Pad
    @lengthOf( //x
float )  ,
x // " ++ [27880; 37322]%N ++ runes_of_ascii "
{ zchar[007 ] falsey,} ,
} packet stringy  {
    @rightPad ( '\x00'
)repeat BodyLength Header ,@lengthOf(int ) i64
matchKey `u8 x,`  ,repeat x_y_z{
    repeat
zchar[ 65535 ] charz `u8 x,` //	t
, roots/// triple
@calculatedFrom("""" // c
) ,
    }	, // @lengthOf(
tag {	i16
    trueish `{ , }` ,},u8x
    @lengthOf( stringy ) `u8 x,` , chars@calculatedFrom( ""1"" ),
    char[10
    ]//x
trueish
    `two words`
    , string As @calculatedFrom(
    ""it's""
) `" ++ [233]%N ++ runes_of_ascii "` ,	@tag( 3 // a // b
) msg_type ,
char[ 7  ]
    // c
    trueish@calculatedFrom( ""\" ++ [233]%N ++ runes_of_ascii """ ) ,} packet	charz//	t
{
    // packet A { u8 x, }
    char[]lengthOf
    `{ , }`
,@calculatedFrom( """"
    ) @lengthOf( f32a) @tag(
4294967296 /// triple
)
repeat x { u16 tag @calculatedFrom( ""abc"" )  , u32 roots `crlf
line`/// triple
, repeat
    // @lengthOf(
    int
// @lengthOf(
/// triple
tag ,
    i8 Pad,
} , string uint8x  @calculatedFrom( ""{,}""
    // 50% %s
    ) `it's`	, }
")).
Eval vm_compute in ("<<<M364>>>" ++ check (runes_of_ascii "MetaData
    // `tick` ""quote"" 'q'
    x_y_z
// c
//	t
{ zchar[
    42 ]
    leftPad
`{ , }` ,	crc
    /// triple
    pack , f64 string_ `` , x_y_z i64_,float64 u8x
    `doc`  ,
    // 50% %s
    uint64 u , }
")).
Eval vm_compute in ("<<<M396>>>" ++ check (runes_of_ascii "
options { crc =
    // trailing space 
    ""// no comment""
;  _x =
    // " ++ [27880; 37322]%N ++ runes_of_ascii "
    i64 As =
    '\x00' ; }packet pack {
}
")).
Eval vm_compute in ("<<<M428>>>" ++ check (runes_of_ascii "packet roots { // packet A { u8 x, }
@leftPad ( ) calculatedFrom `line1
line2` //x
, @calculatedFrom(""// no comment"" //	t
) match
i8i8 as x
    // trailing space 
    {
    00
:
    chars  , ""// no comment"" :A /// triple
,
    [
    00, ""it's"" ]: roots	, 0:	A ""`tick`""// c
: charz
    ,""\" ++ [233]%N ++ runes_of_ascii """
:  repeatCount , },	@lengthOf( a1 ) u16 i8i8
, @calculatedFrom(""a	b"" )
repeat options1 { uint32
    BodyLength
@calculatedFrom( ""a\\"") `
`
    // @lengthOf(
    ,
    match options1
as // " ++ [27880; 37322]%N ++ runes_of_ascii "
charz {
    /// triple
    007 :
x_y_z ,// " ++ [128512]%N ++ runes_of_ascii " emoji
7 : T , // packet A { u8 x, }
[ ""CRC32"" , ""{,}"" ]
:
    u8x [ 00 , ""CRC32"" , ""// no comment""
    , 4294967296 , ""`tick`"" ,42
,	0123456789 ] :falsey , 42 : pack
    , ""`tick`"":
    As
,
} ,
} ,
@lengthOf(	rootA )  repeatCount { f32 i64_ `tab	here` ,} , @leftPad (// " ++ [27880; 37322]%N ++ runes_of_ascii "
'0'
    ) @tag( 255 )
repeat packetx , falsey `" ++ [233]%N ++ runes_of_ascii "` // `tick` ""quote"" 'q'
, //	t
options1 leftPad
    ,
repeat
string_ roots `" ++ [233]%N ++ runes_of_ascii "` ,
    }")).
Eval vm_compute in ("<<<M460>>>" ++ check (runes_of_ascii "packet u8x
    {} // packet A { u8 x, }")).
Eval vm_compute in ("<<<M492>>>" ++ check (runes_of_ascii "
packet	BodyLength
{ repeat repeatCount
    //	t
    ,
@tag( 0 /// triple
)trueish
_x , } 	 ")).
Eval vm_compute in ("<<<M524>>>" ++ check (runes_of_ascii "options { lengthOf =
    uint32 // packet A { u8 x, }
zchar
=
/// triple
//x
true
/// triple
//
; lengthOf =0123456789
tag = ""it's"" // " ++ [27880; 37322]%N ++ runes_of_ascii "
;matchKey =
zchar[ 255
    //x
    ]}
")).
Eval vm_compute in ("<<<T524>>>" ++ terms [mkTok 1 "options" 1 0 false; mkTok 2 "{" 1 8 false; mkTok 42 "lengthOf" 1 10 false; mkTok 4 "=" 1 19 false; mkTok 22 "uint32" 2 4 false; mkTok 44 "// packet A { u8 x, }" 2 11 true; mkTok 42 "zchar" 3 0 false; mkTok 4 "=" 4 0 false; mkTok 44 "/// triple" 5 0 true; mkTok 44 "//x" 6 0 true; mkTok 10 "true" 7 0 false; mkTok 44 "/// triple" 8 0 true; mkTok 44 "//" 9 0 true; mkTok 41 ";" 10 0 false; mkTok 42 "lengthOf" 10 2 false; mkTok 4 "=" 10 11 false; mkTok 30 "0123456789" 10 12 false; mkTok 42 "tag" 11 0 false; mkTok 4 "=" 11 4 false; mkTok 31 """it's""" 11 6 false; mkTok 44 (string_of_bytes [47; 47; 32; 230; 179; 168; 233; 135; 138]%N) 11 13 true; mkTok 41 ";" 12 0 false; mkTok 42 "matchKey" 12 1 false; mkTok 4 "=" 12 10 false; mkTok 14 "zchar[" 13 0 false; mkTok 30 "255" 13 7 false; mkTok 44 "//x" 14 4 true; mkTok 13 "]" 15 4 false; mkTok 3 "}" 15 5 false; mkTok 0 "<EOF>" 16 0 false] (mkPacket (mkPtok 1 "options" 1 0 0) (Some (mkPtok 3 "}" 15 5 28)) [(DOption (mkOptionDef (mkSpan (mkPtok 1 "options" 1 0 0) (mkPtok 3 "}" 15 5 28)) (mkPtok 1 "options" 1 0 0) (mkPtok 2 "{" 1 8 1) [(mkOptionDecl (mkSpan (mkPtok 42 "lengthOf" 1 10 2) (mkPtok 22 "uint32" 2 4 4)) (mkPtok 42 "lengthOf" 1 10 2) (mkPtok 4 "=" 1 19 3) (VType (mkSpan (mkPtok 22 "uint32" 2 4 4) (mkPtok 22 "uint32" 2 4 4)) (TyBasic (mkSpan (mkPtok 22 "uint32" 2 4 4) (mkPtok 22 "uint32" 2 4 4)) (mkBasicType (mkSpan (mkPtok 22 "uint32" 2 4 4) (mkPtok 22 "uint32" 2 4 4)) (mkPtok 22 "uint32" 2 4 4)))) None); (mkOptionDecl (mkSpan (mkPtok 42 "zchar" 3 0 6) (mkPtok 41 ";" 10 0 13)) (mkPtok 42 "zchar" 3 0 6) (mkPtok 4 "=" 4 0 7) (VTrue (mkSpan (mkPtok 10 "true" 7 0 10) (mkPtok 10 "true" 7 0 10)) (mkPtok 10 "true" 7 0 10)) (Some (mkPtok 41 ";" 10 0 13))); (mkOptionDecl (mkSpan (mkPtok 42 "lengthOf" 10 2 14) (mkPtok 30 "0123456789" 10 12 16)) (mkPtok 42 "lengthOf" 10 2 14) (mkPtok 4 "=" 10 11 15) (VDigits (mkSpan (mkPtok 30 "0123456789" 10 12 16) (mkPtok 30 "0123456789" 10 12 16)) (mkPtok 30 "0123456789" 10 12 16)) None); (mkOptionDecl (mkSpan (mkPtok 42 "tag" 11 0 17) (mkPtok 41 ";" 12 0 21)) (mkPtok 42 "tag" 11 0 17) (mkPtok 4 "=" 11 4 18) (VString (mkSpan (mkPtok 31 """it's""" 11 6 19) (mkPtok 31 """it's""" 11 6 19)) (mkPtok 31 """it's""" 11 6 19)) (Some (mkPtok 41 ";" 12 0 21))); (mkOptionDecl (mkSpan (mkPtok 42 "matchKey" 12 1 22) (mkPtok 13 "]" 15 4 27)) (mkPtok 42 "matchKey" 12 1 22) (mkPtok 4 "=" 12 10 23) (VType (mkSpan (mkPtok 14 "zchar[" 13 0 24) (mkPtok 13 "]" 15 4 27)) (TyFixed (mkSpan (mkPtok 14 "zchar[" 13 0 24) (mkPtok 13 "]" 15 4 27)) (mkFixedString (mkSpan (mkPtok 14 "zchar[" 13 0 24) (mkPtok 13 "]" 15 4 27)) (mkPtok 14 "zchar[" 13 0 24) (mkPtok 30 "255" 13 7 25) (mkPtok 13 "]" 15 4 27)))) None)] (mkPtok 3 "}" 15 5 28)))])).
Eval vm_compute in ("<<<M556>>>" ++ check (runes_of_ascii "options { string_
=
""" ++ [128512]%N ++ runes_of_ascii """
; lengthOf
=
string T // c
= uint16 ;int = zchar[
    //x
    3 ] ; A	= ""1"" ;
    }")).
Eval vm_compute in ("<<<M588>>>" ++ check (runes_of_ascii "packet f32a {
    } packet falsey {char[]calculatedFrom, }
root packet asx {
    @calculatedFrom( """ ++ [128512]%N ++ runes_of_ascii """ //
)
    uint8 trueish @lengthOf(packetx ) ,}")).
Eval vm_compute in ("<<<M620>>>" ++ check (runes_of_ascii "MetaData i64_
{string _x ,
    // " ++ [27880; 37322]%N ++ runes_of_ascii "
    char[] Packet ,
}
root
packet Foo {@lengthOf( u8x) @calculatedFrom(
""" ++ [233]%N ++ runes_of_ascii "t" ++ [233]%N ++ runes_of_ascii """ )@rightPad ( '\x00' // `tick` ""quote"" 'q'
) As //x
u `` ,
    }
// packet A { u8 x, }
// " ++ [128512]%N ++ runes_of_ascii " emoji
packet leftPad { @calculatedFrom( ""a\\"")@lengthOf(
len)
@tag( 1
) char[ 255 ]u8x, @calculatedFrom(
""// no comment"" )
int32
    // trailing space 
    len
    @lengthOf( _x ) ,
    @calculatedFrom( """ ++ [28040; 24687]%N ++ runes_of_ascii """ ) repeat Logon int `{ , }`
, match As as packetx { ""a	b"" :
uint8x, } ,char[
0
    ]charz @lengthOf( i8i8 ) ,	chars
metadata,
    @tag( 0123456789
    )BodyLength,  } root
packet // 50% %s
zchar
    {
@leftPad( '\x00')float
    T , }
")).
Eval vm_compute in ("<<<M652>>>" ++ check (runes_of_ascii "options {}
root  packet calculatedFrom {	a1 `" ++ [28040; 24687; 31867; 22411]%N ++ runes_of_ascii "` ,
}")).
Eval vm_compute in ("<<<M684>>>" ++ check (runes_of_ascii "packet Z9_ {  char[65535
//	t
// packet A { u8 x, }
] stringy , match _x as
BodyLength	{ 0123456789 : repeatCount, 007 // " ++ [27880; 37322]%N ++ runes_of_ascii "
:
_x
    ,  }
// a // b
// @lengthOf(
, }
// 50% %s
// `tick` ""quote"" 'q'
packet MetaDataX { // a // b
f32a int , i64 pack ,}MetaData roots
// a // b
// " ++ [27880; 37322]%N ++ runes_of_ascii "
{ T Z9_ ,
u8
    packetx
    `
` ,x
trueish,uint8x msg_type , lengthOf// `tick` ""quote"" 'q'
crc `say ""hi""` , } // a // b")).
Eval vm_compute in ("<<<M716>>>" ++ check (runes_of_ascii "options { chars =
'0'
;
} root packet x { match Logon
as calculatedFrom { [ ""`tick`"" // packet A { u8 x, }
, 0123456789 ] :Packet
    } ,
    // packet A { u8 x, }
    char[ 0123456789 // " ++ [128512]%N ++ runes_of_ascii " emoji
] u8x , @tag(00	) string
metadata`say ""hi""` , i64  A `" ++ [28040; 24687; 31867; 22411]%N ++ runes_of_ascii "`, @lengthOf(/// triple
calculatedFrom ) float
@calculatedFrom( ""{,}""
) // " ++ [27880; 37322]%N ++ runes_of_ascii "
,}
    packet
crc { @tag( 0123456789 ) uint32  tag `line1
line2` , repeat zchar[  4294967296
    ] BodyLength `" ++ [28040; 24687; 31867; 22411]%N ++ runes_of_ascii "` ,  repeat calculatedFrom  `two words`
    , uint32 repeatCount
, leftPad BodyLength `" ++ [233]%N ++ runes_of_ascii "`  ,
    options1 Logon ``  ,@leftPad ( ' ' )
repeat metadata string_// c
, char[ 0123456789 ]
trueish @calculatedFrom( ""a\""b"" ) `say ""hi""`
,
    @calculatedFrom(
""\n""
)pack , } packet leftPad { @tag(7
    ) options1 {repeat
pack, } ,  u
`` , packetx @lengthOf( MetaDataX)
, asx
    // trailing space 
    {
repeat
    repeatCount Z9_ ,
    repeat zchar[
4294967296  ] Pad , }	, @tag( 255 ) @tag(
    255
)  char[	0123456789 ]  u8x // packet A { u8 x, }
, //
@calculatedFrom(""CRC32""
    ) char[
    3 ] Pad `tab	here`
, MetaDataX ,@leftPad	( ' ' )  char[] Foo
@calculatedFrom(
    """ ++ [28040; 24687]%N ++ runes_of_ascii """) , }

")).
Eval vm_compute in ("<<<M748>>>" ++ check (runes_of_ascii "packet u { i16 options1
// @lengthOf(
// a // b
`u8 x,`
,
    }	MetaData
pack	{// a // b
string // packet A { u8 x, }
int ,int8
    calculatedFrom
    , x_y_z zchar // packet A { u8 x, }
, string
    /// triple
    uint8x `` ,	lengthOf  a1`" ++ [28040; 24687; 31867; 22411]%N ++ runes_of_ascii "` ,
}")).
Eval vm_compute in ("<<<T748>>>" ++ terms [mkTok 35 "packet" 1 0 false; mkTok 42 "u" 1 7 false; mkTok 2 "{" 1 9 false; mkTok 25 "i16" 1 11 false; mkTok 42 "options1" 1 15 false; mkTok 44 "// @lengthOf(" 2 0 true; mkTok 44 "// a // b" 3 0 true; mkTok 43 "`u8 x,`" 4 0 false; mkTok 40 "," 5 0 false; mkTok 3 "}" 6 4 false; mkTok 37 "MetaData" 6 6 false; mkTok 42 "pack" 7 0 false; mkTok 2 "{" 7 5 false; mkTok 44 "// a // b" 7 6 true; mkTok 15 "string" 8 0 false; mkTok 44 "// packet A { u8 x, }" 8 7 true; mkTok 42 "int" 9 0 false; mkTok 40 "," 9 4 false; mkTok 24 "int8" 9 5 false; mkTok 42 "calculatedFrom" 10 4 false; mkTok 40 "," 11 4 false; mkTok 42 "x_y_z" 11 6 false; mkTok 42 "zchar" 11 12 false; mkTok 44 "// packet A { u8 x, }" 11 18 true; mkTok 40 "," 12 0 false; mkTok 15 "string" 12 2 false; mkTok 44 "/// triple" 13 4 true; mkTok 42 "uint8x" 14 4 false; mkTok 43 "``" 14 11 false; mkTok 40 "," 14 14 false; mkTok 42 "lengthOf" 14 16 false; mkTok 42 "a1" 14 26 false; mkTok 43 (string_of_bytes [96; 230; 182; 136; 230; 129; 175; 231; 177; 187; 229; 158; 139; 96]%N) 14 28 false; mkTok 40 "," 14 35 false; mkTok 3 "}" 15 0 false; mkTok 0 "<EOF>" 15 1 false] (mkPacket (mkPtok 35 "packet" 1 0 0) (Some (mkPtok 3 "}" 15 0 34)) [(DPacket (mkPacketDef (mkSpan (mkPtok 35 "packet" 1 0 0) (mkPtok 3 "}" 6 4 9)) None (mkPtok 35 "packet" 1 0 0) (mkPtok 42 "u" 1 7 1) (mkPtok 2 "{" 1 9 2) [(mkFieldWithAttr (mkSpan (mkPtok 25 "i16" 1 11 3) (mkPtok 40 "," 5 0 8)) [] (MetaField (mkSpan (mkPtok 25 "i16" 1 11 3) (mkPtok 40 "," 5 0 8)) None (mkMetaDecl (mkSpan (mkPtok 25 "i16" 1 11 3) (mkPtok 40 "," 5 0 8)) (TyBasic (mkSpan (mkPtok 25 "i16" 1 11 3) (mkPtok 25 "i16" 1 11 3)) (mkBasicType (mkSpan (mkPtok 25 "i16" 1 11 3) (mkPtok 25 "i16" 1 11 3)) (mkPtok 25 "i16" 1 11 3))) (mkPtok 42 "options1" 1 15 4) (Some (mkPtok 43 "`u8 x,`" 4 0 7)) (mkPtok 40 "," 5 0 8))))] (mkPtok 3 "}" 6 4 9))); (DMeta (mkMetaDef (mkSpan (mkPtok 37 "MetaData" 6 6 10) (mkPtok 3 "}" 15 0 34)) (mkPtok 37 "MetaData" 6 6 10) (mkPtok 42 "pack" 7 0 11) (mkPtok 2 "{" 7 5 12) [(MIDecl (mkMetaDecl (mkSpan (mkPtok 15 "string" 8 0 14) (mkPtok 40 "," 9 4 17)) (TyDynamic (mkSpan (mkPtok 15 "string" 8 0 14) (mkPtok 15 "string" 8 0 14)) (mkDynamicString (mkSpan (mkPtok 15 "string" 8 0 14) (mkPtok 15 "string" 8 0 14)) (mkPtok 15 "string" 8 0 14))) (mkPtok 42 "int" 9 0 16) None (mkPtok 40 "," 9 4 17))); (MIDecl (mkMetaDecl (mkSpan (mkPtok 24 "int8" 9 5 18) (mkPtok 40 "," 11 4 20)) (TyBasic (mkSpan (mkPtok 24 "int8" 9 5 18) (mkPtok 24 "int8" 9 5 18)) (mkBasicType (mkSpan (mkPtok 24 "int8" 9 5 18) (mkPtok 24 "int8" 9 5 18)) (mkPtok 24 "int8" 9 5 18))) (mkPtok 42 "calculatedFrom" 10 4 19) None (mkPtok 40 "," 11 4 20))); (MIRef (mkRefMetaDecl (mkSpan (mkPtok 42 "x_y_z" 11 6 21) (mkPtok 40 "," 12 0 24)) (mkPtok 42 "x_y_z" 11 6 21) (mkPtok 42 "zchar" 11 12 22) None (mkPtok 40 "," 12 0 24))); (MIDecl (mkMetaDecl (mkSpan (mkPtok 15 "string" 12 2 25) (mkPtok 40 "," 14 14 29)) (TyDynamic (mkSpan (mkPtok 15 "string" 12 2 25) (mkPtok 15 "string" 12 2 25)) (mkDynamicString (mkSpan (mkPtok 15 "string" 12 2 25) (mkPtok 15 "string" 12 2 25)) (mkPtok 15 "string" 12 2 25))) (mkPtok 42 "uint8x" 14 4 27) (Some (mkPtok 43 "``" 14 11 28)) (mkPtok 40 "," 14 14 29))); (MIRef (mkRefMetaDecl (mkSpan (mkPtok 42 "lengthOf" 14 16 30) (mkPtok 40 "," 14 35 33)) (mkPtok 42 "lengthOf" 14 16 30) (mkPtok 42 "a1" 14 26 31) (Some (mkPtok 43 (string_of_bytes [96; 230; 182; 136; 230; 129; 175; 231; 177; 187; 229; 158; 139; 96]%N) 14 28 32)) (mkPtok 40 "," 14 35 33)))] (mkPtok 3 "}" 15 0 34)))])).
Eval vm_compute in ("<<<M780>>>" ++ check (runes_of_ascii "packet rootA {@rightPad (	) f32a	`crlf
line` ,@tag( // c
42 )
len{match _x
    as	packetx {
    007 :BodyLength
    , [ ""\" ++ [233]%N ++ runes_of_ascii """ , ""\n"" ] : Pad, }// c
, MetaDataX `{ , }`
    , int64 Pad`` ,uint32	charz
@calculatedFrom(
    ""1"") ,
    } , } // " ++ [27880; 37322]%N)).
Eval vm_compute in ("<<<M812>>>" ++ check (runes_of_ascii "
")).
Eval vm_compute in ("<<<M844>>>" ++ check (runes_of_ascii "options{ msg_type
    = ""packet""//x
;leftPad// trailing space 
=  ' ' ;
x_y_z = ' ' ;
}
root packet  A//
{
    //x
    zchar[
42]
    options1 `u8 x,` ,
float64 uint8x `a\` ,
packetx @lengthOf(BodyLength) `tab	here`
    ,
    chars	u8x	`100% of %d`
, @leftPad ( ) repeat
i64_ charz
`u8 x,`
, repeat crc { msg_type asx ,
}, repeat f32a  , char[ 00 ] o `" ++ [233]%N ++ runes_of_ascii "`
    ,
@lengthOf( float )
leftPad @calculatedFrom(
//	t
// packet A { u8 x, }
""a	b"" ) ,} packet
    Packet
{
    i16	asx`a\` //	t
, @calculatedFrom(
""" ++ [128512]%N ++ runes_of_ascii """) @lengthOf(
/// triple
/// triple
f32a) @lengthOf( Pad)repeat
    // a // b
    pack
    i64_ `// not a comment`, char[] len  `u8 x,`, repeat char[]  asx  ,match repeatCount
as uint8x {
00: trueish 00 : Z9_ , 7 : u,
    [  00 ,7 , ""abc"" , ""1""	] :charz [ 1 ,""abc"" , ""a\\"" ,
65535 , 007 ]: Packet, } ,	@calculatedFrom( ""{,}""
) repeatCount body `it's` , @leftPad (
    // c
    '\x00' )repeat
    len // a // b
`line1
line2` ,
@tag(  007 )  match metadata as string_ {
[  ""x y""] : falsey
    // packet A { u8 x, }
    } // @lengthOf(
,
@leftPad ( '\x00' ) packetx	, // c
} root
packet T{@rightPad( ' ') repeat
    //x
    lengthOf f32a
`line1
line2`, @tag(00 )
char[ 1 ]
    body, repeat calculatedFrom , // a // b
repeat
    Z9_
//	t
//	t
,
repeat
u8x	{ metadata
{ match  repeatCount as falsey	{ 007// trailing space 
:
len , ""packet"" : T//x
,65535 :	T , }	,
} ,  u16 string_ `u8 x,`	, match float as MetaDataX { ""\" ++ [233]%N ++ runes_of_ascii """ : int
, [ 10 , 1
,0 ,
3, ""// no comment"" ,
    """ ++ [28040; 24687]%N ++ runes_of_ascii """	, 00 ,  4294967296 // " ++ [128512]%N ++ runes_of_ascii " emoji
]
    // packet A { u8 x, }
    :Header
, [""{,}"" ,
42
    // `tick` ""quote"" 'q'
    ] :
matchKey,
    [ 255, 10/// triple
, 1 ,
    """ ++ [128512]%N ++ runes_of_ascii """	] : chars 7 // " ++ [27880; 37322]%N ++ runes_of_ascii "
:roots
,} // " ++ [27880; 37322]%N ++ runes_of_ascii "
,
    string leftPad, } , @lengthOf( i8i8 )//	t
@leftPad( '\x00'
)repeat
Packet
`line1
line2` ,
    uint8  len	,@rightPad ( '\x00'
    // a // b
    ) char[ 4294967296 ] Logon  `doc`
,
    } MetaData msg_type { i16
repeatCount
    `doc`, u8x msg_type
    , }
")).
Eval vm_compute in ("<<<M876>>>" ++ check (runes_of_ascii "packet u
{
    @lengthOf( f32a
// @lengthOf(
//x
) match lengthOf as tag
{00 : As	, } //
,msg_type `" ++ [28040; 24687; 31867; 22411]%N ++ runes_of_ascii "`, @rightPad(  '0' )	uint8x `it's`
    , @lengthOf( stringy) options1	{	BodyLength@calculatedFrom("""" )
    , BodyLength
int`u8 x,`,
zchar[
    3]
    As `a\` , } , }")).
Eval vm_compute in ("<<<M908>>>" ++ check (runes_of_ascii "options{ asx= int64
// @lengthOf(
// " ++ [128512]%N ++ runes_of_ascii " emoji
; f32a =""" ++ [28040; 24687]%N ++ runes_of_ascii """; } options {// trailing space 
repeatCount
    = //
""a	b"" ;}
options{ Packet  = ""\n"" } root	packet stringy{char[ 007 ] metadata
,
i8i8
@calculatedFrom( ""a\\""
) ,	@tag( 4294967296 ) match stringy as /// triple
msg_type  {
// trailing space 
/// triple
[
    // `tick` ""quote"" 'q'
    ""a	b"", 1 ,
1
, 42// 50% %s
, 007 ] :	string_ , """ ++ [28040; 24687]%N ++ runes_of_ascii """ : string_, 42: lengthOf [ ""a\\"" , 65535
    ] : _x,
} , zchar // 50% %s
leftPad
`a\` ,Foo {u64	falsey // `tick` ""quote"" 'q'
`" ++ [233]%N ++ runes_of_ascii "`  ,	}
,@calculatedFrom(
    // c
    ""CRC32""
) @tag(65535 ) i16 leftPad @calculatedFrom(
""" ++ [28040; 24687]%N ++ runes_of_ascii """  )
// a // b
// 50% %s
, // " ++ [27880; 37322]%N ++ runes_of_ascii "
asx,
repeat // `tick` ""quote"" 'q'
matchKey ,
    @rightPad// c
(
' '  ) int32 metadata `{ , }` ,
match options1 as Foo
{ 255 ://
i64_ , [ ""a\\"" ]
:lengthOf
    ,  ""it's"" : int 3 :zchar// packet A { u8 x, }
, // c
}, } MetaData
As { //
chars calculatedFrom`crlf
line` ,}")).
Eval vm_compute in ("<<<M940>>>" ++ check (runes_of_ascii "packet T
{ } 	 ")).
Eval vm_compute in ("<<<M972>>>" ++ check (runes_of_ascii "  root
    packet//x
len
{stringy @calculatedFrom( ""\n""
) `line1
line2`
//
// c
, i32 As `" ++ [233]%N ++ runes_of_ascii "` , @calculatedFrom( ""\" ++ [233]%N ++ runes_of_ascii """ ) repeat uint64 tag , repeat
    i32 // `tick` ""quote"" 'q'
pack , } // c")).
Eval vm_compute in ("<<<T972>>>" ++ terms [mkTok 34 "root" 1 2 false; mkTok 35 "packet" 2 4 false; mkTok 44 "//x" 2 10 true; mkTok 42 "len" 3 0 false; mkTok 2 "{" 4 0 false; mkTok 42 "stringy" 4 1 false; mkTok 5 "@calculatedFrom(" 4 9 false; mkTok 31 """\n""" 4 26 false; mkTok 6 ")" 5 0 false; mkTok 43 (string_of_bytes [96; 108; 105; 110; 101; 49; 10; 108; 105; 110; 101; 50; 96]%N) 5 2 false; mkTok 44 "//" 7 0 true; mkTok 44 "// c" 8 0 true; mkTok 40 "," 9 0 false; mkTok 26 "i32" 9 2 false; mkTok 42 "As" 9 6 false; mkTok 43 (string_of_bytes [96; 195; 169; 96]%N) 9 9 false; mkTok 40 "," 9 13 false; mkTok 5 "@calculatedFrom(" 9 15 false; mkTok 31 (string_of_bytes [34; 92; 195; 169; 34]%N) 9 32 false; mkTok 6 ")" 9 37 false; mkTok 36 "repeat" 9 39 false; mkTok 23 "uint64" 9 46 false; mkTok 42 "tag" 9 53 false; mkTok 40 "," 9 57 false; mkTok 36 "repeat" 9 59 false; mkTok 26 "i32" 10 4 false; mkTok 44 "// `tick` ""quote"" 'q'" 10 8 true; mkTok 42 "pack" 11 0 false; mkTok 40 "," 11 5 false; mkTok 3 "}" 11 7 false; mkTok 44 "// c" 11 9 true; mkTok 0 "<EOF>" 11 13 false] (mkPacket (mkPtok 34 "root" 1 2 0) (Some (mkPtok 3 "}" 11 7 29)) [(DPacket (mkPacketDef (mkSpan (mkPtok 34 "root" 1 2 0) (mkPtok 3 "}" 11 7 29)) (Some (mkPtok 34 "root" 1 2 0)) (mkPtok 35 "packet" 2 4 1) (mkPtok 42 "len" 3 0 3) (mkPtok 2 "{" 4 0 4) [(mkFieldWithAttr (mkSpan (mkPtok 42 "stringy" 4 1 5) (mkPtok 40 "," 9 0 12)) [] (CheckSumField (mkSpan (mkPtok 42 "stringy" 4 1 5) (mkPtok 40 "," 9 0 12)) (mkChecksumFieldDecl (mkSpan (mkPtok 42 "stringy" 4 1 5) (mkPtok 40 "," 9 0 12)) None (mkPtok 42 "stringy" 4 1 5) (mkCalculatedFrom (mkSpan (mkPtok 5 "@calculatedFrom(" 4 9 6) (mkPtok 6 ")" 5 0 8)) (mkPtok 5 "@calculatedFrom(" 4 9 6) (mkPtok 31 """\n""" 4 26 7) (mkPtok 6 ")" 5 0 8)) (Some (mkPtok 43 (string_of_bytes [96; 108; 105; 110; 101; 49; 10; 108; 105; 110; 101; 50; 96]%N) 5 2 9)) (mkPtok 40 "," 9 0 12)))); (mkFieldWithAttr (mkSpan (mkPtok 26 "i32" 9 2 13) (mkPtok 40 "," 9 13 16)) [] (MetaField (mkSpan (mkPtok 26 "i32" 9 2 13) (mkPtok 40 "," 9 13 16)) None (mkMetaDecl (mkSpan (mkPtok 26 "i32" 9 2 13) (mkPtok 40 "," 9 13 16)) (TyBasic (mkSpan (mkPtok 26 "i32" 9 2 13) (mkPtok 26 "i32" 9 2 13)) (mkBasicType (mkSpan (mkPtok 26 "i32" 9 2 13) (mkPtok 26 "i32" 9 2 13)) (mkPtok 26 "i32" 9 2 13))) (mkPtok 42 "As" 9 6 14) (Some (mkPtok 43 (string_of_bytes [96; 195; 169; 96]%N) 9 9 15)) (mkPtok 40 "," 9 13 16)))); (mkFieldWithAttr (mkSpan (mkPtok 5 "@calculatedFrom(" 9 15 17) (mkPtok 40 "," 9 57 23)) [(FACalculatedFrom (mkSpan (mkPtok 5 "@calculatedFrom(" 9 15 17) (mkPtok 6 ")" 9 37 19)) (mkCalculatedFrom (mkSpan (mkPtok 5 "@calculatedFrom(" 9 15 17) (mkPtok 6 ")" 9 37 19)) (mkPtok 5 "@calculatedFrom(" 9 15 17) (mkPtok 31 (string_of_bytes [34; 92; 195; 169; 34]%N) 9 32 18) (mkPtok 6 ")" 9 37 19)))] (MetaField (mkSpan (mkPtok 36 "repeat" 9 39 20) (mkPtok 40 "," 9 57 23)) (Some (mkPtok 36 "repeat" 9 39 20)) (mkMetaDecl (mkSpan (mkPtok 23 "uint64" 9 46 21) (mkPtok 40 "," 9 57 23)) (TyBasic (mkSpan (mkPtok 23 "uint64" 9 46 21) (mkPtok 23 "uint64" 9 46 21)) (mkBasicType (mkSpan (mkPtok 23 "uint64" 9 46 21) (mkPtok 23 "uint64" 9 46 21)) (mkPtok 23 "uint64" 9 46 21))) (mkPtok 42 "tag" 9 53 22) None (mkPtok 40 "," 9 57 23)))); (mkFieldWithAttr (mkSpan (mkPtok 36 "repeat" 9 59 24) (mkPtok 40 "," 11 5 28)) [] (MetaField (mkSpan (mkPtok 36 "repeat" 9 59 24) (mkPtok 40 "," 11 5 28)) (Some (mkPtok 36 "repeat" 9 59 24)) (mkMetaDecl (mkSpan (mkPtok 26 "i32" 10 4 25) (mkPtok 40 "," 11 5 28)) (TyBasic (mkSpan (mkPtok 26 "i32" 10 4 25) (mkPtok 26 "i32" 10 4 25)) (mkBasicType (mkSpan (mkPtok 26 "i32" 10 4 25) (mkPtok 26 "i32" 10 4 25)) (mkPtok 26 "i32" 10 4 25))) (mkPtok 42 "pack" 11 0 27) None (mkPtok 40 "," 11 5 28))))] (mkPtok 3 "}" 11 7 29)))])).
Eval vm_compute in ("<<<M1004>>>" ++ check (runes_of_ascii "packet
x_y_z{ match
Header as MetaDataX {
    ""x y""
: float ,} ,}")).
Eval vm_compute in ("<<<M1036>>>" ++ check (runes_of_ascii "root packet MetaDataX {  }
")).
Eval vm_compute in ("<<<M1068>>>" ++ check (runes_of_ascii "packet // @lengthOf(
Packet
{
    f64 stringy `it's` , }
/// triple
")).
Eval vm_compute in ("<<<M1100>>>" ++ check (runes_of_ascii "MetaData leftPad { // `tick` ""quote"" 'q'
calculatedFrom
    T,
float64  roots `say ""hi""`, uint32 leftPad
    `100% of %d`,	zchar[
00] _x
//x
//x
,
// " ++ [128512]%N ++ runes_of_ascii " emoji
/// triple
} packet string_ { }
    MetaData calculatedFrom{float
Z9_ , Z9_ T`tab	here`,zchar[
    3
    // " ++ [128512]%N ++ runes_of_ascii " emoji
    ]
leftPad `{ , }`  ,string T `" ++ [233]%N ++ runes_of_ascii "`
, char[] lengthOf
    `" ++ [28040; 24687; 31867; 22411]%N ++ runes_of_ascii "`
, }root packet Header
    {repeat zchar[0123456789]x
, char[ 3 ] options1
    @lengthOf( i8i8
)  ,repeatCount ,@lengthOf(BodyLength ) i16 f32a ,	char  leftPad
@lengthOf(  uint8x )	,@lengthOf( repeatCount  ) char[]
    falsey // a // b
@lengthOf( Foo )`tab	here`, @tag(
    1)string// `tick` ""quote"" 'q'
rootA // packet A { u8 x, }
, repeat
    u16 crc `doc` , } root packet // " ++ [128512]%N ++ runes_of_ascii " emoji
BodyLength
{@tag( 3) // c
@lengthOf(
rootA) match Pad as//
zchar { ""a\\"": /// triple
options1 , } , }
")).
Eval vm_compute in ("<<<M1132>>>" ++ check (runes_of_ascii "packet charz {repeat int8 asx ,
}packet
    len
{
    @calculatedFrom( ""packet"" ) @lengthOf(
// " ++ [128512]%N ++ runes_of_ascii " emoji
// 50% %s
charz)@lengthOf( tag
    )
zchar[
// `tick` ""quote"" 'q'
// trailing space 
0 ] metadata
    @calculatedFrom(""" ++ [128512]%N ++ runes_of_ascii """) ,	@calculatedFrom(
""1""  ) i8i8
@calculatedFrom( """ ++ [28040; 24687]%N ++ runes_of_ascii """ ) ,
// packet A { u8 x, }
//x
@tag(42 ) char[] pack ,
// 50% %s
// packet A { u8 x, }
zchar[
    10 ] stringy
@lengthOf( crc ) , repeat f32
/// triple
//x
o
`say ""hi""`, char[] falsey /// triple
, @tag(
65535
    //	t
    ) @lengthOf( o)
repeat
    crc zchar ,repeat options1 { u16
u,  string_
    {
string_ MetaDataX , repeat char[0123456789] uint8x
, repeat
uint32
    T ,}
, uint16
packetx, }
// `tick` ""quote"" 'q'
// c
,
    } MetaData matchKey {	i8
leftPad `it's`
, msg_type	options1 , } MetaData i8i8 {zchar[
    3 ] // 50% %s
MetaDataX , char[
0
    /// triple
    ] body// trailing space 
, char[] x_y_z , Z9_ string_	,zchar[ 0 ] a1
`{ , }`,
rootA packetx	,// packet A { u8 x, }
}")).
Eval vm_compute in ("<<<M1164>>>" ++ check (runes_of_ascii "options { Logon =
// c
// " ++ [128512]%N ++ runes_of_ascii " emoji
char[ 4294967296
    ] ; body= char[] chars = 10 } packet	matchKey// trailing space 
{ i16 crc ``,}

")).
Eval vm_compute in ("<<<M1196>>>" ++ check (runes_of_ascii "


")).
Eval vm_compute in ("<<<T1196>>>" ++ terms [mkTok 0 "<EOF>" 4 0 false] (mkPacket (mkPtok 0 "<EOF>" 4 0 0) None [])).
Eval vm_compute in ("<<<M1228>>>" ++ check (runes_of_ascii "MetaData
pack
    { char[ 10
    ] _x , calculatedFrom MetaDataX `" ++ [233]%N ++ runes_of_ascii "`  , /// triple
int32 pack, i16  lengthOf`doc`, a1
    u // trailing space 
``
    , char[ 255 ]
T
,
    }
    /// triple
    MetaData stringy { T falsey `say ""hi""` ,char[ 7 ] leftPad `" ++ [233]%N ++ runes_of_ascii "` ,}root packet packetx { char[
    42 ] u ,
i32
    tag @calculatedFrom( ""abc""
    ) `" ++ [233]%N ++ runes_of_ascii "` , // " ++ [27880; 37322]%N ++ runes_of_ascii "
u8
calculatedFrom `say ""hi""`
,
    repeat _x `` //x
,  repeat leftPad falsey  , i8i8 {
string T `line1
line2`
    ,} ,	}
    MetaData T {_x msg_type , char[ 007
    ] trueish, char[] lengthOf
`two words` ,char[]// `tick` ""quote"" 'q'
zchar
`line1
line2` , metadata  uint8x `" ++ [233]%N ++ runes_of_ascii "` ,
    // " ++ [27880; 37322]%N ++ runes_of_ascii "
    }

")).
Eval vm_compute in ("<<<M1260>>>" ++ check (runes_of_ascii "MetaData //
repeatCount {body
MetaDataX  `" ++ [28040; 24687; 31867; 22411]%N ++ runes_of_ascii "` ,
    As calculatedFrom
,  char[ 00 ] // packet A { u8 x, }
uint8x
, float32 tag	`it's` ,calculatedFrom leftPad`say ""hi""` , }
packet i8i8 { }
    root packet asx { string matchKey@lengthOf( u
)
,
crc
@calculatedFrom(
""abc""
    // @lengthOf(
    ) ,
// @lengthOf(
// " ++ [128512]%N ++ runes_of_ascii " emoji
match x
    //	t
    as metadata { 10
:x_y_z
    ,  [ ""\" ++ [233]%N ++ runes_of_ascii """ , 1 ]	:metadata
    ,
65535 : i64_ , ""`tick`"" :matchKey,// packet A { u8 x, }
} , stringy {int64
    u
    @calculatedFrom(	""\" ++ [233]%N ++ runes_of_ascii """) // 50% %s
, u32
Pad , u	u `" ++ [233]%N ++ runes_of_ascii "`
    , Header// a // b
@calculatedFrom( ""\n"") `" ++ [233]%N ++ runes_of_ascii "` , // " ++ [128512]%N ++ runes_of_ascii " emoji
} ,}")).
Eval vm_compute in ("<<<M1292>>>" ++ check (runes_of_ascii "/// triple
options {Logon	= ""a	b"";}  options {
    falsey = """ ++ [233]%N ++ runes_of_ascii "t" ++ [233]%N ++ runes_of_ascii """
    ; u128=' '
    _x = //	t
""" ++ [128512]%N ++ runes_of_ascii """ ;Foo
=
    // @lengthOf(
    00	pack= ' ' ;}packet i64_ { }
    packet As {
    char
o @lengthOf( u) ,
} 	 ")).
Eval vm_compute in ("<<<M1324>>>" ++ check (runes_of_ascii "
")).
Eval vm_compute in ("<<<M1356>>>" ++ check (runes_of_ascii "packet leftPad{ //	t
pack
rootA
    `// not a comment`, }MetaData //	t
Foo { /// triple
trueish x `say ""hi""`
, } packet	a1	{repeat
pack  body, //
}
")).
Eval vm_compute in ("<<<M1388>>>" ++ check (runes_of_ascii "options	{
pack
= zchar[ 255]// 50% %s
}
")).
Eval vm_compute in ("<<<M1420>>>" ++ check (runes_of_ascii "options {}

")).
Eval vm_compute in ("<<<T1420>>>" ++ terms [mkTok 1 "options" 1 0 false; mkTok 2 "{" 1 8 false; mkTok 3 "}" 1 9 false; mkTok 0 "<EOF>" 3 0 false] (mkPacket (mkPtok 1 "options" 1 0 0) (Some (mkPtok 3 "}" 1 9 2)) [(DOption (mkOptionDef (mkSpan (mkPtok 1 "options" 1 0 0) (mkPtok 3 "}" 1 9 2)) (mkPtok 1 "options" 1 0 0) (mkPtok 2 "{" 1 8 1) [] (mkPtok 3 "}" 1 9 2)))])).
Eval vm_compute in ("<<<M1452>>>" ++ check (runes_of_ascii "
MetaData
Foo
{
    }MetaData leftPad {// c
uint8 repeatCount `{ , }`	,
    }
// " ++ [27880; 37322]%N ++ runes_of_ascii "
// trailing space 
options { asx= ""CRC32"";
MetaDataX =	char[ 4294967296 ]	; _x = '0' ;
    trueish =	""a	b""; }
")).
Eval vm_compute in ("<<<M1484>>>" ++ check (runes_of_ascii "packet tag
    {uint64 _x, @lengthOf( rootA
    ) int32
    calculatedFrom  ,
/// triple
/// triple
uint32 Packet `say ""hi""` , @tag(
    255) len@lengthOf( Foo
)
, BodyLength,zchar[	42] packetx @lengthOf( a1)
,  i16 packetx, @leftPad( ' '
)// @lengthOf(
matchKey
{ zchar[ 007 ] pack, i32 chars  ,
    //
    Packet {repeat uint16
    options1`100% of %d` , }
// packet A { u8 x, }
// c
,
    /// triple
    repeat
msg_type , }, }")).
Eval vm_compute in ("<<<M1516>>>" ++ check (runes_of_ascii "
MetaData charz { }
// c
")).
Eval vm_compute in ("<<<M1548>>>" ++ check (runes_of_ascii "// c
packet  i8i8 //	t
{	}
")).
Eval vm_compute in ("<<<M1580>>>" ++ check (runes_of_ascii "// " ++ [128512]%N ++ runes_of_ascii " emoji
root packet msg_type { match
    Pad as
options1	{ ""`tick`"":charz
,}, repeat f32a A `" ++ [233]%N ++ runes_of_ascii "`
,
    @lengthOf(	i8i8 )@tag( 255 ) chars leftPad
, crc
trueish , @leftPad
('0' ) repeat asx f32a
    , Z9_ ``
    ,
i8 options1/// triple
,
}MetaData
    len { chars Logon , // 50% %s
matchKey Header `crlf
line`
//	t
// packet A { u8 x, }
,
charz
    BodyLength// trailing space 
`{ , }`, uint64 i8i8,
falsey A	,i8
f32a // `tick` ""quote"" 'q'
, } options {  x
='\x00' ;  leftPad=7 u8x =uint16 ;
}
")).
Eval vm_compute in ("<<<M1612>>>" ++ check (runes_of_ascii "MetaData
roots
    {  u32 f32a
    ,
    // `tick` ""quote"" 'q'
    } 	 ")).
Eval vm_compute in ("<<<M1644>>>" ++ check (runes_of_ascii "

")).
Eval vm_compute in ("<<<T1644>>>" ++ terms [mkTok 0 "<EOF>" 3 0 false] (mkPacket (mkPtok 0 "<EOF>" 3 0 0) None [])).
Eval vm_compute in ("<<<M1676>>>" ++ check (runes_of_ascii "packet x{ @rightPad	( '0' )
char[] body ,int  {	repeat Pad { repeat i64_ `it's`
    // a // b
    , repeat string
As`" ++ [28040; 24687; 31867; 22411]%N ++ runes_of_ascii "`
, Foo  @lengthOf(
_x)
, },},//	t
BodyLength
// " ++ [27880; 37322]%N ++ runes_of_ascii "
// c
metadata
,repeat
string_  {char
    // " ++ [128512]%N ++ runes_of_ascii " emoji
    stringy ,
leftPad Foo ,}
, match zchar	as //
Packet
    { ""it's""
:	pack ,  00: len } ,@calculatedFrom( ""CRC32"" )	crc@lengthOf(A
//
// trailing space 
) ,charz@calculatedFrom(
"""" )
, } MetaData options1 { zchar[ 0123456789] As `a\` , char[] u128 , uint8 packetx , zchar[
65535
    //	t
    ] msg_type
, uint32
falsey `say ""hi""`, }
MetaData o
    { f32
    zchar
    ,	uint16 charz , //x
calculatedFrom len `a\` ,	}
    MetaData o { char[ 255
    ] lengthOf	, char[]  i8i8 , zchar[ 65535
]	MetaDataX	`line1
line2` , char[// 50% %s
7 ]Logon ,
    // " ++ [128512]%N ++ runes_of_ascii " emoji
    } MetaData metadata{}")).
Eval vm_compute in ("<<<M1708>>>" ++ check (runes_of_ascii "packet  T {
@leftPad ( '\x00' // " ++ [27880; 37322]%N ++ runes_of_ascii "
) @lengthOf( roots) x{ zchar[ 65535]
leftPad @lengthOf( repeatCount ) `two words` , i8
u
@calculatedFrom(""x y"" )	`a\`
    , roots
{ repeat
Z9_ Logon ,
    i32  float , uint8x roots // 50% %s
`
` , string // c
body @lengthOf( crc
    )
, } ,} ,
repeat i16
x_y_z
`u8 x,` ,
Z9_ , f64 string_ /// triple
@calculatedFrom( ""it's"" )
    `doc` , f64 MetaDataX`line1
line2` , roots @lengthOf(
    u
    ), // " ++ [128512]%N ++ runes_of_ascii " emoji
@leftPad
    (
'0'  )
    string int
@calculatedFrom(
""" ++ [128512]%N ++ runes_of_ascii """
    )	, char[  65535 ]
    f32a // a // b
,repeat leftPad {char[] uint8x
@calculatedFrom( ""a\\""
)
, match	packetx
as BodyLength // `tick` ""quote"" 'q'
{ [ ""\" ++ [233]%N ++ runes_of_ascii """
    //	t
    , 4294967296 ,0123456789
    // 50% %s
    ] :
    calculatedFrom , ""\" ++ [233]%N ++ runes_of_ascii """: u128 , }
, repeat// 50% %s
string leftPad `two words`, zchar[ 3 ] string_ , } , }
")).
Eval vm_compute in ("<<<M1740>>>" ++ check (runes_of_ascii "options
    {
// c
//x
i8i8 // c
=
    // 50% %s
    ""1""// 50% %s
; }  MetaData int {
char[] zchar  `" ++ [233]%N ++ runes_of_ascii "` ,	} //")).
Eval vm_compute in ("<<<M1772>>>" ++ check (runes_of_ascii "packet Header { match roots as
chars { 3 : T ,""CRC32""
    :	trueish
    // c
    ,10  : i8i8
, 0
: repeatCount , ""`tick`"" :options1 } , char[] //x
i8i8 @calculatedFrom( """ ++ [128512]%N ++ runes_of_ascii """)	,
zchar[ 255  ] msg_type ,
//	t
// trailing space 
char[]
    MetaDataX `u8 x,`,uint8 BodyLength `// not a comment`,@rightPad (
    ) repeat packetx `two words`
    , @rightPad
    ( /// triple
) char[ 007 ]
tag , float , body
    @lengthOf(
    // trailing space 
    float //	t
) , }
")).
Eval vm_compute in ("<<<M1804>>>" ++ check (runes_of_ascii "packet Foo { crc  @lengthOf( options1 )
`a\`
    ,
@lengthOf( charz)
char[]	u8x, @tag( 65535 )@tag( 10)u16 stringy
`crlf
line`
    , match
    // `tick` ""quote"" 'q'
    lengthOf as
    packetx	{ [ 7 , ""a\\"" ]
    : string_// 50% %s
, 00 :packetx , [ ""\" ++ [233]%N ++ runes_of_ascii """
// packet A { u8 x, }
/// triple
]: // `tick` ""quote"" 'q'
f32a	}, falsey , u64
falsey	@lengthOf(// a // b
chars// @lengthOf(
)`tab	here`,	@calculatedFrom(
""abc"" ) match T as zchar
{ 3 : u8x ,4294967296 :
tag
, [ 0123456789 ]
    :
    x  ,
    [ """ ++ [28040; 24687]%N ++ runes_of_ascii """ ,""`tick`"" , 255 ,
""abc""	, 0 ,
// `tick` ""quote"" 'q'
//	t
4294967296	] : /// triple
_x , 65535 :
    charz
    , [
    """ ++ [233]%N ++ runes_of_ascii "t" ++ [233]%N ++ runes_of_ascii """
] : len },
    calculatedFrom { i16 zchar , }
, } MetaData MetaDataX{ int64
x_y_z ,
Packet leftPad
// trailing space 
// a // b
,
    }root packet u8x// `tick` ""quote"" 'q'
{
    repeat leftPad
    {Z9_, } ,} MetaData
A { // @lengthOf(
u8x
    /// triple
    charz , f64 charz `
` ,Z9_
//	t
// trailing space 
packetx
,
string int `line1
line2` ,zchar[1
] crc `{ , }`
, } packet
// trailing space 
//x
Foo{ @lengthOf( u128 )@rightPad(
    /// triple
    )// 50% %s
char[00 ]T
    @lengthOf(tag ) `tab	here`	,// @lengthOf(
}
")).
Eval vm_compute in ("<<<M1836>>>" ++ check (runes_of_ascii "
")).
Eval vm_compute in ("<<<M1868>>>" ++ check (runes_of_ascii "
")).
Eval vm_compute in ("<<<T1868>>>" ++ terms [mkTok 0 "<EOF>" 2 0 false] (mkPacket (mkPtok 0 "<EOF>" 2 0 0) None [])).
Eval vm_compute in ("<<<M1900>>>" ++ check (runes_of_ascii "options
{ o = true ;
calculatedFrom
= int32; As
=""\" ++ [233]%N ++ runes_of_ascii """; }  packet i8i8{
}root
// a // b
// `tick` ""quote"" 'q'
packet u {x_y_z{char[ 00 ] T`a\`
    // a // b
    , } ,char[]
repeatCount
    , @calculatedFrom( ""a	b"" )A { // `tick` ""quote"" 'q'
repeat zchar[
0123456789
    ] falsey , asx trueish , rootA
// `tick` ""quote"" 'q'
//	t
{char[
3 ] matchKey
/// triple
// @lengthOf(
@lengthOf( x
    ) `doc` , repeat int16
falsey `100% of %d` ,
}
, }	,
    repeat u8
    //
    u , repeat zchar
`" ++ [233]%N ++ runes_of_ascii "` , o @calculatedFrom(""\" ++ [233]%N ++ runes_of_ascii """
    )// " ++ [27880; 37322]%N ++ runes_of_ascii "
,x
    { string
    A
`say ""hi""`
,
    char[] A
    ,
f32a `line1
line2`,
} , @calculatedFrom( //	t
""`tick`"")
    uint8  matchKey , _x , @calculatedFrom( // " ++ [27880; 37322]%N ++ runes_of_ascii "
""a\\""  )
    // " ++ [128512]%N ++ runes_of_ascii " emoji
    @leftPad
(
    // a // b
    )
    zchar[ 10
    ]
body@calculatedFrom(
    ""packet"" ) `" ++ [28040; 24687; 31867; 22411]%N ++ runes_of_ascii "` ,
    } packet
    f32a {
    @leftPad ( )
uint32
string_ `doc` ,chars Logon , @calculatedFrom( """"//
) @lengthOf(
    Z9_	)
uint16 stringy , match
Logon
// packet A { u8 x, }
/// triple
as	_x{ [  10 , ""packet""]
    :
    i8i8""// no comment"" : o
    ,""" ++ [233]%N ++ runes_of_ascii "t" ++ [233]%N ++ runes_of_ascii """ :
matchKey , }
    // trailing space 
    ,
// " ++ [27880; 37322]%N ++ runes_of_ascii "
// " ++ [128512]%N ++ runes_of_ascii " emoji
} // " ++ [128512]%N ++ runes_of_ascii " emoji")).
Eval vm_compute in ("<<<M1932>>>" ++ check (runes_of_ascii "MetaData
u8x { roots uint8x, msg_type	zchar
, tag
calculatedFrom ,u64
chars `// not a comment` , char[] body , }
")).
Eval vm_compute in ("<<<M1964>>>" ++ check (runes_of_ascii "packet // trailing space 
_x {
    // " ++ [27880; 37322]%N ++ runes_of_ascii "
    calculatedFrom @lengthOf(
// " ++ [27880; 37322]%N ++ runes_of_ascii "
// c
crc ) //	t
, } packet BodyLength {@lengthOf( packetx ) uint16 MetaDataX @lengthOf( Packet ) , @rightPad( ' '
//	t
// packet A { u8 x, }
)  u8x @calculatedFrom( ""it's""
)
/// triple
// " ++ [27880; 37322]%N ++ runes_of_ascii "
,
// `tick` ""quote"" 'q'
// packet A { u8 x, }
@lengthOf(Z9_) @calculatedFrom( /// triple
""" ++ [233]%N ++ runes_of_ascii "t" ++ [233]%N ++ runes_of_ascii """  )
repeat matchKey	falsey `// not a comment`
, match u128 as charz	{[ ""\n""
    ,65535 ]
    // packet A { u8 x, }
    : i64_
// `tick` ""quote"" 'q'
// a // b
,
},@calculatedFrom(	""packet"" )repeat zchar[ 4294967296 ] f32a , @rightPad
// packet A { u8 x, }
// trailing space 
(
' ' ) string
    u @lengthOf( roots
// packet A { u8 x, }
// trailing space 
)
`u8 x,`
    ,
    @calculatedFrom( """ ++ [233]%N ++ runes_of_ascii "t" ++ [233]%N ++ runes_of_ascii """ )
@calculatedFrom(
    """"
    )  @lengthOf(
f32a ) // " ++ [27880; 37322]%N ++ runes_of_ascii "
a1 `" ++ [28040; 24687; 31867; 22411]%N ++ runes_of_ascii "` , repeat int{ calculatedFrom @lengthOf( charz ) `say ""hi""`
//x
// " ++ [128512]%N ++ runes_of_ascii " emoji
, } , i32
u //
@lengthOf( Pad
) , char Logon@calculatedFrom( // `tick` ""quote"" 'q'
""x y"" ) /// triple
, }
    // c
    packet
metadata {@rightPad ( '0' )
// a // b
// @lengthOf(
zchar tag`" ++ [28040; 24687; 31867; 22411]%N ++ runes_of_ascii "` , options1 { u64	pack `doc`, // a // b
int8
    a1
    // " ++ [27880; 37322]%N ++ runes_of_ascii "
    @lengthOf( packetx ) `100% of %d`	, float Header , repeat string_ /// triple
,
}, @leftPad ( )match stringy as calculatedFrom
    //	t
    { [
007, ""x y"" ,0123456789
,
3 ,""packet""
,  007 ]
    : // trailing space 
matchKey	,	4294967296:
roots, [
0123456789 ,65535
    ,
1 , 7]  : repeatCount , [
""a\\"" ] :charz // a // b
, [ /// triple
""x y""  ,"""", ""CRC32"" ,  1 ] : Foo,
}//
,
    // `tick` ""quote"" 'q'
    T
pack
,	@tag(4294967296 ) match x_y_z
as Packet { ""a\\"" :
Foo , }
    , }")).
Eval vm_compute in ("<<<M1996>>>" ++ check (runes_of_ascii "packet
Packet { } MetaData len {// `tick` ""quote"" 'q'
} root packet
    A
{@calculatedFrom( ""x y"")
    uint64
lengthOf @lengthOf( body // " ++ [128512]%N ++ runes_of_ascii " emoji
) `line1
line2` ,// trailing space 
} // c")).
Eval vm_compute in ("<<<M2028>>>" ++ check (runes_of_ascii "MetaData repeatCount {")).
Eval vm_compute in ("<<<M2060>>>" ++ check (runes_of_ascii "MetaData repeatCount { float64 packetx,
} root packet  metadata { {
char _x @lengthOf( trueish ), @leftPad
( ' '// " ++ [27880; 37322]%N ++ runes_of_ascii "
)/// triple
char[] len`doc` , // packet A { u8 x, }
repeatCount , }
")).
Eval vm_compute in ("<<<M2092>>>" ++ check (runes_of_ascii "MetaData repeatCount { float64 packetx,
} root packet  metadata {
char _x @lengthOf( trueish )( @leftPad
( ' '// " ++ [27880; 37322]%N ++ runes_of_ascii "
)/// triple
char[] len`doc` , // packet A { u8 x, }
repeatCount , }
")).
Eval vm_compute in ("<<<M2124>>>" ++ check (runes_of_ascii "MetaData repeatCount { float64 packetx,
} root packet  metadata {
char _x @lengthOf( trueish ), @leftPad
( ' '// " ++ [27880; 37322]%N ++ runes_of_ascii "
)/// triple
char[] len , // packet A { u8 x, }
repeatCount , }
")).
Eval vm_compute in ("<<<M2156>>>" ++ check (runes_of_ascii "MetaData repeatCount { float64 packetx,
} root packet  metadata {
char _x @lengthOf( trueish ), @leftPad
( ' '// " ++ [27880; 37322]%N ++ runes_of_ascii "
)/// triple
char[] len/`doc` , // packet A { u8 x, }
repeatCount , }
")).
Eval vm_compute in ("<<<M2188>>>" ++ check (runes_of_ascii "options{
leftPad
    @lengthOf(65535
;
a1 = true ; packetx=  '\x00' ; packetx
=  """ ++ [28040; 24687]%N ++ runes_of_ascii """MetaDataX= // " ++ [27880; 37322]%N ++ runes_of_ascii "
false }root // c
packet // packet A { u8 x, }
Pad { repeat
u8 Header
// packet A { u8 x, }
//	t
`{ , }`
// a // b
//x
, }
")).
Eval vm_compute in ("<<<M2220>>>" ++ check (runes_of_ascii "options{
leftPad
    =65535
;
a1 = true ; =  '\x00' ; packetx
=  """ ++ [28040; 24687]%N ++ runes_of_ascii """MetaDataX= // " ++ [27880; 37322]%N ++ runes_of_ascii "
false }root // c
packet // packet A { u8 x, }
Pad { repeat
u8 Header
// packet A { u8 x, }
//	t
`{ , }`
// a // b
//x
, }
")).
Eval vm_compute in ("<<<M2252>>>" ++ check (runes_of_ascii "options{
leftPad
    =65535
;
a1 = true ; packetx=  '\x00' ; packetx
=  MetaDataX""" ++ [28040; 24687]%N ++ runes_of_ascii """= // " ++ [27880; 37322]%N ++ runes_of_ascii "
false }root // c
packet // packet A { u8 x, }
Pad { repeat
u8 Header
// packet A { u8 x, }
//	t
`{ , }`
// a // b
//x
, }
")).
Eval vm_compute in ("<<<M2284>>>" ++ check (runes_of_ascii "options{
leftPad
    =65535
;
a1 = true ; packetx=  '\x00' ; packetx
=  """ ++ [28040; 24687]%N ++ runes_of_ascii """MetaDataX= // " ++ [27880; 37322]%N ++ runes_of_ascii "
false }root")).
Eval vm_compute in ("<<<M2316>>>" ++ check (runes_of_ascii "options{
leftPad
    =65535
;
a1 = true ; packetx=  '\x00' ; packetx
=  """ ++ [28040; 24687]%N ++ runes_of_ascii """MetaDataX= // " ++ [27880; 37322]%N ++ runes_of_ascii "
false }root // c
packet // packet A { u8 x, }
Pad { repeat
u8 Header
// packet A { u8 x, }
//	t
`{ , }`
// a // b
//x
, , }
")).
Eval vm_compute in ("<<<M2348>>>" ++ check (runes_of_ascii "
float packet
{	@calculatedFrom( """ ++ [233]%N ++ runes_of_ascii "t" ++ [233]%N ++ runes_of_ascii """ )
@rightPad ( '\x00' )
    @calculatedFrom( ""x y"" ) string chars  ,
    // a // b
    char[0 ]
    u	@lengthOf( i8i8 ) `{ , }` ,repeat char[] o //x
`// not a comment`, } // c")).
Eval vm_compute in ("<<<M2380>>>" ++ check (runes_of_ascii "
packet float
{	@calculatedFrom( """ ++ [233]%N ++ runes_of_ascii "t" ++ [233]%N ++ runes_of_ascii """ )")).
Eval vm_compute in ("<<<M2412>>>" ++ check (runes_of_ascii "
packet float
{	@calculatedFrom( """ ++ [233]%N ++ runes_of_ascii "t" ++ [233]%N ++ runes_of_ascii """ )
@rightPad ( '\x00' )
    @calculatedFrom( ""x y"" ) string string chars  ,
    // a // b
    char[0 ]
    u	@lengthOf( i8i8 ) `{ , }` ,repeat char[] o //x
`// not a comment`, } // c")).
Eval vm_compute in ("<<<M2444>>>" ++ check (runes_of_ascii "
packet float
{	@calculatedFrom( """ ++ [233]%N ++ runes_of_ascii "t" ++ [233]%N ++ runes_of_ascii """ )
@rightPad ( '\x00' )
    @calculatedFrom( ""x y"" ) string chars  ,
    // a // b
    char[0 ]
    zchar[	@lengthOf( i8i8 ) `{ , }` ,repeat char[] o //x
`// not a comment`, } // c")).
Eval vm_compute in ("<<<M2476>>>" ++ check (runes_of_ascii "
packet float
{	@calculatedFrom( """ ++ [233]%N ++ runes_of_ascii "t" ++ [233]%N ++ runes_of_ascii """ )
@rightPad ( '\x00' )
    @calculatedFrom( ""x y"" ) string chars  ,
    // a // b
    char[0 ]
    u	@lengthOf( i8i8 ) `{ , }` ,repeat  o //x
`// not a comment`, } // c")).
Eval vm_compute in ("<<<M2508>>>" ++ check (runes_of_ascii "
packet float
{	@calculatedFrom( """ ++ [233]%N ++ runes_of_ascii "t" ++ [233]%N ++ runes_of_ascii """ )
@rightPad ( '\""x00' )
    @calculatedFrom( ""x y"" ) string chars  ,
    // a // b
    char[0 ]
    u	@lengthOf( i8i8 ) `{ , }` ,repeat char[] o //x
`// not a comment`, } // c")).
Eval vm_compute in ("<<<M2540>>>" ++ check (runes_of_ascii "root packet u128 options
    repeat
    zchar[ 65535 ] u `" ++ [28040; 24687; 31867; 22411]%N ++ runes_of_ascii "` ,// `tick` ""quote"" 'q'
} packet i64_ {repeatCount
    `
` ,	} // " ++ [128512]%N ++ runes_of_ascii " emoji")).
Eval vm_compute in ("<<<M2572>>>" ++ check (runes_of_ascii "root packet u128{
    repeat
    zchar[ 65535 ] u `" ++ [28040; 24687; 31867; 22411]%N ++ runes_of_ascii "` // `tick` ""quote"" 'q'
} packet i64_ {repeatCount
    `
` ,	} // " ++ [128512]%N ++ runes_of_ascii " emoji")).
Eval vm_compute in ("<<<M2604>>>" ++ check (runes_of_ascii "root packet u128{
    repeat
    zchar[ 65535 ] u `" ++ [28040; 24687; 31867; 22411]%N ++ runes_of_ascii "` ,// `tick` ""quote"" 'q'
} packet i64_ {repeatCount
    , `
`	} // " ++ [128512]%N ++ runes_of_ascii " emoji")).
Eval vm_compute in ("<<<M2636>>>" ++ check (runes_of_ascii "root packet u128{
    repeat
    zchar[ 65535 ] u `" ++ [28040; 24687; 31867; 22411]%N ++ runes_of_ascii "` ,// `tick` ""quote"" 'q'
} packet " ++ [252]%N ++ runes_of_ascii "ber {repeatCount
    `
` ,	} // " ++ [128512]%N ++ runes_of_ascii " emoji")).
Eval vm_compute in ("<<<M2668>>>" ++ check (runes_of_ascii "
MetaData
roots { int8
    BodyLength ,//	t

")).
Eval vm_compute in ("<<<M2700>>>" ++ check (runes_of_ascii "options { {Packet = ""CRC32""i8i8 = false; leftPad =
    '\x00'
    // `tick` ""quote"" 'q'
    ; o=255  ;
    // packet A { u8 x, }
    }")).
Eval vm_compute in ("<<<M2732>>>" ++ check (runes_of_ascii "options {Packet = ""CRC32""i8i8 = {; leftPad =
    '\x00'
    // `tick` ""quote"" 'q'
    ; o=255  ;
    // packet A { u8 x, }
    }")).
Eval vm_compute in ("<<<M2764>>>" ++ check (runes_of_ascii "options {Packet = ""CRC32""i8i8 = false; leftPad =
    '\x00'
    // `tick` ""quote"" 'q'
    ; o 255  ;
    // packet A { u8 x, }
    }")).
Eval vm_compute in ("<<<M2796>>>" ++ check (runes_of_ascii "options " ++ [127]%N ++ runes_of_ascii "{Packet = ""CRC32""i8i8 = false; leftPad =
    '\x00'
    // `tick` ""quote"" 'q'
    ; o=255  ;
    // packet A { u8 x, }
    }")).
Eval vm_compute in ("<<<M2828>>>" ++ check (runes_of_ascii "
packet metadata { @rightPad true
    // packet A { u8 x, }
    ' ' ) repeat u32	A
,matchKey ,
    @lengthOf( string_ ) @lengthOf( body )
    // a // b
    @lengthOf(float  )	repeat
int32 u8x
    // c
    `tab	here`
, } // a // b")).
Eval vm_compute in ("<<<M2860>>>" ++ check (runes_of_ascii "
packet metadata { @rightPad (
    // packet A { u8 x, }
    ' ' ) repeat u32	A
, ,
    @lengthOf( string_ ) @lengthOf( body )
    // a // b
    @lengthOf(float  )	repeat
int32 u8x
    // c
    `tab	here`
, } // a // b")).
Eval vm_compute in ("<<<M2892>>>" ++ check (runes_of_ascii "
packet metadata { @rightPad (
    // packet A { u8 x, }
    ' ' ) repeat u32	A
,matchKey ,
    @lengthOf( string_ ) @lengthOf( ) body
    // a // b
    @lengthOf(float  )	repeat
int32 u8x
    // c
    `tab	here`
, } // a // b")).
Eval vm_compute in ("<<<M2924>>>" ++ check (runes_of_ascii "
packet metadata { @rightPad (
    // packet A { u8 x, }
    ' ' ) repeat u32	A
,matchKey ,
    @lengthOf( string_ ) @lengthOf( body )
    // a // b
    @lengthOf(float  )	repeat")).
Eval vm_compute in ("<<<M2956>>>" ++ check (runes_of_ascii "
packet metadata { @righ''tPad (
    // packet A { u8 x, }
    ' ' ) repeat u32	A
,matchKey ,
    @lengthOf( string_ ) @lengthOf( body )
    // a // b
    @lengthOf(float  )	repeat
int32 u8x
    // c
    `tab	here`
, } // a // b")).
Eval vm_compute in ("<<<M2988>>>" ++ check (runes_of_ascii "packet x{
string
, zchar //	t
}
")).
Eval vm_compute in ("<<<M3020>>>" ++ check (runes_of_ascii "packet x{
string
a" ++ [769]%N ++ runes_of_ascii "b , //	t
}
")).
Eval vm_compute in ("<<<M3052>>>" ++ check (runes_of_ascii "
MetaData Logon
{ // c
}root packet
     {
    } options
{
u
    =
    ""CRC32""
    // " ++ [128512]%N ++ runes_of_ascii " emoji
    i64_ = u16;
T =65535 x = ' '
    ; u128
= true ; }")).
Eval vm_compute in ("<<<M3084>>>" ++ check (runes_of_ascii "
MetaData Logon
{ // c
}root packet
    Pad {
    } options
{
u
    ""CRC32""
    =
    // " ++ [128512]%N ++ runes_of_ascii " emoji
    i64_ = u16;
T =65535 x = ' '
    ; u128
= true ; }")).
Eval vm_compute in ("<<<M3116>>>" ++ check (runes_of_ascii "
MetaData Logon
{ // c
}root packet
    Pad {
    } options
{
u
    =
    ""CRC32""
    // " ++ [128512]%N ++ runes_of_ascii " emoji
    i64_ = u16;")).
Eval vm_compute in ("<<<M3148>>>" ++ check (runes_of_ascii "
MetaData Logon
{ // c
}root packet
    Pad {
    } options
{
u
    =
    ""CRC32""
    // " ++ [128512]%N ++ runes_of_ascii " emoji
    i64_ = u16;
T =65535 x = ' '
    ; u128 u128
= true ; }")).
Eval vm_compute in ("<<<M3180>>>" ++ check (runes_of_ascii "
MetaData Logon
{ // c
}root packet
    Pad {
    } options
{
u
    =
    ""CRC32""
    // " ++ [128512]%N ++ runes_of_ascii " emoji
    i64_ = u16;
T =65535 x = ' '
    ; u128
= " ++ [8232]%N ++ runes_of_ascii " true ; }")).
Eval vm_compute in ("<<<M3212>>>" ++ check (runes_of_ascii "MetaData body{")).
Eval vm_compute in ("<<<M3244>>>" ++ check (runes_of_ascii "MetaData body{}
packet	Packet { x_y_z @calculatedFrom(  ""a\\"") )// `tick` ""quote"" 'q'
, }
")).
Eval vm_compute in ("<<<M3276>>>" ++ check (runes_of_ascii "MetaData " ++ [252]%N ++ runes_of_ascii "ber{}
packet	Packet { x_y_z @calculatedFrom(  ""a\\"")// `tick` ""quote"" 'q'
, }
")).
Eval vm_compute in ("<<<M3308>>>" ++ check (runes_of_ascii "packet f32a {} root")).
Eval vm_compute in ("<<<M3340>>>" ++ check (runes_of_ascii "packet f32a {} root packet len {repeat u // " ++ [128512]%N ++ runes_of_ascii " emoji
`{ , }` , } }
")).
Eval vm_compute in ("<<<M3372>>>" ++ check (runes_of_ascii "options{ _x=""\" ++ [233]%N ++ runes_of_ascii """;
    Logon = 10	; Foo= 7;
i64_= char[]} options {
matchKey = ""// no comment"" // a // b
falsey = string
; trueish =
    4294967296
options1=
    ""it's"" string_	= true } { options
    /// triple
    }")).
Eval vm_compute in ("<<<M3404>>>" ++ check (runes_of_ascii "options{ _x=""\" ++ [233]%N ++ runes_of_ascii """;
    Logon = 10	; Foo= 7;
i64_= char[]} options {
matchKey = ""// no comment"" // a // b
falsey = string
; trueish @tag(
    4294967296
options1=
    ""it's"" string_	= true } options {
    /// triple
    }")).
Eval vm_compute in ("<<<M3436>>>" ++ check (runes_of_ascii "options{ _x=""\" ++ [233]%N ++ runes_of_ascii """;
    Logon = 10	; Foo= 7;
i64_= char[]} options {
matchKey = = ""// no comment"" // a // b
falsey = string
; trueish =
    4294967296
options1=
    ""it's"" string_	= true } options {
    /// triple
    }")).
Eval vm_compute in ("<<<M3468>>>" ++ check (runes_of_ascii "options{ _x=""\" ++ [233]%N ++ runes_of_ascii """;
    Logon = 10	; Foo= 7; ;
i64_= char[]} options {
matchKey = ""// no comment"" // a // b
falsey = string
; trueish =
    4294967296
options1=
    ""it's"" string_	= true } options {
    /// triple
    }")).
Eval vm_compute in ("<<<M3500>>>" ++ check (runes_of_ascii "zchar[]")).
Eval vm_compute in ("<<<M3532>>>" ++ check (runes_of_ascii "metadata")).
Eval vm_compute in ("<<<M3564>>>" ++ check (runes_of_ascii "//")).
Eval vm_compute in ("<<<M3596>>>" ++ check (runes_of_ascii "1.5")).
Eval vm_compute in ("<<<M3628>>>" ++ check (runes_of_ascii "packet A { repeat match k as n { 1 : B }, }")).
Eval vm_compute in ("<<<M3660>>>" ++ check (runes_of_ascii "packet A { u8 x @tag(1), }")).
Eval vm_compute in ("<<<M3692>>>" ++ check (runes_of_ascii "packet A { @leftPad('0' '0') char[2] x, }")).
Eval vm_compute in ("<<<M3724>>>" ++ check (runes_of_ascii "options { }")).
Eval vm_compute in ("<<<M3756>>>" ++ check (runes_of_ascii "// only a comment")).
Eval vm_compute in ("<<<T3756>>>" ++ terms [mkTok 44 "// only a comment" 1 0 true; mkTok 0 "<EOF>" 1 17 false] (mkPacket (mkPtok 0 "<EOF>" 1 17 1) None [])).
Eval vm_compute in ("<<<M3788>>>" ++ check ([65533; 27; 65533]%N ++ runes_of_ascii "p" ++ [65533; 65533]%N ++ runes_of_ascii "W" ++ [65533]%N ++ runes_of_ascii "^82" ++ [65533; 65533]%N ++ runes_of_ascii "*jp")).
Eval vm_compute in ("<<<M3820>>>" ++ check ([65533]%N ++ runes_of_ascii "rW" ++ [65533]%N ++ runes_of_ascii "-" ++ [65533]%N ++ runes_of_ascii "Qa" ++ [28]%N ++ runes_of_ascii "k%Y}G" ++ [65533]%N ++ runes_of_ascii "7" ++ [65533; 23; 65533; 2; 65533]%N)).
Eval vm_compute in ("<<<M3852>>>" ++ check ([127]%N ++ runes_of_ascii "=" ++ [65533]%N ++ runes_of_ascii "m5d_$""][" ++ [65533; 65533; 65533]%N)).
Eval vm_compute in ("<<<M3884>>>" ++ check (runes_of_ascii "1")).
Eval vm_compute in ("<<<M3916>>>" ++ check (runes_of_ascii "P" ++ [65533; 65533]%N)).
Eval vm_compute in ("<<<M3948>>>" ++ check (runes_of_ascii "^" ++ [65533; 65533]%N ++ runes_of_ascii "us" ++ [425501]%N ++ runes_of_ascii "o" ++ [65533; 65533; 24; 65533; 65533]%N ++ runes_of_ascii "V" ++ [65533; 23]%N ++ runes_of_ascii "3bm)" ++ [18; 26; 65533]%N ++ runes_of_ascii "c~" ++ [65533; 65533; 65533]%N ++ runes_of_ascii "_" ++ [65533; 3; 65533]%N ++ runes_of_ascii "t" ++ [65533]%N ++ runes_of_ascii "^" ++ [65533; 12]%N)).
Eval vm_compute in ("<<<M3980>>>" ++ check ([65533; 65533]%N ++ runes_of_ascii "`#" ++ [65533]%N ++ runes_of_ascii "y" ++ [27; 65533; 65533; 65533]%N ++ runes_of_ascii "j54" ++ [550; 65533]%N ++ runes_of_ascii "=UB" ++ [1668; 65533; 65533; 65533]%N ++ runes_of_ascii ">" ++ [65533; 15; 26; 65533; 31]%N ++ runes_of_ascii "BFm" ++ [65533; 65533]%N ++ runes_of_ascii ">." ++ [3]%N)).
