From FP Require Import Lexer Parser ShowPT Digest.
From Coq Require Import String List NArith.
Import ListNotations.
Open Scope string_scope.
Set Printing Width 100000000.
Set Printing Depth 100000000.
Definition nl : string := String (Ascii.ascii_of_nat 10) EmptyString.
Definition model_lex (rs : list rune) : string := show_toks (lex rs).
Definition model_parse (rs : list rune) : string :=
  show_pt (match lex rs with Some ts => parse ts | None => None end).
(* coqc is slow at printing long strings: digests first (Digest.v), full texts on demand *)
Definition check (rs : list rune) : string :=
  digest (model_lex rs) ++ " " ++ digest (model_parse rs).
Definition full (rs : list rune) : string := model_lex rs ++ nl ++ model_parse rs.
Definition terms (ts : list tok) (t : pt) : string :=
  digest (show_toks (Some ts)) ++ " " ++ digest (show_pt (Some t)) ++ " " ++ digest (show_pt (parse ts)).
Definition terms_full (ts : list tok) (t : pt) : string :=
  show_toks (Some ts) ++ nl ++ show_pt (Some t) ++ nl ++ show_pt (parse ts).
Eval vm_compute in ("<<<M12>>>" ++ check (runes_of_ascii "packet
    charz //
{ @rightPad( '0')
repeat
    //x
    Packet//x
msg_type `" ++ [233]%N ++ runes_of_ascii "`	, } options {repeatCount
= false falsey  = int64
}")).
Eval vm_compute in ("<<<M44>>>" ++ check (runes_of_ascii "
packet A
{ repeat lengthOf {
len ,
    } , @tag(// trailing space 
42	) match Header
    as falsey
{ [
""" ++ [128512]%N ++ runes_of_ascii """//
, ""\n"", 4294967296 ]
    : Packet
1 :	falsey,
""\" ++ [233]%N ++ runes_of_ascii """ // " ++ [128512]%N ++ runes_of_ascii " emoji
:
    charz } , zchar[255
]
// packet A { u8 x, }
// trailing space 
rootA , repeat  char[ 10 ]// `tick` ""quote"" 'q'
f32a
// trailing space 
//x
,@calculatedFrom(  ""// no comment"") char[ 00 ]trueish@calculatedFrom(
    // " ++ [27880; 37322]%N ++ runes_of_ascii "
    ""a\""b"" )`line1
line2` ,}")).
Eval vm_compute in ("<<<M76>>>" ++ check (runes_of_ascii "root packet x	{ @calculatedFrom(""a\\"" ) zchar[42 ]float @calculatedFrom(""a\""b""  ) `
` ,
    } MetaData o
    {
int8
BodyLength,string len ,
    string len , float falsey ,T float
    , }	MetaData pack { /// triple
charz o
`// not a comment`	,	float64 f32a `tab	here`  , int32  u8x  `// not a comment` ,char[10 ]
a1
, float32 options1  ,
} // `tick` ""quote"" 'q'")).
Eval vm_compute in ("<<<T76>>>" ++ terms [mkTok 34 "root" 1 0 false; mkTok 35 "packet" 1 5 false; mkTok 42 "x" 1 12 false; mkTok 2 "{" 1 14 false; mkTok 5 "@calculatedFrom(" 1 16 false; mkTok 31 """a\\""" 1 32 false; mkTok 6 ")" 1 38 false; mkTok 14 "zchar[" 1 40 false; mkTok 30 "42" 1 46 false; mkTok 13 "]" 1 49 false; mkTok 42 "float" 1 50 false; mkTok 5 "@calculatedFrom(" 1 56 false; mkTok 31 """a\""b""" 1 72 false; mkTok 6 ")" 1 80 false; mkTok 43 (string_of_bytes [96; 10; 96]%N) 1 82 false; mkTok 40 "," 2 2 false; mkTok 3 "}" 3 4 false; mkTok 37 "MetaData" 3 6 false; mkTok 42 "o" 3 15 false; mkTok 2 "{" 4 4 false; mkTok 24 "int8" 5 0 false; mkTok 42 "BodyLength" 6 0 false; mkTok 40 "," 6 10 false; mkTok 15 "string" 6 11 false; mkTok 42 "len" 6 18 false; mkTok 40 "," 6 22 false; mkTok 15 "string" 7 4 false; mkTok 42 "len" 7 11 false; mkTok 40 "," 7 15 false; mkTok 42 "float" 7 17 false; mkTok 42 "falsey" 7 23 false; mkTok 40 "," 7 30 false; mkTok 42 "T" 7 31 false; mkTok 42 "float" 7 33 false; mkTok 40 "," 8 4 false; mkTok 3 "}" 8 6 false; mkTok 37 "MetaData" 8 8 false; mkTok 42 "pack" 8 17 false; mkTok 2 "{" 8 22 false; mkTok 44 "/// triple" 8 24 true; mkTok 42 "charz" 9 0 false; mkTok 42 "o" 9 6 false; mkTok 43 "`// not a comment`" 10 0 false; mkTok 40 "," 10 19 false; mkTok 29 "float64" 10 21 false; mkTok 42 "f32a" 10 29 false; mkTok 43 (string_of_bytes [96; 116; 97; 98; 9; 104; 101; 114; 101; 96]%N) 10 34 false; mkTok 40 "," 10 46 false; mkTok 26 "int32" 10 48 false; mkTok 42 "u8x" 10 55 false; mkTok 43 "`// not a comment`" 10 60 false; mkTok 40 "," 10 79 false; mkTok 12 "char[" 10 80 false; mkTok 30 "10" 10 85 false; mkTok 13 "]" 10 88 false; mkTok 42 "a1" 11 0 false; mkTok 40 "," 12 0 false; mkTok 28 "float32" 12 2 false; mkTok 42 "options1" 12 10 false; mkTok 40 "," 12 20 false; mkTok 3 "}" 13 0 false; mkTok 44 "// `tick` ""quote"" 'q'" 13 2 true; mkTok 0 "<EOF>" 13 23 false] (mkPacket (mkPtok 34 "root" 1 0 0) (Some (mkPtok 3 "}" 13 0 60)) [(DPacket (mkPacketDef (mkSpan (mkPtok 34 "root" 1 0 0) (mkPtok 3 "}" 3 4 16)) (Some (mkPtok 34 "root" 1 0 0)) (mkPtok 35 "packet" 1 5 1) (mkPtok 42 "x" 1 12 2) (mkPtok 2 "{" 1 14 3) [(mkFieldWithAttr (mkSpan (mkPtok 5 "@calculatedFrom(" 1 16 4) (mkPtok 40 "," 2 2 15)) [(FACalculatedFrom (mkSpan (mkPtok 5 "@calculatedFrom(" 1 16 4) (mkPtok 6 ")" 1 38 6)) (mkCalculatedFrom (mkSpan (mkPtok 5 "@calculatedFrom(" 1 16 4) (mkPtok 6 ")" 1 38 6)) (mkPtok 5 "@calculatedFrom(" 1 16 4) (mkPtok 31 """a\\""" 1 32 5) (mkPtok 6 ")" 1 38 6)))] (CheckSumField (mkSpan (mkPtok 14 "zchar[" 1 40 7) (mkPtok 40 "," 2 2 15)) (mkChecksumFieldDecl (mkSpan (mkPtok 14 "zchar[" 1 40 7) (mkPtok 40 "," 2 2 15)) (Some (TyFixed (mkSpan (mkPtok 14 "zchar[" 1 40 7) (mkPtok 13 "]" 1 49 9)) (mkFixedString (mkSpan (mkPtok 14 "zchar[" 1 40 7) (mkPtok 13 "]" 1 49 9)) (mkPtok 14 "zchar[" 1 40 7) (mkPtok 30 "42" 1 46 8) (mkPtok 13 "]" 1 49 9)))) (mkPtok 42 "float" 1 50 10) (mkCalculatedFrom (mkSpan (mkPtok 5 "@calculatedFrom(" 1 56 11) (mkPtok 6 ")" 1 80 13)) (mkPtok 5 "@calculatedFrom(" 1 56 11) (mkPtok 31 """a\""b""" 1 72 12) (mkPtok 6 ")" 1 80 13)) (Some (mkPtok 43 (string_of_bytes [96; 10; 96]%N) 1 82 14)) (mkPtok 40 "," 2 2 15))))] (mkPtok 3 "}" 3 4 16))); (DMeta (mkMetaDef (mkSpan (mkPtok 37 "MetaData" 3 6 17) (mkPtok 3 "}" 8 6 35)) (mkPtok 37 "MetaData" 3 6 17) (mkPtok 42 "o" 3 15 18) (mkPtok 2 "{" 4 4 19) [(MIDecl (mkMetaDecl (mkSpan (mkPtok 24 "int8" 5 0 20) (mkPtok 40 "," 6 10 22)) (TyBasic (mkSpan (mkPtok 24 "int8" 5 0 20) (mkPtok 24 "int8" 5 0 20)) (mkBasicType (mkSpan (mkPtok 24 "int8" 5 0 20) (mkPtok 24 "int8" 5 0 20)) (mkPtok 24 "int8" 5 0 20))) (mkPtok 42 "BodyLength" 6 0 21) None (mkPtok 40 "," 6 10 22))); (MIDecl (mkMetaDecl (mkSpan (mkPtok 15 "string" 6 11 23) (mkPtok 40 "," 6 22 25)) (TyDynamic (mkSpan (mkPtok 15 "string" 6 11 23) (mkPtok 15 "string" 6 11 23)) (mkDynamicString (mkSpan (mkPtok 15 "string" 6 11 23) (mkPtok 15 "string" 6 11 23)) (mkPtok 15 "string" 6 11 23))) (mkPtok 42 "len" 6 18 24) None (mkPtok 40 "," 6 22 25))); (MIDecl (mkMetaDecl (mkSpan (mkPtok 15 "string" 7 4 26) (mkPtok 40 "," 7 15 28)) (TyDynamic (mkSpan (mkPtok 15 "string" 7 4 26) (mkPtok 15 "string" 7 4 26)) (mkDynamicString (mkSpan (mkPtok 15 "string" 7 4 26) (mkPtok 15 "string" 7 4 26)) (mkPtok 15 "string" 7 4 26))) (mkPtok 42 "len" 7 11 27) None (mkPtok 40 "," 7 15 28))); (MIRef (mkRefMetaDecl (mkSpan (mkPtok 42 "float" 7 17 29) (mkPtok 40 "," 7 30 31)) (mkPtok 42 "float" 7 17 29) (mkPtok 42 "falsey" 7 23 30) None (mkPtok 40 "," 7 30 31))); (MIRef (mkRefMetaDecl (mkSpan (mkPtok 42 "T" 7 31 32) (mkPtok 40 "," 8 4 34)) (mkPtok 42 "T" 7 31 32) (mkPtok 42 "float" 7 33 33) None (mkPtok 40 "," 8 4 34)))] (mkPtok 3 "}" 8 6 35))); (DMeta (mkMetaDef (mkSpan (mkPtok 37 "MetaData" 8 8 36) (mkPtok 3 "}" 13 0 60)) (mkPtok 37 "MetaData" 8 8 36) (mkPtok 42 "pack" 8 17 37) (mkPtok 2 "{" 8 22 38) [(MIRef (mkRefMetaDecl (mkSpan (mkPtok 42 "charz" 9 0 40) (mkPtok 40 "," 10 19 43)) (mkPtok 42 "charz" 9 0 40) (mkPtok 42 "o" 9 6 41) (Some (mkPtok 43 "`// not a comment`" 10 0 42)) (mkPtok 40 "," 10 19 43))); (MIDecl (mkMetaDecl (mkSpan (mkPtok 29 "float64" 10 21 44) (mkPtok 40 "," 10 46 47)) (TyBasic (mkSpan (mkPtok 29 "float64" 10 21 44) (mkPtok 29 "float64" 10 21 44)) (mkBasicType (mkSpan (mkPtok 29 "float64" 10 21 44) (mkPtok 29 "float64" 10 21 44)) (mkPtok 29 "float64" 10 21 44))) (mkPtok 42 "f32a" 10 29 45) (Some (mkPtok 43 (string_of_bytes [96; 116; 97; 98; 9; 104; 101; 114; 101; 96]%N) 10 34 46)) (mkPtok 40 "," 10 46 47))); (MIDecl (mkMetaDecl (mkSpan (mkPtok 26 "int32" 10 48 48) (mkPtok 40 "," 10 79 51)) (TyBasic (mkSpan (mkPtok 26 "int32" 10 48 48) (mkPtok 26 "int32" 10 48 48)) (mkBasicType (mkSpan (mkPtok 26 "int32" 10 48 48) (mkPtok 26 "int32" 10 48 48)) (mkPtok 26 "int32" 10 48 48))) (mkPtok 42 "u8x" 10 55 49) (Some (mkPtok 43 "`// not a comment`" 10 60 50)) (mkPtok 40 "," 10 79 51))); (MIDecl (mkMetaDecl (mkSpan (mkPtok 12 "char[" 10 80 52) (mkPtok 40 "," 12 0 56)) (TyFixed (mkSpan (mkPtok 12 "char[" 10 80 52) (mkPtok 13 "]" 10 88 54)) (mkFixedString (mkSpan (mkPtok 12 "char[" 10 80 52) (mkPtok 13 "]" 10 88 54)) (mkPtok 12 "char[" 10 80 52) (mkPtok 30 "10" 10 85 53) (mkPtok 13 "]" 10 88 54))) (mkPtok 42 "a1" 11 0 55) None (mkPtok 40 "," 12 0 56))); (MIDecl (mkMetaDecl (mkSpan (mkPtok 28 "float32" 12 2 57) (mkPtok 40 "," 12 20 59)) (TyBasic (mkSpan (mkPtok 28 "float32" 12 2 57) (mkPtok 28 "float32" 12 2 57)) (mkBasicType (mkSpan (mkPtok 28 "float32" 12 2 57) (mkPtok 28 "float32" 12 2 57)) (mkPtok 28 "float32" 12 2 57))) (mkPtok 42 "options1" 12 10 58) None (mkPtok 40 "," 12 20 59)))] (mkPtok 3 "}" 13 0 60)))])).
Eval vm_compute in ("<<<M108>>>" ++ check (runes_of_ascii "/// triple
options  { Header = 65535
    ; calculatedFrom =
""x y"" trueish = true i8i8 = false metadata // trailing space 
=	""" ++ [28040; 24687]%N ++ runes_of_ascii """ ;
}
")).
Eval vm_compute in ("<<<M140>>>" ++ check (runes_of_ascii "packet As { options1
    { i16 o , } , i64 roots ,repeat char[] o
    `a\` , @calculatedFrom( ""1""//x
)  repeatCount	@lengthOf(/// triple
falsey /// triple
)
// packet A { u8 x, }
// " ++ [128512]%N ++ runes_of_ascii " emoji
`a\` ,
@lengthOf( stringy ) char[]	As
`" ++ [233]%N ++ runes_of_ascii "` ,
asx {match msg_type as
chars { //	t
00: metadata
    // `tick` ""quote"" 'q'
    , }
    , i8 pack// c
@calculatedFrom(
    /// triple
    ""x y"" )
// trailing space 
// a // b
,//	t
match u8x as	rootA{
""1"": a1
, [
    // packet A { u8 x, }
    4294967296 ]
:msg_type
//
//x
,
}
, } // a // b
, @calculatedFrom(
""" ++ [233]%N ++ runes_of_ascii "t" ++ [233]%N ++ runes_of_ascii """ ) int16 roots ,
    @tag(1 )	@leftPad ( '0' ) @rightPad // " ++ [27880; 37322]%N ++ runes_of_ascii "
( '\x00'
)i32 asx `tab	here`	,char Logon `u8 x,` // trailing space 
,  }
root	packet string_ {// @lengthOf(
}packet Z9_ { int8 _x
, repeat u8 uint8x `" ++ [233]%N ++ runes_of_ascii "`
,
float64 x_y_z @calculatedFrom(	""x y"" )
    , @calculatedFrom(	""a\""b"" ) @calculatedFrom( ""a\""b"" )
    int
{zchar[255
] //
msg_type,  i64_
    // trailing space 
    {
    stringy @lengthOf(x_y_z )
    , u
    options1
    //
    `tab	here` ,
char[0123456789 ] msg_type ,float32
    Foo `{ , }`
    , } , } ,  @tag(	0
)
    @calculatedFrom( ""CRC32"" ) charz , @tag(
    // @lengthOf(
    4294967296 )
i64 packetx ,  } //	t")).
Eval vm_compute in ("<<<M172>>>" ++ check (runes_of_ascii "packet x
{ @lengthOf( x_y_z )
BodyLength tag // c
,}
")).
Eval vm_compute in ("<<<M204>>>" ++ check (runes_of_ascii "packet	zchar { char[]  i64_,
    // " ++ [128512]%N ++ runes_of_ascii " emoji
    @calculatedFrom(	""// no comment"" ) match charz
    as tag
{ [""it's""
, 4294967296
    ,/// triple
""a	b""
    , """ ++ [28040; 24687]%N ++ runes_of_ascii """
,""" ++ [128512]%N ++ runes_of_ascii """
    ,  255 ,007 ] // packet A { u8 x, }
: i64_
, [	0123456789 ,3
, 00 ]: // `tick` ""quote"" 'q'
Packet , [ """ ++ [233]%N ++ runes_of_ascii "t" ++ [233]%N ++ runes_of_ascii """ ]
:a1 ,	}
,
    }
")).
Eval vm_compute in ("<<<M236>>>" ++ check (runes_of_ascii "
root packet
rootA { } root packet
// a // b
// trailing space 
_x // " ++ [27880; 37322]%N ++ runes_of_ascii "
{
    i64_, // a // b
} MetaData options1{ // `tick` ""quote"" 'q'
a1 float `crlf
line`
,
    u8x
falsey // " ++ [128512]%N ++ runes_of_ascii " emoji
`" ++ [233]%N ++ runes_of_ascii "`,
f32a MetaDataX,int64 u8x, } packet f32a {}
")).
Eval vm_compute in ("<<<M268>>>" ++ check (runes_of_ascii "
packet leftPad
    {}	packet u{@leftPad
( ' ' )
    char[65535 ]leftPad, int8
packetx ,
string stringy `crlf
line` ,@leftPad
( // @lengthOf(
' ' // " ++ [27880; 37322]%N ++ runes_of_ascii "
) // " ++ [128512]%N ++ runes_of_ascii " emoji
i64 x
@lengthOf( u )
    `" ++ [28040; 24687; 31867; 22411]%N ++ runes_of_ascii "`	,@lengthOf( pack )
// a // b
//
u64 asx  @lengthOf( repeatCount )
    `u8 x,` , o A ,}	root packet charz{
char[]repeatCount
    //x
    @lengthOf( tag ) ``
,
    repeat pack	`a\` , @calculatedFrom( ""// no comment""
    //x
    ) T { string rootA // " ++ [27880; 37322]%N ++ runes_of_ascii "
@calculatedFrom(""{,}"" )  ,
    }, repeat As
    Foo
, char[
3] trueish ,@calculatedFrom(""""
    )@lengthOf(
metadata)@leftPad ('0'
/// triple
//x
) repeat u64 float `{ , }`
// " ++ [27880; 37322]%N ++ runes_of_ascii "
// " ++ [128512]%N ++ runes_of_ascii " emoji
, stringy {
// packet A { u8 x, }
// c
metadata
    { u8 f32a `two words` , repeat  char[ 007 ] f32a
`
` ,
    } ,  u32 asx @calculatedFrom(""" ++ [233]%N ++ runes_of_ascii "t" ++ [233]%N ++ runes_of_ascii """
) ,float64 i8i8 ,//x
} ,
// c
// " ++ [27880; 37322]%N ++ runes_of_ascii "
match lengthOf as zchar
    /// triple
    {
    00 :o,  } , }")).
Eval vm_compute in ("<<<M300>>>" ++ check (runes_of_ascii " //	t")).
Eval vm_compute in ("<<<T300>>>" ++ terms [mkTok 44 (string_of_bytes [47; 47; 9; 116]%N) 1 1 true; mkTok 0 "<EOF>" 1 5 false] (mkPacket (mkPtok 0 "<EOF>" 1 5 1) None [])).
Eval vm_compute in ("<<<M332>>>" ++ check (runes_of_ascii "packet
crc { @lengthOf( falsey )Packet /// triple
`crlf
line`
    // trailing space 
    ,
}
")).
Eval vm_compute in ("<<<M364>>>" ++ check (@nil rune)).
Eval vm_compute in ("<<<M396>>>" ++ check (runes_of_ascii "
")).
Eval vm_compute in ("<<<M428>>>" ++ check (runes_of_ascii "packet body {  @leftPad (
    ) zchar[
0 ] metadata , chars {
repeat
    // " ++ [128512]%N ++ runes_of_ascii " emoji
    u8 string_,
string options1
    @calculatedFrom( """ ++ [28040; 24687]%N ++ runes_of_ascii """
    ) , },}")).
Eval vm_compute in ("<<<M460>>>" ++ check (runes_of_ascii "packet
rootA {@lengthOf(	A ) @leftPad (
    '0' )@lengthOf( _x ) char[ 0
]
// `tick` ""quote"" 'q'
// a // b
len , } root packet
    _x
{ @lengthOf( MetaDataX
) u16 x
`say ""hi""` , match
    string_ as Foo{ 42  :
string_
    ,
00: T , },char[]
trueish ,repeat calculatedFrom // c
x_y_z , // a // b
}")).
Eval vm_compute in ("<<<M492>>>" ++ check (runes_of_ascii "packet chars { i64 pack , }
")).
Eval vm_compute in ("<<<M524>>>" ++ check (runes_of_ascii "packet roots { } root packet metadata{ repeat //	t
float32 int ,	_x @lengthOf(
    packetx //
) `
` , repeat Packet Header
, @tag( 0 // trailing space 
)/// triple
float32 msg_type
    @calculatedFrom(
""\" ++ [233]%N ++ runes_of_ascii """// a // b
)  , char[
0 ] BodyLength , len
@calculatedFrom(	""" ++ [28040; 24687]%N ++ runes_of_ascii """ ) // trailing space 
`tab	here` ,	}
root packet calculatedFrom
{ @rightPad ( ' '
)
    tag
@calculatedFrom(""// no comment"")
    // " ++ [27880; 37322]%N ++ runes_of_ascii "
    , crc @calculatedFrom(""\" ++ [233]%N ++ runes_of_ascii """ ), @lengthOf( u128
// a // b
//x
) @lengthOf(
chars)
repeat
    lengthOf`tab	here` // a // b
, @tag( 007)
    char[]
    roots , @calculatedFrom(""" ++ [233]%N ++ runes_of_ascii "t" ++ [233]%N ++ runes_of_ascii """ ) repeat zchar[ 0 ] chars `crlf
line`  , // `tick` ""quote"" 'q'
@calculatedFrom(""a\\"" )	options1 ,
    // " ++ [27880; 37322]%N ++ runes_of_ascii "
    @rightPad ( // " ++ [27880; 37322]%N ++ runes_of_ascii "
)
    Z9_ { float32 x_y_z @lengthOf( asx // @lengthOf(
)
    , repeat float32 asx , f32 zchar
`" ++ [28040; 24687; 31867; 22411]%N ++ runes_of_ascii "`
    , char[ 007 ] Packet
`a\`
,
} ,
}")).
Eval vm_compute in ("<<<T524>>>" ++ terms [mkTok 35 "packet" 1 0 false; mkTok 42 "roots" 1 7 false; mkTok 2 "{" 1 13 false; mkTok 3 "}" 1 15 false; mkTok 34 "root" 1 17 false; mkTok 35 "packet" 1 22 false; mkTok 42 "metadata" 1 29 false; mkTok 2 "{" 1 37 false; mkTok 36 "repeat" 1 39 false; mkTok 44 (string_of_bytes [47; 47; 9; 116]%N) 1 46 true; mkTok 28 "float32" 2 0 false; mkTok 42 "int" 2 8 false; mkTok 40 "," 2 12 false; mkTok 42 "_x" 2 14 false; mkTok 7 "@lengthOf(" 2 17 false; mkTok 42 "packetx" 3 4 false; mkTok 44 "//" 3 12 true; mkTok 6 ")" 4 0 false; mkTok 43 (string_of_bytes [96; 10; 96]%N) 4 2 false; mkTok 40 "," 5 2 false; mkTok 36 "repeat" 5 4 false; mkTok 42 "Packet" 5 11 false; mkTok 42 "Header" 5 18 false; mkTok 40 "," 6 0 false; mkTok 9 "@tag(" 6 2 false; mkTok 30 "0" 6 8 false; mkTok 44 "// trailing space " 6 10 true; mkTok 6 ")" 7 0 false; mkTok 44 "/// triple" 7 1 true; mkTok 28 "float32" 8 0 false; mkTok 42 "msg_type" 8 8 false; mkTok 5 "@calculatedFrom(" 9 4 false; mkTok 31 (string_of_bytes [34; 92; 195; 169; 34]%N) 10 0 false; mkTok 44 "// a // b" 10 4 true; mkTok 6 ")" 11 0 false; mkTok 40 "," 11 3 false; mkTok 12 "char[" 11 5 false; mkTok 30 "0" 12 0 false; mkTok 13 "]" 12 2 false; mkTok 42 "BodyLength" 12 4 false; mkTok 40 "," 12 15 false; mkTok 42 "len" 12 17 false; mkTok 5 "@calculatedFrom(" 13 0 false; mkTok 31 (string_of_bytes [34; 230; 182; 136; 230; 129; 175; 34]%N) 13 17 false; mkTok 6 ")" 13 22 false; mkTok 44 "// trailing space " 13 24 true; mkTok 43 (string_of_bytes [96; 116; 97; 98; 9; 104; 101; 114; 101; 96]%N) 14 0 false; mkTok 40 "," 14 11 false; mkTok 3 "}" 14 13 false; mkTok 34 "root" 15 0 false; mkTok 35 "packet" 15 5 false; mkTok 42 "calculatedFrom" 15 12 false; mkTok 2 "{" 16 0 false; mkTok 32 "@rightPad" 16 2 false; mkTok 8 "(" 16 12 false; mkTok 33 "' '" 16 14 false; mkTok 6 ")" 17 0 false; mkTok 42 "tag" 18 4 false; mkTok 5 "@calculatedFrom(" 19 0 false; mkTok 31 """// no comment""" 19 16 false; mkTok 6 ")" 19 31 false; mkTok 44 (string_of_bytes [47; 47; 32; 230; 179; 168; 233; 135; 138]%N) 20 4 true; mkTok 40 "," 21 4 false; mkTok 42 "crc" 21 6 false; mkTok 5 "@calculatedFrom(" 21 10 false; mkTok 31 (string_of_bytes [34; 92; 195; 169; 34]%N) 21 26 false; mkTok 6 ")" 21 31 false; mkTok 40 "," 21 32 false; mkTok 7 "@lengthOf(" 21 34 false; mkTok 42 "u128" 21 45 false; mkTok 44 "// a // b" 22 0 true; mkTok 44 "//x" 23 0 true; mkTok 6 ")" 24 0 false; mkTok 7 "@lengthOf(" 24 2 false; mkTok 42 "chars" 25 0 false; mkTok 6 ")" 25 5 false; mkTok 36 "repeat" 26 0 false; mkTok 42 "lengthOf" 27 4 false; mkTok 43 (string_of_bytes [96; 116; 97; 98; 9; 104; 101; 114; 101; 96]%N) 27 12 false; mkTok 44 "// a // b" 27 23 true; mkTok 40 "," 28 0 false; mkTok 9 "@tag(" 28 2 false; mkTok 30 "007" 28 8 false; mkTok 6 ")" 28 11 false; mkTok 16 "char[]" 29 4 false; mkTok 42 "roots" 30 4 false; mkTok 40 "," 30 10 false; mkTok 5 "@calculatedFrom(" 30 12 false; mkTok 31 (string_of_bytes [34; 195; 169; 116; 195; 169; 34]%N) 30 28 false; mkTok 6 ")" 30 34 false; mkTok 36 "repeat" 30 36 false; mkTok 14 "zchar[" 30 43 false; mkTok 30 "0" 30 50 false; mkTok 13 "]" 30 52 false; mkTok 42 "chars" 30 54 false; mkTok 43 (string_of_bytes [96; 99; 114; 108; 102; 13; 10; 108; 105; 110; 101; 96]%N) 30 60 false; mkTok 40 "," 31 7 false; mkTok 44 "// `tick` ""quote"" 'q'" 31 9 true; mkTok 5 "@calculatedFrom(" 32 0 false; mkTok 31 """a\\""" 32 16 false; mkTok 6 ")" 32 22 false; mkTok 42 "options1" 32 24 false; mkTok 40 "," 32 33 false; mkTok 44 (string_of_bytes [47; 47; 32; 230; 179; 168; 233; 135; 138]%N) 33 4 true; mkTok 32 "@rightPad" 34 4 false; mkTok 8 "(" 34 14 false; mkTok 44 (string_of_bytes [47; 47; 32; 230; 179; 168; 233; 135; 138]%N) 34 16 true; mkTok 6 ")" 35 0 false; mkTok 42 "Z9_" 36 4 false; mkTok 2 "{" 36 8 false; mkTok 28 "float32" 36 10 false; mkTok 42 "x_y_z" 36 18 false; mkTok 7 "@lengthOf(" 36 24 false; mkTok 42 "asx" 36 35 false; mkTok 44 "// @lengthOf(" 36 39 true; mkTok 6 ")" 37 0 false; mkTok 40 "," 38 4 false; mkTok 36 "repeat" 38 6 false; mkTok 28 "float32" 38 13 false; mkTok 42 "asx" 38 21 false; mkTok 40 "," 38 25 false; mkTok 28 "f32" 38 27 false; mkTok 42 "zchar" 38 31 false; mkTok 43 (string_of_bytes [96; 230; 182; 136; 230; 129; 175; 231; 177; 187; 229; 158; 139; 96]%N) 39 0 false; mkTok 40 "," 40 4 false; mkTok 12 "char[" 40 6 false; mkTok 30 "007" 40 12 false; mkTok 13 "]" 40 16 false; mkTok 42 "Packet" 40 18 false; mkTok 43 "`a\`" 41 0 false; mkTok 40 "," 42 0 false; mkTok 3 "}" 43 0 false; mkTok 40 "," 43 2 false; mkTok 3 "}" 44 0 false; mkTok 0 "<EOF>" 44 1 false] (mkPacket (mkPtok 35 "packet" 1 0 0) (Some (mkPtok 3 "}" 44 0 133)) [(DPacket (mkPacketDef (mkSpan (mkPtok 35 "packet" 1 0 0) (mkPtok 3 "}" 1 15 3)) None (mkPtok 35 "packet" 1 0 0) (mkPtok 42 "roots" 1 7 1) (mkPtok 2 "{" 1 13 2) [] (mkPtok 3 "}" 1 15 3))); (DPacket (mkPacketDef (mkSpan (mkPtok 34 "root" 1 17 4) (mkPtok 3 "}" 14 13 48)) (Some (mkPtok 34 "root" 1 17 4)) (mkPtok 35 "packet" 1 22 5) (mkPtok 42 "metadata" 1 29 6) (mkPtok 2 "{" 1 37 7) [(mkFieldWithAttr (mkSpan (mkPtok 36 "repeat" 1 39 8) (mkPtok 40 "," 2 12 12)) [] (MetaField (mkSpan (mkPtok 36 "repeat" 1 39 8) (mkPtok 40 "," 2 12 12)) (Some (mkPtok 36 "repeat" 1 39 8)) (mkMetaDecl (mkSpan (mkPtok 28 "float32" 2 0 10) (mkPtok 40 "," 2 12 12)) (TyBasic (mkSpan (mkPtok 28 "float32" 2 0 10) (mkPtok 28 "float32" 2 0 10)) (mkBasicType (mkSpan (mkPtok 28 "float32" 2 0 10) (mkPtok 28 "float32" 2 0 10)) (mkPtok 28 "float32" 2 0 10))) (mkPtok 42 "int" 2 8 11) None (mkPtok 40 "," 2 12 12)))); (mkFieldWithAttr (mkSpan (mkPtok 42 "_x" 2 14 13) (mkPtok 40 "," 5 2 19)) [] (LengthField (mkSpan (mkPtok 42 "_x" 2 14 13) (mkPtok 40 "," 5 2 19)) (mkLengthFieldDecl (mkSpan (mkPtok 42 "_x" 2 14 13) (mkPtok 40 "," 5 2 19)) None (mkPtok 42 "_x" 2 14 13) (mkLengthOf (mkSpan (mkPtok 7 "@lengthOf(" 2 17 14) (mkPtok 6 ")" 4 0 17)) (mkPtok 7 "@lengthOf(" 2 17 14) (mkPtok 42 "packetx" 3 4 15) (mkPtok 6 ")" 4 0 17)) (Some (mkPtok 43 (string_of_bytes [96; 10; 96]%N) 4 2 18)) (mkPtok 40 "," 5 2 19)))); (mkFieldWithAttr (mkSpan (mkPtok 36 "repeat" 5 4 20) (mkPtok 40 "," 6 0 23)) [] (ObjectField (mkSpan (mkPtok 36 "repeat" 5 4 20) (mkPtok 40 "," 6 0 23)) (Some (mkPtok 36 "repeat" 5 4 20)) (mkPtok 42 "Packet" 5 11 21) (Some (mkPtok 42 "Header" 5 18 22)) None (mkPtok 40 "," 6 0 23))); (mkFieldWithAttr (mkSpan (mkPtok 9 "@tag(" 6 2 24) (mkPtok 40 "," 11 3 35)) [(FATag (mkSpan (mkPtok 9 "@tag(" 6 2 24) (mkPtok 6 ")" 7 0 27)) (mkTagAttr (mkSpan (mkPtok 9 "@tag(" 6 2 24) (mkPtok 6 ")" 7 0 27)) (mkPtok 9 "@tag(" 6 2 24) (mkPtok 30 "0" 6 8 25) (mkPtok 6 ")" 7 0 27)))] (CheckSumField (mkSpan (mkPtok 28 "float32" 8 0 29) (mkPtok 40 "," 11 3 35)) (mkChecksumFieldDecl (mkSpan (mkPtok 28 "float32" 8 0 29) (mkPtok 40 "," 11 3 35)) (Some (TyBasic (mkSpan (mkPtok 28 "float32" 8 0 29) (mkPtok 28 "float32" 8 0 29)) (mkBasicType (mkSpan (mkPtok 28 "float32" 8 0 29) (mkPtok 28 "float32" 8 0 29)) (mkPtok 28 "float32" 8 0 29)))) (mkPtok 42 "msg_type" 8 8 30) (mkCalculatedFrom (mkSpan (mkPtok 5 "@calculatedFrom(" 9 4 31) (mkPtok 6 ")" 11 0 34)) (mkPtok 5 "@calculatedFrom(" 9 4 31) (mkPtok 31 (string_of_bytes [34; 92; 195; 169; 34]%N) 10 0 32) (mkPtok 6 ")" 11 0 34)) None (mkPtok 40 "," 11 3 35)))); (mkFieldWithAttr (mkSpan (mkPtok 12 "char[" 11 5 36) (mkPtok 40 "," 12 15 40)) [] (MetaField (mkSpan (mkPtok 12 "char[" 11 5 36) (mkPtok 40 "," 12 15 40)) None (mkMetaDecl (mkSpan (mkPtok 12 "char[" 11 5 36) (mkPtok 40 "," 12 15 40)) (TyFixed (mkSpan (mkPtok 12 "char[" 11 5 36) (mkPtok 13 "]" 12 2 38)) (mkFixedString (mkSpan (mkPtok 12 "char[" 11 5 36) (mkPtok 13 "]" 12 2 38)) (mkPtok 12 "char[" 11 5 36) (mkPtok 30 "0" 12 0 37) (mkPtok 13 "]" 12 2 38))) (mkPtok 42 "BodyLength" 12 4 39) None (mkPtok 40 "," 12 15 40)))); (mkFieldWithAttr (mkSpan (mkPtok 42 "len" 12 17 41) (mkPtok 40 "," 14 11 47)) [] (CheckSumField (mkSpan (mkPtok 42 "len" 12 17 41) (mkPtok 40 "," 14 11 47)) (mkChecksumFieldDecl (mkSpan (mkPtok 42 "len" 12 17 41) (mkPtok 40 "," 14 11 47)) None (mkPtok 42 "len" 12 17 41) (mkCalculatedFrom (mkSpan (mkPtok 5 "@calculatedFrom(" 13 0 42) (mkPtok 6 ")" 13 22 44)) (mkPtok 5 "@calculatedFrom(" 13 0 42) (mkPtok 31 (string_of_bytes [34; 230; 182; 136; 230; 129; 175; 34]%N) 13 17 43) (mkPtok 6 ")" 13 22 44)) (Some (mkPtok 43 (string_of_bytes [96; 116; 97; 98; 9; 104; 101; 114; 101; 96]%N) 14 0 46)) (mkPtok 40 "," 14 11 47))))] (mkPtok 3 "}" 14 13 48))); (DPacket (mkPacketDef (mkSpan (mkPtok 34 "root" 15 0 49) (mkPtok 3 "}" 44 0 133)) (Some (mkPtok 34 "root" 15 0 49)) (mkPtok 35 "packet" 15 5 50) (mkPtok 42 "calculatedFrom" 15 12 51) (mkPtok 2 "{" 16 0 52) [(mkFieldWithAttr (mkSpan (mkPtok 32 "@rightPad" 16 2 53) (mkPtok 40 "," 21 4 62)) [(FAPadding (mkSpan (mkPtok 32 "@rightPad" 16 2 53) (mkPtok 6 ")" 17 0 56)) (mkPaddingAttr (mkSpan (mkPtok 32 "@rightPad" 16 2 53) (mkPtok 6 ")" 17 0 56)) (mkPtok 32 "@rightPad" 16 2 53) (mkPtok 8 "(" 16 12 54) (Some (mkPtok 33 "' '" 16 14 55)) (mkPtok 6 ")" 17 0 56)))] (CheckSumField (mkSpan (mkPtok 42 "tag" 18 4 57) (mkPtok 40 "," 21 4 62)) (mkChecksumFieldDecl (mkSpan (mkPtok 42 "tag" 18 4 57) (mkPtok 40 "," 21 4 62)) None (mkPtok 42 "tag" 18 4 57) (mkCalculatedFrom (mkSpan (mkPtok 5 "@calculatedFrom(" 19 0 58) (mkPtok 6 ")" 19 31 60)) (mkPtok 5 "@calculatedFrom(" 19 0 58) (mkPtok 31 """// no comment""" 19 16 59) (mkPtok 6 ")" 19 31 60)) None (mkPtok 40 "," 21 4 62)))); (mkFieldWithAttr (mkSpan (mkPtok 42 "crc" 21 6 63) (mkPtok 40 "," 21 32 67)) [] (CheckSumField (mkSpan (mkPtok 42 "crc" 21 6 63) (mkPtok 40 "," 21 32 67)) (mkChecksumFieldDecl (mkSpan (mkPtok 42 "crc" 21 6 63) (mkPtok 40 "," 21 32 67)) None (mkPtok 42 "crc" 21 6 63) (mkCalculatedFrom (mkSpan (mkPtok 5 "@calculatedFrom(" 21 10 64) (mkPtok 6 ")" 21 31 66)) (mkPtok 5 "@calculatedFrom(" 21 10 64) (mkPtok 31 (string_of_bytes [34; 92; 195; 169; 34]%N) 21 26 65) (mkPtok 6 ")" 21 31 66)) None (mkPtok 40 "," 21 32 67)))); (mkFieldWithAttr (mkSpan (mkPtok 7 "@lengthOf(" 21 34 68) (mkPtok 40 "," 28 0 80)) [(FALengthOf (mkSpan (mkPtok 7 "@lengthOf(" 21 34 68) (mkPtok 6 ")" 24 0 72)) (mkLengthOf (mkSpan (mkPtok 7 "@lengthOf(" 21 34 68) (mkPtok 6 ")" 24 0 72)) (mkPtok 7 "@lengthOf(" 21 34 68) (mkPtok 42 "u128" 21 45 69) (mkPtok 6 ")" 24 0 72))); (FALengthOf (mkSpan (mkPtok 7 "@lengthOf(" 24 2 73) (mkPtok 6 ")" 25 5 75)) (mkLengthOf (mkSpan (mkPtok 7 "@lengthOf(" 24 2 73) (mkPtok 6 ")" 25 5 75)) (mkPtok 7 "@lengthOf(" 24 2 73) (mkPtok 42 "chars" 25 0 74) (mkPtok 6 ")" 25 5 75)))] (ObjectField (mkSpan (mkPtok 36 "repeat" 26 0 76) (mkPtok 40 "," 28 0 80)) (Some (mkPtok 36 "repeat" 26 0 76)) (mkPtok 42 "lengthOf" 27 4 77) None (Some (mkPtok 43 (string_of_bytes [96; 116; 97; 98; 9; 104; 101; 114; 101; 96]%N) 27 12 78)) (mkPtok 40 "," 28 0 80))); (mkFieldWithAttr (mkSpan (mkPtok 9 "@tag(" 28 2 81) (mkPtok 40 "," 30 10 86)) [(FATag (mkSpan (mkPtok 9 "@tag(" 28 2 81) (mkPtok 6 ")" 28 11 83)) (mkTagAttr (mkSpan (mkPtok 9 "@tag(" 28 2 81) (mkPtok 6 ")" 28 11 83)) (mkPtok 9 "@tag(" 28 2 81) (mkPtok 30 "007" 28 8 82) (mkPtok 6 ")" 28 11 83)))] (MetaField (mkSpan (mkPtok 16 "char[]" 29 4 84) (mkPtok 40 "," 30 10 86)) None (mkMetaDecl (mkSpan (mkPtok 16 "char[]" 29 4 84) (mkPtok 40 "," 30 10 86)) (TyDynamic (mkSpan (mkPtok 16 "char[]" 29 4 84) (mkPtok 16 "char[]" 29 4 84)) (mkDynamicString (mkSpan (mkPtok 16 "char[]" 29 4 84) (mkPtok 16 "char[]" 29 4 84)) (mkPtok 16 "char[]" 29 4 84))) (mkPtok 42 "roots" 30 4 85) None (mkPtok 40 "," 30 10 86)))); (mkFieldWithAttr (mkSpan (mkPtok 5 "@calculatedFrom(" 30 12 87) (mkPtok 40 "," 31 7 96)) [(FACalculatedFrom (mkSpan (mkPtok 5 "@calculatedFrom(" 30 12 87) (mkPtok 6 ")" 30 34 89)) (mkCalculatedFrom (mkSpan (mkPtok 5 "@calculatedFrom(" 30 12 87) (mkPtok 6 ")" 30 34 89)) (mkPtok 5 "@calculatedFrom(" 30 12 87) (mkPtok 31 (string_of_bytes [34; 195; 169; 116; 195; 169; 34]%N) 30 28 88) (mkPtok 6 ")" 30 34 89)))] (MetaField (mkSpan (mkPtok 36 "repeat" 30 36 90) (mkPtok 40 "," 31 7 96)) (Some (mkPtok 36 "repeat" 30 36 90)) (mkMetaDecl (mkSpan (mkPtok 14 "zchar[" 30 43 91) (mkPtok 40 "," 31 7 96)) (TyFixed (mkSpan (mkPtok 14 "zchar[" 30 43 91) (mkPtok 13 "]" 30 52 93)) (mkFixedString (mkSpan (mkPtok 14 "zchar[" 30 43 91) (mkPtok 13 "]" 30 52 93)) (mkPtok 14 "zchar[" 30 43 91) (mkPtok 30 "0" 30 50 92) (mkPtok 13 "]" 30 52 93))) (mkPtok 42 "chars" 30 54 94) (Some (mkPtok 43 (string_of_bytes [96; 99; 114; 108; 102; 13; 10; 108; 105; 110; 101; 96]%N) 30 60 95)) (mkPtok 40 "," 31 7 96)))); (mkFieldWithAttr (mkSpan (mkPtok 5 "@calculatedFrom(" 32 0 98) (mkPtok 40 "," 32 33 102)) [(FACalculatedFrom (mkSpan (mkPtok 5 "@calculatedFrom(" 32 0 98) (mkPtok 6 ")" 32 22 100)) (mkCalculatedFrom (mkSpan (mkPtok 5 "@calculatedFrom(" 32 0 98) (mkPtok 6 ")" 32 22 100)) (mkPtok 5 "@calculatedFrom(" 32 0 98) (mkPtok 31 """a\\""" 32 16 99) (mkPtok 6 ")" 32 22 100)))] (ObjectField (mkSpan (mkPtok 42 "options1" 32 24 101) (mkPtok 40 "," 32 33 102)) None (mkPtok 42 "options1" 32 24 101) None None (mkPtok 40 "," 32 33 102))); (mkFieldWithAttr (mkSpan (mkPtok 32 "@rightPad" 34 4 104) (mkPtok 40 "," 43 2 132)) [(FAPadding (mkSpan (mkPtok 32 "@rightPad" 34 4 104) (mkPtok 6 ")" 35 0 107)) (mkPaddingAttr (mkSpan (mkPtok 32 "@rightPad" 34 4 104) (mkPtok 6 ")" 35 0 107)) (mkPtok 32 "@rightPad" 34 4 104) (mkPtok 8 "(" 34 14 105) None (mkPtok 6 ")" 35 0 107)))] (InerObjectField (mkSpan (mkPtok 42 "Z9_" 36 4 108) (mkPtok 40 "," 43 2 132)) None (InerObjectDecl (mkSpan (mkPtok 42 "Z9_" 36 4 108) (mkPtok 3 "}" 43 0 131)) (mkPtok 42 "Z9_" 36 4 108) (mkPtok 2 "{" 36 8 109) [(LengthField (mkSpan (mkPtok 28 "float32" 36 10 110) (mkPtok 40 "," 38 4 116)) (mkLengthFieldDecl (mkSpan (mkPtok 28 "float32" 36 10 110) (mkPtok 40 "," 38 4 116)) (Some (TyBasic (mkSpan (mkPtok 28 "float32" 36 10 110) (mkPtok 28 "float32" 36 10 110)) (mkBasicType (mkSpan (mkPtok 28 "float32" 36 10 110) (mkPtok 28 "float32" 36 10 110)) (mkPtok 28 "float32" 36 10 110)))) (mkPtok 42 "x_y_z" 36 18 111) (mkLengthOf (mkSpan (mkPtok 7 "@lengthOf(" 36 24 112) (mkPtok 6 ")" 37 0 115)) (mkPtok 7 "@lengthOf(" 36 24 112) (mkPtok 42 "asx" 36 35 113) (mkPtok 6 ")" 37 0 115)) None (mkPtok 40 "," 38 4 116))); (MetaField (mkSpan (mkPtok 36 "repeat" 38 6 117) (mkPtok 40 "," 38 25 120)) (Some (mkPtok 36 "repeat" 38 6 117)) (mkMetaDecl (mkSpan (mkPtok 28 "float32" 38 13 118) (mkPtok 40 "," 38 25 120)) (TyBasic (mkSpan (mkPtok 28 "float32" 38 13 118) (mkPtok 28 "float32" 38 13 118)) (mkBasicType (mkSpan (mkPtok 28 "float32" 38 13 118) (mkPtok 28 "float32" 38 13 118)) (mkPtok 28 "float32" 38 13 118))) (mkPtok 42 "asx" 38 21 119) None (mkPtok 40 "," 38 25 120))); (MetaField (mkSpan (mkPtok 28 "f32" 38 27 121) (mkPtok 40 "," 40 4 124)) None (mkMetaDecl (mkSpan (mkPtok 28 "f32" 38 27 121) (mkPtok 40 "," 40 4 124)) (TyBasic (mkSpan (mkPtok 28 "f32" 38 27 121) (mkPtok 28 "f32" 38 27 121)) (mkBasicType (mkSpan (mkPtok 28 "f32" 38 27 121) (mkPtok 28 "f32" 38 27 121)) (mkPtok 28 "f32" 38 27 121))) (mkPtok 42 "zchar" 38 31 122) (Some (mkPtok 43 (string_of_bytes [96; 230; 182; 136; 230; 129; 175; 231; 177; 187; 229; 158; 139; 96]%N) 39 0 123)) (mkPtok 40 "," 40 4 124))); (MetaField (mkSpan (mkPtok 12 "char[" 40 6 125) (mkPtok 40 "," 42 0 130)) None (mkMetaDecl (mkSpan (mkPtok 12 "char[" 40 6 125) (mkPtok 40 "," 42 0 130)) (TyFixed (mkSpan (mkPtok 12 "char[" 40 6 125) (mkPtok 13 "]" 40 16 127)) (mkFixedString (mkSpan (mkPtok 12 "char[" 40 6 125) (mkPtok 13 "]" 40 16 127)) (mkPtok 12 "char[" 40 6 125) (mkPtok 30 "007" 40 12 126) (mkPtok 13 "]" 40 16 127))) (mkPtok 42 "Packet" 40 18 128) (Some (mkPtok 43 "`a\`" 41 0 129)) (mkPtok 40 "," 42 0 130)))] (mkPtok 3 "}" 43 0 131)) (mkPtok 40 "," 43 2 132)))] (mkPtok 3 "}" 44 0 133)))])).
Eval vm_compute in ("<<<M556>>>" ++ check (runes_of_ascii "//
MetaData i8i8 { } root packet
    roots {
repeat u16 BodyLength `
` ,
    } options {	string_ = """ ++ [233]%N ++ runes_of_ascii "t" ++ [233]%N ++ runes_of_ascii """ ; }
packet i64_
{}
")).
Eval vm_compute in ("<<<M588>>>" ++ check (runes_of_ascii "packet options1 {
    @calculatedFrom(// trailing space 
""" ++ [233]%N ++ runes_of_ascii "t" ++ [233]%N ++ runes_of_ascii """
)
@calculatedFrom(""packet"") repeat
int16
calculatedFrom
,
    @rightPad( ) Z9_
// `tick` ""quote"" 'q'
// `tick` ""quote"" 'q'
@calculatedFrom( """ ++ [128512]%N ++ runes_of_ascii """ )
`line1
line2` , int64
    rootA
,
_x@calculatedFrom( ""a	b""
// `tick` ""quote"" 'q'
//	t
)
    ,	}
")).
Eval vm_compute in ("<<<M620>>>" ++ check (runes_of_ascii "packet
    A{
    repeatCount
    {
    // " ++ [27880; 37322]%N ++ runes_of_ascii "
    repeat string//	t
falsey
`" ++ [233]%N ++ runes_of_ascii "` , x Z9_ //x
,rootA repeatCount`a\` , repeat // " ++ [128512]%N ++ runes_of_ascii " emoji
char[]
x_y_z
``, }
,} root packet
    //
    int
    { @calculatedFrom( ""\n"") @calculatedFrom(
    ""a\\"" // trailing space 
) repeat lengthOf repeatCount `two words`
// packet A { u8 x, }
// c
,} root packet
BodyLength {
@calculatedFrom( ""`tick`"" ) repeat asx { zchar[ 10 ]
MetaDataX , repeat
    char[ 4294967296 ] rootA`say ""hi""`
    , uint64 As
`" ++ [233]%N ++ runes_of_ascii "` ,
chars
u , } ,@tag( 0123456789	) @tag( 0 )string
roots	`" ++ [28040; 24687; 31867; 22411]%N ++ runes_of_ascii "` ,
    u8 crc /// triple
`{ , }` , // a // b
@calculatedFrom(
    ""CRC32"")repeat i64_ _x ,
char Packet , }")).
Eval vm_compute in ("<<<M652>>>" ++ check (runes_of_ascii "packet float	{i64 u8x @lengthOf(
    //x
    leftPad ) // packet A { u8 x, }
`line1
line2`
,}")).
Eval vm_compute in ("<<<M684>>>" ++ check (runes_of_ascii "
packet
calculatedFrom {@lengthOf( Foo	) //
@calculatedFrom( ""a\""b""
)lengthOf Foo
, int8 u8x, @calculatedFrom( """ ++ [28040; 24687]%N ++ runes_of_ascii """ )
repeat // a // b
options1 o `" ++ [28040; 24687; 31867; 22411]%N ++ runes_of_ascii "` ,
    MetaDataX @lengthOf( Logon
    // trailing space 
    )
, } options { crc =
7 u8x =0 T = ""{,}""; metadata =
    zchar[ 00
    ]
;} 	 ")).
Eval vm_compute in ("<<<M716>>>" ++ check (runes_of_ascii "


")).
Eval vm_compute in ("<<<M748>>>" ++ check (runes_of_ascii "
")).
Eval vm_compute in ("<<<T748>>>" ++ terms [mkTok 0 "<EOF>" 2 0 false] (mkPacket (mkPtok 0 "<EOF>" 2 0 0) None [])).
Eval vm_compute in ("<<<M780>>>" ++ check (runes_of_ascii "root	packet f32a { }
")).
Eval vm_compute in ("<<<M812>>>" ++ check (runes_of_ascii "packet Pad // `tick` ""quote"" 'q'
{ }
root
    packet  f32a { // c
@calculatedFrom( ""it's"" )@tag( 255 ) match roots as trueish {
7: tag  ,
    } ,
repeat zchar[0
]  repeatCount
, }
")).
Eval vm_compute in ("<<<M844>>>" ++ check (runes_of_ascii "options { pack= int32 ;}
")).
Eval vm_compute in ("<<<M876>>>" ++ check (runes_of_ascii "
")).
Eval vm_compute in ("<<<M908>>>" ++ check (runes_of_ascii "options// trailing space 
{ o =	007
    // packet A { u8 x, }
    ;
}
    root packet options1 {//
@rightPad () zchar[ 65535 ] x, @lengthOf( lengthOf	)x metadata // @lengthOf(
, // `tick` ""quote"" 'q'
@tag(
007  )int64
uint8x
// @lengthOf(
//x
@lengthOf(i64_ )//x
`a\`, @calculatedFrom(""1"" )	@tag(
007 ) repeat	u32 metadata
, // a // b
match
    As
as rootA {
""a\""b"" :As
,
} ,@calculatedFrom(
""CRC32"" ) uint16 As
@calculatedFrom(
    ""a	b"")
`" ++ [28040; 24687; 31867; 22411]%N ++ runes_of_ascii "` ,@lengthOf( A) u int `" ++ [233]%N ++ runes_of_ascii "`, i64_ MetaDataX , leftPad
    , @lengthOf(
_x) body `two words` ,
    } MetaData repeatCount
{ charz	packetx ,  float32 f32a ,
}
")).
Eval vm_compute in ("<<<M940>>>" ++ check (runes_of_ascii "root packet A { @tag( 42	)
    match // @lengthOf(
Logon as rootA { 0123456789
: int } ,
repeat char[]
uint8x `crlf
line`, int {
// `tick` ""quote"" 'q'
//
repeat
f64 Packet , uint8x  @calculatedFrom(
    ""1"" ) , string  x `it's` , }	, @lengthOf( Foo )
@calculatedFrom(""a	b""
) @lengthOf( body)
metadata {match	pack as matchKey { ""x y"" : falsey , ""it's"" //
: Header}	, body {
char[] len  , /// triple
} , }
, char[
    // a // b
    0123456789
    ]	T
    // " ++ [128512]%N ++ runes_of_ascii " emoji
    @calculatedFrom(
    ""`tick`"" )
    , }options{ len =' '	} MetaData
As {
    f64 As , char[ 0123456789 ] x
,}
")).
Eval vm_compute in ("<<<M972>>>" ++ check (runes_of_ascii "packet asx {
@calculatedFrom( ""x y"" ) packetx	stringy ,	}MetaData As
{ int8
    float `" ++ [233]%N ++ runes_of_ascii "`,
int
uint8x, zchar[ 007  ] a1 `two words` ,
// a // b
/// triple
char[	10
]msg_type	, uint32 matchKey `say ""hi""` ,
// `tick` ""quote"" 'q'
//x
i32 zchar,
    } options {
}")).
Eval vm_compute in ("<<<T972>>>" ++ terms [mkTok 35 "packet" 1 0 false; mkTok 42 "asx" 1 7 false; mkTok 2 "{" 1 11 false; mkTok 5 "@calculatedFrom(" 2 0 false; mkTok 31 """x y""" 2 17 false; mkTok 6 ")" 2 23 false; mkTok 42 "packetx" 2 25 false; mkTok 42 "stringy" 2 33 false; mkTok 40 "," 2 41 false; mkTok 3 "}" 2 43 false; mkTok 37 "MetaData" 2 44 false; mkTok 42 "As" 2 53 false; mkTok 2 "{" 3 0 false; mkTok 24 "int8" 3 2 false; mkTok 42 "float" 4 4 false; mkTok 43 (string_of_bytes [96; 195; 169; 96]%N) 4 10 false; mkTok 40 "," 4 13 false; mkTok 42 "int" 5 0 false; mkTok 42 "uint8x" 6 0 false; mkTok 40 "," 6 6 false; mkTok 14 "zchar[" 6 8 false; mkTok 30 "007" 6 15 false; mkTok 13 "]" 6 20 false; mkTok 42 "a1" 6 22 false; mkTok 43 "`two words`" 6 25 false; mkTok 40 "," 6 37 false; mkTok 44 "// a // b" 7 0 true; mkTok 44 "/// triple" 8 0 true; mkTok 12 "char[" 9 0 false; mkTok 30 "10" 9 6 false; mkTok 13 "]" 10 0 false; mkTok 42 "msg_type" 10 1 false; mkTok 40 "," 10 10 false; mkTok 22 "uint32" 10 12 false; mkTok 42 "matchKey" 10 19 false; mkTok 43 "`say ""hi""`" 10 28 false; mkTok 40 "," 10 39 false; mkTok 44 "// `tick` ""quote"" 'q'" 11 0 true; mkTok 44 "//x" 12 0 true; mkTok 26 "i32" 13 0 false; mkTok 42 "zchar" 13 4 false; mkTok 40 "," 13 9 false; mkTok 3 "}" 14 4 false; mkTok 1 "options" 14 6 false; mkTok 2 "{" 14 14 false; mkTok 3 "}" 15 0 false; mkTok 0 "<EOF>" 15 1 false] (mkPacket (mkPtok 35 "packet" 1 0 0) (Some (mkPtok 3 "}" 15 0 45)) [(DPacket (mkPacketDef (mkSpan (mkPtok 35 "packet" 1 0 0) (mkPtok 3 "}" 2 43 9)) None (mkPtok 35 "packet" 1 0 0) (mkPtok 42 "asx" 1 7 1) (mkPtok 2 "{" 1 11 2) [(mkFieldWithAttr (mkSpan (mkPtok 5 "@calculatedFrom(" 2 0 3) (mkPtok 40 "," 2 41 8)) [(FACalculatedFrom (mkSpan (mkPtok 5 "@calculatedFrom(" 2 0 3) (mkPtok 6 ")" 2 23 5)) (mkCalculatedFrom (mkSpan (mkPtok 5 "@calculatedFrom(" 2 0 3) (mkPtok 6 ")" 2 23 5)) (mkPtok 5 "@calculatedFrom(" 2 0 3) (mkPtok 31 """x y""" 2 17 4) (mkPtok 6 ")" 2 23 5)))] (ObjectField (mkSpan (mkPtok 42 "packetx" 2 25 6) (mkPtok 40 "," 2 41 8)) None (mkPtok 42 "packetx" 2 25 6) (Some (mkPtok 42 "stringy" 2 33 7)) None (mkPtok 40 "," 2 41 8)))] (mkPtok 3 "}" 2 43 9))); (DMeta (mkMetaDef (mkSpan (mkPtok 37 "MetaData" 2 44 10) (mkPtok 3 "}" 14 4 42)) (mkPtok 37 "MetaData" 2 44 10) (mkPtok 42 "As" 2 53 11) (mkPtok 2 "{" 3 0 12) [(MIDecl (mkMetaDecl (mkSpan (mkPtok 24 "int8" 3 2 13) (mkPtok 40 "," 4 13 16)) (TyBasic (mkSpan (mkPtok 24 "int8" 3 2 13) (mkPtok 24 "int8" 3 2 13)) (mkBasicType (mkSpan (mkPtok 24 "int8" 3 2 13) (mkPtok 24 "int8" 3 2 13)) (mkPtok 24 "int8" 3 2 13))) (mkPtok 42 "float" 4 4 14) (Some (mkPtok 43 (string_of_bytes [96; 195; 169; 96]%N) 4 10 15)) (mkPtok 40 "," 4 13 16))); (MIRef (mkRefMetaDecl (mkSpan (mkPtok 42 "int" 5 0 17) (mkPtok 40 "," 6 6 19)) (mkPtok 42 "int" 5 0 17) (mkPtok 42 "uint8x" 6 0 18) None (mkPtok 40 "," 6 6 19))); (MIDecl (mkMetaDecl (mkSpan (mkPtok 14 "zchar[" 6 8 20) (mkPtok 40 "," 6 37 25)) (TyFixed (mkSpan (mkPtok 14 "zchar[" 6 8 20) (mkPtok 13 "]" 6 20 22)) (mkFixedString (mkSpan (mkPtok 14 "zchar[" 6 8 20) (mkPtok 13 "]" 6 20 22)) (mkPtok 14 "zchar[" 6 8 20) (mkPtok 30 "007" 6 15 21) (mkPtok 13 "]" 6 20 22))) (mkPtok 42 "a1" 6 22 23) (Some (mkPtok 43 "`two words`" 6 25 24)) (mkPtok 40 "," 6 37 25))); (MIDecl (mkMetaDecl (mkSpan (mkPtok 12 "char[" 9 0 28) (mkPtok 40 "," 10 10 32)) (TyFixed (mkSpan (mkPtok 12 "char[" 9 0 28) (mkPtok 13 "]" 10 0 30)) (mkFixedString (mkSpan (mkPtok 12 "char[" 9 0 28) (mkPtok 13 "]" 10 0 30)) (mkPtok 12 "char[" 9 0 28) (mkPtok 30 "10" 9 6 29) (mkPtok 13 "]" 10 0 30))) (mkPtok 42 "msg_type" 10 1 31) None (mkPtok 40 "," 10 10 32))); (MIDecl (mkMetaDecl (mkSpan (mkPtok 22 "uint32" 10 12 33) (mkPtok 40 "," 10 39 36)) (TyBasic (mkSpan (mkPtok 22 "uint32" 10 12 33) (mkPtok 22 "uint32" 10 12 33)) (mkBasicType (mkSpan (mkPtok 22 "uint32" 10 12 33) (mkPtok 22 "uint32" 10 12 33)) (mkPtok 22 "uint32" 10 12 33))) (mkPtok 42 "matchKey" 10 19 34) (Some (mkPtok 43 "`say ""hi""`" 10 28 35)) (mkPtok 40 "," 10 39 36))); (MIDecl (mkMetaDecl (mkSpan (mkPtok 26 "i32" 13 0 39) (mkPtok 40 "," 13 9 41)) (TyBasic (mkSpan (mkPtok 26 "i32" 13 0 39) (mkPtok 26 "i32" 13 0 39)) (mkBasicType (mkSpan (mkPtok 26 "i32" 13 0 39) (mkPtok 26 "i32" 13 0 39)) (mkPtok 26 "i32" 13 0 39))) (mkPtok 42 "zchar" 13 4 40) None (mkPtok 40 "," 13 9 41)))] (mkPtok 3 "}" 14 4 42))); (DOption (mkOptionDef (mkSpan (mkPtok 1 "options" 14 6 43) (mkPtok 3 "}" 15 0 45)) (mkPtok 1 "options" 14 6 43) (mkPtok 2 "{" 14 14 44) [] (mkPtok 3 "}" 15 0 45)))])).
Eval vm_compute in ("<<<M1004>>>" ++ check (runes_of_ascii "
")).
Eval vm_compute in ("<<<M1036>>>" ++ check (runes_of_ascii "// c
root packet o{ @tag( 42
) a1
, }
options { asx
=char[ 0	]
/// triple
// `tick` ""quote"" 'q'
;
int =
    // c
    '\x00' ;_x	=
""it's""	packetx // a // b
= ""// no comment""  u8x = """ ++ [233]%N ++ runes_of_ascii "t" ++ [233]%N ++ runes_of_ascii """ } root// trailing space 
packet T { @lengthOf( float )match falsey
//	t
// trailing space 
as  matchKey {
""a\\""
: x_y_z
// a // b
// `tick` ""quote"" 'q'
,
    //x
    } //
, } options // a // b
{ zchar = 0// trailing space 
repeatCount= uint64
    ;// a // b
}")).
Eval vm_compute in ("<<<M1068>>>" ++ check (runes_of_ascii " // " ++ [27880; 37322]%N)).
Eval vm_compute in ("<<<M1100>>>" ++ check (runes_of_ascii "root
packet BodyLength { match tag as
float  {10 ://x
a1, }
,char[255 ] Z9_	`" ++ [28040; 24687; 31867; 22411]%N ++ runes_of_ascii "`
    , // @lengthOf(
@calculatedFrom( ""packet""	) int64 packetx @calculatedFrom( ""{,}"" // @lengthOf(
)
`doc`	, }packet
    x
{	} packet
    roots
// " ++ [27880; 37322]%N ++ runes_of_ascii "
//	t
{
    @tag( 0)repeat
    chars `doc` , }
")).
Eval vm_compute in ("<<<M1132>>>" ++ check (runes_of_ascii "packet falsey { }
    packet
    stringy
    { repeatCount //	t
@calculatedFrom(  ""a	b"" //x
) ,
@lengthOf( string_ )
    repeat i64_ metadata
`
` /// triple
, }
")).
Eval vm_compute in ("<<<M1164>>>" ++ check (runes_of_ascii "root packet Logon { string MetaDataX @calculatedFrom( ""\" ++ [233]%N ++ runes_of_ascii """ )// a // b
`two words` , @leftPad
( '\x00' //x
) len a1 , // @lengthOf(
@tag( 0123456789 )
    repeat char[]
f32a , repeat uint16 pack
    ,}
MetaData
rootA { BodyLength Z9_ `{ , }` ,
    zchar[65535 ] u ,
}
")).
Eval vm_compute in ("<<<M1196>>>" ++ check (runes_of_ascii "options{ tag
    =10// @lengthOf(
u =00  stringy =	""`tick`"" ;} options { MetaDataX=
    1 } // packet A { u8 x, }
options{ lengthOf=
255 ; int =  ""// no comment"" ;	falsey// packet A { u8 x, }
= zchar[ 3
    ] ;
    // @lengthOf(
    } MetaData asx { }
MetaData a1{ int16 x_y_z , lengthOf matchKey ,	uint8 u128
, x packetx , i32 charz, repeatCount As , }")).
Eval vm_compute in ("<<<T1196>>>" ++ terms [mkTok 1 "options" 1 0 false; mkTok 2 "{" 1 7 false; mkTok 42 "tag" 1 9 false; mkTok 4 "=" 2 4 false; mkTok 30 "10" 2 5 false; mkTok 44 "// @lengthOf(" 2 7 true; mkTok 42 "u" 3 0 false; mkTok 4 "=" 3 2 false; mkTok 30 "00" 3 3 false; mkTok 42 "stringy" 3 7 false; mkTok 4 "=" 3 15 false; mkTok 31 """`tick`""" 3 17 false; mkTok 41 ";" 3 26 false; mkTok 3 "}" 3 27 false; mkTok 1 "options" 3 29 false; mkTok 2 "{" 3 37 false; mkTok 42 "MetaDataX" 3 39 false; mkTok 4 "=" 3 48 false; mkTok 30 "1" 4 4 false; mkTok 3 "}" 4 6 false; mkTok 44 "// packet A { u8 x, }" 4 8 true; mkTok 1 "options" 5 0 false; mkTok 2 "{" 5 7 false; mkTok 42 "lengthOf" 5 9 false; mkTok 4 "=" 5 17 false; mkTok 30 "255" 6 0 false; mkTok 41 ";" 6 4 false; mkTok 42 "int" 6 6 false; mkTok 4 "=" 6 10 false; mkTok 31 """// no comment""" 6 13 false; mkTok 41 ";" 6 29 false; mkTok 42 "falsey" 6 31 false; mkTok 44 "// packet A { u8 x, }" 6 37 true; mkTok 4 "=" 7 0 false; mkTok 14 "zchar[" 7 2 false; mkTok 30 "3" 7 9 false; mkTok 13 "]" 8 4 false; mkTok 41 ";" 8 6 false; mkTok 44 "// @lengthOf(" 9 4 true; mkTok 3 "}" 10 4 false; mkTok 37 "MetaData" 10 6 false; mkTok 42 "asx" 10 15 false; mkTok 2 "{" 10 19 false; mkTok 3 "}" 10 21 false; mkTok 37 "MetaData" 11 0 false; mkTok 42 "a1" 11 9 false; mkTok 2 "{" 11 11 false; mkTok 25 "int16" 11 13 false; mkTok 42 "x_y_z" 11 19 false; mkTok 40 "," 11 25 false; mkTok 42 "lengthOf" 11 27 false; mkTok 42 "matchKey" 11 36 false; mkTok 40 "," 11 45 false; mkTok 20 "uint8" 11 47 false; mkTok 42 "u128" 11 53 false; mkTok 40 "," 12 0 false; mkTok 42 "x" 12 2 false; mkTok 42 "packetx" 12 4 false; mkTok 40 "," 12 12 false; mkTok 26 "i32" 12 14 false; mkTok 42 "charz" 12 18 false; mkTok 40 "," 12 23 false; mkTok 42 "repeatCount" 12 25 false; mkTok 42 "As" 12 37 false; mkTok 40 "," 12 40 false; mkTok 3 "}" 12 42 false; mkTok 0 "<EOF>" 12 43 false] (mkPacket (mkPtok 1 "options" 1 0 0) (Some (mkPtok 3 "}" 12 42 65)) [(DOption (mkOptionDef (mkSpan (mkPtok 1 "options" 1 0 0) (mkPtok 3 "}" 3 27 13)) (mkPtok 1 "options" 1 0 0) (mkPtok 2 "{" 1 7 1) [(mkOptionDecl (mkSpan (mkPtok 42 "tag" 1 9 2) (mkPtok 30 "10" 2 5 4)) (mkPtok 42 "tag" 1 9 2) (mkPtok 4 "=" 2 4 3) (VDigits (mkSpan (mkPtok 30 "10" 2 5 4) (mkPtok 30 "10" 2 5 4)) (mkPtok 30 "10" 2 5 4)) None); (mkOptionDecl (mkSpan (mkPtok 42 "u" 3 0 6) (mkPtok 30 "00" 3 3 8)) (mkPtok 42 "u" 3 0 6) (mkPtok 4 "=" 3 2 7) (VDigits (mkSpan (mkPtok 30 "00" 3 3 8) (mkPtok 30 "00" 3 3 8)) (mkPtok 30 "00" 3 3 8)) None); (mkOptionDecl (mkSpan (mkPtok 42 "stringy" 3 7 9) (mkPtok 41 ";" 3 26 12)) (mkPtok 42 "stringy" 3 7 9) (mkPtok 4 "=" 3 15 10) (VString (mkSpan (mkPtok 31 """`tick`""" 3 17 11) (mkPtok 31 """`tick`""" 3 17 11)) (mkPtok 31 """`tick`""" 3 17 11)) (Some (mkPtok 41 ";" 3 26 12)))] (mkPtok 3 "}" 3 27 13))); (DOption (mkOptionDef (mkSpan (mkPtok 1 "options" 3 29 14) (mkPtok 3 "}" 4 6 19)) (mkPtok 1 "options" 3 29 14) (mkPtok 2 "{" 3 37 15) [(mkOptionDecl (mkSpan (mkPtok 42 "MetaDataX" 3 39 16) (mkPtok 30 "1" 4 4 18)) (mkPtok 42 "MetaDataX" 3 39 16) (mkPtok 4 "=" 3 48 17) (VDigits (mkSpan (mkPtok 30 "1" 4 4 18) (mkPtok 30 "1" 4 4 18)) (mkPtok 30 "1" 4 4 18)) None)] (mkPtok 3 "}" 4 6 19))); (DOption (mkOptionDef (mkSpan (mkPtok 1 "options" 5 0 21) (mkPtok 3 "}" 10 4 39)) (mkPtok 1 "options" 5 0 21) (mkPtok 2 "{" 5 7 22) [(mkOptionDecl (mkSpan (mkPtok 42 "lengthOf" 5 9 23) (mkPtok 41 ";" 6 4 26)) (mkPtok 42 "lengthOf" 5 9 23) (mkPtok 4 "=" 5 17 24) (VDigits (mkSpan (mkPtok 30 "255" 6 0 25) (mkPtok 30 "255" 6 0 25)) (mkPtok 30 "255" 6 0 25)) (Some (mkPtok 41 ";" 6 4 26))); (mkOptionDecl (mkSpan (mkPtok 42 "int" 6 6 27) (mkPtok 41 ";" 6 29 30)) (mkPtok 42 "int" 6 6 27) (mkPtok 4 "=" 6 10 28) (VString (mkSpan (mkPtok 31 """// no comment""" 6 13 29) (mkPtok 31 """// no comment""" 6 13 29)) (mkPtok 31 """// no comment""" 6 13 29)) (Some (mkPtok 41 ";" 6 29 30))); (mkOptionDecl (mkSpan (mkPtok 42 "falsey" 6 31 31) (mkPtok 41 ";" 8 6 37)) (mkPtok 42 "falsey" 6 31 31) (mkPtok 4 "=" 7 0 33) (VType (mkSpan (mkPtok 14 "zchar[" 7 2 34) (mkPtok 13 "]" 8 4 36)) (TyFixed (mkSpan (mkPtok 14 "zchar[" 7 2 34) (mkPtok 13 "]" 8 4 36)) (mkFixedString (mkSpan (mkPtok 14 "zchar[" 7 2 34) (mkPtok 13 "]" 8 4 36)) (mkPtok 14 "zchar[" 7 2 34) (mkPtok 30 "3" 7 9 35) (mkPtok 13 "]" 8 4 36)))) (Some (mkPtok 41 ";" 8 6 37)))] (mkPtok 3 "}" 10 4 39))); (DMeta (mkMetaDef (mkSpan (mkPtok 37 "MetaData" 10 6 40) (mkPtok 3 "}" 10 21 43)) (mkPtok 37 "MetaData" 10 6 40) (mkPtok 42 "asx" 10 15 41) (mkPtok 2 "{" 10 19 42) [] (mkPtok 3 "}" 10 21 43))); (DMeta (mkMetaDef (mkSpan (mkPtok 37 "MetaData" 11 0 44) (mkPtok 3 "}" 12 42 65)) (mkPtok 37 "MetaData" 11 0 44) (mkPtok 42 "a1" 11 9 45) (mkPtok 2 "{" 11 11 46) [(MIDecl (mkMetaDecl (mkSpan (mkPtok 25 "int16" 11 13 47) (mkPtok 40 "," 11 25 49)) (TyBasic (mkSpan (mkPtok 25 "int16" 11 13 47) (mkPtok 25 "int16" 11 13 47)) (mkBasicType (mkSpan (mkPtok 25 "int16" 11 13 47) (mkPtok 25 "int16" 11 13 47)) (mkPtok 25 "int16" 11 13 47))) (mkPtok 42 "x_y_z" 11 19 48) None (mkPtok 40 "," 11 25 49))); (MIRef (mkRefMetaDecl (mkSpan (mkPtok 42 "lengthOf" 11 27 50) (mkPtok 40 "," 11 45 52)) (mkPtok 42 "lengthOf" 11 27 50) (mkPtok 42 "matchKey" 11 36 51) None (mkPtok 40 "," 11 45 52))); (MIDecl (mkMetaDecl (mkSpan (mkPtok 20 "uint8" 11 47 53) (mkPtok 40 "," 12 0 55)) (TyBasic (mkSpan (mkPtok 20 "uint8" 11 47 53) (mkPtok 20 "uint8" 11 47 53)) (mkBasicType (mkSpan (mkPtok 20 "uint8" 11 47 53) (mkPtok 20 "uint8" 11 47 53)) (mkPtok 20 "uint8" 11 47 53))) (mkPtok 42 "u128" 11 53 54) None (mkPtok 40 "," 12 0 55))); (MIRef (mkRefMetaDecl (mkSpan (mkPtok 42 "x" 12 2 56) (mkPtok 40 "," 12 12 58)) (mkPtok 42 "x" 12 2 56) (mkPtok 42 "packetx" 12 4 57) None (mkPtok 40 "," 12 12 58))); (MIDecl (mkMetaDecl (mkSpan (mkPtok 26 "i32" 12 14 59) (mkPtok 40 "," 12 23 61)) (TyBasic (mkSpan (mkPtok 26 "i32" 12 14 59) (mkPtok 26 "i32" 12 14 59)) (mkBasicType (mkSpan (mkPtok 26 "i32" 12 14 59) (mkPtok 26 "i32" 12 14 59)) (mkPtok 26 "i32" 12 14 59))) (mkPtok 42 "charz" 12 18 60) None (mkPtok 40 "," 12 23 61))); (MIRef (mkRefMetaDecl (mkSpan (mkPtok 42 "repeatCount" 12 25 62) (mkPtok 40 "," 12 40 64)) (mkPtok 42 "repeatCount" 12 25 62) (mkPtok 42 "As" 12 37 63) None (mkPtok 40 "," 12 40 64)))] (mkPtok 3 "}" 12 42 65)))])).
Eval vm_compute in ("<<<M1228>>>" ++ check (runes_of_ascii "packet
i8i8
    { }
// c
")).
Eval vm_compute in ("<<<M1260>>>" ++ check (runes_of_ascii "/// triple
options
{ Z9_ =
007;
// a // b
//
Pad =0123456789
u  = ""CRC32""
    }
")).
Eval vm_compute in ("<<<M1292>>>" ++ check (runes_of_ascii "// " ++ [27880; 37322]%N ++ runes_of_ascii "
MetaData msg_type{} MetaData Pad
    { int64 Header
,
} MetaData matchKey { } //")).
Eval vm_compute in ("<<<M1324>>>" ++ check (runes_of_ascii "options {
options1 =
    4294967296 ;
    }
    root packet crc
// trailing space 
// " ++ [27880; 37322]%N ++ runes_of_ascii "
{@calculatedFrom(
//
// `tick` ""quote"" 'q'
""a\""b"")
    zchar[
255
] u8x
    // a // b
    @lengthOf( //
u8x
) `u8 x,`// " ++ [128512]%N ++ runes_of_ascii " emoji
,
repeat int16
    x_y_z ,  calculatedFrom@lengthOf(
    x_y_z )
    ,
    //
    @rightPad ( ' ' ) repeat char[] calculatedFrom ,
    repeat
Foo rootA
`// not a comment` , }
")).
Eval vm_compute in ("<<<M1356>>>" ++ check (runes_of_ascii "root packet metadata{ @calculatedFrom( ""it's"")match
    Foo as a1{ ""{,}"" :
    len,
0123456789 :
pack ,
    4294967296
:len ,
0123456789 :matchKey
, [ ""it's"" ]	:o//	t
}, //
@calculatedFrom(""""
//	t
// " ++ [128512]%N ++ runes_of_ascii " emoji
) body {	repeat// trailing space 
float64  zchar `it's` , repeat float zchar// " ++ [27880; 37322]%N ++ runes_of_ascii "
`// not a comment` , } , } MetaData _x {
    crc A // a // b
, char[]repeatCount `two words`,
uint8x u128 , o rootA `two words`
    , }")).
Eval vm_compute in ("<<<M1388>>>" ++ check (runes_of_ascii "options
    {metadata
    /// triple
    =string ; }packet
Header{@leftPad ( ' '
)string//	t
i8i8 `it's`
// `tick` ""quote"" 'q'
// `tick` ""quote"" 'q'
,
@lengthOf(// " ++ [27880; 37322]%N ++ runes_of_ascii "
roots )	u
@calculatedFrom( """ ++ [128512]%N ++ runes_of_ascii """ )
, @tag(65535 // packet A { u8 x, }
) match
Pad as
stringy// `tick` ""quote"" 'q'
{3
: f32a
    ,""a\\""
: i8i8
,
    [
    """ ++ [128512]%N ++ runes_of_ascii """ ,
7] :
rootA , // " ++ [128512]%N ++ runes_of_ascii " emoji
""a\""b"" : x_y_z
,
[ 0123456789 ,""a	b""  ]: Logon
,
} ,metadata {  char[] // `tick` ""quote"" 'q'
chars @calculatedFrom(
    """ ++ [128512]%N ++ runes_of_ascii """
)`two words` , repeat asx	{ msg_type { int64 _x `
`
    ,repeat Z9_
/// triple
// `tick` ""quote"" 'q'
,
uint16 leftPad `line1
line2`,
    trueish x_y_z ``, } , // trailing space 
zchar[ 4294967296// " ++ [27880; 37322]%N ++ runes_of_ascii "
]
chars `crlf
line`, Logon `a\` ,
} ,  char[]body ,
    } ,  repeat u { int {
repeat
    zchar{
f64
lengthOf @calculatedFrom(	""abc""  ) `" ++ [233]%N ++ runes_of_ascii "` ,/// triple
}
, As @calculatedFrom(
    ""{,}"" )
    // packet A { u8 x, }
    , repeat  char[] // `tick` ""quote"" 'q'
metadata
, string// a // b
calculatedFrom `two words` , }	, },
    @rightPad
( '0'
)// " ++ [27880; 37322]%N ++ runes_of_ascii "
@rightPad(
    '0'  )
@lengthOf( x )repeat leftPad `// not a comment`
    ,
@rightPad ( ' '
)o  Z9_
, }
packet
    Pad
    {metadata trueish
// c
// " ++ [128512]%N ++ runes_of_ascii " emoji
`u8 x,` ,
    } options{ len
// a // b
// @lengthOf(
=i64 f32a =  ""x y""; matchKey = ""packet"" ;  } packet lengthOf
{char[ 7]
// trailing space 
/// triple
MetaDataX
@lengthOf(BodyLength
)
,int8 As @lengthOf( calculatedFrom  ) ``,repeat char[]
// a // b
// @lengthOf(
As ,
    body @calculatedFrom( /// triple
""abc"" ) ,
    repeat float64 MetaDataX `" ++ [28040; 24687; 31867; 22411]%N ++ runes_of_ascii "` // " ++ [27880; 37322]%N ++ runes_of_ascii "
,
@tag(
    4294967296 )	match u8x as crc
{[
""\n"" ,
65535 ] : // packet A { u8 x, }
_x , 255 : roots,} ,  } //	t")).
Eval vm_compute in ("<<<M1420>>>" ++ check (runes_of_ascii "root packet Header {
    @lengthOf( stringy ) calculatedFrom @lengthOf(  chars  ) , char[ 255
    ]
    // `tick` ""quote"" 'q'
    metadata``	, u8 MetaDataX `crlf
line`
,} options
{ } options
{uint8x = 42 ; T
    = i32;
    calculatedFrom // `tick` ""quote"" 'q'
=
""// no comment""	;
    u8x =
0
    }
    root packet roots {repeat i64 falsey //x
,
}")).
Eval vm_compute in ("<<<T1420>>>" ++ terms [mkTok 34 "root" 1 0 false; mkTok 35 "packet" 1 5 false; mkTok 42 "Header" 1 12 false; mkTok 2 "{" 1 19 false; mkTok 7 "@lengthOf(" 2 4 false; mkTok 42 "stringy" 2 15 false; mkTok 6 ")" 2 23 false; mkTok 42 "calculatedFrom" 2 25 false; mkTok 7 "@lengthOf(" 2 40 false; mkTok 42 "chars" 2 52 false; mkTok 6 ")" 2 59 false; mkTok 40 "," 2 61 false; mkTok 12 "char[" 2 63 false; mkTok 30 "255" 2 69 false; mkTok 13 "]" 3 4 false; mkTok 44 "// `tick` ""quote"" 'q'" 4 4 true; mkTok 42 "metadata" 5 4 false; mkTok 43 "``" 5 12 false; mkTok 40 "," 5 15 false; mkTok 20 "u8" 5 17 false; mkTok 42 "MetaDataX" 5 20 false; mkTok 43 (string_of_bytes [96; 99; 114; 108; 102; 13; 10; 108; 105; 110; 101; 96]%N) 5 30 false; mkTok 40 "," 7 0 false; mkTok 3 "}" 7 1 false; mkTok 1 "options" 7 3 false; mkTok 2 "{" 8 0 false; mkTok 3 "}" 8 2 false; mkTok 1 "options" 8 4 false; mkTok 2 "{" 9 0 false; mkTok 42 "uint8x" 9 1 false; mkTok 4 "=" 9 8 false; mkTok 30 "42" 9 10 false; mkTok 41 ";" 9 13 false; mkTok 42 "T" 9 15 false; mkTok 4 "=" 10 4 false; mkTok 26 "i32" 10 6 false; mkTok 41 ";" 10 9 false; mkTok 42 "calculatedFrom" 11 4 false; mkTok 44 "// `tick` ""quote"" 'q'" 11 19 true; mkTok 4 "=" 12 0 false; mkTok 31 """// no comment""" 13 0 false; mkTok 41 ";" 13 16 false; mkTok 42 "u8x" 14 4 false; mkTok 4 "=" 14 8 false; mkTok 30 "0" 15 0 false; mkTok 3 "}" 16 4 false; mkTok 34 "root" 17 4 false; mkTok 35 "packet" 17 9 false; mkTok 42 "roots" 17 16 false; mkTok 2 "{" 17 22 false; mkTok 36 "repeat" 17 23 false; mkTok 27 "i64" 17 30 false; mkTok 42 "falsey" 17 34 false; mkTok 44 "//x" 17 41 true; mkTok 40 "," 18 0 false; mkTok 3 "}" 19 0 false; mkTok 0 "<EOF>" 19 1 false] (mkPacket (mkPtok 34 "root" 1 0 0) (Some (mkPtok 3 "}" 19 0 55)) [(DPacket (mkPacketDef (mkSpan (mkPtok 34 "root" 1 0 0) (mkPtok 3 "}" 7 1 23)) (Some (mkPtok 34 "root" 1 0 0)) (mkPtok 35 "packet" 1 5 1) (mkPtok 42 "Header" 1 12 2) (mkPtok 2 "{" 1 19 3) [(mkFieldWithAttr (mkSpan (mkPtok 7 "@lengthOf(" 2 4 4) (mkPtok 40 "," 2 61 11)) [(FALengthOf (mkSpan (mkPtok 7 "@lengthOf(" 2 4 4) (mkPtok 6 ")" 2 23 6)) (mkLengthOf (mkSpan (mkPtok 7 "@lengthOf(" 2 4 4) (mkPtok 6 ")" 2 23 6)) (mkPtok 7 "@lengthOf(" 2 4 4) (mkPtok 42 "stringy" 2 15 5) (mkPtok 6 ")" 2 23 6)))] (LengthField (mkSpan (mkPtok 42 "calculatedFrom" 2 25 7) (mkPtok 40 "," 2 61 11)) (mkLengthFieldDecl (mkSpan (mkPtok 42 "calculatedFrom" 2 25 7) (mkPtok 40 "," 2 61 11)) None (mkPtok 42 "calculatedFrom" 2 25 7) (mkLengthOf (mkSpan (mkPtok 7 "@lengthOf(" 2 40 8) (mkPtok 6 ")" 2 59 10)) (mkPtok 7 "@lengthOf(" 2 40 8) (mkPtok 42 "chars" 2 52 9) (mkPtok 6 ")" 2 59 10)) None (mkPtok 40 "," 2 61 11)))); (mkFieldWithAttr (mkSpan (mkPtok 12 "char[" 2 63 12) (mkPtok 40 "," 5 15 18)) [] (MetaField (mkSpan (mkPtok 12 "char[" 2 63 12) (mkPtok 40 "," 5 15 18)) None (mkMetaDecl (mkSpan (mkPtok 12 "char[" 2 63 12) (mkPtok 40 "," 5 15 18)) (TyFixed (mkSpan (mkPtok 12 "char[" 2 63 12) (mkPtok 13 "]" 3 4 14)) (mkFixedString (mkSpan (mkPtok 12 "char[" 2 63 12) (mkPtok 13 "]" 3 4 14)) (mkPtok 12 "char[" 2 63 12) (mkPtok 30 "255" 2 69 13) (mkPtok 13 "]" 3 4 14))) (mkPtok 42 "metadata" 5 4 16) (Some (mkPtok 43 "``" 5 12 17)) (mkPtok 40 "," 5 15 18)))); (mkFieldWithAttr (mkSpan (mkPtok 20 "u8" 5 17 19) (mkPtok 40 "," 7 0 22)) [] (MetaField (mkSpan (mkPtok 20 "u8" 5 17 19) (mkPtok 40 "," 7 0 22)) None (mkMetaDecl (mkSpan (mkPtok 20 "u8" 5 17 19) (mkPtok 40 "," 7 0 22)) (TyBasic (mkSpan (mkPtok 20 "u8" 5 17 19) (mkPtok 20 "u8" 5 17 19)) (mkBasicType (mkSpan (mkPtok 20 "u8" 5 17 19) (mkPtok 20 "u8" 5 17 19)) (mkPtok 20 "u8" 5 17 19))) (mkPtok 42 "MetaDataX" 5 20 20) (Some (mkPtok 43 (string_of_bytes [96; 99; 114; 108; 102; 13; 10; 108; 105; 110; 101; 96]%N) 5 30 21)) (mkPtok 40 "," 7 0 22))))] (mkPtok 3 "}" 7 1 23))); (DOption (mkOptionDef (mkSpan (mkPtok 1 "options" 7 3 24) (mkPtok 3 "}" 8 2 26)) (mkPtok 1 "options" 7 3 24) (mkPtok 2 "{" 8 0 25) [] (mkPtok 3 "}" 8 2 26))); (DOption (mkOptionDef (mkSpan (mkPtok 1 "options" 8 4 27) (mkPtok 3 "}" 16 4 45)) (mkPtok 1 "options" 8 4 27) (mkPtok 2 "{" 9 0 28) [(mkOptionDecl (mkSpan (mkPtok 42 "uint8x" 9 1 29) (mkPtok 41 ";" 9 13 32)) (mkPtok 42 "uint8x" 9 1 29) (mkPtok 4 "=" 9 8 30) (VDigits (mkSpan (mkPtok 30 "42" 9 10 31) (mkPtok 30 "42" 9 10 31)) (mkPtok 30 "42" 9 10 31)) (Some (mkPtok 41 ";" 9 13 32))); (mkOptionDecl (mkSpan (mkPtok 42 "T" 9 15 33) (mkPtok 41 ";" 10 9 36)) (mkPtok 42 "T" 9 15 33) (mkPtok 4 "=" 10 4 34) (VType (mkSpan (mkPtok 26 "i32" 10 6 35) (mkPtok 26 "i32" 10 6 35)) (TyBasic (mkSpan (mkPtok 26 "i32" 10 6 35) (mkPtok 26 "i32" 10 6 35)) (mkBasicType (mkSpan (mkPtok 26 "i32" 10 6 35) (mkPtok 26 "i32" 10 6 35)) (mkPtok 26 "i32" 10 6 35)))) (Some (mkPtok 41 ";" 10 9 36))); (mkOptionDecl (mkSpan (mkPtok 42 "calculatedFrom" 11 4 37) (mkPtok 41 ";" 13 16 41)) (mkPtok 42 "calculatedFrom" 11 4 37) (mkPtok 4 "=" 12 0 39) (VString (mkSpan (mkPtok 31 """// no comment""" 13 0 40) (mkPtok 31 """// no comment""" 13 0 40)) (mkPtok 31 """// no comment""" 13 0 40)) (Some (mkPtok 41 ";" 13 16 41))); (mkOptionDecl (mkSpan (mkPtok 42 "u8x" 14 4 42) (mkPtok 30 "0" 15 0 44)) (mkPtok 42 "u8x" 14 4 42) (mkPtok 4 "=" 14 8 43) (VDigits (mkSpan (mkPtok 30 "0" 15 0 44) (mkPtok 30 "0" 15 0 44)) (mkPtok 30 "0" 15 0 44)) None)] (mkPtok 3 "}" 16 4 45))); (DPacket (mkPacketDef (mkSpan (mkPtok 34 "root" 17 4 46) (mkPtok 3 "}" 19 0 55)) (Some (mkPtok 34 "root" 17 4 46)) (mkPtok 35 "packet" 17 9 47) (mkPtok 42 "roots" 17 16 48) (mkPtok 2 "{" 17 22 49) [(mkFieldWithAttr (mkSpan (mkPtok 36 "repeat" 17 23 50) (mkPtok 40 "," 18 0 54)) [] (MetaField (mkSpan (mkPtok 36 "repeat" 17 23 50) (mkPtok 40 "," 18 0 54)) (Some (mkPtok 36 "repeat" 17 23 50)) (mkMetaDecl (mkSpan (mkPtok 27 "i64" 17 30 51) (mkPtok 40 "," 18 0 54)) (TyBasic (mkSpan (mkPtok 27 "i64" 17 30 51) (mkPtok 27 "i64" 17 30 51)) (mkBasicType (mkSpan (mkPtok 27 "i64" 17 30 51) (mkPtok 27 "i64" 17 30 51)) (mkPtok 27 "i64" 17 30 51))) (mkPtok 42 "falsey" 17 34 52) None (mkPtok 40 "," 18 0 54))))] (mkPtok 3 "}" 19 0 55)))])).
Eval vm_compute in ("<<<M1452>>>" ++ check (runes_of_ascii "
options
{
asx
    =""CRC32"" ; MetaDataX// c
= char[ 4294967296	]
    ;
// " ++ [27880; 37322]%N ++ runes_of_ascii "
// trailing space 
_x = '0'; trueish=
""a	b"" ;	} // packet A { u8 x, }")).
Eval vm_compute in ("<<<M1484>>>" ++ check (runes_of_ascii "// @lengthOf(
MetaData msg_type
// `tick` ""quote"" 'q'
// @lengthOf(
{ string
Logon ,
i8 repeatCount
    `// not a comment`, }
packet i64_ {
    // c
    @leftPad(
'0' )repeat repeatCount
`u8 x,` , Header {// " ++ [27880; 37322]%N ++ runes_of_ascii "
A{ uint32 T `crlf
line` ,
} , }, }
MetaData Header// " ++ [27880; 37322]%N ++ runes_of_ascii "
{
    Header u `doc` ,
    // " ++ [27880; 37322]%N ++ runes_of_ascii "
    char[ 4294967296 ] u128
, float32 falsey , char[ 10
    ]
roots`crlf
line`
    ,
int64 calculatedFrom `say ""hi""` ,} root packet i64_ { /// triple
}
")).
Eval vm_compute in ("<<<M1516>>>" ++ check (runes_of_ascii "MetaData lengthOf { zchar[ 255] MetaDataX , }
")).
Eval vm_compute in ("<<<M1548>>>" ++ check (runes_of_ascii "packet
    // " ++ [27880; 37322]%N ++ runes_of_ascii "
    zchar { @lengthOf(charz)	char[]
Logon
    , // @lengthOf(
u8x
// " ++ [27880; 37322]%N ++ runes_of_ascii "
//
len
    , }")).
Eval vm_compute in ("<<<M1580>>>" ++ check (runes_of_ascii "options { Foo=  true }
//	t
")).
Eval vm_compute in ("<<<M1612>>>" ++ check (runes_of_ascii "MetaData packetx	{
stringy string_  ,string Header
    , char u128  , }
")).
Eval vm_compute in ("<<<M1644>>>" ++ check (runes_of_ascii "/// triple
options
    {
Header = ""packet""
    }
    packet
matchKey {
}")).
Eval vm_compute in ("<<<T1644>>>" ++ terms [mkTok 44 "/// triple" 1 0 true; mkTok 1 "options" 2 0 false; mkTok 2 "{" 3 4 false; mkTok 42 "Header" 4 0 false; mkTok 4 "=" 4 7 false; mkTok 31 """packet""" 4 9 false; mkTok 3 "}" 5 4 false; mkTok 35 "packet" 6 4 false; mkTok 42 "matchKey" 7 0 false; mkTok 2 "{" 7 9 false; mkTok 3 "}" 8 0 false; mkTok 0 "<EOF>" 8 1 false] (mkPacket (mkPtok 1 "options" 2 0 1) (Some (mkPtok 3 "}" 8 0 10)) [(DOption (mkOptionDef (mkSpan (mkPtok 1 "options" 2 0 1) (mkPtok 3 "}" 5 4 6)) (mkPtok 1 "options" 2 0 1) (mkPtok 2 "{" 3 4 2) [(mkOptionDecl (mkSpan (mkPtok 42 "Header" 4 0 3) (mkPtok 31 """packet""" 4 9 5)) (mkPtok 42 "Header" 4 0 3) (mkPtok 4 "=" 4 7 4) (VString (mkSpan (mkPtok 31 """packet""" 4 9 5) (mkPtok 31 """packet""" 4 9 5)) (mkPtok 31 """packet""" 4 9 5)) None)] (mkPtok 3 "}" 5 4 6))); (DPacket (mkPacketDef (mkSpan (mkPtok 35 "packet" 6 4 7) (mkPtok 3 "}" 8 0 10)) None (mkPtok 35 "packet" 6 4 7) (mkPtok 42 "matchKey" 7 0 8) (mkPtok 2 "{" 7 9 9) [] (mkPtok 3 "}" 8 0 10)))])).
Eval vm_compute in ("<<<M1676>>>" ++ check (runes_of_ascii "packet As { Pad {
    char
/// triple
// packet A { u8 x, }
string_
`" ++ [28040; 24687; 31867; 22411]%N ++ runes_of_ascii "`
    //	t
    , string string_ ,i64_ @lengthOf( Pad) `" ++ [28040; 24687; 31867; 22411]%N ++ runes_of_ascii "`, float	{ msg_type @calculatedFrom(
    ""\" ++ [233]%N ++ runes_of_ascii """ )
`" ++ [233]%N ++ runes_of_ascii "`, }, }, @calculatedFrom(""CRC32"")match
    falsey as  options1 {
    65535 : _x
,
[00 ] : leftPad
, [// @lengthOf(
""CRC32"" , 65535 ] : i8i8 [ ""x y"" ]  : BodyLength
, } , zchar[007 // trailing space 
]
    rootA @lengthOf( metadata // @lengthOf(
)// " ++ [27880; 37322]%N ++ runes_of_ascii "
,
repeat // `tick` ""quote"" 'q'
As ,repeat int32 roots	`doc`
,
u32 Z9_ `two words`//
, @lengthOf(
    u )
string
    falsey `u8 x,` //
, u64 Logon ,
    char[  10
]Foo
@lengthOf(
x_y_z)
,
    //	t
    }
packet crc
    { match
roots as u128{ [	""{,}""] : MetaDataX [ 0 , 007
]/// triple
: //
tag , }, repeat char[  4294967296 ]
    BodyLength
    `crlf
line` ,
    char[ 007
] /// triple
f32a @calculatedFrom(
    ""x y"" ) `" ++ [233]%N ++ runes_of_ascii "`
, match float as repeatCount
{ 10: rootA
// `tick` ""quote"" 'q'
// " ++ [27880; 37322]%N ++ runes_of_ascii "
,	},
    i32 o@calculatedFrom(
""" ++ [28040; 24687]%N ++ runes_of_ascii """ ),  match calculatedFrom as // trailing space 
Z9_{ ""\" ++ [233]%N ++ runes_of_ascii """
    :  float
    ""\" ++ [233]%N ++ runes_of_ascii """ : MetaDataX , 1: A
, [ 10]
    : zchar , ""CRC32""  : lengthOf
, }
, match rootA as asx{
3 :Z9_ ""x y"" : lengthOf ,}
    , i16
    Pad
,
}packet zchar  {
    leftPad ,calculatedFrom @calculatedFrom( ""a	b"" ) ,}
")).
Eval vm_compute in ("<<<M1708>>>" ++ check (runes_of_ascii "
packet
    stringy {//x
} // @lengthOf(
options
{ falsey =
""" ++ [28040; 24687]%N ++ runes_of_ascii """ ; } packet Z9_ { i64_ {match options1
as
    crc { [ 7,
    ""x y""	] : A,
4294967296 //	t
:
    x [ 3	, ""// no comment"",""" ++ [28040; 24687]%N ++ runes_of_ascii """, ""a\""b""
// " ++ [27880; 37322]%N ++ runes_of_ascii "
//	t
, ""`tick`"", 007 , ""a	b""
, ""// no comment"" ]:
rootA // @lengthOf(
[ 7
    ,	255	,
// @lengthOf(
/// triple
4294967296 , ""CRC32"" ,
    4294967296
    //x
    ,
""abc"" ]: As ,
7
: A , ""`tick`"" : body , }
    //x
    , // a // b
char[
    7] falsey `" ++ [28040; 24687; 31867; 22411]%N ++ runes_of_ascii "` , // " ++ [27880; 37322]%N ++ runes_of_ascii "
}  ,	}
")).
Eval vm_compute in ("<<<M1740>>>" ++ check (runes_of_ascii "MetaData leftPad// " ++ [27880; 37322]%N ++ runes_of_ascii "
{
zchar[ 00 ]
    T , i8i8
options1 `say ""hi""`
,
}packet float
    {Header metadata // c
,}
")).
Eval vm_compute in ("<<<M1772>>>" ++ check (runes_of_ascii "
")).
Eval vm_compute in ("<<<M1804>>>" ++ check (runes_of_ascii "options { }
")).
Eval vm_compute in ("<<<M1836>>>" ++ check (runes_of_ascii "packet
    // c
    float { int8 trueish,}")).
Eval vm_compute in ("<<<M1868>>>" ++ check (runes_of_ascii "packet a1 // " ++ [27880; 37322]%N ++ runes_of_ascii "
{@lengthOf(
    //	t
    trueish
) repeat Header{ uint8
    packetx
,match
    len
as u8x  { [
    //
    255 ,
    ""\n"",
42] : f32a,[ 42 ,42]
: u ,""\" ++ [233]%N ++ runes_of_ascii """ : asx
    ""abc""
:u128
,} ,	} , @lengthOf( Header)
    repeat // " ++ [27880; 37322]%N ++ runes_of_ascii "
uint64 int ,
    repeat options1 `say ""hi""`, @lengthOf( msg_type ) match // packet A { u8 x, }
Pad as	rootA { 1 :metadata	""abc"" : As ""x y""
:  tag,007
: tag// " ++ [128512]%N ++ runes_of_ascii " emoji
,
1 :i64_,
    }	, string_ crc
    ,	repeat int8 len ,zchar[42 ]
    a1 ,
} MetaData
Z9_ { uint16 crc ,u16 i64_ , u32 i64_ ,}  packet chars { @leftPad
( ' ' ) u32 roots `line1
line2` ,match
pack// " ++ [27880; 37322]%N ++ runes_of_ascii "
as MetaDataX
    {""\n"" :
u
10	:lengthOf // `tick` ""quote"" 'q'
, 00
: tag // " ++ [27880; 37322]%N ++ runes_of_ascii "
,
}	,@lengthOf(Foo )uint8 leftPad
    // " ++ [128512]%N ++ runes_of_ascii " emoji
    `{ , }`	, @tag( // " ++ [128512]%N ++ runes_of_ascii " emoji
1
) @rightPad (' ' )
@rightPad(  '\x00') asx { zchar[
    10]
Packet , // @lengthOf(
uint8
    len@lengthOf( T
    ) , } , @lengthOf( pack
) zchar[ 42 ]
    float// c
@calculatedFrom(	""x y""
    )
    ,} root
    packet	f32a {
@lengthOf(
// @lengthOf(
// trailing space 
T
)char T
@calculatedFrom( ""it's"" ), repeat i32 charz	`crlf
line`,repeat string
    tag ,@rightPad()
    @leftPad ( )@tag( 0123456789)
string calculatedFrom
    @lengthOf( Pad
    ) `two words` ,
string Z9_@lengthOf( int  )
    , }")).
Eval vm_compute in ("<<<T1868>>>" ++ terms [mkTok 35 "packet" 1 0 false; mkTok 42 "a1" 1 7 false; mkTok 44 (string_of_bytes [47; 47; 32; 230; 179; 168; 233; 135; 138]%N) 1 10 true; mkTok 2 "{" 2 0 false; mkTok 7 "@lengthOf(" 2 1 false; mkTok 44 (string_of_bytes [47; 47; 9; 116]%N) 3 4 true; mkTok 42 "trueish" 4 4 false; mkTok 6 ")" 5 0 false; mkTok 36 "repeat" 5 2 false; mkTok 42 "Header" 5 9 false; mkTok 2 "{" 5 15 false; mkTok 20 "uint8" 5 17 false; mkTok 42 "packetx" 6 4 false; mkTok 40 "," 7 0 false; mkTok 38 "match" 7 1 false; mkTok 42 "len" 8 4 false; mkTok 17 "as" 9 0 false; mkTok 42 "u8x" 9 3 false; mkTok 2 "{" 9 8 false; mkTok 18 "[" 9 10 false; mkTok 44 "//" 10 4 true; mkTok 30 "255" 11 4 false; mkTok 40 "," 11 8 false; mkTok 31 """\n""" 12 4 false; mkTok 40 "," 12 8 false; mkTok 30 "42" 13 0 false; mkTok 13 "]" 13 2 false; mkTok 39 ":" 13 4 false; mkTok 42 "f32a" 13 6 false; mkTok 40 "," 13 10 false; mkTok 18 "[" 13 11 false; mkTok 30 "42" 13 13 false; mkTok 40 "," 13 16 false; mkTok 30 "42" 13 17 false; mkTok 13 "]" 13 19 false; mkTok 39 ":" 14 0 false; mkTok 42 "u" 14 2 false; mkTok 40 "," 14 4 false; mkTok 31 (string_of_bytes [34; 92; 195; 169; 34]%N) 14 5 false; mkTok 39 ":" 14 10 false; mkTok 42 "asx" 14 12 false; mkTok 31 """abc""" 15 4 false; mkTok 39 ":" 16 0 false; mkTok 42 "u128" 16 1 false; mkTok 40 "," 17 0 false; mkTok 3 "}" 17 1 false; mkTok 40 "," 17 3 false; mkTok 3 "}" 17 5 false; mkTok 40 "," 17 7 false; mkTok 7 "@lengthOf(" 17 9 false; mkTok 42 "Header" 17 20 false; mkTok 6 ")" 17 26 false; mkTok 36 "repeat" 18 4 false; mkTok 44 (string_of_bytes [47; 47; 32; 230; 179; 168; 233; 135; 138]%N) 18 11 true; mkTok 23 "uint64" 19 0 false; mkTok 42 "int" 19 7 false; mkTok 40 "," 19 11 false; mkTok 36 "repeat" 20 4 false; mkTok 42 "options1" 20 11 false; mkTok 43 "`say ""hi""`" 20 20 false; mkTok 40 "," 20 30 false; mkTok 7 "@lengthOf(" 20 32 false; mkTok 42 "msg_type" 20 43 false; mkTok 6 ")" 20 52 false; mkTok 38 "match" 20 54 false; mkTok 44 "// packet A { u8 x, }" 20 60 true; mkTok 42 "Pad" 21 0 false; mkTok 17 "as" 21 4 false; mkTok 42 "rootA" 21 7 false; mkTok 2 "{" 21 13 false; mkTok 30 "1" 21 15 false; mkTok 39 ":" 21 17 false; mkTok 42 "metadata" 21 18 false; mkTok 31 """abc""" 21 27 false; mkTok 39 ":" 21 33 false; mkTok 42 "As" 21 35 false; mkTok 31 """x y""" 21 38 false; mkTok 39 ":" 22 0 false; mkTok 42 "tag" 22 3 false; mkTok 40 "," 22 6 false; mkTok 30 "007" 22 7 false; mkTok 39 ":" 23 0 false; mkTok 42 "tag" 23 2 false; mkTok 44 (string_of_bytes [47; 47; 32; 240; 159; 152; 128; 32; 101; 109; 111; 106; 105]%N) 23 5 true; mkTok 40 "," 24 0 false; mkTok 30 "1" 25 0 false; mkTok 39 ":" 25 2 false; mkTok 42 "i64_" 25 3 false; mkTok 40 "," 25 7 false; mkTok 3 "}" 26 4 false; mkTok 40 "," 26 6 false; mkTok 42 "string_" 26 8 false; mkTok 42 "crc" 26 16 false; mkTok 40 "," 27 4 false; mkTok 36 "repeat" 27 6 false; mkTok 24 "int8" 27 13 false; mkTok 42 "len" 27 18 false; mkTok 40 "," 27 22 false; mkTok 14 "zchar[" 27 23 false; mkTok 30 "42" 27 29 false; mkTok 13 "]" 27 32 false; mkTok 42 "a1" 28 4 false; mkTok 40 "," 28 7 false; mkTok 3 "}" 29 0 false; mkTok 37 "MetaData" 29 2 false; mkTok 42 "Z9_" 30 0 false; mkTok 2 "{" 30 4 false; mkTok 21 "uint16" 30 6 false; mkTok 42 "crc" 30 13 false; mkTok 40 "," 30 17 false; mkTok 21 "u16" 30 18 false; mkTok 42 "i64_" 30 22 false; mkTok 40 "," 30 27 false; mkTok 22 "u32" 30 29 false; mkTok 42 "i64_" 30 33 false; mkTok 40 "," 30 38 false; mkTok 3 "}" 30 39 false; mkTok 35 "packet" 30 42 false; mkTok 42 "chars" 30 49 false; mkTok 2 "{" 30 55 false; mkTok 32 "@leftPad" 30 57 false; mkTok 8 "(" 31 0 false; mkTok 33 "' '" 31 2 false; mkTok 6 ")" 31 6 false; mkTok 22 "u32" 31 8 false; mkTok 42 "roots" 31 12 false; mkTok 43 (string_of_bytes [96; 108; 105; 110; 101; 49; 10; 108; 105; 110; 101; 50; 96]%N) 31 18 false; mkTok 40 "," 32 7 false; mkTok 38 "match" 32 8 false; mkTok 42 "pack" 33 0 false; mkTok 44 (string_of_bytes [47; 47; 32; 230; 179; 168; 233; 135; 138]%N) 33 4 true; mkTok 17 "as" 34 0 false; mkTok 42 "MetaDataX" 34 3 false; mkTok 2 "{" 35 4 false; mkTok 31 """\n""" 35 5 false; mkTok 39 ":" 35 10 false; mkTok 42 "u" 36 0 false; mkTok 30 "10" 37 0 false; mkTok 39 ":" 37 3 false; mkTok 42 "lengthOf" 37 4 false; mkTok 44 "// `tick` ""quote"" 'q'" 37 13 true; mkTok 40 "," 38 0 false; mkTok 30 "00" 38 2 false; mkTok 39 ":" 39 0 false; mkTok 42 "tag" 39 2 false; mkTok 44 (string_of_bytes [47; 47; 32; 230; 179; 168; 233; 135; 138]%N) 39 6 true; mkTok 40 "," 40 0 false; mkTok 3 "}" 41 0 false; mkTok 40 "," 41 2 false; mkTok 7 "@lengthOf(" 41 3 false; mkTok 42 "Foo" 41 13 false; mkTok 6 ")" 41 17 false; mkTok 20 "uint8" 41 18 false; mkTok 42 "leftPad" 41 24 false; mkTok 44 (string_of_bytes [47; 47; 32; 240; 159; 152; 128; 32; 101; 109; 111; 106; 105]%N) 42 4 true; mkTok 43 "`{ , }`" 43 4 false; mkTok 40 "," 43 12 false; mkTok 9 "@tag(" 43 14 false; mkTok 44 (string_of_bytes [47; 47; 32; 240; 159; 152; 128; 32; 101; 109; 111; 106; 105]%N) 43 20 true; mkTok 30 "1" 44 0 false; mkTok 6 ")" 45 0 false; mkTok 32 "@rightPad" 45 2 false; mkTok 8 "(" 45 12 false; mkTok 33 "' '" 45 13 false; mkTok 6 ")" 45 17 false; mkTok 32 "@rightPad" 46 0 false; mkTok 8 "(" 46 9 false; mkTok 33 "'\x00'" 46 12 false; mkTok 6 ")" 46 18 false; mkTok 42 "asx" 46 20 false; mkTok 2 "{" 46 24 false; mkTok 14 "zchar[" 46 26 false; mkTok 30 "10" 47 4 false; mkTok 13 "]" 47 6 false; mkTok 42 "Packet" 48 0 false; mkTok 40 "," 48 7 false; mkTok 44 "// @lengthOf(" 48 9 true; mkTok 20 "uint8" 49 0 false; mkTok 42 "len" 50 4 false; mkTok 7 "@lengthOf(" 50 7 false; mkTok 42 "T" 50 18 false; mkTok 6 ")" 51 4 false; mkTok 40 "," 51 6 false; mkTok 3 "}" 51 8 false; mkTok 40 "," 51 10 false; mkTok 7 "@lengthOf(" 51 12 false; mkTok 42 "pack" 51 23 false; mkTok 6 ")" 52 0 false; mkTok 14 "zchar[" 52 2 false; mkTok 30 "42" 52 9 false; mkTok 13 "]" 52 12 false; mkTok 42 "float" 53 4 false; mkTok 44 "// c" 53 9 true; mkTok 5 "@calculatedFrom(" 54 0 false; mkTok 31 """x y""" 54 17 false; mkTok 6 ")" 55 4 false; mkTok 40 "," 56 4 false; mkTok 3 "}" 56 5 false; mkTok 34 "root" 56 7 false; mkTok 35 "packet" 57 4 false; mkTok 42 "f32a" 57 11 false; mkTok 2 "{" 57 16 false; mkTok 7 "@lengthOf(" 58 0 false; mkTok 44 "// @lengthOf(" 59 0 true; mkTok 44 "// trailing space " 60 0 true; mkTok 42 "T" 61 0 false; mkTok 6 ")" 62 0 false; mkTok 19 "char" 62 1 false; mkTok 42 "T" 62 6 false; mkTok 5 "@calculatedFrom(" 63 0 false; mkTok 31 """it's""" 63 17 false; mkTok 6 ")" 63 24 false; mkTok 40 "," 63 25 false; mkTok 36 "repeat" 63 27 false; mkTok 26 "i32" 63 34 false; mkTok 42 "charz" 63 38 false; mkTok 43 (string_of_bytes [96; 99; 114; 108; 102; 13; 10; 108; 105; 110; 101; 96]%N) 63 44 false; mkTok 40 "," 64 5 false; mkTok 36 "repeat" 64 6 false; mkTok 15 "string" 64 13 false; mkTok 42 "tag" 65 4 false; mkTok 40 "," 65 8 false; mkTok 32 "@rightPad" 65 9 false; mkTok 8 "(" 65 18 false; mkTok 6 ")" 65 19 false; mkTok 32 "@leftPad" 66 4 false; mkTok 8 "(" 66 13 false; mkTok 6 ")" 66 15 false; mkTok 9 "@tag(" 66 16 false; mkTok 30 "0123456789" 66 22 false; mkTok 6 ")" 66 32 false; mkTok 15 "string" 67 0 false; mkTok 42 "calculatedFrom" 67 7 false; mkTok 7 "@lengthOf(" 68 4 false; mkTok 42 "Pad" 68 15 false; mkTok 6 ")" 69 4 false; mkTok 43 "`two words`" 69 6 false; mkTok 40 "," 69 18 false; mkTok 15 "string" 70 0 false; mkTok 42 "Z9_" 70 7 false; mkTok 7 "@lengthOf(" 70 10 false; mkTok 42 "int" 70 21 false; mkTok 6 ")" 70 26 false; mkTok 40 "," 71 4 false; mkTok 3 "}" 71 6 false; mkTok 0 "<EOF>" 71 7 false] (mkPacket (mkPtok 35 "packet" 1 0 0) (Some (mkPtok 3 "}" 71 6 244)) [(DPacket (mkPacketDef (mkSpan (mkPtok 35 "packet" 1 0 0) (mkPtok 3 "}" 29 0 103)) None (mkPtok 35 "packet" 1 0 0) (mkPtok 42 "a1" 1 7 1) (mkPtok 2 "{" 2 0 3) [(mkFieldWithAttr (mkSpan (mkPtok 7 "@lengthOf(" 2 1 4) (mkPtok 40 "," 17 7 48)) [(FALengthOf (mkSpan (mkPtok 7 "@lengthOf(" 2 1 4) (mkPtok 6 ")" 5 0 7)) (mkLengthOf (mkSpan (mkPtok 7 "@lengthOf(" 2 1 4) (mkPtok 6 ")" 5 0 7)) (mkPtok 7 "@lengthOf(" 2 1 4) (mkPtok 42 "trueish" 4 4 6) (mkPtok 6 ")" 5 0 7)))] (InerObjectField (mkSpan (mkPtok 36 "repeat" 5 2 8) (mkPtok 40 "," 17 7 48)) (Some (mkPtok 36 "repeat" 5 2 8)) (InerObjectDecl (mkSpan (mkPtok 42 "Header" 5 9 9) (mkPtok 3 "}" 17 5 47)) (mkPtok 42 "Header" 5 9 9) (mkPtok 2 "{" 5 15 10) [(MetaField (mkSpan (mkPtok 20 "uint8" 5 17 11) (mkPtok 40 "," 7 0 13)) None (mkMetaDecl (mkSpan (mkPtok 20 "uint8" 5 17 11) (mkPtok 40 "," 7 0 13)) (TyBasic (mkSpan (mkPtok 20 "uint8" 5 17 11) (mkPtok 20 "uint8" 5 17 11)) (mkBasicType (mkSpan (mkPtok 20 "uint8" 5 17 11) (mkPtok 20 "uint8" 5 17 11)) (mkPtok 20 "uint8" 5 17 11))) (mkPtok 42 "packetx" 6 4 12) None (mkPtok 40 "," 7 0 13))); (MatchField (mkSpan (mkPtok 38 "match" 7 1 14) (mkPtok 40 "," 17 3 46)) (mkMatchFieldDecl (mkSpan (mkPtok 38 "match" 7 1 14) (mkPtok 3 "}" 17 1 45)) (mkPtok 38 "match" 7 1 14) (mkPtok 42 "len" 8 4 15) (mkPtok 17 "as" 9 0 16) (mkPtok 42 "u8x" 9 3 17) (mkPtok 2 "{" 9 8 18) [(mkMatchPair (mkSpan (mkPtok 18 "[" 9 10 19) (mkPtok 40 "," 13 10 29)) (MKList (mkKeyList (mkSpan (mkPtok 18 "[" 9 10 19) (mkPtok 13 "]" 13 2 26)) (mkPtok 18 "[" 9 10 19) (mkPtok 30 "255" 11 4 21) [((mkPtok 40 "," 11 8 22), (mkPtok 31 """\n""" 12 4 23)); ((mkPtok 40 "," 12 8 24), (mkPtok 30 "42" 13 0 25))] (mkPtok 13 "]" 13 2 26))) (mkPtok 39 ":" 13 4 27) (mkPtok 42 "f32a" 13 6 28) (Some (mkPtok 40 "," 13 10 29))); (mkMatchPair (mkSpan (mkPtok 18 "[" 13 11 30) (mkPtok 40 "," 14 4 37)) (MKList (mkKeyList (mkSpan (mkPtok 18 "[" 13 11 30) (mkPtok 13 "]" 13 19 34)) (mkPtok 18 "[" 13 11 30) (mkPtok 30 "42" 13 13 31) [((mkPtok 40 "," 13 16 32), (mkPtok 30 "42" 13 17 33))] (mkPtok 13 "]" 13 19 34))) (mkPtok 39 ":" 14 0 35) (mkPtok 42 "u" 14 2 36) (Some (mkPtok 40 "," 14 4 37))); (mkMatchPair (mkSpan (mkPtok 31 (string_of_bytes [34; 92; 195; 169; 34]%N) 14 5 38) (mkPtok 42 "asx" 14 12 40)) (MKString (mkPtok 31 (string_of_bytes [34; 92; 195; 169; 34]%N) 14 5 38)) (mkPtok 39 ":" 14 10 39) (mkPtok 42 "asx" 14 12 40) None); (mkMatchPair (mkSpan (mkPtok 31 """abc""" 15 4 41) (mkPtok 40 "," 17 0 44)) (MKString (mkPtok 31 """abc""" 15 4 41)) (mkPtok 39 ":" 16 0 42) (mkPtok 42 "u128" 16 1 43) (Some (mkPtok 40 "," 17 0 44)))] (mkPtok 3 "}" 17 1 45)) (mkPtok 40 "," 17 3 46))] (mkPtok 3 "}" 17 5 47)) (mkPtok 40 "," 17 7 48))); (mkFieldWithAttr (mkSpan (mkPtok 7 "@lengthOf(" 17 9 49) (mkPtok 40 "," 19 11 56)) [(FALengthOf (mkSpan (mkPtok 7 "@lengthOf(" 17 9 49) (mkPtok 6 ")" 17 26 51)) (mkLengthOf (mkSpan (mkPtok 7 "@lengthOf(" 17 9 49) (mkPtok 6 ")" 17 26 51)) (mkPtok 7 "@lengthOf(" 17 9 49) (mkPtok 42 "Header" 17 20 50) (mkPtok 6 ")" 17 26 51)))] (MetaField (mkSpan (mkPtok 36 "repeat" 18 4 52) (mkPtok 40 "," 19 11 56)) (Some (mkPtok 36 "repeat" 18 4 52)) (mkMetaDecl (mkSpan (mkPtok 23 "uint64" 19 0 54) (mkPtok 40 "," 19 11 56)) (TyBasic (mkSpan (mkPtok 23 "uint64" 19 0 54) (mkPtok 23 "uint64" 19 0 54)) (mkBasicType (mkSpan (mkPtok 23 "uint64" 19 0 54) (mkPtok 23 "uint64" 19 0 54)) (mkPtok 23 "uint64" 19 0 54))) (mkPtok 42 "int" 19 7 55) None (mkPtok 40 "," 19 11 56)))); (mkFieldWithAttr (mkSpan (mkPtok 36 "repeat" 20 4 57) (mkPtok 40 "," 20 30 60)) [] (ObjectField (mkSpan (mkPtok 36 "repeat" 20 4 57) (mkPtok 40 "," 20 30 60)) (Some (mkPtok 36 "repeat" 20 4 57)) (mkPtok 42 "options1" 20 11 58) None (Some (mkPtok 43 "`say ""hi""`" 20 20 59)) (mkPtok 40 "," 20 30 60))); (mkFieldWithAttr (mkSpan (mkPtok 7 "@lengthOf(" 20 32 61) (mkPtok 40 "," 26 6 90)) [(FALengthOf (mkSpan (mkPtok 7 "@lengthOf(" 20 32 61) (mkPtok 6 ")" 20 52 63)) (mkLengthOf (mkSpan (mkPtok 7 "@lengthOf(" 20 32 61) (mkPtok 6 ")" 20 52 63)) (mkPtok 7 "@lengthOf(" 20 32 61) (mkPtok 42 "msg_type" 20 43 62) (mkPtok 6 ")" 20 52 63)))] (MatchField (mkSpan (mkPtok 38 "match" 20 54 64) (mkPtok 40 "," 26 6 90)) (mkMatchFieldDecl (mkSpan (mkPtok 38 "match" 20 54 64) (mkPtok 3 "}" 26 4 89)) (mkPtok 38 "match" 20 54 64) (mkPtok 42 "Pad" 21 0 66) (mkPtok 17 "as" 21 4 67) (mkPtok 42 "rootA" 21 7 68) (mkPtok 2 "{" 21 13 69) [(mkMatchPair (mkSpan (mkPtok 30 "1" 21 15 70) (mkPtok 42 "metadata" 21 18 72)) (MKDigits (mkPtok 30 "1" 21 15 70)) (mkPtok 39 ":" 21 17 71) (mkPtok 42 "metadata" 21 18 72) None); (mkMatchPair (mkSpan (mkPtok 31 """abc""" 21 27 73) (mkPtok 42 "As" 21 35 75)) (MKString (mkPtok 31 """abc""" 21 27 73)) (mkPtok 39 ":" 21 33 74) (mkPtok 42 "As" 21 35 75) None); (mkMatchPair (mkSpan (mkPtok 31 """x y""" 21 38 76) (mkPtok 40 "," 22 6 79)) (MKString (mkPtok 31 """x y""" 21 38 76)) (mkPtok 39 ":" 22 0 77) (mkPtok 42 "tag" 22 3 78) (Some (mkPtok 40 "," 22 6 79))); (mkMatchPair (mkSpan (mkPtok 30 "007" 22 7 80) (mkPtok 40 "," 24 0 84)) (MKDigits (mkPtok 30 "007" 22 7 80)) (mkPtok 39 ":" 23 0 81) (mkPtok 42 "tag" 23 2 82) (Some (mkPtok 40 "," 24 0 84))); (mkMatchPair (mkSpan (mkPtok 30 "1" 25 0 85) (mkPtok 40 "," 25 7 88)) (MKDigits (mkPtok 30 "1" 25 0 85)) (mkPtok 39 ":" 25 2 86) (mkPtok 42 "i64_" 25 3 87) (Some (mkPtok 40 "," 25 7 88)))] (mkPtok 3 "}" 26 4 89)) (mkPtok 40 "," 26 6 90))); (mkFieldWithAttr (mkSpan (mkPtok 42 "string_" 26 8 91) (mkPtok 40 "," 27 4 93)) [] (ObjectField (mkSpan (mkPtok 42 "string_" 26 8 91) (mkPtok 40 "," 27 4 93)) None (mkPtok 42 "string_" 26 8 91) (Some (mkPtok 42 "crc" 26 16 92)) None (mkPtok 40 "," 27 4 93))); (mkFieldWithAttr (mkSpan (mkPtok 36 "repeat" 27 6 94) (mkPtok 40 "," 27 22 97)) [] (MetaField (mkSpan (mkPtok 36 "repeat" 27 6 94) (mkPtok 40 "," 27 22 97)) (Some (mkPtok 36 "repeat" 27 6 94)) (mkMetaDecl (mkSpan (mkPtok 24 "int8" 27 13 95) (mkPtok 40 "," 27 22 97)) (TyBasic (mkSpan (mkPtok 24 "int8" 27 13 95) (mkPtok 24 "int8" 27 13 95)) (mkBasicType (mkSpan (mkPtok 24 "int8" 27 13 95) (mkPtok 24 "int8" 27 13 95)) (mkPtok 24 "int8" 27 13 95))) (mkPtok 42 "len" 27 18 96) None (mkPtok 40 "," 27 22 97)))); (mkFieldWithAttr (mkSpan (mkPtok 14 "zchar[" 27 23 98) (mkPtok 40 "," 28 7 102)) [] (MetaField (mkSpan (mkPtok 14 "zchar[" 27 23 98) (mkPtok 40 "," 28 7 102)) None (mkMetaDecl (mkSpan (mkPtok 14 "zchar[" 27 23 98) (mkPtok 40 "," 28 7 102)) (TyFixed (mkSpan (mkPtok 14 "zchar[" 27 23 98) (mkPtok 13 "]" 27 32 100)) (mkFixedString (mkSpan (mkPtok 14 "zchar[" 27 23 98) (mkPtok 13 "]" 27 32 100)) (mkPtok 14 "zchar[" 27 23 98) (mkPtok 30 "42" 27 29 99) (mkPtok 13 "]" 27 32 100))) (mkPtok 42 "a1" 28 4 101) None (mkPtok 40 "," 28 7 102))))] (mkPtok 3 "}" 29 0 103))); (DMeta (mkMetaDef (mkSpan (mkPtok 37 "MetaData" 29 2 104) (mkPtok 3 "}" 30 39 116)) (mkPtok 37 "MetaData" 29 2 104) (mkPtok 42 "Z9_" 30 0 105) (mkPtok 2 "{" 30 4 106) [(MIDecl (mkMetaDecl (mkSpan (mkPtok 21 "uint16" 30 6 107) (mkPtok 40 "," 30 17 109)) (TyBasic (mkSpan (mkPtok 21 "uint16" 30 6 107) (mkPtok 21 "uint16" 30 6 107)) (mkBasicType (mkSpan (mkPtok 21 "uint16" 30 6 107) (mkPtok 21 "uint16" 30 6 107)) (mkPtok 21 "uint16" 30 6 107))) (mkPtok 42 "crc" 30 13 108) None (mkPtok 40 "," 30 17 109))); (MIDecl (mkMetaDecl (mkSpan (mkPtok 21 "u16" 30 18 110) (mkPtok 40 "," 30 27 112)) (TyBasic (mkSpan (mkPtok 21 "u16" 30 18 110) (mkPtok 21 "u16" 30 18 110)) (mkBasicType (mkSpan (mkPtok 21 "u16" 30 18 110) (mkPtok 21 "u16" 30 18 110)) (mkPtok 21 "u16" 30 18 110))) (mkPtok 42 "i64_" 30 22 111) None (mkPtok 40 "," 30 27 112))); (MIDecl (mkMetaDecl (mkSpan (mkPtok 22 "u32" 30 29 113) (mkPtok 40 "," 30 38 115)) (TyBasic (mkSpan (mkPtok 22 "u32" 30 29 113) (mkPtok 22 "u32" 30 29 113)) (mkBasicType (mkSpan (mkPtok 22 "u32" 30 29 113) (mkPtok 22 "u32" 30 29 113)) (mkPtok 22 "u32" 30 29 113))) (mkPtok 42 "i64_" 30 33 114) None (mkPtok 40 "," 30 38 115)))] (mkPtok 3 "}" 30 39 116))); (DPacket (mkPacketDef (mkSpan (mkPtok 35 "packet" 30 42 117) (mkPtok 3 "}" 56 5 197)) None (mkPtok 35 "packet" 30 42 117) (mkPtok 42 "chars" 30 49 118) (mkPtok 2 "{" 30 55 119) [(mkFieldWithAttr (mkSpan (mkPtok 32 "@leftPad" 30 57 120) (mkPtok 40 "," 32 7 127)) [(FAPadding (mkSpan (mkPtok 32 "@leftPad" 30 57 120) (mkPtok 6 ")" 31 6 123)) (mkPaddingAttr (mkSpan (mkPtok 32 "@leftPad" 30 57 120) (mkPtok 6 ")" 31 6 123)) (mkPtok 32 "@leftPad" 30 57 120) (mkPtok 8 "(" 31 0 121) (Some (mkPtok 33 "' '" 31 2 122)) (mkPtok 6 ")" 31 6 123)))] (MetaField (mkSpan (mkPtok 22 "u32" 31 8 124) (mkPtok 40 "," 32 7 127)) None (mkMetaDecl (mkSpan (mkPtok 22 "u32" 31 8 124) (mkPtok 40 "," 32 7 127)) (TyBasic (mkSpan (mkPtok 22 "u32" 31 8 124) (mkPtok 22 "u32" 31 8 124)) (mkBasicType (mkSpan (mkPtok 22 "u32" 31 8 124) (mkPtok 22 "u32" 31 8 124)) (mkPtok 22 "u32" 31 8 124))) (mkPtok 42 "roots" 31 12 125) (Some (mkPtok 43 (string_of_bytes [96; 108; 105; 110; 101; 49; 10; 108; 105; 110; 101; 50; 96]%N) 31 18 126)) (mkPtok 40 "," 32 7 127)))); (mkFieldWithAttr (mkSpan (mkPtok 38 "match" 32 8 128) (mkPtok 40 "," 41 2 148)) [] (MatchField (mkSpan (mkPtok 38 "match" 32 8 128) (mkPtok 40 "," 41 2 148)) (mkMatchFieldDecl (mkSpan (mkPtok 38 "match" 32 8 128) (mkPtok 3 "}" 41 0 147)) (mkPtok 38 "match" 32 8 128) (mkPtok 42 "pack" 33 0 129) (mkPtok 17 "as" 34 0 131) (mkPtok 42 "MetaDataX" 34 3 132) (mkPtok 2 "{" 35 4 133) [(mkMatchPair (mkSpan (mkPtok 31 """\n""" 35 5 134) (mkPtok 42 "u" 36 0 136)) (MKString (mkPtok 31 """\n""" 35 5 134)) (mkPtok 39 ":" 35 10 135) (mkPtok 42 "u" 36 0 136) None); (mkMatchPair (mkSpan (mkPtok 30 "10" 37 0 137) (mkPtok 40 "," 38 0 141)) (MKDigits (mkPtok 30 "10" 37 0 137)) (mkPtok 39 ":" 37 3 138) (mkPtok 42 "lengthOf" 37 4 139) (Some (mkPtok 40 "," 38 0 141))); (mkMatchPair (mkSpan (mkPtok 30 "00" 38 2 142) (mkPtok 40 "," 40 0 146)) (MKDigits (mkPtok 30 "00" 38 2 142)) (mkPtok 39 ":" 39 0 143) (mkPtok 42 "tag" 39 2 144) (Some (mkPtok 40 "," 40 0 146)))] (mkPtok 3 "}" 41 0 147)) (mkPtok 40 "," 41 2 148))); (mkFieldWithAttr (mkSpan (mkPtok 7 "@lengthOf(" 41 3 149) (mkPtok 40 "," 43 12 156)) [(FALengthOf (mkSpan (mkPtok 7 "@lengthOf(" 41 3 149) (mkPtok 6 ")" 41 17 151)) (mkLengthOf (mkSpan (mkPtok 7 "@lengthOf(" 41 3 149) (mkPtok 6 ")" 41 17 151)) (mkPtok 7 "@lengthOf(" 41 3 149) (mkPtok 42 "Foo" 41 13 150) (mkPtok 6 ")" 41 17 151)))] (MetaField (mkSpan (mkPtok 20 "uint8" 41 18 152) (mkPtok 40 "," 43 12 156)) None (mkMetaDecl (mkSpan (mkPtok 20 "uint8" 41 18 152) (mkPtok 40 "," 43 12 156)) (TyBasic (mkSpan (mkPtok 20 "uint8" 41 18 152) (mkPtok 20 "uint8" 41 18 152)) (mkBasicType (mkSpan (mkPtok 20 "uint8" 41 18 152) (mkPtok 20 "uint8" 41 18 152)) (mkPtok 20 "uint8" 41 18 152))) (mkPtok 42 "leftPad" 41 24 153) (Some (mkPtok 43 "`{ , }`" 43 4 155)) (mkPtok 40 "," 43 12 156)))); (mkFieldWithAttr (mkSpan (mkPtok 9 "@tag(" 43 14 157) (mkPtok 40 "," 51 10 184)) [(FATag (mkSpan (mkPtok 9 "@tag(" 43 14 157) (mkPtok 6 ")" 45 0 160)) (mkTagAttr (mkSpan (mkPtok 9 "@tag(" 43 14 157) (mkPtok 6 ")" 45 0 160)) (mkPtok 9 "@tag(" 43 14 157) (mkPtok 30 "1" 44 0 159) (mkPtok 6 ")" 45 0 160))); (FAPadding (mkSpan (mkPtok 32 "@rightPad" 45 2 161) (mkPtok 6 ")" 45 17 164)) (mkPaddingAttr (mkSpan (mkPtok 32 "@rightPad" 45 2 161) (mkPtok 6 ")" 45 17 164)) (mkPtok 32 "@rightPad" 45 2 161) (mkPtok 8 "(" 45 12 162) (Some (mkPtok 33 "' '" 45 13 163)) (mkPtok 6 ")" 45 17 164))); (FAPadding (mkSpan (mkPtok 32 "@rightPad" 46 0 165) (mkPtok 6 ")" 46 18 168)) (mkPaddingAttr (mkSpan (mkPtok 32 "@rightPad" 46 0 165) (mkPtok 6 ")" 46 18 168)) (mkPtok 32 "@rightPad" 46 0 165) (mkPtok 8 "(" 46 9 166) (Some (mkPtok 33 "'\x00'" 46 12 167)) (mkPtok 6 ")" 46 18 168)))] (InerObjectField (mkSpan (mkPtok 42 "asx" 46 20 169) (mkPtok 40 "," 51 10 184)) None (InerObjectDecl (mkSpan (mkPtok 42 "asx" 46 20 169) (mkPtok 3 "}" 51 8 183)) (mkPtok 42 "asx" 46 20 169) (mkPtok 2 "{" 46 24 170) [(MetaField (mkSpan (mkPtok 14 "zchar[" 46 26 171) (mkPtok 40 "," 48 7 175)) None (mkMetaDecl (mkSpan (mkPtok 14 "zchar[" 46 26 171) (mkPtok 40 "," 48 7 175)) (TyFixed (mkSpan (mkPtok 14 "zchar[" 46 26 171) (mkPtok 13 "]" 47 6 173)) (mkFixedString (mkSpan (mkPtok 14 "zchar[" 46 26 171) (mkPtok 13 "]" 47 6 173)) (mkPtok 14 "zchar[" 46 26 171) (mkPtok 30 "10" 47 4 172) (mkPtok 13 "]" 47 6 173))) (mkPtok 42 "Packet" 48 0 174) None (mkPtok 40 "," 48 7 175))); (LengthField (mkSpan (mkPtok 20 "uint8" 49 0 177) (mkPtok 40 "," 51 6 182)) (mkLengthFieldDecl (mkSpan (mkPtok 20 "uint8" 49 0 177) (mkPtok 40 "," 51 6 182)) (Some (TyBasic (mkSpan (mkPtok 20 "uint8" 49 0 177) (mkPtok 20 "uint8" 49 0 177)) (mkBasicType (mkSpan (mkPtok 20 "uint8" 49 0 177) (mkPtok 20 "uint8" 49 0 177)) (mkPtok 20 "uint8" 49 0 177)))) (mkPtok 42 "len" 50 4 178) (mkLengthOf (mkSpan (mkPtok 7 "@lengthOf(" 50 7 179) (mkPtok 6 ")" 51 4 181)) (mkPtok 7 "@lengthOf(" 50 7 179) (mkPtok 42 "T" 50 18 180) (mkPtok 6 ")" 51 4 181)) None (mkPtok 40 "," 51 6 182)))] (mkPtok 3 "}" 51 8 183)) (mkPtok 40 "," 51 10 184))); (mkFieldWithAttr (mkSpan (mkPtok 7 "@lengthOf(" 51 12 185) (mkPtok 40 "," 56 4 196)) [(FALengthOf (mkSpan (mkPtok 7 "@lengthOf(" 51 12 185) (mkPtok 6 ")" 52 0 187)) (mkLengthOf (mkSpan (mkPtok 7 "@lengthOf(" 51 12 185) (mkPtok 6 ")" 52 0 187)) (mkPtok 7 "@lengthOf(" 51 12 185) (mkPtok 42 "pack" 51 23 186) (mkPtok 6 ")" 52 0 187)))] (CheckSumField (mkSpan (mkPtok 14 "zchar[" 52 2 188) (mkPtok 40 "," 56 4 196)) (mkChecksumFieldDecl (mkSpan (mkPtok 14 "zchar[" 52 2 188) (mkPtok 40 "," 56 4 196)) (Some (TyFixed (mkSpan (mkPtok 14 "zchar[" 52 2 188) (mkPtok 13 "]" 52 12 190)) (mkFixedString (mkSpan (mkPtok 14 "zchar[" 52 2 188) (mkPtok 13 "]" 52 12 190)) (mkPtok 14 "zchar[" 52 2 188) (mkPtok 30 "42" 52 9 189) (mkPtok 13 "]" 52 12 190)))) (mkPtok 42 "float" 53 4 191) (mkCalculatedFrom (mkSpan (mkPtok 5 "@calculatedFrom(" 54 0 193) (mkPtok 6 ")" 55 4 195)) (mkPtok 5 "@calculatedFrom(" 54 0 193) (mkPtok 31 """x y""" 54 17 194) (mkPtok 6 ")" 55 4 195)) None (mkPtok 40 "," 56 4 196))))] (mkPtok 3 "}" 56 5 197))); (DPacket (mkPacketDef (mkSpan (mkPtok 34 "root" 56 7 198) (mkPtok 3 "}" 71 6 244)) (Some (mkPtok 34 "root" 56 7 198)) (mkPtok 35 "packet" 57 4 199) (mkPtok 42 "f32a" 57 11 200) (mkPtok 2 "{" 57 16 201) [(mkFieldWithAttr (mkSpan (mkPtok 7 "@lengthOf(" 58 0 202) (mkPtok 40 "," 63 25 212)) [(FALengthOf (mkSpan (mkPtok 7 "@lengthOf(" 58 0 202) (mkPtok 6 ")" 62 0 206)) (mkLengthOf (mkSpan (mkPtok 7 "@lengthOf(" 58 0 202) (mkPtok 6 ")" 62 0 206)) (mkPtok 7 "@lengthOf(" 58 0 202) (mkPtok 42 "T" 61 0 205) (mkPtok 6 ")" 62 0 206)))] (CheckSumField (mkSpan (mkPtok 19 "char" 62 1 207) (mkPtok 40 "," 63 25 212)) (mkChecksumFieldDecl (mkSpan (mkPtok 19 "char" 62 1 207) (mkPtok 40 "," 63 25 212)) (Some (TyBasic (mkSpan (mkPtok 19 "char" 62 1 207) (mkPtok 19 "char" 62 1 207)) (mkBasicType (mkSpan (mkPtok 19 "char" 62 1 207) (mkPtok 19 "char" 62 1 207)) (mkPtok 19 "char" 62 1 207)))) (mkPtok 42 "T" 62 6 208) (mkCalculatedFrom (mkSpan (mkPtok 5 "@calculatedFrom(" 63 0 209) (mkPtok 6 ")" 63 24 211)) (mkPtok 5 "@calculatedFrom(" 63 0 209) (mkPtok 31 """it's""" 63 17 210) (mkPtok 6 ")" 63 24 211)) None (mkPtok 40 "," 63 25 212)))); (mkFieldWithAttr (mkSpan (mkPtok 36 "repeat" 63 27 213) (mkPtok 40 "," 64 5 217)) [] (MetaField (mkSpan (mkPtok 36 "repeat" 63 27 213) (mkPtok 40 "," 64 5 217)) (Some (mkPtok 36 "repeat" 63 27 213)) (mkMetaDecl (mkSpan (mkPtok 26 "i32" 63 34 214) (mkPtok 40 "," 64 5 217)) (TyBasic (mkSpan (mkPtok 26 "i32" 63 34 214) (mkPtok 26 "i32" 63 34 214)) (mkBasicType (mkSpan (mkPtok 26 "i32" 63 34 214) (mkPtok 26 "i32" 63 34 214)) (mkPtok 26 "i32" 63 34 214))) (mkPtok 42 "charz" 63 38 215) (Some (mkPtok 43 (string_of_bytes [96; 99; 114; 108; 102; 13; 10; 108; 105; 110; 101; 96]%N) 63 44 216)) (mkPtok 40 "," 64 5 217)))); (mkFieldWithAttr (mkSpan (mkPtok 36 "repeat" 64 6 218) (mkPtok 40 "," 65 8 221)) [] (MetaField (mkSpan (mkPtok 36 "repeat" 64 6 218) (mkPtok 40 "," 65 8 221)) (Some (mkPtok 36 "repeat" 64 6 218)) (mkMetaDecl (mkSpan (mkPtok 15 "string" 64 13 219) (mkPtok 40 "," 65 8 221)) (TyDynamic (mkSpan (mkPtok 15 "string" 64 13 219) (mkPtok 15 "string" 64 13 219)) (mkDynamicString (mkSpan (mkPtok 15 "string" 64 13 219) (mkPtok 15 "string" 64 13 219)) (mkPtok 15 "string" 64 13 219))) (mkPtok 42 "tag" 65 4 220) None (mkPtok 40 "," 65 8 221)))); (mkFieldWithAttr (mkSpan (mkPtok 32 "@rightPad" 65 9 222) (mkPtok 40 "," 69 18 237)) [(FAPadding (mkSpan (mkPtok 32 "@rightPad" 65 9 222) (mkPtok 6 ")" 65 19 224)) (mkPaddingAttr (mkSpan (mkPtok 32 "@rightPad" 65 9 222) (mkPtok 6 ")" 65 19 224)) (mkPtok 32 "@rightPad" 65 9 222) (mkPtok 8 "(" 65 18 223) None (mkPtok 6 ")" 65 19 224))); (FAPadding (mkSpan (mkPtok 32 "@leftPad" 66 4 225) (mkPtok 6 ")" 66 15 227)) (mkPaddingAttr (mkSpan (mkPtok 32 "@leftPad" 66 4 225) (mkPtok 6 ")" 66 15 227)) (mkPtok 32 "@leftPad" 66 4 225) (mkPtok 8 "(" 66 13 226) None (mkPtok 6 ")" 66 15 227))); (FATag (mkSpan (mkPtok 9 "@tag(" 66 16 228) (mkPtok 6 ")" 66 32 230)) (mkTagAttr (mkSpan (mkPtok 9 "@tag(" 66 16 228) (mkPtok 6 ")" 66 32 230)) (mkPtok 9 "@tag(" 66 16 228) (mkPtok 30 "0123456789" 66 22 229) (mkPtok 6 ")" 66 32 230)))] (LengthField (mkSpan (mkPtok 15 "string" 67 0 231) (mkPtok 40 "," 69 18 237)) (mkLengthFieldDecl (mkSpan (mkPtok 15 "string" 67 0 231) (mkPtok 40 "," 69 18 237)) (Some (TyDynamic (mkSpan (mkPtok 15 "string" 67 0 231) (mkPtok 15 "string" 67 0 231)) (mkDynamicString (mkSpan (mkPtok 15 "string" 67 0 231) (mkPtok 15 "string" 67 0 231)) (mkPtok 15 "string" 67 0 231)))) (mkPtok 42 "calculatedFrom" 67 7 232) (mkLengthOf (mkSpan (mkPtok 7 "@lengthOf(" 68 4 233) (mkPtok 6 ")" 69 4 235)) (mkPtok 7 "@lengthOf(" 68 4 233) (mkPtok 42 "Pad" 68 15 234) (mkPtok 6 ")" 69 4 235)) (Some (mkPtok 43 "`two words`" 69 6 236)) (mkPtok 40 "," 69 18 237)))); (mkFieldWithAttr (mkSpan (mkPtok 15 "string" 70 0 238) (mkPtok 40 "," 71 4 243)) [] (LengthField (mkSpan (mkPtok 15 "string" 70 0 238) (mkPtok 40 "," 71 4 243)) (mkLengthFieldDecl (mkSpan (mkPtok 15 "string" 70 0 238) (mkPtok 40 "," 71 4 243)) (Some (TyDynamic (mkSpan (mkPtok 15 "string" 70 0 238) (mkPtok 15 "string" 70 0 238)) (mkDynamicString (mkSpan (mkPtok 15 "string" 70 0 238) (mkPtok 15 "string" 70 0 238)) (mkPtok 15 "string" 70 0 238)))) (mkPtok 42 "Z9_" 70 7 239) (mkLengthOf (mkSpan (mkPtok 7 "@lengthOf(" 70 10 240) (mkPtok 6 ")" 70 26 242)) (mkPtok 7 "@lengthOf(" 70 10 240) (mkPtok 42 "int" 70 21 241) (mkPtok 6 ")" 70 26 242)) None (mkPtok 40 "," 71 4 243))))] (mkPtok 3 "}" 71 6 244)))])).
Eval vm_compute in ("<<<M1900>>>" ++ check (runes_of_ascii "packet MetaDataX // a // b
{@leftPad ('\x00' ) zchar[ 0 ]
As `say ""hi""` , BodyLength// c
uint8x  ,
    // trailing space 
    packetx f32a
    , repeat string_
    u8x ``, lengthOf @lengthOf(	u )
`tab	here`	, char[/// triple
65535 ]x_y_z  `two words` ,
    @calculatedFrom( ""it's"")
    /// triple
    repeatCount @calculatedFrom( """ ++ [233]%N ++ runes_of_ascii "t" ++ [233]%N ++ runes_of_ascii """
// " ++ [27880; 37322]%N ++ runes_of_ascii "
//	t
)
,}")).
Eval vm_compute in ("<<<M1932>>>" ++ check (runes_of_ascii "root packet	Pad { @leftPad
    ( )tag
Packet	`
`,
}	packet
    // packet A { u8 x, }
    u128 {
@rightPad// @lengthOf(
( ) match f32a as	rootA { 4294967296 :
/// triple
// trailing space 
matchKey , 007 : msg_type	,
}, match metadata as u128 { ""it's"" : Header , }
    ,@rightPad	('0'
)@leftPad  ('\x00' // a // b
)	@lengthOf(
u8x ) Foo
, }")).
Eval vm_compute in ("<<<M1964>>>" ++ check (runes_of_ascii "
options { }
// " ++ [27880; 37322]%N ++ runes_of_ascii "
")).
Eval vm_compute in ("<<<M1996>>>" ++ check (@nil rune)).
Eval vm_compute in ("<<<M2028>>>" ++ check (runes_of_ascii "options{ i64_")).
Eval vm_compute in ("<<<M2060>>>" ++ check (runes_of_ascii "options{ i64_ = string ; trueish =
    '\x00'
    leftPad = = ""a\\"" /// triple
; crc
    = 255; uint8x
=
""abc""
    ;}")).
Eval vm_compute in ("<<<M2092>>>" ++ check (runes_of_ascii "options{ i64_ = string ; trueish =
    '\x00'
    leftPad = ""a\\"" /// triple
; crc
    = 255 i32 uint8x
=
""abc""
    ;}")).
Eval vm_compute in ("<<<M2124>>>" ++ check (runes_of_ascii "options{ i64_ = string ; trueish =
    '\x00'
    leftPad = ""a\\"" /// tripl/e
; crc
    = 255; uint8x
=
""abc""
    ;}")).
Eval vm_compute in ("<<<M2156>>>" ++ check (runes_of_ascii "  packet
asx
{
/// triple
// @lengthOf(
u32 u32 stringy
`" ++ [28040; 24687; 31867; 22411]%N ++ runes_of_ascii "` ,} MetaData
    A {string  _x, zchar Header `a\`
// @lengthOf(
// packet A { u8 x, }
, char[] MetaDataX
,zchar[ 1 ]
    matchKey
    , char[] //
u,	char[0123456789 ]
    matchKey
    `{ , }`, }
")).
Eval vm_compute in ("<<<M2188>>>" ++ check (runes_of_ascii "  packet
asx
{
/// triple
// @lengthOf(
u32 stringy
`" ++ [28040; 24687; 31867; 22411]%N ++ runes_of_ascii "` ,} MetaData
    float32 {string  _x, zchar Header `a\`
// @lengthOf(
// packet A { u8 x, }
, char[] MetaDataX
,zchar[ 1 ]
    matchKey
    , char[] //
u,	char[0123456789 ]
    matchKey
    `{ , }`, }
")).
Eval vm_compute in ("<<<M2220>>>" ++ check (runes_of_ascii "  packet
asx
{
/// triple
// @lengthOf(
u32 stringy
`" ++ [28040; 24687; 31867; 22411]%N ++ runes_of_ascii "` ,} MetaData
    A {string  _x, zchar Header 
// @lengthOf(
// packet A { u8 x, }
, char[] MetaDataX
,zchar[ 1 ]
    matchKey
    , char[] //
u,	char[0123456789 ]
    matchKey
    `{ , }`, }
")).
Eval vm_compute in ("<<<M2252>>>" ++ check (runes_of_ascii "  packet
asx
{
/// triple
// @lengthOf(
u32 stringy
`" ++ [28040; 24687; 31867; 22411]%N ++ runes_of_ascii "` ,} MetaData
    A {string  _x, zchar Header `a\`
// @lengthOf(
// packet A { u8 x, }
, char[] MetaDataX
,zchar[ ] 1
    matchKey
    , char[] //
u,	char[0123456789 ]
    matchKey
    `{ , }`, }
")).
Eval vm_compute in ("<<<M2284>>>" ++ check (runes_of_ascii "  packet
asx
{
/// triple
// @lengthOf(
u32 stringy
`" ++ [28040; 24687; 31867; 22411]%N ++ runes_of_ascii "` ,} MetaData
    A {string  _x, zchar Header `a\`
// @lengthOf(
// packet A { u8 x, }
, char[] MetaDataX
,zchar[ 1 ]
    matchKey
    , char[] //
u")).
Eval vm_compute in ("<<<M2316>>>" ++ check (runes_of_ascii "  packet
asx
{
/// triple
// @lengthOf(
u32 stringy
`" ++ [28040; 24687; 31867; 22411]%N ++ runes_of_ascii "` ,} MetaData
    A {string  _x, zchar Header `a\`
// @lengthOf(
// packet A { u8 x, }
, char[] MetaDataX
,zchar[ 1 ]
    matchKey
    , char[] //
u,	char[0123456789 ]
    matchKey
    `{ , }`, } }
")).
Eval vm_compute in ("<<<M2348>>>" ++ check (runes_of_ascii "root
    Packet
packet
{ // trailing space 
matchKey `tab	here` ,}")).
Eval vm_compute in ("<<<M2380>>>" ++ check (runes_of_ascii "root
    packet
Packet
{ // traili")).
Eval vm_compute in ("<<<M2412>>>" ++ check (runes_of_ascii "options{  // a // b
=
    '0' } options { repeatCount =
true ; string_// a // b
=
// c
// " ++ [27880; 37322]%N ++ runes_of_ascii "
int64
// trailing space 
/// triple
; } // @lengthOf(")).
Eval vm_compute in ("<<<M2444>>>" ++ check (runes_of_ascii "options{ falsey // a // b
=
    '0' } options { = repeatCount
true ; string_// a // b
=
// c
// " ++ [27880; 37322]%N ++ runes_of_ascii "
int64
// trailing space 
/// triple
; } // @lengthOf(")).
Eval vm_compute in ("<<<M2476>>>" ++ check (runes_of_ascii "options{ falsey // a // b
=
    '0' } options { repeatCount =
true ; string_// a // b
=")).
Eval vm_compute in ("<<<M2508>>>" ++ check (runes_of_ascii "{}root packet
metadata {
@lengthOf(x ) float32
body ``, }
    MetaData
Z9_
    {
    string string_ , Logon x
,
uint32
    // packet A { u8 x, }
    Z9_,asx
_x
    `tab	here` , }
")).
Eval vm_compute in ("<<<M2540>>>" ++ check (runes_of_ascii "options{}root packet
metadata @lengthOf(
{x ) float32
body ``, }
    MetaData
Z9_
    {
    string string_ , Logon x
,
uint32
    // packet A { u8 x, }
    Z9_,asx
_x
    `tab	here` , }
")).
Eval vm_compute in ("<<<M2572>>>" ++ check (runes_of_ascii "options{}root packet
metadata {
@lengthOf(x ) float32
body")).
Eval vm_compute in ("<<<M2604>>>" ++ check (runes_of_ascii "options{}root packet
metadata {
@lengthOf(x ) float32
body ``, }
    MetaData
Z9_
    {
    string string_ string_ , Logon x
,
uint32
    // packet A { u8 x, }
    Z9_,asx
_x
    `tab	here` , }
")).
Eval vm_compute in ("<<<M2636>>>" ++ check (runes_of_ascii "options{}root packet
metadata {
@lengthOf(x ) float32
body ``, }
    MetaData
Z9_
    {
    string string_ , Logon x
,
uint32
    // packet A { u8 x, }
    `tab	here`,asx
_x
    `tab	here` , }
")).
Eval vm_compute in ("<<<M2668>>>" ++ check (runes_of_ascii "options{}root packet
metadata {
@lengthOf(x ) float32
body ``, }
    MetaData
Z9_
    {
    string string_ , Logon x
,
uint32
    // packet A { u8 x, }
 ")).
Eval vm_compute in ("<<<M2700>>>" ++ check (runes_of_ascii "options {
    falsey falsey=
""a\\"" ; }")).
Eval vm_compute in ("<<<M2732>>>" ++ check (runes_of_ascii "options {
    falsey$ =
""a\\"" ; }")).
Eval vm_compute in ("<<<M2764>>>" ++ check (runes_of_ascii "MetaData f32a
{")).
Eval vm_compute in ("<<<M2796>>>" ++ check (runes_of_ascii "MetaData f32a
/ {
    //	t
    }root
    packet tag  {
}
")).
Eval vm_compute in ("<<<M2828>>>" ++ check (runes_of_ascii "
options
    {msg_type float32
    =  }root
packet Z9_{ char /// triple
crc @lengthOf(
options1 ) //
,} MetaData a1{}
")).
Eval vm_compute in ("<<<M2860>>>" ++ check (runes_of_ascii "
options
    {msg_type =
    float32  }root
packet Z9_")).
Eval vm_compute in ("<<<M2892>>>" ++ check (runes_of_ascii "
options
    {msg_type =
    float32  }root
packet Z9_{ char /// triple
crc @lengthOf(
options1 ) //
,} } MetaData a1{}
")).
Eval vm_compute in ("<<<M2924>>>" ++ check (runes_of_ascii "
options
    {msg_type =
    float32  }root
packet Z9_{ char /// triple
crc @lengthOf(
options1 ) //
@lengthOf ,} MetaData a1{}
")).
Eval vm_compute in ("<<<M2956>>>" ++ check (runes_of_ascii "packet crc{")).
Eval vm_compute in ("<<<M2988>>>" ++ check (runes_of_ascii "packet crc{ // " ++ [128512]%N ++ runes_of_ascii " emoji
repeat string i8i8
`a\`, }
@leftpad")).
Eval vm_compute in ("<<<M3020>>>" ++ check (runes_of_ascii "packet BodyLength {MetaData } zchar{ zchar[// @lengthOf(
42 ]
    pack , string_
A , char[]crc , _x trueish ,
// " ++ [27880; 37322]%N ++ runes_of_ascii "
// " ++ [128512]%N ++ runes_of_ascii " emoji
zchar[
    3 ]	T // trailing space 
, } packet body
{
    }
")).
Eval vm_compute in ("<<<M3052>>>" ++ check (runes_of_ascii "packet BodyLength {} MetaData zchar{ zchar[// @lengthOf(
42")).
Eval vm_compute in ("<<<M3084>>>" ++ check (runes_of_ascii "packet BodyLength {} MetaData zchar{ zchar[// @lengthOf(
42 ]
    pack , string_
A , char[]crc crc , _x trueish ,
// " ++ [27880; 37322]%N ++ runes_of_ascii "
// " ++ [128512]%N ++ runes_of_ascii " emoji
zchar[
    3 ]	T // trailing space 
, } packet body
{
    }
")).
Eval vm_compute in ("<<<M3116>>>" ++ check (runes_of_ascii "packet BodyLength {} MetaData zchar{ zchar[// @lengthOf(
42 ]
    pack , string_
A , char[]crc , _x trueish ,
// " ++ [27880; 37322]%N ++ runes_of_ascii "
// " ++ [128512]%N ++ runes_of_ascii " emoji
zchar[
    int32 ]	T // trailing space 
, } packet body
{
    }
")).
Eval vm_compute in ("<<<M3148>>>" ++ check (runes_of_ascii "packet BodyLength {} MetaData zchar{ zchar[// @lengthOf(
42 ]
    pack , string_
A , char[]crc , _x trueish ,
// " ++ [27880; 37322]%N ++ runes_of_ascii "
// " ++ [128512]%N ++ runes_of_ascii " emoji
zchar[
    3 ]	T // trailing space 
, } packet body

    }
")).
Eval vm_compute in ("<<<M3180>>>" ++ check (runes_of_ascii "packet packet
string_ {@lengthOf( int ) match packetx as f32a {
    1 :	calculatedFrom , }  ,
    } packet len
    //	t
    { @calculatedFrom( """ ++ [233]%N ++ runes_of_ascii "t" ++ [233]%N ++ runes_of_ascii """ ) body Header , char[] lengthOf  `two words` ,chars{repeat string_ matchKey ,
    } ,
    }
")).
Eval vm_compute in ("<<<M3212>>>" ++ check (runes_of_ascii "packet
string_ {@lengthOf( int ) i16 packetx as f32a {
    1 :	calculatedFrom , }  ,
    } packet len
    //	t
    { @calculatedFrom( """ ++ [233]%N ++ runes_of_ascii "t" ++ [233]%N ++ runes_of_ascii """ ) body Header , char[] lengthOf  `two words` ,chars{repeat string_ matchKey ,
    } ,
    }
")).
Eval vm_compute in ("<<<M3244>>>" ++ check (runes_of_ascii "packet
string_ {@lengthOf( int ) match packetx as f32a {
    1 :	 , }  ,
    } packet len
    //	t
    { @calculatedFrom( """ ++ [233]%N ++ runes_of_ascii "t" ++ [233]%N ++ runes_of_ascii """ ) body Header , char[] lengthOf  `two words` ,chars{repeat string_ matchKey ,
    } ,
    }
")).
Eval vm_compute in ("<<<M3276>>>" ++ check (runes_of_ascii "packet
string_ {@lengthOf( int ) match packetx as f32a {
    1 :	calculatedFrom , }  ,
    } packet {
    //	t
    len @calculatedFrom( """ ++ [233]%N ++ runes_of_ascii "t" ++ [233]%N ++ runes_of_ascii """ ) body Header , char[] lengthOf  `two words` ,chars{repeat string_ matchKey ,
    } ,
    }
")).
Eval vm_compute in ("<<<M3308>>>" ++ check (runes_of_ascii "packet
string_ {@lengthOf( int ) match packetx as f32a {
    1 :	calculatedFrom , }  ,
    } packet len
    //	t
    { @calculatedFrom( """ ++ [233]%N ++ runes_of_ascii "t" ++ [233]%N ++ runes_of_ascii """ ) body")).
Eval vm_compute in ("<<<M3340>>>" ++ check (runes_of_ascii "packet
string_ {@lengthOf( int ) match packetx as f32a {
    1 :	calculatedFrom , }  ,
    } packet len
    //	t
    { @calculatedFrom( """ ++ [233]%N ++ runes_of_ascii "t" ++ [233]%N ++ runes_of_ascii """ ) body Header , char[] lengthOf  `two words` ,chars{ {repeat string_ matchKey ,
    } ,
    }
")).
Eval vm_compute in ("<<<M3372>>>" ++ check (runes_of_ascii "packet
string_ {@lengthOf( int ) match packetx as f32a {
    1 :	calculatedFrom , }  ,
    } packet len
    //	t
    { @calculatedFrom( """ ++ [233]%N ++ runes_of_ascii "t" ++ [233]%N ++ runes_of_ascii """ ) body Header , char[] lengthOf  `two words` ,chars{repeat string_ matchKey ,
    } root
    }
")).
Eval vm_compute in ("<<<M3404>>>" ++ check (runes_of_ascii "/// triple
root
packet // packet A { u8 x, }
chars { @lengthOf(charz )
stringy,  @tag(  0 ) // a // b
asx
    As
,
// trailing space 
// trailing space 
x_y_z {
repeat i16 charz , , }	int16  crc ,}
")).
Eval vm_compute in ("<<<M3436>>>" ++ check (runes_of_ascii "/// triple
root
packet // packet A { u8 x, }
chars { @lengthOf(charz )
stringy,  @tag(  0 ) // a // b
asx
    As
,
// trailing space 
// trailing space 
x_y_z {
repeat i16 'charz , } ,	int16  crc ,}
")).
Eval vm_compute in ("<<<M3468>>>" ++ check (runes_of_ascii "/// triple
root
packet // packet A { u8 x, }
chars { @lengthOf(charz )
stringy,  @tag(  0 ) // a // b
asx
    As

// trailing space 
// trailing space 
x_y_z {
repeat i16 charz , } ,	int16  crc ,}
")).
Eval vm_compute in ("<<<M3500>>>" ++ check (runes_of_ascii "zchar[]")).
Eval vm_compute in ("<<<M3532>>>" ++ check (runes_of_ascii "metadata")).
Eval vm_compute in ("<<<M3564>>>" ++ check (runes_of_ascii "//")).
Eval vm_compute in ("<<<M3596>>>" ++ check (runes_of_ascii "1.5")).
Eval vm_compute in ("<<<M3628>>>" ++ check (runes_of_ascii "packet A { repeat match k as n { 1 : B }, }")).
Eval vm_compute in ("<<<M3660>>>" ++ check (runes_of_ascii "packet A { u8 x @tag(1), }")).
Eval vm_compute in ("<<<M3692>>>" ++ check (runes_of_ascii "packet A { @leftPad('0' '0') char[2] x, }")).
Eval vm_compute in ("<<<M3724>>>" ++ check (runes_of_ascii "options { }")).
Eval vm_compute in ("<<<T3724>>>" ++ terms [mkTok 1 "options" 1 0 false; mkTok 2 "{" 1 8 false; mkTok 3 "}" 1 10 false; mkTok 0 "<EOF>" 1 11 false] (mkPacket (mkPtok 1 "options" 1 0 0) (Some (mkPtok 3 "}" 1 10 2)) [(DOption (mkOptionDef (mkSpan (mkPtok 1 "options" 1 0 0) (mkPtok 3 "}" 1 10 2)) (mkPtok 1 "options" 1 0 0) (mkPtok 2 "{" 1 8 1) [] (mkPtok 3 "}" 1 10 2)))])).
Eval vm_compute in ("<<<M3756>>>" ++ check (runes_of_ascii "// only a comment")).
Eval vm_compute in ("<<<M3788>>>" ++ check ([65533; 17; 65533; 65533; 0; 65533]%N ++ runes_of_ascii "2LJ" ++ [65533; 65533; 29555; 65533]%N ++ runes_of_ascii "k" ++ [65533; 12; 65533; 24]%N ++ runes_of_ascii "'" ++ [65533]%N ++ runes_of_ascii "J" ++ [65533]%N ++ runes_of_ascii "o" ++ [18]%N ++ runes_of_ascii "7" ++ [65533; 65533; 5]%N ++ runes_of_ascii "C" ++ [29]%N ++ runes_of_ascii "9" ++ [65533; 27; 65533]%N)).
Eval vm_compute in ("<<<M3820>>>" ++ check ([65533]%N)).
Eval vm_compute in ("<<<M3852>>>" ++ check ([408; 65533]%N ++ runes_of_ascii "Hl." ++ [65533; 5]%N ++ runes_of_ascii "O" ++ [29; 65533]%N ++ runes_of_ascii "Zu" ++ [30; 65533; 19; 65533; 65533; 65533]%N ++ runes_of_ascii "r" ++ [65533]%N ++ runes_of_ascii "j" ++ [65533]%N)).
Eval vm_compute in ("<<<M3884>>>" ++ check ([65533; 18; 65533]%N ++ runes_of_ascii "C" ++ [65533]%N ++ runes_of_ascii "G8" ++ [65533; 1141; 65533; 65533; 65533]%N ++ runes_of_ascii "G" ++ [65533]%N ++ runes_of_ascii "D" ++ [65533; 65533]%N)).
Eval vm_compute in ("<<<M3916>>>" ++ check ([65533; 6; 65533; 65533]%N ++ runes_of_ascii "i0P#" ++ [65533]%N ++ runes_of_ascii "_;," ++ [29]%N ++ runes_of_ascii "!" ++ [65533; 65533; 65533]%N ++ runes_of_ascii "_" ++ [14]%N ++ runes_of_ascii "j2" ++ [65533]%N ++ runes_of_ascii "sG" ++ [65533]%N ++ runes_of_ascii "D" ++ [65533; 8]%N ++ runes_of_ascii "Z" ++ [65533]%N ++ runes_of_ascii "\W" ++ [65533; 65533]%N ++ runes_of_ascii "Dm")).
Eval vm_compute in ("<<<M3948>>>" ++ check (runes_of_ascii "=Q" ++ [65533; 65533]%N ++ runes_of_ascii "h" ++ [65533]%N ++ runes_of_ascii "T" ++ [31177; 65533]%N ++ runes_of_ascii "#" ++ [15; 65533]%N ++ runes_of_ascii "Q." ++ [65533]%N ++ runes_of_ascii "%" ++ [65533]%N ++ runes_of_ascii "X" ++ [65533]%N ++ runes_of_ascii "J5;" ++ [65533]%N ++ runes_of_ascii "l" ++ [65533; 65533]%N ++ runes_of_ascii "J" ++ [65533]%N ++ runes_of_ascii "A>" ++ [65533]%N ++ runes_of_ascii ":" ++ [1642; 65533; 65533]%N)).
Eval vm_compute in ("<<<M3980>>>" ++ check (runes_of_ascii "|" ++ [65533]%N ++ runes_of_ascii "9" ++ [65533; 2; 65533; 65533; 815]%N ++ runes_of_ascii "8T_" ++ [65533]%N ++ runes_of_ascii "x" ++ [65533]%N ++ runes_of_ascii "`" ++ [65533; 0; 65533]%N ++ runes_of_ascii "w" ++ [65533; 65533; 31; 4]%N ++ runes_of_ascii "^" ++ [65533; 65533; 65533]%N ++ runes_of_ascii "X" ++ [65533; 65533]%N ++ runes_of_ascii "J%" ++ [65533]%N ++ runes_of_ascii "d" ++ [65533]%N)).
