From FP Require Import Lexer Parser ShowPT Digest Formatter.
From Coq Require Import String List NArith.
Import ListNotations.
Open Scope string_scope.
Set Printing Width 100000000.
Set Printing Depth 100000000.
Definition show_fres (r : fres) : string :=
  match r with
  | FOk s => "OK:" ++ sh_escaped s ""
  | FErr s => "ERR:" ++ sh_escaped s ""
  | FPanic p => "PANIC:" ++ p
  end.
Definition check (rs : list rune) : string := digest (show_fres (format_res rs)).
Definition full (rs : list rune) : string := show_fres (format_res rs).
Eval vm_compute in ("<<<M360>>>" ++ check (runes_of_ascii "options
{ MetaDataX =
// packet A { u8 x, }
// `tick` ""quote"" 'q'
true	}  root
// `tick` ""quote"" 'q'
/// triple
packet
u8x{ repeat
    uint16 u8x `" ++ [28040; 24687; 31867; 22411]%N ++ runes_of_ascii "` , @tag( //
42
// " ++ [128512]%N ++ runes_of_ascii " emoji
/// triple
) char[ /// triple
7 ]
    trueish @lengthOf(
    // " ++ [27880; 37322]%N ++ runes_of_ascii "
    Pad
    ), tag @lengthOf(A)`say ""hi""` , float rootA
, // " ++ [27880; 37322]%N ++ runes_of_ascii "
Foo , repeat uint32 calculatedFrom
, }
root packet u128 { repeat
Packet metadata, repeat
    zchar[
    0123456789 ] len
`u8 x,` ,
f32 BodyLength @lengthOf( Z9_ ) `it's` ,
match crc as Packet { 0
//x
//x
:
    i64_ , [ 255]
:rootA ,
    [""a	b""	,
    ""\" ++ [233]%N ++ runes_of_ascii """
    , ""\" ++ [233]%N ++ runes_of_ascii """	,// `tick` ""quote"" 'q'
0 /// triple
, 4294967296
] :
i8i8 , } , @tag( 1  )@calculatedFrom(	""\" ++ [233]%N ++ runes_of_ascii """
    )string f32a@calculatedFrom( ""abc"")  , repeat As{ matchKey
    {crc
    /// triple
    @calculatedFrom(
    ""// no comment"" //x
),
} ,lengthOf//
`crlf
line`
    // packet A { u8 x, }
    ,
// a // b
// a // b
T //
Pad `a\` , repeat i8i8 charz ,// a // b
}  , }
    packet	packetx{ @lengthOf( Packet
    )
repeat
    uint8x
//
// " ++ [128512]%N ++ runes_of_ascii " emoji
`line1
line2` ,@tag( 0123456789 ) string BodyLength @calculatedFrom(  """ ++ [28040; 24687]%N ++ runes_of_ascii """) ,// trailing space 
zchar[42
]
MetaDataX
    //
    , char
    A @lengthOf(
    /// triple
    tag ) `two words`, @tag(
    10 ) @calculatedFrom(""" ++ [28040; 24687]%N ++ runes_of_ascii """
// `tick` ""quote"" 'q'
//x
)
@calculatedFrom(
    ""x y"" ) char[ 7 ] repeatCount @calculatedFrom(
""// no comment""
    )	,@calculatedFrom(
""it's"" )	char[	65535 ]
packetx`// not a comment` ,
@leftPad //	t
( ' ' ) match  tag as packetx
{ 00 : int ,
    } , @tag( 7
//
// " ++ [128512]%N ++ runes_of_ascii " emoji
)@lengthOf(
    // @lengthOf(
    float
    ) @tag(  0123456789	) Z9_ , @tag( // c
00 )tag { uint16
MetaDataX
    ,
    u tag	`tab	here`,float64 Packet @calculatedFrom( ""{,}"" )	, x_y_z u128 ,
} , char[] msg_type @lengthOf( calculatedFrom ) `line1
line2`
    , } MetaData // " ++ [27880; 37322]%N ++ runes_of_ascii "
float{
    uint32
crc, charz msg_type , u128 crc , string stringy
`" ++ [233]%N ++ runes_of_ascii "`, }")).
Eval vm_compute in ("<<<M257>>>" ++ check (runes_of_ascii "options
{
BodyLength
=3 ;// " ++ [128512]%N ++ runes_of_ascii " emoji
T = ""packet""
// @lengthOf(
// trailing space 
;
// c
// trailing space 
crc = true ;
falsey= '\x00'/// triple
;
} root packet A
    {@leftPad (
'0' )	char[
65535 ] Header  `" ++ [233]%N ++ runes_of_ascii "` ,
@rightPad( '0' ) //
a1 @lengthOf( msg_type ) , @lengthOf( rootA )
    match
_x as //x
stringy {""CRC32"" : chars, 3// `tick` ""quote"" 'q'
:float , 255	:	asx // `tick` ""quote"" 'q'
, 10  : tag ,//
} ,
    @calculatedFrom(
    """ ++ [128512]%N ++ runes_of_ascii """	) u32 u8x`crlf
line` , repeat char[]	asx `a\` , @rightPad ( '0'	)match f32a  as Packet
    { [ 255 , ""CRC32"" , 007
, ""1"",""packet"" , 00 ,
    4294967296 ]	: calculatedFrom , ""packet"" :
    falsey, ""a\""b"": body , 7// a // b
: Packet // " ++ [128512]%N ++ runes_of_ascii " emoji
0123456789 :	i64_ ,
    // a // b
    [4294967296 , 0123456789 ]  : // `tick` ""quote"" 'q'
options1	} ,crc /// triple
@lengthOf(	Foo
    )
    ,
@calculatedFrom( ""{,}"")@lengthOf(metadata ) @lengthOf( i8i8
)int64 options1 @calculatedFrom(""CRC32"" )
    `line1
line2` , // @lengthOf(
} packet a1 // `tick` ""quote"" 'q'
{ match lengthOf//
as x_y_z
{ ""it's"" :matchKey
//
// @lengthOf(
, 10 :
Packet , [ //x
""abc""
    ]// a // b
: A 10 //x
: metadata
    ,
    } ,
}MetaData
    body { char string_, char[]
x, len Pad , string
    leftPad , } // trailing space ")).
Eval vm_compute in ("<<<M1517>>>" ++ check (runes_of_ascii "  root packet
asx {
leftPad {  u128  @calculatedFrom(	""1"")	, 	 //x
} ,
lengthOf // packet A { u8 x, }
@calculatedFrom( 
""" ++ [128512]%N ++ runes_of_ascii """

    )`a\` 
,
	i64 // `tick` ""quote"" 'q'
  Packet  @lengthOf(

    calculatedFrom
	)
    , @calculatedFrom(
	""" ++ [233]%N ++ runes_of_ascii "t" ++ [233]%N ++ runes_of_ascii """ 
)

    stringy a1 `doc` 	 // `tick` ""quote"" 'q'
  ,

@rightPad(
// a // b
  )
    // c
  a1
    `a\` , char  Header

@lengthOf(
	x
)	`say ""hi""`	,
    uint8x 
Z9_
`tab	here` ,
}
options
{calculatedFrom // packet A { u8 x, }

= 0 
} 
packet
    metadata

{
    @leftPad
( '\x00'  ) f32
pack

//	t
  //
		, 
@tag(
	65535

    ) u32
uint8x@lengthOf(repeatCount
)
    ``  , MetaDataX
{
repeat

options1 ,match
matchKey

as
len
	{ """ ++ [128512]%N ++ runes_of_ascii """

    :
u8x 
,
1

    :
	zchar
,/// triple
    [""a\\""
, ""x y""
]
	:  charz

0
	:x_y_z
//
  ,	[	// trailing space 
4294967296 	 // `tick` ""quote"" 'q'
      ] :	asx,  [  /// triple
  ""a\""b"", ""\n""

    ,""\" ++ [233]%N ++ runes_of_ascii """	, 10

] :
	_x  ,},uint8
	metadata
	@lengthOf( 
float
	) , zchar[ 255]  i8i8 ,
}

,

}

root	packet	f32a
	{  }")).
Eval vm_compute in ("<<<M1461>>>" ++ check (runes_of_ascii "  // packet A { u8 x, }
	root packet	leftPad
{ 
@calculatedFrom(

//x
  	""`tick`""
	)
@rightPad

    ( ) 
// " ++ [128512]%N ++ runes_of_ascii " emoji

  string_

// `tick` ""quote"" 'q'
// a // b
	@lengthOf( tag
)`a\`

,  i64 T`" ++ [233]%N ++ runes_of_ascii "` , 	 //	t
	  }

packet
    Pad// @lengthOf(
		{  @lengthOf( 
float
	) 
char[]
	x
    @calculatedFrom(

    ""a\""b"" )
	,// trailing space 

@tag(	0 // " ++ [128512]%N ++ runes_of_ascii " emoji
	) // " ++ [27880; 37322]%N ++ runes_of_ascii "
repeatCount // packet A { u8 x, }
    	,repeat
	rootA 
{
_x	, zchar[
3 ] 
roots
/// triple
  	`crlf
line` , }

    , 
    /// triple
	// a // b

match 
metadata
as BodyLength	{
    [
// c
  10

,
	10
	, ""a\""b"",
    """"
    ,""\n""
	, ""a\\""

, 
4294967296	]  :u, } , repeat
    i64_ Packet
`" ++ [28040; 24687; 31867; 22411]%N ++ runes_of_ascii "`	,  @tag( 	 // packet A { u8 x, }
  	65535) char[] 
float

`it's`,	char[
7
]x@calculatedFrom(	""{,}"" )
,}MetaData

leftPad // a // b
    {body

    rootA
`crlf
line`,
int64

    msg_type `doc`,	// @lengthOf(
  }

")).
Eval vm_compute in ("<<<M371>>>" ++ check (runes_of_ascii "root
    packet
packetx
    {
    @tag( 0) char[00 ] Z9_
    ,
    // a // b
    falsey
    // c
    { match
    x as options1 { [//	t
42 ,
    007 ]:
    uint8x } , uint8 falsey `crlf
line` , }
, f64 Pad
, @tag(7  ) string Logon// " ++ [27880; 37322]%N ++ runes_of_ascii "
`a\`, @lengthOf(
lengthOf//	t
) char[
3
    ]
// " ++ [27880; 37322]%N ++ runes_of_ascii "
//
calculatedFrom @calculatedFrom(
""" ++ [28040; 24687]%N ++ runes_of_ascii """
)
, char[]
    T , //x
@tag(
42 ) @leftPad ( )
    char[]trueish
@calculatedFrom(""`tick`"" ) ,match
    // `tick` ""quote"" 'q'
    uint8x as pack { [
    ""abc"",
    ""1"" ,""packet""
,
// `tick` ""quote"" 'q'
// `tick` ""quote"" 'q'
1,
    ""a\""b""]: As	, """ ++ [28040; 24687]%N ++ runes_of_ascii """ :
    trueish ,} ,
}
packet/// triple
charz
{
    repeat
Z9_ { Pad  {match len as string_{
    // a // b
    4294967296
    : msg_type , [""// no comment""
    ] :u
    ,
} ,} , zchar[
    65535
] As  @lengthOf(//x
string_
)
,
} ,
    }")).
Eval vm_compute in ("<<<M90>>>" ++ check (runes_of_ascii "root packet lengthOf
{ // a // b
match i64_  as options1{	""// no comment"":
    // packet A { u8 x, }
    f32a
    // @lengthOf(
    , 65535 :
    falsey, } ,  @tag(
0
)  char[]
    body
@lengthOf(  lengthOf ) ,	u64 string_ `it's`,@lengthOf( string_ // packet A { u8 x, }
)crc {repeat
zchar[ 3
] u	,	pack // packet A { u8 x, }
`a\`// trailing space 
,char[] crc `` , } //x
,int16 // packet A { u8 x, }
metadata `line1
line2`, }root	packet //	t
leftPad
{ repeat	zchar[
4294967296 //x
] MetaDataX
    ,@tag( 10 // `tick` ""quote"" 'q'
) match  tag as falsey
{ 7:
    BodyLength
, 0 : i64_ ,} , repeat char[ 255
    // @lengthOf(
    ] A
,
char[ 7]
trueish @calculatedFrom(	""a\\"" ) `two words`
// " ++ [128512]%N ++ runes_of_ascii " emoji
//	t
, i16
Logon, }
")).
Eval vm_compute in ("<<<M243>>>" ++ check (runes_of_ascii "// a // b
packet stringy { @tag( 3 ) // trailing space 
i64
    len
,@calculatedFrom( ""1""  ) char[
0 ]
x @lengthOf(Foo )
,@calculatedFrom( """" )
body
// c
// " ++ [128512]%N ++ runes_of_ascii " emoji
@lengthOf(
calculatedFrom )`line1
line2`
    , @calculatedFrom( ""it's"" // " ++ [128512]%N ++ runes_of_ascii " emoji
)// packet A { u8 x, }
match falsey
    // packet A { u8 x, }
    as u8x {[
""" ++ [128512]%N ++ runes_of_ascii """
    , // a // b
42 , 1 ,10 ]
: Header , } ,
// trailing space 
// `tick` ""quote"" 'q'
} MetaData// " ++ [128512]%N ++ runes_of_ascii " emoji
stringy{ f32a
    u128 `{ , }` , char[ // a // b
10 ]u128	, chars _x , zchar[ 65535 // trailing space 
]/// triple
falsey
    `{ , }`
    , _x i64_
, int32
Packet
`crlf
line` , } MetaData lengthOf
{
    }
// trailing space 
")).
Eval vm_compute in ("<<<M366>>>" ++ check (runes_of_ascii "packet
// @lengthOf(
//	t
f32a { char[] Header`" ++ [233]%N ++ runes_of_ascii "` ,  @tag( 00
) zchar[ 255  ] int
    , @lengthOf(	trueish)
x @calculatedFrom( """ ++ [128512]%N ++ runes_of_ascii """
    )`say ""hi""` , @leftPad
    (	'\x00'
) @lengthOf( //	t
u128 )//	t
repeat BodyLength ,
falsey @lengthOf( uint8x ), //
@lengthOf( rootA) repeat uint8 T  `a\` , repeat  string
lengthOf
`it's` , @leftPad(
    '\x00' )
zchar[ 42
// packet A { u8 x, }
// a // b
] u`say ""hi""` ,// a // b
repeat packetx
// a // b
// packet A { u8 x, }
{
Pad  f32a
,// trailing space 
i8i8 msg_type `say ""hi""` , i64_ repeatCount , char[]chars , } ,}MetaData _x
{  x matchKey `" ++ [28040; 24687; 31867; 22411]%N ++ runes_of_ascii "`, }")).
Eval vm_compute in ("<<<M66>>>" ++ check (runes_of_ascii "packet	int {// @lengthOf(
repeat
string
    BodyLength
    `a\`
    , } packet repeatCount { @lengthOf( x_y_z ) crc ,
    match Packet as
Z9_{""// no comment"" :MetaDataX ,
//	t
// a // b
[  00, 7]: chars ,""CRC32""
    : zchar 42: stringy //	t
, [ ""a\""b"",""1""// a // b
] : u ,
},
@rightPad
( ' ' )
@lengthOf( i64_//x
)
    repeat
f64
x `two words`
    , @calculatedFrom(""`tick`""	) int64 falsey @lengthOf(//x
u128 ) , charz
    {
    //x
    char[]
    T
// c
// " ++ [27880; 37322]%N ++ runes_of_ascii "
`a\` ,
}
,@lengthOf(
    u8x)string_, repeat
// " ++ [128512]%N ++ runes_of_ascii " emoji
//	t
x
    , }
")).
Eval vm_compute in ("<<<M1468>>>" ++ check (runes_of_ascii "// top
options {
    // c1
    LittleEndian = true;// c5a
}// c6

packet Logon {
    u8 x,// c12
}// c13a

// c13b
packet Logout {
    // c16
    u16 reason,// c19a
}

// c20
root packet Frame {
    // c24
    u16 Kind,// c27a
    // c27b
    u16 Kind2,
    match Kind as Body {
        // c35
        1 : Logon,
        // c39
        [2, 3, 4] : Logout,
        // c49
        100 : Logon,
    },
    match Kind2 as Trailer {
        // c60
        0 : Logout,
    },
}// c67")).
Eval vm_compute in ("<<<M14>>>" ++ check (runes_of_ascii "MetaData u128
    {// a // b
string zchar //x
`two words` ,u16 packetx
`a\` , char[ 1 ] Logon	, len crc, char[
7]i8i8,char[]calculatedFrom,
} // @lengthOf(
MetaData u
    { u// " ++ [128512]%N ++ runes_of_ascii " emoji
u128
, //	t
}root packet metadata { }options	{ matchKey =
    255
;
x_y_z
= 007 crc=int16
; zchar =// c
char[42 ]
; int
= true ;
} options  {
Header = """ ++ [128512]%N ++ runes_of_ascii """
;
len
    = ' ' ; matchKey= """" ;MetaDataX =' '
; o
    = '\x00' ; }
/// triple
")).
Eval vm_compute in ("<<<M1843>>>" ++ check (runes_of_ascii "MetaData Pad {
    i16 repeatCount,
    f32 pack `a\`,
}

packet f32a {
    @lengthOf(metadata)
    match msg_type as matchKey {
        00 : rootA,
    },
    @rightPad()
    match repeatCount as len {
        [10, ""x y""] : As,
        42 : i64_,
        """ ++ [128512]%N ++ runes_of_ascii """ : BodyLength,
        7 : f32a,
    },
    @lengthOf(BodyLength)
    repeat Foo `line1
        line2`,
}// @lengthOf(")).
Eval vm_compute in ("<<<M1234>>>" ++ check (runes_of_ascii "// top
options // c0
{ // c1
f32a // c2
= // c3
0 // c4
} // c5
packet // c6
trueish // c7
{ // c8
} // c9
MetaData // c10
_x // c11
{ // c12
char[ // c13
0123456789 // c14
] // c15
zchar // c16
, // c17
string // c18
crc // c19
, // c20
char[ // c21
1 // c22
] // c23
options1 // c24
, // c25
uint8 // c26
repeatCount // c27
, // c28
} // c29
")).
Eval vm_compute in ("<<<M1367>>>" ++ check (runes_of_ascii "options {
    LittleEndian = true;
}
packet Logon {
    u8 x,
}
packet Logout {
    u16 reason,
}
root packet Frame {
    u16 Kind,
    u16 Kind2,
    match Kind as Body {
        1 : Logon,
        [2, 3, 4] : Logout,
        100 : Logon,
    },
    match Kind2 as Trailer {
        0 : Logout,
    },
}
")).
Eval vm_compute in ("<<<M287>>>" ++ check (runes_of_ascii "root // trailing space 
packet int {
    f32a @calculatedFrom(""packet"" )
    `
`
    , } options
{
    rootA
    // @lengthOf(
    =
""\" ++ [233]%N ++ runes_of_ascii """; }
    packet
i8i8 {
    // trailing space 
    uint8
    uint8x
    @lengthOf( string_ ) //	t
, i32 tag //	t
@lengthOf(
Logon )  , }")).
Eval vm_compute in ("<<<M139>>>" ++ check (runes_of_ascii "packet//x
x_y_z {rootA @lengthOf( o ) `two words` ,} MetaData f32a{
trueish
    // packet A { u8 x, }
    x , }
    MetaData body
    { u128 pack , f64
    // @lengthOf(
    float	, char[ 65535
//	t
/// triple
] tag `" ++ [233]%N ++ runes_of_ascii "`// c
,  } // " ++ [128512]%N ++ runes_of_ascii " emoji")).
Eval vm_compute in ("<<<M350>>>" ++ check (runes_of_ascii "MetaData Pad
{ i64 Packet `{ , }`
    , // `tick` ""quote"" 'q'
repeatCount  trueish // packet A { u8 x, }
`say ""hi""`	, f32 pack`// not a comment` ,// `tick` ""quote"" 'q'
u32
calculatedFrom ,char //	t
zchar
,}
")).
Eval vm_compute in ("<<<M357>>>" ++ check (runes_of_ascii "MetaData x_y_z
{
lengthOf // packet A { u8 x, }
rootA , MetaDataX// " ++ [128512]%N ++ runes_of_ascii " emoji
_x , char[ 4294967296 ] stringy , char[
//
// c
007
] u128
, tag u8x `line1
line2` ,  uint8 u128 , }
")).
Eval vm_compute in ("<<<M1256>>>" ++ check (runes_of_ascii "// top
root // c0
packet P // c2
{ // c3
hdr
    // c4
{
    // c5
u8 // c6
a // c7a
  // c7b
,
    // c8
} , // c10
u8 // c11
x // c12a
  // c12b
, }
    // c14
")).
Eval vm_compute in ("<<<M411>>>" ++ check (runes_of_ascii "packet uint8x
{ match pack pack
    as msg_type	{
    0123456789 :	float
}
,
} packet //	t
a1
    { } options {packetx
    = '\x00'	; u128= ""a	b""  ; }
")).
Eval vm_compute in ("<<<M451>>>" ++ check (runes_of_ascii "packet uint8x
{ match pack
    as msg_type	{
    0123456789 :	float
}
, ,
} packet //	t
a1
    { } options {packetx
    = '\x00'	; u128= ""a	b""  ; }
")).
Eval vm_compute in ("<<<M1895>>>" ++ check (runes_of_ascii "

  packet A {  match
k  as n

{
    [

""a"" 
, 
""bb""

    ,
    ""c c"", ""d"" ,
""e"" ,
    ""f""

,	""g"" ,
""h""
,
    ""i"" 
]:B
, 
2
    :
    C

} 
, }
")).
Eval vm_compute in ("<<<M527>>>" ++ check (runes_of_ascii "packet uint8x
{ match pack
    as msg_type	{
    0123456789 :	float
}
,
} packet //	t
a1
    { } options {packetx
    = '\x00'	; u128= ""a	b""  } ;
")).
Eval vm_compute in ("<<<M700>>>" ++ check (runes_of_ascii "// @lengthOf(
packet i8i8 { u128 o , }
options { MetaDataX = true true;
    BodyLength =""packet"" x_y_z= 007
crc //x
= ""abc"" ;
    msg_type =
i16 }")).
Eval vm_compute in ("<<<M696>>>" ++ check (runes_of_ascii "// @lengthOf(
packet i8i8 { u128 o , } }
options { MetaDataX = true;
    BodyLength =""packet"" x_y_z= 007
crc //x
= ""abc"" ;
    msg_type =
i16 }")).
Eval vm_compute in ("<<<M715>>>" ++ check (runes_of_ascii "// @lengthOf(
packet i8i8 { u128 o , options
} { MetaDataX = true;
    BodyLength =""packet"" x_y_z= 007
crc //x
= ""abc"" ;
    msg_type =
i16 }")).
Eval vm_compute in ("<<<M1792>>>" ++ check (runes_of_ascii "MetaData
leftPad

{chars	MetaDataX,
	}packet

    repeatCount{ char[	255	] 
uint8x 
`" ++ [233]%N ++ runes_of_ascii "` 
  // c
    	, 
}
MetaData
pack {
As Foo
,}

")).
Eval vm_compute in ("<<<M1471>>>" ++ check (runes_of_ascii "packet A {
    u8 a,
}

packet B {
    u16 b,
}

root packet P {
    u8 K,
    match K as M {
        1 : A,
        1 : B,
    },
}")).
Eval vm_compute in ("<<<M1264>>>" ++ check (runes_of_ascii "packet B {
    u8 a,
}
root packet P {
    u8 K,
    match K as Body {
        1 : B,
    },
    u16 L @lengthOf(Body),
}
")).
Eval vm_compute in ("<<<M1156>>>" ++ check (runes_of_ascii "MetaData leftPad { chars MetaDataX , }
// c
packet repeatCount { char[ 255 ] uint8x `" ++ [233]%N ++ runes_of_ascii "` , } MetaData pack { As Foo , }")).
Eval vm_compute in ("<<<M1188>>>" ++ check (runes_of_ascii "MetaData leftPad { chars MetaDataX , } packet repeatCount { char[ 255 ] uint8x `" ++ [233]%N ++ runes_of_ascii "` , } MetaData pack { As Foo ,
// c
}")).
Eval vm_compute in ("<<<M914>>>" ++ check (runes_of_ascii "packet A {
  match k as n {
    [""a"", ""bb"", 007, ""d"", ""e"", 66, ""g"", ""h"", 9, ""j"", ""k"", 12] : B,
    2 : C
  },
}")).
Eval vm_compute in ("<<<M24>>>" ++ check (runes_of_ascii "options { metadata
= '\x00' ;
    u128
=
    ""CRC32"" ; charz = ' 'options1 = 00 ; }
packet string_ { }
")).
Eval vm_compute in ("<<<M1396>>>" ++ check (runes_of_ascii "packet _x {
}// trailing space 

options {
    repeatCount = 42;
    Pad = true;
    x_y_z = 65535;
}")).
Eval vm_compute in ("<<<M258>>>" ++ check (runes_of_ascii "packet
    metadata{ u32 // `tick` ""quote"" 'q'
Packet `say ""hi""`
,
    // trailing space 
    }")).
Eval vm_compute in ("<<<M1498>>>" ++ check (runes_of_ascii "MetaData M {
    u8 x `a
            b
          c`,
    T t `a
            b
          c`,
}")).
Eval vm_compute in ("<<<M388>>>" ++ check (runes_of_ascii "root packet SimpleMessage {
    uint16 MsgType `" ++ [28040; 24687; 31867; 22411]%N ++ runes_of_ascii "`,
    string JsonBody `Json" ++ [23383; 31526; 20018; 28040; 24687; 20307]%N ++ runes_of_ascii "`,
}")).
Eval vm_compute in ("<<<M878>>>" ++ check (runes_of_ascii "packet A {
  match k as n {
    [1, 22, 007, 4, 5, 66, 7, 8, 9, 10] : B,
    2 : C
  },
}")).
Eval vm_compute in ("<<<M829>>>" ++ check (runes_of_ascii "packet A {
  match k as n {
    [""a"", ""bb"", ""c c"", ""d"", ""e"", ""f""] : B
    2 : C
  },
}")).
Eval vm_compute in ("<<<M844>>>" ++ check (runes_of_ascii "packet A {
  match k as n {
    [1, ""bb"", 007, ""d"", 5, ""f"", 7] : B
    2 : C
  },
}")).
Eval vm_compute in ("<<<M916>>>" ++ check (runes_of_ascii "packet A { Inner { match k as n { [1,22,007,4,5,66,7,8,9,10,11,12] : B, }, }, }")).
Eval vm_compute in ("<<<M818>>>" ++ check (runes_of_ascii "packet A {
  match k as n {
    [1, ""bb"", 007, ""d"", 5] : B
    2 : C
  },
}")).
Eval vm_compute in ("<<<M1606>>>" ++ check (runes_of_ascii "MetaData x_y_z {
    i8i8 u8x,
    string uint8x `crlf
        line`,
}")).
Eval vm_compute in ("<<<M792>>>" ++ check (runes_of_ascii "packet A {
  match k as n {
    [1, ""bb"", 007] : B
    2 : C
  },
}")).
Eval vm_compute in ("<<<M1497>>>" ++ check (runes_of_ascii "// a // b
packet Pad {
    char[] Z9_ @lengthOf(Pad) `{ , }`,
}")).
Eval vm_compute in ("<<<M1255>>>" ++ check (runes_of_ascii "root packet P {
    hdr {
        u8 a,
    },
    u8 x,
}
")).
Eval vm_compute in ("<<<M1833>>>" ++ check (runes_of_ascii "options {
    Logon = """ ++ [28040; 24687]%N ++ runes_of_ascii """;
    BodyLength = false;
}")).
Eval vm_compute in ("<<<M777>>>" ++ check (runes_of_ascii "packet A { Inner { match k as n { [1] : B, }, }, }")).
Eval vm_compute in ("<<<M1221>>>" ++ check (runes_of_ascii "// top
packet // c0
x // c1
{ // c2
} // c3
")).
Eval vm_compute in ("<<<M1578>>>" ++ check (runes_of_ascii "  packet
	A 
{ u8 x `d" ++ [65279]%N ++ runes_of_ascii "`
	, 	 // c" ++ [65279]%N ++ runes_of_ascii "
		}")).
Eval vm_compute in ("<<<M1882>>>" ++ check (runes_of_ascii "root packet A {
    u8 x `
    `,
}")).
Eval vm_compute in ("<<<M1664>>>" ++ check (runes_of_ascii "root packet P {
    string s,
}")).
Eval vm_compute in ("<<<M83>>>" ++ check (runes_of_ascii "
options{ options1 =	7 ;
}
")).
Eval vm_compute in ("<<<M1846>>>" ++ check (runes_of_ascii "packet A {
}// a// b// c")).
Eval vm_compute in ("<<<M1106>>>" ++ check (runes_of_ascii "MetaData
// c
tag { }")).
Eval vm_compute in ("<<<M1548>>>" ++ check (runes_of_ascii "// c
MetaData u {
}")).
Eval vm_compute in ("<<<M1037>>>" ++ check (runes_of_ascii "// c" ++ [12]%N ++ runes_of_ascii "
packet A {
}")).
Eval vm_compute in ("<<<M1029>>>" ++ check (runes_of_ascii "packet A {
}// c" ++ [11]%N)).
Eval vm_compute in ("<<<M1804>>>" ++ check (runes_of_ascii "MetaData u {
}")).
Eval vm_compute in ("<<<M758>>>" ++ check (runes_of_ascii "LE]u'")).
Eval vm_compute in ("<<<M728>>>" ++ check (runes_of_ascii "		")).
