From FP Require Import Lexer Parser ShowPT Digest Formatter.
From Coq Require Import String List NArith.
Import ListNotations.
Open Scope string_scope.
Set Printing Width 100000000.
Set Printing Depth 100000000.
Definition show_fres (r : fres) : string :=
  match r with
  | FOk s => "OK:" ++ sh_escaped s ""
  | FErr s => "ERR:" ++ sh_escaped s ""
  | FPanic p => "PANIC:" ++ p
  end.
Definition check (rs : list rune) : string := digest (show_fres (format_res rs)).
Definition full (rs : list rune) : string := show_fres (format_res rs).
Eval vm_compute in ("<<<M360>>>" ++ check (runes_of_ascii "options
{ MetaDataX =
// packet A { u8 x, }
// `tick` ""quote"" 'q'
true	}  root
// `tick` ""quote"" 'q'
/// triple
packet
u8x{ repeat
    uint16 u8x `" ++ [28040; 24687; 31867; 22411]%N ++ runes_of_ascii "` , @tag( //
42
// " ++ [128512]%N ++ runes_of_ascii " emoji
/// triple
) char[ /// triple
7 ]
    trueish @lengthOf(
    // " ++ [27880; 37322]%N ++ runes_of_ascii "
    Pad
    ), tag @lengthOf(A)`say ""hi""` , float rootA
, // " ++ [27880; 37322]%N ++ runes_of_ascii "
Foo , repeat uint32 calculatedFrom
, }
root packet u128 { repeat
Packet metadata, repeat
    zchar[
    0123456789 ] len
`u8 x,` ,
f32 BodyLength @lengthOf( Z9_ ) `it's` ,
match crc as Packet { 0
//x
//x
:
    i64_ , [ 255]
:rootA ,
    [""a	b""	,
    ""\" ++ [233]%N ++ runes_of_ascii """
    , ""\" ++ [233]%N ++ runes_of_ascii """	,// `tick` ""quote"" 'q'
0 /// triple
, 4294967296
] :
i8i8 , } , @tag( 1  )@calculatedFrom(	""\" ++ [233]%N ++ runes_of_ascii """
    )string f32a@calculatedFrom( ""abc"")  , repeat As{ matchKey
    {crc
    /// triple
    @calculatedFrom(
    ""// no comment"" //x
),
} ,lengthOf//
`crlf
line`
    // packet A { u8 x, }
    ,
// a // b
// a // b
T //
Pad `a\` , repeat i8i8 charz ,// a // b
}  , }
    packet	packetx{ @lengthOf( Packet
    )
repeat
    uint8x
//
// " ++ [128512]%N ++ runes_of_ascii " emoji
`line1
line2` ,@tag( 0123456789 ) string BodyLength @calculatedFrom(  """ ++ [28040; 24687]%N ++ runes_of_ascii """) ,// trailing space 
zchar[42
]
MetaDataX
    //
    , char
    A @lengthOf(
    /// triple
    tag ) `two words`, @tag(
    10 ) @calculatedFrom(""" ++ [28040; 24687]%N ++ runes_of_ascii """
// `tick` ""quote"" 'q'
//x
)
@calculatedFrom(
    ""x y"" ) char[ 7 ] repeatCount @calculatedFrom(
""// no comment""
    )	,@calculatedFrom(
""it's"" )	char[	65535 ]
packetx`// not a comment` ,
@leftPad //	t
( ' ' ) match  tag as packetx
{ 00 : int ,
    } , @tag( 7
//
// " ++ [128512]%N ++ runes_of_ascii " emoji
)@lengthOf(
    // @lengthOf(
    float
    ) @tag(  0123456789	) Z9_ , @tag( // c
00 )tag { uint16
MetaDataX
    ,
    u tag	`tab	here`,float64 Packet @calculatedFrom( ""{,}"" )	, x_y_z u128 ,
} , char[] msg_type @lengthOf( calculatedFrom ) `line1
line2`
    , } MetaData // " ++ [27880; 37322]%N ++ runes_of_ascii "
float{
    uint32
crc, charz msg_type , u128 crc , string stringy
`" ++ [233]%N ++ runes_of_ascii "`, }")).
Eval vm_compute in ("<<<M386>>>" ++ check (runes_of_ascii "options {
    StringPrefixLenType = u16;
    ArrayPrefixLenType = u16;
}

packet SampleBinary {
    uint16 MsgType `" ++ [28040; 24687; 31867; 22411]%N ++ runes_of_ascii "`,
    u16 BodyLenght @lengthOf(Body) `" ++ [28040; 24687; 20307; 38271; 24230]%N ++ runes_of_ascii "`,
    match MsgType as Body {
        1 : Logon,
        2 : Logout,
        3 : Heartbeat,
        4 : RiskControlRequest,
        5 : RiskControlResponse,
    },
    @calculatedFrom(""CRC32"")
    u32 Ckecksum `" ++ [26657; 39564; 21644]%N ++ runes_of_ascii "`,
}

packet Logon {
    @leftPad('0')
    char[10] UserName `" ++ [29992; 25143; 21517]%N ++ runes_of_ascii "`,
    string Password `" ++ [23494; 30721]%N ++ runes_of_ascii "`,
    uint64 ClientId `" ++ [23458; 25143; 31471]%N ++ runes_of_ascii "ID`,
    u16 HeartbeatInterval `" ++ [24515; 36339; 38388; 38548]%N ++ runes_of_ascii "`,
}

packet Logout {
    @rightPad('0')
    char[10] UserName `" ++ [29992; 25143; 21517]%N ++ runes_of_ascii "`,
    uint64 ClientId `" ++ [23458; 25143; 31471]%N ++ runes_of_ascii "ID`,
}

packet Heartbeat {
}

packet RiskControlRequest {
    string UniqueOrderId `" ++ [21807; 19968; 35746; 21333; 21495]%N ++ runes_of_ascii "`,
    char[16] ClOrdID `" ++ [23458; 25143; 35746; 21333; 21495]%N ++ runes_of_ascii "`,
    char[3] MarketID `" ++ [24066; 22330]%N ++ runes_of_ascii "id`,
    char[12] SecurityID `" ++ [35777; 21048; 20195; 30721]%N ++ runes_of_ascii "`,
    char Side `" ++ [20080; 21334; 26041; 21521]%N ++ runes_of_ascii "`,
    char OrderType `" ++ [35746; 21333; 31867; 22411]%N ++ runes_of_ascii "`,
    u64 Price `" ++ [20215; 26684]%N ++ runes_of_ascii "`,
    u32 Qty `" ++ [25968; 37327]%N ++ runes_of_ascii "`,
    repeat string ExtraInfo `" ++ [38468; 21152; 20449; 24687]%N ++ runes_of_ascii "`,
    repeat SubOrder {
        char[16] ClOrdID `" ++ [23376; 35746; 21333; 21495]%N ++ runes_of_ascii "`,
        u64 Price `" ++ [23376; 35746; 21333; 20215; 26684]%N ++ runes_of_ascii "`,
        u32 Qty `" ++ [23376; 35746; 21333; 25968; 37327]%N ++ runes_of_ascii "`,
    },
}

packet RiskControlResponse {
    string UniqueOrderId `" ++ [21807; 19968; 35746; 21333; 21495]%N ++ runes_of_ascii "`,
    i32 Status `" ++ [29366; 24577]%N ++ runes_of_ascii "`,
    string Msg `" ++ [32467; 26524; 20449; 24687]%N ++ runes_of_ascii "`,
    repeat Detail,
}

packet Detail {
    string RuleName `" ++ [35268; 21017; 21517; 31216]%N ++ runes_of_ascii "`,
    u16 Code `" ++ [21407; 22240; 20195; 30721]%N ++ runes_of_ascii "`,
}")).
Eval vm_compute in ("<<<M1771>>>" ++ check (runes_of_ascii "
packet
MetaDataX{
    metadata
trueish`" ++ [233]%N ++ runes_of_ascii "` 
    //x
      //x
,	// trailing space 
  @calculatedFrom( ""`tick`"")
	uint8x
// c
	@calculatedFrom(
    """ ++ [128512]%N ++ runes_of_ascii """
    )`{ , }` , 
@calculatedFrom(
    ""a\""b""
)	// packet A { u8 x, }

match
	Packet  as
	body {  3
:
    repeatCount , ""x y"" 
    /// triple
  :lengthOf // `tick` ""quote"" 'q'
	  4294967296 : 
packetx	, [  ""abc""
    ,  ""// no comment""
    ,
    ""abc""
	, 
""\n"" 	 //	t
    ,
    ""1"" 
]
    :
    u128 [

00 
,
65535 
,	""x y""
    ,
	""{,}""
	]: calculatedFrom  ,	7
	:i8i8
	}
    , u8x
, match

    int 
as
matchKey {[
1	,
""CRC32""
    ]
// trailing space 
  : 	 // @lengthOf(

  asx
,	} ,
	@lengthOf(  // " ++ [128512]%N ++ runes_of_ascii " emoji
    	a1  )
    string
x`it's`,repeat  // @lengthOf(
    char matchKey 
, 
	// a // b
      @leftPad // trailing space 
()
    @rightPad
( )
	match	metadata
    as Packet  {
    [
65535  ]
	:

Header  ,
}

,@tag(

255 
) 
zchar[3]
crc 
`u8 x,` , 
}

MetaData
rootA // trailing space 
{ i8i8
Pad,
    int8  packetx  `{ , }`,
	int8	stringy ,
    // `tick` ""quote"" 'q'
    	body _x , body

o
    , 
}
")).
Eval vm_compute in ("<<<M1462>>>" ++ check (runes_of_ascii "root packet repeatCount {
    @lengthOf(u8x)
    @calculatedFrom(""1"")
    @tag(007)
    repeat zchar[42] Header `" ++ [28040; 24687; 31867; 22411]%N ++ runes_of_ascii "`,
    match options1 as asx {
        255 : roots,
    },// a // b
    Header @lengthOf(options1) ``,
    Header @lengthOf(len) `{ , }`,
    o matchKey `u8 x,`,
}

packet packetx {
    zchar[255] crc,
}

packet Logon {
    body {
        float {
            repeat Logon trueish,
        },
    },
    @calculatedFrom(""`tick`"")
    repeat char[0] f32a,
    match body as float {
        [65535, """ ++ [28040; 24687]%N ++ runes_of_ascii """] : calculatedFrom,
    },
    u32 float @calculatedFrom(""" ++ [233]%N ++ runes_of_ascii "t" ++ [233]%N ++ runes_of_ascii """),
    string body @lengthOf(len) `
        `,
    u8x @calculatedFrom(""a\""b""),//	t
    float64 options1 @calculatedFrom(""" ++ [128512]%N ++ runes_of_ascii """) `it's`,
    //x
    // trailing space 
    match crc as chars {
        3 : options1,
        [10] : _x,
        [""{,}""] : options1,
        [""CRC32"", ""a\\"", ""a\\"", ""packet"", 7] : As,
    },
    i16 msg_type,
}")).
Eval vm_compute in ("<<<M1368>>>" ++ check (runes_of_ascii "options {
    FixedStringPadFromLeft = true;
    FixedStringPadChar = '0';
}
packet Leg {
    repeat InSym93 {
        zchar[3] Acct,
        string Side2,
        i32 Flags,
        f32 Note,
        i32 msgKind,
    },
    f64 Note,
    uint16 Px,
}
packet Quote {
    zchar[2] OrderId,
}
packet Ack {
    repeat string lastPx,
    zchar[4] price,
    uint32 OrderId,
    Quote,
    int8 Acct,
}
packet Fill {
    repeat Leg,
    @rightPad('0') char[11] Note,
    f64 Px,
    @rightPad('\x00') char[5] Flags,
    zchar[9] x,
    string msgKind,
}
root packet Order {
    Leg,
    repeat Ack,
    @rightPad('\x00') char[3] Side2,
    repeat char[1] seqNo,
    u16 clOrdID,
    match clOrdID as Body {
        198 : Leg,
        23 : Quote,
        13 : Ack,
        159 : Fill,
    },
    u32 venue @calculatedFrom(""CRC32""),
}
")).
Eval vm_compute in ("<<<M1813>>>" ++ check (runes_of_ascii "// top
options {
    // c1
    StringPrefixLenType = u8;// c5a
    // c5b
    ArrayPrefixLenType = u8;// c9
    FixedStringPadFromLeft = false;// c13
    FixedStringPadChar = ' ';// c17a
    // c17b
}

// c18
packet Ack {
    // c21
    char[] tag7,
}

// c25
packet Reject {
    InSym61 {
        // c30
        repeat Ack,
        zchar[4] f1,
    },
}// c41

packet Logout {
    // c44
    char[4] clOrdID,// c49
}

// c50
root packet Cancel {
    @leftPad(' ')
    char[10] price,
    // c63
    u8 x,
    u32 venue @lengthOf(Body),// c72
    match x as Body {
        // c77
        [92, 175] : Logout,
        26 : Reject,
        // c89a
        // c89b
        144 : Ack,
    },// c95
    u16 count @calculatedFrom(""CRC32""),
}")).
Eval vm_compute in ("<<<M288>>>" ++ check (runes_of_ascii "// packet A { u8 x, }
MetaData
    _x
{ //
char[] len
    ,}options
// @lengthOf(
//
{ repeatCount =""""
    ; }// c
root packet chars {
    char[ 255
]u8x,	repeat
/// triple
// c
string repeatCount
`" ++ [28040; 24687; 31867; 22411]%N ++ runes_of_ascii "` ,
repeat zchar[ 10
]
string_ , @tag( // trailing space 
255
    ) i8i8{// packet A { u8 x, }
options1
calculatedFrom `u8 x,`
,
    i64
len,
    roots // c
{ // @lengthOf(
repeat
    // a // b
    i64_ zchar //
,
    } ,
    }
, match chars as Packet	{
""a\""b"": Pad
,[ ""{,}""
    ]
:
calculatedFrom // a // b
,
""" ++ [233]%N ++ runes_of_ascii "t" ++ [233]%N ++ runes_of_ascii """
//x
// `tick` ""quote"" 'q'
: uint8x ,[ // packet A { u8 x, }
""`tick`"" ,0
    , 42
    ] : _x[ 0123456789	, ""\" ++ [233]%N ++ runes_of_ascii """
    ] :
i8i8,	} ,	}
")).
Eval vm_compute in ("<<<M1422>>>" ++ check (runes_of_ascii "root packet asx {
    tag body `u8 x,`,
}

packet string_ {
    @lengthOf(len)
    repeat zchar[42] u8x,
    zchar[0] asx,
}

packet int {
    repeat crc {
        zchar float,
        match i8i8 as rootA {
            255 : lengthOf,
            1 : lengthOf,
            3 : roots,
            3 : uint8x,
            0 : As,
            ""`tick`"" : repeatCount,
        },
        repeat char[] falsey,
        u64 lengthOf,
    },
    @lengthOf(crc)
    lengthOf i64_,
    leftPad `crlf
    line`,
}

root packet zchar {
    f32 _x @calculatedFrom(""a\\""),
}

MetaData chars {
    //
}")).
Eval vm_compute in ("<<<M65>>>" ++ check (runes_of_ascii "packet leftPad {
match A as x {""`tick`""
    : MetaDataX //
, [""it's""
,""\n"" ,
""" ++ [28040; 24687]%N ++ runes_of_ascii """ ] :
string_ , 0123456789 : o ,
[
""{,}"", ""x y"" ]
:uint8x	} , char[3	] msg_type// " ++ [128512]%N ++ runes_of_ascii " emoji
@lengthOf( u
//	t
// " ++ [27880; 37322]%N ++ runes_of_ascii "
)`two words` ,
    // c
    repeat
    int
// packet A { u8 x, }
// @lengthOf(
Foo ,
@rightPad
(
    )
@rightPad
( ' ' )
    Foo charz`{ , }`, }
MetaData A {
zchar[
0 ]A `{ , }`
    , float32 a1
    //
    ,
    char[]  pack , /// triple
string body `" ++ [233]%N ++ runes_of_ascii "` , string chars `doc` , int _x`two words`
,} options { Z9_ =
    uint16 ; }")).
Eval vm_compute in ("<<<M1237>>>" ++ check (runes_of_ascii "// top
options // c0
{ // c1
zchar // c2
= // c3
true // c4
; // c5
Pad // c6
= // c7
char[ // c8
00 // c9
] // c10
a1 // c11
= // c12
uint32 // c13
BodyLength // c14
= // c15
true // c16
; // c17
} // c18
root // c19
packet // c20
T // c21
{ // c22
@lengthOf( // c23
repeatCount // c24
) // c25
@tag( // c26
1 // c27
) // c28
@calculatedFrom( // c29
""a	b"" // c30
) // c31
string // c32
stringy // c33
@calculatedFrom( // c34
""\n"" // c35
) // c36
`u8 x,` // c37
, // c38
} // c39
")).
Eval vm_compute in ("<<<M1113>>>" ++ check (runes_of_ascii "// top
packet // c0
float // c1
{ // c2
@rightPad // c3
( // c4
) // c5
rootA // c6
@lengthOf( // c7
trueish // c8
) // c9
, // c10
stringy // c11
@lengthOf( // c12
matchKey // c13
) // c14
, // c15
char[ // c16
4294967296 // c17
] // c18
pack // c19
@lengthOf( // c20
uint8x // c21
) // c22
, // c23
} // c24
root // c25
packet // c26
trueish // c27
{ // c28
repeat // c29
uint64 // c30
u128 // c31
`line1
line2` // c32
, // c33
} // c34
")).
Eval vm_compute in ("<<<M1332>>>" ++ check (runes_of_ascii "options {
    LittleEndian = false;
    StringPrefixLenType = u8;
    ArrayPrefixLenType = u64;
    FixedStringPadFromLeft = false;
    FixedStringPadChar = ' ';
}
packet Reject {
    repeat char[4] seqNo,
    string Px,
}
root packet Trade {
    @rightPad('0') char[2] msgKind,
    repeat f64 price,
    InAcct79 {
        repeat Reject,
        zchar[7] OrderId,
    },
    Reject,
}
")).
Eval vm_compute in ("<<<M248>>>" ++ check (runes_of_ascii "packet a1
    { char[]	charz @calculatedFrom(
    //x
    """ ++ [28040; 24687]%N ++ runes_of_ascii """)
,
    uint8x`crlf
line`
    , uint64 T  `line1
line2` ,
    @leftPad (
'0')
// a // b
/// triple
@calculatedFrom( ""abc"" )
@tag( 3 ) match
int // a // b
as len
{ 0	:  chars, [ 10, ""a\\"",
1 ,0 ,10 , 0
    ] : body, 007 :
    // a // b
    rootA // a // b
, } , falsey options1 , }
")).
Eval vm_compute in ("<<<M1385>>>" ++ check (runes_of_ascii "options {
    LittleEndian = true;
}
packet Logon {
    u8 x,
}
packet Logout {
    u16 reason,
}
root packet Frame {
    u64 Kind,
    u64 Kind2,
    match Kind as Body {
        1 : Logon,
        [2, 3, 4] : Logout,
        100 : Logon,
    },
    match Kind2 as Trailer {
        0 : Logout,
    },
}
")).
Eval vm_compute in ("<<<M1613>>>" ++ check (runes_of_ascii "packet FooBar // c1
		{
	u8

    a
, 
    // c5
    }	// c6
  packet
    foo_bar 	 // c8a
  	// c8b
  {

// c9
u16
        // c10

b

,  // c12a
  // c12b
    }  // c13

root// c14
      packet R {  // c17a
	  // c17b

FooBar ,  
  // c19

	foo_bar 	 // c20
	,  }")).
Eval vm_compute in ("<<<M234>>>" ++ check (runes_of_ascii "//	t
options{
    chars=true As= char[]
// trailing space 
// " ++ [128512]%N ++ runes_of_ascii " emoji
; /// triple
x_y_z	= 7; // " ++ [27880; 37322]%N ++ runes_of_ascii "
i8i8 = true packetx = /// triple
' ' } root packet	x_y_z {repeat
    char[
    42
    //x
    ] //	t
Pad,
    }
// packet A { u8 x, }
")).
Eval vm_compute in ("<<<M1303>>>" ++ check (runes_of_ascii "// top
packet
    // c0
order_item // c1
{ u8 // c3
a // c4a
  // c4b
, // c5
} root // c7
packet
    // c8
new_order
    // c9
{ // c10
order_item
    // c11
,
    // c12
u8 // c13a
  // c13b
x ,
    // c15
} ")).
Eval vm_compute in ("<<<M169>>>" ++ check (runes_of_ascii "root packet
    // `tick` ""quote"" 'q'
    string_ { repeat
char[00]  rootA
    ,
// " ++ [128512]%N ++ runes_of_ascii " emoji
// " ++ [27880; 37322]%N ++ runes_of_ascii "
}
    MetaData u {i32 options1,
}MetaData
rootA
{
u16  chars	,
/// triple
//x
}
")).
Eval vm_compute in ("<<<M1256>>>" ++ check (runes_of_ascii "// top
root // c0
packet P // c2
{ // c3
hdr
    // c4
{
    // c5
u8 // c6
a // c7a
  // c7b
,
    // c8
} , // c10
u8 // c11
x // c12a
  // c12b
, }
    // c14
")).
Eval vm_compute in ("<<<M411>>>" ++ check (runes_of_ascii "packet uint8x
{ match pack pack
    as msg_type	{
    0123456789 :	float
}
,
} packet //	t
a1
    { } options {packetx
    = '\x00'	; u128= ""a	b""  ; }
")).
Eval vm_compute in ("<<<M451>>>" ++ check (runes_of_ascii "packet uint8x
{ match pack
    as msg_type	{
    0123456789 :	float
}
, ,
} packet //	t
a1
    { } options {packetx
    = '\x00'	; u128= ""a	b""  ; }
")).
Eval vm_compute in ("<<<M275>>>" ++ check (runes_of_ascii "MetaData
stringy { zchar[10 ] crc,  }
    packet u128
{ repeat uint16  BodyLength `// not a comment`, @lengthOf( falsey ) _x ,
char[ 42 ]  i8i8	, }

")).
Eval vm_compute in ("<<<M532>>>" ++ check (runes_of_ascii "packet uint8x
{ match pack
    as msg_type	{
    0123456789 :	float
}
,
} packet //	t
a1
    { } options {packetx
    = '\x00'	; u128= ""a	b""  ; )
")).
Eval vm_compute in ("<<<M1819>>>" ++ check (runes_of_ascii "

  MetaData
repeatCount 	 // c

{char[ 
42	// " ++ [27880; 37322]%N ++ runes_of_ascii "

	] 
	    // " ++ [128512]%N ++ runes_of_ascii " emoji
	MetaDataX , 
    // @lengthOf(
    	zchar[ 
// " ++ [27880; 37322]%N ++ runes_of_ascii "
//x
  0 ]
    asx ,}

")).
Eval vm_compute in ("<<<M705>>>" ++ check (runes_of_ascii "// @lengthOf(
packet i8i8 { u128 o , }
options { MetaDataX = true;
    BodyLength =""packet"" x_y_z= 007
crc //x
= = ""abc"" ;
    msg_type =
i16 }")).
Eval vm_compute in ("<<<M721>>>" ++ check (runes_of_ascii "// @lengthOf(
packet i8i8 { u128 o , }
options { MetaDataX = true;
    BodyLength =""packet"" x_y_z= 007
crc //x
= ""abc"" msg_type
    ; =
i16 }")).
Eval vm_compute in ("<<<M1263>>>" ++ check (runes_of_ascii "
packet B {u8 
a ,
}  root	packet P
{

    u8
K, 
u64	L
@lengthOf(

Body
)	, match
    K
as

    Body
{ 1

    : 
B

,
}	, }

")).
Eval vm_compute in ("<<<M1743>>>" ++ check (runes_of_ascii "
packet

    A  {match

    k
    as

    n
    { [
1	, 
22, 
""c c""
    ,
4,

    5
, ""f"" 
,7
,	8]	: B
    2 :C  }
    ,  }")).
Eval vm_compute in ("<<<M343>>>" ++ check (runes_of_ascii "packet Header { repeat char[  0123456789 ]BodyLength`" ++ [28040; 24687; 31867; 22411]%N ++ runes_of_ascii "`/// triple
, zchar[ 3
    ] chars
    ,// trailing space 
A, } //")).
Eval vm_compute in ("<<<M1144>>>" ++ check (runes_of_ascii "MetaData
// c
leftPad { chars MetaDataX , } packet repeatCount { char[ 255 ] uint8x `" ++ [233]%N ++ runes_of_ascii "` , } MetaData pack { As Foo , }")).
Eval vm_compute in ("<<<M1176>>>" ++ check (runes_of_ascii "MetaData leftPad { chars MetaDataX , } packet repeatCount { char[ 255 ] uint8x `" ++ [233]%N ++ runes_of_ascii "` , }
// c
MetaData pack { As Foo , }")).
Eval vm_compute in ("<<<M300>>>" ++ check (runes_of_ascii "packet
Logon  { repeat u {zchar { zchar[ 007
] a1
`` ,  x_y_z@calculatedFrom(
//
// " ++ [128512]%N ++ runes_of_ascii " emoji
""{,}""
    ), }, } ,}
")).
Eval vm_compute in ("<<<M911>>>" ++ check (runes_of_ascii "packet A {
  match k as n {
    [""a"", 22, ""c c"", 4, ""e"", 66, ""g"", 8, ""i"", 10, ""k"", 12] : B
    2 : C
  },
}")).
Eval vm_compute in ("<<<M913>>>" ++ check (runes_of_ascii "packet A {
  match k as n {
    [1, 22, ""c c"", 4, 5, ""f"", 7, 8, ""i"", 10, 11, ""l""] : B
    2 : C
  },
}")).
Eval vm_compute in ("<<<M875>>>" ++ check (runes_of_ascii "packet A {
  match k as n {
    [""a"", ""bb"", 007, ""d"", ""e"", 66, ""g"", ""h"", 9] : B,
    2 : C
  },
}")).
Eval vm_compute in ("<<<M389>>>" ++ check (runes_of_ascii "root packet SimpleMessage {
    uint16 MsgType `" ++ [28040; 24687; 31867; 22411]%N ++ runes_of_ascii "`,
    string JsonBody `Json" ++ [23383; 31526; 20018; 28040; 24687; 20307]%N ++ runes_of_ascii "`,
}")).
Eval vm_compute in ("<<<M629>>>" ++ check (runes_of_ascii "
packet
    asx {match u128 as lengthOf
{
//	t
// `tick` ""quote"" 'q'
255 : x ,
    } ~ ,	}")).
Eval vm_compute in ("<<<M599>>>" ++ check (runes_of_ascii "
packet
    asx {match u128 as lengthOf
{
//	t
// `tick` ""quote"" 'q'
255 x : ,
    } ,	}")).
Eval vm_compute in ("<<<M1307>>>" ++ check (runes_of_ascii "  packet
orderItem 
{
	u8
    a
    , 
}root
packet
newOrder{ orderItem	, 
u8
x
	,
}")).
Eval vm_compute in ("<<<M1847>>>" ++ check (runes_of_ascii "MetaData repeatCount {
    char[42] MetaDataX,
    // @lengthOf(
    zchar[0] asx,
}")).
Eval vm_compute in ("<<<M616>>>" ++ check (runes_of_ascii "
packet
    asx {match u128 as lengthOf
{
//	t
// `tick` ""quote"" 'q'
255 : x ,")).
Eval vm_compute in ("<<<M606>>>" ++ check (runes_of_ascii "
packet
    asx {match u128 as lengthOf
{
//	t
// `tick` ""quote"" 'q'
255 :")).
Eval vm_compute in ("<<<M790>>>" ++ check (runes_of_ascii "packet A {
  match k as n {
    [""a"", ""bb"", ""c c""] : B
    2 : C
  },
}")).
Eval vm_compute in ("<<<M1280>>>" ++ check (runes_of_ascii "root packet P {
    u16 a,
    u32 Sum @calculatedFrom(""CRC32""),
}
")).
Eval vm_compute in ("<<<M1126>>>" ++ check (runes_of_ascii "// top
MetaData
    // c0
u
    // c1
{
    // c2
}
    // c3
")).
Eval vm_compute in ("<<<M1598>>>" ++ check (runes_of_ascii "options {
    a = ""x\
        y"";
    b = ""x\
        y""
}")).
Eval vm_compute in ("<<<M1403>>>" ++ check (runes_of_ascii "options {
    Logon = """ ++ [28040; 24687]%N ++ runes_of_ascii """;
    BodyLength = false;
}")).
Eval vm_compute in ("<<<M332>>>" ++ check (runes_of_ascii "MetaData o
    { } MetaData T  {
    } options { }")).
Eval vm_compute in ("<<<M1286>>>" ++ check (runes_of_ascii "

  root
    packet P{ 
string
	s

    , }
")).
Eval vm_compute in ("<<<M337>>>" ++ check (runes_of_ascii "//	t
options
// c
// " ++ [128512]%N ++ runes_of_ascii " emoji
{
    } // c")).
Eval vm_compute in ("<<<M1068>>>" ++ check (runes_of_ascii "options { a = 1 // c b = 2; // d}")).
Eval vm_compute in ("<<<M1413>>>" ++ check (runes_of_ascii "root
	packet A{  u8
	x	`
`
,
}

")).
Eval vm_compute in ("<<<M1033>>>" ++ check (runes_of_ascii "packet A {
 u8 x `d" ++ [11]%N ++ runes_of_ascii "`, // c" ++ [11]%N ++ runes_of_ascii "
}")).
Eval vm_compute in ("<<<M1852>>>" ++ check (runes_of_ascii "  packet 
A {  }
    // c" ++ [12]%N)).
Eval vm_compute in ("<<<M1512>>>" ++ check (runes_of_ascii "root packet falsey {
}")).
Eval vm_compute in ("<<<M1651>>>" ++ check (runes_of_ascii "  // only a comment
")).
Eval vm_compute in ("<<<M996>>>" ++ check (runes_of_ascii "packet A {
}
// c" ++ [5760]%N)).
Eval vm_compute in ("<<<M1666>>>" ++ check (runes_of_ascii "// trailing space ")).
Eval vm_compute in ("<<<M1925>>>" ++ check (runes_of_ascii "packet falsey {
}")).
Eval vm_compute in ("<<<M1447>>>" ++ check (runes_of_ascii "packet x {
}")).
Eval vm_compute in ("<<<M1025>>>" ++ check (runes_of_ascii "// c" ++ [8287]%N)).
