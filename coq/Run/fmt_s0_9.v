From FP Require Import Lexer Parser ShowPT Digest Formatter.
From Coq Require Import String List NArith.
Import ListNotations.
Open Scope string_scope.
Set Printing Width 100000000.
Set Printing Depth 100000000.
Definition show_fres (r : fres) : string :=
  match r with
  | FOk s => "OK:" ++ sh_escaped s ""
  | FErr s => "ERR:" ++ sh_escaped s ""
  | FPanic p => "PANIC:" ++ p
  end.
Definition check (rs : list rune) : string := digest (show_fres (format_res rs)).
Definition full (rs : list rune) : string := show_fres (format_res rs).
Eval vm_compute in ("<<<M1572>>>" ++ check (runes_of_ascii "root packet repeatCount {
    @tag(65535)
    A {
        u128,
        u8x {
            repeatCount @lengthOf(As),
            i32 _x @calculatedFrom(""" ++ [128512]%N ++ runes_of_ascii """),
        },
        /// triple
    },
}

options {
    //x
    u128 = 7;
    asx = 0123456789
    //
}

packet len {
    int8 u128 @lengthOf(a1),
    @calculatedFrom(""" ++ [233]%N ++ runes_of_ascii "t" ++ [233]%N ++ runes_of_ascii """)
    @leftPad()
    @tag(1)
    //
    msg_type {
        // " ++ [128512]%N ++ runes_of_ascii " emoji
        match leftPad as BodyLength {
            1 : Foo,
            [007, 255] : zchar,
            0 : As,
            [10, 3, 7, ""abc"", 42] : A,
            [65535] : calculatedFrom,
        },
    },
    @lengthOf(falsey)
    repeat BodyLength {
        char[7] u128 @calculatedFrom(""x y""),
    },
    @leftPad('\x00')
    roots @calculatedFrom(""{,}""),
    i8i8 @lengthOf(charz),
    char[7] Header,
    zchar[42] pack,
    repeat asx float `{ , }`,
}

MetaData float {
    u64 len,
    uint32 MetaDataX `// not a comment`,
    uint64 Header,
    crc Logon,
}

packet u8x {
    Pad _x `u8 x,`,
    @calculatedFrom(""packet"")
    repeat BodyLength metadata,
    //
    /// triple
    @tag(00)
    repeat u8x {
        msg_type o `two words`,
        uint8x @lengthOf(_x),
        string_ {
            repeat string string_,
            repeat string body `a\`,
            // trailing space 
            repeat A `" ++ [28040; 24687; 31867; 22411]%N ++ runes_of_ascii "`,
            match u8x as u8x {
                ""// no comment"" : options1,
                [
                    ""abc"", 10, ""// no comment"", ""abc"", ""CRC32"",
                    ""CRC32"", ""a	b"", ""packet""
                ] : i64_,
                ["""", ""1""] : float,
                ""1"" : crc,
                0 : Foo,
                ""x y"" : A,
                // a // b
            },
        },
    },
    char[0] len,
    body @calculatedFrom(""" ++ [233]%N ++ runes_of_ascii "t" ++ [233]%N ++ runes_of_ascii """) `{ , }`,
    @tag(0)
    i32 a1 `line1
    line2`,
    @tag(4294967296)
    @tag(7)
    body,
}")).
Eval vm_compute in ("<<<M1829>>>" ++ check (runes_of_ascii "//	t
packet MetaDataX {
    @leftPad()
    repeat float64 asx,
}

MetaData Foo {
    // a // b
    char[65535] Pad,
}

packet body {
    match asx as charz {
        // `tick` ""quote"" 'q'
        10 : u8x,
        ""it's"" : leftPad,
        3 : metadata,
        ""it's"" : x,
        [65535, """ ++ [233]%N ++ runes_of_ascii "t" ++ [233]%N ++ runes_of_ascii """] : u128,
        10 : len,
    },
    repeat f32 rootA ``,// 50% %s
    @leftPad(' ')
    repeat i64 BodyLength,
    repeatCount {
        i16 crc @lengthOf(u128),
    },
    u16 u @lengthOf(f32a) `// not a comment`,// trailing space 
    len {
        match Logon as Foo {
            """ ++ [233]%N ++ runes_of_ascii "t" ++ [233]%N ++ runes_of_ascii """ : stringy,
            10 : msg_type,
            //	t
            [
                ""\n"", ""`tick`"", ""abc"", """", 007,
                1, ""a\""b""
            ] : i64_,
            255 : T,
            ""{,}"" : f32a,
        },
        string tag @lengthOf(Z9_),
        // a // b
        u32 charz `crlf
        line`,
        u8x @lengthOf(rootA),
    },
    float,
    int8 repeatCount @lengthOf(f32a) `crlf
    line`,
    zchar[7] BodyLength @lengthOf(string_),
}

packet u128 {
    x `// not a comment`,
}//

packet x {
    A `doc`,
    Packet @calculatedFrom(""\" ++ [233]%N ++ runes_of_ascii """) `say ""hi""`,
    repeat string asx,
    @lengthOf(MetaDataX)
    repeat char[4294967296] string_ `u8 x,`,
    @lengthOf(charz)
    char[0123456789] f32a `say ""hi""`,
}")).
Eval vm_compute in ("<<<M209>>>" ++ check (runes_of_ascii "root packet o { repeat zchar[
65535
    ] o, repeat char[ // trailing space 
0 ] zchar,int64 x `
`
//
//
,// a // b
string msg_type // a // b
,
    // c
    @leftPad ('\x00' ) repeat
calculatedFrom
    // trailing space 
    A ,
string Header@lengthOf( a1)`crlf
line`  ,repeat crc
{ f32 Pad,
    match
charz
    /// triple
    as
Logon
    //
    { [ ""1"" , // c
""CRC32"" ,	""" ++ [28040; 24687]%N ++ runes_of_ascii """ , 00,
""1"" , ""{,}"" , """ ++ [28040; 24687]%N ++ runes_of_ascii """	, ""{,}""	]
// packet A { u8 x, }
//x
: uint8x,
[ 3 , ""CRC32""
] :
    // a // b
    lengthOf , 42 : u128 , }
    ,  Z9_ ,
    float64
u128
`{ , }` , }
,
    u16 calculatedFrom
,
zchar[
3 ]
calculatedFrom //	t
,
@tag( 10) match charz as _x {
    ""abc""
    /// triple
    :
// `tick` ""quote"" 'q'
//	t
zchar
, ""packet"" : roots ,255 //x
: options1 , ""1""	: uint8x// packet A { u8 x, }
,
    // 50% %s
    }
    // trailing space 
    ,
}MetaData
len { uint8x len , } packet options1{ @tag( 10
    ) i8	roots@lengthOf( lengthOf  )	,
char[
1 ]u128 `" ++ [28040; 24687; 31867; 22411]%N ++ runes_of_ascii "` // @lengthOf(
, a1 tag
    `say ""hi""` ,
    string
    asx
`// not a comment` ,
    } packet calculatedFrom{ int64
    a1//x
,
// a // b
//x
}")).
Eval vm_compute in ("<<<M1480>>>" ++ check (runes_of_ascii "options	{
LittleEndian=true ;
StringPrefixLenType  = u8 ; ArrayPrefixLenType

= u8 
; FixedStringPadFromLeft =true
    ;

FixedStringPadChar
    =	'0' ;
	}

packet
	Logon  {
repeat	i8  Ref

    ,

    @rightPad (

'0'  )char[
    8]

msgKind ,repeat
InOrderid72 { 
u8 Side2
,

    uint32

    Qty
, repeat InPrice27{ repeat 
char[4
]  Acct
	,

    u64
sym	,
} ,

zchar[
    4]
    clOrdID
,int16

lastPx
	,
    InAcct22 {
repeat

    char[	3

]

    OrderId,}
,
    }
, int64

Px	, } 
packet Fill

{ uint16 
Qty

,
repeat char[ 1 ]
Flags

    ,i8 Ref

, } packet	Logout
{
@leftPad(
'0'

    ) char[
3]
    x, int8
    f1  , Logon 
, uint16 venue
,
zchar[  2 ]

    Px
,
	} packet 
Reject	{
} root packet 
Leg

    {	Fill  ,u16

msgKind 
,
    match
    msgKind
as
Body
    {[182
,  83

]

:
	Fill 
,

    199

    :
Reject,
    137
:
	Logout  ,	35:Logon ,}	,

u32
lastPx@calculatedFrom( 
""CRC32""

    ),
}")).
Eval vm_compute in ("<<<M1505>>>" ++ check (runes_of_ascii "packet i8i8 {
    // trailing space 
    // " ++ [27880; 37322]%N ++ runes_of_ascii "
    MetaDataX @lengthOf(chars) `" ++ [233]%N ++ runes_of_ascii "`,// 50% %s
    char[] u128 @lengthOf(u8x),
    @lengthOf(T)
    float64 repeatCount,
    @tag(00)
    MetaDataX,
    // a // b
    // trailing space 
    uint64 chars `tab	here`,
    string_ @lengthOf(As) ``,
    zchar[00] asx @lengthOf(metadata) `line1
        line2`,
    @lengthOf(charz)
    charz f32a `" ++ [28040; 24687; 31867; 22411]%N ++ runes_of_ascii "`,
    @rightPad('\x00')
    repeat BodyLength tag,
}

packet repeatCount {
    crc stringy,
}

options {
    zchar = char[];
    options1 = false
    repeatCount = ""a	b""
    body = ""`tick`""
}

// a // b
//x
MetaData MetaDataX {
    Pad repeatCount `u8 x,`,
    char[42] f32a ``,
    _x Z9_,
}

packet Logon {
    @tag(007)
    o {
        char Packet @lengthOf(repeatCount),
    },
}// a // b")).
Eval vm_compute in ("<<<M1899>>>" ++ check (runes_of_ascii "// top
packet A {
    // c2a
    // c2b
    u8 a,// c5
}// c6a

// c6b
packet B {
    // c9
    u16 b,
}// c13a

// c13b
packet C {
    // c16a
    // c16b
    u32 c,
}

// c20
root packet M {
    // c24
    u16 Kc,// c27a
    // c27b
    u16 Kb,// c30a
    // c30b
    u16 Ka,
    // c33
    match Kc as X {
        9 : A,
        10 : B,
        // c46
    },// c48a
    // c48b
    match Kb as Y {
        2 : C,
        // c57a
        // c57b
        1 : A,
        // c61
    },// c63a
    // c63b
    match Ka as Z {
        // c68
        1 : B,
        // c72a
        // c72b
    },// c74a
    // c74b
    A,// c76
    B,// c78a
    // c78b
    C,// c80a
    // c80b
}// c81")).
Eval vm_compute in ("<<<M1870>>>" ++ check (runes_of_ascii "options {
    stringy = zchar[0123456789]
}

MetaData charz {
    zchar[42] calculatedFrom,
    // `tick` ""quote"" 'q'
    char[65535] trueish,
    float64 roots `doc`,
}

packet calculatedFrom {
    @calculatedFrom(""" ++ [128512]%N ++ runes_of_ascii """)
    string crc `crlf
        line`,
    MetaDataX {
        Packet @lengthOf(packetx) `{ , }`,// trailing space 
        repeat trueish As,
    },
    int64 T,// `tick` ""quote"" 'q'
    match uint8x as i64_ {
        00 : _x,
        65535 : Z9_,
        ""1"" : u8x,
        007 : Z9_,
        /// triple
        255 : matchKey,
        ""1"" : crc,
    },// " ++ [128512]%N ++ runes_of_ascii " emoji
}// @lengthOf(")).
Eval vm_compute in ("<<<M1437>>>" ++ check (runes_of_ascii "

  // 50% %s

  packet
	crc{ char[65535 ]
    Foo`" ++ [233]%N ++ runes_of_ascii "`	, calculatedFrom Header ,
stringy
MetaDataX  , @lengthOf(
//
    BodyLength ) 
lengthOf
	{  f32
	u

`100% of %d`  ,

T
@lengthOf(
	leftPad)
	,  f32
// 50% %s
	  f32a `it's`	, zchar[  255
]  crc
    ,  }
,
Pad
@calculatedFrom(
	""abc"") , @lengthOf(
repeatCount

) @rightPad

    (	) 
@tag( 
1 // trailing space 
	  )//	t
  char[7
]

MetaDataX @calculatedFrom(

""\n"" )	,
	repeat

    uint64
pack,
	@calculatedFrom(	""CRC32"")repeat
    x_y_z  msg_type
    `say ""hi""` 
,
	}

")).
Eval vm_compute in ("<<<M370>>>" ++ check (runes_of_ascii "// 50% %s
packet crc
{  char[65535	] Foo
    `" ++ [233]%N ++ runes_of_ascii "` , calculatedFrom	Header, stringy MetaDataX, @lengthOf(
    //
    BodyLength
    ) lengthOf  { f32 u `100% of %d`
,T
    @lengthOf(
leftPad )	,f32
    // 50% %s
    f32a `it's`
,
    zchar[	255 ]crc , } ,Pad
    @calculatedFrom( ""abc"" ) ,
    @lengthOf(
repeatCount  ) @rightPad ( ) @tag( 1// trailing space 
) //	t
char[
7 ] MetaDataX
@calculatedFrom(
""\n"" ) ,	repeat uint64 pack,
@calculatedFrom(
""CRC32"") repeat x_y_z
msg_type `say ""hi""` , }")).
Eval vm_compute in ("<<<M1369>>>" ++ check (runes_of_ascii "options {
    LittleEndian = true;
    ArrayPrefixLenType = u32;
    FixedStringPadChar = ' ';
}
packet Order {
    char[5] seqNo,
    uint8 Px,
}
packet Logon {
    @rightPad('\x00') char[8] Flags,
    zchar[3] count,
    repeat Order,
}
root packet Party {
    repeat Logon,
    repeat char[1] x,
    u32 price,
    u32 Side2 @lengthOf(Body),
    match price as Body {
        49 : Order,
        196 : Logon,
    },
    u32 f1 @calculatedFrom(""CRC32""),
}
")).
Eval vm_compute in ("<<<M1453>>>" ++ check (runes_of_ascii "options {
    LittleEndian = false;
    StringPrefixLenType = u16;
    FixedStringPadFromLeft = true;
    FixedStringPadChar = '0';
}

packet Fill {
}

root packet Order {
    repeat Fill,
    char[] clOrdID,
    @rightPad('\x00')
    char[4] lastPx,
    char[] OrderId,
    int8 tag7,
    u8 f1,
    u16 count @lengthOf(Body),
    match f1 as Body {
        [159, 49] : Fill,
    },
    u16 Tail @calculatedFrom(""CRC32""),
}")).
Eval vm_compute in ("<<<M1493>>>" ++ check (runes_of_ascii "root packet a1 {
    i8 A @calculatedFrom(""\" ++ [233]%N ++ runes_of_ascii """),
    @lengthOf(int)
    @lengthOf(len)
    @lengthOf(f32a)
    string u8x `say ""hi""`,
    char[00] As @lengthOf(Z9_),
    repeat leftPad,
    repeat x_y_z,
    @rightPad('0')
    f64 lengthOf @calculatedFrom(""`tick`"") `100% of %d`,
    repeat char Foo,
    match msg_type as x_y_z {
        [255, 7, 10, ""a	b""] : Foo,
        // a // b
    },
}")).
Eval vm_compute in ("<<<M67>>>" ++ check (runes_of_ascii "
options { } options { string_
=
    char[255 ] ;}packet
    stringy{
    match
len as	i8i8  { ""\" ++ [233]%N ++ runes_of_ascii """ :// " ++ [27880; 37322]%N ++ runes_of_ascii "
float
    , """ ++ [233]%N ++ runes_of_ascii "t" ++ [233]%N ++ runes_of_ascii """
: roots , """ ++ [233]%N ++ runes_of_ascii "t" ++ [233]%N ++ runes_of_ascii """ : // " ++ [27880; 37322]%N ++ runes_of_ascii "
lengthOf ,
65535: T """ ++ [233]%N ++ runes_of_ascii "t" ++ [233]%N ++ runes_of_ascii """ : falsey ,	4294967296: //
o }
,
    @lengthOf( Pad) @tag( 3 ) match options1 as As { [ ""\n"" , 255
    , 42 ,""CRC32"" ,	""CRC32"" ] :
roots// @lengthOf(
, 42:
pack, """ ++ [233]%N ++ runes_of_ascii "t" ++ [233]%N ++ runes_of_ascii """ : Z9_,
} , }")).
Eval vm_compute in ("<<<M131>>>" ++ check (runes_of_ascii "MetaData  u
{ f64 roots , zchar trueish,}  root
    packet Foo // @lengthOf(
{ packetx  ,
repeat zchar[ // trailing space 
3 ]
    // " ++ [128512]%N ++ runes_of_ascii " emoji
    msg_type `
` ,  } root packet Header { match u8x
as options1 {
4294967296 :metadata , // `tick` ""quote"" 'q'
4294967296
    :
    // trailing space 
    float , }
    ,//x
}")).
Eval vm_compute in ("<<<M1811>>>" ++ check (runes_of_ascii "packet roots {
    pack ``,//	t
    T @lengthOf(tag),
    x {
        match len as packetx {
            [10] : rootA,
        },
        repeat string leftPad `
                `,//	t
        char[7] Packet @calculatedFrom(""a	b""),
        char[] uint8x ``,
    },
    uint16 leftPad,
}")).
Eval vm_compute in ("<<<M1492>>>" ++ check (runes_of_ascii "MetaData Logon {
    char[255] msg_type,
    A msg_type,
    char[4294967296] u,// 50% %s
}

root packet uint8x {
    match _x as len {
        255 : a1,
        10 : options1,
    },
    crc,
    @lengthOf(Header)
    repeat roots `say ""hi""`,
    //
    // c
}")).
Eval vm_compute in ("<<<M489>>>" ++ check (runes_of_ascii "packet
    asx { @calculatedFrom(
""""  ) @tag( 255 )repeat
// packet A { u8 x, }
// trailing space 
int16 u8x
,
@tag(
    //
    007 )
    @tag( 0
    /// triple
    ) @tag( options) u
    @lengthOf( T ),
// `tick` ""quote"" 'q'
//x
} // " ++ [128512]%N ++ runes_of_ascii " emoji")).
Eval vm_compute in ("<<<M517>>>" ++ check (runes_of_ascii "packet
    asx { @calculatedFrom(
""""  ) @tag( 255 )repeat
// packet A { u8 x, }
// trailing space 
int16 u8x
,
@tag(
    //
    007 )
    @tag( 0
    /// triple
    ) @tag( 1) u
    @lengthOf( T ), ,
// `tick` ""quote"" 'q'
//x
} // " ++ [128512]%N ++ runes_of_ascii " emoji")).
Eval vm_compute in ("<<<M449>>>" ++ check (runes_of_ascii "packet
    asx { @calculatedFrom(
""""  ) @tag( 255 )repeat
// packet A { u8 x, }
// trailing space 
int16 u8x
]
@tag(
    //
    007 )
    @tag( 0
    /// triple
    ) @tag( 1) u
    @lengthOf( T ),
// `tick` ""quote"" 'q'
//x
} // " ++ [128512]%N ++ runes_of_ascii " emoji")).
Eval vm_compute in ("<<<M486>>>" ++ check (runes_of_ascii "packet
    asx { @calculatedFrom(
""""  ) @tag( 255 )repeat
// packet A { u8 x, }
// trailing space 
int16 u8x
,
@tag(
    //
    007 )
    @tag( 0
    /// triple
    ) @tag( ) u
    @lengthOf( T ),
// `tick` ""quote"" 'q'
//x
} // " ++ [128512]%N ++ runes_of_ascii " emoji")).
Eval vm_compute in ("<<<M248>>>" ++ check (runes_of_ascii "packet roots
{ @lengthOf(	Header ) @tag( 4294967296 //	t
) repeat leftPad `
` , calculatedFrom
    // packet A { u8 x, }
    {
repeat
    char[] As , } , //	t
char[] charz
@calculatedFrom( //
""" ++ [28040; 24687]%N ++ runes_of_ascii """	) ,
    uint8x `tab	here` ,}")).
Eval vm_compute in ("<<<M1606>>>" ++ check (runes_of_ascii "
packet

zchar 
{@lengthOf(
charz

) zchar@lengthOf(
	Header	)
	`
`  ,
	u8
    calculatedFrom
, @calculatedFrom( ""x y"" 
) u128 @calculatedFrom( ""it's""  )

, }
options

{  float= 007  uint8x =  ""`tick`""; } ")).
Eval vm_compute in ("<<<M1423>>>" ++ check (runes_of_ascii "

  packet 
asx

    {

    f32
u
@calculatedFrom(

    ""packet"")
,
}
MetaData  tag

    {	zchar[
	007 ]

pack  ,

zchar[

    00 ]	// packet A { u8 x, }
len  `
`

    , } ")).
Eval vm_compute in ("<<<M1585>>>" ++ check (runes_of_ascii "options {
    Packet = u16;
    f32a = ""a\""b""
    lengthOf = '0';
    uint8x = i8
    uint8x = '\x00';
}

packet rootA {
}

options {
    uint8x = ""\" ++ [233]%N ++ runes_of_ascii """
}

MetaData Packet {
}")).
Eval vm_compute in ("<<<M1779>>>" ++ check (runes_of_ascii "
packet  A
    {u16
    len @lengthOf(

    body
) 
`100% of %s %d %v` 
, 
u32
crc

    @calculatedFrom(  ""CRC32"" )

    `100% of %s %d %v`
,
	string body  ,
}

")).
Eval vm_compute in ("<<<M1800>>>" ++ check (runes_of_ascii "packet A {
    match k as n {
        [
            ""a"", ""bb"", 007, ""d"", ""e"",
            66, ""g"", ""h"", 9, ""j"",
            ""k""
        ] : B,
        2 : C,
    },
}")).
Eval vm_compute in ("<<<M633>>>" ++ check (runes_of_ascii "MetaData u
    { } MetaData o
{ float uint8x
`100% of %d` ,repeatCount u8x, string_ leftPad
, Foo
    i32 , int64 x `two words` , calculatedFrom
stringy `a\` ,
}
")).
Eval vm_compute in ("<<<M1403>>>" ++ check (runes_of_ascii "packet A {
    match k as n {
        [
            ""a"", 22, ""c c"", 4, ""e"",
            66, ""g"", 8, ""i"", 10,
            ""k""
        ] : B,
        2 : C,
    },
}")).
Eval vm_compute in ("<<<M1951>>>" ++ check (runes_of_ascii "options  {
Packet
=
true
msg_type  =  false 	 // 50% %s
  	Logon // @lengthOf(
	=
true
packetx 
	    //
// `tick` ""quote"" 'q'
  = 
""abc""	;
pack =
	' '}
")).
Eval vm_compute in ("<<<M1309>>>" ++ check (runes_of_ascii "
packet	A
	{

u8  a

,

}
packet B
    {

u16	b

    ,}root

    packet
	P

{ u8

    K
,
    match  K as M 
{
1 :
A, 1

    :
	B , 
} , } ")).
Eval vm_compute in ("<<<M1468>>>" ++ check (runes_of_ascii "packet A {
    Inner {
        u8 x `
                `,
        Deep {
            u8 y `
                        `,
        },
    },
}")).
Eval vm_compute in ("<<<M670>>>" ++ check (runes_of_ascii "MetaData u
    { } MetaData o
{ float uint8x
`100% of %d` ,repeatCount u8x, string_ leftPad
, i32
    Foo , int64 x `two words` ,")).
Eval vm_compute in ("<<<M1479>>>" ++ check (runes_of_ascii "options {
}

options {
    MetaDataX = char;
}

MetaData Pad {
    i8 metadata,
    string stringy,
    int8 As `{ , }`,
}")).
Eval vm_compute in ("<<<M1575>>>" ++ check (runes_of_ascii "
options

    {  x

    =	""a\\"" ; }
    MetaData u	{
u8  falsey 
,

crc
    zchar

,
    }
    /// triple
 
")).
Eval vm_compute in ("<<<M1230>>>" ++ check (runes_of_ascii "options { } options { MetaDataX = char ; } MetaData Pad { i8
// c
metadata , string stringy , int8 As `{ , }` , }")).
Eval vm_compute in ("<<<M941>>>" ++ check (runes_of_ascii "packet A {
    u16 len @lengthOf(body) `a

b`,
    u32 crc @calculatedFrom(""CRC32"") `a

b`,
    string body,
}")).
Eval vm_compute in ("<<<M266>>>" ++ check (runes_of_ascii "options { /// triple
msg_type =4294967296 ;
chars  = 4294967296 ;}
options{
// c
//
asx =
    ""\n"" }
")).
Eval vm_compute in ("<<<M954>>>" ++ check (runes_of_ascii "packet A {
    Inner {
        u8 x `
x`,
        Deep {
            u8 y `
x`,
        },
    },
}")).
Eval vm_compute in ("<<<M72>>>" ++ check (runes_of_ascii "
root
packet string_ {  }options { i64_ = '\x00'
    ; Pad =
int32 ; calculatedFrom = 255
    }")).
Eval vm_compute in ("<<<M1825>>>" ++ check (runes_of_ascii "packet A {
    match k as n {
        [""a"", 22, ""c c"", 4, ""e""] : B,
        2 : C,
    },
}")).
Eval vm_compute in ("<<<M246>>>" ++ check (runes_of_ascii "
MetaData calculatedFrom {
x
    float
,
//x
//	t
T lengthOf
, }root packet Pad
{ }
")).
Eval vm_compute in ("<<<M1439>>>" ++ check (runes_of_ascii "
packet

A
{
match 
k

as
    n {
[ ""a"" ,

    ""bb"" 
]

    : B 2: C
}  ,  }")).
Eval vm_compute in ("<<<M914>>>" ++ check (runes_of_ascii "packet A { Inner { match k as n { [1,22,007,4,5,66,7,8,9,10,11,12] : B, }, }, }")).
Eval vm_compute in ("<<<M143>>>" ++ check (runes_of_ascii "options {
    // `tick` ""quote"" 'q'
    x_y_z = // " ++ [128512]%N ++ runes_of_ascii " emoji
zchar[ 10 ]
}
")).
Eval vm_compute in ("<<<M812>>>" ++ check (runes_of_ascii "packet A {
  match k as n {
    [1, 22, 007, 4, 5] : B
    2 : C
  },
}")).
Eval vm_compute in ("<<<M849>>>" ++ check (runes_of_ascii "packet A { Inner { match k as n { [1,22,007,4,5,66,7] : B, }, }, }")).
Eval vm_compute in ("<<<M776>>>" ++ check (runes_of_ascii "packet A {
  match k as n {
    [1, 22] : B,
    2 : C
  },
}")).
Eval vm_compute in ("<<<M928>>>" ++ check (runes_of_ascii "packet A {
    B b `
`,
    B `
`,
    repeat B bs `
`,
}")).
Eval vm_compute in ("<<<M430>>>" ++ check (runes_of_ascii "packet
    asx { @calculatedFrom(
""""  ) @tag( 255")).
Eval vm_compute in ("<<<M984>>>" ++ check (runes_of_ascii "options {
    a = ""x\
y"";
    b = ""x\
y""
}")).
Eval vm_compute in ("<<<M1451>>>" ++ check (runes_of_ascii "

  packet
T

    {  string pack, 
} ")).
Eval vm_compute in ("<<<M1100>>>" ++ check (runes_of_ascii "options { a = 1; // a
 b = 2 // b
 }")).
Eval vm_compute in ("<<<M926>>>" ++ check (runes_of_ascii "root packet A {
    u8 x `a
b`,
}")).
Eval vm_compute in ("<<<M585>>>" ++ check (runes_of_ascii "MetaData u
    { } MetaData o
{")).
Eval vm_compute in ("<<<M939>>>" ++ check (runes_of_ascii "packet A {
    u8 x `a

b`,
}")).
Eval vm_compute in ("<<<M1747>>>" ++ check (runes_of_ascii "  // c" ++ [11]%N ++ runes_of_ascii "
		packet

A{
}
")).
Eval vm_compute in ("<<<M767>>>" ++ check ([65533]%N ++ runes_of_ascii ">" ++ [65533; 3; 65533; 65533; 65533]%N ++ runes_of_ascii "z" ++ [29]%N ++ runes_of_ascii "(" ++ [646; 65533]%N ++ runes_of_ascii "5" ++ [65533]%N ++ runes_of_ascii "4_" ++ [65533; 15; 65533]%N ++ runes_of_ascii "i" ++ [65533; 65533]%N)).
Eval vm_compute in ("<<<M1000>>>" ++ check (runes_of_ascii "packet A {
}
// c" ++ [12288]%N)).
Eval vm_compute in ("<<<M1093>>>" ++ check (runes_of_ascii "MetaData M {
}// c")).
Eval vm_compute in ("<<<M1172>>>" ++ check (runes_of_ascii "packet x {
// c
}")).
Eval vm_compute in ("<<<M730>>>" ++ check (runes_of_ascii "// a
// b
")).
Eval vm_compute in ("<<<M757>>>" ++ check (runes_of_ascii "char")).
